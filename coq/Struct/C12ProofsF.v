(* C12 (extension) - proofs, part F: unreferenced-resource removal (Struct/ResPrune.v) never removes from a page's /Font or
   /XObject dictionary a name its content uses or a form without /Resources painted on it uses (Struct/ResPruneSpec.v).
   For every page and every nesting of form XObjects (induction on the node tree). *)
From QV Require Import Base.Bytes Struct.ResPrune Struct.ResPruneSpec.
From Coq Require Import List NArith Bool Lia.
Import ListNotations.
Local Open Scope N_scope.

Section RpnInd.
  Variable P : rpn_node -> Prop.
  Hypothesis H : forall id isform bad uses hasres fonts xobjs,
    Forall (fun kc => P (snd kc)) xobjs -> P (RpnNode id isform bad uses hasres fonts xobjs).
  Fixpoint rpn_node_ind2 (n : rpn_node) : P n :=
    match n with
    | RpnNode id isform bad uses hasres fonts xobjs =>
        H id isform bad uses hasres fonts xobjs
          ((fix go (l : list (N * rpn_node)) : Forall (fun kc => P (snd kc)) l :=
              match l with
              | [] => Forall_nil _
              | kc :: l' => Forall_cons kc (rpn_node_ind2 (snd kc)) (go l')
              end) xobjs)
    end.
End RpnInd.

Lemma rpn_mem_In : forall x l, rpn_mem x l = true <-> In x l.
Proof.
  intros x l. unfold rpn_mem. rewrite existsb_exists. split.
  - intros [y [Hy E]]. apply N.eqb_eq in E. subst. exact Hy.
  - intros Hin. exists x. split; [exact Hin | apply N.eqb_refl].
Qed.

Lemma rpn_filter_keys : forall A (g : N -> bool) (l : list (N * A)) k,
  In k (map fst l) -> g k = true -> In k (map fst (filter (fun e => g (fst e)) l)).
Proof.
  intros A g l k Hin Hg. apply in_map_iff in Hin as [[k' v] [E Hin]]. cbn in E. subst k'.
  apply in_map_iff. exists (k, v). split; [reflexivity|]. apply filter_In. split; [exact Hin | exact Hg].
Qed.

(* the names a form without resources leaves in `unresolved` *)
Definition rpn_typed (m : rpn_node) : list N :=
  map fst (filter (fun u => (snd u =? 0) || (snd u =? 1)) (rpn_uses m)).

Lemma rpn_typed_names_all : forall uses x,
  In x (map fst (filter (fun u => (snd u =? 0) || (snd u =? 1)) uses)) -> In x (rpn_typed_names uses).
Proof.
  intros uses x Hin. apply in_map_iff in Hin as [[n t] [E Hin]]. cbn in E. subst n.
  apply filter_In in Hin as [Hin Ht]. cbn in Ht. unfold rpn_typed_names. apply in_or_app.
  apply orb_true_iff in Ht as [Ht|Ht]; [left|right]; apply in_map_iff; exists (x, t); (split; [reflexivity|]);
    apply filter_In; (split; [exact Hin | exact Ht]).
Qed.

Lemma rpn_decide_facts : forall bad uses hasres known unres ok unres',
  rpn_decide bad uses hasres known unres = (ok, unres') ->
  incl unres unres' /\
  (ok = true -> bad = false) /\
  (ok = true -> hasres = false -> known = [] -> incl (rpn_typed_names uses) unres').
Proof.
  intros bad uses hasres known unres ok unres' H. unfold rpn_decide in H.
  destruct bad.
  - injection H as <- <-. split; [apply incl_refl|]. split; discriminate.
  - set (local := filter (fun nm => negb (rpn_mem nm known)) (rpn_typed_names uses)) in *.
    assert (Hincl : incl unres (local ++ unres)) by (apply incl_appr; apply incl_refl).
    assert (Hall : known = [] -> incl (rpn_typed_names uses) (local ++ unres)).
    { intros ->. intros x Hx. apply in_or_app. left. subst local. apply filter_In. split; [exact Hx | reflexivity]. }
    destruct local as [|x l] eqn:El.
    + injection H as <- <-. split; [exact Hincl|]. split; [reflexivity | intros _ _; exact Hall].
    + destruct hasres; injection H as <- <-; (split; [exact Hincl|]); (split; [try reflexivity; try discriminate|]);
        try discriminate. intros _ _. exact Hall.
Qed.

(* the walk over a form: `unresolved` only grows, and unless a failure is reported every form without resources painted
   from it has put the names it uses with Tf / Do there *)
Definition rpn_walk_ok (n : rpn_node) : Prop :=
  forall u n' u' f, rpn_walk n u = (n', u', f) ->
    incl u u' /\ (f = false -> forall m, In m (rpns_painted n) -> rpn_hasres m = false -> incl (rpn_typed m) u').

Lemma rpn_walk_all : forall n, rpn_walk_ok n.
Proof.
  intros n. induction n as [id isform bad uses hasres fonts xobjs IH] using rpn_node_ind2.
  intros u n' u' f Hw. cbn [rpn_walk] in Hw.
  set (known := if hasres then map fst fonts ++ map fst xobjs else []) in *.
  destruct (rpn_decide bad uses hasres known u) as [ok u1] eqn:Ed.
  destruct (rpn_decide_facts _ _ _ _ _ _ _ Ed) as (Hinc1 & Hokbad & Hless).
  (* the loop over the /XObject dictionary *)
  set (go := fix go (l : list (N * rpn_node)) (u : list N) {struct l} : list (N * rpn_node) * list N * bool :=
           match l with
           | [] => ([], u, false)
           | (k, c) :: l' =>
               if negb hasres then ((k, c) :: l', u, false)
               else if negb (negb ok || rpn_keep false uses u1 k) then go l' u
               else if rpn_isform c then
                 let '(c', u1, f1) := rpn_walk c u in
                 let '(l'', u2, f2) := go l' u1 in
                 ((k, c') :: l'', u2, f1 || f2)
               else
                 let '(l'', u2, f2) := go l' u in ((k, c) :: l'', u2, f2)
           end) in *.
  assert (Hgo : forall l, Forall (fun kc => rpn_walk_ok (snd kc)) l -> forall v l' v' f',
            go l v = (l', v', f') ->
            incl v v' /\
            (f' = false -> hasres = true -> forall k c, In (k, c) l -> (negb ok || rpn_keep false uses u1 k) = true -> rpn_isform c = true ->
               forall m, In m (rpns_painted c) -> rpn_hasres m = false -> incl (rpn_typed m) v')).
  { assert (Ekk : forall key, rpn_keep false uses u1 key = rpn_mem key (map fst uses)) by reflexivity.
    intros l Hl. induction Hl as [|[k c] l Hc Hl IHl]; intros v l' v' f' Hg; cbn in Hg.
    - injection Hg as <- <- <-. split; [apply incl_refl|]. intros _ _ k c [].
    - destruct hasres; cbn [negb] in Hg.
      2:{ injection Hg as <- <- <-. split; [apply incl_refl | discriminate]. }
      destruct (negb ok || rpn_mem k (map fst uses)) eqn:Ek; cbn [negb] in Hg.
      2:{ destruct (IHl _ _ _ _ Hg) as [A B]. split; [exact A|]. intros Hf _ k0 c0 [E|Hin] Hk0 Hf0.
          - injection E as <- <-. rewrite Ekk in Hk0. congruence.
          - eapply B; eauto. }
      destruct (rpn_isform c) eqn:Ef.
      + destruct (rpn_walk c v) as [[c' v1] f1] eqn:Ewc.
        destruct (go l v1) as [[l'' v2] f2] eqn:Egl. injection Hg as <- <- <-.
        destruct (Hc _ _ _ _ Ewc) as [A1 B1]. cbn [snd] in *.
        destruct (IHl _ _ _ _ Egl) as [A2 B2].
        split; [eapply incl_tran; eassumption|].
        intros Hf _ k0 c0 [E|Hin] Hk0 Hf0 m Hm Hr.
        * injection E as <- <-. apply orb_false_iff in Hf as [Hf1 _]. eapply incl_tran; [eapply B1; eauto | exact A2].
        * apply orb_false_iff in Hf as [_ Hf2]. eapply B2; eauto.
      + destruct (go l v) as [[l'' v2] f2] eqn:Egl. injection Hg as <- <- <-.
        destruct (IHl _ _ _ _ Egl) as [A2 B2]. split; [exact A2|].
        intros Hf _ k0 c0 [E|Hin] Hk0 Hf0.
        * injection E as <- <-. congruence.
        * eapply B2; eauto. }
  destruct (go xobjs u1) as [[xobjs' u2] fails] eqn:Eg.
  injection Hw as <- <- <-.
  destruct (Hgo xobjs IH _ _ _ _ Eg) as [A B].
  split; [eapply incl_tran; eassumption|].
  intros Hf m Hm Hr.
  apply orb_false_iff in Hf as [Hok Hfails]. apply negb_false_iff in Hok.
  cbn [rpns_painted rpn_hasres rpn_xobjs rpn_uses] in Hm. destruct Hm as [<-|Hm].
  - (* the form itself *)
    cbn [rpn_hasres] in Hr. subst hasres. cbn [rpn_typed rpn_uses].
    intros x Hx. apply A. apply (Hless Hok eq_refl eq_refl). apply rpn_typed_names_all. exact Hx.
  - destruct hasres; [|destruct Hm].
    apply in_flat_map in Hm as [[k c] [Hin Hm]].
    destruct (rpn_isform c) eqn:Ef; cbn [andb] in Hm; [|destruct Hm].
    destruct (existsb (fun u0 => (fst u0 =? k) && (snd u0 =? 1)) uses) eqn:Eu; [|destruct Hm].
    eapply (B Hfails eq_refl k c Hin); eauto.
    (* a key the content paints is kept by the helper *)
    unfold rpn_keep. apply orb_true_iff. right. apply orb_true_iff. right. apply rpn_mem_In.
    apply existsb_exists in Eu as [[n0 t0] [Hu E]]. cbn in E. apply andb_true_iff in E as [E _]. apply N.eqb_eq in E. subst n0.
    apply in_map_iff. exists (k, t0). split; [reflexivity | exact Hu].
Qed.

(* removeUnreferencedResources on a page with a resource dictionary: a name that the specification needs and that the page's
   /Font (resp. /XObject) dictionary defines is still defined there afterwards - for every nesting of form XObjects, whatever
   their own resources, whether their content can be tokenised or not. *)
Lemma rpn_keeps_needed_lemma : forall p k,
  rpn_hasres p = true -> In k (rpns_needed p) ->
  (In k (map fst (rpn_fonts p)) -> In k (map fst (rpn_fonts (rpn_run p)))) /\
  (In k (map fst (rpn_xobjs p)) -> In k (map fst (rpn_xobjs (rpn_run p)))).
Proof.
  intros [id isform bad uses hasres fonts xobjs] k Hres Hneed. cbn [rpn_hasres] in Hres. subst hasres.
  cbn [rpn_fonts rpn_xobjs]. unfold rpn_run.
  set (go := fix go (l : list (N * rpn_node)) (u : list N) {struct l} : list (N * rpn_node) * list N * bool :=
           match l with
           | [] => ([], u, false)
           | (k, c) :: l' =>
               if negb true then ((k, c) :: l', u, false)
               else if rpn_isform c then
                 let '(c', u1, f1) := rpn_walk c u in
                 let '(l'', u2, f2) := go l' u1 in
                 ((k, c') :: l'', u2, f1 || f2)
               else
                 let '(l'', u2, f2) := go l' u in ((k, c) :: l'', u2, f2)
           end).
  assert (Hgo : forall l v l' v' f', go l v = (l', v', f') ->
            map fst l' = map fst l /\ incl v v' /\
            (f' = false -> forall k0 c, In (k0, c) l -> rpn_isform c = true ->
               forall m, In m (rpns_painted c) -> rpn_hasres m = false -> incl (rpn_typed m) v')).
  { induction l as [|[k0 c] l IHl]; intros v l' v' f' Hg; cbn in Hg.
    - injection Hg as <- <- <-. split; [reflexivity|]. split; [apply incl_refl|]. intros _ k0 c [].
    - destruct (rpn_isform c) eqn:Ef.
      + destruct (rpn_walk c v) as [[c' v1] f1] eqn:Ewc.
        destruct (go l v1) as [[l'' v2] f2] eqn:Egl. injection Hg as <- <- <-.
        destruct (rpn_walk_all c _ _ _ _ Ewc) as [A1 B1]. destruct (IHl _ _ _ _ Egl) as (K2 & A2 & B2).
        split; [cbn; rewrite K2; reflexivity|]. split; [eapply incl_tran; eassumption|].
        intros Hf k1 c1 [E|Hin] Hf1 m Hm Hr.
        * injection E as <- <-. apply orb_false_iff in Hf as [Hf' _]. eapply incl_tran; [eapply B1; eauto | exact A2].
        * apply orb_false_iff in Hf as [_ Hf']. eapply B2; eauto.
      + destruct (go l v) as [[l'' v2] f2] eqn:Egl. injection Hg as <- <- <-.
        destruct (IHl _ _ _ _ Egl) as (K2 & A2 & B2). split; [cbn; rewrite K2; reflexivity|]. split; [exact A2|].
        intros Hf k1 c1 [E|Hin] Hf1.
        * injection E as <- <-. congruence.
        * eapply B2; eauto. }
  destruct (go xobjs []) as [[xobjs1 unres] fails] eqn:Eg.
  destruct (Hgo _ _ _ _ _ Eg) as (Hkeys & _ & Hprot).
  destruct fails.
  { cbn [rpn_fonts rpn_xobjs]. rewrite Hkeys. auto. }
  destruct (rpn_decide bad uses true (map fst fonts ++ map fst xobjs1) unres) as [ok unres1] eqn:Ed.
  destruct (rpn_decide_facts _ _ _ _ _ _ _ Ed) as (Hinc & _ & _).
  destruct ok; cbn [rpn_fonts rpn_xobjs]; [|rewrite Hkeys; auto].
  assert (Hkeep : rpn_keep true uses unres1 k = true).
  { unfold rpn_keep. cbn [andb]. apply orb_true_iff.
    unfold rpns_needed in Hneed. cbn [rpn_uses rpn_xobjs] in Hneed. apply in_app_or in Hneed as [Hu|Hf].
    - right. apply rpn_mem_In. exact Hu.
    - left. apply rpn_mem_In. apply Hinc.
      apply in_flat_map in Hf as [m [Hm Hk]]. apply in_flat_map in Hm as [[k0 c] [Hin Hm]]. cbn [snd] in Hm.
      destruct (rpn_isform c) eqn:Ef; [|destruct Hm].
      destruct (rpn_hasres m) eqn:Er; [destruct Hk|].
      eapply (Hprot eq_refl k0 c Hin Ef m Hm Er). exact Hk. }
  split; intros Hin.
  - apply rpn_filter_keys with (g := rpn_keep true uses unres1); assumption.
  - apply rpn_filter_keys with (g := rpn_keep true uses unres1); [rewrite Hkeys; exact Hin | exact Hkeep].
Qed.
