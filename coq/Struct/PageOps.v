(* Models of the page-assembly arithmetic of QPDFJob.cc: the collation loop of
   handlePageSpecs, the chunking of doSplitPages (with file-name numbering), and the angle
   arithmetic of QPDFObjectHandle::rotatePage (C++ truncating %), together with their
   specifications written from the manual. *)
From QV Require Import Base.Bytes.
Local Open Scope Z_scope.

Section Collate.
  Context {A : Type}.

  (* one sweep of the for-loop over the specs: spec i contributes
     selected_pages[cur_i .. cur_i + c_i) clipped to its size; cur_i += c_i *)
  Fixpoint collate_sweep (sels : list (list A)) (cs : list nat) (cur : list nat)
    : list A * bool * list nat :=
    match sels, cs, cur with
    | sel :: sels', c :: cs', k :: cur' =>
        let taken := firstn c (skipn k sel) in
        let '(rest, got, cur'') := collate_sweep sels' cs' cur' in
        (taken ++ rest, negb (match taken with [] => true | _ => false end) || got, (k + c)%nat :: cur'')
    | _, _, _ => ([], false, [])
    end.

  (* while (got_pages) { got_pages = false; sweep }  -- fuel bounds the number of sweeps *)
  Fixpoint collate_loop (fuel : nat) (sels : list (list A)) (cs : list nat) (cur : list nat) : list A :=
    match fuel with
    | O => []
    | S f => let '(out, got, cur') := collate_sweep sels cs cur in
             if got then out ++ collate_loop f sels cs cur' else []
    end.

  Definition total_len (sels : list (list A)) : nat := fold_right (fun s a => (length s + a)%nat) 0%nat sels.

  Definition collate (sels : list (list A)) (cs : list nat) : list A :=
    collate_loop (S (total_len sels)) sels cs (map (fun _ => 0%nat) sels).

  (* --- specification (manual: "--collate=n: take n pages from the first file, n from the
     second ... ; when a file runs out of pages it is skipped"): round r of the output is, for
     each selection in order, its r-th block of c_i pages. *)
  Definition block (r : nat) (c : nat) (sel : list A) : list A := firstn c (skipn (r * c) sel).
  Fixpoint round_blocks (r : nat) (sels : list (list A)) (cs : list nat) : list A :=
    match sels, cs with
    | sel :: sels', c :: cs' => block r c sel ++ round_blocks r sels' cs'
    | _, _ => []
    end.
  Definition collate_spec (sels : list (list A)) (cs : list nat) : list A :=
    concat (map (fun r => round_blocks r sels cs) (seq 0 (S (total_len sels)))).
End Collate.

(* --- split-pages: chunk i covers pages first..last (1-based) --- *)
Fixpoint split_chunks_fuel (fuel : nat) (n : nat) (i : nat) (num_pages : nat) : list (nat * nat) :=
  match fuel with
  | O => []
  | S f => if Nat.ltb i num_pages then
             let first := S i in
             let last := Nat.min (i + n) num_pages in
             (first, last) :: split_chunks_fuel f n (i + n) num_pages
           else []
  end.
Definition split_chunks (n num_pages : nat) : list (nat * nat) :=
  split_chunks_fuel (S num_pages) n 0 num_pages.

Definition pages_of_chunk {A} (ps : list A) (c : nat * nat) : list A :=
  firstn (snd c - (fst c - 1)) (skipn (fst c - 1) ps).
Definition split_pages {A} (n : nat) (ps : list A) : list (list A) :=
  map (pages_of_chunk ps) (split_chunks n (length ps)).

(* --- rotation --- *)
(* C++ % truncates toward zero *)
Definition c_rem (a b : Z) : Z := Z.rem a b.

Definition rotate_angle (inherited_old : Z) (angle : Z) (relative : bool) : option Z :=
  if negb (c_rem angle 90 =? 0) then None  (* runtime_error *)
  else
    let old := if c_rem inherited_old 90 =? 0 then inherited_old else 0 in
    let new_angle := if relative then angle + old else angle in
    Some (c_rem (new_angle + 360) 360).
