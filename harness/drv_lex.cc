// C03 driver (lexical layer): the real QPDFTokenizer from libqpdf.a through its public API
// (presentCharacter / presentEOF / getToken / betweenTokens, readToken on a BufferInputSource),
// QPDFObjectHandle::parse, and the printers QPDF_String::unparse / Name::normalize.
#include "drv.hh"
#include <qpdf/BufferInputSource.hh>
#include <qpdf/QPDFExc.hh>
#include <qpdf/QPDFObjectHandle.hh>
#include <qpdf/QPDF.hh>
#include <qpdf/QPDFTokenizer.hh>
#include <stdexcept>

#pragma GCC diagnostic ignored "-Wdeprecated-declarations"

namespace {
    char const* tt_names[] = {"bad", "array_close", "array_open", "brace_close", "brace_open", "dict_close",
        "dict_open", "integer", "name", "real", "string", "null", "bool", "word", "eof", "space", "comment",
        "inline_image"};

    std::string err_class(std::string const& m) {
        if (m.empty()) return "0";
        if (m == "unexpected )") return "rparen";
        if (m == "name with stray # will not work with PDF >= 1.2") return "strayhash";
        if (m == "null character not allowed in name token") return "nullname";
        if (m == "unexpected >") return "gt";
        if (m == "EOF while reading token") return "eoftok";
        if (m == "unexpected EOF") return "ueof";
        if (m == "exceeded allowable length while reading token") return "toolong";
        std::string const p = "invalid character (", s = ") in hexstring";
        if (m.size() == p.size() + 1 + s.size() && m.compare(0, p.size(), p) == 0 &&
            m.compare(p.size() + 1, s.size(), s) == 0) {
            return "badhex" + hex(m.substr(p.size(), 1));
        }
        return "other:" + hex(m);
    }

    std::string show(QPDFTokenizer::Token const& t) {
        int ty = static_cast<int>(t.getType());
        std::string n = (ty >= 0 && ty < 18) ? tt_names[ty] : "type" + std::to_string(ty);
        return n + "," + hex(t.getValue()) + "," + hex(t.getRawValue()) + "," + err_class(t.getErrorMessage());
    }

    void set_flags(QPDFTokenizer& tk, int flags) {
        if (flags & 1) tk.allowEOF();
        if (flags & 2) tk.includeIgnorable();
    }
}

// tokstream <flags> <hex> <eof 0|1>
static Reg r_tokstream("tokstream", [](std::vector<std::string> const& a) -> std::string {
    QPDFTokenizer tk;
    set_flags(tk, std::stoi(a.at(0)));
    std::string in = unhex(a.at(1));
    bool eof = a.at(2) == "1";
    std::string out;
    auto rec = [&](QPDFTokenizer::Token const& t, bool unread) {
        if (!out.empty()) out += ";";
        out += show(t) + "," + (unread ? "1" : "0");
    };
    try {
        for (char ch: in) {
            tk.presentCharacter(ch);
            QPDFTokenizer::Token t; bool unread = false; char uch = 0;
            if (tk.getToken(t, unread, uch)) {
                rec(t, unread);
                if (unread) {
                    tk.presentCharacter(uch);
                    QPDFTokenizer::Token t2; bool unread2 = false; char uch2 = 0;
                    if (tk.getToken(t2, unread2, uch2)) rec(t2, unread2);
                }
            }
        }
        if (eof) {
            tk.presentEOF();
            QPDFTokenizer::Token t; bool unread = false; char uch = 0;
            if (tk.getToken(t, unread, uch)) rec(t, unread);
        }
    } catch (std::logic_error const&) {
        return "logic";
    }
    if (out.empty()) out = "-";
    return out + " bt=" + (tk.betweenTokens() ? "1" : "0");
});

// tokraw <flags> <hex> <eof 0|1> : no getToken between the characters
static Reg r_tokraw("tokraw", [](std::vector<std::string> const& a) -> std::string {
    QPDFTokenizer tk;
    set_flags(tk, std::stoi(a.at(0)));
    std::string in = unhex(a.at(1));
    try {
        for (char ch: in) tk.presentCharacter(ch);
        if (a.at(2) == "1") tk.presentEOF();
    } catch (std::logic_error const&) {
        return "logic";
    }
    QPDFTokenizer::Token t; bool unread = false; char uch = 0;
    bool ready = tk.getToken(t, unread, uch);
    std::string out = std::string(ready ? "1" : "0") + "," + (unread ? "1" : "0") + "," + hex(std::string(1, uch));
    out += " " + (ready ? show(t) : std::string("-"));
    return out + " bt=" + (tk.betweenTokens() ? "1" : "0");
});

// readtokens <flags> <max_len> <allow_bad 0|1> <hex>
static Reg r_readtokens("readtokens", [](std::vector<std::string> const& a) -> std::string {
    QPDFTokenizer tk;
    set_flags(tk, std::stoi(a.at(0)));
    size_t max_len = static_cast<size_t>(std::stoull(a.at(1)));
    bool allow_bad = a.at(2) == "1";
    std::string in = unhex(a.at(3));
    BufferInputSource is("drv", in);
    std::string out;
    for (size_t i = 0; i < in.size() + 2; ++i) {
        if (!out.empty()) out += ";";
        try {
            auto t = tk.readToken(is, "ctx", allow_bad, max_len);
            out += show(t) + "," + std::to_string(is.tell()) + "," + std::to_string(is.getLastOffset());
            if (t.getType() == QPDFTokenizer::tt_eof) break;
        } catch (QPDFExc const& e) {
            out += "exc," + err_class(e.getMessageDetail()) + "," + std::to_string(is.tell()) + "," +
                std::to_string(is.getLastOffset());
            break;
        }
    }
    return out;
});

// strunparse <hex value>  : QPDF_String::unparse(false)
static Reg r_strunparse("strunparse", [](std::vector<std::string> const& a) -> std::string {
    return hex(QPDFObjectHandle::newString(unhex(a.at(0))).unparse());
});
// strunparsebin <hex value>  : QPDF_String::unparse(true)
static Reg r_strunparsebin("strunparsebin", [](std::vector<std::string> const& a) -> std::string {
    return hex(QPDFObjectHandle::newString(unhex(a.at(0))).unparseBinary());
});
// nameunparse <hex name incl. leading slash> : Name::normalize
static Reg r_nameunparse("nameunparse", [](std::vector<std::string> const& a) -> std::string {
    return hex(QPDFObjectHandle::newName(unhex(a.at(0))).unparse());
});

// objparse <hex> : QPDFObjectHandle::parse(context, text) on an empty QPDF; the value tree in canonical form
// (dictionary keys in std::map order, null-valued entries skipped, indirect references not resolved), the
// number of warnings, or the class of the exception.
namespace {
    std::string show_obj(QPDFObjectHandle o, int depth) {
        if (depth > 600) return "?deep";
        if (o.isIndirect()) return "ref:" + std::to_string(o.getObjectID()) + ":" + std::to_string(o.getGeneration());
        if (o.isNull()) return "null";
        if (o.isBool()) return o.getBoolValue() ? "b:1" : "b:0";
        if (o.isInteger()) return "i:" + std::to_string(o.getIntValue());
        if (o.isReal()) return "r:" + hex(o.getRealValue());
        if (o.isString()) return "s:" + hex(o.getStringValue());
        if (o.isName()) { std::string n = o.getName(); return "n:" + hex(n.size() ? n.substr(1) : n); }
        if (o.isArray()) {
            std::string r = "[ ";
            int n = o.getArrayNItems();
            for (int i = 0; i < n; ++i) r += show_obj(o.getArrayItem(i), depth + 1) + " ";
            return r + "]";
        }
        if (o.isDictionary()) {
            std::string r = "<< ";
            for (auto const& [k, v]: o.getDictAsMap()) {
                if (!v.isIndirect() && v.isNull()) continue;
                r += "n:" + hex(k.size() ? k.substr(1) : k) + " " + show_obj(v, depth + 1) + " ";
            }
            return r + ">>";
        }
        if (o.isOperator()) return "op:" + hex(o.getOperatorValue());
        return std::string("?type:") + o.getTypeName();
    }
}
namespace {
    std::string warn_class(std::string const& m) {
        auto starts = [&](char const* p) { return m.rfind(p, 0) == 0; };
        if (m == "treating unexpected brace token as null") return "brace";
        if (m == "treating unexpected array close token as null") return "arrclose";
        if (m == "unexpected dictionary close token") return "dictclose";
        if (m == "empty object treated as null") return "empty";
        if (m == "unknown token while reading object; treating as string") return "unkstr";
        if (m == "unknown token while reading object; treating as null") return "unknull";
        if (m == "treating unknown token type as null while reading object") return "unktype";
        if (m == "parse error while reading object") return "parseerr";
        if (starts("treating bad indirect reference (")) return "badref";
        if (m == "dictionary ended prematurely; using null as value for last key") return "premature";
        if (m == "expected dictionary keys but found non-name objects; ignoring") return "nonname";
        if (starts("expected dictionary key but found non-name object; inserting key ")) return "fakekey";
        if (starts("dictionary has duplicated key ")) return "dupkey";
        if (m == "too many errors; giving up on reading object") return "toomany";
        if (starts("limits error(parser-max-nesting)")) return "limnest";
        if (starts("limits error(parser-max-container-size-damaged)")) return "limcd";
        if (starts("limits error(parser-max-container-size)")) return "limc";
        if (starts("limits error(parser-max-errors)")) return "limerr";
        if (m == "unexpected array close token; giving up on reading object") return "giveuparr";
        if (m == "unexpected dictionary close token; giving up on reading object") return "giveupdict";
        if (starts("unexpected 'endobj' or 'endstream' while reading object")) return "giveupend";
        if (starts("treating object as null because of error during parsing")) return "exception";
        return err_class(m);      // tokenizer messages ("unexpected EOF" is shared with the parser)
    }
    std::string warn_list(QPDF& q) {
        auto ws = q.getWarnings();
        if (ws.empty()) return "0";
        std::string r;
        for (auto const& w: ws) { if (!r.empty()) r += ","; r += warn_class(w.getMessageDetail()); }
        return r;
    }
}
static Reg r_objparse("objparse", [](std::vector<std::string> const& a) -> std::string {
    std::string in = unhex(a.at(0));
    QPDF q;
    q.emptyPDF();
    q.setSuppressWarnings(true);
    try {
        auto o = QPDFObjectHandle::parse(&q, in, "drv");
        return show_obj(o, 0) + " w=" + warn_list(q);
    } catch (QPDFExc const& e) {
        std::string m = e.getMessageDetail();
        return (m == "trailing data found parsing object from string" ? std::string("exc:trailing") : "exc:" + hex(m)) + " w=" + warn_list(q);
    }
});
