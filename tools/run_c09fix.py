#!/usr/bin/env python3
# Stand-alone driver of harness/c09fix.py (the C09 fixpoint extension's correspondence) until it is hooked into harness/c09.py:
#   VERIF_SEED=0 python3 tools/run_c09fix.py [quick|thorough]      (after ./setup.sh; start with `ulimit -s unlimited`)
# exit status 0 = no violation.  Hook for c09.py (end of run()):   import c09fix; c09fix.run_part(chk, wd, runner)
import sys, os, time, json
sys.path.insert(0, os.path.join(os.path.dirname(os.path.dirname(os.path.abspath(__file__))), "harness"))
import common, c09fix

tier = sys.argv[1] if len(sys.argv) > 1 else "quick"
chk = common.Check("C09", tier, os.environ.get("VERIF_SEED", "0"))
wd = common.workdir("C09fix")
runner = os.path.join(common.EXTRACT, "model_runner")
t = time.time()
compared, broken = c09fix.run_part(chk, wd, runner)
print("compared=%d correspondence_broken=%d wall=%.1fs" % (compared, broken, time.time() - t))
print(json.dumps(chk.cov["parts"]["fx-three-generations"], indent=1))
for rep, no_input in chk.violations:
    print("VIOLATION%s: %s" % (" (no input)" if no_input else "", json.dumps(rep)[:1500]))
sys.exit(1 if chk.violations else 0)
