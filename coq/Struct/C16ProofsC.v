(* C16: coalescing (QPDFObjectHandle::pipeContentStreams / CoalesceProvider) against the content reading. *)
From QV Require Import Base.Bytes Lex.TokModel Lex.LexSpec Lex.TokInterp Lex.LexRun Lex.LexProofs Obj.Unparse Obj.UnparseProofs Struct.ContentNorm Struct.ContentSem Struct.C16ProofsA.
Local Open Scope N_scope.

Lemma last_is_nl_spec : forall s, c16_last_is_nl s = true -> exists s', s = s' ++ [10].
Proof.
  induction s as [|b r IH]; [discriminate|]. cbn [c16_last_is_nl]. destruct r as [|c r'].
  - intros H. apply N.eqb_eq in H. subst. exists []. reflexivity.
  - intros H. destruct (IH H) as (s' & Hs). exists (b :: s'). rewrite Hs. reflexivity.
Qed.

Lemma last_is_nl_eol s : c16_last_is_nl s = true -> last_is_eol s.
Proof. intros H. destruct (last_is_nl_spec _ H) as (s' & ->). unfold last_is_eol. rewrite rev_app_distr. reflexivity. Qed.

Lemma coalesce_loop_rel : forall cs tss, Forall2 (fun s ts => sem_rel s ts) cs tss ->
  forall need, sem_rel (c16_coalesce_loop need cs) (concat tss).
Proof.
  induction 1 as [|s ts cs tss Hs Hrest IH]; intros need.
  - cbn. apply sem_end. reflexivity.
  - cbn [c16_coalesce_loop concat].
    set (chunk := (if need then [10] else []) ++ s).
    assert (Hchunk : sem_rel chunk ts).
    { unfold chunk. destruct need; [apply sem_rel_white; [reflexivity|exact Hs]|exact Hs]. }
    apply sem_rel_app; [exact Hchunk| |apply IH].
    destruct (c16_last_is_nl chunk) eqn:El.
    + right. right. apply last_is_nl_eol, El.
    + destruct cs as [|s2 cs2]; [left; reflexivity|]. right. left. cbn [negb c16_coalesce_loop app]. eauto.
Qed.

(* coalesce_tokens (DESIGN C16).  Content split over several streams at token boundaries - every stream reads on
   its own - and coalesced by qpdf reads as the concatenation of the streams' token sequences: the newline that
   pipeContentStreams inserts where a stream does not end in one is what keeps the last token of a stream and the
   first token of the next apart.  For all stream lists. *)
Lemma coalesce_tokens_lemma : forall cs tss,
  Forall2 (fun s ts => c16_sem s = Some ts) cs tss ->
  c16_sem (c16_coalesce cs) = Some (concat tss).
Proof.
  intros cs tss H. apply sem_iff. apply coalesce_loop_rel.
  induction H; constructor; [apply sem_iff; assumption|assumption].
Qed.

(* the same for what a token filter behind filterPageContents is given *)
Lemma coalesce_single_lemma : forall s, c16_coalesce [s] = s.
Proof. intros s. unfold c16_coalesce. cbn [c16_coalesce_loop app]. apply app_nil_r. Qed.
