// C12 (extension) driver: QPDFPageObjectHelper::removeUnreferencedResources on a page with nested form XObjects built in-process.
//
//   rprune <page id> <nodes>   ->  id=fontkeys:xobjkeys;...   (every node reachable from the page afterwards, ascending id)
//
// <nodes> = id=flags:uses:fonts:xobjs;...   flags: p page | f form XObject (/Subtype /Form) | i image;  t = has /Type (/XObject),
// b = content with a bad token, r = has a direct /Resources dictionary, R = an indirect one, h = (page only) /Resources inherited
// from the /Pages node.  uses = - or name.rtype,... (rtype 0: "/N<name> 9 Tf", 1: "/N<name> Do", 2: "/N<name> gs");
// fonts = - or names; xobjs = - or name.id,...   Names are numbers n written /N<n>.
#include "drv.hh"
#include <qpdf/QPDF.hh>
#include <qpdf/QPDFObjectHandle.hh>
#include <qpdf/QPDFPageObjectHelper.hh>
#include <set>

namespace {
    std::vector<std::string> splitr(std::string const& s, char sep) {
        std::vector<std::string> r;
        if (s == "-" || s.empty()) return r;
        std::string cur;
        for (char c: s) { if (c == sep) { r.push_back(cur); cur.clear(); } else cur.push_back(c); }
        r.push_back(cur);
        return r;
    }
    struct Node { std::string flags; std::vector<std::string> uses, fonts, xobjs; };
    bool has(std::string const& f, char c) { return f.find(c) != std::string::npos; }
    std::string keys(QPDFObjectHandle d) {
        std::string out;
        if (d.isDictionary()) for (auto const& k: d.getKeys()) out += (out.empty() ? "" : ",") + k.substr(2);
        return out.empty() ? "-" : out;
    }
    QPDFObjectHandle resources_of(QPDFObjectHandle o) {
        if (o.isStream()) return o.getDict().getKey("/Resources");
        return QPDFPageObjectHelper(o).getAttribute("/Resources", false);
    }
    void walk(QPDFObjectHandle o, std::map<int, std::string>& out, int depth) {
        if (depth > 30 || out.count(o.getObjectID())) return;
        auto r = resources_of(o);
        out[o.getObjectID()] = keys(r.isDictionary() ? r.getKey("/Font") : QPDFObjectHandle::newNull()) + ":" +
            keys(r.isDictionary() ? r.getKey("/XObject") : QPDFObjectHandle::newNull());
        if (r.isDictionary() && r.getKey("/XObject").isDictionary()) {
            auto x = r.getKey("/XObject");
            for (auto const& k: x.getKeys()) walk(x.getKey(k), out, depth + 1);
        }
    }
}

static Reg r_rprune("rprune", [](std::vector<std::string> const& a) -> std::string {
    try {
        QPDF q;
        q.emptyPDF();
        q.setSuppressWarnings(true);
        std::map<int, Node> nodes;
        std::vector<int> order;
        for (auto const& e: splitr(a.at(1), ';')) {
            auto eq = e.find('=');
            int id = std::stoi(e.substr(0, eq));
            std::vector<std::string> f;
            std::string cur;
            for (char c: e.substr(eq + 1)) { if (c == ':') { f.push_back(cur); cur.clear(); } else cur.push_back(c); }
            f.push_back(cur);
            nodes[id] = Node{f.at(0), splitr(f.at(1), ','), splitr(f.at(2), ','), splitr(f.at(3), ',')};
            order.push_back(id);
        }
        auto font = q.makeIndirectObject(QPDFObjectHandle::parse("<</Type /Font /Subtype /Type1 /BaseFont /Helvetica>>"));   // 3
        std::map<int, QPDFObjectHandle> oh;
        for (int id: order) {
            auto const& n = nodes[id];
            std::string content;
            for (auto const& u: n.uses) {
                auto dot = u.find('.');
                std::string nm = "/N" + u.substr(0, dot);
                char t = u.at(dot + 1);
                content += t == '0' ? nm + " 9 Tf\n" : t == '1' ? nm + " Do\n" : nm + " gs\n";
            }
            if (has(n.flags, 'b')) content += "<< /A ] )\n";
            if (has(n.flags, 'p')) {
                auto pg = QPDFObjectHandle::parse("<</Type /Page /MediaBox [0 0 100 100]>>");
                pg.replaceKey("/Contents", q.newStream(content));
                oh[id] = q.makeIndirectObject(pg);
            } else {
                auto s = q.newStream(has(n.flags, 'f') ? content : std::string("\x80", 1));
                auto d = s.getDict();
                if (has(n.flags, 't')) d.replaceKey("/Type", QPDFObjectHandle::newName("/XObject"));
                d.replaceKey("/Subtype", QPDFObjectHandle::newName(has(n.flags, 'f') ? "/Form" : "/Image"));
                if (has(n.flags, 'f')) d.replaceKey("/BBox", QPDFObjectHandle::parse("[0 0 1 1]"));
                oh[id] = s;
            }
        }
        QPDFObjectHandle page;
        QPDFObjectHandle inherited = QPDFObjectHandle::newNull();
        for (int id: order) {
            auto const& n = nodes[id];
            bool r = has(n.flags, 'r') || has(n.flags, 'R') || has(n.flags, 'h');
            if (!r) continue;
            auto res = QPDFObjectHandle::newDictionary();
            if (!n.fonts.empty()) {
                auto fd = QPDFObjectHandle::newDictionary();
                for (auto const& k: n.fonts) fd.replaceKey("/N" + k, font);
                res.replaceKey("/Font", fd);
            }
            if (!n.xobjs.empty()) {
                auto xd = QPDFObjectHandle::newDictionary();
                for (auto const& e: n.xobjs) { auto dot = e.find('.'); xd.replaceKey("/N" + e.substr(0, dot), oh.at(std::stoi(e.substr(dot + 1)))); }
                res.replaceKey("/XObject", xd);
            }
            if (has(n.flags, 'R')) res = q.makeIndirectObject(res);
            auto target = oh[id].isStream() ? oh[id].getDict() : oh[id];
            if (has(n.flags, 'h')) inherited = res;
            else target.replaceKey("/Resources", res);
        }
        page = oh.at(std::stoi(a.at(0)));
        q.addPage(page, false);
        // (after the insertion: addPage flattens and pushes inherited attributes of the tree as it is at that moment)
        if (!inherited.isNull()) q.getRoot().getKey("/Pages").replaceKey("/Resources", inherited);
        QPDFPageObjectHelper(page).removeUnreferencedResources();
        std::map<int, std::string> out;
        walk(page, out, 0);
        // report in the caller's ids: the k-th node created has object id base + position
        std::map<int, int> back;
        for (auto const& [id, h]: oh) back[h.getObjectID()] = id;
        std::map<int, std::string> byid;
        for (auto const& [obj, sdump]: out) byid[back.count(obj) ? back[obj] : -obj] = sdump;
        std::string res;
        for (auto const& [id, sdump]: byid) res += (res.empty() ? "" : ";") + std::to_string(id) + "=" + sdump;
        return res;
    } catch (std::exception const& e) {
        return std::string("?exception ") + e.what();
    }
});
