// C18 driver: attachment histories through QPDFEmbeddedFileDocumentHelper / QPDFFileSpecObjectHelper /
// QPDFEFStreamObjectHelper, in process, over two documents A (under test) and B (copy source).
//   atthist <ops>          ops ';'-separated, fields ':'-separated, text fields h<hex>
//     put:<key>:<rec>      A: replaceEmbeddedFile(key, new file spec made from rec)
//     put2:<key>:<rec>     A: the same, calling replaceEmbeddedFile twice with the same helper
//     same:<key>           A: fs = getEmbeddedFile(key); replaceEmbeddedFile(key, *fs)
//     mod:<key>:<desc>:<fn>  A: fs = getEmbeddedFile(key); setDescription; setFilename; replaceEmbeddedFile(key, *fs)
//     rm:<key>             A: removeEmbeddedFile(key)
//     bput:<key>:<rec>     B: replaceEmbeddedFile(key, new file spec)
//     copy:<prefix>        for every attachment of B: A.copyForeignObject(file spec); A.replaceEmbeddedFile(prefix+key)
//     reread               write A with QPDFWriter to memory and continue on the re-read document
//   rec = <size>,<seed>,<filename>,<description>,<creationdate>,<moddate>,<mime>   (payload byte i = f(seed, i))
//   out : per op  <r>[w<n>]@<listing>#<fresh listing keys>  joined by ';'
//     r = 1/0 (removeEmbeddedFile's result, or whether the key was found for same/mod), err:<class>
//     listing (through the document's helper, getEmbeddedFiles + getEmbeddedFile for every key):
//       key|datahex|/Size|checksumhex|creationdate|moddate|mime|description|filename|F-name|UF-name  joined by ','
//       (text fields h<hex>; "!lookup" appended when getEmbeddedFile(key) does not find a listed key)
//     fresh listing keys: keys seen by a newly constructed QPDFEmbeddedFileDocumentHelper, ','-joined
#include "drv.hh"
#include <qpdf/Buffer.hh>
#include <qpdf/Pl_Buffer.hh>
#include <qpdf/QPDF.hh>
#include <qpdf/QPDFEFStreamObjectHelper.hh>
#include <qpdf/QPDFEmbeddedFileDocumentHelper.hh>
#include <qpdf/QPDFExc.hh>
#include <qpdf/QPDFFileSpecObjectHelper.hh>
#include <qpdf/QPDFWriter.hh>
#include <memory>
#include <stdexcept>

namespace
{
    std::string hx(std::string const& s)
    {
        std::string h = hex(s);
        return "h" + (h == "-" ? std::string() : h);
    }
    std::string uh(std::string const& s)
    {
        return unhex(s.size() > 1 ? s.substr(1) : std::string("-"));
    }
    std::vector<std::string> split(std::string const& s, char c)
    {
        std::vector<std::string> r;
        std::stringstream ss(s);
        std::string item;
        while (std::getline(ss, item, c)) r.push_back(item);
        if (!s.empty() && s.back() == c) r.push_back("");
        return r;
    }
    std::string payload(size_t n, unsigned long long seed)
    {
        std::string d(n, '\0');
        unsigned long long x = seed * 6364136223846793005ULL + 1442695040888963407ULL;
        for (size_t i = 0; i < n; ++i) {
            x = x * 6364136223846793005ULL + 1442695040888963407ULL;
            d[i] = static_cast<char>((x >> 33) & 0xff);
        }
        return d;
    }
    QPDFFileSpecObjectHelper make_fs(QPDF& q, std::string const& rec)
    {
        auto f = split(rec, ',');
        auto efs = QPDFEFStreamObjectHelper::createEFStream(q, payload(std::stoul(f.at(0)), std::stoull(f.at(1))));
        if (f.at(4) != "h") efs.setCreationDate(uh(f.at(4)));
        if (f.at(5) != "h") efs.setModDate(uh(f.at(5)));
        if (f.at(6) != "h") efs.setSubtype(uh(f.at(6)));
        auto fs = QPDFFileSpecObjectHelper::createFileSpec(q, uh(f.at(2)), efs);
        if (f.at(3) != "h") fs.setDescription(uh(f.at(3)));
        return fs;
    }
    std::string listing(QPDF& q)
    {
        auto& efdh = QPDFEmbeddedFileDocumentHelper::get(q);
        std::string out;
        bool first = true;
        for (auto const& [key, fs]: efdh.getEmbeddedFiles()) {
            if (!first) out += ",";
            first = false;
            out += hx(key);
            auto efs = QPDFEFStreamObjectHelper(fs->getEmbeddedFileStream());
            std::string data;
            try {
                auto buf = efs.getObjectHandle().getStreamData(qpdf_dl_all);
                data.assign(reinterpret_cast<char const*>(buf->getBuffer()), buf->getSize());
                out += "|" + hx(data);
            } catch (std::exception const&) {
                out += "|?nodata";
            }
            out += "|" + std::to_string(efs.getSize()) + "|" + hx(efs.getChecksum()) + "|" + hx(efs.getCreationDate()) + "|" +
                hx(efs.getModDate()) + "|" + hx(efs.getSubtype()) + "|" + hx(fs->getDescription()) + "|" + hx(fs->getFilename());
            auto names = fs->getFilenames();
            out += "|" + hx(names.count("/F") ? names["/F"] : "?") + "|" + hx(names.count("/UF") ? names["/UF"] : "?");
            for (auto const& n: names) {
                if (n.first != "/F" && n.first != "/UF") out += "|?name" + n.first;
            }
            auto again = efdh.getEmbeddedFile(key);
            if (!again || again->getObjectHandle().getObjGen() != fs->getObjectHandle().getObjGen()) out += "!lookup";
        }
        out += "#";
        QPDFEmbeddedFileDocumentHelper fresh(q);
        first = true;
        for (auto const& i: fresh.getEmbeddedFiles()) {
            if (!first) out += ",";
            first = false;
            out += hx(i.first);
        }
        return out;
    }
} // namespace

static Reg r_atthist("atthist", [](std::vector<std::string> const& a) -> std::string {
    static std::vector<std::shared_ptr<std::string>> pool; // re-read buffers of the previous line
    auto qa = std::make_unique<QPDF>();
    qa->emptyPDF();
    qa->setSuppressWarnings(true);
    QPDF qb;
    qb.emptyPDF();
    qb.setSuppressWarnings(true);
    std::string out;
    bool first = true;
    std::vector<std::shared_ptr<std::string>> old_pool;
    old_pool.swap(pool);
    for (auto const& op: split(a.at(0), ';')) {
        if (op.empty() || op == "-") continue;
        if (!first) out += ";";
        first = false;
        auto f = split(op, ':');
        std::string res = "1";
        try {
            auto& efdh = QPDFEmbeddedFileDocumentHelper::get(*qa);
            std::string const& o = f.at(0);
            if (o == "put") {
                efdh.replaceEmbeddedFile(uh(f.at(1)), make_fs(*qa, f.at(2)));
            } else if (o == "put2") {
                auto fs = make_fs(*qa, f.at(2));
                efdh.replaceEmbeddedFile(uh(f.at(1)), fs);
                efdh.replaceEmbeddedFile(uh(f.at(1)), fs);
            } else if (o == "same") {
                auto fs = efdh.getEmbeddedFile(uh(f.at(1)));
                if (fs) efdh.replaceEmbeddedFile(uh(f.at(1)), *fs);
                else res = "0";
            } else if (o == "mod") {
                auto fs = efdh.getEmbeddedFile(uh(f.at(1)));
                if (fs) {
                    fs->setDescription(uh(f.at(2)));
                    fs->setFilename(uh(f.at(3)));
                    efdh.replaceEmbeddedFile(uh(f.at(1)), *fs);
                } else {
                    res = "0";
                }
            } else if (o == "rm") {
                res = efdh.removeEmbeddedFile(uh(f.at(1))) ? "1" : "0";
            } else if (o == "bput") {
                QPDFEmbeddedFileDocumentHelper::get(qb).replaceEmbeddedFile(uh(f.at(1)), make_fs(qb, f.at(2)));
            } else if (o == "copy") {
                std::string prefix = uh(f.at(1));
                for (auto const& [key, fs]: QPDFEmbeddedFileDocumentHelper::get(qb).getEmbeddedFiles()) {
                    auto local = qa->copyForeignObject(fs->getObjectHandle());
                    efdh.replaceEmbeddedFile(prefix + key, QPDFFileSpecObjectHelper(local));
                }
            } else if (o == "reread") {
                QPDFWriter w(*qa);
                Pl_Buffer pb("out");
                w.setOutputPipeline(&pb);
                w.setStaticID(true);
                w.write();
                std::string data = pb.getString();
                auto nq = std::make_unique<QPDF>();
                nq->setSuppressWarnings(true);
                // the buffer must outlive the QPDF: keep it in a static pool for this line
                pool.push_back(std::make_shared<std::string>(data));
                nq->processMemoryFile("reread", pool.back()->data(), pool.back()->size());
                qa = std::move(nq);
            } else {
                res = "?op";
            }
        } catch (QPDFExc const&) {
            res = "err:qpdf";
        } catch (std::logic_error const&) {
            res = "err:logic";
        } catch (std::exception const&) {
            res = "err:other";
        }
        size_t nw = qa->getWarnings().size() + qb.getWarnings().size();
        std::string l;
        try {
            l = listing(*qa);
        } catch (std::exception const& e) {
            l = "?listing-failed";
        }
        nw += qa->getWarnings().size();
        if (nw) res += "w" + std::to_string(nw);
        out += res + "@" + l;
    }
    return out;
});
