(* SHA-256 / SHA-384 / SHA-512 (FIPS 180-4) over words represented as lists of nibbles (least
   significant first), so that the extracted code is fast: same structure as SHA2.v (which stays as
   the readable N-based rendering of the standard and is compared with this one on the NIST vectors
   below), same padding function. Rotation amounts are given as (whole nibbles, remaining bits). *)
From QV Require Import Base.Bytes Crypto.Nib Crypto.SHA2.
Local Open Scope N_scope.

Definition wd := list nibble.

Fixpoint wd_xor (a b : wd) : wd :=
  match a, b with x :: a', y :: b' => hex_xor x y :: wd_xor a' b' | _, _ => [] end.
Fixpoint wd_and (a b : wd) : wd :=
  match a, b with x :: a', y :: b' => hex_and x y :: wd_and a' b' | _, _ => [] end.
Definition wd_not (a : wd) : wd := map hex_not a.
Fixpoint wd_add_c (c : bool) (a b : wd) : wd :=
  match a, b with
  | x :: a', y :: b' =>
      let s := hex_add x y in
      let c1 := hex_addc x y in
      if c then hex_inc s :: wd_add_c (c1 || hex_is_f s) a' b' else s :: wd_add_c c1 a' b'
  | _, _ => []
  end.
Definition wd_add (a b : wd) : wd := wd_add_c false a b.

(* one nibble of a right shift by r < 4 bits: lo is the nibble at this position, hi the next higher one *)
Definition hex_shr0 (lo hi : nibble) : nibble := lo.
Definition hex_shr (r : nat) : nibble -> nibble -> nibble :=
  match r with O => hex_shr0 | 1%nat => hex_shr1 | 2%nat => hex_shr2 | _ => hex_shr3 end.

(* xor of three shifted views of a word in one pass: view k starts at the nibble the result's
   nibble 0 comes from and must have one more element than nibbles are produced *)
Fixpoint wd_sig3 (n : nat) (f1 f2 f3 : nibble -> nibble -> nibble) (v1 v2 v3 : wd) : wd :=
  match n with
  | O => []
  | S n' =>
      match v1 with
      | a1 :: t1 =>
        match v2 with
        | a2 :: t2 =>
          match v3 with
          | a3 :: t3 =>
              hex_xor (f1 a1 (hd X0 t1)) (hex_xor (f2 a2 (hd X0 t2)) (f3 a3 (hd X0 t3)))
              :: wd_sig3 n' f1 f2 f3 t1 t2 t3
          | [] => []
          end
        | [] => []
        end
      | [] => []
      end
  end.
Fixpoint wd_ch (e f g : wd) : wd :=
  match e, f, g with
  | x :: e', y :: f', z :: g' => hex_xor (hex_and x y) (hex_and (hex_not x) z) :: wd_ch e' f' g'
  | _, _, _ => []
  end.
Fixpoint wd_maj (a b c : wd) : wd :=
  match a, b, c with
  | x :: a', y :: b', z :: c' => hex_xor (hex_and x y) (hex_xor (hex_and x z) (hex_and y z)) :: wd_maj a' b' c'
  | _, _, _ => []
  end.

Fixpoint wd_of_N (nibbles : nat) (x : N) : wd :=
  match nibbles with
  | O => []
  | S k => hex_of_N (N.land x 15) :: wd_of_N k (N.shiftr x 4)
  end.
(* big-endian bytes -> word, word -> big-endian bytes *)
Definition wd_of_be_bytes (bs : list N) : wd :=
  fold_left (fun acc b => let x := hb_of_N b in snd x :: fst x :: acc) bs [].
Fixpoint wd_to_be_bytes (l : wd) (acc : list N) : list N :=
  match l with
  | lo :: hi :: t => wd_to_be_bytes t (N_of_hb (hi, lo) :: acc)
  | _ => acc
  end.

Definition qr3 := ((nat * nat) * (nat * nat) * (nat * nat))%type.
Record shaf_params := {
  sf_base : sha_params;        (* word size in bytes, padding, K constants *)
  sf_nib : nat;               (* nibbles per word *)
  sf_S0 : qr3; sf_S1 : qr3; sf_s0 : qr3; sf_s1 : qr3;
  sf_K : list wd
}.

(* rotations read from x ++ x, the shift of the small sigmas from x ++ zeros *)
Definition shaf_bigsig (n : nat) (r : qr3) (x : wd) : wd :=
  let '(r1, r2, r3) := r in
  let xx := x ++ x in
  wd_sig3 n (hex_shr (snd r1)) (hex_shr (snd r2)) (hex_shr (snd r3))
          (skipn (fst r1) xx) (skipn (fst r2) xx) (skipn (fst r3) xx).
Definition shaf_smallsig (n : nat) (r : qr3) (x : wd) : wd :=
  let '(r1, r2, s3) := r in
  let xx := x ++ x in
  wd_sig3 n (hex_shr (snd r1)) (hex_shr (snd r2)) (hex_shr (snd s3))
          (skipn (fst r1) xx) (skipn (fst r2) xx) (skipn (fst s3) (x ++ repeat X0 (S (fst s3)))).

Fixpoint shaf_words (wb : nat) (fuel : nat) (l : list N) : list wd :=
  match fuel with
  | O => []
  | S f => match l with
           | [] => []
           | _ => wd_of_be_bytes (firstn wb l) :: shaf_words wb f (skipn wb l)
           end
  end.

Fixpoint shaf_schedule (p : shaf_params) (n : nat) (ws : list wd) : list wd :=
  match n with
  | O => ws
  | S n' =>
      let w := wd_add (wd_add (shaf_smallsig (sf_nib p) (sf_s1 p) (nth 1 ws [])) (nth 6 ws []))
                      (wd_add (shaf_smallsig (sf_nib p) (sf_s0 p) (nth 14 ws [])) (nth 15 ws [])) in
      shaf_schedule p n' (w :: ws)
  end.

Definition shaf_round (p : shaf_params) (st : list wd) (kw : wd * wd) : list wd :=
  match st with
  | [a; b; c; d; e; f; g; h] =>
      let t1 := wd_add (wd_add (wd_add h (shaf_bigsig (sf_nib p) (sf_S1 p) e)) (wd_add (wd_ch e f g) (fst kw))) (snd kw) in
      let t2 := wd_add (shaf_bigsig (sf_nib p) (sf_S0 p) a) (wd_maj a b c) in
      [wd_add t1 t2; a; b; c; wd_add d t1; e; f; g]
  | _ => st
  end.

Fixpoint wd_zip_add (a b : list wd) : list wd :=
  match a, b with x :: a', y :: b' => wd_add x y :: wd_zip_add a' b' | _, _ => [] end.

Definition shaf_block (p : shaf_params) (st : list wd) (blk : list N) : list wd :=
  let w16 := shaf_words (sp_wbytes (sf_base p)) 16 blk in
  let ws := rev' (shaf_schedule p (sp_extra (sf_base p)) (rev' w16)) in
  wd_zip_add st (fold_left (shaf_round p) (combine (sf_K p) ws) st).

Fixpoint shaf_blocks (p : shaf_params) (fuel : nat) (l : list N) (st : list wd) : list wd :=
  match fuel with
  | O => st
  | S f => match l with
           | [] => st
           | _ => let bs := (16 * sp_wbytes (sf_base p))%nat in
                  shaf_blocks p f (skipn bs l) (shaf_block p st (firstn bs l))
           end
  end.

Definition shaf_digest (p : shaf_params) (h0 : list wd) (outlen : nat) (msg : list N) : list N :=
  let pd := sha_pad (sf_base p) msg in
  let st := shaf_blocks p (S (length pd / (16 * sp_wbytes (sf_base p)))) pd h0 in
  firstn outlen (flat_map (fun w => wd_to_be_bytes w []) st).

Definition shaf256_params : shaf_params :=
  {| sf_base := sha256_params; sf_nib := 8; sf_S0 := ((0, 2), (3, 1), (5, 2))%nat; sf_S1 := ((1, 2), (2, 3), (6, 1))%nat; sf_s0 := ((1, 3), (4, 2), (0, 3))%nat; sf_s1 := ((4, 1), (4, 3), (2, 2))%nat;
     sf_K := map (wd_of_N 8) K256 |}.
Definition shaf512_params : shaf_params :=
  {| sf_base := sha512_params; sf_nib := 16; sf_S0 := ((7, 0), (8, 2), (9, 3))%nat; sf_S1 := ((3, 2), (4, 2), (10, 1))%nat; sf_s0 := ((0, 1), (2, 0), (1, 3))%nat; sf_s1 := ((4, 3), (15, 1), (1, 2))%nat;
     sf_K := map (wd_of_N 16) K512 |}.
Definition H256f : list wd := map (wd_of_N 8) H256.
Definition H384f : list wd := map (wd_of_N 16) H384.
Definition H512f : list wd := map (wd_of_N 16) H512.

(* the digest, made to have its nominal length by construction (the filler is never used: the state always
   has eight full words; written this way so that "the digest has n bytes" needs no invariant proof) *)
Definition fix_len (n : nat) (l : list N) : list N := firstn n (l ++ repeat 0 n).
Definition sha256f (msg : list N) : list N := fix_len 32 (shaf_digest shaf256_params H256f 32 msg).
Definition sha384f (msg : list N) : list N := fix_len 48 (shaf_digest shaf512_params H384f 48 msg).
Definition sha512f (msg : list N) : list N := fix_len 64 (shaf_digest shaf512_params H512f 64 msg).

(* the NIST vectors again, and agreement with the N-based rendering on block-boundary lengths *)
Example sha256f_abc : sha256f [97;98;99] = sha256 [97;98;99].
Proof. vm_compute. reflexivity. Qed.
Example sha384f_abc : sha384f [97;98;99] = sha384 [97;98;99].
Proof. vm_compute. reflexivity. Qed.
Example sha512f_abc : sha512f [97;98;99] = sha512 [97;98;99].
Proof. vm_compute. reflexivity. Qed.
Definition shaf_test_msg (n : nat) : list N := map (fun i => (N.of_nat i * 37 + 11) mod 256) (seq 0 n).
Example shaf_agree_boundaries :
  forallb (fun n => list_eqb N.eqb (sha256f (shaf_test_msg n)) (sha256 (shaf_test_msg n))
                    && list_eqb N.eqb (sha384f (shaf_test_msg n)) (sha384 (shaf_test_msg n))
                    && list_eqb N.eqb (sha512f (shaf_test_msg n)) (sha512 (shaf_test_msg n)))
          [0; 1; 55; 56; 63; 64; 65; 111; 112; 119; 120; 127; 128; 129; 200; 300]%nat = true.
Proof. vm_compute. reflexivity. Qed.
