From QV Require Import Struct.C13ProofsD.
Check copy_closed_lemma. Print Assumptions copy_closed_lemma.
Check pgx_rename_stable. Print Assumptions pgx_rename_stable.
