(* C13 extension 2 - pages of the other document as insertion operands INSIDE histories: the world invariant now carries
   "every dictionary of the store is sorted" (C13ProofsS.v) and the memo invariant between the two documents
   (C13ProofsP.v), kept by every operation by the frame property of the model (C13ProofsT.v). *)
From QV Require Import Base.Bytes Struct.PgModel Struct.PgSpec Struct.C13ProofsA Struct.C13ProofsB Struct.PgxSpec Struct.PgxModel Struct.PgxOracle
  Struct.C13ProofsC Struct.C13ProofsD Struct.C13ProofsE Struct.C13ProofsF Struct.C13ProofsG Struct.C13ProofsH Struct.C13ProofsI
  Struct.C13ProofsP Struct.C13ProofsS Struct.C13ProofsR Struct.C13ProofsT.
Local Open Scope N_scope.

Lemma pgq_nonnull_exists : forall s j, pg_is_null s (PvRef j) = false -> pg_lookup s j <> None.
Proof. intros s j H E. unfold pg_is_null in H. rewrite E in H. discriminate. Qed.

(* the memo invariant survives whatever keeps the mapped local objects and the non-null mapped source objects *)
Lemma pgq_memo_keep : forall S D S' D' (TS TD : N -> Prop),
  pgq_memo S D -> pgt_keep TS (pd_store S) (pd_store S') -> pgt_keep TD (pd_store D) (pd_store D') -> pd_omap D' = pd_omap D ->
  (forall a l, pg_omap_find (pd_omap D) a = Some l -> ~ TD l /\ (pg_is_null (pd_store S) (PvRef a) = false -> ~ TS a)) ->
  pgq_memo S' D'.
Proof.
  intros S D S' D' TS TD [[Wex Winj] Hm] HS HD Ho Hout. split; [split|]; rewrite Ho.
  - intros a l Hl. destruct (Hout a l Hl) as [HnT _]. apply (HD l HnT). eapply Wex, Hl.
  - exact Winj.
  - intros a l Hl. destruct (Hout a l Hl) as [HnT HnS]. destruct (HD l HnT (Wex a l Hl)) as (_ & Hmk & Hnl).
    destruct (Hm a l Hl) as [H|[Hna Hmark]].
    + left. rewrite Hnl. exact H.
    + right. destruct (HS a (HnS Hna) (pgq_nonnull_exists _ _ Hna)) as (_ & Hmk' & Hnl'). split; [rewrite Hnl'; exact Hna|].
      rewrite Hmk, Hmk'. exact Hmark.
Qed.

Lemma pgq_marks2_of_gets : forall w w' d X,
  pgx_marks (pg_get w' d) = X -> pgx_marks (pg_get w' (negb d)) = pgx_marks (pg_get w (negb d)) ->
  pgx_marks2 w' = pgsp_upd (pgx_marks2 w) d X.
Proof. intros [a b] [a' b'] [] X H1 H2; unfold pgx_marks2, pgsp_upd; cbn in *; rewrite H1, H2; reflexivity. Qed.

Lemma pgq_W_of_gets : forall w' d Kd Ks, pgx_st (pg_get w' d) Kd -> pgx_st (pg_get w' (negb d)) Ks -> pgx_W w'.
Proof. intros [a' b'] [] Kd Ks H1 H2; split; cbn in *; eauto. Qed.

(* a successful insertion of a page of the other document, taken apart: flattenPagesTree of the destination,
   pushInheritedAttributesToPage of the source, the copy, Pages::insert of the local copy *)
Lemma pgq_insert_foreign_decomp : forall w d i pos,
  pg_lookup (pd_store (pg_get w (negb d))) i <> None ->
  snd (pg_insert w d (PhObj (negb d) i) pos) = None ->
  exists p1 s1 s2 p2 l p3,
    pg_flatten (pg_get w d) = (p1, None) /\ pg_push (pg_get w (negb d)) false = (s1, None) /\
    pg_copied s1 p1 i = (s2, p2, None, PvRef l) /\ pg_insert_local p2 (PvRef l) pos = (p3, None) /\
    pg_get (fst (pg_insert w d (PhObj (negb d) i) pos)) d = p3 /\ pg_get (fst (pg_insert w d (PhObj (negb d) i) pos)) (negb d) = s2.
Proof.
  intros w d i pos Hex Hsucc. set (b := negb d) in *. assert (Hbd : b <> d) by (unfold b; destruct d; discriminate).
  assert (Hbeq : Bool.eqb b d = false) by (apply Bool.eqb_false_iff; exact Hbd).
  unfold pg_insert in *. destruct (pg_insertable w d (PhObj b i)); [|cbn in Hsucc; discriminate]. cbn [negb] in *.
  destruct (pg_flatten (pg_get w d)) as [p1 e1] eqn:Efl. destruct e1; [cbn in Hsucc; discriminate|].
  assert (Hnorm1 : pg_norm (pg_put w d p1) (PhObj b i) = PhObj b i).
  { unfold pg_norm. rewrite (pgi_get_put_other w b d p1 Hbd). destruct (pg_lookup (pd_store (pg_get w b)) i); [reflexivity|congruence]. }
  rewrite Hnorm1, Hbeq in *. rewrite (pgi_get_put_other w b d p1 Hbd) in *.
  destruct (pg_push (pg_get w b) false) as [s1 e2] eqn:Epush. destruct e2; [cbn in Hsucc; discriminate|].
  rewrite pg_get_put_same in *.
  assert (Hgd : pg_get (pg_put (pg_put w d p1) b s1) d = p1).
  { rewrite (pgi_get_put_other _ d b s1) by congruence. apply pg_get_put_same. }
  rewrite Hgd in *.
  destruct (pg_copied s1 p1 i) as [[[s2 p2] e3] r] eqn:Ecp. destruct e3; [cbn in Hsucc; discriminate|].
  rewrite pg_get_put_same in *.
  destruct (pg_insert_local p2 r pos) as [p3 e4] eqn:Eil. cbn [fst snd] in *. subst e4.
  destruct r as [| | |l| |]; try (exfalso; unfold pg_insert_local, pg_insert_dup in Eil;
    destruct ((pos <? 0)%Z || (pg_len (pd_all p2) <? pos)%Z); cbn in Eil; congruence).
  exists p1, s1, s2, p2, l, p3. split; [reflexivity|]. split; [reflexivity|]. split; [exact Ecp|]. split; [exact Eil|].
  split; [apply pg_get_put_same|]. rewrite (pgi_get_put_other _ b d p3 Hbd), (pgi_get_put_other _ b d p2 Hbd), pg_put_put. apply pg_get_put_same.
Qed.

(* keep relations in a row: repairs, then a copy into the document, then repairs *)
Lemma pgq_keep_null_chain : forall s s1 s2 s3,
  pgt_keep (fun _ => False) s s1 -> pgt_keep (fun j => pg_is_null s1 (PvRef j) = true) s1 s2 -> pgt_keep (fun _ => False) s2 s3 ->
  pgt_keep (fun j => pg_is_null s (PvRef j) = true) s s3.
Proof.
  intros s s1 s2 s3 H1 H2 H3 j Hj Hex.
  destruct (H1 j (fun x => x) Hex) as (E1 & M1 & N1).
  assert (Hj1 : ~ pg_is_null s1 (PvRef j) = true) by (rewrite N1; exact Hj).
  destruct (H2 j Hj1 E1) as (E2 & M2 & N2). destruct (H3 j (fun x => x) E2) as (E3 & M3 & N3).
  split; [exact E3|]. split; congruence.
Qed.

(* ------------------------------------------------------------------ all three situations of the destination *)
(* never copied / reserved as a null placeholder (the source object is typed /Page: the copier then copies it for real) /
   copied before and still a leaf dictionary with the page's marker *)
Definition pgq_operand2 (w : pg_world) (d : bool) (i : N) (di : pg_dict) : Prop :=
  let dst := pg_get w d in let src := pg_get w (negb d) in
  match pg_omap_find (pd_omap dst) i with
  | None => True
  | Some l =>
      (pg_is_null (pd_store dst) (PvRef l) = true /\ pg_dget di pgk_Type = PvName pgk_Page) \/
      (exists dl, pg_lookup (pd_store dst) l = Some (PcObj (PvDict dl)) /\ pgx_leafy dl /\ l <> pd_root dst /\
                  pg_mark (pd_store dst) l = pg_mark (pd_store src) i)
  end.

Lemma pgq_sim_null : forall s s' j, pgx_sim s s' -> pg_lookup s j <> None -> pg_is_null s' (PvRef j) = pg_is_null s (PvRef j).
Proof.
  intros s s' j H E. specialize (H j). unfold pg_is_null. destruct (pg_lookup s j) as [[v|]|]; [| |congruence].
  - destruct v; try (rewrite H; reflexivity). destruct H as (d' & -> & _). reflexivity.
  - rewrite H. reflexivity.
Qed.

Lemma foreign_page_insert_all_lemma : forall w d i pos Kd Ks di,
  pgx_st (pg_get w d) Kd -> pgx_st (pg_get w (negb d)) Ks -> pd_all (pg_get w (negb d)) <> [] ->
  pg_omap_wf (pg_get w d) -> pgq_operand2 w d i di -> pgs_doc (pg_get w (negb d)) ->
  pg_lookup (pd_store (pg_get w (negb d))) i = Some (PcObj (PvDict di)) -> pgx_plain di ->
  pg_insertable w d (PhObj (negb d) i) = true -> (0 <= pos <= pg_len Kd)%Z ->
  snd (pg_insert w d (PhObj (negb d) i) pos) = None ->
  let w' := fst (pg_insert w d (PhObj (negb d) i) pos) in
  exists ni, ~ In ni Kd /\
    pgx_st (pg_get w' d) (pg_list_ins Kd (Z.to_nat pos) ni) /\
    pgx_marks (pg_get w' d) = pgsp_insert (pgx_marks (pg_get w d)) (Z.to_nat pos) (pg_mark (pd_store (pg_get w (negb d))) i) /\
    pgx_st (pg_get w' (negb d)) Ks /\ pgx_marks (pg_get w' (negb d)) = pgx_marks (pg_get w (negb d)).
Proof.
  intros w d i pos Kd Ks di Hstd Hsts Hsall Hwf Hopd Hsrt Hdi Hpl Hins Hpos Hsucc. cbv zeta.
  set (b := negb d) in *.
  assert (Hld : pgx_leafy di).
  { assert (Hnorm : pg_norm w (PhObj b i) = PhObj b i) by (unfold pg_norm; rewrite Hdi; reflexivity).
    unfold pg_insertable in Hins. rewrite Hnorm in Hins.
    assert (Hn : pg_is_null (pd_store (pg_get w b)) (PvRef i) = false) by (unfold pg_is_null; rewrite Hdi; reflexivity).
    destruct (pgx_ins_formula _ _ Hn Hins) as (_ & Ht & Hk & Hc).
    eapply (pgx_insertable_dict (pd_store (pg_get w b)) (PvRef i) di); [cbn [pg_rv]; rewrite Hdi; reflexivity|exact Hpl|exact Ht|exact Hk|exact Hc]. }
  destruct (pgq_insert_foreign_decomp w d i pos) as (p1 & s1 & s2 & p2 & l & p3 & Efl & Epush & Ecp & Eil & Egd & Egb);
    [fold b; rewrite Hdi; discriminate|exact Hsucc|]. fold b in Epush, Egd, Egb.
  destruct (pgx_flatten_st _ Kd Hstd) as (p1' & Hfl & Hf1 & Hall1 & Hpi1 & Hsim1 & Hr1 & Ho1 & Hg1 & Hinv1).
  rewrite Efl in Hfl. inversion Hfl. subst p1'. clear Hfl.
  destruct (pgx_push_st _ Ks Hsts) as (s1' & Epush' & Hsts1 & Hsims). rewrite Epush in Epush'. inversion Epush'. subst s1'. clear Epush'.
  assert (Hs1all : pd_all s1 <> []).
  { destruct (pgx_push_flat _ Ks (pgx_st_flat _ _ Hsts) (pgx_st_all _ _ Hsts)) as (s1' & Ep' & _ & Ha' & _). rewrite Epush in Ep'. inversion Ep'. subst s1'.
    destruct Ha' as [Ha'|[_ ->]]; [|exact Hsall]. rewrite Ha'. destruct (pgx_st_all _ _ Hsts) as [E|E]; congruence. }
  assert (Hwf1 : pg_omap_wf p1).
  { destruct Hwf as [A B]. split; rewrite Ho1; [|exact B]. intros og l0 Hl0. eapply pgx_sim_some; [exact Hsim1|eapply A; exact Hl0]. }
  assert (Hsrt1 : pgs_doc s1) by (pose proof (pgs_push _ false Hsrt) as H; rewrite Epush in H; exact H).
  pose proof (copy_source_unchanged_lemma s1 p1 i Hs1all) as Hsrc.
  pose proof (pgz_copied_result s1 p1 i l Hs1all Hwf1) as Hres.
  pose proof (pgz_copied_dst_flat s1 p1 i Kd Hf1) as Hf2.
  destruct (pgz_copied_dst_fields s1 p1 i) as (Hr2 & Ha2 & Hp2 & _ & _).
  pose proof (fun j => pgz_copied_dst_mark s1 p1 i j) as Hmk2.
  destruct (pgx_sim_dict _ _ _ _ Hsims Hdi) as (di1 & Edi1 & Sdi1).
  pose proof (pgx_leafy_sim _ _ Hld Sdi1) as Hld1.
  assert (Hnd : NoDup (map fst di1)).
  { apply pgs_nodup. pose proof (Hsrt1 i _ Edi1) as Hc. cbn [pgs_cell] in Hc. apply pgs_val_dict in Hc. apply Hc. }
  pose proof (pgr_copied_placeholder s1 p1 i) as Hph.
  rewrite Ecp in Hsrc, Hres, Hf2, Hr2, Ha2, Hp2, Hmk2, Hph. cbn [fst snd] in *. rewrite Hsrc in Egb.
  specialize (Hres eq_refl eq_refl).
  assert (Hpi2 : pgx_posinv p2 Kd) by (unfold pgx_posinv in *; rewrite Hp2; exact Hpi1).
  assert (Hall2 : pd_all p2 = Kd) by congruence.
  assert (Hm12 : pgx_marks p2 = pgx_marks (pg_get w d)).
  { rewrite <- (pgx_marks_st_sim _ _ Kd Hstd (conj Hf1 (or_intror (conj Hall1 Hpi1))) Hsim1).
    unfold pgx_marks. rewrite (pgx_K_flat _ _ Hf1), (pgx_K_flat _ _ Hf2). apply map_ext_in. intros k Hk.
    destruct Hf1 as (pn1 & dn1 & _ & _ & _ & _ & _ & _ & _ & _ & _ & Hleaf1 & _). destruct (Hleaf1 k Hk) as (dk & Ek & _).
    apply Hmk2; [rewrite Ek; discriminate|unfold pg_is_null; rewrite Ek; reflexivity]. }
  assert (Hrootdict : exists dr, pg_lookup (pd_store p1) (pd_root p1) = Some (PcObj (PvDict dr))).
  { destruct Hf1 as (pn1 & dn1 & Hroot1 & _). destruct (pg_lookup (pd_store p1) (pd_root p1)) as [[v0|]|] eqn:Er;
      unfold pg_root_pages, pg_hget in Hroot1; cbn [pg_rv] in Hroot1; rewrite Er in Hroot1; try discriminate.
    destruct v0; try discriminate. eexists; reflexivity. }
  (* the copied value at l: leaf, marker of the source page *)
  assert (Hcopyval : forall l0, pg_lookup (pd_store p2) l0 = Some (PcObj (pg_rename (pd_store s1) (pd_omap p2) (PvDict di1))) ->
            (pg_lookup (pd_store p1) l0 = None \/ pg_is_null (pd_store p1) (PvRef l0) = true) ->
            exists dl2, pg_lookup (pd_store p2) l0 = Some (PcObj (PvDict dl2)) /\ pgx_leafy dl2 /\ l0 <> pd_root p2 /\
                        pg_mark (pd_store p2) l0 = pg_mark (pd_store (pg_get w b)) i).
  { intros l0 El2 Hl1. rewrite pgz_rename_dict_eq in El2.
    exists (pg_rename_dict (pd_store s1) (pd_omap p2) di1). split; [exact El2|]. split; [apply pgz_rename_leafy; assumption|].
    split.
    - rewrite Hr2. intros E. destruct Hrootdict as (dr & Er). destruct Hl1 as [H|H]; [congruence|unfold pg_is_null in H; rewrite E, Er in H; discriminate].
    - rewrite (pg_mark_obj _ _ _ El2), <- pgz_rename_dict_eq, (pgz_rename_mark _ _ _ Hnd), <- (pg_mark_obj _ _ _ Edi1).
      unfold pg_mark. rewrite (pgx_sim_mark _ _ i Hsims); [reflexivity|rewrite Hdi; discriminate]. }
  assert (Hl : exists dl2, pg_lookup (pd_store p2) l = Some (PcObj (PvDict dl2)) /\ pgx_leafy dl2 /\ l <> pd_root p2 /\
                           pg_mark (pd_store p2) l = pg_mark (pd_store (pg_get w b)) i).
  { destruct Hres as [(v & Ev & El2 & Hl1)|[(dd & xx & kk & Es)|(Hm & Esame & Hex)]]; [|rewrite Edi1 in Es; discriminate|].
    - rewrite Edi1 in Ev. inversion Ev. subst v. apply Hcopyval; assumption.
    - unfold pgq_operand2 in Hopd. fold b in Hopd. rewrite <- Ho1, Hm in Hopd.
      destruct Hopd as [[Hnull Hty]|(dl & Edl & Ldl & Hlr & Hmk)].
      + (* reserved only: the copier copies it now *)
        assert (Hn1 : pg_is_null (pd_store p1) (PvRef l) = true).
        { rewrite (pgq_sim_null _ _ l Hsim1); [exact Hnull|]. destruct Hwf as [A _]. eapply A. rewrite <- Ho1. exact Hm. }
        assert (Hpage : pg_is_dict_of_type (pd_store s1) (PvRef i) pgk_Page = true).
        { unfold pg_is_dict_of_type, pg_is_dict, pg_name_is, pg_hget. cbn [pg_rv]. rewrite Edi1.
          rewrite (pgq_type_page_sim _ _ Hld Sdi1 Hty). cbn [pg_rv]. rewrite pg_key_eqb_refl. reflexivity. }
        destruct (Hph l Hs1all Hwf1 Hm Hn1 Hpage eq_refl) as (_ & v & Ev & El2).
        rewrite Edi1 in Ev. inversion Ev. subst v. apply Hcopyval; [exact El2|right; exact Hn1].
      + destruct (pgx_sim_dict _ _ _ _ Hsim1 Edl) as (dl1 & Edl1 & Sdl1).
        exists dl1. split; [rewrite Esame; exact Edl1|]. split; [exact (pgx_leafy_sim _ _ Ldl Sdl1)|].
        split; [rewrite Hr2, Hr1; exact Hlr|].
        rewrite <- Hmk. unfold pg_mark at 1 2. unfold pg_marker, pg_hget. cbn [pg_rv]. rewrite Esame, Edl1, Edl.
        destruct Sdl1 as (Hh & _). rewrite (Hh pgk_Mk pgx_mk_hard). reflexivity. }
  destruct Hl as (dl2 & El2 & Ldl2 & Hlroot2 & Hmkl).
  destruct (pgq_insert_local_st p2 Kd l dl2 pos Hf2 Hall2 Hpi2 El2 Ldl2 Hlroot2 Hpos) as (p3' & ni & Hrun3 & Hst3 & Hnin & Hmk3 & _).
  rewrite Eil in Hrun3. inversion Hrun3. subst p3'.
  exists ni. rewrite Egd, Egb. split; [exact Hnin|]. split; [exact Hst3|]. split; [rewrite Hmk3, Hm12, Hmkl; reflexivity|].
  split; [exact Hsts1|eapply pgx_marks_st_sim; eassumption].
Qed.

(* one insertion of a page of the other document, in the form of the step lemma *)
Lemma pgq_step_insert_foreign : forall w d i n Kd Ks di,
  pgx_st (pg_get w d) Kd -> pgx_st (pg_get w (negb d)) Ks -> pd_all (pg_get w (negb d)) <> [] ->
  pg_omap_wf (pg_get w d) -> pgq_operand2 w d i di -> pgs_doc (pg_get w (negb d)) ->
  pg_lookup (pd_store (pg_get w (negb d))) i = Some (PcObj (PvDict di)) -> pgx_plain di -> (n <= length Kd)%nat ->
  snd (pg_insert w d (PhObj (negb d) i) (Z.of_nat n)) = None ->
  let h := PhObj (negb d) i in
  let '(w', e) := pg_insert w d h (Z.of_nat n) in
  let '(s', raise_) := pg_spec_step (pgx_marks2 w) (if pg_insertable w d h then SpInsert d n (pg_operand_mark w h) else SpInvalid) in
  pgx_marks2 w' = s' /\ pg_is_err (pg_res_of e) = raise_ /\
  (exists Kd', pgx_st (pg_get w' d) Kd') /\ pgx_st (pg_get w' (negb d)) Ks.
Proof.
  intros w d i n Kd Ks di Hstd Hsts Hsall Hwf Hop Hnd Hdi Hpl Hn Hsucc. cbv zeta.
  destruct (pg_insertable w d (PhObj (negb d) i)) eqn:Hins.
  - pose proof (foreign_page_insert_all_lemma w d i (Z.of_nat n) Kd Ks di Hstd Hsts Hsall Hwf Hop Hnd Hdi Hpl Hins) as H.
    specialize (H ltac:(unfold pg_len; lia) Hsucc). cbv zeta in H.
    destruct (pg_insert w d (PhObj (negb d) i) (Z.of_nat n)) as [w' e]. cbn [fst snd] in *. subst e.
    destruct H as (ni & Hnin & Hst' & Hmk & Hsts' & Hmks).
    cbn [pg_spec_step]. rewrite pgx_marks2_sel, (pgx_marks_length _ Kd (pgx_st_flat _ _ Hstd)).
    assert (Nat.leb n (length Kd) = true) as -> by (apply Nat.leb_le; exact Hn).
    split; [|split; [reflexivity|split; [eexists; exact Hst'|exact Hsts']]].
    rewrite Nat2Z.id in Hmk. unfold pg_operand_mark, pg_norm. rewrite Hdi.
    apply pgq_marks2_of_gets; assumption.
  - exfalso. unfold pg_insert in Hsucc. rewrite Hins in Hsucc. cbn in Hsucc. discriminate.
Qed.

Lemma pgq_insertable_foreign_put : forall w d i p1,
  pg_insertable (pg_put w d p1) d (PhObj (negb d) i) = pg_insertable w d (PhObj (negb d) i) /\
  pg_operand_mark (pg_put w d p1) (PhObj (negb d) i) = pg_operand_mark w (PhObj (negb d) i).
Proof.
  intros w d i p1. unfold pg_insertable, pg_operand_mark, pg_norm.
  assert (E : pg_get (pg_put w d p1) (negb d) = pg_get w (negb d)) by apply pg_get_put_other. rewrite E.
  destruct (pg_lookup (pd_store (pg_get w (negb d))) i); [rewrite E|rewrite pg_get_put_same]; split; reflexivity.
Qed.

(* ... made after the lazy part of the same call (findPage / getAllPages on the destination) has run *)
Lemma pgq_step_insert_foreign_after : forall w d i n Kd Ks di p1,
  pgx_st (pg_get w d) Kd -> pgx_st (pg_get w (negb d)) Ks -> pd_all (pg_get w (negb d)) <> [] ->
  pg_omap_wf (pg_get w d) -> pgq_operand2 w d i di -> pgs_doc (pg_get w (negb d)) ->
  pgx_st p1 Kd -> pgx_sim (pd_store (pg_get w d)) (pd_store p1) -> pd_root p1 = pd_root (pg_get w d) -> pd_omap p1 = pd_omap (pg_get w d) ->
  pg_lookup (pd_store (pg_get w (negb d))) i = Some (PcObj (PvDict di)) -> pgx_plain di -> (n <= length Kd)%nat ->
  snd (pg_insert (pg_put w d p1) d (PhObj (negb d) i) (Z.of_nat n)) = None ->
  let h := PhObj (negb d) i in
  let '(w', e) := pg_insert (pg_put w d p1) d h (Z.of_nat n) in
  let '(s', raise_) := pg_spec_step (pgx_marks2 w) (if pg_insertable w d h then SpInsert d n (pg_operand_mark w h) else SpInvalid) in
  pgx_marks2 w' = s' /\ pg_is_err (pg_res_of e) = raise_ /\
  (exists Kd', pgx_st (pg_get w' d) Kd') /\ pgx_st (pg_get w' (negb d)) Ks.
Proof.
  intros w d i n Kd Ks di p1 Hstd Hsts Hsall Hwf Hop Hnd Hst1 Hsim Hr Ho Hdi Hpl Hn Hsucc. cbv zeta.
  set (w1 := pg_put w d p1) in *.
  assert (Eb : pg_get w1 (negb d) = pg_get w (negb d)) by apply pg_get_put_other.
  assert (Ed : pg_get w1 d = p1) by apply pg_get_put_same.
  assert (Hwf1 : pg_omap_wf (pg_get w1 d)).
  { rewrite Ed. destruct Hwf as [A B]. split; rewrite Ho; [|exact B]. intros og l Hl. eapply pgx_sim_some; [exact Hsim|eapply A; exact Hl]. }
  assert (Hop1 : pgq_operand2 w1 d i di).
  { unfold pgq_operand2 in *. rewrite Ed, Eb, Ho. destruct (pg_omap_find (pd_omap (pg_get w d)) i) as [l|] eqn:El; [|exact I].
    destruct Hop as [[Hnull Hty]|(dl & Edl & Ldl & Hlr & Hmk)].
    { left. split; [|exact Hty]. rewrite (pgq_sim_null _ _ l Hsim); [exact Hnull|]. destruct Hwf as [A _]. eapply A, El. }
    right. destruct (pgx_sim_dict _ _ _ _ Hsim Edl) as (dl1 & Edl1 & Sdl1).
    exists dl1. split; [exact Edl1|]. split; [exact (pgx_leafy_sim _ _ Ldl Sdl1)|]. split; [rewrite Hr; exact Hlr|].
    rewrite <- Hmk. unfold pg_mark. rewrite (pgx_sim_mark _ _ l Hsim); [reflexivity|rewrite Edl; discriminate]. }
  pose proof (pgq_step_insert_foreign w1 d i n Kd Ks di) as H. rewrite Ed, Eb in H.
  specialize (H Hst1 Hsts Hsall). rewrite Ed in Hwf1. specialize (H Hwf1 Hop1 Hnd Hdi Hpl Hn Hsucc). cbv zeta in H.
  destruct (pgq_insertable_foreign_put w d i p1) as [Ei Em]. fold w1 in Ei, Em. rewrite Ei, Em in H.
  assert (pgx_marks2 w1 = pgx_marks2 w) as Hm by (apply pgx_marks2_put_same; eapply pgx_marks_st_sim; eassumption).
  rewrite Hm in H. exact H.
Qed.


(* ------------------------------------------------------------------ the world invariant with memo and sorted stores *)
Definition pgq_W (w : pg_world) : Prop :=
  pgx_W w /\ pgs_world w /\ (forall d, pgq_memo (pg_get w (negb d)) (pg_get w d)).

(* the explicit targets of replaceObject / swapObjects in document d *)
Definition pgq_E (o : pg_op) (d : bool) (j : N) : Prop :=
  match o with
  | PoReplace d' i _ | PoReplaceInd d' i _ => d' = d /\ j = i
  | PoSwap d' i k => d' = d /\ (j = i \/ j = k)
  | _ => False
  end.

(* "if you mutate an object that has already been copied and try to copy it again, it won't work" (QPDF.hh): the objects a
   call replaces or swaps are neither copies of objects of the other document nor objects that were copied into it *)
Definition pgq_untaint (w : pg_world) (o : pg_op) : Prop :=
  forall d j, pgq_E o d j ->
    (forall a l, pg_omap_find (pd_omap (pg_get w d)) a = Some l -> l <> j) /\
    (forall l, pg_omap_find (pd_omap (pg_get w (negb d))) j = Some l -> pg_is_null (pd_store (pg_get w d)) (PvRef j) = true).

(* an insertion call whose operand is an object of the other document *)
Definition pgq_foreign (w : pg_world) (o : pg_op) : option (bool * N) :=
  match o with
  | PoAddPage d h _ | PoHAddPage d h _ | PoAddPageAt d h _ _ =>
      match pg_norm w h with PhObj b i => if Bool.eqb b d then None else Some (d, i) | PhDirect _ => None end
  | _ => None
  end.

Definition pgq_cf (w : pg_world) (o : pg_op) : option (bool * bool * N) :=
  match o with
  | PoCopyForeign d h => match pg_norm w h with PhObj b i => if Bool.eqb b d then None else Some (d, b, i) | PhDirect _ => None end
  | _ => None
  end.

(* what the caller has to know about a memoised copy: it is still a leaf dictionary and not the catalog (that it still
   carries the page's marker follows from the memo invariant) *)
Definition pgq_operand3 (w : pg_world) (d : bool) (i : N) (di : pg_dict) : Prop :=
  let dst := pg_get w d in
  match pg_omap_find (pd_omap dst) i with
  | None => True
  | Some l =>
      (pg_is_null (pd_store dst) (PvRef l) = true /\ pg_dget di pgk_Type = PvName pgk_Page) \/
      (exists dl, pg_lookup (pd_store dst) l = Some (PcObj (PvDict dl)) /\ pgx_leafy dl /\ l <> pd_root dst)
  end.

Lemma pgq_operand3_2 : forall w d i di, pgq_memo (pg_get w (negb d)) (pg_get w d) -> pgq_operand3 w d i di -> pgq_operand2 w d i di.
Proof.
  intros w d i di [_ Hm] H. unfold pgq_operand3, pgq_operand2 in *. destruct (pg_omap_find (pd_omap (pg_get w d)) i) as [l|] eqn:E; [|exact I].
  destruct H as [H|(dl & Edl & Ldl & Hr)]; [left; exact H|right].
  exists dl. repeat (split; [assumption|]). destruct (Hm i l E) as [Hn|[_ Hmk]]; [|exact Hmk].
  unfold pg_is_null in Hn. rewrite Edl in Hn. discriminate.
Qed.

(* the calls covered: those of pgx_adm2, now with pages of the other document as insertion operands (the source's page
   cache is filled - one gets a page handle from getAllPages -, the operand is a plain dictionary, the destination knows it
   in one of the three ways of pgq_operand3, and the call does not fail), with sorted operand values and without
   replaceObject / swapObjects on objects that take part in a copy relation *)
Definition pgq_adm (w : pg_world) (o : pg_op) : Prop :=
  pgs_op o /\ pgq_untaint w o /\
  match pgq_foreign w o with
  | Some (d, i) =>
      pd_all (pg_get w (negb d)) <> [] /\
      (exists di, pg_lookup (pd_store (pg_get w (negb d))) i = Some (PcObj (PvDict di)) /\ pgx_plain di /\ pgq_operand3 w d i di) /\
      pg_is_err (snd (pg_step w o)) = false
  | None =>
      pgx_adm2 w o /\ match pgq_cf w o with Some (d, b, i) => pd_all (pg_get w b) <> [] | None => True end
  end.

Lemma pgq_norm_obj_eq : forall w h b i, pg_norm w h = PhObj b i -> h = PhObj b i.
Proof.
  intros w h b i H. unfold pg_norm in H. destruct h as [v|b0 i0]; [discriminate|].
  destruct (pg_lookup (pd_store (pg_get w b0)) i0); [exact H|discriminate].
Qed.

Lemma pgq_nodup_after_push : forall p i, pgs_doc p ->
  forall s1 di', pg_push p false = (s1, None) -> pg_lookup (pd_store s1) i = Some (PcObj (PvDict di')) -> NoDup (map fst di').
Proof.
  intros p i Hs s1 di' E El. pose proof (pgs_push _ false Hs) as H. rewrite E in H. cbn [fst] in H.
  apply pgs_nodup. pose proof (H i _ El) as Hc. cbn [pgs_cell] in Hc. apply pgs_val_dict in Hc. apply Hc.
Qed.

(* the list refinement of an insertion call with a page of the other document *)
Lemma pgq_step_refines_foreign : forall w o d i,
  pgq_W w -> pgq_adm w o -> pgq_foreign w o = Some (d, i) ->
  let '(w', r) := pg_step w o in
  let '(s', raise_) := pg_spec_step (pgx_marks2 w) (pgx_abs w o) in
  pgx_marks2 w' = s' /\ pg_is_err r = raise_ /\ pgx_W w'.
Proof.
  intros w o d i (HW & HS & HM) (_ & _ & Hadm) Hf. rewrite Hf in Hadm. destruct Hadm as (Hsall & (di & Hdi & Hpl & Hop3) & Hsucc).
  pose proof (pgq_operand3_2 w d i di (HM d) Hop3) as Hop.
  destruct (pgx_W_get w d HW) as [Kd Hstd]. destruct (pgx_W_get w (negb d) HW) as [Ks Hsts].
  destruct (HM d) as [Hwf _].
  assert (Hsrt : pgs_doc (pg_get w (negb d))) by (destruct HS; destruct d; assumption).
  pose proof (pgx_K_flat _ _ (pgx_st_flat _ _ Hstd)) as HK.
  assert (Hfin : forall (w' : pg_world) (e : option pg_err) (s' : pg_lists) (raise_ : bool),
            (pgx_marks2 w' = s' /\ pg_is_err (pg_res_of e) = raise_ /\ (exists Kd', pgx_st (pg_get w' d) Kd') /\ pgx_st (pg_get w' (negb d)) Ks) ->
            pgx_marks2 w' = s' /\ pg_is_err (pg_res_of e) = raise_ /\ pgx_W w').
  { intros w' e s' raise_ (A & B & (Kd' & C) & D). split; [exact A|split; [exact B|exact (pgq_W_of_gets w' d Kd' Ks C D)]]. }
  unfold pgq_foreign in Hf.
  destruct o as [d0 h first|d0 h first|d0 h before r|d0 h|d0 i0|d0 h|d0 i0 v|d0 i0 j|d0|d0|d0|d0 i0|d0 v|d0 i0 h|d0 i0]; try discriminate;
    destruct (pg_norm w h) as [v|b i1] eqn:En; try discriminate; destruct (Bool.eqb b d0) eqn:Eb; try discriminate;
    inversion Hf; subst d0 i1; apply Bool.eqb_false_iff in Eb;
    assert (b = negb d) by (destruct b, d; cbn; congruence); subst b;
    pose proof (pgq_norm_obj_eq _ _ _ _ En) as Eh; subst h.
  - (* addPage *)
    cbn [pg_step pgx_abs] in *. rewrite HK. destruct first.
    + destruct (pg_insert w d (PhObj (negb d) i) 0) as [w' e] eqn:Ei. cbn [snd] in Hsucc.
      assert (He : e = None) by (destruct e; [discriminate|reflexivity]). subst e.
      pose proof (pgq_step_insert_foreign w d i O Kd Ks di Hstd Hsts Hsall Hwf Hop Hsrt Hdi Hpl ltac:(lia)) as H. cbv zeta in H. cbn [Z.of_nat] in H.
      rewrite Ei in H. cbn [snd] in H. specialize (H eq_refl). cbv zeta in H.
      destruct (pg_spec_step _ _) as [s' raise_]. apply (Hfin w' None s' raise_ H).
    + rewrite (pgx_count_st _ Kd (pgx_st_flat _ _ Hstd)) in *. unfold pg_len in *.
      destruct (pg_insert w d (PhObj (negb d) i) (Z.of_nat (length Kd))) as [w' e] eqn:Ei. cbn [snd] in Hsucc.
      assert (He : e = None) by (destruct e; [discriminate|reflexivity]). subst e.
      pose proof (pgq_step_insert_foreign w d i (length Kd) Kd Ks di Hstd Hsts Hsall Hwf Hop Hsrt Hdi Hpl ltac:(lia)) as H. cbv zeta in H.
      rewrite Ei in H. cbn [snd] in H. specialize (H eq_refl). cbv zeta in H.
      destruct (pg_spec_step _ _) as [s' raise_]. apply (Hfin w' None s' raise_ H).
  - (* the helper's addPage *)
    cbn [pg_step pgx_abs] in *. rewrite HK. destruct first.
    + destruct (pg_insert w d (PhObj (negb d) i) 0) as [w' e] eqn:Ei. cbn [snd] in Hsucc.
      assert (He : e = None) by (destruct e; [discriminate|reflexivity]). subst e.
      pose proof (pgq_step_insert_foreign w d i O Kd Ks di Hstd Hsts Hsall Hwf Hop Hsrt Hdi Hpl ltac:(lia)) as H. cbv zeta in H. cbn [Z.of_nat] in H.
      rewrite Ei in H. cbn [snd] in H. specialize (H eq_refl). cbv zeta in H.
      destruct (pg_spec_step _ _) as [s' raise_]. apply (Hfin w' None s' raise_ H).
    + destruct (pgx_all_st _ Kd Hstd) as (p1 & Eall & Hst1 & Hall1 & Hsim & Hr1).
      pose proof (pgt_all (pg_get w d)) as Hdr. rewrite Eall in *. cbn [fst] in Hdr. destruct Hdr as (_ & Ho1 & _). cbv iota beta in *.
      rewrite Hall1 in *. unfold pg_len in *.
      destruct (pg_insert (pg_put w d p1) d (PhObj (negb d) i) (Z.of_nat (length Kd))) as [w' e] eqn:Ei. cbn [snd] in Hsucc.
      assert (He : e = None) by (destruct e; [discriminate|reflexivity]). subst e.
      pose proof (pgq_step_insert_foreign_after w d i (length Kd) Kd Ks di p1 Hstd Hsts Hsall Hwf Hop Hsrt Hst1 Hsim Hr1 Ho1 Hdi Hpl ltac:(lia)) as H. cbv zeta in H.
      rewrite Ei in H. cbn [snd] in H. specialize (H eq_refl). cbv zeta in H.
      destruct (pg_spec_step _ _) as [s' raise_]. apply (Hfin w' None s' raise_ H).
  - (* addPageAt *)
    cbn [pg_step pgx_abs] in *. rewrite HK.
    destruct (pg_foreign_handle w d r); [cbn in Hsucc; discriminate|].
    destruct (pgx_find_st _ Kd (pg_og_of w r) Hstd) as (p1 & Efind & Hst1 & Hall1 & Hinv1 & Hsim & Hr1).
    pose proof (pgt_find (pg_get w d) (pg_og_of w r)) as Hdr. rewrite Efind in *. cbn [fst] in Hdr. destruct Hdr as (_ & Ho1 & _).
    destruct (pg_index Kd (pg_og_of w r)) as [k|] eqn:E; [|cbn in Hsucc; discriminate].
    cbv iota beta in *. pose proof (pg_index_lt _ _ _ E) as Hlt. destruct before.
    + destruct (pg_insert (pg_put w d p1) d (PhObj (negb d) i) (Z.of_nat k)) as [w' e] eqn:Ei. cbn [snd] in Hsucc.
      assert (He : e = None) by (destruct e; [discriminate|reflexivity]). subst e.
      pose proof (pgq_step_insert_foreign_after w d i k Kd Ks di p1 Hstd Hsts Hsall Hwf Hop Hsrt Hst1 Hsim Hr1 Ho1 Hdi Hpl ltac:(lia)) as H. cbv zeta in H.
      rewrite Ei in H. cbn [snd] in H. specialize (H eq_refl). cbv zeta in H.
      destruct (pg_spec_step _ _) as [s' raise_]. apply (Hfin w' None s' raise_ H).
    + replace (Z.of_nat k + 1)%Z with (Z.of_nat (S k)) in * by lia.
      destruct (pg_insert (pg_put w d p1) d (PhObj (negb d) i) (Z.of_nat (S k))) as [w' e] eqn:Ei. cbn [snd] in Hsucc.
      assert (He : e = None) by (destruct e; [discriminate|reflexivity]). subst e.
      pose proof (pgq_step_insert_foreign_after w d i (S k) Kd Ks di p1 Hstd Hsts Hsall Hwf Hop Hsrt Hst1 Hsim Hr1 Ho1 Hdi Hpl ltac:(lia)) as H. cbv zeta in H.
      rewrite Ei in H. cbn [snd] in H. specialize (H eq_refl). cbv zeta in H.
      destruct (pg_spec_step _ _) as [s' raise_]. apply (Hfin w' None s' raise_ H).
Qed.

(* ------------------------------------------------------------------ the memo invariant through the calls *)
Lemma pgq_memo_generic : forall w w' o,
  (forall d, pgt_keep (pgq_E o d) (pd_store (pg_get w d)) (pd_store (pg_get w' d)) /\ pd_omap (pg_get w' d) = pd_omap (pg_get w d)) ->
  pgq_untaint w o -> (forall d, pgq_memo (pg_get w (negb d)) (pg_get w d)) -> (forall d, pgq_memo (pg_get w' (negb d)) (pg_get w' d)).
Proof.
  intros w w' o HT Hu HM d. destruct (HT d) as [KD OD]. destruct (HT (negb d)) as [KS _].
  eapply pgq_memo_keep; [apply HM|exact KS|exact KD|exact OD|].
  intros a l Hl. split.
  - intros HE. destruct (Hu d l HE) as [H1 _]. exact (H1 a l Hl eq_refl).
  - intros Hnn HE. destruct (Hu (negb d) a HE) as [_ H2]. rewrite Bool.negb_involutive in H2.
    rewrite (H2 l Hl) in Hnn. discriminate.
Qed.

Lemma pgq_notnull_T : forall s a, pg_is_null s (PvRef a) = false -> ~ (pg_is_null s (PvRef a) = true).
Proof. intros s a H E. congruence. Qed.

(* copyForeignObject of an object of document b into document d *)
Lemma pgq_memo_cf : forall w b d i src' dst' r,
  b = negb d -> pd_all (pg_get w b) <> [] -> pgs_doc (pg_get w b) ->
  (forall d0, pgq_memo (pg_get w (negb d0)) (pg_get w d0)) ->
  pg_copied (pg_get w b) (pg_get w d) i = (src', dst', None, r) ->
  let w' := pg_put (pg_put w b src') d dst' in
  forall d0, pgq_memo (pg_get w' (negb d0)) (pg_get w' d0).
Proof.
  intros w b d i src' dst' r -> Hall Hsrt HM Ecp. cbv zeta.
  pose proof (pgr_copied_memo (pg_get w (negb d)) (pg_get w d) i Hall Hsrt (HM d)) as H1. rewrite Ecp in H1. cbv beta iota in H1. destruct (H1 eq_refl) as [-> Hm1].
  pose proof (pgt_copied_dst (pg_get w (negb d)) (pg_get w d) i) as Hk. rewrite Ecp in Hk. cbn [fst snd] in Hk.
  assert (Eb : pg_get (pg_put (pg_put w (negb d) (pg_get w (negb d))) d dst') (negb d) = pg_get w (negb d)).
  { rewrite pg_get_put_other, pg_put_get. reflexivity. }
  assert (Ed : pg_get (pg_put (pg_put w (negb d) (pg_get w (negb d))) d dst') d = dst') by apply pg_get_put_same.
  intros d0. destruct (Bool.bool_dec d0 d) as [->|Hne].
  - rewrite Eb, Ed. exact Hm1.
  - assert (d0 = negb d) by (destruct d0, d; cbn; congruence). subst d0. rewrite Bool.negb_involutive, Eb, Ed.
    eapply pgq_memo_keep; [apply (HM (negb d))|rewrite Bool.negb_involutive; exact Hk|apply (pgt_keep_refl (fun _ => False))|reflexivity|].
    intros a l Hl. split; [intros []|]. rewrite Bool.negb_involutive. apply pgq_notnull_T.
Qed.

(* a successful insertion of a page of document (negb d) into document d *)
Lemma pgq_memo_foreign : forall w d i pos,
  pd_all (pg_get w (negb d)) <> [] -> pgs_doc (pg_get w (negb d)) -> pgx_st (pg_get w (negb d)) (pgx_K (pg_get w (negb d))) ->
  pg_lookup (pd_store (pg_get w (negb d))) i <> None ->
  (forall d0, pgq_memo (pg_get w (negb d0)) (pg_get w d0)) ->
  snd (pg_insert w d (PhObj (negb d) i) pos) = None ->
  let w' := fst (pg_insert w d (PhObj (negb d) i) pos) in
  forall d0, pgq_memo (pg_get w' (negb d0)) (pg_get w' d0).
Proof.
  intros w d i pos Hsall Hsrt Hsts Hex HM Hsucc. cbv zeta.
  destruct (pgq_insert_foreign_decomp w d i pos Hex Hsucc) as (p1 & s1 & s2 & p2 & l & p3 & Efl & Epush & Ecp & Eil & Egd & Egb).
  pose proof (pgt_flatten (pg_get w d)) as (KD1 & OD1 & _). rewrite Efl in KD1, OD1. cbn [fst] in KD1, OD1.
  pose proof (pgt_push (pg_get w (negb d)) false) as (KS1 & OS1 & _). rewrite Epush in KS1, OS1. cbn [fst] in KS1, OS1.
  pose proof (pgt_insert_local p2 (PvRef l) pos) as (KD3 & OD3 & _). rewrite Eil in KD3, OD3. cbn [fst] in KD3, OD3.
  assert (Hs1all : pd_all s1 <> []).
  { destruct (pgx_push_flat _ _ (pgx_st_flat _ _ Hsts) (pgx_st_all _ _ Hsts)) as (s1' & Ep' & _ & Ha' & _). rewrite Epush in Ep'. inversion Ep'. subst s1'.
    destruct Ha' as [Ha'|[_ ->]]; [|exact Hsall]. rewrite Ha'. destruct (pgx_st_all _ _ Hsts) as [E|E]; congruence. }
  assert (Hsrt1 : pgs_doc s1) by (pose proof (pgs_push _ false Hsrt) as H; rewrite Epush in H; exact H).
  assert (Hm1 : pgq_memo s1 p1).
  { eapply pgq_memo_keep; [apply (HM d)|exact KS1|exact KD1|exact OD1|]. intros a l0 _. split; [intros []|intros _ []]. }
  pose proof (pgr_copied_memo s1 p1 i Hs1all Hsrt1 Hm1) as H2. rewrite Ecp in H2. cbv beta iota in H2. destruct (H2 eq_refl) as [-> Hm2].
  pose proof (pgt_copied_dst s1 p1 i) as KD2. rewrite Ecp in KD2. cbn [fst snd] in KD2.
  intros d0. destruct (Bool.bool_dec d0 d) as [->|Hne].
  - rewrite Egd, Egb. eapply pgq_memo_keep; [exact Hm2|apply (pgt_keep_refl (fun _ => False))|exact KD3|exact OD3|]. intros a l0 _. split; [intros []|intros _ []].
  - assert (d0 = negb d) by (destruct d0, d; cbn; congruence). subst d0. rewrite Bool.negb_involutive, Egd, Egb.
    eapply pgq_memo_keep; [apply (HM (negb d))| |exact KS1|exact OS1|].
    + rewrite Bool.negb_involutive. exact (pgq_keep_null_chain _ _ _ _ KD1 KD2 KD3).
    + intros a l0 _. split; [intros []|]. rewrite Bool.negb_involutive. apply pgq_notnull_T.
Qed.

Lemma pgq_memo_put : forall w d p1, pgt_dR (pg_get w d) p1 ->
  (forall d0, pgq_memo (pg_get w (negb d0)) (pg_get w d0)) ->
  forall d0, pgq_memo (pg_get (pg_put w d p1) (negb d0)) (pg_get (pg_put w d p1) d0).
Proof.
  intros w d p1 (K & O & _) HM d0. destruct (Bool.bool_dec d0 d) as [->|Hne].
  - rewrite pg_get_put_same, pg_get_put_other. eapply pgq_memo_keep; [apply (HM d)|apply (pgt_keep_refl (fun _ => False))|exact K|exact O|].
    intros a l _. split; [intros []|intros _ []].
  - assert (d0 = negb d) by (destruct d0, d; cbn; congruence). subst d0. rewrite Bool.negb_involutive, pg_get_put_same, pg_get_put_other.
    eapply pgq_memo_keep; [apply (HM (negb d))|rewrite Bool.negb_involutive; exact K|apply (pgt_keep_refl (fun _ => False))|reflexivity|].
    intros a l _. split; [intros []|intros _ []].
Qed.

Lemma pgq_no_copy : forall w o d, pgq_foreign w o = None -> pgq_cf w o = None -> pgt_copies_into w o d = false.
Proof.
  intros w o d Hf Hc. unfold pgt_copies_into, pgq_foreign, pgq_cf, pg_foreign_handle in *.
  destruct o; try reflexivity; destruct (pg_norm w h) as [v|b i]; try (apply andb_false_r);
    destruct (Bool.eqb b d0); try discriminate; cbn; apply andb_false_r.
Qed.

(* ------------------------------------------------------------------ one call *)
Lemma pgq_step_refines : forall w o, pgq_W w -> pgq_adm w o ->
  let '(w', r) := pg_step w o in
  let '(s', raise_) := pg_spec_step (pgx_marks2 w) (pgx_abs w o) in
  pgx_marks2 w' = s' /\ pg_is_err r = raise_ /\ pgq_W w'.
Proof.
  intros w o HWW Hadm.
  assert (Hsorted : pgs_world (fst (pg_step w o))).
  { destruct HWW as (_ & HS & _). destruct Hadm as (Hso & _). apply sorted_store_invariant_lemma; assumption. }
  pose proof HWW as (HW & HS & HM). pose proof Hadm as (Hso & Hun & Hcase).
  destruct (pgq_foreign w o) as [[d i]|] eqn:Hf.
  - (* a page of the other document *)
    pose proof (pgq_step_refines_foreign w o d i HWW Hadm Hf) as Href.
    destruct Hcase as (Hsall & (di & Hdi & Hpl & Hop3) & Hsucc).
    assert (Hmemo : forall d0, pgq_memo (pg_get (fst (pg_step w o)) (negb d0)) (pg_get (fst (pg_step w o)) d0)).
    { assert (Hsrt : pgs_doc (pg_get w (negb d))) by (destruct HS; destruct d; assumption).
      destruct (pgx_W_get w (negb d) HW) as [Ks Hsts]. rewrite <- (pgx_K_flat _ _ (pgx_st_flat _ _ Hsts)) in Hsts.
      assert (Hex : pg_lookup (pd_store (pg_get w (negb d))) i <> None) by (rewrite Hdi; discriminate).
      destruct (pgx_W_get w d HW) as [Kd Hstd].
      unfold pgq_foreign in Hf.
      destruct o as [d0 h first|d0 h first|d0 h before r|d0 h|d0 i0|d0 h|d0 i0 v|d0 i0 j|d0|d0|d0|d0 i0|d0 v|d0 i0 h|d0 i0]; try discriminate;
        destruct (pg_norm w h) as [v|b i1] eqn:En; try discriminate; destruct (Bool.eqb b d0) eqn:Eb; try discriminate;
        inversion Hf; subst d0 i1; apply Bool.eqb_false_iff in Eb;
        assert (b = negb d) by (destruct b, d; cbn; congruence); subst b;
        pose proof (pgq_norm_obj_eq _ _ _ _ En) as Eh; subst h; cbn [pg_step] in *.
      - destruct first.
        + destruct (pg_insert w d (PhObj (negb d) i) 0) as [w' e] eqn:Ei. cbn [fst snd] in *.
          assert (He : e = None) by (destruct e; [discriminate|reflexivity]). subst e.
          pose proof (pgq_memo_foreign w d i 0 Hsall Hsrt Hsts Hex HM) as H. rewrite Ei in H. exact (H eq_refl).
        + rewrite (pgx_count_st _ Kd (pgx_st_flat _ _ Hstd)) in *.
          destruct (pg_insert w d (PhObj (negb d) i) (pg_len Kd)) as [w' e] eqn:Ei. cbn [fst snd] in *.
          assert (He : e = None) by (destruct e; [discriminate|reflexivity]). subst e.
          pose proof (pgq_memo_foreign w d i (pg_len Kd) Hsall Hsrt Hsts Hex HM) as H. rewrite Ei in H. exact (H eq_refl).
      - destruct first.
        + destruct (pg_insert w d (PhObj (negb d) i) 0) as [w' e] eqn:Ei. cbn [fst snd] in *.
          assert (He : e = None) by (destruct e; [discriminate|reflexivity]). subst e.
          pose proof (pgq_memo_foreign w d i 0 Hsall Hsrt Hsts Hex HM) as H. rewrite Ei in H. exact (H eq_refl).
        + pose proof (pgt_all (pg_get w d)) as Hdr. destruct (pg_all (pg_get w d)) as [p1 e1]. cbn [fst] in Hdr.
          destruct e1; [cbn in Hsucc; discriminate|]. cbv iota beta in *.
          pose proof (pgq_memo_put w d p1 Hdr HM) as HM1.
          destruct (pg_insert (pg_put w d p1) d (PhObj (negb d) i) (pg_len (pd_all p1))) as [w' e] eqn:Ei. cbn [fst snd] in *.
          assert (He : e = None) by (destruct e; [discriminate|reflexivity]). subst e.
          pose proof (pgq_memo_foreign (pg_put w d p1) d i (pg_len (pd_all p1))) as H. rewrite pg_get_put_other in H.
          specialize (H Hsall Hsrt Hsts Hex HM1). rewrite Ei in H. exact (H eq_refl).
      - destruct (pg_foreign_handle w d r); [cbn in Hsucc; discriminate|].
        pose proof (pgt_find (pg_get w d) (pg_og_of w r)) as Hdr. destruct (pg_find (pg_get w d) (pg_og_of w r)) as [[p1 e1] pos]. cbn [fst] in Hdr.
        destruct e1; [cbn in Hsucc; discriminate|]. cbv iota beta in *.
        pose proof (pgq_memo_put w d p1 Hdr HM) as HM1.
        destruct (pg_insert (pg_put w d p1) d (PhObj (negb d) i) (if before then pos else (pos + 1)%Z)) as [w' e] eqn:Ei. cbn [fst snd] in *.
        assert (He : e = None) by (destruct e; [discriminate|reflexivity]). subst e.
        pose proof (pgq_memo_foreign (pg_put w d p1) d i (if before then pos else (pos + 1)%Z)) as H. rewrite pg_get_put_other in H.
        specialize (H Hsall Hsrt Hsts Hex HM1). rewrite Ei in H. exact (H eq_refl). }
    destruct (pg_step w o) as [w' r]. destruct (pg_spec_step _ _) as [s' raise_]. cbn [fst] in *.
    destruct Href as (A & B & C). split; [exact A|split; [exact B|split; [exact C|split; assumption]]].
  - destruct Hcase as [Ha2 Hcf].
    pose proof (pgx_step_refines2 w o HW Ha2) as Href.
    assert (Hmemo : forall d0, pgq_memo (pg_get (fst (pg_step w o)) (negb d0)) (pg_get (fst (pg_step w o)) d0)).
    { destruct (pgq_cf w o) as [[[d b] i]|] eqn:Hc.
      - (* copyForeignObject of an object of the other document *)
        unfold pgq_cf in Hc. destruct o; try discriminate. destruct (pg_norm w h) as [v|b0 i0] eqn:En; try discriminate.
        destruct (Bool.eqb b0 d0) eqn:Eb; try discriminate. inversion Hc; subst d0 b0 i0.
        cbn [pgx_adm2] in Ha2. rewrite En in Ha2. apply Bool.eqb_false_iff in Eb.
        destruct Ha2 as [Ha2|Ha2]; [contradiction|].
        assert (Hb : b = negb d) by (destruct b, d; cbn; congruence).
        cbn [pg_step]. rewrite En. assert (Bool.eqb b d = false) as -> by (apply Bool.eqb_false_iff; exact Eb).
        destruct (pg_copied (pg_get w b) (pg_get w d) i) as [[[src' dst'] e] r] eqn:Ecp. cbn [fst snd] in Ha2. subst e.
        assert (Hsrt : pgs_doc (pg_get w b)) by (destruct HS; destruct b; assumption).
        exact (pgq_memo_cf w b d i src' dst' r Hb Hcf Hsrt HM Ecp).
      - apply (pgq_memo_generic w (fst (pg_step w o)) o); [|exact Hun|exact HM].
        intros d. pose proof (frame_invariant_lemma w o d) as HT. cbv zeta in HT. destruct HT as [HK HO].
        pose proof (pgq_no_copy w o d Hf Hc) as Hnc. split; [|exact (HO Hnc)].
        eapply pgt_keep_weaken; [|exact HK]. intros j [HE|[Hcp _]]; [|congruence].
        unfold pgq_E. destruct o; try contradiction; exact HE. }
    destruct (pg_step w o) as [w' r]. destruct (pg_spec_step _ _) as [s' raise_]. cbn [fst] in *.
    destruct Href as (A & B & C). split; [exact A|split; [exact B|split; [exact C|split; assumption]]].
Qed.

(* ------------------------------------------------------------------ histories with pages of the other document *)
Fixpoint pgq_hist (w : pg_world) (ops : list pg_op) : Prop :=
  match ops with [] => True | o :: t => pgq_adm w o /\ pgq_hist (fst (pg_step w o)) t end.

(* FULL STATEMENT (DESIGN C13 pages_refine_list) with "insertions of pages from other documents, re-insertion of an already
   present page, insertion of page copies": histories of any length over the whole alphabet of pages_refine_list PLUS
   addPage / helper addPage / addPageAt with a page (any leaf dictionary) of the OTHER document - first insertion, insertion
   of a page that was only reserved while another object was copied, repeated insertion of the same page, insertion after
   copyForeignObject of it - from two flat clean documents.  The invariant pgq_W adds to pgx_W: every dictionary of both
   stores is sorted (C13ProofsS.v) and the memo invariant between the documents (C13ProofsP.v).
   Hypotheses per call (pgq_adm): those of pgx_adm2; operand values sorted; replaceObject / swapObjects not on objects that
   take part in a copy relation ("if you mutate an object that has already been copied and try to copy it again, it won't
   work", QPDF.hh - the harness's taint rule); for a foreign page: the source's page cache is filled, the operand is a plain
   dictionary, a memoised local copy is still a leaf dictionary, and THE CALL DOES NOT FAIL (the copier model has a fuel and
   refuses self-referencing objects; that it returns normally is assumed, what it then does to both lists is proved). *)
Lemma pages_refine_list_foreign_lemma : forall ops w, pgq_W w -> pgq_hist w ops ->
  pg_spec_run (pgx_marks2 w) (pgx_abs_hist w ops) = pgx_trace w ops /\ pgq_W (pg_run w ops).
Proof.
  induction ops as [|o t IH]; intros w Hg Hh; [split; [reflexivity|exact Hg]|].
  destruct Hh as [Ha Hh]. pose proof (pgq_step_refines w o Hg Ha) as H.
  cbn [pgx_abs_hist pg_spec_run pgx_trace pg_run].
  destruct (pg_step w o) as [w' r] eqn:Es. destruct (pg_spec_step (pgx_marks2 w) (pgx_abs w o)) as [s' raise_] eqn:Ep.
  destruct H as (Hm & Hr & Hg'). cbn [fst snd] in *. subst s' raise_.
  destruct (IH w' Hg' Hh) as [IH1 IH2]. split; [|exact IH2]. f_equal. exact IH1.
Qed.

(* two flat clean documents as read, with sorted dictionaries, are a valid start (the object maps are empty) *)
Lemma pages_initial_foreign_lemma : forall sa ra Ka sb rb Kb,
  pgx_flat (pg_init_doc sa ra) Ka -> pgx_flat (pg_init_doc sb rb) Kb -> pgs_store sa -> pgs_store sb ->
  pgq_W (pg_init_doc sa ra, pg_init_doc sb rb).
Proof.
  intros sa ra Ka sb rb Kb Ha Hb Sa Sb. split; [eapply pages_initial_lemma; eassumption|]. split; [split; assumption|].
  intros []; apply pgq_memo_init.
Qed.

(* the two invariants under the names of the report *)
Lemma frame_invariant_pages_lemma : forall w o d, let w' := fst (pg_step w o) in
  pgt_keep (pgt_T w o d) (pd_store (pg_get w d)) (pd_store (pg_get w' d)) /\
  (pgt_copies_into w o d = false -> pd_omap (pg_get w' d) = pd_omap (pg_get w d)).
Proof. exact frame_invariant_lemma. Qed.

Lemma copied_memo_lemma : forall src dst fid, pd_all src <> [] -> pgs_doc src -> pgq_memo src dst ->
  let '(src', dst', e, r) := pg_copied src dst fid in e = None -> src' = src /\ pgq_memo src dst'.
Proof. exact pgr_copied_memo. Qed.

Lemma copied_placeholder_lemma : forall src dst fid l, pd_all src <> [] -> pg_omap_wf dst ->
  pg_omap_find (pd_omap dst) fid = Some l -> pg_is_null (pd_store dst) (PvRef l) = true ->
  pg_is_dict_of_type (pd_store src) (PvRef fid) pgk_Page = true ->
  let '(src', dst', e, r) := pg_copied src dst fid in e = None ->
  r = PvRef l /\ exists v, pg_lookup (pd_store src) fid = Some (PcObj v) /\
                           pg_lookup (pd_store dst') l = Some (PcObj (pg_rename (pd_store src) (pd_omap dst') v)).
Proof. exact pgr_copied_placeholder. Qed.
