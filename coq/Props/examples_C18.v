(* non-vacuity: objects meeting the hypotheses of the theorems above *)
Example ex_binsearch_sorted :
  StronglySorted (fun a b => nn_zcmp a b = Lt) (map fst [(1, 1); (3, 3); (7, 7); (9, 9); (11, 11)]).
Proof. repeat constructor. Qed.
Example ex_binsearch_hit :
  nn_binsearch 5 (nn_cmp_item Z nn_zcmp 7 [(1, 1); (3, 3); (7, 7); (9, 9); (11, 11)]) false = Some 2
  /\ nn_binsearch 5 (nn_cmp_item Z nn_zcmp 8 [(1, 1); (3, 3); (7, 7); (9, 9); (11, 11)]) true = Some 2
  /\ nn_binsearch 5 (nn_cmp_item Z nn_zcmp 8 [(1, 1); (3, 3); (7, 7); (9, 9); (11, 11)]) false = Some (-1)
  /\ nn_binsearch 5 (nn_cmp_item Z nn_zcmp 0 [(1, 1); (3, 3); (7, 7); (9, 9); (11, 11)]) true = Some (-1).
Proof. vm_compute. auto. Qed.
(* a split that really happens: a root leaf with four pairs under threshold 3 *)
Example ex_split_happens :
  option_map (st_root Z)
    (nn_split Z nn_zcmp 3 0 (NNSt Z (NLeaf None [(1, 1); (2, 2); (3, 3); (4, 4)]) [] 3 0))
  = Some (NInner None [NLeaf (Some (1, 2)) [(1, 1); (2, 2)]; NLeaf (Some (3, 4)) [(3, 3); (4, 4)]]).
Proof. vm_compute. reflexivity. Qed.
(* the bounded-history domain contains histories that split and prune *)
Example ex_history_nontrivial :
  In (OpInsert 4 104) alphabet5 /\ In (mk (L [1; 3; 5])) (starts 3) /\
  st_root Z (zfinal 3 (mk (L [1; 3; 5])) [OpInsert 4 104; OpRemove 1; OpRemove 3])
  = NInner None [NLeaf (Some (4, 5)) [(4, 104); (5, 50)]].
Proof. vm_compute. intuition. Qed.
