(* handlers: Obj/WriterModelXS (object-stream / xref-stream layout of QPDFWriter). I/O only. *)
open Qvmodel
open Runner

let xs_read_doc inp =
  let ic = open_in inp in
  let objs = ref [] and trailer = ref [] and ver = ref [] and id1 = ref [] and id2 = ref [] in
  (try while true do
       let line = input_line ic in
       match String.split_on_char ' ' line with
       | "version" :: [h] -> ver := H_obj.hx h
       | "id1" :: [h] -> id1 := H_obj.hx h
       | "id2" :: [h] -> id2 := H_obj.hx h
       | "trailer" :: toks -> (match fst (H_obj.parse_o toks) with ODict d -> trailer := d | _ -> ())
       | "obj" :: id :: toks -> objs := (n_of_int (int_of_string id), { i_val = fst (H_obj.parse_o toks); i_stream = None }) :: !objs
       | "stream" :: id :: data :: toks ->
         objs := (n_of_int (int_of_string id), { i_val = fst (H_obj.parse_o toks); i_stream = Some (H_obj.hx (if data = "-" then "" else data)) }) :: !objs
       | _ -> ()
     done with End_of_file -> close_in ic);
  { d_objects = List.rev !objs; d_trailer = !trailer; d_version = !ver; d_id1 = !id1; d_id2 = !id2 }

let () =
  (* xs_write_docf <doc description> <output file>  ->  ok <bytes> <eligible> <streams> <f1> <f2> wf|notwf *)
  register "xs_write_docf" (fun args -> match args with
    | [inp; outp] ->
      let d = xs_read_doc inp in
      let out = xs_write_doc wm_unparse_string wm_unparse_name d in
      let oc = open_out_bin outp in
      output_string oc (string_of_bytes out); close_out oc;
      let el = xs_eligible d in
      let l = xs_layout_of wm_unparse_string wm_unparse_name d in
      Printf.sprintf "ok %d %d %d %d %d %s" (List.length out) (List.length el)
        (int_of_n l.xs_l_plan.xs_nstreams) (int_of_n l.xs_l_f1) (int_of_n l.xs_l_f2)
        (if wf_doc_b d then "wf" else "notwf")
    | _ -> "?args")
