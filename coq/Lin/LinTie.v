(* Glue for the correspondence run (neither model nor specification): the semantic content of the
   hint tables found in a real file (objects per page, page lengths, shared identifiers, group
   lengths, first objects and offsets) is given to the MODEL of qpdf's encoder, whose bytes must be
   the bytes of the real hint stream. *)
From QV Require Import Base.Bytes Lin.HintTypes Lin.BitIO Lin.Hints Lin.AnnexF.
Local Open Scope N_scope.

Definition lin_model_hint (r : af_report) : option (list N * N * N) :=
  match ar_tables r with
  | None => None
  | Some (hp, hs, hg) =>
      let pages := map (fun e => {| cpg_nobjects := hp_min_nobjects hp + pe_nobjects_delta e;
                                    cpg_length := hp_min_length hp + pe_length_delta e;
                                    cpg_shared := pe_identifiers e |}) (hp_entries hp) in
      let lens := map (fun e => hs_min_length hs + se_length_delta e) (hs_entries hs) in
      let ho := match hg with Some g => g | None => {| hg_first_obj := 0; hg_first_offset := 0; hg_nobjects := 0; hg_length := 0 |} end in
      lh_encode pages (hp_first_page_offset hp) lens (hs_nfirst hs) (hs_first_obj hs) (hs_first_offset hs) ho
  end.

Definition lin_run_ops (ops : list bitop) : option (list N) :=
  match bs_run ops bs_init with Some s => Some (bs_bytes s) | None => None end.
