(* C02 extension, part 7 (step 2 towards xs_write_read_strict): every entry of the modelled cross-reference stream is
   read by the strict reader as the object it names. *)
From QV Require Import Base.Bytes File.StrictSyntax File.ReadStrict File.WriterArith File.C02Proofs.
From QV Require Import Obj.Queue Obj.C01WriterProofs Obj.WriterModel Obj.WmPrinters Obj.WriterModelXS Obj.C01RoundtripProofs Obj.C01FileProofs.
From QV Require Import File.C02ProofsXS File.C02ProofsXS2 File.C02ProofsXS3 File.C02ProofsXS4 File.C02ProofsXS5.
From Coq Require Import Lia.
Local Open Scope N_scope.

(* the value the reader must return for an uncompressed object *)
Definition xo_val (objs : list (N * indirect)) (ren : N -> N) (i : indirect) : pobj :=
  match i_stream i with
  | None => to_pobj objs ren (i_val i)
  | Some data =>
      match to_pobj objs ren (drop_length (i_val i)) with
      | SpDict l => SpDict (l ++ [(k_Length, SpInt (Z.of_nat (length data)))])
      | v => v
      end
  end.

Definition xo_printed (i : indirect) : obj :=
  match i_stream i with Some _ => drop_length (i_val i) | None => i_val i end.

(* one uncompressed object (plain or stream) emitted by emit_object under ANY renumbering that is positive on the
   references it prints, read at the place where it stands in ANY file *)
Lemma xo_object_read : forall objs ren fuel total file k i off tail,
  wf_wobj (i_val i) -> (i_stream i <> None -> exists dd, i_val i = ODict dd) ->
  (forall x, In x (refs_of objs (xo_printed i)) -> 0 < ren x) ->
  at_off file off = emit_object WUS WUN objs ren k i ++ tail ->
  (length (emit_object WUS WUN objs ren k i) < fuel)%nat ->
  exists so, (forall len_of, parse_indirect fuel total file off len_of = inl (Some so))
             /\ so_num so = k /\ so_gen so = 0 /\ so_where so = XInUse off 0 /\ so_end so = offset_of total tail
             /\ so_val so = xo_val objs ren i.
Proof.
  intros objs ren fuel total file k i off tail Hwfi Hstreams Hpos Hat Hfuel.
  set (ren' := fun x => if ren x =? 0 then 1 else ren x).
  assert (Hren' : forall x, 0 < ren' x).
  { intros x. unfold ren'. destruct (ren x =? 0) eqn:E; [lia | apply N.eqb_neq in E; lia]. }
  assert (Heq : forall x, 0 < ren x -> ren x = ren' x).
  { intros x H. unfold ren'. destruct (ren x =? 0) eqn:E; [apply N.eqb_eq in E; lia | reflexivity]. }
  unfold xo_printed in Hpos. unfold xo_val.
  destruct (i_stream i) as [data|] eqn:Hs.
  - destruct Hstreams as [dd Hdd]; [discriminate|].
    set (len := N.of_nat (length data)).
    set (d' := filter (fun kv : list N * obj => negb (beqb (fst kv) k_Length)) dd).
    set (o0 := ODict (d' ++ [len_entry len])).
    assert (Hext : forall x, In x (refs_of objs o0) -> ren x = ren' x).
    { intros x Hx. apply Heq. apply Hpos. rewrite Hdd. cbn [drop_length]. fold d'.
      unfold o0 in Hx. rewrite refs_of_dict_app in Hx. apply in_app_or in Hx. destruct Hx as [Hx | Hx]; [exact Hx | destruct Hx]. }
    destruct (ren_ext WUS WUN objs ren ren' o0 Hext) as [HU HP].
    assert (Hem : emit_object WUS WUN objs ren k i
                  = obj_header k ++ unparse WUS WUN objs ren' o0 ++ s_stream_kw ++ data ++ s_endstream_kw ++ s_endobj).
    { unfold emit_object. rewrite Hs, Hdd, unparse_stream_dict_eq. fold len d' o0. rewrite HU.
      unfold s_stream_kw, s_endstream_kw. rewrite <- ?app_assoc. reflexivity. }
    assert (Hwf0 : wf_wobj o0).
    { apply wf_dict. apply Forall_app. split.
      - rewrite Hdd in Hwfi. apply wf_dict in Hwfi. rewrite Forall_forall in *.
        intros kv Hkv. apply Hwfi. unfold d' in Hkv. apply filter_In in Hkv. tauto.
      - constructor; [|constructor]. split; [|exact I]. split.
        + cbn. intros H. repeat (destruct H as [H|H]; [discriminate H|]). exact H.
        + repeat constructor. }
    eexists. split; [| split; [| split; [| split; [| split]]]].
    + intros len_of. apply (parse_indirect_emitted_stream fuel total file off len_of k objs ren' o0
               (pdict objs ren' (d' ++ [len_entry len])) data tail).
      * rewrite Hat, Hem, <- ?app_assoc. reflexivity.
      * exact Hwf0.
      * exact Hren'.
      * intros z Hz. discriminate Hz.
      * rewrite Hem, !app_length in Hfuel. lia.
      * reflexivity.
      * apply dict_get_length. unfold d'. apply filter_Forall.
    + reflexivity.
    + reflexivity.
    + reflexivity.
    + reflexivity.
    + cbn [so_val]. rewrite Hdd. cbn [drop_length]. fold d'.
      change (to_pobj objs ren (ODict d')) with (SpDict (pdict objs ren d')). cbv iota.
      assert (Hpd : pdict objs ren' (d' ++ [len_entry len]) = pdict objs ren (d' ++ [len_entry len])).
      { change (to_pobj objs ren o0) with (SpDict (pdict objs ren (d' ++ [len_entry len]))) in HP.
        change (to_pobj objs ren' o0) with (SpDict (pdict objs ren' (d' ++ [len_entry len]))) in HP. congruence. }
      rewrite Hpd, pdict_app. unfold len_entry. cbn [pdict snd fst is_null_val to_pobj].
      unfold len. rewrite nat_N_Z. reflexivity.
  - assert (Hext : forall x, In x (refs_of objs (i_val i)) -> ren x = ren' x) by (intros x Hx; apply Heq; apply Hpos; exact Hx).
    destruct (ren_ext WUS WUN objs ren ren' (i_val i) Hext) as [HU HP].
    assert (Hem : emit_object WUS WUN objs ren k i = obj_header k ++ unparse WUS WUN objs ren' (i_val i) ++ s_endobj).
    { unfold emit_object. rewrite Hs, HU. reflexivity. }
    eexists. split; [| split; [| split; [| split; [| split]]]].
    + intros len_of. apply (parse_indirect_emitted fuel total file off len_of k objs ren' (i_val i) tail).
      * rewrite Hat, Hem, <- ?app_assoc. reflexivity.
      * exact Hwfi.
      * exact Hren'.
      * rewrite Hem, !app_length in Hfuel. lia.
    + reflexivity.
    + reflexivity.
    + reflexivity.
    + reflexivity.
    + cbn [so_val]. symmetry. exact HP.
Qed.

(* ---------- the items with their positions ---------- *)
Fixpoint xe_layout (chunk : xs_item -> list N) (items : list xs_item) (pos : N) : list (xs_item * N) :=
  match items with
  | [] => []
  | it :: t => (it, pos) :: xe_layout chunk t (pos + N.of_nat (length (chunk it)))
  end.

Lemma xe_emit_table : forall objs p ren sren items pos,
  snd (fst (xs_emit WUS WUN objs p ren sren items pos))
  = flat_map (fun ip => xs_item_entries p ren sren (fst ip) (snd ip))
             (xe_layout (xs_chunk WUS WUN objs p ren sren) items pos).
Proof.
  intros objs p ren sren. induction items as [|it rest IH]; intros pos; [reflexivity|]. cbn [xs_emit xe_layout flat_map fst snd].
  specialize (IH (pos + N.of_nat (length (xs_chunk WUS WUN objs p ren sren it)))).
  destruct (xs_emit WUS WUN objs p ren sren rest _) as [[b t] e]. cbn [fst snd] in *. rewrite IH. reflexivity.
Qed.

Lemma xe_layout_fst : forall chunk items pos, map fst (xe_layout chunk items pos) = items.
Proof. induction items as [|it t IH]; intros pos; [reflexivity|]. cbn [xe_layout map fst]. rewrite IH. reflexivity. Qed.

Lemma xe_layout_regs : forall chunk items pos,
  map (fun ip => (snd ip, snd ip + N.of_nat (length (chunk (fst ip))))) (xe_layout chunk items pos) = xr_regs chunk items pos.
Proof. induction items as [|it t IH]; intros pos; [reflexivity|]. cbn [xe_layout map xr_regs fst snd]. rewrite IH. reflexivity. Qed.

(* the bytes at the position of an item *)
Lemma xe_layout_at : forall chunk items pos it q (pre post : list N),
  In (it, q) (xe_layout chunk items pos) -> N.to_nat pos = length pre ->
  exists tail, at_off (pre ++ concat (map chunk items) ++ post) q = chunk it ++ tail
               /\ offset_of (N.of_nat (length (pre ++ concat (map chunk items) ++ post))) tail = q + N.of_nat (length (chunk it)).
Proof.
  intros chunk. induction items as [|a t IH]; intros pos it q pre post Hin Hpos; [contradiction|].
  cbn [xe_layout In] in Hin. destruct Hin as [Hin | Hin].
  - injection Hin as -> ->. exists (concat (map chunk t) ++ post). cbn [map concat]. split.
    + unfold at_off. rewrite Hpos. rewrite xs_skipn_exact, <- app_assoc. reflexivity.
    + unfold offset_of. rewrite !app_length. lia.
  - specialize (IH (pos + N.of_nat (length (chunk a))) it q (pre ++ chunk a) post Hin).
    destruct IH as [tail [H1 H2]]; [rewrite app_length; lia|].
    exists tail. cbn [map concat]. rewrite <- ?app_assoc in *. split; assumption.
Qed.

Lemma xe_children_printed : forall d x c, In c (refs_of (d_objects d) (xo_printed (xs_lookup (d_objects d) x))) ->
  In c (children (graph_of d) x).
Proof.
  intros d x c H. unfold xs_lookup in H. destruct (find_obj (d_objects d) x) as [i|] eqn:Hf; [| cbn in H; contradiction].
  unfold xo_printed in H. destruct (i_stream i) as [data|] eqn:Hs.
  - rewrite (children_graph_of_stream d x i data Hf Hs). exact H.
  - rewrite (children_graph_of d x i Hf Hs). exact H.
Qed.

Section XE.
  Variable d : doc.
  Hypothesis W : wf_doc d.
  Hypothesis Hel : xs_eligible d <> [].
  Let out := xs_out d.
  Let total := N.of_nat (length out).
  Let objs := d_objects d.
  Let p := xs_P d.
  Let ren := xs_renf d.
  Let sren := xs_srenf d.
  Let chunk := xs_chunk' d.
  Let h := N.of_nat (length (xs_hdr d)).
  Let LAY := xe_layout chunk (xs_items d) h.
  Let XT := xs_xref_object WUS WUN d (xs_L d) ++ xs_s_startxref ++ dec_of_N (xs_l_xref_off (xs_L d)) ++ xs_s_eof.

  Lemma xe_out_eq : out = xs_hdr d ++ concat (map chunk (xs_items d)) ++ XT.
  Proof.
    unfold out. rewrite (xs_out_layout d Hel). unfold XT. rewrite xs_L_eq. cbn [xs_l_hdr xs_l_bodies xs_l_xref_off].
    unfold xs_E at 1. rewrite xs_emit_bytes. rewrite <- ?app_assoc. reflexivity.
  Qed.

  Lemma xe_XT_len : (17 <= length XT)%nat.
  Proof. unfold XT, xs_s_startxref, xs_s_eof. rewrite !app_length. cbn [length]. lia. Qed.

  Lemma xe_tab_eq : snd (fst (xs_E d)) = flat_map (fun ip => xs_item_entries p ren sren (fst ip) (snd ip)) LAY.
  Proof. unfold xs_E. rewrite xe_emit_table. reflexivity. Qed.

  Lemma xe_lay_item : forall it q, In (it, q) LAY -> In it (xs_items d).
  Proof. intros it q H. rewrite <- (xe_layout_fst chunk (xs_items d) h). apply (in_map fst) in H. exact H. Qed.

  Lemma xe_chunk_len : forall it q, In (it, q) LAY -> (length (chunk it) + 17 <= length out)%nat.
  Proof.
    intros it q H. apply xe_lay_item in H. rewrite xe_out_eq, !app_length. pose proof xe_XT_len.
    assert (length (chunk it) <= length (concat (map chunk (xs_items d))))%nat; [| lia].
    clear - H. induction (xs_items d) as [|a t IH]; [contradiction|]. cbn [map concat]. rewrite app_length.
    destruct H as [-> | H]; [lia | specialize (IH H); lia].
  Qed.

  (* what the strict reader gets at the position of an item *)
  Definition xe_item_num (it : xs_item) : N := match it with XsObj x => ren x | XsStm k => sren k end.

  Definition xe_objstm_dict (k : N) : list (list N * pobj) :=
    [(n_Type, SpName n_ObjStm);
     (n_Length, SpInt (Z.of_N (N.of_nat (length (xs_ostm_data WUS WUN objs p ren k)))));
     (n_N, SpInt (Z.of_N (N.of_nat (length (xs_members p k)))));
     (n_First, SpInt (Z.of_N (xs_ostm_first WUS WUN objs p ren k)))].

  Lemma xe_item_read : forall it q, In (it, q) LAY ->
    exists o, (forall len_of, parse_indirect (length out) total out q len_of = inl (Some o))
      /\ so_num o = xe_item_num it /\ so_gen o = 0 /\ so_where o = XInUse q 0
      /\ so_end o = q + N.of_nat (length (chunk it))
      /\ match it with
         | XsObj x => so_val o = xo_val objs ren (xs_lookup objs x)
         | XsStm k => so_val o = SpDict (xe_objstm_dict k)
                      /\ exists doff rest, so_stream o = Some (doff, N.of_nat (length (xs_ostm_data WUS WUN objs p ren k)))
                                           /\ at_off out doff = xs_ostm_data WUS WUN objs p ren k ++ rest
         end.
  Proof.
    intros it q Hin.
    destruct (xe_layout_at chunk (xs_items d) h it q (xs_hdr d) XT Hin) as [tail [Hat Hoffs]]; [unfold h; lia|].
    rewrite <- xe_out_eq in Hat, Hoffs. fold total in Hoffs.
    pose proof (xe_chunk_len it q Hin) as Hlen. pose proof (xe_lay_item it q Hin) as Hit.
    destruct W as [Hc Hobjs Htr Hst Hsb Hver Hids Hroot Hsize Hkeys Hnoprev Hnoxs].
    destruct it as [x | k].
    - (* uncompressed object *)
      set (i := xs_lookup objs x).
      assert (Hwfi : wf_wobj (i_val i)).
      { unfold i, xs_lookup. destruct (find_obj objs x) as [i0|] eqn:Hf; [| exact I].
        destruct (find_obj_in _ _ _ Hf) as [k0 Hk0]. unfold wf_doc_objs in Hobjs. rewrite Forall_forall in Hobjs. apply (Hobjs (k0, i0) Hk0). }
      assert (Hstr : i_stream i <> None -> exists dd, i_val i = ODict dd).
      { unfold i, xs_lookup. destruct (find_obj objs x) as [i0|] eqn:Hf; [| cbn; congruence].
        destruct (find_obj_in _ _ _ Hf) as [k0 Hk0]. apply (Hst k0 i0 Hk0). }
      assert (Hrefs : forall c, In c (refs_of objs (xo_printed i)) -> 0 < ren c).
      { intros c Hcx. apply xe_children_printed in Hcx.
        pose proof (xs_refs_numbered_lemma d (XsObj x) c) as Hn. rewrite xs_L_eq in Hn. cbn [xs_l_items xs_l_plan xs_l_ren xs_l_xref_id] in Hn.
        apply Hn; [exact Hit | exact Hcx]. }
      destruct (xo_object_read objs ren (length out) total out (ren x) i q tail Hwfi Hstr Hrefs Hat) as [o Ho].
      { change (emit_object WUS WUN objs ren (ren x) i) with (chunk (XsObj x)). lia. }
      destruct Ho as [H1 [H2 [H3 [H4 [H5 H6]]]]]. exists o. repeat split; try assumption.
      rewrite H5. exact Hoffs.
    - (* object stream *)
      pose proof (xs_objstm_object_parses_lemma d k (length out) total out q) as Hp. cbv zeta in Hp.
      rewrite xs_L_eq in Hp. cbn [xs_l_plan xs_l_ren xs_l_sren] in Hp.
      eexists. split; [intros len_of; apply (Hp len_of tail); [exact Hat | change (xs_ostm_object WUS WUN (d_objects d) (xs_P d) (xs_renf d) (xs_srenf d) k) with (chunk (XsStm k)); lia]|].
      cbn [so_num so_gen so_where so_end so_val so_stream]. repeat split; try reflexivity; try exact Hoffs.
      eexists. eexists. split; [reflexivity|].
      (* the data position *)
      set (data := xs_ostm_data WUS WUN (d_objects d) (xs_P d) (xs_renf d) k).
      assert (Hsuf : exists pre, out = pre ++ (data ++ s_endstream_kw ++ s_endobj ++ tail)).
      { assert (Hc2 : chunk (XsStm k) = (obj_header (sren k) ++ xs_s_objstm_open ++ dec_of_N (N.of_nat (length data))
                         ++ xs_s_N ++ dec_of_N (N.of_nat (length (xs_members p k))) ++ xs_s_First
                         ++ dec_of_N (xs_ostm_first WUS WUN objs p ren k) ++ xs_s_dict_stream) ++ data ++ s_endstream_kw ++ s_endobj).
        { unfold chunk, xs_chunk'. cbn [xs_chunk]. unfold xs_ostm_object. fold data. rewrite <- ?app_assoc. reflexivity. }
        exists (firstn (N.to_nat q) out ++ obj_header (sren k) ++ xs_s_objstm_open ++ dec_of_N (N.of_nat (length data))
                         ++ xs_s_N ++ dec_of_N (N.of_nat (length (xs_members p k))) ++ xs_s_First
                         ++ dec_of_N (xs_ostm_first WUS WUN objs p ren k) ++ xs_s_dict_stream).
        rewrite <- (firstn_skipn (N.to_nat q) out) at 1. unfold at_off in Hat. rewrite Hat, Hc2. rewrite <- ?app_assoc. reflexivity. }
      destruct Hsuf as [pre Hpre]. unfold total. clear - Hpre. revert Hpre. generalize out. intros o' Hpre. subst o'.
      rewrite xr_at_off_suffix. reflexivity.
  Qed.
End XE.

Definition xe_lay (d : doc) : list (xs_item * N) := xe_layout (xs_chunk' d) (xs_items d) (N.of_nat (length (xs_hdr d))).

(* Every written item is read by the strict reader at its position: number, generation 0, and the end of its bytes. *)
Lemma xs_item_reads_lemma : forall d, wf_doc d -> xs_eligible d <> [] -> forall it q, In (it, q) (xe_lay d) ->
  exists o, (forall len_of, parse_indirect (length (xs_out d)) (N.of_nat (length (xs_out d))) (xs_out d) q len_of = inl (Some o))
    /\ so_num o = xe_item_num d it /\ so_gen o = 0 /\ so_where o = XInUse q 0
    /\ so_end o = q + N.of_nat (length (xs_chunk' d it)).
Proof.
  intros d W Hel it q H. destruct (xe_item_read d W Hel it q H) as [o [H1 [H2 [H3 [H4 [H5 _]]]]]]. exists o. repeat split; assumption.
Qed.

(* table entries come from items *)
Lemma xe_tab_off : forall d n off, In (n, XsOff off) (xs_l_table (xs_L d)) ->
  exists it, In (it, off) (xe_lay d) /\ n = xe_item_num d it.
Proof.
  intros d n off H. rewrite xs_L_eq in H. cbn [xs_l_table] in H. rewrite xe_tab_eq in H. apply in_flat_map in H.
  destruct H as [[it q] [Hl He]]. cbn [fst snd] in He. destruct it as [x | k]; cbn [xs_item_entries In] in He.
  - destruct He as [He | []]. injection He as <- <-. exists (XsObj x). split; [exact Hl | reflexivity].
  - apply in_app_or in He. destruct He as [He | [He | []]].
    + apply (xs_index_entries_in (d_objects d) (xs_P d) _ (xs_srenf d)) in He. destruct He as [j [m [_ [_ He]]]]. discriminate.
    + injection He as <- <-. exists (XsStm k). split; [exact Hl | reflexivity].
Qed.

Lemma xe_tab_in : forall d n stm idx, In (n, XsIn stm idx) (xs_l_table (xs_L d)) ->
  exists k q m, In (XsStm k, q) (xe_lay d) /\ stm = xs_srenf d k /\ nth_error (xs_members (xs_P d) k) (N.to_nat idx) = Some m /\ n = xs_renf d m.
Proof.
  intros d n stm idx H. rewrite xs_L_eq in H. cbn [xs_l_table] in H. rewrite xe_tab_eq in H. apply in_flat_map in H.
  destruct H as [[it q] [Hl He]]. cbn [fst snd] in He. destruct it as [x | k]; cbn [xs_item_entries In] in He.
  - destruct He as [He | []]. discriminate.
  - apply in_app_or in He. destruct He as [He | [He | []]]; [| discriminate].
    apply (xs_index_entries_in (d_objects d) (xs_P d) _ (xs_srenf d)) in He. destruct He as [j [m [H1 [H2 H3]]]]. injection H3 as E1 E2. subst stm idx.
    exists k, q, m. rewrite ?N.add_0_l, Nat2N.id. repeat split; assumption.
Qed.

Lemma xe_nth_seq : forall n a j, (j < n)%nat -> nth_error (seq a n) j = Some (a + j)%nat.
Proof.
  induction n as [|n IH]; intros a j H; [lia|]. destruct j; cbn [seq nth_error]; [f_equal; lia|].
  rewrite IH by lia. f_equal. lia.
Qed.

(* entries of the decoded cross-reference stream *)
Lemma xe_entry_cases : forall d n e, In (n, e) (xs_numbered 0 (xs_l_entries (xs_L d))) ->
  (n = 0 /\ e = XFree 0 0)
  \/ (n = xs_l_xref_id (xs_L d) /\ e = XInUse (xs_l_xref_off (xs_L d)) 0)
  \/ (1 <= n < xs_l_xref_id (xs_L d) /\ e = xs_to_xentry (xs_lookup_ent (xs_l_table (xs_L d)) n)).
Proof.
  intros d n e H. apply In_nth_error in H. destruct H as [j Hj]. rewrite xs_numbered_nth in Hj.
  destruct (nth_error (xs_l_entries (xs_L d)) j) as [x|] eqn:Ex; cbn [option_map] in Hj; [| discriminate].
  injection Hj as <- <-. rewrite ?N.add_0_l. rewrite xs_L_eq in *. cbn [xs_l_entries xs_l_xref_id xs_l_xref_off xs_l_table] in *.
  destruct (xs_Q_inv d) as [Hpos _].
  set (M := map (fun j0 => xs_lookup_ent (snd (fst (xs_E d))) (N.of_nat j0)) (seq 1 (N.to_nat (xs_next (xs_Q d)) - 1))) in *.
  assert (HM : length M = (N.to_nat (xs_next (xs_Q d)) - 1)%nat) by (unfold M; rewrite map_length, seq_length; reflexivity).
  destruct j as [|j]; [left; cbn in Ex; injection Ex as <-; split; reflexivity|]. right.
  cbn [nth_error] in Ex. destruct (Nat.lt_ge_cases j (length M)) as [Hlt | Hge].
  - right. rewrite nth_error_app1 in Ex by exact Hlt. unfold M in Ex. rewrite nth_error_map in Ex.
    rewrite xe_nth_seq in Ex by lia. cbn [option_map] in Ex. injection Ex as <-. split; [lia|].
    replace (N.of_nat (S j)) with (N.of_nat (1 + j)) by reflexivity. reflexivity.
  - left. rewrite nth_error_app2 in Ex by exact Hge. destruct (j - length M)%nat as [|j'] eqn:Ej; cbn [nth_error] in Ex.
    + injection Ex as <-. split; [lia | reflexivity].
    + destruct j'; discriminate.
Qed.

(* Every in-use entry of the cross-reference stream points at an object that the strict reader parses there, with the
   entry's number and generation 0 (step 1 of read_strict, entry by entry). *)
Lemma xs_inuse_entries_read_lemma : forall d, wf_doc d -> xs_eligible d <> [] -> xr_trailer_trimmed d ->
  forall n off g, In (n, XInUse off g) (xs_numbered 0 (xs_l_entries (xs_L d))) ->
  exists o, (forall len_of, parse_indirect (length (xs_out d)) (N.of_nat (length (xs_out d))) (xs_out d) off len_of = inl (Some o))
            /\ so_num o = n /\ so_gen o = g /\ so_where o = XInUse off 0.
Proof.
  intros d W Hel Htt n off g H. destruct (xe_entry_cases d n _ H) as [[_ E] | [[-> E] | [Hn E]]]; [discriminate | |].
  - injection E as -> ->. eexists. split; [intros len_of|].
    + apply (xs_xref_object_parses_lemma d (length (xs_out d)) (N.of_nat (length (xs_out d))) (xs_out d) (xs_l_xref_off (xs_L d)) len_of
               (xs_s_startxref ++ dec_of_N (xs_l_xref_off (xs_L d)) ++ xs_s_eof) W).
      * apply (xr_at_xoff d Hel).
      * rewrite (xr_out_eq d Hel), !app_length. unfold xs_s_startxref, xs_s_eof. cbn [length]. lia.
    + cbn [so_num so_gen so_where]. repeat split.
  - destruct (xs_lookup_ent_in (xs_l_table (xs_L d)) n) as [E0 | Hin]; [rewrite E0 in E; discriminate|].
    destruct (xs_lookup_ent (xs_l_table (xs_L d)) n) as [|o1|s1 i1] eqn:El; cbn [xs_to_xentry] in E; try discriminate.
    injection E as E1 E2. subst o1 g. destruct (xe_tab_off d n off Hin) as [it [Hl Hnum]].
    destruct (xs_item_reads_lemma d W Hel it off Hl) as [o [H1 [H2 [H3 [H4 _]]]]]. exists o. subst n. repeat split; assumption.
Qed.
