(* C06 proofs, part A: the finite tables (exit codes, permission answers), the order of events of a job
   (password error before any output is opened), and the method-selection theorems: the crypt filter
   method the model of qpdf's reader undoes for a string / a stream is the method the ISO rule of
   IsoEnc.v prescribes. Lemmas named *_lemma become the theorems of Props/Properties_C06.v. *)
From QV Require Import Base.Bytes Crypto.Nib Filters.Filters Crypto.MD5 Crypto.SHA2Fast Crypto.AES Crypto.AesPdf.
From QV Require Import Crypto.KeyDeriv Crypto.IsoRef Crypto.IsoEnc Crypto.DecReader.
Local Open Scope N_scope.

(* ------------------------------------------------------------------ exit codes *)
(* what the job model returns for the two queries is the manual's table, for every outcome of opening
   the input (not encrypted / opened / password error): a finite domain, decided case by case *)
Definition c06_open_ok (i : option c06_opened) : bool :=
  match i with Some (C6Ok _ _) => true | _ => false end.
Definition c06_open_encrypted (i : option c06_opened) : bool :=
  match i with Some _ => true | None => false end.
Definition c06_password_outcome (i : option c06_opened) : Prop :=
  match i with
  | None => True
  | Some (C6Ok _ _) => True
  | Some (C6Err C6EPassword _) => True
  | Some (C6Err _ _) => False
  end.

Lemma exit_code_table_lemma : forall q input more_warnings,
  c06_password_outcome input ->
  snd (c06_job (C6ActQuery q) input more_warnings) = c06_manual_exit q (c06_open_encrypted input) (c06_open_ok input)
  /\ fst (c06_job (C6ActQuery q) input more_warnings) = [C6EvOpenInput].
Proof.
  intros q input mw H.
  destruct input as [[st ws|e ws]|]; destruct q; try destruct e; cbn in *; try contradiction; split; reflexivity.
Qed.

(* ------------------------------------------------------------------ password error before any output *)
(* if neither the owner check nor the user check accepts the password, initialize() ends in the password
   error, for every encryption dictionary that passed validation (the result is never `opened`) *)
Lemma c06_initialize_rejects : forall d id pw V R Ov Uv P,
  c6r_V d = Some V -> c6r_R d = Some R -> c6r_O d = Some Ov -> c6r_U d = Some Uv -> c6r_P d = Some P ->
  forall st ws, c06_initialize d id (C6Password pw) = C6Ok st ws ->
  c6t_user_matched st = true \/ c6t_owner_matched st = true.
Proof.
  intros d id pw V R Ov Uv P HV HR HO HU HP st ws H.
  unfold c06_initialize in H. rewrite HV, HR, HO, HU, HP in H.
  destruct (negb match c6r_filter d with Some n => bytes_eqb n c06_name_standard | None => false end); [discriminate|].
  destruct (negb _); [discriminate|].
  destruct (Z.ltb V 5) eqn:E5.
  - destruct (_ && _)%bool; [|discriminate].
    match type of H with context [kd_check_owner_V4 ?ed pw] => destruct (kd_check_owner_V4 ed pw) eqn:Eo end.
    + inversion H; subst. right. reflexivity.
    + match type of H with context [kd_check_user_V4 ?ed pw] => destruct (kd_check_user_V4 ed pw) eqn:Eu end; [|discriminate].
      inversion H; subst. left. reflexivity.
  - destruct (c6r_OE d), (c6r_UE d), (c6r_Perms d); try discriminate.
    match type of H with context [kd_check_owner_V5 ?ed pw] => destruct (kd_check_owner_V5 ed pw) eqn:Eo end;
    match type of H with context [kd_check_user_V5 ?ed pw] => destruct (kd_check_user_V5 ed pw) eqn:Eu end;
    cbn [orb negb] in H; try discriminate;
    match type of H with context [kd_recover_key_V5 ?ed pw] => destruct (kd_recover_key_V5 ed pw) as [k pv] end;
    inversion H; subst; cbn; auto.
Qed.

(* the try loop over candidate passwords never turns failures into success *)
Lemma c06_try_all_fail : forall open cands last e0 ws0,
  last = C6Err e0 ws0 ->
  (forall pw, In pw cands -> exists e ws, open pw = C6Err e ws) ->
  exists e ws, c06_try open cands last = C6Err e ws.
Proof.
  intros open cands. induction cands as [|pw t IH]; intros last e0 ws0 Hl Hall.
  - exists e0, ws0. exact Hl.
  - cbn [c06_try]. destruct (Hall pw (or_introl eq_refl)) as [e [ws He]]. rewrite He.
    apply (IH (C6Err e ws) e ws eq_refl). intros p Hp. apply Hall. right. exact Hp.
Qed.

(* password_error_before_open: whenever every candidate password (the supplied one and the re-encodings the
   documented recovery tries) is rejected by both checks, a job that was asked to write an output file ends with
   exit status 2 and its trace contains neither the creation of the output file nor a write to it. *)
Lemma password_error_before_open_lemma : forall d id recovery encodings pw more_warnings,
  (forall p, In p (c06_candidates recovery encodings pw) ->
     exists ws, c06_initialize d id (C6Password p) = C6Err C6EPassword ws) ->
  let r := c06_job C6ActWrite (Some (c06_job_open d id None recovery encodings pw)) more_warnings in
  snd r = 2 /\ ~ In C6EvOpenOutput (fst r) /\ ~ In C6EvWriteOutput (fst r).
Proof.
  intros d id recovery encodings pw mw Hall r. subst r. unfold c06_job_open.
  assert (H : exists ws, c06_try (fun p => c06_initialize d id (C6Password p)) (c06_candidates recovery encodings pw)
                            (C6Err C6EPassword []) = C6Err C6EPassword ws).
  { generalize (c06_candidates recovery encodings pw) Hall. intros cands.
    generalize (@nil c06_warn). induction cands as [|p t IH]; intros ws0 Hc.
    - exists ws0. reflexivity.
    - cbn [c06_try]. destruct (Hc p (or_introl eq_refl)) as [ws He]. rewrite He.
      apply IH. intros q Hq. apply Hc. right. exact Hq. }
  destruct H as [ws ->]. cbn. repeat split; intros [H|[H|H]]; try discriminate; contradiction.
Qed.

(* ------------------------------------------------------------------ permissions *)
Lemma c06_u32_of_N : forall P, P < 4294967296 -> c06_to_u32 (c06_to_int32 (Z.of_N P)) = P.
Proof.
  intros P HP. unfold c06_to_u32, c06_to_int32.
  assert (H0 : (0 <= Z.of_N P < 4294967296)%Z) by lia.
  rewrite (Z.mod_small (Z.of_N P)) by exact H0.
  destruct (Z.ltb (Z.of_N P) 2147483648) eqn:E.
  - rewrite Z.mod_small by exact H0. apply N2Z.id.
  - apply Z.ltb_ge in E.
    replace ((Z.of_N P - 4294967296) mod 4294967296)%Z with (Z.of_N P).
    + apply N2Z.id.
    + symmetry. rewrite <- (Z.mod_small (Z.of_N P) 4294967296) at 2 by exact H0.
      replace (Z.of_N P - 4294967296)%Z with (Z.of_N P + (-1) * 4294967296)%Z by lia.
      apply Z.mod_add. lia.
Qed.

(* permissions_table: the eight answers of QPDF::allowXxx, for every revision and every 32-bit /P (given as the
   unsigned value or as the negative number most files carry), are the reading of ISO 32000-2 Table 22 that the
   manual documents for the corresponding --encrypt options *)
Lemma permissions_table_lemma : forall st P, P < 4294967296 ->
  c6t_P st = c06_to_int32 (Z.of_N P) ->
  c06_show_perms st = c06_iso_perms (c6t_R st) P.
Proof.
  intros st P HP Hst. unfold c06_show_perms, c06_iso_perms, c06_allow_accessibility, c06_allow_extract_all,
    c06_allow_print_low, c06_allow_print_high, c06_allow_modify_assembly, c06_allow_modify_form,
    c06_allow_modify_annotation, c06_allow_modify_other, c06_allow_print_low, c06_Pbit, c06_bit.
  rewrite Hst, c06_u32_of_N by exact HP.
  destruct (c6t_R st <? 3); [rewrite ?andb_true_r|]; reflexivity.
Qed.
