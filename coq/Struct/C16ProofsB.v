(* C16, model side: how Pl_QPDFTokenizer::finish (Struct/ContentNorm.v) cuts an input into tokens in
   includeIgnorable mode, in terms of the text each token consumes. *)
From QV Require Import Base.Bytes Lex.TokModel Lex.LexSpec Lex.TokInterp Lex.LexRun Lex.LexProofs Obj.Unparse Obj.UnparseProofs Struct.ContentNorm Struct.ContentSem Struct.C16ProofsA.
Local Open Scope N_scope.

Local Arguments N.eqb : simpl never.
Local Arguments N.leb : simpl never.
Local Arguments N.ltb : simpl never.
Local Arguments N.add : simpl never.
Local Arguments N.sub : simpl never.
Local Arguments N.mul : simpl never.
Local Arguments N.modulo : simpl never.
Local Arguments rev' : simpl never.
Local Arguments list_eqb : simpl never.
Local Arguments run : simpl never.

(* ---------------------------------------------------------------- the loop as a relation *)
Inductive loop_rel : tk -> list N -> list token -> Prop :=
| lr_eof t s tok thr t1 rest np last :
    read_token 0 true t s 0 = (tok, thr, t1, rest, np, last) ->
    ttype_eqb (tok_type tok) TT_eof = true -> loop_rel t s [tok]
| lr_id t s tok thr t1 rest np last toks :
    read_token 0 true t s 0 = (tok, thr, t1, rest, np, last) ->
    ttype_eqb (tok_type tok) TT_eof = false -> c16_is_word_ID tok = true ->
    loop_rel (c16_expect_inline_image t1 (tl rest)) (tl rest) toks ->
    loop_rel t s (tok :: c16_space_token (hd 32 rest) :: toks)
| lr_tok t s tok thr t1 rest np last toks :
    read_token 0 true t s 0 = (tok, thr, t1, rest, np, last) ->
    ttype_eqb (tok_type tok) TT_eof = false -> c16_is_word_ID tok = false ->
    loop_rel t1 rest toks -> loop_rel t s (tok :: toks).

Lemma loop_rel_run : forall t s toks, loop_rel t s toks ->
  forall (A : Type) (h : A -> token -> A) fuel st, (length toks <= fuel)%nat ->
  c16_finish_loop h fuel t s st = fold_left h toks st.
Proof.
  induction 1 as [t s tok thr t1 rest np last Hr He|t s tok thr t1 rest np last toks Hr He Hid Hl IH|t s tok thr t1 rest np last toks Hr He Hid Hl IH];
    intros A h fuel st Hf; (destruct fuel as [|fuel]; [cbn in Hf; lia|]); cbn [c16_finish_loop]; rewrite Hr, He.
  - reflexivity.
  - rewrite Hid. cbn [length] in Hf.
    assert (Hd : (match rest with c :: r => (c, r) | [] => (32, []) end) = (hd 32 rest, tl rest)) by (destruct rest; reflexivity).
    rewrite Hd. cbn [fold_left]. apply IH. lia.
  - rewrite Hid. cbn [fold_left]. apply IH. cbn [length] in Hf. lia.
Qed.

(* what the normaliser has written / flagged after a list of tokens *)
Definition tok_is_bad (tok : token) : bool := ttype_eqb (tok_type tok) TT_bad.

Lemma fold_handle : forall toks st,
  cn_out (fold_left c16_handle_token toks st) = rev (concat (map c16_emit toks)) ++ cn_out st /\
  cn_any_bad (fold_left c16_handle_token toks st) = cn_any_bad st || existsb tok_is_bad toks.
Proof.
  induction toks as [|tok toks IH]; intros st.
  - cbn. rewrite orb_false_r. auto.
  - cbn [fold_left map concat existsb]. destruct (IH (c16_handle_token st tok)) as [A B]. rewrite A, B. split.
    + unfold c16_handle_token. cbn [cn_out]. rewrite rev_append_rev, rev_app_distr, <- app_assoc. reflexivity.
    + unfold c16_handle_token, tok_is_bad. cbn [cn_any_bad]. rewrite orb_assoc. reflexivity.
Qed.

Lemma normalize_of_loop s toks : loop_rel c16_tokenizer s toks -> (length toks <= c16_fuel s)%nat ->
  c16_normalize s = concat (map c16_emit toks) /\
  snd (fst (c16_normalize_run s)) = existsb tok_is_bad toks.
Proof.
  intros Hl Hf. unfold c16_normalize, c16_normalize_run.
  rewrite (loop_rel_run _ _ _ Hl _ c16_handle_token _ c16_ninit Hf).
  destruct (fold_handle toks c16_ninit) as [A B]. cbn [fst snd]. rewrite A, B. cbn [cn_out cn_any_bad c16_ninit orb].
  rewrite app_nil_r, rev'_rev, rev_involutive. auto.
Qed.

Lemma tokens_of_loop s toks : loop_rel c16_tokenizer s toks -> (length toks <= c16_fuel s)%nat -> c16_tokens s = toks.
Proof.
  intros Hl Hf. unfold c16_tokens. rewrite (loop_rel_run _ _ _ Hl _ (fun acc tok => tok :: acc) _ [] Hf).
  rewrite rev'_rev. rewrite <- fold_left_rev_right.
  assert (H : forall l : list token, fold_right (fun y x => y :: x) [] l = l) by (induction l; cbn; congruence).
  rewrite H. apply rev_involutive.
Qed.

(* ---------------------------------------------------------------- read_token through run *)
Definition tinv (t : tk) : Prop := t_incl_ign t = true /\ t_allow_eof t = true /\ t_state t <> TS_inline_image.

Lemma read_token_run t s : t_state t <> TS_inline_image ->
  exists np last, read_token 0 true t s 0 =
    (tk_token (fst (run (tk_reset t) s)), false, tk_reset (fst (run (tk_reset t) s)), snd (run (tk_reset t) s), np, last).
Proof.
  intros Hst. unfold read_token. destruct (next_token_run t s 0 Hst) as (np & last & Hn). rewrite Hn.
  exists np, last. rewrite andb_false_r. try reflexivity.
Qed.

Lemma tinv_reset t t' rest s : tinv t -> run (tk_reset t) s = (t', rest) -> tinv (tk_reset t').
Proof.
  intros (A & B & C) Hr. destruct (run_facts _ _ _ _ Hr) as (A' & B' & _).
  unfold tinv, tk_reset in *. cbn in *. repeat split; try congruence; try discriminate.
Qed.

(* the tokenizer after reset() in includeIgnorable mode *)
Notation Fii c h d := (mkTk TS_before_token true true TT_bad [] [] TE_none true false 0 0 false 0%Z c h d).

Lemma reset_ii t : t_incl_ign t = true -> t_allow_eof t = true ->
  tk_reset t = Fii (t_code t) (t_hexch t) (t_digits t).
Proof. intros A B. unfold tk_reset. rewrite A, B. reflexivity. Qed.

(* ---------------------------------------------------------------- white space and comments *)
(* wrappers that the evaluation tactics of Lex/LexRun.v leave folded *)
Definition typeof (t : tk) : ttype := t_type t.
Definition rawof (t : tk) : list N := t_raw t.

Notation Sp raw c h d := (mkTk TS_in_space true true TT_bad [] raw TE_none false true 0 0 false 0%Z c h d).
Notation Cm raw c h d := (mkTk TS_in_comment true true TT_bad [] raw TE_none false true 0 0 false 0%Z c h d).

Definition stops_space (x : list N) : Prop := match x with [] => True | b :: _ => tk_is_space b = false end.
Definition stops_comment (x : list N) : Prop := match x with [] => True | b :: _ => iso_eol b = true end.

Lemma space_run : forall ws raw x c h d, forallb tk_is_space ws = true -> stops_space x ->
  exists t', run (Sp raw c h d) (ws ++ x) = (t', x) /\ typeof t' = TT_space /\ rawof t' = rev ws ++ raw.
Proof.
  induction ws as [|w ws IH]; intros raw x c h d Hws Hx.
  - cbn [app rev]. destruct x as [|b x'].
    + rewrite run_nil. cbn. eexists. split; [reflexivity|]. split; reflexivity.
    + cbn in Hx. rewrite run_cons. unfold present_char_nr, handle_character. cbn [t_state]. unfold in_space. rewrite Hx. norm.
      eexists. split; [reflexivity|]. split; reflexivity.
  - cbn [forallb] in Hws. apply andb_true_iff in Hws. destruct Hws as [Hw Hws].
    cbn [app]. rewrite run_cons. unfold present_char_nr, handle_character. cbn [t_state]. unfold in_space. rewrite Hw. norm.
    destruct (IH (w :: raw) x c h d Hws Hx) as (t' & Hr & Ht & Hraw). exists t'. split; [exact Hr|]. split; [exact Ht|].
    rewrite Hraw. cbn [rev]. rewrite <- app_assoc. reflexivity.
Qed.

Lemma space_token_run : forall w ws x c h d, tk_is_space w = true -> forallb tk_is_space ws = true -> stops_space x ->
  exists t', run (Fii c h d) (w :: ws ++ x) = (t', x) /\ typeof t' = TT_space /\ rawof t' = rev (w :: ws).
Proof.
  intros w ws x c h d Hw Hws Hx. rewrite run_cons. unfold present_char_nr, handle_character. cbn [t_state]. unfold in_before_token.
  rewrite Hw. norm. destruct (space_run ws [w] x c h d Hws Hx) as (t' & Hr & Ht & Hraw).
  exists t'. split; [exact Hr|]. split; [exact Ht|]. rewrite Hraw. cbn [rev]. reflexivity.
Qed.

Lemma comment_run : forall body raw x c h d, forallb (fun b => negb (iso_eol b)) body = true -> stops_comment x ->
  exists t', run (Cm raw c h d) (body ++ x) = (t', x) /\ typeof t' = TT_comment /\ rawof t' = rev body ++ raw.
Proof.
  induction body as [|w body IH]; intros raw x c h d Hb Hx.
  - cbn [app rev]. destruct x as [|b x'].
    + rewrite run_nil. cbn. eexists. split; [reflexivity|]. split; reflexivity.
    + cbn in Hx. rewrite run_cons. unfold present_char_nr, handle_character. cbn [t_state]. unfold in_comment.
      unfold iso_eol in Hx. rewrite (orb_comm (b =? 13)), Hx. norm. eexists. split; [reflexivity|]. split; reflexivity.
  - cbn [forallb] in Hb. apply andb_true_iff in Hb. destruct Hb as [Hw Hb]. apply negb_true_iff in Hw.
    cbn [app]. rewrite run_cons. unfold present_char_nr, handle_character. cbn [t_state]. unfold in_comment.
    unfold iso_eol in Hw. rewrite (orb_comm (w =? 13)), Hw. norm.
    destruct (IH (w :: raw) x c h d Hb Hx) as (t' & Hr & Ht & Hraw). exists t'. split; [exact Hr|]. split; [exact Ht|].
    rewrite Hraw. cbn [rev]. rewrite <- app_assoc. reflexivity.
Qed.

Lemma comment_token_run : forall body x c h d, forallb (fun b => negb (iso_eol b)) body = true -> stops_comment x ->
  exists t', run (Fii c h d) (37 :: body ++ x) = (t', x) /\ typeof t' = TT_comment /\ rawof t' = rev (37 :: body).
Proof.
  intros body x c h d Hb Hx. rewrite run_cons. unfold present_char_nr, handle_character. cbn [t_state]. unfold in_before_token.
  ev. norm. destruct (comment_run body [37] x c h d Hb Hx) as (t' & Hr & Ht & Hraw).
  exists t'. split; [exact Hr|]. split; [exact Ht|]. rewrite Hraw. cbn [rev]. reflexivity.
Qed.

(* ---------------------------------------------------------------- inline image data by byte count *)
Lemma image_run : forall data t x, data <> [] ->
  t_state t = TS_inline_image -> t_in_token t = true -> t_before t = false ->
  t_iib t = N.of_nat (length data) + raw_len t ->
  exists t', run t (data ++ x) = (t', x) /\ typeof t' = TT_inline_image /\ rawof t' = rev data ++ t_raw t.
Proof.
  induction data as [|b data IH]; intros t x Hne Hst Hin Hbe Hiib; [contradiction|].
  cbn [app]. rewrite run_cons. unfold present_char_nr, handle_character. rewrite Hst. unfold in_inline_image.
  destruct data as [|b2 data'].
  - assert (E : (raw_len t + 1 =? t_iib t) = true) by (apply N.eqb_eq; rewrite Hiib; cbn; lia).
    rewrite E. cbn [t_in_token set_state set_iib set_type]. rewrite Hin. cbv zeta.
    unfold is_ready, tk_unread_flag. cbn [t_state push_raw set_raw set_state set_iib set_type t_in_token t_before]. rewrite Hin. cbn [negb andb].
    eexists. split; [reflexivity|]. split; reflexivity.
  - assert (E : (raw_len t + 1 =? t_iib t) = false).
    { apply N.eqb_neq. rewrite Hiib. cbn [length]. lia. }
    rewrite E, Hin. cbv zeta.
    assert (Hnr : is_ready (push_raw b t) = false) by (unfold is_ready; cbn; rewrite Hst; reflexivity).
    rewrite Hnr.
    destruct (IH (push_raw b t) x ltac:(discriminate)) as (t' & Hr & Ht & Hraw); try (cbn; assumption).
    + unfold raw_len in *. cbn [push_raw set_raw t_iib t_raw length]. rewrite Hiib. cbn [length]. lia.
    + exists t'. split; [exact Hr|]. split; [exact Ht|]. rewrite Hraw. cbn [push_raw set_raw t_raw rev]. rewrite <- !app_assoc. reflexivity.
Qed.

(* ---------------------------------------------------------------- a token proper: includeIgnorable does not matter *)
Definition good_state (st : tstate) : bool :=
  match st with TS_before_token | TS_token_ready | TS_in_space | TS_in_comment => false | _ => true end.

Definition setii (t : tk) : tk := set_incl_ign true t.

Definition ginv (t : tk) : Prop := good_state (t_state t) = true /\ t_in_token t = true /\ t_before t = false.

Lemma hc_good t ch : ginv t ->
  handle_character (setii t) ch = setii (handle_character t ch) /\
  t_before (handle_character t ch) = false /\
  (is_ready (handle_character t ch) = false -> ginv (handle_character t ch)).
Proof.
  intros (Hg & Hin & Hbe). unfold ginv, handle_character, setii in *.
  destruct t as [st ae ii ty val raw err bef intok unr iib bad dep code hexch digs]. cbn in Hg, Hin, Hbe. subst bef intok.
  destruct st; try discriminate;
    unfold in_top, in_space, in_comment, in_lt, in_gt, in_string, in_name, in_number, in_real, in_string_after_cr,
           in_string_escape, in_char_code, in_literal, in_inline_image, in_hexstring, in_hexstring_2nd, in_name_hex1,
           in_name_hex2, in_sign, in_decimal, in_before_token, in_top, in_string, in_name, in_literal, in_hexstring,
           in_char_code, in_string, raw_is, raw_len;
    norm;
    repeat match goal with |- context [if ?c then _ else _] => destruct c eqn:? end;
    norm; try congruence; (split; [reflexivity|]); (split; [reflexivity|]); intros; try discriminate; repeat split; reflexivity.
Qed.

Lemma hc_raw t ch : ginv t -> t_raw (handle_character t ch) = t_raw t.
Proof.
  intros (Hg & Hin & Hbe). unfold handle_character.
  destruct t as [st ae ii ty val raw err bef intok unr iib bad dep code hexch digs]. cbn in Hg, Hin, Hbe. subst bef intok.
  destruct st; try discriminate;
    unfold in_top, in_space, in_comment, in_lt, in_gt, in_string, in_name, in_number, in_real, in_string_after_cr,
           in_string_escape, in_char_code, in_literal, in_inline_image, in_hexstring, in_hexstring_2nd, in_name_hex1,
           in_name_hex2, in_sign, in_decimal, in_before_token, in_top, in_string, in_name, in_literal, in_hexstring,
           in_char_code, in_string, raw_is, raw_len;
    norm;
    repeat match goal with |- context [if ?c then _ else _] => destruct c eqn:? end;
    norm; reflexivity.
Qed.

Lemma eof_good t : ginv t ->
  present_eof (setii t) = setii (present_eof t) /\ t_raw (present_eof t) = t_raw t /\ t_before (present_eof t) = false.
Proof.
  intros (Hg & Hin & Hbe). unfold present_eof, present_char_nr, handle_character, setii.
  destruct t as [st ae ii ty val raw err bef intok unr iib bad dep code hexch digs]. cbn in Hg, Hin, Hbe. subst bef intok.
  destruct st; try discriminate;
    unfold in_top, in_space, in_comment, in_lt, in_gt, in_string, in_name, in_number, in_real, in_string_after_cr,
           in_string_escape, in_char_code, in_literal, in_inline_image, in_hexstring, in_hexstring_2nd, in_name_hex1,
           in_name_hex2, in_sign, in_decimal, in_before_token, in_top, in_string, in_name, in_literal, in_hexstring,
           in_char_code, in_string, raw_is, raw_len;
    norm; ev; norm;
    repeat match goal with |- context [if ?c then _ else _] => destruct c eqn:? end;
    norm; repeat split; reflexivity.
Qed.

Lemma run_good : forall inp t, ginv t ->
  exists t' rest p, run t inp = (t', rest) /\ run (setii t) inp = (setii t', rest) /\ inp = p ++ rest /\ t_raw t' = rev p ++ t_raw t.
Proof.
  induction inp as [|ch r IH]; intros t Hg.
  - destruct (eof_good t Hg) as (E1 & E2 & E3). rewrite !run_nil. cbv zeta. rewrite E1.
    assert (Hty : t_type (setii (present_eof t)) = t_type (present_eof t)) by reflexivity.
    assert (Hae : t_allow_eof (setii (present_eof t)) = t_allow_eof (present_eof t)) by reflexivity.
    rewrite Hty, Hae.
    destruct (ttype_eqb (t_type (present_eof t)) TT_eof && negb (t_allow_eof (present_eof t))).
    + eexists. exists [], []. split; [reflexivity|]. split; [reflexivity|]. split; [reflexivity|]. cbn. exact E2.
    + eexists. exists [], []. split; [reflexivity|]. split; [reflexivity|]. split; [reflexivity|]. cbn. exact E2.
  - destruct (hc_good t ch Hg) as (H1 & H2 & H3). pose proof (hc_raw t ch Hg) as H4.
    rewrite !run_cons. cbv zeta.
    assert (Hpc : present_char_nr (setii t) ch = setii (present_char_nr t ch)).
    { unfold present_char_nr. rewrite H1. change (t_in_token (setii (handle_character t ch))) with (t_in_token (handle_character t ch)).
      destruct (t_in_token (handle_character t ch)); reflexivity. }
    rewrite Hpc.
    change (is_ready (setii (present_char_nr t ch))) with (is_ready (present_char_nr t ch)).
    change (tk_unread_flag (setii (present_char_nr t ch))) with (tk_unread_flag (present_char_nr t ch)).
    assert (Hrdy : is_ready (present_char_nr t ch) = is_ready (handle_character t ch)).
    { unfold present_char_nr. destruct (t_in_token (handle_character t ch)); reflexivity. }
    destruct (is_ready (present_char_nr t ch)) eqn:Er.
    + unfold present_char_nr in *. unfold tk_unread_flag.
      destruct (t_in_token (handle_character t ch)) eqn:Ei.
      * cbn [push_raw set_raw t_in_token t_before]. rewrite Ei. cbn [negb andb].
        eexists. exists r, [ch]. split; [reflexivity|]. split; [reflexivity|]. split; [reflexivity|]. cbn. rewrite H4. reflexivity.
      * rewrite Ei, H2. cbn [negb andb].
        eexists. exists (ch :: r), []. split; [reflexivity|]. split; [reflexivity|]. split; [reflexivity|]. cbn. exact H4.
    + destruct (H3 (eq_sym Hrdy)) as (G1 & G2 & G3).
      assert (Hg' : ginv (present_char_nr t ch)).
      { unfold present_char_nr. rewrite G2. unfold ginv. cbn. auto. }
      destruct (IH _ Hg') as (t' & rest & p & R1 & R2 & R3 & R4).
      exists t', rest, (ch :: p). split; [exact R1|]. split; [exact R2|]. split; [cbn; rewrite R3; reflexivity|].
      rewrite R4. unfold present_char_nr. rewrite G2. cbn [push_raw set_raw t_raw rev]. rewrite H4, <- app_assoc. reflexivity.
Qed.

