# C04 - no input can crash, corrupt memory, hang or raise a non-qpdf error  (PARTIAL by construction).
# Proof: Props/Properties_C04.v: every fixed-size buffer index computed by the filter code stays in range in the
# models, bit readers never read past their buffer, the LZW table is bounded (the logic half).
#        and (Sys/C04GuardProofs.v) the guard logic of the traversals, limits and conversions: termination within an explicit
#        bound, node visits bounded by the number of nodes, revisits reported, depth limits, no wrapped conversion,
#        at most two xref reconstructions; the qpdf-JSON import boundary (which exception can leave importJSON); Pl_PNGFilter's row buffers.
#        Tie: harness/c04guards.py (random hostile graphs, real qpdf vs extracted model), harness/c04json.py (hostile qpdf JSON documents).
# Observed (testing, labelled so): the real qpdf CLI and the in-process drivers built with ASan+UBSan
# (-fno-sanitize-recover) are fed a malformed stream (mutations of generated documents, repository corpus and
# fuzz seeds with a PDF token dictionary and structure-aware edits); every run must end in a documented way.
import os, re, resource, subprocess, time
import common, filecheck, pdfgen, c04guards, c04json
from common import hexs
from pdfgen import D, N, Ref

ASSUMPTIONS = [
    "guard theorems (Sys/C04GuardProofs.v) speak about the Gallina models of Sys/Guards.v, over abstract object graphs without a node of id 0; the models are tied to /repo by the random-graph correspondence of this check (CLI outcome category, page / entry / helper / warning counts, driver results), not by a proof about the C++",
    "guard part: CPU budget 1 s + 0.05 ms per input byte and RSS budget 150 MB + 0.4 kB per byte per qpdf run (plain build, ulimit -v 4 GB; hard stops: CPU 3 x budget + 1 s, 20 MB of output, 40 s wall - a run that reaches one of them is a hang); a budget overrun is re-run alone before it is reported",
    "qpdf JSON import: the CLI prints every std::exception as `qpdf: <what>` with exit 2, so the TYPE of an exception is observed in process only (harness/drv_guards.cc c4json: createFromJSON / updateFromJSON, then QPDFWriter::write); the model c4_import_json takes what callees throw (JSON syntax errors, QPDFObjectHandle::parse) as given",
    "read_xref in process: `the offsets read_xref is asked to read` = absolute seeks that are followed by a one-byte read (its white-space skip) or that fail, cut down to the offsets a startxref / /Prev of the generated file can name",
    "memory safety, undefined behaviour, leaks, wall-clock time and memory use of the C++ are NOT expressible in the Gallina models: they are observed only, on the sampled malformed stream, by the sanitizers and budgets (partial, DESIGN §8)",
    "budgets are loose multiples (20 s + 2 ms per input byte, 4 GB address space outside ASan) so that correct code never trips them; an overrun is re-run alone before it is reported; when the sanitizer runtime itself runs out of memory (out-of-memory / hard_rss_limit_mb=6000: its operator new cannot fail, its shadow multiplies the footprint) the input is judged by the plain build under the 4 GB address-space limit instead - memory use without the library's protective limits is outside the property",
    "DCT (libjpeg), zlib internals and the C API beyond what the drivers call are outside",
]

TOKENS = [b"obj", b"endobj", b"stream", b"endstream", b"xref", b"trailer", b"startxref", b"%%EOF", b"/Length", b"/Prev", b"/Kids", b"/Parent",
          b"/W", b"/Index", b"/Type /XRef", b"/Type /ObjStm", b"/N", b"/First", b"/Extends", b"/Filter", b"/FlateDecode", b"/LZWDecode", b"/DecodeParms",
          b"/Predictor 12", b"/Predictor 2", b"/Columns", b"/Colors", b"/BitsPerComponent", b"/Root", b"/Size", b"/Encrypt", b"/ID", b"/Pages", b"/Count",
          b"<<", b">>", b"[", b"]", b"(", b")", b"<", b">", b"0 R", b"1 0 R", b"2 0 R", b"65535", b"-1", b"2147483647", b"2147483648", b"99999999999999999999",
          b"4294967295", b"0", b"null", b"/Names", b"/Nums", b"/Limits", b"/Outlines", b"/First", b"/Next", b"/AcroForm", b"/Fields", b"/Annots", b"ID ", b" EI", b"BI"]

SAN_RE = re.compile(rb"ERROR: (AddressSanitizer|LeakSanitizer|UndefinedBehaviorSanitizer)|runtime error:|SUMMARY: \w*Sanitizer", re.M)
INTERNAL_RE = re.compile(rb"INTERNAL ERROR|logic_error|std::logic_error|terminate called|Assertion .* failed|internal error", re.I)
ASAN_RESOURCE_RE = re.compile(rb"AddressSanitizer: (out-of-memory|allocation-size-too-big|requested allocation size)|hard rss limit exhausted", re.I)


def mutate(rng, data):
    d = bytearray(data)
    if not d:
        return bytes(d)
    for _ in range(rng.choice([1, 1, 2, 3, 6])):
        k = rng.random()
        if not d:
            break
        pos = rng.randrange(len(d))
        if k < 0.25:
            d[pos] = rng.randrange(256)
        elif k < 0.45:
            t = rng.choice(TOKENS)
            d[pos:pos] = b" " + t + b" "
        elif k < 0.6:
            # digits -> other number
            m = re.search(rb"\d+", bytes(d[pos:pos + 200]))
            if m:
                a, b = pos + m.start(), pos + m.end()
                d[a:b] = rng.choice([b"0", b"1", b"-1", b"99999999999", b"2147483647", str(rng.randrange(len(d))).encode(), bytes(d[a:b])[::-1]])
        elif k < 0.72:
            n = rng.choice([1, 10, 100, 1000])
            del d[pos:pos + n]
        elif k < 0.82:
            n = rng.choice([1, 50, 400])
            d[pos:pos] = d[max(0, pos - n):pos]
        elif k < 0.9:
            del d[pos:]                      # truncation
        else:
            q = rng.randrange(len(d))
            a, b = min(pos, q), max(pos, q)
            d[a:b] = d[a:b][::-1][:2000] if b - a < 4000 else d[a:b]
    return bytes(d)


def structured(rng):
    """hand-built hostile structures: loops in /Prev, /Kids, name trees, object streams, predictor parameters"""
    N, D, Ref, Stream = pdfgen.Name, pdfgen.D, pdfgen.Ref, pdfgen.Stream
    docs = []
    d = pdfgen.page_doc(2)
    d.objects[2][b"Kids"].append(Ref(2))                       # /Pages is its own kid
    docs.append(pdfgen.write_classic(d)[0])
    d = pdfgen.page_doc(2)
    d.objects[2][b"Parent"] = Ref(2)
    d.objects[5][b"Parent"] = Ref(5)
    docs.append(pdfgen.write_classic(d)[0])
    d = pdfgen.page_doc(1)
    nt = d.add(None)
    d.objects[nt.n] = D(Kids=[nt], Limits=[pdfgen.Str(b"a"), pdfgen.Str(b"z")])
    d.objects[1][b"Names"] = D(EmbeddedFiles=nt, Dests=nt)
    d.objects[1][b"PageLabels"] = D(Kids=[nt])
    d.objects[1][b"Outlines"] = d.add(D(First=Ref(max(d.objects) + 1), Last=Ref(max(d.objects) + 1), Count=rng.choice([-5, 10 ** 9])))
    d.objects[max(d.objects)][b"First"] = Ref(max(d.objects))
    docs.append(pdfgen.write_classic(d)[0])
    for pred, cols, colors, bpc in [(12, 2 ** 31 - 1, 1, 8), (2, 1, 1, 40), (15, 0, 1, 8), (10, 5, 2 ** 31 - 1, 16), (2, 3, 300, 7), (12, 1, 1, 3)]:
        d = pdfgen.page_doc(1)
        import zlib
        d.objects[1][b"X"] = d.add(Stream({b"Filter": N("FlateDecode"), b"DecodeParms": {b"Predictor": pred, b"Columns": cols, b"Colors": colors,
                                                                                             b"BitsPerComponent": bpc}}, zlib.compress(bytes(range(64)))))
        docs.append(pdfgen.write_classic(d)[0])
    # /Prev loop and self-referential xref
    base, offs = pdfgen.write_classic(pdfgen.page_doc(1))
    x = base.rfind(b"xref")
    docs.append(base.replace(b"trailer\n<<", b"trailer\n<< /Prev %d" % x, 1))
    # counts that are plausible one by one but whose SUM or PRODUCT wraps a 32-bit integer (k extra entries/bytes make the
    # wrapped total agree with the real data length)
    for idx, nent in [([0, 6, 0, 2147483647, 0, 2147483647, 0, 2], 6), ([0, 3, 5, 2147483647, 9, 2147483646, 0, 3], 4),
                      ([0, 4, 0, 4294967295, 0, 1], 4), ([2147483647, 2, 0, 4], 6)]:
        d = pdfgen.page_doc(1)
        data0, offs = pdfgen.write_classic(d)
        body = data0[:data0.rfind(b"xref")]
        n = max(d.objects) + 1
        ents = b"".join(bytes([1]) + (offs.get(i, 0)).to_bytes(2, "big") + b"\0" for i in range(1, nent + 1))
        xoff = len(body)
        xs = (b"%d 0 obj\n<< /Type /XRef /Size %d /W [1 2 1] /Index [%s] /Root 1 0 R /Length %d >>\nstream\n" % (n, n + 1, " ".join(map(str, idx)).encode(), len(ents))
              + ents + b"\nendstream\nendobj\nstartxref\n%d\n%%%%EOF\n" % xoff)
        docs.append(body + xs)
    for w, h, comps, cs in [(65500, 21858, 3, "DeviceRGB"), (65536, 65536, 1, "DeviceGray"), (46341, 46341, 2, None), (65500, 65500, 4, "DeviceCMYK")]:
        total = w * h * comps
        k = total % (1 << 32)
        if 0 < k < 400000:
            d = pdfgen.page_doc(1)
            runs = b"".join(bytes([129]) + b"\0" for _ in range(k // 128)) + (bytes([257 - (k % 128)]) + b"\0" if k % 128 > 1 else b"") + bytes([128])
            img = {b"Type": N("XObject"), b"Subtype": N("Image"), b"Width": w, b"Height": h, b"BitsPerComponent": 8, b"Filter": N("RunLengthDecode")}
            if cs:
                img[b"ColorSpace"] = N(cs)
            ir = d.add(Stream(img, runs))
            d.objects[5][b"Resources"][b"XObject"] = {b"Im1": ir}
            docs.append(pdfgen.write_classic(d)[0])
    # object stream containing itself / extends loop
    d = pdfgen.page_doc(1)
    d.objects[1][b"Y"] = d.add(Stream({b"Type": N("ObjStm"), b"N": 3, b"First": 10, b"Extends": Ref(max(d.objects) + 1)}, b"7 0 8 1 9 2 <<>> 1 2"))
    docs.append(pdfgen.write_classic(d)[0])
    # named inputs (the name is part of the violation signature; they also run through the plain build).  png-row-wrap: predictor
    # parameters for which a row has exactly 2^32 - 1 bytes - before the repair of D-C04-png-row-wrap Pl_PNGFilter allocated its row
    # buffers with the uint32_t sum bytes_per_row + 1 = 0 and `qpdf --check` died with SIGSEGV; it must be refused with a warning
    structured.names = {}
    import zlib
    d = pdfgen.page_doc(1)
    d.objects[1][b"X"] = d.add(Stream({b"Filter": N("FlateDecode"), b"DecodeParms": {b"Predictor": 12, b"Columns": 1431655765, b"Colors": 3, b"BitsPerComponent": 8}},
                                      zlib.compress(bytes(range(64)))))
    structured.names[len(docs)] = "png-row-wrap"
    docs.append(pdfgen.write_classic(d)[0])
    # objstm-negative-first: /First < 0 in an object stream whose members are referenced (resolve() turns the std::logic_error of
    # is::OffsetBuffer into a warning: must stay a warning, exit 3)
    docs.append(objstm_doc(-5))
    structured.names[len(docs) - 1] = "objstm-negative-first"
    return docs


def objstm_doc(first, header=b"5 0 6 20 ", members=b"<< /A 1 >>          << /B 2 >>"):
    """a file (cross-reference stream) whose objects 5 and 6 live in the object stream 4 with the given /First"""
    pdf = bytearray(b"%PDF-1.5\n%\xbf\xf7\xa2\xfe\n")
    off = {}

    def obj(num, body):
        off[num] = len(pdf)
        pdf.extend(b"%d 0 obj\n" % num + body + b"\nendobj\n")
    obj(1, b"<< /Type /Catalog /Pages 2 0 R /X 5 0 R /Y 6 0 R >>")
    obj(2, b"<< /Type /Pages /Kids [3 0 R] /Count 1 >>")
    obj(3, b"<< /Type /Page /Parent 2 0 R /MediaBox [0 0 10 10] /Resources << >> >>")
    data = header + members
    obj(4, b"<< /Type /ObjStm /N 2 /First %d /Length %d >>\nstream\n" % (first, len(data)) + data + b"\nendstream")
    x = len(pdf)
    ents = [bytes([0, 0, 0, 255])] + [bytes([1]) + off[i].to_bytes(2, "big") + bytes([0]) for i in (1, 2, 3, 4)]
    ents += [bytes([2, 0, 4, 0]), bytes([2, 0, 4, 1]), bytes([1]) + x.to_bytes(2, "big") + bytes([0])]
    d = b"".join(ents)
    pdf.extend(b"7 0 obj\n<< /Type /XRef /Size 8 /Root 1 0 R /W [1 2 1] /Length %d >>\nstream\n" % len(d) + d + b"\nendstream\nendobj\nstartxref\n%d\n%%%%EOF\n" % x)
    return bytes(pdf)


def classify(rc, out, err, dt, budget):
    if rc == -999 or dt > budget:
        return "timeout"
    if rc < 0 or rc >= 128:
        return "signal-%d" % rc
    if SAN_RE.search(err) or SAN_RE.search(out):
        return "sanitizer"
    if INTERNAL_RE.search(err):
        return "internal-error"
    if rc not in (0, 2, 3):
        return "exit-%d" % rc
    return "ok"


def run(chk):
    rng = chk.rng
    quick = chk.tier == "quick"
    phases = chk.cov.setdefault("phase_seconds", {})
    t_phase = [time.time()]

    def phase(name):
        phases[name] = round(time.time() - t_phase[0], 1)
        t_phase[0] = time.time()
    wd = common.workdir("C04")
    bdir = common.build_repo("asan")
    qpdf_asan = os.path.join(bdir, "qpdf", "qpdf")
    drv_asan = common.build_drv("asan")
    chk.cov["rule"] = ("malformed stream: byte-level and token-dictionary mutations (1-6 per input) of generated documents, repository corpus files "
                       "(<= 60 kB) and the fuzz seed corpus, plus hand-built hostile structures (cycles in /Kids, /Parent, /Prev, name trees, outlines, object "
                       "streams; predictor parameters at the limits) x entry points {--check, rewrite, --qdf, --linearize, --json-output, --json-input, "
                       "--show-pages, --list-attachments} under ASan+UBSan; non-trivial = input that makes qpdf warn or fail, distinct by input bytes; "
                       "guard part: random and aimed hostile graphs (page trees, cross-reference sections with white space in front, outlines, AcroForm, number trees) vs the extracted model; "
                       "JSON part: qpdf JSON documents from abstract entry sequences (vs the extracted model) and from a grammar of the format (property only)")
    env = {"ASAN_OPTIONS": "detect_leaks=1:abort_on_error=0:exitcode=99:allocator_may_return_null=1:hard_rss_limit_mb=6000", "UBSAN_OPTIONS": "print_stacktrace=1:halt_on_error=1:exitcode=98"}
    phase("builds")
    seeds = []
    for name, data, doc in filecheck.gen_docs(rng, 4 if quick else 20):
        seeds.append(data)
    cf = [f for f in filecheck.corpus_files() if os.path.getsize(f) <= 60000]
    for f in rng.sample(cf, 25 if quick else 300):
        seeds.append(open(f, "rb").read())
    fz = os.path.join(common.REPO, "fuzz", "qpdf_extra")
    fseeds = sorted(os.listdir(fz))
    for f in rng.sample(fseeds, 15 if quick else len(fseeds)):
        p = os.path.join(fz, f)
        if os.path.getsize(p) <= 200000:
            seeds.append(open(p, "rb").read())
    inputs = list(structured(rng))
    structured.count = len(inputs)
    n_mut = 260 if quick else 6000
    for i in range(n_mut):
        inputs.append(mutate(rng, rng.choice(seeds)))
    modes = [["--check"], [], ["--qdf", "--object-streams=disable"], ["--linearize"], ["--object-streams=generate", "--recompress-flate"],
             ["--json-output", "--json-stream-data=inline"], ["--show-pages", "--with-images"], ["--list-attachments"], ["--check", "--suppress-recovery"],
             ["--decode-level=all", "--stream-data=uncompress"], ["--remove-unreferenced-resources=yes", "--pages", ".", "1-z", "--"],
             ["--optimize-images"], ["--externalize-inline-images", "--optimize-images", "--oi-min-area=0"], ["--flatten-annotations=all", "--generate-appearances"]]
    jobs = []
    name_of = {}
    named_reported = {}
    for i, data in enumerate(inputs):
        p = os.path.join(wd, "in%d.pdf" % i)
        open(p, "wb").write(data)
        if i in getattr(structured, "names", {}):
            name_of[p] = structured.names[i]
        nstruct = getattr(structured, "count", 0)
        for m in (modes if i < nstruct else [modes[0]] + rng.sample(modes[1:], 2 if quick else 4)):
            jobs.append((p, m, len(data)))

    def runjob(j):
        p, m, n = j
        out = p + ".out"
        args = list(m)
        if m and m[0] in ("--check", "--show-pages", "--list-attachments", "--check-linearization", "--show-linearization"):
            args = args + [p]
        elif m and m[0] == "--json-output":
            args = args + [p, out]
        else:
            args = args + [p, out]
        budget = 20 + 0.002 * n
        t = time.time()
        rc, so, se = common.run_qpdf(args, timeout=budget * 3, env=env, exe=qpdf_asan)
        cls = classify(rc, so[-4000:], se[-20000:], time.time() - t, budget * 3)
        if cls != "ok" and ASAN_RESOURCE_RE.search(se):
            # the sanitizer runtime gave up on MEMORY (its allocator cannot return null from operator new, its shadow multiplies the
            # footprint): that is not a memory-safety report.  What the property says about such an input - a documented outcome -
            # is decided by the plain build under the address-space limit and the same time budget
            t = time.time()
            try:
                q = subprocess.run(["bash", "-c", "ulimit -v 4000000; exec \"$0\" \"$@\"", common.QPDF] + args, stdout=subprocess.PIPE, stderr=subprocess.PIPE,
                                   timeout=budget * 3)
                rc, so, se = q.returncode, q.stdout, q.stderr
            except subprocess.TimeoutExpired:
                rc, so, se = -999, b"", b"timeout"
            cls = classify(rc, so[-4000:], se[-20000:], time.time() - t, budget * 3)
            if cls == "ok":
                return "ok", "%s-plain-after-asan-memory" % rc, se[-1500:]
        if cls == "ok" and se.count(b"Attempting to reconstruct cross-reference table") > 2:
            cls = "more-than-two-xref-reconstructions"
        return cls, rc, se[-1500:]
    res = common.par_map(runjob, jobs, workers=14)
    kinds = {}
    nontriv = set()
    for (p, m, n), (cls, rc, se) in zip(jobs, res):
        kinds[cls + "/exit%s" % rc] = kinds.get(cls + "/exit%s" % rc, 0) + 1
        if rc in (2, 3) or str(rc).startswith(("2-", "3-")):
            nontriv.add(p)
        if cls != "ok":
            # reproduce alone before reporting (budgets, flaky resource pressure)
            cls2, rc2, se2 = runjob((p, m, n))
            if cls2 != "ok" and p in name_of and named_reported.setdefault(p, 0) >= 1:
                continue                      # a named regression input is reported once per build (it fails the same way in most modes)
            if cls2 != "ok":
                if p in name_of:
                    named_reported[p] += 1
                chk.violation({"kind": "property-fails-on-implementation", "why": "qpdf did not end in a documented way: " + cls2, "input": p,
                               "input_hex_prefix": open(p, "rb").read()[:200].hex(), "argv": ["qpdf"] + m, "exit": rc2,
                               "stderr_tail": se2.decode("latin-1")[-1200:]},
                              signature="c04:%s:%s" % (cls2, " ".join(m)) + (":" + name_of[p] if p in name_of else ""))
    # the named regression inputs through the PLAIN build as well (a memory error that the sanitizer build reports is a signal here)
    for p, name in sorted(name_of.items()):
        for m in (["--check"], ["--decode-level=all", "--stream-data=uncompress"]):
            args = m + [p] + ([] if m[0] == "--check" else [p + ".plain.out"])
            try:
                # (address space 16 GB: under a 4 GB limit the 4 GB copy of the png-row-wrap defect fails with bad_alloc, which is caught)
                q = subprocess.run(["bash", "-c", "ulimit -v 16000000; ulimit -c 0; exec \"$0\" \"$@\"", common.QPDF] + args, stdout=subprocess.PIPE, stderr=subprocess.PIPE, timeout=60)
                rc, so, se = q.returncode, q.stdout, q.stderr
            except subprocess.TimeoutExpired:
                rc, so, se = -999, b"", b"timeout"
            cls = classify(rc, so[-4000:], se[-20000:], 0, 60)
            kinds["plain:" + cls + "/exit%s" % rc] = kinds.get("plain:" + cls + "/exit%s" % rc, 0) + 1
            if cls != "ok" and ("plain", p) in named_reported:
                continue
            if cls != "ok":
                named_reported[("plain", p)] = 1
                chk.violation({"kind": "property-fails-on-implementation", "why": "qpdf (plain build) did not end in a documented way: " + cls, "input": p,
                               "input_hex_prefix": open(p, "rb").read()[:200].hex(), "argv": ["qpdf"] + m, "exit": rc,
                               "stderr_tail": se.decode("latin-1")[-1200:]}, signature="c04:plain:%s:%s:%s" % (cls, " ".join(m), name))
    chk.count("cli-malformed-asan", len(jobs), nontriv, samples=[{"input": os.path.basename(jobs[0][0]), "mode": jobs[0][1]}])
    chk.cov["parts"]["cli-malformed-asan"]["outcome_classes"] = kinds
    chk.cov["parts"]["cli-malformed-asan"]["explanation"] = "testing, not proof: sanitizer verdicts and budgets on a sampled malformed stream"

    phase("cli-malformed-asan")
    # ---- in-process entry points under ASan: filters with malformed data (same cases as C15's malformed part)
    lines = []
    for _ in range(1500 if quick else 40000):
        f = rng.choice(["ahx", "a85", "rld", "b64d", "lzw", "lzw", "pngd", "tiffd", "rle", "pnge", "tiffe"])
        n = rng.choice([0, 1, 2, 3, 5, 8, 13, 40, 200, 1000])
        d = bytes(rng.randrange(256) for _ in range(n))
        ps = "-"
        if f == "lzw":
            ps = str(rng.randrange(2))
        elif f in ("pngd", "tiffd", "pnge", "tiffe"):
            ps = "%d,%d,%d" % (rng.choice([0, 1, 2, 7, 100, 65536]), rng.choice([0, 1, 3, 4, 255]), rng.choice([0, 1, 2, 3, 4, 8, 16, 24, 32, 33, 64, 65]))
        k = rng.randrange(0, n + 1)
        cs = ",".join(hexs(x) for x in (d[:k], d[k:]))
        lines.append("filt %s %s %s" % (f, ps, cs))
    outs = common.run_lines(drv_asan, lines, shards=8, env=env)
    bad = [(l, o) for l, o in zip(lines, outs) if o.startswith("?crashed") or (o.endswith("logic") and not (l.split()[1].startswith("tiff")))]
    for l, o in bad[:5]:
        chk.violation({"kind": "property-fails-on-implementation", "why": "filter pipeline crashed / sanitizer abort / logic_error under ASan+UBSan",
                       "case": l[:600], "driver_output": o[:600]}, signature="c04:filter")
    chk.count("filters-asan", len(lines), set(l for l, o in zip(lines, outs) if o.endswith(" 1")), samples=[{"case": lines[0][:120]}])

    # ---- protective memory limits of the decoders: with the limit on, an expanding input fed in several writes must be refused
    # at the first write that takes the decoded size past the limit (one write may overshoot by its own expansion), never only at
    # finish() after everything was buffered.  Run-length: each 2-byte pair 0x81 0x00 expands to 128 bytes.
    llines, lmeta = [], []
    for lim in ([100000, 1000000] if quick else [1000, 100000, 1000000, 5000000]):
        for csize in ([1024, 10240, 65536] if quick else [2, 64, 1024, 10240, 32768, 65536]):
            per = (csize // 2) * 128
            if int(lim // per) + 12 > 400:
                continue                  # the limit would not be reached within the 400 writes a case may have
            nch = int(lim // per) + 12
            llines.append("limit rld %d %d %s" % (lim, nch, (b"\x81\x00" * (csize // 2)).hex()))
            lmeta.append(("rld", lim, csize, per, nch))
    louts = common.run_lines(drv_asan, llines, env=env)
    nlim = set()
    for (f, lim, csize, per, nch), o in zip(lmeta, louts):
        try:
            raised_at = int(o.split()[0])
        except Exception:
            raised_at = None
        first_over = int(lim // per) + 1          # the write during which the decoded size first exceeds the limit
        if raised_at is None or raised_at <= 0 or raised_at > first_over + 1:
            chk.violation({"kind": "property-fails-on-implementation", "why": "decoder memory limit not enforced while data is written: limit %d bytes, "
                           "%d-byte writes each expanding to %d bytes; the limit is passed during write %d but the error came %s" % (
                               lim, csize, per, first_over, "only from finish()" if raised_at == 0 else ("never" if raised_at == -1 else "at write %s" % raised_at)),
                           "case": llines[len(nlim)][:80], "driver_output": o[:200]}, signature="c04:limit:%s" % f)
        nlim.add((f, lim, csize))
    chk.count("decoder-memory-limits", len(llines), nlim, samples=[{"case": llines[0][:80]}])

    phase("filters-and-limits")
    # ---- linearization parameters of real linearized files replaced, in place and without changing the file length, by values
    # at and beyond the ends of their ranges (negative, zero, 2^31, 2^32, 2^40 ...): --check / --check-linearization /
    # --show-linearization read hint tables at offsets computed from them
    ldocs = []
    for npg in (1, 3):
        d = pdfgen.page_doc(npg, marker="L")
        ol = d.add(None)
        it = d.add(None)
        d.objects[ol.n] = D(Type=N("Outlines"), First=it, Last=it, Count=1)
        d.objects[it.n] = D(Title=pdfgen.Str(b"one"), Parent=ol, Dest=[Ref(5), N("Fit")])
        d.objects[1][b"Outlines"] = ol
        src = os.path.join(wd, "linsrc%d.pdf" % npg)
        open(src, "wb").write(pdfgen.write_classic(d)[0])
        for cfg in ([], ["--object-streams=generate"]):
            lo = os.path.join(wd, "lin%d_%d.pdf" % (npg, len(cfg)))
            rc, so, se = common.run_qpdf(["--static-id", "--linearize"] + cfg + [src, lo])
            if rc == 0:
                ldocs.append(open(lo, "rb").read())
    lin_inputs = []
    vals = [b"-1", b"-16", b"-2147483648", b"-4294967296", b"-1099511627776", b"0", b"1", b"2147483647", b"4294967295", b"4294967296", b"99999999999"]
    for data in ldocs:
        head = data[:1200]
        # numbers after /L /H[a b] /O /E /N /T in the parameter dictionary and after /S /O /Length in the hint stream dictionary
        spots = [(m.start(1), m.end(1)) for m in re.finditer(rb"/(?:L|O|E|N|T|S|Length) (\d+)", data[:3000])]
        spots += [(m.start(g), m.end(g)) for m in re.finditer(rb"/H \[ ?(\d+) (\d+) ?\]", head) for g in (1, 2)]
        for a, b in spots:
            for v in (vals if not quick else rng.sample(vals, 5)):
                w = b - a
                # keep the file length: pad with blanks when shorter; when longer, eat following blanks if there are enough
                if len(v) <= w:
                    rep = v + b" " * (w - len(v))
                    lin_inputs.append(data[:a] + rep + data[b:])
                else:
                    extra = len(v) - w
                    if data[b:b + extra + 1].strip() == b"":
                        lin_inputs.append(data[:a] + v + data[b + extra:])
    ljobs = []
    for i, data in enumerate(lin_inputs):
        p = os.path.join(wd, "linmut%d.pdf" % i)
        open(p, "wb").write(data)
        for m in (["--check"], ["--check-linearization"], ["--show-linearization"]):
            ljobs.append((p, m, len(data)))
    lres = common.par_map(runjob, ljobs, workers=14)
    lk = {}
    lnon = set()
    for (p, m, n), (cls, rc, se) in zip(ljobs, lres):
        lk[cls + "/exit%s" % rc] = lk.get(cls + "/exit%s" % rc, 0) + 1
        if rc in (2, 3):
            lnon.add(p)
        if cls != "ok":
            cls2, rc2, se2 = runjob((p, m, n))
            if cls2 != "ok":
                chk.violation({"kind": "property-fails-on-implementation", "why": "qpdf did not end in a documented way on a linearized file with an "
                               "out-of-range parameter: " + cls2, "input": p, "argv": ["qpdf"] + m, "exit": rc2,
                               "stderr_tail": se2.decode("latin-1")[-1200:]}, signature="c04:lin:%s:%s" % (cls2, " ".join(m)))
    chk.count("linearization-parameters-asan", len(ljobs), lnon, samples=[{"input": os.path.basename(ljobs[0][0]), "mode": ljobs[0][1]}] if ljobs else [])
    chk.cov["parts"]["linearization-parameters-asan"]["outcome_classes"] = lk

    phase("linearization-parameters")
    # ---- guard logic: random hostile graphs, real qpdf / driver vs the extracted model of Sys/Guards.v
    diffs, fails = c04guards.run_part(chk, quick)
    phase("guards")
    # ---- qpdf JSON import: hostile JSON documents through createFromJSON / updateFromJSON (in process, exception type) and the
    #      CLI, against the extracted model of the reactor's replaceObject guard and of importJSON's exception translation
    jdiffs, jfails = c04json.run_part(chk, quick, env)
    phase("json-import")
    c04guards.report(chk, diffs + jdiffs, fails + jfails)


def replay(chk, rep):
    import json
    print(json.dumps({k: v for k, v in rep.items() if k != "input_hex"}, indent=1)[:3000])
    if rep.get("input") and rep.get("input_hex") and not os.path.exists(rep["input"]):
        os.makedirs(os.path.dirname(rep["input"]), exist_ok=True)
        with open(rep["input"], "wb") as f:
            f.write(bytes.fromhex(rep["input_hex"]))
    # a recorded JSON import case: the same text through createFromJSON / updateFromJSON in process (exception type) once more
    if rep.get("case_kind") == "json" and rep.get("input") and os.path.exists(rep["input"]) and rep["input"].endswith(".json"):
        mode = "u" if ("mode u" in (rep.get("why") or "") or "--update-from-json" in " ".join(rep.get("argv") or [])) else "c"
        line = "c4json %s %s%s" % (mode, open(rep["input"], "rb").read().hex() or "-", " " + c04json.base_pdf().hex() if mode == "u" else "")
        print("replayed (%s): %s" % ("updateFromJSON on the two-page base document" if mode == "u" else "createFromJSON",
                                     c04guards._drv(common.build_drv(), [line], 60)))
        return 0
    # a recorded guard-part case: run the same command again on the recorded input, with the same caps
    if rep.get("part") == "guards" and rep.get("input") and rep.get("argv") and os.path.exists(rep["input"]):
        rc, so, se, cpu, rss, wall = c04guards.run_qpdf_capped(common.QPDF, rep["argv"][1:], rep["input"])
        size = os.path.getsize(rep["input"])
        print("replayed: exit=%s cpu=%.2fs rss=%dkB wall=%.1fs input=%d bytes (budget %.2f s, %d kB)" % (
            rc, cpu, rss, wall, size, c04guards.CPU_BUDGET[0] + c04guards.CPU_BUDGET[1] * size, c04guards.RSS_BUDGET[0] + c04guards.RSS_BUDGET[1] * size))
        print(se[-1500:].decode("latin-1"))
    return 0
