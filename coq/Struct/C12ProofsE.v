(* C12 (extension) - proofs, part E: page-list level of handlePageSpecs (Struct/PageSel.v): the output page list is
   exactly the selected sequence, no page object occupies two positions, an unselected page of the primary is absent. *)
From QV Require Import Base.Bytes Struct.PageOps Struct.PageSel.
From Coq Require Import List Arith Bool Lia.
Import ListNotations.

Lemma ps_pg_eqb_refl : forall p, ps_pg_eqb p p = true.
Proof. intros [f i|f i n]; cbn; rewrite ?Nat.eqb_refl; reflexivity. Qed.

Lemma ps_remove_all : forall l, fold_left (fun out p => ps_remove p out) l l = [].
Proof.
  induction l as [|x l IH]; cbn [fold_left ps_remove]; [reflexivity|]. rewrite ps_pg_eqb_refl. exact IH.
Qed.

Lemma ps_key_eqb_spec : forall a b, ps_key_eqb a b = true <-> a = b.
Proof.
  intros [a1 a2] [b1 b2]. unfold ps_key_eqb. cbn. rewrite andb_true_iff, !Nat.eqb_eq. split; [intros [-> ->]; reflexivity | intros H; injection H; auto].
Qed.

Definition ps_inv (st : ps_st) : Prop :=
  NoDup (ps_rout st) /\
  (forall f i n, In (PsCopy f i n) (ps_rout st) -> n < ps_fresh st) /\
  (forall f i, In (PsOrig f i) (ps_rout st) -> In (f, i) (ps_copied st)).

Lemma ps_add_inv : forall st p, ps_inv st -> ps_inv (ps_add st p) /\ map ps_src (ps_rout (ps_add st p)) = p :: map ps_src (ps_rout st).
Proof.
  intros st [f i] (Hnd & Hc & Ho). unfold ps_add. cbn [fst snd].
  destruct (existsb (ps_key_eqb (f, i)) (ps_copied st)) eqn:E; cbn [ps_rout ps_copied ps_fresh map ps_src]; (split; [|reflexivity]).
  - split; [|split].
    + constructor; [|assumption]. intros Hin. apply Hc in Hin. exact (Nat.lt_irrefl _ Hin).
    + intros g j n [H|H]; [injection H as <- <- <-; apply Nat.lt_succ_diag_r | apply Hc in H; apply Nat.lt_lt_succ_r; exact H].
    + intros g j [H|H]; [discriminate | auto].
  - split; [|split].
    + constructor; [|assumption]. intros Hin. apply Ho in Hin.
      assert (existsb (ps_key_eqb (f, i)) (ps_copied st) = true); [|congruence].
      apply existsb_exists. exists (f, i). split; [assumption | apply ps_key_eqb_spec; reflexivity].
    + intros g j n [H|H]; [discriminate | eauto].
    + intros g j [H|H]; [injection H as <- <-; left; reflexivity | right; auto].
Qed.

Lemma ps_fold_inv : forall order st, ps_inv st ->
  ps_inv (fold_left ps_add order st) /\
  map ps_src (ps_rout (fold_left ps_add order st)) = rev order ++ map ps_src (ps_rout st).
Proof.
  induction order as [|p order IH]; intros st Hinv; cbn [fold_left]; [split; [assumption | reflexivity]|].
  destruct (ps_add_inv st p Hinv) as [Hinv' Hsrc]. destruct (IH _ Hinv') as [A B]. split; [exact A|].
  rewrite B, Hsrc. cbn [rev]. rewrite <- app_assoc. reflexivity.
Qed.

Lemma ps_handle_facts : forall n0 sels cs,
  map ps_src (ps_handle n0 sels cs) = ps_order sels cs /\ NoDup (ps_handle n0 sels cs).
Proof.
  intros. unfold ps_handle. rewrite ps_remove_all. change (rev' (@nil ps_pg)) with (@nil ps_pg).
  assert (Hinv : ps_inv (PsSt [] [] 0)).
  { split; [constructor|]. split; intros; cbn in *; contradiction. }
  destruct (ps_fold_inv (ps_order sels cs) _ Hinv) as [(Hnd & _) Hsrc]. cbn [ps_rout map] in Hsrc. rewrite app_nil_r in Hsrc.
  rewrite rev'_rev. split.
  - rewrite map_rev, Hsrc, rev_involutive. reflexivity.
  - apply NoDup_rev. exact Hnd.
Qed.

(* the source pages of the output list, in order, are exactly the selected sequence (concatenated, or collated) *)
Lemma ps_sequence_lemma : forall n0 sels cs, map ps_src (ps_handle n0 sels cs) = ps_order sels cs.
Proof. intros. apply ps_handle_facts. Qed.

(* no page object occupies two positions of the output, however often a page was selected *)
Lemma ps_no_page_twice_lemma : forall n0 sels cs, NoDup (ps_handle n0 sels cs).
Proof. intros. apply ps_handle_facts. Qed.

(* a page of the primary (or of any input) that was not selected is not in the output, neither itself nor as a copy *)
Lemma ps_unselected_absent_lemma : forall n0 sels cs f i,
  ~ In (f, i) (ps_order sels cs) -> forall p, In p (ps_handle n0 sels cs) -> ps_src p <> (f, i).
Proof.
  intros n0 sels cs f i Hn p Hin E. apply Hn. rewrite <- ps_sequence_lemma with (n0 := n0). rewrite <- E. apply in_map. exact Hin.
Qed.

(* without collation the order is the concatenation of the selections; with it, the round-robin of the manual *)
Lemma ps_order_plain_lemma : forall sels, ps_order sels [] = concat (map (fun s => map (pair (fst s)) (snd s)) sels).
Proof. intros. unfold ps_order. cbn. reflexivity. Qed.
