# C01 - rewriting preserves document content in every output mode.
# Proof: Props/Properties_C01.v (object queue: every reachable object written exactly once, new numbers a
# bijection assigned in first-encounter order; printers vs the lexical specification come from the Lex layer).
# Oracle: outputs of the real qpdf are read by the extracted STRICT reader and compared (graph isomorphism up to
# the writer-owned details, decoded stream bytes) with the generator's ground truth / the strictly-read input.
# Tie: the renumbering observed in real outputs must equal the extracted queue model's.
import os
import common, filecheck, pdfgen, dociso, wmodel
from pdfgen import Name, Ref, Str, Real, Stream

ASSUMPTIONS = [
    "stream data is decoded for comparison by harness-side Python decoders (zlib for Flate; LZW, ASCII85, ASCIIHex, RunLength, PNG/TIFF predictors re-implemented in harness/dociso.py); DCT/JPX/CCITT/JBIG2 data is compared raw",
    "strings and stream data of ENCRYPTED outputs are compared structurally only in this check (the reference decryptor belongs to C05)",
    "page content streams rewritten by --qdf/--normalize-content/--coalesce-contents are compared by C16, not here",
    "corpus inputs serve as ground truth only when the strict reader accepts them; otherwise they are skipped (counted)",
    "container model (Obj/C01Container.v): zlib is a hypothesis of the round-trip theorem and File/Inflate.v in the extracted instance; data handed to a Flate stage is a complete zlib stream; DCT at decode level all, user-registered filters and the max-stream-filters / Pl_Flate memory limits are outside the model",
]

CONT_CONFIGS = [["--object-streams=generate"], ["--object-streams=preserve", "--stream-data=uncompress"], ["--qdf"], ["--qdf", "--object-streams=preserve"],
                ["--linearize"], ["--linearize", "--object-streams=generate"], ["--decode-level=none", "--compress-streams=n"],
                ["--decode-level=specialized", "--recompress-flate"], ["--stream-data=preserve", "--newline-before-endstream", "--preserve-unreferenced"],
                ["--min-version=1.7", "--object-streams=preserve"], ["--decode-level=all", "--object-streams=generate"],
                ["--encrypt", "--user-password=u", "--owner-password=o", "--bits=256", "--"]]

CONTENT_REWRITING = ("--qdf", "--normalize-content=y", "--coalesce-contents")


def print_children(objs, v, out):
    """indirect references in print order (impl::Writer::enqueue on a direct object / unparseChild)"""
    if isinstance(v, Ref):
        out.append(v)
    elif isinstance(v, list):
        for x in v:
            print_children(objs, x, out)
    elif isinstance(v, dict):
        for k in sorted(v):
            x = v[k]
            if x is None or (isinstance(x, Ref) and objs.get((x.n, x.g)) is None):
                continue        # null values are not written (a reference to a null/absent object is null)
            print_children(objs, x, out)
    elif isinstance(v, Stream):
        drop = (b"Length",) if getattr(v, "_keep_params", True) else (b"Length", b"Filter", b"DecodeParms")
        d = {k: x for k, x in v.d.items() if k not in drop}
        print_children(objs, d, out)


def invalid_decode_parms(objs):
    """does the document hold a stream whose decode parameters are outside the ranges of ISO 32000-1 7.4.4.4 (the shared generator
    makes such streams on purpose: they cannot be decoded and must be carried over unchanged)?  Such a file is not a valid input in
    the sense of 'a valid input is never refused': a warning about that stream is legitimate"""
    def bad(pm):
        pm = dociso.resolve(objs, pm)
        if isinstance(pm, list):
            return any(bad(x) for x in pm)
        if not isinstance(pm, dict):
            return False
        g = lambda k, d: dociso.resolve(objs, pm.get(k)) if pm.get(k) is not None else d
        pr, co, cl, bp = g(b"Predictor", 1), g(b"Columns", 1), g(b"Colors", 1), g(b"BitsPerComponent", 8)
        return not (pr in (1, 2) or (isinstance(pr, int) and 10 <= pr <= 15)) or not (isinstance(co, int) and co >= 1) \
            or not (isinstance(cl, int) and cl >= 1) or bp not in (1, 2, 4, 8, 16)
    return any(isinstance(v, Stream) and bad(v.d.get(b"DecodeParms")) for v in objs.values())


def has_ref(v):
    if isinstance(v, Ref):
        return True
    if isinstance(v, list):
        return any(has_ref(x) for x in v)
    if isinstance(v, dict):
        return any(has_ref(x) for x in v.values())
    return False


def pair_refs(va, vb, A, B, out, depth=0):
    """stream parameters are not visited by the isomorphism (the writer owns them); where the writer kept them, pair the
    indirect objects behind them positionally so that the renumbering tie covers them too"""
    if depth > 20:
        return
    if isinstance(va, Ref) and isinstance(vb, Ref):
        if (va.n, va.g) in out:
            return
        out[(va.n, va.g)] = (vb.n, vb.g)
        pair_refs(A.get((va.n, va.g)), B.get((vb.n, vb.g)), A, B, out, depth + 1)
    elif isinstance(va, list) and isinstance(vb, list):
        for x, y in zip(va, vb):
            pair_refs(x, y, A, B, out, depth + 1)
    elif isinstance(va, dict) and isinstance(vb, dict):
        for k in va:
            if k in vb:
                pair_refs(va[k], vb[k], A, B, out, depth + 1)


def queue_case(objs, trailer, B=None, a2b=None):
    """B, a2b: the real output and the isomorphism found; a stream that the writer re-filtered has new /Filter /DecodeParms, so
    indirect objects behind the old ones are not written (unparseObject): whether that happened is read off the output"""
    if B is not None:
        objs = dict(objs)
        for key, v in list(objs.items()):
            if isinstance(v, Stream) and (has_ref(v.d.get(b"Filter")) or has_ref(v.d.get(b"DecodeParms"))):
                w = B.get(a2b.get(key)) if a2b.get(key) is not None else None
                kept = isinstance(w, Stream) and (has_ref(w.d.get(b"Filter")) or has_ref(w.d.get(b"DecodeParms")))
                v2 = Stream(dict(v.d), v.data)
                v2._keep_params = kept
                if kept:
                    for pk in (b"Filter", b"DecodeParms"):
                        pair_refs(v.d.get(pk), w.d.get(pk), objs, B, a2b)
                objs[key] = v2
    roots = []
    r = trailer.get(b"Root")
    if isinstance(r, Ref):
        roots.append(r)
    rest = {k: v for k, v in trailer.items() if k not in dociso.TRAILER_OWNED and k != b"Root"}
    print_children(objs, rest, roots)
    ids = {}
    def idof(ref):
        return ids.setdefault((ref.n, ref.g), len(ids) + 1)
    graph = {}
    todo = list(roots)
    seen = set()
    while todo:
        x = todo.pop()
        key = (x.n, x.g)
        if key in seen:
            continue
        seen.add(key)
        cs = []
        print_children(objs, objs.get(key), cs)
        graph[idof(x)] = [idof(c) for c in cs]
        todo.extend(cs)
    g = ";".join("%d:%s" % (k, ",".join(map(str, v))) for k, v in graph.items()) or "-"
    return "queue %s %s" % (g, ",".join(str(idof(x)) for x in roots)), ids


def run(chk):
    rng = chk.rng
    quick = chk.tier == "quick"
    runner = os.path.join(common.EXTRACT, "model_runner")
    wd = common.workdir("C01")
    chk.cov["rule"] = ("(input, writer configuration): generated documents with ground truth (every scalar kind, odd strings/names, shared and cyclic "
                       "references, null entries, dangling references, plain and Flate streams), documents whose object streams and xref stream are stored "
                       "through every decodable filter chain (valid by construction: exit 3 counts as refusal), and strictly-readable repository corpus files x the "
                       "writer-option lattice sample; output read by the extracted strict reader and compared with the ground truth by graph isomorphism; "
                       "non-trivial = completed write whose isomorphism visited >= 5 indirect objects, distinct by (input, configuration)")
    inputs = []
    for name, data, doc in filecheck.gen_docs(rng, 8 if quick else 60):
        p = os.path.join(wd, name + ".pdf")
        open(p, "wb").write(data)
        A = {(n, 0): v for n, v in doc.objects.items()}
        inputs.append((name, p, "generated", A, dict(doc.trailer)))
    # encrypted inputs with known plaintext: generated documents encrypted by qpdf itself (that encryption is C05's business),
    # then decrypted / kept / re-laid-out by the run under test
    encsets = [["--encrypt", "--user-password=u", "--owner-password=o", "--bits=256", "--"],
               ["--allow-weak-crypto", "--encrypt", "--user-password=u", "--owner-password=o", "--bits=128", "--use-aes=y", "--"],
               ["--allow-weak-crypto", "--encrypt", "--user-password=u", "--owner-password=o", "--bits=128", "--use-aes=n", "--", "--object-streams=generate"],
               ["--allow-weak-crypto", "--encrypt", "--user-password=u", "--owner-password=o", "--bits=40", "--"]]
    for ei, (name, p0, kind0, A0, Atr0) in enumerate([i for i in inputs if i[2] == "generated"][: (3 if quick else 24)]):
        es = encsets[ei % len(encsets)]
        pe = os.path.join(wd, "enc%d.pdf" % ei)
        rc, se = filecheck.run_write(p0, es, pe)
        if rc == 0:
            inputs.append(("enc%d" % ei, pe, "generated-encrypted", A0, Atr0))
    # more than 100 intermediate /Pages nodes that each carry direct inheritable attributes: linearizing makes every one of
    # them an indirect object while pushing it down, i.e. more new objects than the writer's tables were sized for
    def many_nodes(K):
        d = pdfgen.Doc()
        cat, pages = d.add(None), d.add(None)
        font = d.add(pdfgen.D(Type=pdfgen.N("Font"), Subtype=pdfgen.N("Type1"), BaseFont=pdfgen.N("Helvetica")))
        kids = []
        for k in range(K):
            node = d.add(None)
            cs = d.add(Stream({}, b"BT /F1 12 Tf 72 720 Td (N%d) Tj ET\n" % k))
            pg = d.add(pdfgen.D(Type=pdfgen.N("Page"), Parent=node, Contents=cs, Resources=pdfgen.D(Font=pdfgen.D(F1=font))))
            d.objects[node.n] = pdfgen.D(Type=pdfgen.N("Pages"), Parent=pages, Count=1, Kids=[pg], MediaBox=[0, 0, 300 + k, 400], Rotate=90 * (k % 4))
            kids.append(node)
        d.objects[2] = pdfgen.D(Type=pdfgen.N("Pages"), Count=K, Kids=kids)
        d.objects[1] = pdfgen.D(Type=pdfgen.N("Catalog"), Pages=pages)
        d.trailer = {b"Root": cat}
        return d
    for K in ([130] if quick else [99, 101, 130, 300]):
        doc = many_nodes(K)
        p = os.path.join(wd, "manynodes%d.pdf" % K)
        open(p, "wb").write(pdfgen.write_classic(doc)[0])
        inputs.append(("manynodes%d" % K, p, "generated-many-nodes", {(n, 0): v for n, v in doc.objects.items()}, dict(doc.trailer)))
    # the same kind of documents in every input file FORM (C03's file-structure generator, which carries its own ground truth):
    # classic tables with subsections, xref streams with predictors and filter chains, object streams, hybrid files, incremental
    # updates with replaced / freed / re-used numbers at non-zero generations, junk before the header, odd white space
    import c03files
    for i in range(6 if quick else 80):
        g = c03files.Gen(rng, rng.choice([0.0, 0.3, 0.7, 1.0]))
        data, live, freed, meta = g.build(i)
        if meta["form"] == "hybrid-free":
            continue            # known finding D15 class is C03's business
        p = os.path.join(wd, "form%d.pdf" % i)
        open(p, "wb").write(data)
        A = {(n, gv[0]): gv[1] for n, gv in live.items()}
        inputs.append(("form%d-%s" % (i, meta["form"]), p, "generated-file-form", A, {b"Root": Ref(1)}))
    # object streams and the cross-reference stream stored through every decodable filter and chain (Flate/LZW with every
    # predictor, both EarlyChange values, ASCII85, ASCIIHex, RunLength): 7.5.7/7.5.8 allow any filter on them
    import c01cont
    cont_meta = {}
    for name, data, A, tr, meta in c01cont.gen_inputs(rng, 4 if quick else 150):
        p = os.path.join(wd, name + ".pdf")
        open(p, "wb").write(data)
        cont_meta[name] = meta
        inputs.append((name, p, "generated-container-filters", A, tr))
    cf = [f for f in filecheck.corpus_files() if os.path.getsize(f) <= 60000]
    sel = rng.sample(cf, 40 if quick else min(len(cf), 450))
    # (fewer than 64 files would be read by one runner process: read them in four)
    parts = [sel[i::4] for i in range(4)]
    srp = common.par_map(filecheck.strict_read, parts, workers=4)
    sr = [None] * len(sel)
    for k, rs in enumerate(srp):
        sr[k::4] = rs
    skipped = 0
    # a corpus file is an input with ground truth only if qpdf itself reads it cleanly (qpdf --check exit 0): files that
    # qpdf repairs (exit 3) legitimately change, files it rejects are not "PDF that qpdf accepts"
    clean = common.par_map(lambda f: common.run_qpdf(["--check", f])[0] == 0, sel)
    for f, r, ok in zip(sel, sr, clean):
        if r["ok"] and ok:
            sd = filecheck.StrictDoc(r, f)
            if b"Encrypt" in sd.trailer:
                skipped += 1
                continue
            inputs.append((os.path.basename(f), f, "corpus", sd.objs, sd.trailer))
        else:
            skipped += 1
    cfgs = filecheck.CONFIGS_QUICK
    jobs = []
    for inp in inputs:
        use = cfgs if (inp[2] == "generated" or not quick) else rng.sample(cfgs, 5 if inp[2] == "corpus" else 10)
        if inp[2] == "generated-encrypted":
            use = [["--password=u", "--decrypt"], ["--password=o", "--decrypt", "--object-streams=generate"], ["--password=u", "--decrypt", "--linearize"],
                   ["--password=u", "--decrypt", "--qdf"], ["--password=u"], ["--password=u", "--linearize", "--object-streams=generate"]]
        if inp[2] == "generated-many-nodes":
            use = [["--linearize", "--object-streams=generate"], ["--linearize"], ["--object-streams=generate"],
                   ["--linearize", "--object-streams=generate", "--compress-streams=n"]]
        if inp[2] == "generated-container-filters":
            # the reader side decides here, independently of the writer options: the default write, one mode that regenerates
            # object streams, one that dissolves them, and random points of the lattice
            use = [rng.choice([[], ["--object-streams=disable", "--decode-level=none"]])] + rng.sample(CONT_CONFIGS, 1 if quick else 6)
            if not quick:
                use += [[], ["--object-streams=disable", "--decode-level=none"]]
        for cfg in use:
            jobs.append((inp, cfg))

    def runjob(i):
        inp, cfg = jobs[i]
        out = os.path.join(wd, "out%d.pdf" % i)
        rc, se = filecheck.run_write(inp[1], cfg, out)
        return rc, se, out
    res = common.par_map(runjob, range(len(jobs)))
    done = []
    warned = {}
    for i, (rc, se, out) in enumerate(res):
        inp, cfg = jobs[i]
        if rc not in (0, 3):
            if inp[2] == "generated" or rc != 2 or not (b"password" in se or b"no pages found" in se):
                # (a corpus file without any page is not a valid document: --linearize documents its refusal)
                chk.violation({"kind": "property-fails-on-implementation", "why": "a readable input was refused in a content-preserving mode",
                               "input": inp[1], "input_kind": inp[2], "input_form": cont_meta.get(inp[0]), "argv": ["qpdf", "--static-id"] + cfg,
                               "exit": rc, "stderr": se.decode("latin-1")[-300:]},
                              signature="refused:%s" % inp[0])
            continue
        if os.path.getsize(out) <= 150000:
            done.append((i, rc, out))
            warned[i] = se
    srs = filecheck.strict_read([o for _, _, o in done])
    nontriv = set()
    qlines, qmeta = [], []
    for (i, rc, out), r in zip(done, srs):
        inp, cfg = jobs[i]
        name, p, kind, A, Atr = inp
        case = {"input": p, "input_kind": kind, "argv": ["qpdf", "--static-id", "--static-aes-iv"] + cfg + [p, "out.pdf"], "qpdf_exit": rc}
        if name in cont_meta:
            case["input_form"] = cont_meta[name]
        if rc == 3:
            case["stderr"] = warned[i].decode("latin-1")[:400]
        if not r["ok"]:
            chk.violation(dict(case, kind="property-fails-on-implementation", why="output cannot be read strictly (see C02): " + filecheck.ERR.get(r["code"], "?"),
                               strict_reader=r), signature="strict:%s" % r["code"])
            continue
        sd = filecheck.StrictDoc(r, out)
        B, Btr = sd.objs, sd.trailer
        A2, B2 = A, B
        if "--linearize" in cfg:
            A2 = dociso.push_down(A, Atr)
            B2 = dociso.push_down(B, Btr)
        skipB = dociso.page_content_streams(B2, Btr) if any(c in cfg for c in CONTENT_REWRITING) else ()
        if "--coalesce-contents" in cfg:
            # a page's /Contents array becomes one stream (C16 judges the token sequence): compare pages without /Contents
            def strip(objs):
                return {k: ({kk: vv for kk, vv in v.items() if kk != b"Contents"} if isinstance(v, dict) and v.get(b"Type") == Name(b"Page") else v)
                        for k, v in objs.items()}
            A2, B2 = strip(A2), strip(B2)
        encrypted = b"Encrypt" in Btr
        try:
            a2b = dociso.iso(A2, Atr, B2, Btr, skip_content_of_B=skipB, strings_opaque=encrypted)
        except dociso.Mismatch as e:
            chk.violation(dict(case, kind="property-fails-on-implementation", why="document content changed: " + str(e)[:600]),
                          signature="iso:%s" % str(e)[:30])
            continue
        except RecursionError:
            continue
        if rc == 3 and kind.startswith("generated") and not invalid_decode_parms(A):
            # "a valid input is never refused": the generated inputs are valid by construction (ground truth known, every container
            # decodes with the reference decoders), so warnings + exit status 3 report a valid file as damaged
            w = warned[i].decode("latin-1")
            cls = "".join(ch for ch in w.split("WARNING:")[-1].split(":")[-1] if not ch.isdigit()).strip()[:40] if "WARNING:" in w else "?"
            chk.violation(dict(case, kind="property-fails-on-implementation", why="a valid input was reported as damaged (warnings, exit status 3) "
                               "although the output holds the same document"), signature="warned:%s" % cls)
            continue
        if len(a2b) >= 5:
            nontriv.add((name, filecheck.config_name(cfg)))
        # renumbering tie: plain modes only (no object streams, not linearized, not qdf: numbers are first-encounter order)
        # (documents with developer extensions are outside the queue/writer models: the writer rewrites /Extensions /ADBE and its
        #  directness; they are judged by the isomorphism oracle only)
        if "--object-streams=disable" in cfg and "--linearize" not in cfg and "--qdf" not in cfg and kind == "generated" \
                and b"Extensions" not in (A.get((1, 0)) or {}):
            line, ids = queue_case(A, Atr, B, a2b)
            qlines.append(line)
            qmeta.append((case, ids, a2b))
    qres = common.run_lines(runner, qlines)
    tie = []
    for (case, ids, a2b), o in zip(qmeta, qres):
        try:
            pairs = dict((int(x.split("=")[0]), int(x.split("=")[1])) for x in o.split(" ")[1].split(",") if x)
        except Exception:
            tie.append(dict(case, model_output=o[:200]))
            continue
        inv = {v: k for k, v in ids.items()}
        model_map = {inv[i]: num for i, num in pairs.items()}
        real_map = {k: v[0] for k, v in a2b.items()}
        if model_map != real_map:
            diff = [(k, model_map.get(k), real_map.get(k)) for k in sorted(set(model_map) | set(real_map)) if model_map.get(k) != real_map.get(k)]
            tie.append(dict(case, renumbering_differs=diff[:8]))
    if tie:
        chk.violation({"kind": "correspondence-broken", "correspondence": "corr:C01:queue-renumbering", "differing_cases": len(tie), "first_cases": tie[:3],
                       "note": "the new object numbers in the real output are not the first-encounter order the queue model predicts, while the output is still an isomorphic document"},
                      no_input=True)
    chk.count("rewrite-iso", len(done), nontriv, samples=[{"input": os.path.basename(jobs[i][0][1]), "config": filecheck.config_name(jobs[i][1])} for i, _, _ in done[:3]])
    chk.cov["parts"]["rewrite-iso"]["corpus_inputs_skipped_not_strict_or_encrypted"] = skipped
    chk.cov["parts"]["rewrite-iso"]["writes_attempted"] = len(jobs)
    chk.count("queue-renumbering", len(qlines), set(qlines), samples=[{"case": qlines[0][:200]}] if qlines else [])

    # ---- byte-exact correspondence of the extracted plain writer model with the real qpdf
    bx = []
    for name, data, doc in filecheck.gen_docs(rng, 24 if quick else 300):
        if b"Extensions" in doc.objects[1]:
            continue                 # outside the writer model's domain (see above)
        p = os.path.join(wd, "bx_" + name + ".pdf")
        open(p, "wb").write(data)
        wmodel.describe(doc, p + ".doc", b"0123456789abcdef" if b"/ID" in data else None)
        bx.append((name, p))
    mres = common.run_lines(runner, ["write_docf %s %s" % (p + ".doc", p + ".model") for _, p in bx])

    def real(t):
        name, p = t
        rc, se = filecheck.run_write(p, ["--object-streams=disable", "--compress-streams=n", "--decode-level=none"], p + ".real", extra=("--static-id",))
        return rc
    rcs = common.par_map(real, bx)
    bdiff = []
    for (name, p), mo, rc in zip(bx, mres, rcs):
        if rc != 0 or not mo.startswith("ok"):
            bdiff.append({"input": p, "qpdf_exit": rc, "model": mo[:100]})
            continue
        a, b = open(p + ".model", "rb").read(), open(p + ".real", "rb").read()
        if a != b:
            i = next((i for i, (x, y) in enumerate(zip(a, b)) if x != y), min(len(a), len(b)))
            bdiff.append({"input": p, "first_difference_at": i, "model": a[max(0, i - 40):i + 40].hex(), "implementation": b[max(0, i - 40):i + 40].hex()})
    if bdiff:
        chk.violation({"kind": "correspondence-broken", "correspondence": "corr:C01:byte-exact-plain-writer", "differing_cases": len(bdiff),
                       "first_cases": bdiff[:3], "note": "qpdf --static-id --object-streams=disable --compress-streams=n --decode-level=none differs byte-wise "
                       "from the extracted writer model while the strict-reader oracle found the outputs equivalent to their inputs"}, no_input=True)
    chk.count("byte-exact-writer-model", len(bx), set(n for n, _ in bx), samples=[{"input": bx[0][1]}])
    # non-vacuity of the capstone theorem on the tied inputs: how many of these documents satisfy wf_doc_b, the decidable
    # hypothesis of write_read_strict_b (for those, "read_strict accepts qpdf's output and returns the document" is a theorem
    # as soon as qpdf's bytes equal the model's)
    nwf = sum(1 for mo in mres if mo.endswith(" wf"))
    chk.cov["parts"]["byte-exact-writer-model"]["documents_satisfying_wf_doc_b"] = nwf
    chk.cov["parts"]["byte-exact-writer-model"]["documents_not_wf_doc_b"] = len(mres) - nwf


    # ---- container streams: extracted model of getStreamData / the readers' decode level vs the real library (in process)
    import c01contmodel
    c01contmodel.run_part(chk, rng, quick, runner, wd)


def replay(chk, rep):
    import json
    print(json.dumps(rep, indent=1)[:3000])
    return 0
