(* C18 proofs, part 5: the specification's map really is an ordinary sorted map (laws of
   insert / remove / lookup), for every key type with a strict total order. *)
From Coq Require Import Sorting.Sorted.
From QV Require Import Base.Bytes Struct.NNTreeModel Struct.NNTreeSpec.
Local Open Scope Z_scope.

Section MapLaws.
  Variable K : Type.
  Variable kcmp : K -> K -> comparison.
  Hypothesis kcmp_antisym : forall a b, kcmp b a = CompOpp (kcmp a b).
  Hypothesis kcmp_trans : forall a b c, kcmp a b = Lt -> kcmp b c = Lt -> kcmp a c = Lt.
  Hypothesis kcmp_eq : forall a b, kcmp a b = Eq -> a = b.

  Notation lt := (k_lt K kcmp).
  Notation eq := (k_eq K kcmp).

  Lemma kc_refl : forall a, kcmp a a = Eq.
  Proof. intros a. pose proof (kcmp_antisym a a). destruct (kcmp a a); simpl in *; congruence. Qed.
  Lemma lt_irrefl : forall a, lt a a = false.
  Proof. intros a. unfold k_lt. rewrite kc_refl. reflexivity. Qed.
  Lemma eq_refl' : forall a, eq a a = true.
  Proof. intros a. unfold k_eq. rewrite kc_refl. reflexivity. Qed.
  Lemma eq_true : forall a b, eq a b = true -> a = b.
  Proof. unfold k_eq. intros a b H. apply kcmp_eq. destruct (kcmp a b); congruence. Qed.
  Lemma lt_not_eq : forall a b, lt a b = true -> eq a b = false.
  Proof. unfold k_lt, k_eq. intros a b. destruct (kcmp a b); congruence. Qed.
  Lemma gt_not_eq : forall a b, lt b a = true -> eq a b = false.
  Proof.
    unfold k_lt, k_eq. intros a b. rewrite (kcmp_antisym a b). destruct (kcmp a b); simpl; congruence.
  Qed.
  Lemma total : forall a b, eq a b = false -> lt a b = true \/ lt b a = true.
  Proof.
    unfold k_lt, k_eq. intros a b. rewrite (kcmp_antisym a b). destruct (kcmp a b); simpl; auto; congruence.
  Qed.

  Lemma filter_app_hd {A} (p : A -> bool) l1 l2 :
    filter p l1 = [] -> hd_error (filter p (l1 ++ l2)) = hd_error (filter p l2).
  Proof. intros H. rewrite filter_app, H. reflexivity. Qed.

  Lemma filter_filter_none {A} (p q : A -> bool) l :
    (forall x, q x = true -> p x = false) -> filter p (filter q l) = [].
  Proof.
    intros H. induction l as [|x l IH]; simpl; [reflexivity|].
    destruct (q x) eqn:Eq; simpl; [rewrite (H x Eq)|]; exact IH.
  Qed.
  Lemma filter_filter_all {A} (p q : A -> bool) l :
    (forall x, p x = true -> q x = true) -> filter p (filter q l) = filter p l.
  Proof.
    intros H. induction l as [|x l IH]; simpl; [reflexivity|].
    destruct (q x) eqn:Eq; simpl.
    - destruct (p x); [f_equal|]; exact IH.
    - destruct (p x) eqn:Ep; [rewrite (H x Ep) in Eq; discriminate|exact IH].
  Qed.

  (* lookup after insert: the inserted entry at its key ... *)
  Theorem sm_at_insert_same : forall k v m, sm_at K kcmp k (sm_insert K kcmp k v m) = Some (k, v).
  Proof.
    intros k v m. unfold sm_at, sm_insert, sm_below.
    rewrite filter_app_hd.
    - simpl. rewrite eq_refl'. reflexivity.
    - apply filter_filter_none. intros e He. apply lt_not_eq. exact He.
  Qed.

  (* ... and every other key untouched *)
  Theorem sm_at_insert_other : forall k k' v m, k' <> k ->
    sm_at K kcmp k' (sm_insert K kcmp k v m) = sm_at K kcmp k' m.
  Proof.
    intros k k' v m Hne. unfold sm_at, sm_insert, sm_below, sm_above.
    assert (Hek : eq k k' = false).
    { destruct (eq k k') eqn:E; [|reflexivity]. apply eq_true in E. congruence. }
    rewrite filter_app. simpl. rewrite Hek.
    destruct (total k k' Hek) as [Hlt|Hgt].
    - (* k < k': entries with key k' are all in the upper part *)
      rewrite filter_filter_none.
      2:{ intros e He. destruct (eq (fst e) k') eqn:E; [|reflexivity].
          apply eq_true in E. rewrite E in He. unfold k_lt in *.
          rewrite (kcmp_antisym k k') in He. destruct (kcmp k k'); simpl in *; congruence. }
      simpl. rewrite filter_filter_all; [reflexivity|].
      intros e He. apply eq_true in He. rewrite He. exact Hlt.
    - rewrite filter_filter_all.
      2:{ intros e He. apply eq_true in He. rewrite He. exact Hgt. }
      rewrite (filter_filter_none (fun e => eq (fst e) k') (fun e => lt k (fst e))).
      + rewrite app_nil_r. reflexivity.
      + intros e He. destruct (eq (fst e) k') eqn:E; [|reflexivity].
        apply eq_true in E. rewrite E in He. unfold k_lt in *.
        rewrite (kcmp_antisym k' k) in He. destruct (kcmp k' k); simpl in *; congruence.
  Qed.

  Theorem sm_at_remove_same : forall k m, sm_at K kcmp k (sm_remove K kcmp k m) = None.
  Proof.
    intros k m. unfold sm_at, sm_remove, sm_below, sm_above. rewrite filter_app.
    rewrite !filter_filter_none; [reflexivity| |].
    - intros e He. apply gt_not_eq. exact He.
    - intros e He. apply lt_not_eq. exact He.
  Qed.

  Theorem sm_at_remove_other : forall k k' m, k' <> k ->
    sm_at K kcmp k' (sm_remove K kcmp k m) = sm_at K kcmp k' m.
  Proof.
    intros k k' m Hne. unfold sm_at, sm_remove, sm_below, sm_above.
    assert (Hek : eq k k' = false).
    { destruct (eq k k') eqn:E; [|reflexivity]. apply eq_true in E. congruence. }
    rewrite filter_app.
    destruct (total k k' Hek) as [Hlt|Hgt].
    - rewrite filter_filter_none.
      2:{ intros e He. destruct (eq (fst e) k') eqn:E; [|reflexivity].
          apply eq_true in E. rewrite E in He. unfold k_lt in *.
          rewrite (kcmp_antisym k k') in He. destruct (kcmp k k'); simpl in *; congruence. }
      simpl. rewrite filter_filter_all; [reflexivity|].
      intros e He. apply eq_true in He. rewrite He. exact Hlt.
    - rewrite filter_filter_all.
      2:{ intros e He. apply eq_true in He. rewrite He. exact Hgt. }
      rewrite (filter_filter_none (fun e => eq (fst e) k') (fun e => lt k (fst e))).
      + rewrite app_nil_r. reflexivity.
      + intros e He. destruct (eq (fst e) k') eqn:E; [|reflexivity].
        apply eq_true in E. rewrite E in He. unfold k_lt in *.
        rewrite (kcmp_antisym k' k) in He. destruct (kcmp k' k); simpl in *; congruence.
  Qed.

  (* ---- sortedness is kept *)
  Definition ssorted (m : smap K) : Prop := StronglySorted (fun a b => lt (fst a) (fst b) = true) m.

  Lemma ssorted_filter : forall p m, ssorted m -> ssorted (filter p m).
  Proof.
    intros p m H. induction H as [|x m Hs IH Hall]; simpl; [constructor|].
    destruct (p x); [|exact IH]. constructor; [exact IH|].
    rewrite Forall_forall in *. intros y Hy. apply filter_In in Hy. apply Hall. tauto.
  Qed.

  Lemma ssorted_app : forall m1 x m2, ssorted m1 -> ssorted m2 ->
    Forall (fun a => lt (fst a) (fst x) = true) m1 -> Forall (fun b => lt (fst x) (fst b) = true) m2 ->
    ssorted (m1 ++ x :: m2).
  Proof.
    intros m1 x m2 H1 H2 Hlo Hhi. induction H1 as [|y m1 Hs IH Hall]; simpl.
    - constructor; assumption.
    - inversion Hlo as [|? ? Hy Hlo']; subst. constructor; [apply IH; assumption|].
      rewrite Forall_forall in *. intros z Hz. apply in_app_or in Hz. destruct Hz as [Hz|[<-|Hz]].
      + apply Hall. exact Hz.
      + exact Hy.
      + unfold k_lt in *. specialize (Hhi z Hz).
        destruct (kcmp (fst y) (fst x)) eqn:E1; try discriminate.
        destruct (kcmp (fst x) (fst z)) eqn:E2; try discriminate.
        rewrite (kcmp_trans _ _ _ E1 E2). reflexivity.
  Qed.

  Theorem sm_insert_sorted : forall k v m, ssorted m -> ssorted (sm_insert K kcmp k v m).
  Proof.
    intros k v m H. unfold sm_insert, sm_below, sm_above.
    apply ssorted_app; try (apply ssorted_filter; exact H).
    - rewrite Forall_forall. intros e He. apply filter_In in He. simpl. tauto.
    - rewrite Forall_forall. intros e He. apply filter_In in He. simpl. tauto.
  Qed.

  Lemma ssorted_app2 : forall m1 m2, ssorted m1 -> ssorted m2 ->
    (forall a b, In a m1 -> In b m2 -> lt (fst a) (fst b) = true) -> ssorted (m1 ++ m2).
  Proof.
    intros m1 m2 H1 H2 Hx. induction H1 as [|y m1 Hs IH Hall]; simpl; [exact H2|].
    constructor.
    - apply IH. intros a b Ha Hb. apply Hx; [right; exact Ha|exact Hb].
    - rewrite Forall_forall in *. intros z Hz. apply in_app_or in Hz. destruct Hz as [Hz|Hz].
      + apply Hall. exact Hz.
      + apply Hx; [left; reflexivity|exact Hz].
  Qed.

  Theorem sm_remove_sorted : forall k m, ssorted m -> ssorted (sm_remove K kcmp k m).
  Proof.
    intros k m H. unfold sm_remove, sm_below, sm_above.
    apply ssorted_app2; try (apply ssorted_filter; exact H).
    intros a b Ha Hb. apply filter_In in Ha, Hb. destruct Ha as [_ Ha], Hb as [_ Hb].
    unfold k_lt in *.
    destruct (kcmp (fst a) k) eqn:E1; try discriminate.
    destruct (kcmp k (fst b)) eqn:E2; try discriminate.
    rewrite (kcmp_trans _ _ _ E1 E2). reflexivity.
  Qed.
End MapLaws.

(* C18: the specification map obeys the sorted-map laws (number-tree instance spelled out; the
   section above gives them for every strict total order, nn_scmp included) *)
Ltac zorder := try (intros ? ?; apply Z.compare_antisym); try (intros ? ?; apply Z.compare_eq);
  try (unfold nn_zcmp; intros ? ? ? ? ?; rewrite Z.compare_lt_iff in *; lia); try assumption.

Lemma sm_lookup_after_insert_lemma : forall (k k' v : Z) (m : smap Z),
  sm_at Z nn_zcmp k (sm_insert Z nn_zcmp k v m) = Some (k, v) /\
  (k' <> k -> sm_at Z nn_zcmp k' (sm_insert Z nn_zcmp k v m) = sm_at Z nn_zcmp k' m).
Proof.
  intros k k' v m. split.
  - apply sm_at_insert_same; zorder.
  - intros H. apply sm_at_insert_other; zorder.
Qed.

Lemma sm_lookup_after_remove_lemma : forall (k k' : Z) (m : smap Z),
  sm_at Z nn_zcmp k (sm_remove Z nn_zcmp k m) = None /\
  (k' <> k -> sm_at Z nn_zcmp k' (sm_remove Z nn_zcmp k m) = sm_at Z nn_zcmp k' m).
Proof.
  intros k k' m. split.
  - apply sm_at_remove_same; zorder.
  - intros H. apply sm_at_remove_other; zorder.
Qed.

Lemma sm_sorted_kept_lemma : forall (k v : Z) (m : smap Z),
  StronglySorted (fun a b => k_lt Z nn_zcmp (fst a) (fst b) = true) m ->
  StronglySorted (fun a b => k_lt Z nn_zcmp (fst a) (fst b) = true) (sm_insert Z nn_zcmp k v m) /\
  StronglySorted (fun a b => k_lt Z nn_zcmp (fst a) (fst b) = true) (sm_remove Z nn_zcmp k m).
Proof.
  intros k v m H. split; [apply sm_insert_sorted|apply sm_remove_sorted]; zorder.
Qed.
