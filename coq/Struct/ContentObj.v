(* C16.  The part of a PDF object graph that the /Contents entry of a page can reach, as plain data: the common input
   format of the model Struct/ContentList.v (written from qpdf's code) and of the specification
   Struct/ContentListSpec.v (written from ISO 32000-1).  Types only.  Streams are always indirect objects (7.3.8.1),
   so a stream only occurs as what an object number holds.  Prefixes c16_ / Cv / Co. *)
From QV Require Import Base.Bytes.
Local Open Scope N_scope.

(* a value as it can stand in /Contents or in an array *)
Inductive c16_cv :=
| CvRef (n : N)                      (* n 0 R *)
| CvArr (items : list c16_cv)        (* a direct array *)
| CvNull
| CvOther.                           (* integer, dictionary, name, ... *)

(* what an object number holds *)
Inductive c16_co :=
| CoStream (data : list N)           (* decoded stream data (qpdf_dl_specialized) *)
| CoArr (items : list c16_cv)
| CoNull
| CoOther.

Definition c16_store := list (N * c16_co).

