(* C19 - proofs. Part 1: the generated option tables (Gen/JobTables.v, regenerated from the qpdf source on every run). These are
   closed by computation over the tables themselves: the domain of each statement is the finite table. *)
From Coq Require Import String.
From Coq Require Import List NArith Bool Lia.
From QV Require Import Base.Bytes Sys.JobTypes Sys.JobTableSpec Gen.JobTables.
Import ListNotations.
Open Scope N_scope.

(* FULL STATEMENT (false on the pinned tree, see tables_equivalent_refuted):
     forallb (match_json json_table) (auto_aentries argv_table) = true /\
     forallb (match_argv argv_table) (auto_jentries json_table) = true /\ ... (the remaining conjuncts as below)
   i.e. every argv option bound to a Config method has, at the place the manual says (table -> JSON path, flag camel-cased, repeatable
   options as arrays), a JSON handler of the corresponding kind (bare <-> "", parameter <-> string, choices <-> the SAME choice list)
   bound to the SAME Config method, and conversely; hand-written argv handlers have their named JSON keys and vice versa; the schema
   job JSON is validated against has exactly the nodes of the handler tree.
   PROVED: the same with exactly the entries of known_table_divergences (40-bit --print / --modify) excepted, and for those the divergence
   is pinned down: everything but the choice list agrees. *)
Lemma tables_equivalent_partial_lemma :
  forallb (fun e => if divergent e
                    then negb (match_json json_table e) && match_json_gen false json_table e
                    else match_json json_table e) (auto_aentries argv_table) = true /\
  forallb (match_argv argv_table) (auto_jentries json_table) = true /\
  forallb (manual_argv_ok json_table) (manual_aentries argv_table) = true /\
  forallb manual_json_ok (manual_jentries json_table) = true /\
  forallb (schema_has schema_table) json_table = true /\
  forallb (schema_covered json_table) schema_table = true.
Proof. vm_compute. repeat split; reflexivity. Qed.

(* the witness: --encrypt u o 40 --modify=y|n (choices y,n) against encrypt.40bit.modify (choices all,annotate,form,assembly,none) *)
Lemma tables_equivalent_refuted_lemma :
  existsb (fun e => bstr_eqb (ae_table e) B"40-bit-encryption" && bstr_eqb (ae_flag e) B"modify" &&
                    blist_eqb (ae_choices e) [B"y"; B"n"] && negb (match_json json_table e) &&
                    json_has json_table [B"encrypt"; B"40bit"; B"modify"] KChoices
                             (Some [B"all"; B"annotate"; B"form"; B"assembly"; B"none"]) (ae_target e))
          (auto_aentries argv_table) = true.
Proof. vm_compute. reflexivity. Qed.

(* the generated headers are what job.yml declares (a header edited by hand, or job.yml edited without regenerating, is noticed) *)
Lemma tables_match_yml_lemma :
  forallb (yml_has yml_options) argv_table = true /\
  forallb (yml_covered argv_table) yml_options = true /\
  forallb (yml_json_ok argv_table json_table) yml_json = true.
Proof. vm_compute. repeat split; reflexivity. Qed.

(* no flag contains '=' or is empty except the positional entry, flags are unique per table: what makes "--flag=value" splitting unambiguous *)
Definition flag_wf (e : aentry) : bool :=
  match ae_kind e with
  | KPositional => match ae_flag e with [] => true | _ => false end
  | _ => negb (match ae_flag e with [] => true | _ => false end) && negb (existsb (N.eqb 61) (ae_flag e))
  end.
Fixpoint nodup_flags (l : list aentry) : bool :=
  match l with
  | [] => true
  | e :: r => negb (existsb (fun e' => bstr_eqb (ae_table e) (ae_table e') && bstr_eqb (ae_flag e) (ae_flag e')) r) && nodup_flags r
  end.
Lemma tables_wellformed_lemma :
  forallb flag_wf argv_table = true /\ nodup_flags argv_table = true.
Proof. vm_compute. split; reflexivity. Qed.
