(* C06 proofs, part E: opening files of the RC4-era schemes (R 2, 3, 4 with their nominal key lengths: 40 bits for
   R 2, 128 bits for R 3 / R 4) with the owner and the user password: Algorithms 3, 4, 5 of the reference encryptor
   against qpdf's check_owner_password_V4 / check_user_password_V4 / compute_encryption_key (model: KeyDeriv.v).
   The agreement of the two key derivations on these key lengths is C05's (Section V4 of C05Proofs.v). Shorter keys
   with R 3 are the refuted part (finding F3). *)
From QV Require Import Base.Bytes Crypto.Nib Filters.Filters Filters.C15ProofsB.
From QV Require Import Crypto.MD5 Crypto.SHA2Fast Crypto.AES Crypto.AesPdf Crypto.KeyDeriv Crypto.IsoRef Crypto.Perms.
From QV Require Import Crypto.C05Proofs Crypto.CbcProofs Crypto.AesInv Crypto.C05ProofsB Crypto.C05ProofsC.
From QV Require Import Crypto.IsoEnc Crypto.DecReader Crypto.C06ProofsB Crypto.C06ProofsC Crypto.C06ProofsD.
From Coq Require Import Arith.
Local Open Scope N_scope.

(* qpdf's Encryption object for a V < 5 dictionary with nominal lengths *)
Definition c06_ed_V4 (c : c06_cfg) (d : iso_dict) : enc_data :=
  {| ed_V := c6_V c; ed_R := c6_R c; ed_len := c6_keylen c; ed_P := c6_P c; ed_O := iso_O d; ed_U := iso_U d;
     ed_OE := []; ed_UE := []; ed_Perms := []; ed_id1 := c6_id c; ed_encmeta := c6_encmeta c |}.

Section OpenV4.
  Variables (c : c06_cfg) (s : c06_secrets).
  Hypothesis Hs : scheme_V4 (c6_V c) (c6_R c) (c6_keylen c).

  Let R := c6_R c.
  Let len := c6_keylen c.
  Let u := c6s_user s.
  Let opw := match c6s_owner s with [] => c6s_user s | _ => c6s_owner s end.
  Let Ov := c06_alg3_O c s.
  Let Uv := c06_alg45_U c s Ov.
  Let d := c06_dict_of c Ov Uv [] [] [].
  Let key := iso_key_alg2 d u.
  Let ed := c06_ed_V4 c d.

  Lemma c06_R_le4 : R <=? 4 = true.
  Proof. destruct (scheme_cases _ _ _ Hs) as [[E _]|[[E|E] _]]; unfold R; rewrite E; reflexivity. Qed.

  Lemma c06_make_V4 : c06_iso_make c s = (d, key).
  Proof. unfold c06_iso_make. fold R. rewrite c06_R_le4. reflexivity. Qed.

  Lemma c06_to_iso_ed : to_iso ed = d.
  Proof. reflexivity. Qed.

  Lemma c06_edR : ed_R ed = R. Proof. reflexivity. Qed.
  Lemma c06_edl : ed_len ed = len. Proof. reflexivity. Qed.

  (* /U as Algorithms 4/5 leave it: the value a reader recomputes, plus (R >= 3) 16 arbitrary bytes *)
  Lemma c06_alg45_len : forall pw, length (iso_U_alg45 d pw) = if R =? 2 then 32%nat else 16%nat.
  Proof.
    intros pw. unfold iso_U_alg45. change (iso_R d) with R.
    destruct (R =? 2); [rewrite rc4_length; reflexivity|].
    rewrite fold_length, rc4_length, length_md5. reflexivity.
  Qed.

  Lemma c06_U_is : Uv = if R =? 2 then iso_U_alg45 d u else iso_U_alg45 d u ++ firstn 16 (c6s_rnd s ++ repeat 0 16%nat).
  Proof. unfold Uv, c06_alg45_U. fold R. destruct (R =? 2); reflexivity. Qed.

  Lemma c06_check_user_V4_ok : forall pw, iso_pad32 pw = iso_pad32 u -> kd_check_user_V4 ed pw = true.
  Proof.
    intros pw Hpw. unfold kd_check_user_V4. rewrite c06_edR.
    pose proof (U_agrees _ _ _ Hs ed c06_edR c06_edl pw) as HU. rewrite c06_to_iso_ed in HU.
    assert (Hsame : iso_U_alg45 d pw = iso_U_alg45 d u).
    { unfold iso_U_alg45. rewrite <- (iso_key_alg2_pad d pw), Hpw, iso_key_alg2_pad. reflexivity. }
    rewrite Hsame in HU. change (ed_U ed) with Uv. rewrite c06_U_is.
    pose proof (c06_alg45_len u) as HL. unfold R in *.
    destruct (scheme_cases _ _ _ Hs) as [[E _]|[E _]].
    - rewrite E in *. change (2 =? 2) with true in *. change (3 <=? 2) with false. cbv iota in *.
      rewrite <- HU. apply bytes_eqb_refl.
    - assert (E2 : c6_R c =? 2 = false) by (destruct E as [E|E]; rewrite E; reflexivity).
      assert (E3 : 3 <=? c6_R c = true) by (destruct E as [E|E]; rewrite E; reflexivity).
      rewrite E2 in *. rewrite E3. rewrite <- HU.
      rewrite firstn_app_ge by (rewrite HL; lia). rewrite firstn_all2 by (rewrite HL; lia). apply bytes_eqb_refl.
  Qed.

  Lemma c06_O_len : length Ov = 32%nat.
  Proof.
    unfold Ov, c06_alg3_O. destruct (c6_R c =? 2).
    - rewrite rc4_length. apply length_iso_pad32.
    - rewrite fold_length, rc4_length. apply length_iso_pad32.
  Qed.
  Lemma c06_U_len4 : length Uv = 32%nat.
  Proof.
    rewrite c06_U_is. pose proof (c06_alg45_len u) as HL. destruct (R =? 2); [exact HL|].
    rewrite app_length, HL, firstn_length, app_length, repeat_length. lia.
  Qed.

  Lemma c06_eff_owner_nil : forall o, eff_owner [] o = o.
  Proof. intros o. destruct o; reflexivity. Qed.

  (* Algorithm 7 as qpdf runs it recovers the padded user password from the /O of Algorithm 3 *)
  Lemma c06_owner_recovers : kd_check_owner_V4 ed opw = Some (iso_pad32 u).
  Proof.
    unfold kd_check_owner_V4. rewrite c06_edR, c06_edl.
    pose proof (owner_key_agrees _ _ _ Hs ed c06_edR c06_edl [] opw) as HK.
    rewrite c06_eff_owner_nil, c06_to_iso_ed in HK. fold len in HK. rewrite <- HK.
    change (ed_O ed) with Ov. rewrite (firstn_all2 Ov) by (rewrite c06_O_len; change kd_key_bytes with 32%nat; lia).
    assert (Hk : iso_owner_key d opw = iso_owner_key (c06_dict_of c [] [] [] [] []) opw) by reflexivity.
    assert (Hrec : kd_iterate_rc4 Ov (iso_owner_key d opw) (if 3 <=? R then 20 else 1) true = iso_pad32 u).
    { unfold Ov, c06_alg3_O. fold opw. fold u. rewrite <- Hk. unfold R.
      destruct (scheme_cases _ _ _ Hs) as [[E _]|[E _]].
      - rewrite E. change (2 =? 2) with true. change (3 <=? 2) with false. cbv iota.
        unfold kd_iterate_rc4. change (N.to_nat 1) with 1%nat. rewrite (kd_rc4_loop_rev_fold 1 0) by reflexivity.
        cbn [seq rev app map fold_left]. unfold iso_xor_key. change (N.of_nat 0) with 0. rewrite xor_key_0.
        apply rc4_involutive_lemma.
      - assert (E2 : c6_R c =? 2 = false) by (destruct E as [E|E]; rewrite E; reflexivity).
        assert (E3 : 3 <=? c6_R c = true) by (destruct E as [E|E]; rewrite E; reflexivity).
        rewrite E2, E3.
        set (k := iso_owner_key d opw).
        assert (Hfwd : fold_left (fun y i => rc4 (iso_xor_key k i) y) (map N.of_nat (seq 1 19)) (rc4 k (iso_pad32 u)) =
                       fold_left (fun x j => rc4 (iso_xor_key k j) x) (map N.of_nat (seq 0 20)) (iso_pad32 u)).
        { change (seq 0 20) with (0%nat :: seq 1 19). rewrite map_cons. cbn [fold_left].
          replace (iso_xor_key k (N.of_nat 0)) with k
            by (unfold iso_xor_key; change (N.of_nat 0) with 0; symmetry; apply xor_key_0).
          reflexivity. }
        rewrite Hfwd. unfold kd_iterate_rc4. change (N.to_nat 20) with 20%nat.
        rewrite (kd_rc4_loop_rev_fold 20 0) by reflexivity. rewrite map_rev. apply fold_rev_undo. }
    rewrite Hrec.
    rewrite c06_check_user_V4_ok by apply iso_pad32_idem. reflexivity.
  Qed.

  Lemma c06_key_of_padded : kd_key_from_password ed (iso_pad32 u) = key.
  Proof.
    rewrite <- (key_agrees _ _ _ Hs ed c06_edR c06_edl). rewrite c06_to_iso_ed. apply iso_key_alg2_pad.
  Qed.
  Lemma c06_key_of_user : kd_key_from_password ed u = key.
  Proof. rewrite <- (key_agrees _ _ _ Hs ed c06_edR c06_edl). rewrite c06_to_iso_ed. reflexivity. Qed.

  Lemma c06_key_len4 : length key = N.to_nat len.
  Proof. rewrite <- c06_key_of_user. apply (key_length _ _ _ Hs ed c06_edR c06_edl). Qed.
End OpenV4.

(* initialize() on a V < 5 dictionary with nominal lengths: the owner check, then the user check *)
Lemma c06_initialize_V4 : forall c d pz pw,
  scheme_V4 (c6_V c) (c6_R c) (c6_keylen c) -> c06_to_u32 pz = c6_P c ->
  (c6_V c <? 4 = true -> c6_encmeta c = true) ->
  length (iso_O d) = 32%nat -> length (iso_U d) = 32%nat ->
  let ed := c06_ed_V4 c d in
  (forall r, kd_check_owner_V4 ed pw = Some r ->
     exists st, c06_initialize (c06_rdict_of c d pz) (Some (c6_id c)) (C6Password pw) = C6Ok st [] /\
                c6t_key st = kd_key_from_password ed r /\ c6t_owner_matched st = true /\
                c6t_user_matched st = bytes_eqb (c06_trim_user_password r) pw /\ c06_public_state_for c st) /\
  (kd_check_owner_V4 ed pw = None -> kd_check_user_V4 ed pw = true ->
     exists st, c06_initialize (c06_rdict_of c d pz) (Some (c6_id c)) (C6Password pw) = C6Ok st [] /\
                c6t_key st = kd_key_from_password ed pw /\ c6t_owner_matched st = false /\
                c6t_user_matched st = true /\ c06_public_state_for c st).
Proof.
  intros c d pz pw Hs HP Hem HO HU ed.
  assert (Tail : forall st, c6t_V st = c6_V c ->
            c6t_encmeta st = (if 4 <=? c6_V c then c6_encmeta c else true) ->
            (4 <=? c6_V c = true -> c6t_filters st = c06_read_CF (map (fun e => (fst e, C6CfDict (c06_cfm_name (snd e)))) (c6_cf c)) /\
               c6t_cf_stream st = c06_interpretCF (c6t_filters st) (Some (c6_stmf c)) /\
               c6t_cf_string st = c06_interpretCF (c6t_filters st) (Some (c6_strf c))) ->
            c06_public_state_for c st).
  { intros st H1 H2 H3. split; [exact H1|]. split; [exact H2|]. intros H4. destruct (H3 H4) as [A [B C]].
    rewrite c06_read_CF_of in A. repeat split; assumption. }
  unfold c06_initialize, c06_rdict_of.
  cbn [c6r_filter c6r_subfilter c6r_V c6r_R c6r_O c6r_U c6r_P c6r_OE c6r_UE c6r_Perms c6r_Length c6r_encmeta c6r_CF c6r_StmF c6r_StrF c6r_EFF].
  change (bytes_eqb c06_name_standard c06_name_standard) with true. cbn [negb c06_ws app].
  rewrite !c06_pad_short_id by assumption. change kd_key_bytes with 32%nat. rewrite HO, HU, HP.
  subst ed. unfold c06_ed_V4.
  destruct Hs as [(EV & ER & EL)|[(EV & ER & EL)|(EV & ER & EL)]]; rewrite EV, ER, EL in *.
  - rewrite (Hem eq_refl).
    cbn -[c06_read_CF c06_interpretCF c06_to_int32 kd_check_owner_V4 kd_check_user_V4 kd_key_from_password c06_trim_user_password bytes_eqb].
    split.
    + intros r Hr. rewrite Hr. eexists. split; [reflexivity|]. split; [reflexivity|]. split; [reflexivity|]. split; [reflexivity|].
      apply Tail; cbn [c6t_V c6t_encmeta c6t_filters c6t_cf_stream c6t_cf_string]; try reflexivity. intros; discriminate.
    + intros Hn Hu. rewrite Hn, Hu. eexists. split; [reflexivity|]. split; [reflexivity|]. split; [reflexivity|]. split; [reflexivity|].
      apply Tail; cbn [c6t_V c6t_encmeta c6t_filters c6t_cf_stream c6t_cf_string]; try reflexivity. intros; discriminate.
  - rewrite (Hem eq_refl).
    cbn -[c06_read_CF c06_interpretCF c06_to_int32 kd_check_owner_V4 kd_check_user_V4 kd_key_from_password c06_trim_user_password bytes_eqb].
    split.
    + intros r Hr. rewrite Hr. eexists. split; [reflexivity|]. split; [reflexivity|]. split; [reflexivity|]. split; [reflexivity|].
      apply Tail; cbn [c6t_V c6t_encmeta c6t_filters c6t_cf_stream c6t_cf_string]; try reflexivity. intros; discriminate.
    + intros Hn Hu. rewrite Hn, Hu. eexists. split; [reflexivity|]. split; [reflexivity|]. split; [reflexivity|]. split; [reflexivity|].
      apply Tail; cbn [c6t_V c6t_encmeta c6t_filters c6t_cf_stream c6t_cf_string]; try reflexivity. intros; discriminate.
  - cbn -[c06_read_CF c06_interpretCF c06_to_int32 kd_check_owner_V4 kd_check_user_V4 kd_key_from_password c06_trim_user_password bytes_eqb].
    split.
    + intros r Hr. rewrite Hr. eexists. split; [reflexivity|]. split; [reflexivity|]. split; [reflexivity|]. split; [reflexivity|].
      apply Tail; cbn [c6t_V c6t_encmeta c6t_filters c6t_cf_stream c6t_cf_string]; try reflexivity. intros _. repeat split; reflexivity.
    + intros Hn Hu. rewrite Hn, Hu. eexists. split; [reflexivity|]. split; [reflexivity|]. split; [reflexivity|]. split; [reflexivity|].
      apply Tail; cbn [c6t_V c6t_encmeta c6t_filters c6t_cf_stream c6t_cf_string]; try reflexivity. intros _. repeat split; reflexivity.
Qed.

(* decrypt_of_reference_encrypt for R 2, 3, 4 with their nominal key lengths (40 bits for R 2, 128 bits for R 3 and R 4),
   passwords. For every such choice (any /P, /ID, crypt filter arrangement for V 4, passwords of any length, any 16
   filler bytes of /U), every spelling of /P and every document:
   - with the owner password (the user password when there is none: Algorithm 3) the reader model opens without a
     warning, reports "owner password matched", derives the producer's file key from the user password recovered out
     of /O, and returns every leaf as the producer had it;
   - the same with the user password, reporting "user" and not "owner", PROVIDED the user password does not also pass
     the owner check (it does when both passwords are the same - the first case; otherwise only by an MD5/RC4
     coincidence: not provable).
   PARTIAL: V 2 with /Length below 128 is not covered; for those key lengths the owner password is REJECTED
   (owner_password_short_key_refuted below, finding F3). *)
Lemma decrypt_of_reference_encrypt_V4_partial_lemma : forall c s pz pw leaves enc,
  c06_wf_cfg c -> scheme_V4 (c6_V c) (c6_R c) (c6_keylen c) -> c06_to_u32 pz = c6_P c ->
  (c6_V c <? 4 = true -> c6_encmeta c = true) ->
  let d := fst (c06_iso_make c s) in
  let key := snd (c06_iso_make c s) in
  let eff := match c6s_owner s with [] => c6s_user s | _ => c6s_owner s end in
  (pw = eff \/ (pw = c6s_user s /\ kd_check_owner_V4 (c06_ed_V4 c d) pw = None)) ->
  Forall c06_leaf_wf leaves -> map (c06_iso_encrypt_leaf c key) leaves = map Some enc ->
  exists st, c06_initialize (c06_rdict_of c d pz) (Some (c6_id c)) (C6Password pw) = C6Ok st [] /\
             c6t_key st = key /\
             (pw = eff -> c6t_owner_matched st = true) /\
             (kd_check_owner_V4 (c06_ed_V4 c d) pw = None -> c6t_user_matched st = true /\ c6t_owner_matched st = false) /\
             map (c06_decrypt_leaf st) enc = map (fun l => C6LeafOk (c6l_data l) false) leaves.
Proof.
  intros c s pz pw leaves enc Hwf Hs HP Hem d key eff Hpw HF Henc.
  pose proof (c06_make_V4 c s Hs) as Hmk.
  assert (Hd : d = c06_dict_of c (c06_alg3_O c s) (c06_alg45_U c s (c06_alg3_O c s)) [] [] []) by (subst d; rewrite Hmk; reflexivity).
  assert (Hkey : key = iso_key_alg2 d (c6s_user s)) by (subst key; rewrite Hmk; cbn [snd]; rewrite Hd; reflexivity).
  assert (HO : length (iso_O d) = 32%nat) by (rewrite Hd; apply (c06_O_len c s)).
  assert (HU : length (iso_U d) = 32%nat) by (rewrite Hd; apply (c06_U_len4 c s)).
  destruct (c06_initialize_V4 c d pz pw Hs HP Hem HO HU) as [Iown Iusr].
  assert (Hkf : c06_key_fits c key).
  { unfold c06_key_fits. split.
    - unfold rv_consistent. destruct Hs as [(EV & ER & _)|[(EV & ER & _)|(EV & ER & _)]]; rewrite EV, ER; reflexivity.
    - split.
      + intros E4. rewrite Hkey, Hd. rewrite (c06_key_len4 c s Hs).
        destruct Hs as [(EV & _)|[(EV & _)|(_ & _ & EL)]]; try (rewrite EV in E4; discriminate). rewrite EL. reflexivity.
      + intros E5. destruct Hs as [(EV & _)|[(EV & _)|(EV & _)]]; rewrite EV in E5; discriminate. }
  assert (Fin : forall st, c6t_key st = key -> c06_public_state_for c st ->
            map (c06_decrypt_leaf st) enc = map (fun l => C6LeafOk (c6l_data l) false) leaves).
  { intros st Hk Hpub.
    apply (decrypt_of_reference_encrypt_data_lemma c key st leaves enc Hwf (c06_state_for_of_public c key st Hpub Hk)); assumption. }
  destruct Hpw as [Ho|[Hu Hno]].
  - pose proof (c06_owner_recovers c s Hs) as Hrec. fold eff in Hrec. rewrite <- Hd, <- Ho in Hrec.
    destruct (Iown _ Hrec) as [st [Hi [Hk [Hom [Hum Hpub]]]]].
    assert (Hk' : c6t_key st = key).
    { rewrite Hk, Hkey, Hd. apply (c06_key_of_padded c s Hs). }
    exists st. split; [exact Hi|]. split; [exact Hk'|]. split; [intros _; exact Hom|].
    split; [intros Hn; rewrite Hn in Hrec; discriminate|]. apply Fin; assumption.
  - assert (Hchk : kd_check_user_V4 (c06_ed_V4 c d) pw = true).
    { rewrite Hu, Hd. apply (c06_check_user_V4_ok c s Hs). reflexivity. }
    destruct (Iusr Hno Hchk) as [st [Hi [Hk [Hom [Hum Hpub]]]]].
    assert (Hk' : c6t_key st = key).
    { rewrite Hk, Hkey, Hu, Hd. apply (c06_key_of_user c s Hs). }
    exists st. split; [exact Hi|]. split; [exact Hk'|].
    split; [intros He; pose proof (c06_owner_recovers c s Hs) as Hrec; fold eff in Hrec; rewrite <- Hd, <- He in Hrec; rewrite Hrec in Hno; discriminate|].
    split; [intros _; split; assumption|]. apply Fin; assumption.
Qed.

Print Assumptions decrypt_of_reference_encrypt_V4_partial_lemma.

(* The statement is false for V 2 / R 3 with a 40-bit key (/Length 40): finding F3. User password "u", owner password
   "o": the dictionary the reference encryptor writes is opened by the user password and NOT by the owner password. *)
Definition c06_f3_cfg : c06_cfg :=
  {| c6_V := 2; c6_R := 3; c6_keylen := 5; c6_P := 4294967292; c6_encmeta := true; c6_id := [1; 2; 3; 4];
     c6_cf := []; c6_stmf := c06_name_identity; c6_strf := c06_name_identity |}.
Definition c06_f3_secrets : c06_secrets := {| c6s_user := [117]; c6s_owner := [111]; c6s_rnd := [] |}.

Lemma owner_password_short_key_refuted_lemma :
  c06_supported c06_f3_cfg = true /\
  let d := fst (c06_iso_make c06_f3_cfg c06_f3_secrets) in
  (exists st, c06_initialize (c06_rdict_of c06_f3_cfg d (-4)%Z) (Some (c6_id c06_f3_cfg)) (C6Password [117]) = C6Ok st [] /\
              c6t_key st = snd (c06_iso_make c06_f3_cfg c06_f3_secrets)) /\
  c06_initialize (c06_rdict_of c06_f3_cfg d (-4)%Z) (Some (c6_id c06_f3_cfg)) (C6Password [111]) = C6Err C6EPassword [].
Proof.
  split; [reflexivity|]. cbv zeta. split.
  - eexists. split; vm_compute; reflexivity.
  - vm_compute. reflexivity.
Qed.

(* finding F5 on the model: R 3, user password = owner password = 40 bytes. The supplied password authenticates as
   the user password under Algorithm 6 of the standard, the reader model reports "owner" only. *)
Definition c06_f5_cfg : c06_cfg :=
  {| c6_V := 2; c6_R := 3; c6_keylen := 16; c6_P := 4294967292; c6_encmeta := true; c6_id := [1; 2; 3; 4];
     c6_cf := []; c6_stmf := c06_name_identity; c6_strf := c06_name_identity |}.
Definition c06_f5_secrets : c06_secrets := {| c6s_user := repeat 76 40%nat; c6s_owner := repeat 76 40%nat; c6s_rnd := [] |}.

Lemma matched_flags_long_password_refuted_lemma :
  let d := fst (c06_iso_make c06_f5_cfg c06_f5_secrets) in
  iso_auth_user_V4 d (repeat 76 40%nat) = true /\ iso_auth_owner_V4 d (repeat 76 40%nat) = true /\
  exists st ws, c06_initialize (c06_rdict_of c06_f5_cfg d (-4)%Z) (Some (c6_id c06_f5_cfg)) (C6Password (repeat 76 40%nat)) = C6Ok st ws /\
                c6t_owner_matched st = true /\ c6t_user_matched st = false.
Proof.
  cbv zeta. split; [vm_compute; reflexivity|]. split; [vm_compute; reflexivity|].
  eexists. eexists. split; [vm_compute; reflexivity|]. split; reflexivity.
Qed.

(* finding F2 on the model: a crypt filter dictionary with /CFM /None written out is classified "unknown" (AES is then
   assumed, with a warning), the same dictionary without /CFM is classified "none" *)
Lemma crypt_filter_none_explicit_refuted_lemma :
  c06_cfm_method None = C6eNone /\
  c06_cfm_method (Some [78; 111; 110; 101]) = C6eUnknown /\
  c06_switch (c06_cfm_method (Some [78; 111; 110; 101])) = Some (true, true).
Proof. repeat split; reflexivity. Qed.
