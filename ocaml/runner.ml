(* I/O shell around the extracted models: one case per line on stdin, one result per line on
   stdout. Nothing here computes anything about qpdf; it converts between text and the
   extracted inductive types and calls the extracted functions. *)
open Qvmodel

let rec pos_of_int (i : int) : positive =
  if i = 1 then XH
  else if i land 1 = 0 then XO (pos_of_int (i lsr 1))
  else XI (pos_of_int (i lsr 1))
let n_of_int (i : int) : n = if i = 0 then N0 else Npos (pos_of_int i)
let z_of_int (i : int) : z =
  if i = 0 then Z0 else if i > 0 then Zpos (pos_of_int i) else Zneg (pos_of_int (- i))
let rec int_of_pos (p : positive) : int =
  match p with XH -> 1 | XO q -> 2 * int_of_pos q | XI q -> 2 * int_of_pos q + 1
let int_of_n (x : n) : int = match x with N0 -> 0 | Npos p -> int_of_pos p
let int_of_z (x : z) : int =
  match x with Z0 -> 0 | Zpos p -> int_of_pos p | Zneg p -> - (int_of_pos p)
let rec nat_of_int (i : int) : nat = if i <= 0 then O else S (nat_of_int (i - 1))
let rec int_of_nat (x : nat) : int = match x with O -> 0 | S y -> 1 + int_of_nat y

(* decimal string of a possibly huge Z (no overflow): via repeated division is overkill here;
   values printed by the models fit in OCaml's 63-bit int except where noted *)

let byte_tbl : n array = Array.init 256 n_of_int
let bytes_of_string (s : string) : n list =
  let r = ref [] in
  for i = String.length s - 1 downto 0 do r := byte_tbl.(Char.code s.[i]) :: !r done; !r
let string_of_bytes (l : n list) : string =
  let b = Buffer.create 64 in
  List.iter (fun x -> Buffer.add_char b (Char.chr ((int_of_n x) land 255))) l;
  Buffer.contents b

let hexval c = match c with
  | '0'..'9' -> Char.code c - 48 | 'a'..'f' -> Char.code c - 87 | 'A'..'F' -> Char.code c - 55
  | _ -> failwith "hex"
let unhex (h : string) : string =
  if h = "-" then "" else
  let n = String.length h / 2 in
  String.init n (fun i -> Char.chr (hexval h.[2*i] * 16 + hexval h.[2*i+1]))
let hex (s : string) : string =
  if s = "" then "-" else
  let b = Buffer.create (2 * String.length s) in
  String.iter (fun c -> Buffer.add_string b (Printf.sprintf "%02x" (Char.code c))) s;
  Buffer.contents b
let hexbytes (l : n list) : string = hex (string_of_bytes l)
let unhexbytes (h : string) : n list = bytes_of_string (unhex h)

let zlist (l : z list) : string = String.concat "," (List.map (fun x -> string_of_int (int_of_z x)) l)
let nlist (l : n list) : string = String.concat "," (List.map (fun x -> string_of_int (int_of_n x)) l)
let ints_of (s : string) : int list =
  if s = "-" || s = "" then [] else List.map int_of_string (String.split_on_char ',' s)

let handlers : (string, string list -> string) Hashtbl.t = Hashtbl.create 64
let register name f = Hashtbl.replace handlers name f

let main () =
  (try
    while true do
      let line = input_line stdin in
      match String.split_on_char ' ' line with
      | [] | [""] -> print_newline ()
      | cmd :: args ->
        let out =
          try (match Hashtbl.find_opt handlers cmd with
               | Some f -> f args
               | None -> "?unknown-command " ^ cmd)
          with Stack_overflow -> "?stack-overflow" | Failure m -> "?failure " ^ m
             | Not_found -> "?not-found" | Invalid_argument m -> "?invalid " ^ m in
        print_string out; print_newline ()
    done
  with End_of_file -> ());
  flush stdout
