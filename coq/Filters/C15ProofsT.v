(* Proofs for C15 (filters), part T: TIFF predictor 2 on the bit path (BitsPerComponent <> 8).
   qpdf's Pl_TIFFPredictor (model: tiff_run / tiffbits_samples over BitStream / BitWriter) against the
   independent reference codecs of TiffBitsSpec.v. *)
From QV Require Import Base.Bytes Filters.Filters Filters.FilterSpec Filters.TiffBitsSpec Filters.C15ProofsB.
From QV Require Lin.AnnexF Lin.C07Roundtrip.
From Coq Require Import Lia.
Local Open Scope N_scope.

Local Notation bo := bits_of_byte_fuel.

(* ================= bit strings ================= *)
Lemma tfb_bo_bridge : forall n v, AnnexF.af_byte_bits n v = bo n v.
Proof. induction n as [|n IH]; intros v; [reflexivity|]. cbn [AnnexF.af_byte_bits bits_of_byte_fuel]. rewrite IH. reflexivity. Qed.

Lemma tfb_bits_bridge : forall l, AnnexF.af_bits l = bits_of_bytes l.
Proof.
  induction l as [|x l IH]; [reflexivity|].
  cbn [AnnexF.af_bits]. unfold bits_of_bytes in *. cbn [map concat]. rewrite IH, tfb_bo_bridge. reflexivity.
Qed.

Lemma bo_length : forall n v, length (bo n v) = n.
Proof. intros. rewrite <- tfb_bo_bridge. apply C07Roundtrip.bitsof_length. Qed.

Lemma bo_mod : forall n v, bo n (v mod 2 ^ N.of_nat n) = bo n v.
Proof. intros. rewrite <- !tfb_bo_bridge. apply C07Roundtrip.bitsof_mod. Qed.

Lemma bo_zero : forall n, bo n 0 = repeat false n.
Proof. intros. rewrite <- tfb_bo_bridge. apply C07Roundtrip.bitsof_zero. Qed.

Lemma bits_of_bytes_app : forall a b, bits_of_bytes (a ++ b) = bits_of_bytes a ++ bits_of_bytes b.
Proof. intros. unfold bits_of_bytes. rewrite map_app, concat_app. reflexivity. Qed.

Lemma valacc_bo : forall n v acc, valacc acc (bo n v) = acc * 2 ^ N.of_nat n + v mod 2 ^ N.of_nat n.
Proof.
  induction n as [|n IH]; intros v acc.
  - cbn. rewrite N.mod_1_r. lia.
  - cbn [bits_of_byte_fuel]. change (valacc acc (N.testbit v (N.of_nat n) :: bo n v))
      with (valacc (2 * acc + (if N.testbit v (N.of_nat n) then 1 else 0)) (bo n v)).
    rewrite IH. rewrite Nat2N.inj_succ, C07Roundtrip.mod_pow2_succ, N.pow_succ_r'.
    destruct (N.testbit v (N.of_nat n)); cbn [N.b2n]; lia.
Qed.

Lemma valacc_lt : forall g, valacc 0 g < 2 ^ N.of_nat (length g).
Proof.
  induction g as [|x g IH]; [cbn; lia|].
  change (valacc 0 (x :: g)) with (valacc (2 * 0 + (if x then 1 else 0)) g).
  rewrite valacc_shift. cbn [length]. rewrite Nat2N.inj_succ, N.pow_succ_r'.
  destruct x; lia.
Qed.

Lemma bo_valacc : forall g, bo (length g) (valacc 0 g) = g.
Proof.
  induction g as [|x g IH]; [reflexivity|].
  change (valacc 0 (x :: g)) with (valacc (2 * 0 + (if x then 1 else 0)) g).
  rewrite valacc_shift. cbn [length bits_of_byte_fuel].
  pose proof (valacc_lt g) as Hlt.
  set (r := valacc 0 g) in *. set (P := 2 ^ N.of_nat (length g)) in *.
  assert (HP : P <> 0) by (apply N.pow_nonzero; lia).
  replace (2 * 0 + (if x then 1 else 0)) with (N.b2n x) by (destruct x; reflexivity).
  f_equal.
  - apply N.b2n_inj. rewrite N.testbit_spec'. fold P.
    rewrite N.div_add_l by exact HP. rewrite N.div_small by exact Hlt.
    destruct x; reflexivity.
  - rewrite <- bo_mod. fold P. rewrite N.add_comm, N.mod_add by exact HP.
    rewrite N.mod_small by exact Hlt. exact IH.
Qed.

Lemma val_of_bits_valacc : forall g, val_of_bits g = valacc 0 g.
Proof. reflexivity. Qed.

Lemma skipn_skipn' : forall (A : Type) a b (l : list A), skipn a (skipn b l) = skipn (b + a) l.
Proof.
  intros A a b. induction b as [|b IH]; intros l; [reflexivity|].
  destruct l as [|x l]; [rewrite !skipn_nil; reflexivity|]. cbn [skipn Nat.add]. apply IH.
Qed.

(* bytes <-> bits *)
Lemma pack_bits_of_bytes : forall l rest, bytes_ok l -> tfb_pack_bits (length l) (bits_of_bytes l ++ rest) = l.
Proof.
  induction l as [|x l IH]; intros rest Hl; [reflexivity|].
  apply bytes_ok_cons_inv in Hl. destruct Hl as [Hx Hl].
  cbn [length tfb_pack_bits]. unfold bits_of_bytes. cbn [map concat]. fold (bits_of_bytes l).
  rewrite <- app_assoc.
  rewrite firstn_app, bo_length, Nat.sub_diag, firstn_O, app_nil_r, firstn_all2 by (rewrite bo_length; lia).
  rewrite skipn_app, bo_length, Nat.sub_diag, skipn_all2 by (rewrite bo_length; lia). cbn [skipn app].
  rewrite IH by exact Hl. f_equal.
  rewrite val_of_bits_valacc, valacc_bo. change (2 ^ N.of_nat 8) with 256. rewrite N.mod_small by exact Hx. lia.
Qed.

Lemma pack_bits_ok : forall n bits, bytes_ok (tfb_pack_bits n bits).
Proof.
  induction n as [|n IH]; intros bits; [constructor|].
  cbn [tfb_pack_bits]. constructor; [|apply IH].
  rewrite val_of_bits_valacc. pose proof (valacc_lt (firstn 8 bits)) as H.
  assert (2 ^ N.of_nat (length (firstn 8 bits)) <= 2 ^ 8) by (apply N.pow_le_mono_r; [lia|rewrite firstn_length; lia]).
  change (2 ^ 8) with 256 in *. lia.
Qed.

Lemma pack_bits_length : forall n bits, length (tfb_pack_bits n bits) = n.
Proof. induction n as [|n IH]; intros bits; [reflexivity|]. cbn [tfb_pack_bits length]. rewrite IH. reflexivity. Qed.

Lemma bits_of_pack : forall n bits, length bits = (8 * n)%nat -> bits_of_bytes (tfb_pack_bits n bits) = bits.
Proof.
  induction n as [|n IH]; intros bits Hl.
  - destruct bits; [reflexivity|discriminate].
  - cbn [tfb_pack_bits]. unfold bits_of_bytes. cbn [map concat]. fold (bits_of_bytes (tfb_pack_bits n (skipn 8 bits))).
    rewrite IH by (rewrite skipn_length; lia).
    rewrite val_of_bits_valacc.
    replace 8%nat with (length (firstn 8 bits)) at 1 by (rewrite firstn_length; lia).
    rewrite bo_valacc. apply firstn_skipn.
Qed.

(* samples <-> bits *)
Lemma sample_bits_length : forall b e, length (tfb_sample_bits b e) = (length e * b)%nat.
Proof.
  intros b. induction e as [|x e IH]; [reflexivity|].
  unfold tfb_sample_bits in *. cbn [flat_map length]. rewrite app_length, bo_length, IH. lia.
Qed.

Lemma unpack_sample_bits : forall b e rest,
  tfb_unpack b (length e) (tfb_sample_bits b e ++ rest) = map (fun v => v mod 2 ^ N.of_nat b) e.
Proof.
  intros b. induction e as [|x e IH]; intros rest; [reflexivity|].
  unfold tfb_sample_bits in *. cbn [flat_map length tfb_unpack map]. rewrite <- app_assoc.
  rewrite firstn_app, bo_length, Nat.sub_diag, firstn_O, app_nil_r, firstn_all2 by (rewrite bo_length; lia).
  rewrite skipn_app, bo_length, Nat.sub_diag, skipn_all2 by (rewrite bo_length; lia). cbn [skipn app].
  rewrite IH. f_equal. rewrite val_of_bits_valacc, valacc_bo. lia.
Qed.

Lemma sample_bits_unpack : forall b n bits, (n * b <= length bits)%nat ->
  tfb_sample_bits b (tfb_unpack b n bits) = firstn (n * b) bits.
Proof.
  intros b. induction n as [|n IH]; intros bits Hl; [reflexivity|].
  unfold tfb_sample_bits in *. cbn [tfb_unpack flat_map].
  rewrite IH by (rewrite skipn_length; lia).
  rewrite val_of_bits_valacc.
  replace b with (length (firstn b bits)) at 1 by (rewrite firstn_length; lia).
  rewrite bo_valacc.
  rewrite <- (firstn_skipn b bits) at 3.
  rewrite firstn_app, firstn_length, Nat.min_l by lia.
  rewrite (firstn_all2 (firstn b bits)) by (rewrite firstn_length; lia).
  f_equal. f_equal. lia.
Qed.

Lemma unpack_length : forall b n bits, length (tfb_unpack b n bits) = n.
Proof. intros b. induction n as [|n IH]; intros bits; [reflexivity|]. cbn [tfb_unpack length]. rewrite IH. reflexivity. Qed.

Lemma unpack_lt : forall b n bits, Forall (fun v => v < 2 ^ N.of_nat b) (tfb_unpack b n bits).
Proof.
  intros b. induction n as [|n IH]; intros bits; [constructor|].
  cbn [tfb_unpack]. constructor; [|apply IH].
  rewrite val_of_bits_valacc. pose proof (valacc_lt (firstn b bits)) as H.
  assert (2 ^ N.of_nat (length (firstn b bits)) <= 2 ^ N.of_nat b) by (apply N.pow_le_mono_r; [lia|rewrite firstn_length; lia]).
  lia.
Qed.

(* ================= BitStream: reading moves the position ================= *)
Definition tfb_rdinv (r : bitrd) : Prop := bytes_ok (br_bytes r) /\ br_off r <= 7.
Definition tfb_rdb (r : bitrd) : list bool := rd_bits (br_bytes r) (br_off r).

Lemma rd_avail : forall r, tfb_rdinv r -> br_avail r = N.of_nat (length (tfb_rdb r)).
Proof.
  intros [bytes off] [_ Hoff]. unfold br_avail, tfb_rdb, lenNb. cbn [br_bytes br_off] in *.
  destruct bytes as [|b t]; [reflexivity|].
  cbn [rd_bits]. rewrite app_length, skipn_length, bo_length, bits_of_bytes_length. cbn [length]. lia.
Qed.

Lemma read_loop_state : forall fuel r wanted result,
  tfb_rdinv r -> (N.to_nat wanted <= length (tfb_rdb r))%nat -> (N.to_nat wanted <= fuel)%nat ->
  tfb_rdinv (fst (read_bits_loop fuel r wanted result)) /\
  tfb_rdb (fst (read_bits_loop fuel r wanted result)) = skipn (N.to_nat wanted) (tfb_rdb r).
Proof.
  induction fuel as [|f IH]; intros r wanted result Hinv Hav Hfuel.
  - replace (N.to_nat wanted) with 0%nat by lia. cbn [read_bits_loop fst skipn]. split; [exact Hinv|reflexivity].
  - cbn [read_bits_loop]. destruct (N.eqb_spec wanted 0) as [E0|E0].
    + subst wanted. cbn [fst N.to_nat skipn]. split; [exact Hinv|reflexivity].
    + cbv zeta. destruct r as [bytes off]. destruct Hinv as [Hok Hoff]. unfold tfb_rdb in *. cbn [br_bytes br_off] in *.
      destruct bytes as [|b t]; [cbn [rd_bits length] in Hav; lia|].
      apply bytes_ok_cons_inv in Hok. destruct Hok as [Hb Hok].
      cbn [hd tl].
      set (tc := N.min wanted (off + 1)).
      set (SS := skipn (N.to_nat (7 - off)) (bo 8 b)).
      assert (HS : length SS = N.to_nat (off + 1)) by (unfold SS; rewrite skipn_length, bo_length; lia).
      cbn [rd_bits] in *. fold SS in Hav. fold SS.
      destruct (N.ltb_spec 0 (off + 1 - tc)) as [El|El].
      * assert (Ewt : wanted = tc) by (subst tc; lia).
        replace (wanted - tc) with 0 by lia.
        match goal with |- context [read_bits_loop f ?r0 0 ?res] =>
          replace (read_bits_loop f r0 0 res) with (r0, res) by (destruct f; reflexivity) end.
        unfold tfb_rdinv, tfb_rdb. cbn [fst br_bytes br_off]. split; [split; [constructor; assumption|lia]|].
        cbn [rd_bits]. rewrite skipn_app. replace (N.to_nat wanted - length SS)%nat with 0%nat by lia.
        cbn [skipn]. f_equal. unfold SS. rewrite skipn_skipn'. f_equal. lia.
      * assert (Etc : tc = off + 1) by lia.
        match goal with |- context [read_bits_loop f ?r0 ?w0 ?res] =>
          destruct (IH r0 w0 res) as [I1 I2] end.
        -- split; [exact Hok|cbn [br_off]; lia].
        -- unfold tfb_rdb. cbn [br_bytes br_off]. rewrite rd_bits_7. rewrite app_length in Hav. lia.
        -- lia.
        -- split; [exact I1|]. rewrite I2. unfold tfb_rdb. cbn [br_bytes br_off]. rewrite rd_bits_7.
           replace (N.to_nat wanted) with (length SS + N.to_nat (wanted - tc))%nat by lia.
           rewrite <- skipn_skipn'. rewrite skipn_app, Nat.sub_diag, skipn_all. reflexivity.
Qed.

Lemma read_bits_full : forall r n, tfb_rdinv r -> n <= 32 -> (N.to_nat n <= length (tfb_rdb r))%nat ->
  exists r', read_bits r n = Some (r', val_of_bits (firstn (N.to_nat n) (tfb_rdb r))) /\ tfb_rdinv r' /\
             tfb_rdb r' = skipn (N.to_nat n) (tfb_rdb r).
Proof.
  intros r n Hinv Hn Hav. unfold read_bits.
  rewrite (rd_avail r Hinv).
  replace (N.of_nat (length (tfb_rdb r)) <? n) with false by (symmetry; apply N.ltb_ge; lia).
  replace (32 <? n) with false by (symmetry; apply N.ltb_ge; lia).
  destruct (read_loop_state (S (N.to_nat n)) r n 0 Hinv Hav ltac:(lia)) as [I1 I2].
  exists (fst (read_bits_loop (S (N.to_nat n)) r n 0)). split; [|split; assumption].
  rewrite (surjective_pairing (read_bits_loop _ _ _ _)) at 1. f_equal. f_equal.
  destruct r as [bytes off]. destruct Hinv as [Hok Hoff]. unfold tfb_rdb in *. cbn [br_bytes br_off] in *.
  rewrite read_bits_loop_spec; [reflexivity|exact Hok|exact Hoff|exact Hav|lia|].
  rewrite N.add_0_l, N.mul_1_l. apply N.pow_le_mono_r; lia.
Qed.

(* ================= signed samples: only the value modulo 2^bits matters ================= *)
Definition tfb_zM (b : N) : Z := (2 ^ Z.of_N b)%Z.
Lemma zM_pos : forall b, (0 < tfb_zM b)%Z.
Proof. intros b. unfold tfb_zM. apply Z.pow_pos_nonneg; lia. Qed.
Lemma zM_N : forall b, Z.of_N (2 ^ b) = tfb_zM b.
Proof. intros b. unfold tfb_zM. rewrite N2Z.inj_pow. reflexivity. Qed.

Lemma zmod_sub_self : forall a M, ((a - M) mod M = a mod M)%Z.
Proof. intros a M. replace (a - M)%Z with (a + (-1) * M)%Z by lia. apply Z_mod_plus_full. Qed.
Lemma zmod_add_self : forall a M, ((M + a) mod M = a mod M)%Z.
Proof. intros a M. replace (M + a)%Z with (a + 1 * M)%Z by lia. apply Z_mod_plus_full. Qed.

Lemma get_signed_full : forall r b, tfb_rdinv r -> 1 <= b <= 32 -> (N.to_nat b <= length (tfb_rdb r))%nat ->
  exists r' z, get_bits_signed r b = Some (r', z) /\ tfb_rdinv r' /\ tfb_rdb r' = skipn (N.to_nat b) (tfb_rdb r) /\
    (z mod tfb_zM b)%Z = Z.of_N (val_of_bits (firstn (N.to_nat b) (tfb_rdb r))).
Proof.
  intros r b Hinv Hb Hav. unfold get_bits_signed.
  destruct (read_bits_full r b Hinv ltac:(lia) Hav) as (r' & Hr & I1 & I2).
  rewrite Hr. set (v := val_of_bits (firstn (N.to_nat b) (tfb_rdb r))).
  eexists r', _. split; [reflexivity|]. split; [exact I1|]. split; [exact I2|].
  assert (Hv : v < 2 ^ b).
  { unfold v. rewrite val_of_bits_valacc. pose proof (valacc_lt (firstn (N.to_nat b) (tfb_rdb r))) as H.
    rewrite firstn_length, Nat.min_l, N2Nat.id in H by lia. exact H. }
  pose proof (zM_pos b) as HM. fold (tfb_zM b).
  assert (Hvz : (0 <= Z.of_N v < tfb_zM b)%Z) by (rewrite <- zM_N; lia).
  destruct (Z.of_N v >? 2 ^ (Z.of_N b - 1))%Z.
  - rewrite zmod_sub_self. apply Z.mod_small. exact Hvz.
  - apply Z.mod_small. exact Hvz.
Qed.

Lemma mod64_modM : forall c b, b <= 32 -> ((c mod 2 ^ 64) mod tfb_zM b = c mod tfb_zM b)%Z.
Proof.
  intros c b Hb. pose proof (zM_pos b) as HM.
  assert (E : (2 ^ 64 = tfb_zM b * 2 ^ (64 - Z.of_N b))%Z).
  { unfold tfb_zM. rewrite <- Z.pow_add_r by lia. f_equal. lia. }
  rewrite E. rewrite Z.rem_mul_r by (try apply Z.pow_pos_nonneg; lia).
  rewrite (Z.mul_comm (tfb_zM b)), Z_mod_plus_full. apply Z.mod_mod. lia.
Qed.

(* ================= BitWriter (bit-level account from C07Roundtrip, in FilterSpec's vocabulary) ================= *)
Local Notation wrep := C07Roundtrip.wrep.

Lemma wl_spec : forall fuel w val bits pv k, wrep w pv k -> (N.to_nat bits < fuel)%nat ->
  exists w' o pv' k', write_bits_loop fuel w val bits = (w', o) /\ wrep w' pv' k' /\ bytes_ok o /\
    bits_of_bytes o ++ bo k' pv' = bo k pv ++ bo (N.to_nat bits) val.
Proof.
  intros fuel w val bits pv k Hrep Hf.
  destruct (C07Roundtrip.write_loop_spec fuel w val bits pv k Hrep Hf) as (w' & o & pv' & k' & H1 & H2 & H3 & H4).
  exists w', o, pv', k'. rewrite tfb_bits_bridge, !tfb_bo_bridge in H4.
  split; [exact H1|]. split; [exact H2|]. split; [exact H3|exact H4].
Qed.

Lemma write_signed_full : forall w z b pv k, wrep w pv k -> b <= 32 ->
  exists w' o pv' k', write_bits_signed w z b = Some (w', o) /\ wrep w' pv' k' /\ bytes_ok o /\
    bits_of_bytes o ++ bo k' pv' = bo k pv ++ bo (N.to_nat b) (Z.to_N (z mod tfb_zM b)).
Proof.
  intros w z b pv k Hrep Hb. unfold write_bits_signed, write_bits.
  replace (32 <? b) with false by (symmetry; apply N.ltb_ge; lia).
  set (uval := Z.to_N _).
  destruct (wl_spec (S (N.to_nat b)) w uval b pv k Hrep ltac:(lia)) as (w' & o & pv' & k' & H1 & H2 & H3 & H4).
  exists w', o, pv', k'. rewrite H1. split; [reflexivity|]. split; [exact H2|]. split; [exact H3|].
  rewrite H4. f_equal. rewrite <- (bo_mod (N.to_nat b) uval). rewrite N2Nat.id. f_equal.
  pose proof (zM_pos b) as HM.
  apply N2Z.inj. rewrite N2Z.inj_mod, zM_N. unfold uval.
  rewrite Z2N.id by (apply Z.mod_pos_bound; lia).
  fold (tfb_zM b). rewrite mod64_modM by exact Hb.
  rewrite Z2N.id by (apply Z.mod_pos_bound; lia).
  destruct (z <? 0)%Z; [apply zmod_add_self|reflexivity].
Qed.

Lemma flush_full : forall w pv k, wrep w pv k ->
  exists padlen, (padlen < 8)%nat /\ bytes_ok (bw_flush w) /\ bits_of_bytes (bw_flush w) = bo k pv ++ repeat false padlen.
Proof.
  intros w pv k Hrep. pose proof Hrep as (Hk & Hoff & _ & _). unfold bw_flush.
  destruct k as [|k].
  - destruct (C07Roundtrip.wrep_0 _ _ Hrep) as [Hw _]. subst w. cbn [bw_init bw_off]. change (7 <? 7) with false.
    exists 0%nat. split; [lia|]. split; [constructor|reflexivity].
  - rewrite Hoff. replace (7 - N.of_nat (S k) <? 7) with true by (symmetry; apply N.ltb_lt; lia).
    unfold write_bits. set (nb := 7 - N.of_nat (S k) + 1).
    replace (32 <? nb) with false by (symmetry; apply N.ltb_ge; unfold nb; lia).
    destruct (wl_spec (S (N.to_nat nb)) w 0 nb pv (S k) Hrep ltac:(lia)) as (w' & o & pv' & k' & H1 & H2 & H3 & H4).
    rewrite H1. exists (N.to_nat nb). split; [unfold nb; lia|]. split; [exact H3|].
    assert (Hlen : (8 * length o + k' = S k + N.to_nat nb)%nat).
    { apply (f_equal (@length bool)) in H4. rewrite !app_length, bits_of_bytes_length, !bo_length in H4. exact H4. }
    destruct H2 as (Hk' & _).
    assert (Ek : k' = 0%nat) by (unfold nb in Hlen; lia). subst k'.
    cbn [bits_of_byte_fuel] in H4. rewrite app_nil_r in H4. rewrite H4, bo_zero. reflexivity.
Qed.

(* ================= tiffbits_samples against a sample-level window machine ================= *)
Definition tfb_cgz (b : N) (z : Z) (q : N) : Prop := (z mod tfb_zM b)%Z = Z.of_N q.

Fixpoint tfb_winN (enc : bool) (m : N) (xs : list N) (Q : list N) : list N :=
  match xs, Q with
  | x :: xs', q :: Q' =>
      let nw := if enc then (x + m - q) mod m else (x + q) mod m in
      let p' := if enc then x else nw in
      nw :: tfb_winN enc m xs' (Q' ++ [p'])
  | _, _ => []
  end.

Definition tfb_rotate (prev used : list Z) : Z * list Z * list Z :=
  match prev with
  | p :: ps => (p, ps, used)
  | [] => match rev' used with p :: ps => (p, ps, []) | [] => (0%Z, [], []) end
  end.

Lemma samples_unfold : forall enc bps n r w prev used spp,
  tiffbits_samples enc bps (S n) r w prev used spp =
  let '(p, ps, used') := tfb_rotate prev used in
  match get_bits_signed r bps with
  | None => None
  | Some (r', sample) =>
      let nw := if enc then (sample - p)%Z else (sample + p)%Z in
      let p' := if enc then sample else nw in
      match write_bits_signed w nw bps with
      | None => None
      | Some (w', o) =>
          match tiffbits_samples enc bps n r' w' ps (p' :: used') spp with
          | None => None
          | Some o' => Some (o ++ o')
          end
      end
  end.
Proof. reflexivity. Qed.

Lemma rotate_spec : forall prev used, prev ++ rev used <> [] ->
  let '(p, ps, used') := tfb_rotate prev used in prev ++ rev used = p :: (ps ++ rev used').
Proof.
  intros prev used Hne. unfold tfb_rotate. destruct prev as [|p ps]; [|reflexivity].
  cbn [app] in *. rewrite rev'_rev. destruct (rev used) as [|p ps]; [congruence|].
  cbn [rev]. rewrite app_nil_r. reflexivity.
Qed.

Lemma cg_step : forall (enc : bool) b z p x q, tfb_cgz b z x -> tfb_cgz b p q -> q < 2 ^ b ->
  tfb_cgz b (if enc then z - p else z + p)%Z (if enc then (x + 2 ^ b - q) mod 2 ^ b else (x + q) mod 2 ^ b).
Proof.
  intros enc b z p x q Hz Hp Hq. unfold tfb_cgz in *. destruct enc.
  - rewrite Zminus_mod, Hz, Hp. rewrite N2Z.inj_mod, zM_N, N2Z.inj_sub, N2Z.inj_add, zM_N by lia.
    replace (Z.of_N x + tfb_zM b - Z.of_N q)%Z with (tfb_zM b + (Z.of_N x - Z.of_N q))%Z by lia.
    rewrite zmod_add_self. reflexivity.
  - rewrite Zplus_mod, Hz, Hp. rewrite N2Z.inj_mod, N2Z.inj_add, zM_N. reflexivity.
Qed.

Lemma samples_spec : forall enc b spp n r w prev used pv k Q,
  1 <= b <= 32 -> tfb_rdinv r -> (n * N.to_nat b <= length (tfb_rdb r))%nat -> wrep w pv k ->
  Forall2 (tfb_cgz b) (prev ++ rev used) Q -> Q <> [] -> Forall (fun q => q < 2 ^ b) Q ->
  exists o padlen, tiffbits_samples enc b n r w prev used spp = Some o /\ (padlen < 8)%nat /\ bytes_ok o /\
    bits_of_bytes o = bo k pv ++ tfb_sample_bits (N.to_nat b)
                        (tfb_winN enc (2 ^ b) (tfb_unpack (N.to_nat b) n (tfb_rdb r)) Q) ++ repeat false padlen.
Proof.
  intros enc b spp. induction n as [|n IH]; intros r w prev used pv k Q Hb Hinv Hav Hrep HW HQ HQlt.
  - cbn [tiffbits_samples tfb_unpack]. destruct (flush_full w pv k Hrep) as (padlen & Hp & Hok & Hbits).
    exists (bw_flush w), padlen. split; [reflexivity|]. split; [exact Hp|]. split; [exact Hok|].
    rewrite Hbits. destruct Q; reflexivity.
  - rewrite samples_unfold.
    assert (Hne : prev ++ rev used <> []).
    { intros E. rewrite E in HW. inversion HW. subst. congruence. }
    pose proof (rotate_spec prev used Hne) as Hrot.
    destruct (tfb_rotate prev used) as [[p ps] used']. rewrite Hrot in HW. clear Hrot Hne.
    inversion HW as [|p0 q W0 Q' Hpq HW' E1 E2]. subst p0 W0 Q. clear HW.
    inversion HQlt as [|q0 Q0 Hq HQlt']. subst q0 Q0.
    destruct (get_signed_full r b Hinv Hb ltac:(lia)) as (r' & z & Hget & Hinv' & Hrdb' & Hz).
    rewrite Hget. cbv zeta.
    set (x := val_of_bits (firstn (N.to_nat b) (tfb_rdb r))) in *.
    assert (Hx : x < 2 ^ b).
    { unfold x. rewrite val_of_bits_valacc. pose proof (valacc_lt (firstn (N.to_nat b) (tfb_rdb r))) as H.
      rewrite firstn_length, Nat.min_l, N2Nat.id in H by lia. exact H. }
    pose proof (cg_step enc b z p x q Hz Hpq Hq) as Hnw.
    set (nw := (if enc then (z - p)%Z else (z + p)%Z)) in *.
    set (nwN := if enc then (x + 2 ^ b - q) mod 2 ^ b else (x + q) mod 2 ^ b) in *.
    assert (HnwN : nwN < 2 ^ b) by (unfold nwN; destruct enc; apply N.mod_lt, N.pow_nonzero; lia).
    destruct (write_signed_full w nw b pv k Hrep ltac:(lia)) as (w' & o1 & pv' & k' & Hwr & Hrep' & Hok1 & Hbits1).
    rewrite Hwr.
    assert (Eto : Z.to_N (nw mod tfb_zM b) = nwN) by (rewrite Hnw; apply N2Z.id).
    rewrite Eto in Hbits1.
    set (p' := if enc then z else nw).
    set (p'N := if enc then x else nwN).
    destruct (IH r' w' ps (p' :: used') pv' k' (Q' ++ [p'N]) Hb Hinv') as (o' & padlen & Hrun & Hp & Hok' & Hbits').
    + rewrite Hrdb', skipn_length. lia.
    + exact Hrep'.
    + cbn [rev]. rewrite app_assoc. apply Forall2_app; [exact HW'|]. constructor; [|constructor].
      unfold p', p'N. destruct enc; [exact Hz|exact Hnw].
    + destruct Q'; discriminate.
    + apply Forall_app. split; [exact HQlt'|]. constructor; [|constructor]. unfold p'N. destruct enc; assumption.
    + rewrite Hrun. exists (o1 ++ o'), padlen. split; [reflexivity|]. split; [exact Hp|].
      split; [apply Forall_app; split; assumption|].
      rewrite bits_of_bytes_app, Hbits', app_assoc, Hbits1, Hrdb'.
      cbn [tfb_unpack tfb_winN]. fold x. cbv zeta. fold nwN. fold p'N.
      unfold tfb_sample_bits. cbn [flat_map]. rewrite <- !app_assoc. reflexivity.
Qed.

(* ================= the window machine and the reference differencing ================= *)
Definition tfb_subm (m : N) := fun x q : N => (x + m - q) mod m.
Definition tfb_addm (m : N) := fun x q : N => (x + q) mod m.

Lemma winN_enc : forall m s Q, Q <> [] -> tfb_winN true m s Q = tfb_zip (tfb_subm m) s (Q ++ s).
Proof.
  intros m. induction s as [|x s IH]; intros Q HQ.
  - destruct Q; reflexivity.
  - destruct Q as [|q Q']; [congruence|]. cbn [tfb_winN app tfb_zip]. cbv zeta. f_equal.
    rewrite IH by (destruct Q'; discriminate). rewrite <- app_assoc. reflexivity.
Qed.

Lemma addm_subm : forall m x q, x < m -> q < m -> ((x + m - q) mod m + q) mod m = x.
Proof.
  intros m x q Hx Hq. rewrite N.add_mod_idemp_l by lia.
  replace (x + m - q + q) with (x + 1 * m) by lia. rewrite N.mod_add by lia. apply N.mod_small. exact Hx.
Qed.

Lemma winN_dec : forall m s Q, Q <> [] -> Forall (fun v => v < m) s -> Forall (fun v => v < m) Q ->
  tfb_winN false m (tfb_zip (tfb_subm m) s (Q ++ s)) Q = s.
Proof.
  intros m. induction s as [|x s IH]; intros Q HQ Hs HQlt.
  - destruct Q; reflexivity.
  - destruct Q as [|q Q']; [congruence|]. inversion Hs as [|x0 s0 Hx Hs']. subst x0 s0.
    inversion HQlt as [|q0 Q0 Hq HQ']. subst q0 Q0.
    cbn [app tfb_zip tfb_winN]. cbv zeta. unfold tfb_subm at 1 3. rewrite addm_subm by assumption. f_equal.
    replace (Q' ++ x :: s) with ((Q' ++ [x]) ++ s) by (rewrite <- app_assoc; reflexivity).
    apply IH; [destruct Q'; discriminate|exact Hs'|].
    apply Forall_app. split; [exact HQ'|]. constructor; [exact Hx|constructor].
Qed.

Lemma zip_length_app : forall f s Q, length (tfb_zip f s (Q ++ s)) = length s.
Proof.
  intros f. induction s as [|x s IH]; intros Q; [destruct (Q ++ []); reflexivity|].
  destruct Q as [|q Q']; cbn [app tfb_zip length]; f_equal.
  - apply (IH []).
  - replace (Q' ++ x :: s) with ((Q' ++ [x]) ++ s) by (rewrite <- app_assoc; reflexivity). apply IH.
Qed.

Lemma zip_subm_lt : forall m s c, m <> 0 -> Forall (fun v => v < m) (tfb_zip (tfb_subm m) s c).
Proof.
  intros m. induction s as [|x s IH]; intros c Hm; [constructor|].
  destruct c as [|y c]; [constructor|]. cbn [tfb_zip]. constructor; [|apply IH; exact Hm].
  unfold tfb_subm. apply N.mod_lt. exact Hm.
Qed.

Lemma diff_is_zip : forall m spp s, tfb_diff m spp s = tfb_zip (tfb_subm m) s (repeat 0 spp ++ s).
Proof. reflexivity. Qed.

Lemma cgz_zeros : forall b n, Forall2 (tfb_cgz b) (repeat 0%Z n) (repeat 0 n).
Proof. intros b. induction n as [|n IH]; [constructor|]. cbn [repeat]. constructor; [reflexivity|exact IH]. Qed.

Lemma bpr_bounds : forall cols bps spp,
  let nb := (N.to_nat cols * spp * N.to_nat bps)%nat in
  let bpr := N.to_nat ((cols * (bps * N.of_nat spp) + 7) / 8) in
  (nb <= 8 * bpr /\ 8 * bpr < nb + 8)%nat.
Proof.
  intros cols bps spp nb bpr.
  assert (E : N.of_nat nb = cols * (bps * N.of_nat spp)).
  { unfold nb. rewrite !Nat2N.inj_mul, !N2Nat.id. lia. }
  unfold bpr. rewrite <- E. clearbody nb. clear E bpr.
  pose proof (N.div_mod' (N.of_nat nb + 7) 8) as H1.
  pose proof (N.mod_lt (N.of_nat nb + 7) 8 ltac:(lia)) as H2.
  set (d := (N.of_nat nb + 7) / 8) in *. set (e := (N.of_nat nb + 7) mod 8) in *. lia.
Qed.

Lemma row_from_bits : forall o Y padlen nb bpr, bytes_ok o -> bits_of_bytes o = Y ++ repeat false padlen ->
  (padlen < 8)%nat -> length Y = nb -> (nb <= 8 * bpr /\ 8 * bpr < nb + 8)%nat ->
  o = tfb_pack_bits bpr (Y ++ repeat false (8 * bpr - nb)).
Proof.
  intros o Y padlen nb bpr Hok Hbits Hp HY Hb.
  assert (Hlen : (8 * length o = nb + padlen)%nat).
  { apply (f_equal (@length bool)) in Hbits. rewrite bits_of_bytes_length, app_length, repeat_length, HY in Hbits. exact Hbits. }
  assert (El : length o = bpr) by lia.
  assert (Ep : padlen = (8 * bpr - nb)%nat) by lia.
  rewrite <- Ep, <- Hbits, <- El. rewrite <- (app_nil_r (bits_of_bytes o)).
  symmetry. apply pack_bits_of_bytes. exact Hok.
Qed.

(* ================= one row through processRow ================= *)
Definition tfb_pok (p : tiff_params) : Prop :=
  tf_bps p <> 8 /\ 1 <= tf_bps p <= 32 /\ (0 < tf_spp p)%nat /\
  tf_bpr p = N.to_nat ((tf_cols p * (tf_bps p * N.of_nat (tf_spp p)) + 7) / 8).

Lemma process_bits_common : forall enc p r, tfb_pok p -> length r = tf_bpr p -> bytes_ok r ->
  exists o padlen, tiff_process enc p r = Some o /\ (padlen < 8)%nat /\ bytes_ok o /\
    bits_of_bytes o =
      tfb_sample_bits (N.to_nat (tf_bps p))
        (tfb_winN enc (2 ^ tf_bps p)
           (tfb_unpack (N.to_nat (tf_bps p)) (N.to_nat (tf_cols p) * tf_spp p) (bits_of_bytes r))
           (repeat 0 (tf_spp p))) ++ repeat false padlen.
Proof.
  intros enc p r (H8 & Hb & Hspp & Hbpr) Hlen Hok. unfold tiff_process.
  replace (tf_bps p =? 8) with false by (symmetry; apply N.eqb_neq; exact H8).
  pose proof (bpr_bounds (tf_cols p) (tf_bps p) (tf_spp p)) as Hbd. cbv zeta in Hbd. rewrite <- Hbpr in Hbd.
  destruct (samples_spec enc (tf_bps p) (tf_spp p) (N.to_nat (tf_cols p) * tf_spp p)
              {| br_bytes := r; br_off := 7 |} bw_init (repeat 0%Z (tf_spp p)) [] 0 0%nat (repeat 0 (tf_spp p)) Hb)
    as (o & padlen & Hrun & Hp & Hoko & Hbits).
  - split; [exact Hok|cbn [br_off]; lia].
  - unfold tfb_rdb. cbn [br_bytes br_off]. rewrite rd_bits_7, bits_of_bytes_length, Hlen. lia.
  - apply C07Roundtrip.wrep_init.
  - cbn [rev]. rewrite app_nil_r. apply cgz_zeros.
  - destruct (tf_spp p); [lia|discriminate].
  - apply Forall_forall. intros q Hq. apply repeat_spec in Hq. subst q.
    apply N.neq_0_lt_0, N.pow_nonzero. lia.
  - exists o, padlen. split; [exact Hrun|]. split; [exact Hp|]. split; [exact Hoko|].
    rewrite Hbits. unfold tfb_rdb. cbn [br_bytes br_off]. rewrite rd_bits_7. reflexivity.
Qed.

Lemma encode_row_bits : forall p r, tfb_pok p -> length r = tf_bpr p ->
  bits_of_bytes (tfb_ref_encode_row (tf_bps p) (tf_spp p) (N.to_nat (tf_cols p)) r) =
  tfb_sample_bits (N.to_nat (tf_bps p))
    (tfb_diff (2 ^ tf_bps p) (tf_spp p)
       (tfb_unpack (N.to_nat (tf_bps p)) (N.to_nat (tf_cols p) * tf_spp p) (bits_of_bytes r)))
  ++ skipn (N.to_nat (tf_cols p) * tf_spp p * N.to_nat (tf_bps p)) (bits_of_bytes r).
Proof.
  intros p r (H8 & Hb & Hspp & Hbpr) Hlen.
  pose proof (bpr_bounds (tf_cols p) (tf_bps p) (tf_spp p)) as Hbd. cbv zeta in Hbd. rewrite <- Hbpr in Hbd.
  unfold tfb_ref_encode_row. apply bits_of_pack.
  rewrite app_length, sample_bits_length, skipn_length, bits_of_bytes_length.
  rewrite diff_is_zip, zip_length_app, unpack_length. lia.
Qed.

Lemma diff_len : forall m spp s, length (tfb_diff m spp s) = length s.
Proof. intros. rewrite diff_is_zip. apply zip_length_app. Qed.

Lemma tiffbits_process_dec : forall p r, tfb_pok p -> length r = tf_bpr p -> bytes_ok r ->
  tiff_process false p (tfb_ref_encode_row (tf_bps p) (tf_spp p) (N.to_nat (tf_cols p)) r)
  = Some (tfb_clear_pad (tf_bps p) (tf_spp p) (N.to_nat (tf_cols p)) r).
Proof.
  intros p r Hp Hlen Hok.
  pose proof Hp as (H8 & Hb & Hspp & Hbpr).
  pose proof (bpr_bounds (tf_cols p) (tf_bps p) (tf_spp p)) as Hbd. cbv zeta in Hbd. rewrite <- Hbpr in Hbd.
  set (E := tfb_ref_encode_row (tf_bps p) (tf_spp p) (N.to_nat (tf_cols p)) r).
  assert (HEl : length E = tf_bpr p) by (unfold E, tfb_ref_encode_row; rewrite pack_bits_length; exact Hlen).
  assert (HEok : bytes_ok E) by (unfold E, tfb_ref_encode_row; apply pack_bits_ok).
  destruct (process_bits_common false p E Hp HEl HEok) as (o & padlen & Hrun & Hpl & Hoko & Hbits).
  rewrite Hrun. f_equal.
  unfold E in Hbits. rewrite (encode_row_bits p r Hp Hlen) in Hbits.
  set (b := N.to_nat (tf_bps p)) in *. set (n := (N.to_nat (tf_cols p) * tf_spp p)%nat) in *.
  set (B := bits_of_bytes r) in *. set (m := 2 ^ tf_bps p) in *.
  set (s := tfb_unpack b n B) in *.
  assert (Hm : m <> 0) by (apply N.pow_nonzero; lia).
  assert (Em : 2 ^ N.of_nat b = m) by (unfold b, m; rewrite N2Nat.id; reflexivity).
  assert (Hsl : length s = n) by apply unpack_length.
  assert (Hslt : Forall (fun v => v < m) s) by (rewrite <- Em; apply unpack_lt).
  pose proof (unpack_sample_bits b (tfb_diff m (tf_spp p) s) (skipn (n * b) B)) as Hun.
  rewrite diff_len, Hsl in Hun.
  rewrite C07Roundtrip.map_mod_small in Hun by (rewrite Em, diff_is_zip; apply zip_subm_lt; exact Hm).
  rewrite Hun in Hbits. clear Hun.
  rewrite diff_is_zip, winN_dec in Hbits.
  2:{ destruct (tf_spp p); [lia|discriminate]. }
  2:{ exact Hslt. }
  2:{ apply Forall_forall. intros q Hq. apply repeat_spec in Hq. subst q. lia. }
  unfold s in Hbits. rewrite sample_bits_unpack in Hbits by (unfold B; rewrite bits_of_bytes_length, Hlen; unfold n, b; lia).
  unfold tfb_clear_pad. fold B. rewrite Hlen.
  apply (row_from_bits o _ padlen _ (tf_bpr p) Hoko Hbits Hpl); [|exact Hbd].
  rewrite firstn_length, Nat.min_l; [reflexivity|]. unfold B. rewrite bits_of_bytes_length, Hlen. lia.
Qed.

Lemma tiffbits_process_enc : forall p r, tfb_pok p -> length r = tf_bpr p -> bytes_ok r ->
  tiff_process true p r
  = Some (tfb_clear_pad (tf_bps p) (tf_spp p) (N.to_nat (tf_cols p))
            (tfb_ref_encode_row (tf_bps p) (tf_spp p) (N.to_nat (tf_cols p)) r)).
Proof.
  intros p r Hp Hlen Hok.
  pose proof Hp as (H8 & Hb & Hspp & Hbpr).
  pose proof (bpr_bounds (tf_cols p) (tf_bps p) (tf_spp p)) as Hbd. cbv zeta in Hbd. rewrite <- Hbpr in Hbd.
  destruct (process_bits_common true p r Hp Hlen Hok) as (o & padlen & Hrun & Hpl & Hoko & Hbits).
  rewrite Hrun. f_equal.
  rewrite winN_enc in Hbits by (destruct (tf_spp p); [lia|discriminate]).
  unfold tfb_clear_pad. rewrite (encode_row_bits p r Hp Hlen).
  assert (HEl : length (tfb_ref_encode_row (tf_bps p) (tf_spp p) (N.to_nat (tf_cols p)) r) = tf_bpr p)
    by (unfold tfb_ref_encode_row; rewrite pack_bits_length; exact Hlen).
  rewrite HEl.
  set (b := N.to_nat (tf_bps p)) in *. set (n := (N.to_nat (tf_cols p) * tf_spp p)%nat) in *.
  set (s := tfb_unpack b n (bits_of_bytes r)) in *.
  rewrite diff_is_zip. fold (tfb_subm (2 ^ tf_bps p)).
  set (Y := tfb_sample_bits b (tfb_zip (tfb_subm (2 ^ tf_bps p)) s (repeat 0 (tf_spp p) ++ s))) in *.
  assert (HY : length Y = (n * b)%nat).
  { unfold Y. rewrite sample_bits_length, zip_length_app. unfold s. rewrite unpack_length. reflexivity. }
  rewrite firstn_app, HY, Nat.sub_diag, firstn_O, app_nil_r, firstn_all2 by lia.
  apply (row_from_bits o Y padlen (n * b)%nat (tf_bpr p) Hoko Hbits Hpl HY Hbd).
Qed.

(* ================= whole streams ================= *)
Lemma tiff_loop_rows_fg : forall enc p (f g : list N -> list N) rows fuel, (0 < tf_bpr p)%nat ->
  Forall (fun r => length (f r) = tf_bpr p /\ tiff_process enc p (f r) = Some (g r)) rows ->
  (length (concat (map f rows)) < fuel)%nat ->
  tiff_write_loop fuel enc p [] (concat (map f rows)) = ([], concat (map g rows), false).
Proof.
  intros enc p f g. induction rows as [|r rows IH]; intros fuel Hp Hrows Hf.
  - destruct fuel as [|fu]; [lia|]. cbn [concat tiff_write_loop length map]. cbv zeta.
    rewrite Nat.sub_0_r. replace (Nat.leb (tf_bpr p) 0) with false by (symmetry; apply Nat.leb_gt; lia).
    reflexivity.
  - destruct fuel as [|fu]; [lia|]. inversion Hrows as [|r' rows' [Hr Hpr] Hrest]; subst.
    cbn [concat tiff_write_loop length map]. cbv zeta. rewrite Nat.sub_0_r.
    cbn [concat map] in Hf. rewrite app_length in Hf.
    replace (Nat.leb (tf_bpr p) (length (f r ++ concat (map f rows)))) with true
      by (symmetry; apply Nat.leb_le; rewrite app_length; lia).
    rewrite <- Hr. rewrite firstn_app, skipn_app, Nat.sub_diag, firstn_all, skipn_all. cbn [firstn skipn app].
    rewrite app_nil_r. rewrite Hpr.
    rewrite IH; [reflexivity|exact Hp|exact Hrest|lia].
Qed.

(* tiff_inversion, bit path (BitsPerComponent <> 8, every width BitStream/BitWriter accept): the model of
   qpdf's TIFF predictor decoder inverts the independent reference encoder (TIFF 6.0 section 14) on whole
   rows, for every Columns / Colors / BitsPerComponent; the unused bits at the end of each row, which the
   reference encoder copies from its (arbitrary) input row, come out as zero. No exception escapes.
   Chunking independence of the same pipeline is chunking_tiff (C15ProofsB.v), stated for any tiff_params. *)
Lemma tiffbits_decode_encode_lemma : forall p rows,
  tf_bps p <> 8 -> 1 <= tf_bps p <= 32 -> (0 < tf_spp p)%nat -> (0 < tf_bpr p)%nat ->
  tf_bpr p = N.to_nat ((tf_cols p * (tf_bps p * N.of_nat (tf_spp p)) + 7) / 8) ->
  Forall (fun r => length r = tf_bpr p /\ bytes_ok r) rows ->
  tiff_run false p [tfb_ref_encode p rows]
  = (concat (map (tfb_clear_pad (tf_bps p) (tf_spp p) (N.to_nat (tf_cols p))) rows), false).
Proof.
  intros p rows H8 Hb Hspp Hbpr0 Hbpr Hrows.
  assert (Hp : tfb_pok p) by (repeat split; (assumption || lia)).
  unfold tiff_run, tfb_ref_encode. cbn [tiff_run_chunks].
  rewrite (tiff_loop_rows_fg false p _ (tfb_clear_pad (tf_bps p) (tf_spp p) (N.to_nat (tf_cols p))) rows).
  - rewrite app_nil_r. reflexivity.
  - exact Hbpr0.
  - eapply Forall_impl; [|exact Hrows]. intros r [Hr Hok]. split.
    + unfold tfb_ref_encode_row. rewrite pack_bits_length. exact Hr.
    + apply tiffbits_process_dec; assumption.
  - lia.
Qed.

(* the model of qpdf's TIFF predictor encoder on the bit path emits exactly the reference encoding of each
   row, with the unused trailing bits of the row set to zero *)
Lemma tiffbits_encoder_is_ref_lemma : forall p rows,
  tf_bps p <> 8 -> 1 <= tf_bps p <= 32 -> (0 < tf_spp p)%nat -> (0 < tf_bpr p)%nat ->
  tf_bpr p = N.to_nat ((tf_cols p * (tf_bps p * N.of_nat (tf_spp p)) + 7) / 8) ->
  Forall (fun r => length r = tf_bpr p /\ bytes_ok r) rows ->
  tiff_run true p [concat rows]
  = (concat (map (fun r => tfb_clear_pad (tf_bps p) (tf_spp p) (N.to_nat (tf_cols p))
                             (tfb_ref_encode_row (tf_bps p) (tf_spp p) (N.to_nat (tf_cols p)) r)) rows), false).
Proof.
  intros p rows H8 Hb Hspp Hbpr0 Hbpr Hrows.
  assert (Hp : tfb_pok p) by (repeat split; (assumption || lia)).
  apply tiff_run_single_rows; [exact Hbpr0|].
  eapply Forall_impl; [|exact Hrows]. intros r [Hr Hok]. split; [exact Hr|].
  apply tiffbits_process_enc; assumption.
Qed.

(* non-vacuity: 4 bits per sample, 3 components, 3 columns: 36 bits in 5 bytes, 4 padding bits *)
Definition tfb_ex_p : tiff_params := {| tf_cols := 3; tf_spp := 3; tf_bps := 4; tf_bpr := 5 |}.
Example tfb_ex_make : tiff_make 3 3 4 = Some tfb_ex_p.
Proof. vm_compute. reflexivity. Qed.
(* samples 1 2 3 | 15 0 3 | 0 1 2, padding 1011 -> differences 1 2 3 | 14 14 0 | 1 1 15, padding kept *)
Example tfb_ex_encode : tfb_ref_encode_row 4 3 3 [18; 63; 3; 1; 43] = [18; 62; 224; 17; 251].
Proof. vm_compute. reflexivity. Qed.
Example tfb_ex_decode :
  tiff_run false tfb_ex_p [tfb_ref_encode tfb_ex_p [[18; 63; 3; 1; 43]; [255; 255; 255; 255; 255]]]
  = ([18; 63; 3; 1; 32; 255; 255; 255; 255; 240], false).
Proof. vm_compute. reflexivity. Qed.
Example tfb_ex_clear : tfb_clear_pad 4 3 3 [18; 63; 3; 1; 43] = [18; 63; 3; 1; 32].
Proof. vm_compute. reflexivity. Qed.
Example tfb_ex_model_encode :
  tiff_run true tfb_ex_p [[18; 63; 3; 1; 43]] = ([18; 62; 224; 17; 240], false).
Proof. vm_compute. reflexivity. Qed.
Example tfb_ex_ref_decode : tfb_ref_decode tfb_ex_p [18; 62; 224; 17; 240] = [18; 63; 3; 1; 32].
Proof. vm_compute. reflexivity. Qed.

(* ================= the reference decoder inverts the reference encoder (specification level) ================= *)
Lemma zip_app : forall f a c a' c', length a = length c ->
  tfb_zip f (a ++ a') (c ++ c') = tfb_zip f a c ++ tfb_zip f a' c'.
Proof.
  intros f. induction a as [|x a IH]; intros c a' c' Hl; destruct c as [|y c]; try discriminate; [reflexivity|].
  cbn [app tfb_zip]. f_equal. apply IH. cbn [length] in Hl. lia.
Qed.

Lemma zip_len_eq : forall f a c, length a = length c -> length (tfb_zip f a c) = length a.
Proof.
  intros f. induction a as [|x a IH]; intros c Hl; destruct c as [|y c]; try discriminate; [reflexivity|].
  cbn [tfb_zip length]. f_equal. apply IH. cbn [length] in Hl. lia.
Qed.

Lemma zip_addm_subm : forall m px Q, length px = length Q ->
  Forall (fun v => v < m) px -> Forall (fun v => v < m) Q ->
  tfb_zip (tfb_addm m) (tfb_zip (tfb_subm m) px Q) Q = px.
Proof.
  intros m. induction px as [|x px IH]; intros Q Hl Hpx HQ; destruct Q as [|q Q]; try discriminate; [reflexivity|].
  inversion Hpx; subst. inversion HQ; subst. cbn [tfb_zip]. f_equal.
  - unfold tfb_addm, tfb_subm. apply addm_subm; assumption.
  - apply IH; [cbn [length] in Hl; lia|assumption|assumption].
Qed.

Lemma undiff_diff : forall m spp cols s Q, length Q = spp -> length s = (cols * spp)%nat ->
  Forall (fun v => v < m) s -> Forall (fun v => v < m) Q ->
  tfb_undiff m spp cols (tfb_zip (tfb_subm m) s (Q ++ s)) Q = s.
Proof.
  intros m spp. induction cols as [|c IH]; intros s Q HQl Hsl Hs HQ.
  - destruct s; [reflexivity|discriminate].
  - assert (Hsplit : exists px s', s = px ++ s' /\ length px = spp /\ length s' = (c * spp)%nat).
    { exists (firstn spp s), (skipn spp s). split; [symmetry; apply firstn_skipn|].
      rewrite firstn_length, skipn_length. cbn [Nat.mul] in Hsl. lia. }
    destruct Hsplit as (px & s' & -> & Hpl & Hsl').
    apply Forall_app in Hs. destruct Hs as [Hpx Hs'].
    cbn [tfb_undiff]. cbv zeta.
    rewrite (zip_app (tfb_subm m) px Q s' (px ++ s')) by lia.
    assert (Hzl : length (tfb_zip (tfb_subm m) px Q) = spp) by (rewrite zip_len_eq; lia).
    rewrite firstn_app, Hzl, Nat.sub_diag, firstn_O, app_nil_r, firstn_all2 by lia.
    rewrite skipn_app, Hzl, Nat.sub_diag, skipn_all2 by lia. cbn [skipn app].
    fold (tfb_addm m). rewrite zip_addm_subm by (assumption || lia).
    f_equal. apply IH; assumption.
Qed.

Lemma clear_encode_bits : forall p r, tfb_pok p -> length r = tf_bpr p ->
  bits_of_bytes (tfb_clear_pad (tf_bps p) (tf_spp p) (N.to_nat (tf_cols p))
                   (tfb_ref_encode_row (tf_bps p) (tf_spp p) (N.to_nat (tf_cols p)) r))
  = tfb_sample_bits (N.to_nat (tf_bps p))
      (tfb_diff (2 ^ tf_bps p) (tf_spp p)
         (tfb_unpack (N.to_nat (tf_bps p)) (N.to_nat (tf_cols p) * tf_spp p) (bits_of_bytes r)))
    ++ repeat false (8 * tf_bpr p - N.to_nat (tf_cols p) * tf_spp p * N.to_nat (tf_bps p)).
Proof.
  intros p r Hp Hlen.
  pose proof Hp as (H8 & Hb & Hspp & Hbpr).
  pose proof (bpr_bounds (tf_cols p) (tf_bps p) (tf_spp p)) as Hbd. cbv zeta in Hbd. rewrite <- Hbpr in Hbd.
  assert (HEl : length (tfb_ref_encode_row (tf_bps p) (tf_spp p) (N.to_nat (tf_cols p)) r) = tf_bpr p)
    by (unfold tfb_ref_encode_row; rewrite pack_bits_length; exact Hlen).
  unfold tfb_clear_pad. rewrite (encode_row_bits p r Hp Hlen), HEl.
  set (Y := tfb_sample_bits _ _).
  assert (HY : length Y = (N.to_nat (tf_cols p) * tf_spp p * N.to_nat (tf_bps p))%nat).
  { unfold Y. rewrite sample_bits_length, diff_len, unpack_length. reflexivity. }
  rewrite firstn_app, HY, Nat.sub_diag, firstn_O, app_nil_r, firstn_all2 by lia.
  apply bits_of_pack. rewrite app_length, HY, repeat_length. lia.
Qed.

Lemma decode_clear_encode_row : forall p r, tfb_pok p -> length r = tf_bpr p ->
  tfb_ref_decode_row (tf_bps p) (tf_spp p) (N.to_nat (tf_cols p))
    (tfb_clear_pad (tf_bps p) (tf_spp p) (N.to_nat (tf_cols p))
       (tfb_ref_encode_row (tf_bps p) (tf_spp p) (N.to_nat (tf_cols p)) r))
  = tfb_clear_pad (tf_bps p) (tf_spp p) (N.to_nat (tf_cols p)) r.
Proof.
  intros p r Hp Hlen.
  pose proof Hp as (H8 & Hb & Hspp & Hbpr).
  pose proof (bpr_bounds (tf_cols p) (tf_bps p) (tf_spp p)) as Hbd. cbv zeta in Hbd. rewrite <- Hbpr in Hbd.
  unfold tfb_ref_decode_row. rewrite (clear_encode_bits p r Hp Hlen).
  assert (HCl : length (tfb_clear_pad (tf_bps p) (tf_spp p) (N.to_nat (tf_cols p))
       (tfb_ref_encode_row (tf_bps p) (tf_spp p) (N.to_nat (tf_cols p)) r)) = tf_bpr p)
    by (unfold tfb_clear_pad, tfb_ref_encode_row; rewrite !pack_bits_length; exact Hlen).
  rewrite HCl. unfold tfb_clear_pad. rewrite Hlen.
  set (b := N.to_nat (tf_bps p)) in *. set (n := (N.to_nat (tf_cols p) * tf_spp p)%nat) in *.
  set (B := bits_of_bytes r) in *. set (m := 2 ^ tf_bps p) in *.
  set (s := tfb_unpack b n B) in *.
  assert (Hm : m <> 0) by (apply N.pow_nonzero; lia).
  assert (Em : 2 ^ N.of_nat b = m) by (unfold b, m; rewrite N2Nat.id; reflexivity).
  assert (Hsl : length s = n) by apply unpack_length.
  assert (Hslt : Forall (fun v => v < m) s) by (rewrite <- Em; apply unpack_lt).
  set (e := tfb_diff m (tf_spp p) s) in *.
  assert (Hel : length e = n) by (unfold e; rewrite diff_len; exact Hsl).
  assert (HY : length (tfb_sample_bits b e) = (n * b)%nat) by (rewrite sample_bits_length, Hel; reflexivity).
  set (pad := repeat false (8 * tf_bpr p - n * b)).
  pose proof (unpack_sample_bits b e pad) as Hun. rewrite Hel in Hun.
  rewrite C07Roundtrip.map_mod_small in Hun by (rewrite Em; unfold e; rewrite diff_is_zip; apply zip_subm_lt; exact Hm).
  rewrite Hun. clear Hun.
  rewrite skipn_app, HY, Nat.sub_diag, skipn_all2 by lia. cbn [skipn app].
  unfold e. rewrite diff_is_zip, undiff_diff.
  - unfold s. rewrite sample_bits_unpack by (unfold B; rewrite bits_of_bytes_length, Hlen; lia). reflexivity.
  - apply repeat_length.
  - exact Hsl.
  - exact Hslt.
  - apply Forall_forall. intros q Hq. apply repeat_spec in Hq. subst q. lia.
Qed.

Lemma rows_concat : forall bpr rows, (0 < bpr)%nat -> Forall (fun r : list N => length r = bpr) rows ->
  forall fuel, (length (concat rows) <= fuel)%nat -> tfb_rows_fuel fuel bpr (concat rows) = rows.
Proof.
  intros bpr. induction rows as [|r rows IH]; intros Hb Hrows fuel Hf.
  - destruct fuel; reflexivity.
  - inversion Hrows as [|r0 rows0 Hr Hrest]. subst r0 rows0.
    cbn [concat] in *. rewrite app_length in Hf.
    destruct fuel as [|f]; [lia|]. cbn [tfb_rows_fuel].
    destruct r as [|x r1]; [cbn [length] in Hr; lia|]. cbn [app].
    change (x :: r1 ++ concat rows) with ((x :: r1) ++ concat rows).
    set (r := x :: r1) in *. clearbody r.
    rewrite firstn_app, Hr, Nat.sub_diag, firstn_O, app_nil_r, firstn_all2 by lia.
    rewrite skipn_app, Hr, Nat.sub_diag, skipn_all2 by lia. cbn [skipn app].
    f_equal. apply IH; [exact Hb|exact Hrest|lia].
Qed.

(* ... hence the reference decoder (running sums per component) inverts qpdf's encoder *)
Lemma tiffbits_encoder_inverted_lemma : forall p rows,
  tf_bps p <> 8 -> 1 <= tf_bps p <= 32 -> (0 < tf_spp p)%nat -> (0 < tf_bpr p)%nat ->
  tf_bpr p = N.to_nat ((tf_cols p * (tf_bps p * N.of_nat (tf_spp p)) + 7) / 8) ->
  Forall (fun r => length r = tf_bpr p /\ bytes_ok r) rows ->
  tfb_ref_decode p (fst (tiff_run true p [concat rows]))
  = concat (map (tfb_clear_pad (tf_bps p) (tf_spp p) (N.to_nat (tf_cols p))) rows).
Proof.
  intros p rows H8 Hb Hspp Hbpr0 Hbpr Hrows.
  assert (Hp : tfb_pok p) by (repeat split; (assumption || lia)).
  rewrite (tiffbits_encoder_is_ref_lemma p rows H8 Hb Hspp Hbpr0 Hbpr Hrows). cbn [fst].
  unfold tfb_ref_decode, tfb_rows.
  rewrite rows_concat; [|exact Hbpr0| |lia].
  - rewrite map_map. f_equal. apply map_ext_in. intros r Hr.
    rewrite Forall_forall in Hrows. destruct (Hrows r Hr) as [Hl _].
    apply decode_clear_encode_row; assumption.
  - apply Forall_forall. intros x Hx. apply in_map_iff in Hx. destruct Hx as (r & <- & Hr).
    rewrite Forall_forall in Hrows. destruct (Hrows r Hr) as [Hl _].
    unfold tfb_clear_pad, tfb_ref_encode_row. rewrite !pack_bits_length. exact Hl.
Qed.

(* ================= a final partial row ================= *)
Lemma tiff_loop_short : forall enc p fuel last, (length last < tf_bpr p)%nat ->
  tiff_write_loop (S fuel) enc p [] last = (last, [], false).
Proof.
  intros enc p fuel last Hl. cbn [tiff_write_loop length]. cbv zeta. rewrite Nat.sub_0_r.
  replace (Nat.leb (tf_bpr p) (length last)) with false by (symmetry; apply Nat.leb_gt; exact Hl).
  reflexivity.
Qed.

Lemma tiff_loop_one_row : forall enc p fuel row, (0 < tf_bpr p)%nat -> length row = tf_bpr p -> (1 < fuel)%nat ->
  tiff_write_loop fuel enc p [] row =
  match tiff_process enc p row with None => ([], [], true) | Some out => ([], out ++ [], false) end.
Proof.
  intros enc p fuel row Hp Hl Hf. destruct fuel as [|[|fuel]]; try lia. cbn [tiff_write_loop length]. cbv zeta. rewrite Nat.sub_0_r, <- Hl.
  rewrite Nat.leb_refl, firstn_all, skipn_all. cbn [app length].
  destruct (tiff_process enc p row) as [out|]; [|reflexivity].
  replace (Nat.leb (length row) 0) with false by (symmetry; apply Nat.leb_gt; lia). reflexivity.
Qed.

(* finish() pads a partial last row with zero bytes: same result as feeding the padded row *)
Lemma tiff_partial_row_lemma : forall enc p (f : list N -> list N) rows last,
  (0 < tf_bpr p)%nat -> Forall (fun r => length (f r) = tf_bpr p) rows ->
  (0 < length last < tf_bpr p)%nat ->
  tiff_run enc p [concat (map f rows) ++ last]
  = tiff_run enc p [concat (map f rows) ++ last ++ zeros (tf_bpr p - length last)].
Proof.
  intros enc p f rows last Hp Hrows Hl.
  set (A := concat (map f rows)).
  set (padded := last ++ zeros (tf_bpr p - length last)).
  assert (Hpl : length padded = tf_bpr p) by (unfold padded, zeros; rewrite app_length, repeat_length; lia).
  replace [A ++ last] with [concat [A; last]] by (cbn [concat]; rewrite app_nil_r; reflexivity).
  replace [A ++ padded] with [concat [A; padded]] by (cbn [concat]; rewrite app_nil_r; reflexivity).
  rewrite <- !chunking_tiff_lemma by exact Hp.
  unfold tiff_run. cbn [tiff_run_chunks].
  assert (HA : fst (fst (tiff_write_loop (S (length A)) enc p [] A)) = []).
  { unfold A. clear -Hp Hrows. generalize (S (length (concat (map f rows)))) as fuel.
    induction rows as [|r rows IH]; intros fuel.
    - destruct fuel as [|fu]; [reflexivity|]. cbn [map concat]. rewrite tiff_loop_short by (cbn [length]; lia). reflexivity.
    - inversion Hrows as [|r0 rows0 Hr Hrest]. subst r0 rows0.
      destruct fuel as [|fu]; [reflexivity|]. cbn [map concat tiff_write_loop length]. cbv zeta. rewrite Nat.sub_0_r.
      replace (Nat.leb (tf_bpr p) (length (f r ++ concat (map f rows)))) with true
        by (symmetry; apply Nat.leb_le; rewrite app_length; lia).
      rewrite <- Hr. rewrite firstn_app, skipn_app, Nat.sub_diag, firstn_all, skipn_all. cbn [firstn skipn app].
      rewrite app_nil_r. destruct (tiff_process enc p (f r)) as [out|]; [|reflexivity].
      specialize (IH Hrest fu). destruct (tiff_write_loop fu enc p [] (concat (map f rows))) as [[c' o'] e'].
      exact IH. }
  destruct (tiff_write_loop (S (length A)) enc p [] A) as [[c1 o1] e1]. cbn [fst] in HA. subst c1.
  destruct e1; [reflexivity|].
  rewrite tiff_loop_short by lia.
  rewrite (tiff_loop_one_row enc p _ padded Hp Hpl) by lia.
  destruct last as [|x last']; [cbn [length] in Hl; lia|].
  fold padded.
  destruct (tiff_process enc p padded) as [out|]; rewrite ?app_nil_r; reflexivity.
Qed.

Lemma winN_length : forall enc m xs Q, Q <> [] -> length (tfb_winN enc m xs Q) = length xs.
Proof.
  intros enc m. induction xs as [|x xs IH]; intros Q HQ; [destruct Q; reflexivity|].
  destruct Q as [|q Q']; [congruence|]. cbn [tfb_winN length]. cbv zeta. f_equal.
  apply IH. destruct Q'; discriminate.
Qed.

(* processRow on the bit path never throws for 1 <= bps <= 32 and emits exactly one row *)
Lemma process_bits_total : forall enc p r, tfb_pok p -> length r = tf_bpr p -> bytes_ok r ->
  exists o, tiff_process enc p r = Some o /\ length o = tf_bpr p /\ bytes_ok o.
Proof.
  intros enc p r Hp Hlen Hok.
  pose proof Hp as (H8 & Hb & Hspp & Hbpr).
  pose proof (bpr_bounds (tf_cols p) (tf_bps p) (tf_spp p)) as Hbd. cbv zeta in Hbd. rewrite <- Hbpr in Hbd.
  destruct (process_bits_common enc p r Hp Hlen Hok) as (o & padlen & Hrun & Hpl & Hoko & Hbits).
  exists o. split; [exact Hrun|]. split; [|exact Hoko].
  apply (f_equal (@length bool)) in Hbits.
  rewrite bits_of_bytes_length, app_length, repeat_length, sample_bits_length, winN_length, unpack_length in Hbits
    by (destruct (tf_spp p); [lia|discriminate]).
  lia.
Qed.

(* bit path, decoder: after the complete rows, a partial last row is decoded as if zero-padded to a full row;
   processRow succeeds on it and emits one more full row *)
Lemma tiffbits_partial_row_lemma : forall p rows last,
  tf_bps p <> 8 -> 1 <= tf_bps p <= 32 -> (0 < tf_spp p)%nat -> (0 < tf_bpr p)%nat ->
  tf_bpr p = N.to_nat ((tf_cols p * (tf_bps p * N.of_nat (tf_spp p)) + 7) / 8) ->
  Forall (fun r => length r = tf_bpr p /\ bytes_ok r) rows ->
  (0 < length last < tf_bpr p)%nat -> bytes_ok last ->
  exists out, tiff_process false p (last ++ zeros (tf_bpr p - length last)) = Some out /\
    length out = tf_bpr p /\
    tiff_run false p [tfb_ref_encode p rows ++ last]
    = (concat (map (tfb_clear_pad (tf_bps p) (tf_spp p) (N.to_nat (tf_cols p))) rows) ++ out, false).
Proof.
  intros p rows last H8 Hb Hspp Hbpr0 Hbpr Hrows Hl Hlast.
  assert (Hp : tfb_pok p) by (repeat split; (assumption || lia)).
  set (padded := last ++ zeros (tf_bpr p - length last)).
  assert (Hpl : length padded = tf_bpr p) by (unfold padded, zeros; rewrite app_length, repeat_length; lia).
  assert (Hpok : bytes_ok padded) by (apply Forall_app; split; [exact Hlast|apply bytes_ok_zeros]).
  destruct (process_bits_total false p padded Hp Hpl Hpok) as (out & Hrun & Hol & _).
  exists out. split; [exact Hrun|]. split; [exact Hol|].
  unfold tfb_ref_encode.
  assert (Hfl : Forall (fun r => length (tfb_ref_encode_row (tf_bps p) (tf_spp p) (N.to_nat (tf_cols p)) r) = tf_bpr p) rows).
  { eapply Forall_impl; [|exact Hrows]. intros r [Hr _]. unfold tfb_ref_encode_row. rewrite pack_bits_length. exact Hr. }
  rewrite (tiff_partial_row_lemma false p _ rows last Hbpr0 Hfl Hl). fold padded.
  set (A := concat (map _ rows)).
  replace [A ++ padded] with [concat [A; padded]] by (cbn [concat]; rewrite app_nil_r; reflexivity).
  rewrite <- chunking_tiff_lemma by exact Hbpr0.
  unfold tiff_run. cbn [tiff_run_chunks]. unfold A.
  rewrite (tiff_loop_rows_fg false p _ (tfb_clear_pad (tf_bps p) (tf_spp p) (N.to_nat (tf_cols p))) rows).
  - rewrite (tiff_loop_one_row false p _ padded Hbpr0 Hpl) by lia. rewrite Hrun. rewrite !app_nil_r. reflexivity.
  - exact Hbpr0.
  - eapply Forall_impl; [|exact Hrows]. intros r [Hr Hok]. split.
    + unfold tfb_ref_encode_row. rewrite pack_bits_length. exact Hr.
    + apply tiffbits_process_dec; assumption.
  - lia.
Qed.

(* ================= 8 bits per sample: the same reference codec, no padding bits ================= *)
Lemma bits_is_sample_bits8 : forall l, bits_of_bytes l = tfb_sample_bits 8 l.
Proof. intros l. unfold bits_of_bytes, tfb_sample_bits. symmetry. apply flat_map_concat_map. Qed.

Lemma unpack8 : forall row, bytes_ok row -> tfb_unpack 8 (length row) (bits_of_bytes row) = row.
Proof.
  intros row Hok. rewrite bits_is_sample_bits8, <- (app_nil_r (tfb_sample_bits 8 row)), unpack_sample_bits.
  apply (C07Roundtrip.map_mod_small 8 row). exact Hok.
Qed.

Lemma pack8 : forall e rest, bytes_ok e -> tfb_pack_bits (length e) (tfb_sample_bits 8 e ++ rest) = e.
Proof. intros e rest Hok. rewrite <- bits_is_sample_bits8. apply pack_bits_of_bytes. exact Hok. Qed.

Lemma clear_pad8 : forall spp cols row, bytes_ok row -> length row = (cols * spp)%nat ->
  tfb_clear_pad 8 spp cols row = row.
Proof.
  intros spp cols row Hok Hl. unfold tfb_clear_pad.
  replace (cols * spp * N.to_nat 8)%nat with (8 * length row)%nat by (rewrite Hl; change (N.to_nat 8) with 8%nat; lia).
  rewrite Nat.sub_diag. cbn [repeat]. rewrite firstn_all2 by (rewrite bits_of_bytes_length; lia).
  apply pack_bits_of_bytes. exact Hok.
Qed.

Lemma map_of_N_zeros : forall n, map Z.of_N (repeat 0 n) = repeat 0%Z n.
Proof. induction n as [|n IH]; [reflexivity|]. cbn [repeat map]. rewrite IH. reflexivity. Qed.

Lemma zip_tiff_diff : forall spp row QN, length QN = spp -> (0 < spp)%nat -> bytes_ok row ->
  Forall (fun v => v < 256) QN ->
  tfb_zip (tfb_subm 256) row (QN ++ row) = tiff_diff spp (map Z.of_N QN) row.
Proof.
  intros spp. induction row as [|x row IH]; intros QN HQl Hspp Hrow HQ.
  - destruct QN; reflexivity.
  - destruct QN as [|q Q']; [cbn [length] in HQl; lia|].
    apply bytes_ok_cons_inv in Hrow. destruct Hrow as [Hx Hrow].
    inversion HQ as [|q0 Q0 Hq HQ']. subst q0 Q0.
    cbn [map]. rewrite (tiff_diff_cons spp (Z.of_N q) (map Z.of_N Q') x row) with (p' := Z.of_N x).
    + cbn [app tfb_zip]. f_equal.
      * unfold tfb_subm, sub8. rewrite Z.mod_small by lia. rewrite N2Z.id, (N.mod_small q) by exact Hq. reflexivity.
      * replace (Q' ++ x :: row) with ((Q' ++ [x]) ++ row) by (rewrite <- app_assoc; reflexivity).
        rewrite IH.
        -- rewrite map_app. reflexivity.
        -- rewrite app_length. cbn [length] in *. lia.
        -- exact Hspp.
        -- exact Hrow.
        -- apply Forall_app. split; [exact HQ'|]. constructor; [exact Hx|constructor].
    + cbn [length]. rewrite map_length. exact HQl.
    + apply Z.mod_small. lia.
Qed.

Lemma encode_row8 : forall spp cols row, (0 < spp)%nat -> bytes_ok row -> length row = (cols * spp)%nat ->
  tfb_ref_encode_row 8 spp cols row = ref_tiff8_encode_row spp row.
Proof.
  intros spp cols row Hspp Hok Hl. unfold tfb_ref_encode_row.
  change (N.to_nat 8) with 8%nat. change (2 ^ 8) with 256. rewrite <- Hl, unpack8 by exact Hok.
  rewrite skipn_all2 by (rewrite bits_of_bytes_length; lia).
  rewrite <- (diff_len 256 spp row) at 1. rewrite pack8 by (rewrite diff_is_zip; apply zip_subm_lt; lia).
  rewrite diff_is_zip, (zip_tiff_diff spp row (repeat 0 spp)); [|apply repeat_length|exact Hspp|exact Hok|].
  - rewrite map_of_N_zeros. apply tiff_diff_zero.
  - apply Forall_forall. intros q Hq. apply repeat_spec in Hq. subst q. lia.
Qed.

(* all sample widths BitStream / BitWriter accept, 8 included: qpdf's decoder inverts the reference
   encoder of TiffBitsSpec.v up to the unused bits at the end of each row, which come out as zero *)
Lemma tiff_decode_encode_all_lemma : forall p rows,
  1 <= tf_bps p <= 32 -> (0 < tf_spp p)%nat -> (0 < tf_bpr p)%nat ->
  tf_bpr p = N.to_nat ((tf_cols p * (tf_bps p * N.of_nat (tf_spp p)) + 7) / 8) ->
  Forall (fun r => length r = tf_bpr p /\ bytes_ok r) rows ->
  tiff_run false p [tfb_ref_encode p rows]
  = (concat (map (tfb_clear_pad (tf_bps p) (tf_spp p) (N.to_nat (tf_cols p))) rows), false).
Proof.
  intros p rows Hb Hspp Hbpr0 Hbpr Hrows.
  destruct (N.eq_dec (tf_bps p) 8) as [E8|N8]; [|apply tiffbits_decode_encode_lemma; assumption].
  assert (Ebpr : tf_bpr p = (N.to_nat (tf_cols p) * tf_spp p)%nat).
  { rewrite Hbpr, E8.
    replace (tf_cols p * (8 * N.of_nat (tf_spp p))) with (8 * (tf_cols p * N.of_nat (tf_spp p))) by lia.
    rewrite <- (N.div_unique (8 * (tf_cols p * N.of_nat (tf_spp p)) + 7) 8 (tf_cols p * N.of_nat (tf_spp p)) 7) by lia.
    lia. }
  unfold tfb_ref_encode. rewrite E8.
  rewrite (map_ext_in _ (ref_tiff8_encode_row (tf_spp p))).
  2:{ intros r Hr. rewrite Forall_forall in Hrows. destruct (Hrows r Hr) as [Hl Hok].
      apply encode_row8; [exact Hspp|exact Hok|lia]. }
  rewrite (map_ext_in (tfb_clear_pad 8 (tf_spp p) (N.to_nat (tf_cols p))) (fun r => r)).
  2:{ intros r Hr. rewrite Forall_forall in Hrows. destruct (Hrows r Hr) as [Hl Hok].
      apply clear_pad8; [exact Hok|lia]. }
  rewrite map_id. apply tiff8_decode_encode_lemma; assumption.
Qed.

(* no padding bits when the sample bits fill the row: clearing them is the identity *)
Lemma tfb_clear_pad_full_lemma : forall bps spp cols row, bytes_ok row ->
  (8 * length row = cols * spp * N.to_nat bps)%nat -> tfb_clear_pad bps spp cols row = row.
Proof.
  intros bps spp cols row Hok Hl. unfold tfb_clear_pad. rewrite <- Hl, Nat.sub_diag. cbn [repeat].
  rewrite firstn_all2 by (rewrite bits_of_bytes_length; lia).
  apply pack_bits_of_bytes. exact Hok.
Qed.

(* outside the proved range: the constructor accepts up to 64 bits per sample, but BitStream/BitWriter throw
   above 32, so processRow fails on the first sample (not reachable from PDF: BitsPerComponent <= 16) *)
Example tfb_ex_bps33 : tiff_make 1 1 33 = Some {| tf_cols := 1; tf_spp := 1; tf_bps := 33; tf_bpr := 5 |} /\
  tiff_run false {| tf_cols := 1; tf_spp := 1; tf_bps := 33; tf_bpr := 5 |} [[0; 0; 0; 0; 0]] = ([], true).
Proof. vm_compute. split; reflexivity. Qed.
