// C16 driver: the real Pl_QPDFTokenizer + ContentNormalizer (private header) from libqpdf.a, and the
// page-content entry points of QPDFObjectHandle (pipePageContents, filterPageContents,
// coalesceContentStreams) on pages built in-process.
#include "drv.hh"
#include <qpdf/ContentNormalizer.hh>
#include <qpdf/Pl_Buffer.hh>
#include <qpdf/Pl_QPDFTokenizer.hh>
#include <qpdf/QPDF.hh>
#include <qpdf/QPDFObjectHandle.hh>
#include <qpdf/QPDFExc.hh>
#include <qpdf/QPDFPageDocumentHelper.hh>
#include <qpdf/QPDFPageObjectHelper.hh>
#include <qpdf/QPDFTokenizer.hh>
#include <cctype>
#include <functional>
#include <map>
#include <memory>
#include <set>
#include <cstdio>
#include <stdexcept>

namespace {
    char const* c16_tt_names[] = {"bad", "array_close", "array_open", "brace_close", "brace_open", "dict_close",
        "dict_open", "integer", "name", "real", "string", "null", "bool", "word", "eof", "space", "comment",
        "inline_image"};

    std::string buf_string(Pl_Buffer& b) {
        auto p = b.getBufferSharedPointer();
        return std::string(reinterpret_cast<char const*>(p->getBuffer()), p->getSize());
    }

    class Recorder: public QPDFObjectHandle::TokenFilter {
      public:
        std::string out;
        void handleToken(QPDFTokenizer::Token const& t) override {
            int ty = static_cast<int>(t.getType());
            if (!out.empty()) out += ";";
            out += std::string((ty >= 0 && ty < 18) ? c16_tt_names[ty] : "type?") + "," + hex(t.getValue()) + "," +
                hex(t.getRawValue());
        }
    };

    std::vector<std::string> split_streams(std::string const& a) {
        std::vector<std::string> r;
        std::stringstream ss(a); std::string item;
        while (std::getline(ss, item, ',')) r.push_back(unhex(item));
        return r;
    }

    // a one-page document whose /Contents is the array of the given streams (a single stream when single)
    QPDFObjectHandle make_page(QPDF& pdf, std::vector<std::string> const& streams, bool single) {
        pdf.emptyPDF();
        QPDFObjectHandle page = pdf.makeIndirectObject(QPDFObjectHandle::parse(
            "<< /Type /Page /MediaBox [0 0 100 100] /Resources << >> >>"));
        if (single && streams.size() == 1) {
            page.replaceKey("/Contents", pdf.newStream(streams[0]));
        } else {
            std::vector<QPDFObjectHandle> v;
            for (auto const& s: streams) v.push_back(pdf.newStream(s));
            page.replaceKey("/Contents", QPDFObjectHandle::newArray(v));
        }
        QPDFPageDocumentHelper(pdf).addPage(page, false);
        return page;
    }
}

// c16norm <hex> [chunk]  ->  <hex output> <anyBadTokens> <lastTokenWasBad>     (chunk: write() granularity)
static Reg r_c16norm("c16norm", [](std::vector<std::string> const& a) -> std::string {
    std::string in = unhex(a.at(0));
    size_t chunk = a.size() > 1 ? static_cast<size_t>(std::stoul(a[1])) : 0;
    Pl_Buffer buf("out");
    ContentNormalizer norm;
    {
        Pl_QPDFTokenizer tk("normalizer", &norm, &buf);
        if (chunk == 0) {
            tk.write(reinterpret_cast<unsigned char const*>(in.data()), in.size());
        } else {
            for (size_t i = 0; i < in.size(); i += chunk) {
                tk.write(reinterpret_cast<unsigned char const*>(in.data()) + i, std::min(chunk, in.size() - i));
            }
        }
        tk.finish();
    }
    return hex(buf_string(buf)) + " " + (norm.anyBadTokens() ? "1" : "0") + " " + (norm.lastTokenWasBad() ? "1" : "0");
});

// c16toks <hex>  ->  type,value,raw;...   (what a token filter behind Pl_QPDFTokenizer sees)
static Reg r_c16toks("c16toks", [](std::vector<std::string> const& a) -> std::string {
    std::string in = unhex(a.at(0));
    Recorder rec;
    Pl_QPDFTokenizer tk("rec", &rec, nullptr);
    tk.write(reinterpret_cast<unsigned char const*>(in.data()), in.size());
    tk.finish();
    return rec.out.empty() ? "-" : rec.out;
});

// c16pipe <hex,hex,...>  ->  <hex of pipePageContents>
static Reg r_c16pipe("c16pipe", [](std::vector<std::string> const& a) -> std::string {
    QPDF pdf;
    auto page = make_page(pdf, split_streams(a.at(0)), false);
    Pl_Buffer buf("out");
    page.pipePageContents(&buf);
    return hex(buf_string(buf));
});

// c16coalesce <hex,hex,...>  ->  <hex of the single stream after coalesceContentStreams> <is stream>
static Reg r_c16coalesce("c16coalesce", [](std::vector<std::string> const& a) -> std::string {
    QPDF pdf;
    auto page = make_page(pdf, split_streams(a.at(0)), false);
    page.coalesceContentStreams();
    auto c = page.getKey("/Contents");
    if (!c.isStream()) return "notstream";
    auto p = c.getStreamData(qpdf_dl_generalized);
    return hex(std::string(reinterpret_cast<char const*>(p->getBuffer()), p->getSize()));
});

// c16filter <hex,hex,...>  ->  filterPageContents(ContentNormalizer): <hex> <any> <last>
static Reg r_c16filter("c16filter", [](std::vector<std::string> const& a) -> std::string {
    QPDF pdf;
    auto page = make_page(pdf, split_streams(a.at(0)), false);
    Pl_Buffer buf("out");
    ContentNormalizer norm;
    page.filterPageContents(&norm, &buf);
    return hex(buf_string(buf)) + " " + (norm.anyBadTokens() ? "1" : "0") + " " + (norm.lastTokenWasBad() ? "1" : "0");
});

// ------------------------------------------------------------------------------------------------
// Page-content LISTS: documents whose pages have an arbitrary /Contents value over an arbitrary object table
// (model: coq/Struct/ContentList.v).
//   <pages>   = value '/' value ...        one page per value; '-' = no /Contents key
//   value     = r<k> | n | o | d | a(value.value...)      reference / null / integer / dictionary / direct array
//   <objects> = k=s<hex> | k=s- | k=a(...) | k=n | k=o | k=d   joined by ','   ('-' alone: no objects)
// Every answer is one field per page joined by '/', each field ending in ':' + the warnings raised while that page
// was processed (i<index> = ignoring non-stream item, x = neither stream nor array, ?<text> = anything else).
namespace {
    struct PgDoc {
        // the document is written as a PDF file and read back (processMemoryFile), so that every object is what qpdf's
        // parser makes of a file (direct objects know their QPDF and warn through it instead of throwing)
        QPDF pdf;
        std::map<int, int> num;                  // object key -> object number
        std::map<QPDFObjGen, int> rev;
        std::vector<QPDFObjectHandle> pages;
        std::string file;

        std::string value(std::string const& s, size_t& i) {
            char c = s.at(i++);
            if (c == 'r') {
                size_t j = i;
                while (j < s.size() && isdigit(static_cast<unsigned char>(s[j]))) ++j;
                int k = std::stoi(s.substr(i, j - i));
                i = j;
                auto it = num.find(k);
                return std::to_string(it != num.end() ? it->second : 900000 + k) + " 0 R";
            }
            if (c == 'n') return "null";
            if (c == 'o') return "7";
            if (c == 'd') return "<< /A 1 >>";
            if (c == 'a' && s.at(i) == '(') {
                ++i;
                std::string v = "[";
                while (s.at(i) != ')') {
                    v += " " + value(s, i);
                    if (s.at(i) == '.') ++i;
                }
                ++i;
                return v + " ]";
            }
            throw std::runtime_error("bad value syntax");
        }

        PgDoc(std::string const& pages_s, std::string const& objs_s) {
            std::vector<std::string> pvals;
            { std::stringstream ps(pages_s); std::string pv; while (std::getline(ps, pv, '/')) pvals.push_back(pv); }
            std::vector<std::pair<int, std::string>> items;
            if (objs_s != "-") {
                std::stringstream ss(objs_s); std::string item;
                while (std::getline(ss, item, ',')) {
                    size_t eq = item.find('=');
                    items.emplace_back(std::stoi(item.substr(0, eq)), item.substr(eq + 1));
                }
            }
            int next = 3 + static_cast<int>(pvals.size());
            for (auto const& [k, body]: items) {
                if (!num.count(k)) { num[k] = next; rev[QPDFObjGen(next, 0)] = k; ++next; }
            }
            std::vector<std::string> bodies(static_cast<size_t>(next));
            bodies[1] = "<< /Type /Catalog /Pages 2 0 R >>";
            std::string kids;
            for (size_t p = 0; p < pvals.size(); ++p) {
                size_t i = 0;
                kids += " " + std::to_string(3 + p) + " 0 R";
                bodies[3 + p] = "<< /Type /Page /Parent 2 0 R /MediaBox [0 0 100 100] /Resources << >>" +
                    (pvals[p] == "-" ? std::string() : " /Contents " + value(pvals[p], i)) + " >>";
            }
            bodies[2] = "<< /Type /Pages /Count " + std::to_string(pvals.size()) + " /Kids [" + kids + " ] >>";
            std::set<int> done;
            for (auto const& [k, body]: items) {
                if (!done.insert(k).second) continue;
                size_t i = 0;
                if (body[0] == 's') {
                    std::string data = body == "s-" ? std::string() : unhex(body.substr(1));
                    bodies[static_cast<size_t>(num[k])] = "<< /Length " + std::to_string(data.size()) + " >>\nstream\n" + data + "\nendstream";
                } else {
                    bodies[static_cast<size_t>(num[k])] = value(body, i);
                }
            }
            file = "%PDF-1.4\n%\xbf\xf7\xa2\xfe\n";
            std::vector<size_t> offs(bodies.size());
            for (size_t n = 1; n < bodies.size(); ++n) {
                offs[n] = file.size();
                file += std::to_string(n) + " 0 obj\n" + bodies[n] + "\nendobj\n";
            }
            size_t xref = file.size();
            file += "xref\n0 " + std::to_string(bodies.size()) + "\n0000000000 65535 f \n";
            for (size_t n = 1; n < bodies.size(); ++n) {
                char buf[32];
                snprintf(buf, sizeof buf, "%010zu 00000 n \n", offs[n]);
                file += buf;
            }
            file += "trailer\n<< /Size " + std::to_string(bodies.size()) + " /Root 1 0 R >>\nstartxref\n" + std::to_string(xref) + "\n%%EOF\n";
            pdf.setSuppressWarnings(true);
            pdf.processMemoryFile("c16pg", file.data(), file.size());
            pages = pdf.getAllPages();
            setup_warns = warns();
        }
        std::string setup_warns;
        bool only_list_warnings = false;   // drop what is not a warning of arrayOrStreamToStreamArray (the object parser's own)

        std::string warns() {
            std::string r;
            for (auto const& w: pdf.getWarnings()) {
                std::string m = w.getMessageDetail(), o = w.getObject();
                if (!r.empty()) r += ".";
                size_t p = o.find("item index ");
                if (m.find("ignoring non-stream in an array of streams") != std::string::npos && p != std::string::npos) {
                    r += "i" + std::to_string(std::stoi(o.substr(p + 11)));
                } else if (m.find("is supposed to be a stream or an array of streams but is neither") != std::string::npos) {
                    r += "x";
                } else if (!only_list_warnings) {
                    r += "?" + hex(m);
                } else if (!r.empty()) {
                    r.pop_back();
                }
            }
            return r.empty() ? "-" : r;
        }

        std::string ids(std::vector<QPDFObjectHandle> const& v) {
            std::string r;
            for (auto const& h: v) {
                if (!r.empty()) r += ".";
                auto it = rev.find(h.getObjGen());
                r += it != rev.end() ? std::to_string(it->second) : std::string("N");
            }
            return r.empty() ? "-" : r;
        }
    };

    // fresh: a new document for every page (for operations that change objects other pages may share)
    std::string per_page(std::vector<std::string> const& a, std::function<std::string(PgDoc&, QPDFObjectHandle&)> f, bool fresh = false) {
        auto d0 = std::make_unique<PgDoc>(a.at(0), a.at(1));
        std::string out;
        if (d0->setup_warns != "-") return "setup-warnings " + d0->setup_warns;
        size_t npages = d0->pages.size();
        for (size_t pi = 0; pi < npages; ++pi) {
            if (fresh && pi > 0) d0 = std::make_unique<PgDoc>(a.at(0), a.at(1));
            PgDoc& d = *d0;
            auto& pg = d.pages.at(pi);
            std::string r;
            try {
                r = f(d, pg);
            } catch (QPDFExc& e) {
                // an item without an owning QPDF: its warning is thrown
                std::string o = e.getObject();
                size_t p = o.find("item index ");
                if (e.getMessageDetail().find("ignoring non-stream in an array of streams") != std::string::npos && p != std::string::npos) {
                    r = "exc:i" + std::to_string(std::stoi(o.substr(p + 11)));
                } else {
                    r = "exc" + hex(e.what());
                }
            } catch (std::exception& e) {
                std::string m = e.what();
                r = m.find("operation for stream attempted on object of type") != std::string::npos ? std::string("exctype") : "exc" + hex(m);
            }
            if (!out.empty()) out += "/";
            out += r + ":" + d.warns();
        }
        return out;
    }

    std::string hex_or_dash(std::string const& s) { return s.empty() ? "-" : hex(s); }

    class SizeCallbacks: public QPDFObjectHandle::ParserCallbacks {
      public:
        size_t size = 0; int objects = 0;
        void handleObject(QPDFObjectHandle, size_t, size_t) override { ++objects; }
        void handleEOF() override {}
        void contentSize(size_t n) override { size = n; }
    };
}

// c16pglist: getPageContents() as object keys, with repetitions
static Reg r_c16pglist("c16pglist", [](std::vector<std::string> const& a) -> std::string {
    return per_page(a, [](PgDoc& d, QPDFObjectHandle& pg) { return d.ids(pg.getPageContents()); });
});

// c16pgpipe: pipePageContents
static Reg r_c16pgpipe("c16pgpipe", [](std::vector<std::string> const& a) -> std::string {
    return per_page(a, [](PgDoc&, QPDFObjectHandle& pg) {
        Pl_Buffer buf("out");
        pg.pipePageContents(&buf);
        return hex_or_dash(buf_string(buf));
    });
});

// c16pgcoalesce: coalesceContentStreams; K = /Contents left as it was, S<hex> = replaced by a stream with these data
static Reg r_c16pgcoalesce("c16pgcoalesce", [](std::vector<std::string> const& a) -> std::string {
    return per_page(a, [](PgDoc&, QPDFObjectHandle& pg) {
        std::string before = pg.getKey("/Contents").unparse();
        pg.coalesceContentStreams();
        auto c = pg.getKey("/Contents");
        if (c.unparse() == before) return std::string("K");
        if (!c.isStream()) return std::string("notstream");
        auto p = c.getStreamData(qpdf_dl_generalized);
        return "S" + hex_or_dash(std::string(reinterpret_cast<char const*>(p->getBuffer()), p->getSize()));
    });
});

// c16pgfilter: filterPageContents(ContentNormalizer)
static Reg r_c16pgfilter("c16pgfilter", [](std::vector<std::string> const& a) -> std::string {
    return per_page(a, [](PgDoc&, QPDFObjectHandle& pg) {
        Pl_Buffer buf("out");
        ContentNormalizer norm;
        pg.filterPageContents(&norm, &buf);
        return hex_or_dash(buf_string(buf)) + " " + (norm.anyBadTokens() ? "1" : "0") + " " + (norm.lastTokenWasBad() ? "1" : "0");
    });
});

// c16pgtoks: what a token filter behind filterPageContents sees
static Reg r_c16pgtoks("c16pgtoks", [](std::vector<std::string> const& a) -> std::string {
    return per_page(a, [](PgDoc&, QPDFObjectHandle& pg) {
        Recorder rec;
        pg.filterPageContents(&rec, nullptr);
        return rec.out.empty() ? std::string("-") : rec.out;
    });
});

// c16pgaddtf: addContentTokenFilter(ContentNormalizer) (coalesces, then attaches the filter to the stream), then the
// data of /Contents as a writer would fetch them
static Reg r_c16pgaddtf("c16pgaddtf", [](std::vector<std::string> const& a) -> std::string {
    return per_page(a, [](PgDoc&, QPDFObjectHandle& pg) {
        pg.addContentTokenFilter(std::shared_ptr<QPDFObjectHandle::TokenFilter>(new ContentNormalizer()));
        auto c = pg.getKey("/Contents");
        if (!c.isStream()) return std::string("notstream");
        Pl_Buffer buf("out");
        c.pipeStreamData(&buf, 0, qpdf_dl_generalized);
        return hex_or_dash(buf_string(buf));
    }, true);      // the filter is attached to the stream object itself when /Contents is a single stream
});

// c16pgparse: parsePageContents: the size of the content the parser is given
static Reg r_c16pgparse("c16pgparse", [](std::vector<std::string> const& a) -> std::string {
    return per_page(a, [](PgDoc& d, QPDFObjectHandle& pg) {
        d.only_list_warnings = true;
        SizeCallbacks cb;
        pg.parsePageContents(&cb);
        return std::to_string(cb.size);
    });
});

// c16pgadd <pages> <objects> <first:0|1>: addPageContents(new stream, first); the resulting getPageContents (N = the new one) and pipePageContents
static Reg r_c16pgadd("c16pgadd", [](std::vector<std::string> const& a) -> std::string {
    bool first = a.at(2) == "1";
    return per_page(a, [first](PgDoc& d, QPDFObjectHandle& pg) {
        pg.addPageContents(d.pdf.newStream("q\n"), first);
        Pl_Buffer buf("out");
        pg.pipePageContents(&buf);
        return d.ids(pg.getPageContents()) + ";" + hex_or_dash(buf_string(buf));
    });
});

// c16pgext <pages> <objects> <min>: QPDFPageObjectHelper::externalizeInlineImages(min), then the page content and the
// image XObjects of the page's resources:  <hex content>;<hex name>=<hex data>;...
static Reg r_c16pgext("c16pgext", [](std::vector<std::string> const& a) -> std::string {
    size_t min_size = static_cast<size_t>(std::stoul(a.at(2)));
    return per_page(a, [min_size](PgDoc&, QPDFObjectHandle& pg) {
        QPDFPageObjectHelper(pg).externalizeInlineImages(min_size, false);
        Pl_Buffer buf("out");
        pg.pipePageContents(&buf);
        std::string r = hex_or_dash(buf_string(buf)) + ";" + (pg.getKey("/Contents").isStream() ? "S" : "K");
        auto xo = pg.getKey("/Resources").getKey("/XObject");
        if (xo.isDictionary()) {
            for (auto const& k: xo.getKeys()) {
                auto im = xo.getKey(k);
                if (im.isStream()) {
                    auto p = im.getRawStreamData();
                    r += ";" + hex(k.substr(1)) + "=" + hex_or_dash(std::string(reinterpret_cast<char const*>(p->getBuffer()), p->getSize()));
                }
            }
        }
        return r;
    });
});
