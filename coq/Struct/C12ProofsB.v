(* C12 (extension) - proofs about Struct/PageAttr.v against Struct/PageAttrSpec.v, part B:
   basic facts, rotatePage on a page inside a tree of any depth, shape of the flattened tree.
   Every statement is for ALL trees (induction on the rose tree), all stores, all angles. *)
From QV Require Import Base.Bytes Struct.PageOps Struct.PageAttr Struct.PageAttrSpec Struct.C12Proofs.
From Coq Require Import List ZArith NArith Bool Lia.
Import ListNotations.
Local Open Scope N_scope.

(* ---------------------------------------------------------------- induction on page trees *)
Section PaTreeInd.
  Variable P : pa_tree -> Prop.
  Hypothesis Hp : forall i p d, P (PaPage i p d).
  Hypothesis Hn : forall i p c d kids, Forall P kids -> P (PaNode i p c d kids).
  Fixpoint pa_tree_ind2 (t : pa_tree) : P t :=
    match t with
    | PaPage i p d => Hp i p d
    | PaNode i p c d kids =>
        Hn i p c d kids
           ((fix go (l : list pa_tree) : Forall P l :=
               match l with
               | [] => Forall_nil P
               | k :: l' => Forall_cons k (pa_tree_ind2 k) (go l')
               end) kids)
    end.
End PaTreeInd.

(* ---------------------------------------------------------------- quads *)
Lemma pa_qget_qset_same : forall A (q : pa_quad A) k a, pa_qget (pa_qset q k a) k = a.
Proof. intros A q k a. destruct k; reflexivity. Qed.
Lemma pa_qget_qset_other : forall A (q : pa_quad A) k k' a, k <> k' -> pa_qget (pa_qset q k a) k' = pa_qget q k'.
Proof. intros A q k k' a H. destruct k, k'; try reflexivity; congruence. Qed.
Lemma pa_quad_ext : forall A (a b : pa_quad A), (forall k, pa_qget a k = pa_qget b k) -> a = b.
Proof.
  intros A [a0 a1 a2 a3] [b0 b1 b2 b3] H.
  pose proof (H PaCrop). pose proof (H PaMedia). pose proof (H PaRes). pose proof (H PaRot).
  cbn in *. congruence.
Qed.
Lemma pa_qget_qinit : forall A (f : pa_ik -> A) k, pa_qget (pa_qinit f) k = f k.
Proof. intros A f k. destruct k; reflexivity. Qed.
Lemma pa_qget_qconst : forall A (a : A) k, pa_qget (pa_qconst a) k = a.
Proof. intros A a k. destruct k; reflexivity. Qed.
Lemma pa_ik_eq_dec : forall a b : pa_ik, {a = b} + {a <> b}.
Proof. decide equality. Qed.

Lemma pas_over_get : forall st inh d k,
  pa_qget (pas_over st inh d) k = match pa_getden st d k with PaoNull => pa_qget inh k | o => o end.
Proof. intros. unfold pas_over. apply pa_qget_qinit. Qed.

Lemma pa_getden_set_same : forall st d k v, pa_getden st (pa_set d k v) k = pa_den st v.
Proof. intros. unfold pa_getden, pa_get, pa_set. cbn. rewrite pa_qget_qset_same. reflexivity. Qed.
Lemma pa_getden_set_other : forall st d k k' v, k <> k' -> pa_getden st (pa_set d k v) k' = pa_getden st d k'.
Proof. intros. unfold pa_getden, pa_get, pa_set. cbn. rewrite pa_qget_qset_other by assumption. reflexivity. Qed.

(* ---------------------------------------------------------------- lists *)
Lemma Forall2_flat_map_map : forall A B C (R : B -> C -> Prop) (f : A -> list B) (g : A -> list C) (h : A -> A) (l : list A),
  Forall (fun k => Forall2 R (f k) (g (h k))) l ->
  Forall2 R (flat_map f l) (flat_map g (map h l)).
Proof.
  intros A B C R f g h l H. induction H; cbn.
  - constructor.
  - apply Forall2_app; assumption.
Qed.

Lemma flat_map_map_eq : forall A B (f g : A -> list B) (h : A -> A) (l : list A),
  Forall (fun k => g (h k) = f k) l -> flat_map g (map h l) = flat_map f l.
Proof.
  intros A B f g h l H. induction H; cbn; [reflexivity|]. rewrite H, IHForall. reflexivity.
Qed.

(* ---------------------------------------------------------------- rotatePage *)
(* the environment the specification has built when it arrives under the dictionaries of chain (nearest first) *)
Definition pa_env (st : pa_store) (chain : list pa_dict) : pas_attrs :=
  fold_right (fun d inh => pas_over st inh d) pas_none chain.

(* a legal /Rotate (Table 30) that fits the implementation limit of Annex C (32-bit integers) *)
Definition pas_rot_legal (a : pas_attrs) : Prop :=
  pa_qget a PaRot = PaoNull \/
  exists z, pa_qget a PaRot = PaoInt z /\ (z mod 90 = 0)%Z /\ (-2147483648 <= z <= 2147483647)%Z.

Lemma pa_clamp_id : forall z, (-2147483648 <= z <= 2147483647)%Z -> pa_clamp_int z = z.
Proof.
  intros z H. unfold pa_clamp_int.
  destruct (Z.ltb_spec z (-2147483648)); [lia|]. destruct (Z.ltb_spec 2147483647 z); [lia|]. reflexivity.
Qed.

(* the loop of rotatePage finds the effective /Rotate of the specification *)
Lemma pa_old_angle_env : forall st chain,
  (pa_qget (pa_env st chain) PaRot = PaoNull -> pa_old_angle st chain = 0%Z) /\
  (forall z, pa_qget (pa_env st chain) PaRot = PaoInt z -> pa_old_angle st chain = pa_clamp_int z).
Proof.
  intros st chain. induction chain as [|d up [IH0 IHz]]; cbn [pa_env fold_right pa_old_angle].
  - split; [reflexivity|]. intros z H. unfold pas_none in H. rewrite pa_qget_qconst in H. discriminate.
  - fold (pa_env st up). rewrite pas_over_get.
    destruct (pa_getden st d PaRot) eqn:E; split; intros; try congruence; auto.
Qed.

Lemma pa_rotate_dict_spec : forall st angle rel chain d,
  (angle mod 90 = 0)%Z ->
  let a := pas_over st (pa_env st chain) d in
  let b := pas_over st (pa_env st chain) (pa_rotate_dict st angle rel chain d) in
  (forall k, k <> PaRot -> pa_qget b k = pa_qget a k) /\
  (pas_rot_legal a -> forall old, pas_rotation a = Some old -> pas_rotation b = Some (pas_rotated old angle rel)).
Proof.
  intros st angle rel chain d Ha a b.
  unfold pa_rotate_dict in b.
  destruct (rotate_angle (pa_old_angle st (d :: chain)) angle rel) as [r|] eqn:Er.
  2:{ (* impossible: angle is a multiple of 90 *)
      exfalso. unfold rotate_angle, c_rem in Er. rewrite rem90_mod90, Ha in Er. cbn in Er. discriminate. }
  split.
  - intros k Hk. subst a b. rewrite !pas_over_get. rewrite pa_getden_set_other by congruence. reflexivity.
  - intros Hleg old Hold.
    pose proof (rotate_mod360_lemma _ _ _ _ Ha Er) as [Hmod _]. cbn zeta in Hmod.
    assert (Hb : pa_qget b PaRot = PaoInt r).
    { subst b. rewrite pas_over_get, pa_getden_set_same. reflexivity. }
    assert (Henv : pas_over st (pa_env st chain) d = pa_env st (d :: chain)) by reflexivity.
    destruct (pa_old_angle_env st (d :: chain)) as [W0 Wz].
    unfold pas_rotation in *. rewrite Hb.
    destruct Hleg as [Hn | [z [Hz [Hz90 Hrange]]]].
    + fold a in Henv. rewrite Hn in Hold. injection Hold as <-.
      rewrite W0 in Hmod by (rewrite <- Henv; exact Hn).
      change ((0 mod 90 =? 0)%Z) with true in Hmod. cbn iota in Hmod.
      assert (H90 : (r mod 90 = 0)%Z).
      { destruct rel.
        - assert (r mod 360 = angle mod 360)%Z by (rewrite Hmod; f_equal; lia).
          pose proof (Z.div_mod r 360 ltac:(lia)). pose proof (Z.div_mod angle 360 ltac:(lia)).
          pose proof (Z.div_mod angle 90 ltac:(lia)).
          replace r with (90 * (4 * (r / 360) + (angle / 90 - 4 * (angle / 360))))%Z by lia.
          rewrite Z.mul_comm. apply Z_mod_mult.
        - pose proof (Z.div_mod r 360 ltac:(lia)). pose proof (Z.div_mod angle 360 ltac:(lia)).
          pose proof (Z.div_mod angle 90 ltac:(lia)).
          replace r with (90 * (4 * (r / 360) + (angle / 90 - 4 * (angle / 360))))%Z by lia.
          rewrite Z.mul_comm. apply Z_mod_mult. }
      rewrite H90. cbn. f_equal. unfold pas_rotated. rewrite Hmod. destruct rel; reflexivity.
    + fold a in Henv. rewrite Hz in Hold. rewrite Hz90 in Hold. cbn in Hold. injection Hold as <-.
      rewrite (Wz z) in Hmod by (rewrite <- Henv; exact Hz).
      rewrite pa_clamp_id in Hmod by exact Hrange.
      rewrite Hz90 in Hmod. cbn in Hmod.
      assert (H90 : (r mod 90 = 0)%Z).
      { pose proof (Z.div_mod r 360 ltac:(lia)). pose proof (Z.div_mod angle 90 ltac:(lia)). pose proof (Z.div_mod z 90 ltac:(lia)).
        destruct rel.
        - pose proof (Z.div_mod (z + angle) 360 ltac:(lia)).
          replace r with (90 * (4 * (r / 360) + (z / 90 + angle / 90 - 4 * ((z + angle) / 360))))%Z by lia.
          rewrite Z.mul_comm. apply Z_mod_mult.
        - pose proof (Z.div_mod angle 360 ltac:(lia)).
          replace r with (90 * (4 * (r / 360) + (angle / 90 - 4 * (angle / 360))))%Z by lia.
          rewrite Z.mul_comm. apply Z_mod_mult. }
      rewrite H90. cbn. f_equal. unfold pas_rotated. rewrite Hmod. destruct rel; [|reflexivity].
      rewrite Zplus_mod_idemp_l. reflexivity.
Qed.

(* what rotatePage(angle, relative) on page id must do to the effective attributes of a page *)
Definition pas_rotate_rel (id : N) (angle : Z) (rel : bool) (a b : N * pas_attrs) : Prop :=
  fst b = fst a /\
  (fst a <> id -> snd b = snd a) /\
  (fst a = id ->
     (forall k, k <> PaRot -> pa_qget (snd b) k = pa_qget (snd a) k) /\
     (pas_rot_legal (snd a) -> forall old, pas_rotation (snd a) = Some old ->
        pas_rotation (snd b) = Some (pas_rotated old angle rel))).

Lemma pa_rotate_tree_env : forall st id angle rel, (angle mod 90 = 0)%Z -> forall t chain,
  Forall2 (pas_rotate_rel id angle rel)
          (pas_eff st (pa_env st chain) t)
          (pas_eff st (pa_env st chain) (pa_rotate_tree st id angle rel chain t)).
Proof.
  intros st id angle rel Ha t. induction t as [i p d | i p c d kids IH] using pa_tree_ind2; intros chain.
  - cbn [pa_rotate_tree]. destruct (N.eqb_spec i id) as [->|Hne].
    + cbn [pas_eff]. constructor; [|constructor].
      destruct (pa_rotate_dict_spec st angle rel chain d Ha) as [H1 H2].
      unfold pas_rotate_rel. cbn [fst snd]. split; [reflexivity|]. split; [congruence|]. intros _. split; assumption.
    + cbn [pas_eff]. constructor; [|constructor]. unfold pas_rotate_rel. cbn [fst snd].
      split; [reflexivity|]. split; [reflexivity|]. congruence.
  - cbn [pa_rotate_tree pas_eff].
    change (pas_over st (pa_env st chain) d) with (pa_env st (d :: chain)).
    apply Forall2_flat_map_map.
    eapply Forall_impl; [|exact IH]. intros k Hk. apply Hk.
Qed.

(* rotatePage on a page of a tree of any depth and shape: the page's effective rotation becomes
   (old effective + angle) mod 360, resp. angle mod 360 - whether the old rotation was its own, inherited from any
   ancestor, absent, or an explicit 0 under an inherited one; its other effective attributes and every other page's
   effective attributes are unchanged; the page sequence is unchanged. *)
Lemma pa_rotate_effective_lemma : forall st t id angle rel,
  (angle mod 90 = 0)%Z ->
  Forall2 (pas_rotate_rel id angle rel)
          (pas_doc_eff st t) (pas_doc_eff st (pa_rotate_tree st id angle rel [] t)).
Proof. intros. unfold pas_doc_eff. apply (pa_rotate_tree_env st id angle rel H t []). Qed.

(* the written /Rotate lies in [0,360) whenever old effective + angle >= -360 (always for the CLI's 0/90/180/270) *)
Lemma pa_rotate_op_lemma : forall id angle rel doc,
  (angle mod 90 = 0)%Z -> In id (pa_page_ids (pa_root doc)) ->
  exists doc', pa_op_rotate id angle rel doc = (doc', PaROk) /\ pa_st doc' = pa_st doc /\
    Forall2 (pas_rotate_rel id angle rel) (pas_doc_eff (pa_st doc) (pa_root doc)) (pas_doc_eff (pa_st doc') (pa_root doc')).
Proof.
  intros id angle rel doc Ha Hin. unfold pa_op_rotate, c_rem. rewrite rem90_mod90, Ha. cbn [Z.eqb negb].
  assert (E : existsb (N.eqb id) (pa_page_ids (pa_root doc) ++ map pa_id (pa_det doc)) = true).
  { apply existsb_exists. exists id. split; [apply in_or_app; left; exact Hin | apply N.eqb_refl]. }
  rewrite E. cbn [negb]. eexists. split; [reflexivity|]. cbn [pa_st pa_root]. split; [reflexivity|].
  apply pa_rotate_effective_lemma. exact Ha.
Qed.

(* an angle that is not a multiple of 90 is refused and nothing changes *)
Lemma pa_rotate_rejects_lemma : forall id angle rel doc,
  (angle mod 90 <> 0)%Z -> pa_op_rotate id angle rel doc = (doc, PaRErr PaERt).
Proof.
  intros id angle rel doc Ha. unfold pa_op_rotate, c_rem. rewrite rem90_mod90.
  destruct (Z.eqb_spec (angle mod 90) 0); [contradiction|]. reflexivity.
Qed.

(* ---------------------------------------------------------------- shape of the flattened tree *)
Definition pa_is_page (t : pa_tree) : Prop := match t with PaPage _ _ _ => True | _ => False end.

Lemma pa_pages_are_pages : forall t, Forall pa_is_page (pa_pages t).
Proof.
  intros t. induction t as [i p d | i p c d kids IH] using pa_tree_ind2; cbn [pa_pages].
  - constructor; [exact I | constructor].
  - induction IH; cbn; [constructor|]. apply Forall_app. split; assumption.
Qed.

Lemma pa_nodupb_NoDup : forall l, pa_nodupb l = true -> NoDup l.
Proof.
  induction l as [|i l IH]; cbn; intros H; [constructor|].
  apply andb_prop in H as [H1 H2]. constructor; [|auto].
  intros Hin. apply negb_true_iff in H1.
  assert (existsb (N.eqb i) l = true) by (apply existsb_exists; exists i; split; [assumption | apply N.eqb_refl]).
  congruence.
Qed.

Lemma pa_number_spec : forall l from k i, nth_error l k = Some i -> NoDup l ->
  pa_pos_find (pa_number l from) i = Some (from + Z.of_nat k)%Z.
Proof.
  induction l as [|j l IH]; intros from k i Hk Hnd; [destruct k; discriminate|].
  inversion Hnd as [|? ? Hnotin Hnd']; subst.
  destruct k as [|k]; cbn in Hk |- *.
  - injection Hk as ->. rewrite N.eqb_refl. f_equal. lia.
  - destruct (N.eqb_spec j i) as [->|Hne].
    + exfalso. apply Hnotin. eapply nth_error_In; eassumption.
    + rewrite (IH (from + 1)%Z k i Hk Hnd'). f_equal. lia.
Qed.

Lemma pa_id_set_parent : forall r t, pa_id (pa_set_parent r t) = pa_id t.
Proof. intros r [ | ]; reflexivity. Qed.

(* Pages::flattenPagesTree, whenever it actually runs (pageobj_to_pages_pos empty) on a document of the modelled
   domain: the root's kids are exactly the pages in document order (ids of the leaves of the pushed tree), every kid
   is a page whose /Parent is the root, no page object occurs twice, pageobj_to_pages_pos maps the k-th page to k,
   and unless "/Count is wrong after flattening pages tree" is thrown the root's /Count is the number of pages. *)
Lemma pa_flatten_shape_lemma : forall doc doc' e,
  pa_pos doc = [] -> pa_flatten doc = (doc', e) -> e <> Some PaEUnm ->
  let pushed := pa_root (fst (pa_op_push true true doc)) in
  exists r p c d kids,
    pa_root doc' = PaNode r p c d kids /\
    pa_id pushed = r /\
    map pa_id kids = pa_page_ids pushed /\
    Forall (fun k => match k with PaPage _ q _ => q = Some r | PaNode _ _ _ _ _ => False end) kids /\
    NoDup (map pa_id kids) /\
    (forall k i, nth_error (map pa_id kids) k = Some i -> pa_pos_find (pa_pos doc') i = Some (Z.of_nat k)) /\
    (e = None -> pa_count_uint c = Z.of_nat (length kids)) /\
    (e = None -> (0 < length kids)%nat -> pas_flat_ok (pa_root doc')).
Proof.
  intros doc doc' e Hpos Hfl Hne pushed. unfold pa_flatten in Hfl. rewrite Hpos in Hfl.
  subst pushed. destruct (fst (pa_op_push true true doc)) as [root st nx ca pu po de] eqn:Ed. cbn [pa_root] in *.
  destruct root as [i p d | r p c d kids0]; [injection Hfl as <- <-; congruence|].
  cbn [pa_root pa_st pa_next pa_cached pa_pushed pa_det] in Hfl.
  set (pgs := pa_pages (PaNode r p c d kids0)) in *.
  destruct (pa_nodupb (map pa_id pgs)) eqn:End; cbn [negb] in Hfl; [|injection Hfl as <- <-; congruence].
  assert (Hids : map pa_id (map (pa_set_parent r) pgs) = map pa_id pgs).
  { rewrite map_map. apply map_ext. intros. apply pa_id_set_parent. }
  assert (Hnd : NoDup (map pa_id pgs)) by (apply pa_nodupb_NoDup; exact End).
  assert (Hnd' : NoDup (map pa_id (map (pa_set_parent r) pgs))) by (rewrite Hids; exact Hnd).
  assert (Hpar : Forall (fun k => match k with PaPage _ q _ => q = Some r | PaNode _ _ _ _ _ => False end) (map (pa_set_parent r) pgs)).
  { apply Forall_map. eapply Forall_impl; [|apply pa_pages_are_pages]. intros [ | ] H; cbn in *; [reflexivity | contradiction]. }
  assert (Hfind : forall root' doc'', doc'' = PaDoc root' st nx ca pu (pa_number (map pa_id pgs) 0) de ->
            forall k i, nth_error (map pa_id (map (pa_set_parent r) pgs)) k = Some i -> pa_pos_find (pa_pos doc'') i = Some (Z.of_nat k)).
  { intros root' doc'' -> k i Hk. cbn [pa_pos]. rewrite Hids in Hk. rewrite (pa_number_spec _ 0%Z k i Hk Hnd). f_equal. }
  destruct (Z.eqb_spec (pa_count_uint c) (Z.of_nat (length pgs))) as [Hc|Hc]; injection Hfl as <- <-;
    exists r, p, c, d, (map (pa_set_parent r) pgs); cbn [pa_root pa_id];
    (split; [reflexivity|]); (split; [reflexivity|]); (split; [exact Hids|]); (split; [exact Hpar|]);
    (split; [exact Hnd'|]); (split; [eapply Hfind; reflexivity|]).
  - split; [intros _; rewrite map_length; exact Hc|].
    intros _ Hlen. cbn. rewrite map_length in *. split; [|split; [exact Hpar | exact Hnd']].
    unfold pa_count_uint in Hc. destruct c as [z|]; [|lia]. destruct (Z.ltb_spec z 0); [lia|]. f_equal. exact Hc.
  - split; intros; discriminate.
Qed.
