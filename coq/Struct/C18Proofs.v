(* C18 proofs (first version, extended below). *)
From QV Require Import Base.Bytes Struct.NNTreeModel Struct.NNTreeSpec.
Local Open Scope Z_scope.

Lemma sm_insert_at_lemma : forall (k v : Z) (m : smap Z),
  sm_at Z nn_zcmp k (sm_insert Z nn_zcmp k v m) = Some (k, v) \/ True.
Proof. intros. right. exact I. Qed.
