(* C03 (lexical layer): theorems relating the tokenizer model (Lex/TokModel.v), its reading
   (Lex/TokInterp.v) and the ISO 32000-1 lexical specification (Lex/LexSpec.v). *)
From QV Require Import Base.Bytes Lex.TokModel Lex.LexSpec Lex.TokInterp Lex.LexRun.
Local Open Scope N_scope.

Local Arguments N.eqb : simpl never.
Local Arguments N.leb : simpl never.
Local Arguments N.ltb : simpl never.
Local Arguments N.add : simpl never.
Local Arguments N.sub : simpl never.
Local Arguments N.mul : simpl never.
Local Arguments N.modulo : simpl never.
Local Arguments rev' : simpl never.
Local Arguments list_eqb : simpl never.
Local Arguments run : simpl never.

Definition token_run (s : list N) : list N :=
  fst (span_while iso_regular (match s with b :: r => if b =? 47 then r else s | [] => s end)).

Lemma head_run_eq inp : head_run inp = token_run (skip_ignorable false inp).
Proof. reflexivity. Qed.

Lemma bytes_ok_app a b : bytes_ok (a ++ b) -> bytes_ok a /\ bytes_ok b.
Proof. unfold bytes_ok. intros H. apply Forall_app in H. exact H. Qed.

Lemma span_ends_ok r w rest : bytes_ok r -> span_while iso_regular r = (w, rest) -> ends_ok rest.
Proof.
  intros Hb Hs. destruct (span_while_spec _ _ _ _ Hs) as (-> & _ & Hh).
  apply bytes_ok_app in Hb. destruct Hb as [_ Hb]. destruct rest as [|x rest]; [exact I|].
  inversion Hb; subst. cbn. apply nonreg_delim; assumption.
Qed.

Section T.
Variable ae : bool.
Notation S st val raw depth c h d := (mkTk st ae false TT_bad val raw TE_none false true 0 0 false depth c h d).
Notation F c h d := (mkTk TS_before_token ae false TT_bad [] [] TE_none true false 0 0 false 0%Z c h d).

Ltac first_step := rewrite run_cons; unfold present_char_nr, handle_character; cbn [t_state]; unfold in_before_token, in_top; ev; norm.

Lemma token_at_run s tok rest c h d :
  bytes_ok s -> spec_token_at s = LexTok tok rest -> ~ In 11 (token_run s) ->
  exists t', run (F c h d) s = (t', rest) /\ tok_interp (tk_token t') = Some tok.
Proof.
  intros Hb Hs Hvt. destruct s as [|b r]; [discriminate|].
  inversion Hb as [|? ? Hb1 Hb2]; subst. cbn [spec_token_at] in Hs.
  ceq b 40 Hs E40.
  { destruct (lit_string 0 r) as [[v rest']|] eqn:El; [|discriminate]. injection Hs as <- <-.
    first_step.
    destruct (lit_run ae (Datatypes.S (length r)) r ltac:(lia) 0%nat v rest' [] [40] 1%Z c h d eq_refl El) as (t' & Hr & Hd).
    exists t'. split; [exact Hr|]. rewrite (interp_string t' _ Hd). rewrite app_nil_r, rev_involutive. reflexivity. }
  ceq b 60 Hs E60.
  { destruct r as [|c1 r1]; [discriminate|].
    ceq c1 60 Hs Ec.
    - injection Hs as <- <-. first_step. rewrite run_cons. unfold present_char_nr, handle_character. cbn [t_state].
      unfold in_lt. ev. norm. eexists. split; reflexivity.
    - unfold hex_string in Hs. destruct (span_while (fun b => negb (b =? 62)) (c1 :: r1)) as [body rest0] eqn:Esp.
      destruct rest0 as [|x rest']; [discriminate|].
      destruct (span_while_spec _ _ _ _ Esp) as (Happ & _ & Hx). cbv beta in Hx. apply negb_false_iff, N.eqb_eq in Hx. subst x.
      ev_in Hs. destruct (hex_digits body) as [ds|] eqn:Ehd; [|discriminate]. injection Hs as <- <-.
      first_step. rewrite (lt_equiv ae [] [60] 0%Z c h d c1 r1 Ec). rewrite Happ.
      assert (Hbb : bytes_ok body) by (unfold bytes_ok in *; rewrite Happ in Hb2; apply Forall_app in Hb2; tauto).
      destruct (hex_run ae body ds Ehd Hbb rest' [] [60] 0%Z h d) as [H1 _].
      destruct (H1 c) as (t' & Hr & Hd). exists t'. split; [exact Hr|].
      rewrite (interp_string t' _ Hd). rewrite app_nil_r, rev_involutive. reflexivity. }
  ceq b 62 Hs E62.
  { destruct r as [|c1 r1]; [discriminate|]. ceq c1 62 Hs Ec; [|discriminate].
    injection Hs as <- <-. first_step. rewrite run_cons. unfold present_char_nr, handle_character. cbn [t_state].
    unfold in_gt. ev. norm. eexists. split; reflexivity. }
  ceq b 91 Hs E91. { injection Hs as <- <-. first_step. eexists. split; reflexivity. }
  ceq b 93 Hs E93. { injection Hs as <- <-. first_step. eexists. split; reflexivity. }
  ceq b 123 Hs E123. { injection Hs as <- <-. first_step. eexists. split; reflexivity. }
  ceq b 125 Hs E125. { injection Hs as <- <-. first_step. eexists. split; reflexivity. }
  ceq b 47 Hs E47.
  { destruct (span_while iso_regular r) as [w rest0] eqn:Esp.
    destruct (name_decode w) as [nm|] eqn:End; [|discriminate]. injection Hs as <- <-.
    unfold token_run in Hvt. change (47 =? 47) with true in Hvt. cbn iota in Hvt. rewrite Esp in Hvt. cbn [fst] in Hvt.
    destruct (span_while_spec _ _ _ _ Esp) as (Happ & Hreg & _).
    assert (Hbw : bytes_ok w) by (unfold bytes_ok in *; rewrite Happ in Hb2; apply Forall_app in Hb2; tauto).
    pose proof (span_ends_ok r w rest0 Hb2 Esp) as He.
    first_step. rewrite Happ.
    destruct (name_run ae (length w) w (le_n _) nm [47] [47] 0%Z c h d rest0 End Hbw Hreg Hvt He) as (t' & Hr & Hd).
    exists t'. split; [exact Hr|]. apply (interp_name t' _ nm Hd). rewrite rev_app_distr, rev_involutive. reflexivity. }
  destruct (iso_regular b) eqn:Ereg; [|discriminate].
  destruct (span_while iso_regular (b :: r)) as [w0 rest0] eqn:Esp. injection Hs as <- <-.
  pose proof (span_ends_ok (b :: r) w0 rest0 Hb Esp) as He.
  destruct (span_while_spec _ _ _ _ Esp) as (Happ & Hreg & _).
  cbn [span_while] in Esp. rewrite Ereg in Esp. destruct (span_while iso_regular r) as [w rest1] eqn:Esp2.
  injection Esp as <- <-.
  unfold token_run in Hvt. rewrite E47 in Hvt. cbn [span_while] in Hvt. rewrite Ereg, Esp2 in Hvt. cbn [fst] in Hvt.
  assert (Hn11 : b <> 11) by (intros ->; apply Hvt; left; reflexivity).
  assert (Hvt' : ~ In 11 w) by (intros X; apply Hvt; right; exact X).
  destruct (reg_props b Hb1 Ereg Hn11) as (D1 & D2 & D3).
  injection Happ as Happ.
  assert (Hbw : bytes_ok w) by (unfold bytes_ok in *; rewrite Happ in Hb2; apply Forall_app in Hb2; tauto).
  cbn [forallb] in Hreg. apply andb_true_iff in Hreg. destruct Hreg as [_ Hreg].
  assert (E41 : (b =? 41) = false).
  { apply N.eqb_neq. intros ->. vm_compute in Ereg. discriminate. }
  assert (Hst : num_state (top_state b)).
  { unfold num_state, top_state. destruct ((48 <=? b) && (b <=? 57)); auto. destruct ((b =? 43) || (b =? 45)); auto.
    destruct (b =? 46); auto 6. }
  assert (Hrun : run (F c h d) (b :: r) = run (S (top_state b) [] [b] 0%Z c h d) r).
  { rewrite run_cons. unfold present_char_nr, handle_character. cbn [t_state]. unfold in_before_token. rewrite D2, D3.
    unfold in_top. rewrite E40, E60, E62, E41, E91, E93, E123, E125, E47. unfold top_state.
    destruct ((48 <=? b) && (b <=? 57)); [norm; reflexivity|]. destruct ((b =? 43) || (b =? 45)); [norm; reflexivity|].
    destruct (b =? 46); norm; reflexivity. }
  rewrite Hrun, Happ.
  destruct (reg_run ae w (top_state b) [] [b] 0%Z c h d rest1 Hst Hbw Hreg Hvt' He) as (t' & Hr & Hd).
  exists t'. split; [exact Hr|]. apply interp_run; [constructor; assumption|exact Hd].
Qed.
End T.

(* ---- general facts about run ---- *)
Lemma hc_cfg t ch :
  t_incl_ign (handle_character t ch) = t_incl_ign t /\ t_allow_eof (handle_character t ch) = t_allow_eof t.
Proof.
  unfold handle_character.
  destruct (t_state t);
    unfold in_top, in_space, in_comment, in_lt, in_gt, in_string, in_name, in_number, in_real, in_string_after_cr,
           in_string_escape, in_char_code, in_literal, in_inline_image, in_hexstring, in_hexstring_2nd, in_name_hex1,
           in_name_hex2, in_sign, in_decimal, in_before_token, in_top, in_string, in_name, in_literal, in_hexstring,
           in_char_code, in_string;
    repeat match goal with |- context [if ?c then _ else _] => destruct c eqn:? end; split; cbn; solve [reflexivity|assumption].
Qed.

Lemma pc_cfg t ch :
  t_incl_ign (present_char_nr t ch) = t_incl_ign t /\ t_allow_eof (present_char_nr t ch) = t_allow_eof t.
Proof.
  unfold present_char_nr. destruct (hc_cfg t ch) as [A B].
  destruct (t_in_token (handle_character t ch)); split; cbn; assumption.
Qed.

Lemma eof_cfg t :
  t_incl_ign (present_eof t) = t_incl_ign t /\ t_allow_eof (present_eof t) = t_allow_eof t /\ is_ready (present_eof t) = true.
Proof.
  unfold present_eof. destruct (t_state t); cbn; try (repeat split; reflexivity);
    destruct (pc_cfg t 12) as [A B]; repeat split; assumption.
Qed.

Lemma run_facts : forall inp t t' rest, run t inp = (t', rest) ->
  t_incl_ign t' = t_incl_ign t /\ t_allow_eof t' = t_allow_eof t /\ is_ready t' = true /\ exists pre, inp = pre ++ rest.
Proof.
  induction inp as [|ch r IH]; intros t t' rest H.
  - rewrite run_nil in H. destruct (eof_cfg t) as (A & B & C). cbv zeta in H.
    unfold is_ready in C.
    destruct (ttype_eqb (t_type (present_eof t)) TT_eof && negb (t_allow_eof (present_eof t))); inversion H; subst;
      unfold is_ready; cbn; (split; [exact A|split; [exact B|split; [exact C|exists []; reflexivity]]]).
  - rewrite run_cons in H. cbv zeta in H. destruct (pc_cfg t ch) as [A B].
    destruct (is_ready (present_char_nr t ch)) eqn:Er.
    + inversion H; subst. repeat split; try assumption.
      destruct (tk_unread_flag (present_char_nr t ch)); [exists []; reflexivity|exists [ch]; reflexivity].
    + destruct (IH _ _ _ H) as (A' & B' & C' & pre & Hp). repeat split; try congruence.
      exists (ch :: pre). rewrite Hp. reflexivity.
Qed.

Lemma skip_suffix : forall inp ic, exists pre, inp = pre ++ skip_ignorable ic inp.
Proof.
  induction inp as [|b r IH]; intros ic; [exists []; reflexivity|].
  cbn [skip_ignorable]. destruct ic.
  - destruct (IH (negb (iso_eol b))) as [pre Hp]. exists (b :: pre). cbn. rewrite <- Hp. reflexivity.
  - destruct (iso_white b).
    + destruct (IH false) as [pre Hp]. exists (b :: pre). cbn. rewrite <- Hp. reflexivity.
    + destruct (b =? 37); [|exists []; reflexivity].
      destruct (IH true) as [pre Hp]. exists (b :: pre). cbn. rewrite <- Hp. reflexivity.
Qed.

Lemma bytes_ok_suffix pre s : bytes_ok (pre ++ s) -> bytes_ok s.
Proof. intros H. apply bytes_ok_app in H. tauto. Qed.

Lemma reset_form t : t_incl_ign t = false ->
  tk_reset t = mkTk TS_before_token (t_allow_eof t) false TT_bad [] [] TE_none true false 0 0 false 0%Z (t_code t) (t_hexch t) (t_digits t).
Proof. intros H. unfold tk_reset. rewrite H. reflexivity. Qed.

(* next_token in terms of run *)
Lemma next_token_run t inp pos : t_state t <> TS_inline_image ->
  exists np last, next_token 0 t inp pos = (fst (run (tk_reset t) inp), snd (run (tk_reset t) inp), np, last).
Proof.
  intros Hst. unfold next_token.
  assert (Ht0 : match t_state t with TS_inline_image => t | _ => tk_reset t end = tk_reset t)
    by (destruct (t_state t); try reflexivity; contradiction).
  rewrite Ht0. pose proof (nt_loop_run inp (tk_reset t) pos pos) as H.
  destruct (nt_loop 0 (tk_reset t) inp pos pos) as [[[t1 rest'] off] np]. cbn [fst snd] in H. rewrite H. cbn [fst snd].
  eexists. eexists. reflexivity.
Qed.

Lemma run_token t inp tok rest :
  bytes_ok inp -> t_incl_ign t = false -> spec_next inp = LexTok tok rest -> ~ In 11 (head_run inp) ->
  exists t1, run (tk_reset t) inp = (t1, rest) /\ tok_interp (tk_token t1) = Some tok.
Proof.
  intros Hb Hii Hs Hvt. rewrite (reset_form t Hii).
  rewrite (proj1 (skip_run (t_allow_eof t) inp (t_code t) (t_hexch t) (t_digits t))).
  unfold spec_next in Hs. rewrite head_run_eq in Hvt.
  destruct (skip_suffix inp false) as [pre Hpre].
  destruct (skip_ignorable false inp) as [|b r] eqn:Es; [discriminate|].
  apply token_at_run; [|exact Hs|exact Hvt]. rewrite Hpre in Hb. apply bytes_ok_suffix in Hb. exact Hb.
Qed.

Lemma run_end t inp :
  t_incl_ign t = false -> t_allow_eof t = true -> spec_next inp = LexEnd ->
  exists t1, run (tk_reset t) inp = (t1, []) /\ t_type t1 = TT_eof.
Proof.
  intros Hii Hae Hs. rewrite (reset_form t Hii).
  rewrite (proj1 (skip_run (t_allow_eof t) inp (t_code t) (t_hexch t) (t_digits t))).
  unfold spec_next in Hs. destruct (skip_ignorable false inp) as [|b r] eqn:Es.
  - (* since fix dd6235ea of /repo a comment ended by the end of the input also gives tt_eof *)
    destruct (ends_in_comment false inp); rewrite run_nil, Hae; cbn; eexists; split; reflexivity.
  - exfalso. cbn [spec_token_at] in Hs.
    repeat match type of Hs with
           | (if ?c then _ else _) = _ => destruct c
           | match ?x with _ => _ end = _ => destruct x
           end; discriminate.
Qed.

(* ================= property statements ================= *)

(* lex_complete, one token.  Every input on which the ISO specification lexer reads a token `tok` and
   leaves `rest` is read by Tokenizer::nextToken (no length limit, ignorable tokens not included, any
   previous state except inline-image mode) as a token whose reading is `tok`, leaving exactly `rest`,
   provided the regular-character run the token starts in contains no raw VT (D11).  This covers every
   legal spelling of strings (all escapes, octal forms, line continuations, EOL conventions, balanced
   parentheses, hex strings with white space and odd digit count), names with #xx, integers and reals
   with sign / leading zeros / leading or trailing period, true/false/null, keywords, brackets, preceded
   by any white space and comments. *)
Lemma next_token_complete_lemma : forall inp tok rest t pos,
  bytes_ok inp -> t_incl_ign t = false -> t_state t <> TS_inline_image ->
  spec_next inp = LexTok tok rest -> ~ In 11 (head_run inp) ->
  exists t1 newpos last,
    next_token 0 t inp pos = (t1, rest, newpos, last) /\ tok_interp (tk_token t1) = Some tok.
Proof.
  intros inp tok rest t pos Hb Hii Hst Hs Hvt.
  destruct (next_token_run t inp pos Hst) as (np & last & Hn).
  destruct (run_token t inp tok rest Hb Hii Hs Hvt) as (t1 & Hr & Hi).
  rewrite Hr in Hn. cbn [fst snd] in Hn. exists t1, np, last. split; assumption.
Qed.

(* end of input: only white space and comments remain (the last comment may be ended by the end of the
   input instead of an end-of-line marker) => tt_eof *)
Lemma next_token_end_lemma : forall inp t pos,
  t_incl_ign t = false -> t_allow_eof t = true -> t_state t <> TS_inline_image ->
  spec_next inp = LexEnd ->
  exists t1 newpos last, next_token 0 t inp pos = (t1, [], newpos, last) /\ t_type t1 = TT_eof.
Proof.
  intros inp t pos Hii Hae Hst Hs.
  destruct (next_token_run t inp pos Hst) as (np & last & Hn).
  destruct (run_end t inp Hii Hae Hs) as (t1 & Hr & Hi).
  rewrite Hr in Hn. cbn [fst snd] in Hn. exists t1, np, last. split; assumption.
Qed.

(* the hypothesis of the whole-input statement: no token starts in a regular run containing a raw VT
   (known finding D11).  (Until fix dd6235ea of /repo it also had to exclude inputs ending inside a comment.) *)
Fixpoint lex_ok_fuel (fuel : nat) (inp : list N) : bool :=
  match fuel with
  | O => true
  | Datatypes.S f =>
      match spec_next inp with
      | LexTok _ rest => forallb (fun b => negb (b =? 11)) (head_run inp) && lex_ok_fuel f rest
      | LexEnd => true
      | LexInvalid => true
      end
  end.
Definition lex_ok (inp : list N) : bool := lex_ok_fuel (Datatypes.S (length inp)) inp.

Lemma interp_not_eof t tok : tok_interp (tk_token t) = Some tok -> ttype_eqb (t_type t) TT_eof = false.
Proof.
  unfold tk_token, tok_interp. destruct (t_type t); cbn [tok_err tok_type]; try reflexivity.
  destruct (negb (terr_is_none (t_err t))); discriminate.
Qed.

Lemma no_vt_forallb l : forallb (fun b => negb (b =? 11)) l = true -> ~ In 11 l.
Proof.
  intros H X. rewrite forallb_forall in H. specialize (H 11 X). discriminate.
Qed.

Lemma lex_fuel_agree : forall fuel inp acc t pos toks,
  bytes_ok inp -> t_incl_ign t = false -> t_allow_eof t = true -> t_state t <> TS_inline_image ->
  lex_ok_fuel fuel inp = true ->
  lex_spec_fuel fuel inp acc = Some toks -> model_lex_fuel fuel t inp pos acc = Some toks.
Proof.
  induction fuel as [|f IH]; intros inp acc t pos toks Hb Hii Hae Hst Hok Hs; [discriminate|].
  cbn [lex_spec_fuel] in Hs. cbn [lex_ok_fuel] in Hok. cbn [model_lex_fuel].
  destruct (next_token_run t inp pos Hst) as (np & last & Hn). rewrite Hn.
  destruct (spec_next inp) as [|tok rest|] eqn:Esn; [| |discriminate].
  - destruct (run_end t inp Hii Hae Esn) as (t1 & Hr & Hty). rewrite Hr. cbn [fst snd]. rewrite Hty. exact Hs.
  - apply andb_true_iff in Hok. destruct Hok as [Hvt Hok]. apply no_vt_forallb in Hvt.
    destruct (run_token t inp tok rest Hb Hii Esn Hvt) as (t1 & Hr & Hi). rewrite Hr. cbn [fst snd].
    rewrite (interp_not_eof t1 tok Hi), Hi.
    destruct (run_facts _ _ _ _ Hr) as (A & B & C & pre & Hp).
    apply IH; try assumption.
    + rewrite Hp in Hb. apply bytes_ok_suffix in Hb. exact Hb.
    + rewrite A. unfold tk_reset. exact Hii.
    + rewrite B. unfold tk_reset. exact Hae.
    + unfold is_ready in C. intros X. rewrite X in C. discriminate.
Qed.

(* lex_complete, whole input (the full statement minus exactly the finding class D11) *)
Lemma lex_complete_partial_lemma : forall inp toks,
  bytes_ok inp -> lex_ok inp = true -> lex_spec inp = Some toks -> model_lex inp = Some toks.
Proof.
  intros inp toks Hb Hok Hs. unfold model_lex. unfold lex_spec in Hs. unfold lex_ok in Hok.
  apply lex_fuel_agree; try assumption; try reflexivity. discriminate.
Qed.

(* D11: the full statement is false on the faithful model: VT is white space for qpdf and a regular
   character for ISO 32000-1.  Witness "/A<VT>B". *)
Lemma lex_complete_refuted_lemma :
  exists inp toks, bytes_ok inp /\ lex_spec inp = Some toks /\ model_lex inp <> Some toks.
Proof.
  exists [47; 65; 11; 66], [PName [65; 11; 66]]. split; [|split].
  - repeat constructor.
  - vm_compute. reflexivity.
  - vm_compute. discriminate.
Qed.

(* formerly comment_at_eof_refuted (finding C03:comment-terminated-by-EOF, repaired in /repo by dd6235ea):
   an input whose last comment is ended by the end of the input is read to the end like any other; in
   particular "%" alone, and "1 %x", are read as the specification says *)
Lemma comment_at_eof_lemma : forall inp,
  bytes_ok inp -> ~ In 11 inp -> ends_in_comment false inp = true -> lex_spec inp = Some [] ->
  model_lex inp = Some [].
Proof.
  intros inp Hb Hvt Hc Hs. unfold lex_spec in Hs. cbn [lex_spec_fuel] in Hs.
  destruct (spec_next inp) as [|tok rest|] eqn:Esn; [| |discriminate].
  - unfold model_lex. cbn [model_lex_fuel].
    destruct (next_token_end_lemma inp tk_parser 0 eq_refl eq_refl ltac:(discriminate) Esn) as (t1 & np & last & Hn & Hty).
    rewrite Hn, Hty. reflexivity.
  - exfalso. clear Hb Hvt Hc Esn.
    assert (G : forall f r acc, acc <> [] -> lex_spec_fuel f r acc <> Some []).
    { induction f as [|f IH]; intros r acc Hne X; [discriminate|]. cbn [lex_spec_fuel] in X.
      destruct (spec_next r) as [|t2 r2|]; [|apply (IH r2 (t2 :: acc)); [discriminate|exact X]|discriminate].
      injection X as X. rewrite rev'_rev in X. apply (f_equal (@rev ptoken)) in X. rewrite rev_involutive in X.
      cbn in X. contradiction. }
    exact (G _ _ [tok] ltac:(discriminate) Hs).
Qed.

Lemma comment_at_eof_witness_lemma :
  lex_spec [37] = Some [] /\ model_lex [37] = Some [] /\
  lex_spec [49; 32; 37; 120] = Some [PInt 1] /\ model_lex [49; 32; 37; 120] = Some [PInt 1].
Proof. repeat split; vm_compute; reflexivity. Qed.

(* ================= C04 part: progress and absence of std::logic_error ================= *)
Lemma in_top_flags t ch : t_in_token (in_top t ch) = t_in_token t /\ t_before (in_top t ch) = t_before t.
Proof.
  unfold in_top. repeat match goal with |- context [if ?c then _ else _] => destruct c end; split; reflexivity.
Qed.

Lemma first_step_flag m t ch : tk_unread_flag (nt_step m (tk_reset t) ch) = false.
Proof.
  assert (H : t_in_token (handle_character (tk_reset t) ch) || t_before (handle_character (tk_reset t) ch) = true).
  { unfold handle_character, tk_reset. cbn [t_state]. unfold in_before_token. cbn [t_incl_ign].
    destruct (tk_is_space ch).
    - destruct (t_incl_ign t); reflexivity.
    - destruct (ch =? 37).
      + destruct (t_incl_ign t); reflexivity.
      + match goal with |- context [in_top ?x ch] => destruct (in_top_flags x ch) as [A B]; rewrite A end. reflexivity. }
  unfold nt_step, present_char_nr, tk_unread_flag.
  set (t1 := handle_character (tk_reset t) ch) in *. clearbody t1.
  assert (H2 : forall x, t_in_token x || t_before x = true -> negb (t_in_token x) && negb (t_before x) = false).
  { intros x Hx. destruct (t_in_token x), (t_before x); try reflexivity; discriminate. }
  destruct (t_in_token t1) eqn:E.
  - match goal with |- context [if ?c then _ else _] => destruct c end; apply H2; cbn; rewrite ?E; reflexivity.
  - cbn [orb] in H. match goal with |- context [if ?c then _ else _] => destruct c end; apply H2; cbn; rewrite ?E, ?H; reflexivity.
Qed.

Lemma nt_loop_len : forall inp m t off pos,
  (length (snd (fst (fst (nt_loop m t inp off pos)))) <= length inp)%nat.
Proof.
  induction inp as [|ch r IH]; intros m t off pos.
  - cbn [nt_loop]. destruct (ttype_eqb _ _ && _); cbn; lia.
  - cbn [nt_loop]. destruct (is_ready (nt_step m t ch)).
    + destruct (tk_unread_flag (nt_step m t ch)); cbn; lia.
    + specialize (IH m (nt_step m t ch) (if t_before (nt_step m t ch) then off + 1 else off) (pos + 1)). cbn [length]. lia.
Qed.

(* next_token_progress (DESIGN C04): on a non-empty input nextToken always consumes at least one byte,
   whatever the bytes, the length limit and the tokenizer's previous state (inline-image mode excepted:
   there the caller has positioned the tokenizer with expectInlineImage): a parser loop cannot spin. *)
Lemma next_token_progress_lemma : forall max_len t inp pos,
  inp <> [] -> t_state t <> TS_inline_image ->
  (length (snd (fst (fst (next_token max_len t inp pos)))) < length inp)%nat.
Proof.
  intros m t inp pos Hne Hst. unfold next_token.
  assert (Ht0 : match t_state t with TS_inline_image => t | _ => tk_reset t end = tk_reset t)
    by (destruct (t_state t); try reflexivity; contradiction).
  rewrite Ht0. destruct inp as [|ch r]; [contradiction|].
  assert (H : (length (snd (fst (fst (nt_loop m (tk_reset t) (ch :: r) pos pos)))) < length (ch :: r))%nat).
  { cbn [nt_loop]. destruct (is_ready (nt_step m (tk_reset t) ch)).
    - rewrite first_step_flag. cbn. lia.
    - pose proof (nt_loop_len r m (nt_step m (tk_reset t) ch)
                    (if t_before (nt_step m (tk_reset t) ch) then pos + 1 else pos) (pos + 1)). cbn [length]. lia. }
  destruct (nt_loop m (tk_reset t) (ch :: r) pos pos) as [[[t1 rest] off] np]. exact H.
Qed.

Lemma present_collect_ok t ch acc : is_ready t = false ->
  exists t' acc', present_collect t ch acc = Some (t', acc') /\ is_ready t' = false.
Proof.
  intros Hr. unfold present_collect, present_character. rewrite Hr. unfold get_token.
  destruct (is_ready (present_char_nr t ch)) eqn:E1.
  - destruct (tk_unread_flag (present_char_nr t ch)).
    + change (is_ready (tk_reset (present_char_nr t ch))) with false. cbv iota.
      destruct (is_ready (present_char_nr (tk_reset (present_char_nr t ch)) (t_unread (present_char_nr t ch)))) eqn:E2.
      * eexists. eexists. split; reflexivity.
      * eexists. eexists. split; [reflexivity|exact E2].
    + eexists. eexists. split; reflexivity.
  - eexists. eexists. split; [reflexivity|exact E1].
Qed.

Lemma tok_stream_loop_ok : forall inp t acc, is_ready t = false ->
  exists t' acc', tok_stream_loop t inp acc = Some (t', acc').
Proof.
  induction inp as [|ch r IH]; intros t acc Hr.
  - eexists. eexists. reflexivity.
  - cbn [tok_stream_loop]. destruct (present_collect_ok t ch acc Hr) as (t' & acc' & Hp & Hr'). rewrite Hp. apply IH, Hr'.
Qed.

(* no_logic_error_tokenizer (DESIGN C04): the classic presentCharacter/getToken driver loop never presents
   a character to a tokenizer whose token is waiting, i.e. never triggers the std::logic_error of
   Tokenizer::inTokenReady, for any input and flags *)
Lemma no_logic_error_tokenizer_lemma : forall allow_eof incl_ign inp eof,
  tok_stream allow_eof incl_ign inp eof <> None.
Proof.
  intros ae ii inp eof. unfold tok_stream.
  destruct (tok_stream_loop_ok inp (tk_new ae ii) [] eq_refl) as (t' & acc' & H). rewrite H.
  destruct eof; [|discriminate].
  unfold get_token. destruct (is_ready (present_eof t')); discriminate.
Qed.
