(* Towards write_read_iso: the strict reader's indirect-object parser, applied to the plain writer
   model's output at a recorded offset, returns exactly the object that was written there (non-stream
   objects; concrete printers). Statements are fixed. *)
From QV Require Import Base.Bytes File.StrictSyntax File.ReadStrict Obj.Queue Obj.C01QueueProofs Obj.WriterModel
  Obj.WmPrinters Obj.C01WriterProofs Obj.C01RoundtripProofs.
From QV Require Import File.WriterArith File.C02Proofs.
From Coq Require Import Lia.
Local Open Scope N_scope.

Definition wf_doc_objs (d : doc) : Prop :=
  Forall (fun kv => wf_wobj (i_val (snd kv))) (d_objects d).

(* the renumbering used by write_doc *)
Definition doc_ren (d : doc) (x : N) : N :=
  match renumber (graph_of d) (roots_of d) x with Some n => n | None => 0 end.

(* ---------- a structural induction principle for the nested type obj ---------- *)
Section ObjInd.
  Variable Pp : obj -> Prop.
  Hypothesis H_null : Pp ONull.
  Hypothesis H_bool : forall b, Pp (OBool b).
  Hypothesis H_int : forall z, Pp (OInt z).
  Hypothesis H_real : forall s, Pp (OReal s).
  Hypothesis H_str : forall s, Pp (OStr s).
  Hypothesis H_name : forall n, Pp (OName n).
  Hypothesis H_ref : forall id, Pp (ORef id).
  Hypothesis H_arr : forall l, Forall Pp l -> Pp (OArr l).
  Hypothesis H_dict : forall d, Forall (fun kv => Pp (snd kv)) d -> Pp (ODict d).
  Fixpoint obj_ind' (o : obj) : Pp o :=
    match o with
    | ONull => H_null
    | OBool b => H_bool b
    | OInt z => H_int z
    | OReal s => H_real s
    | OStr s => H_str s
    | OName n => H_name n
    | ORef id => H_ref id
    | OArr l => H_arr l ((fix go (l : list obj) : Forall Pp l :=
                            match l with
                            | [] => Forall_nil _
                            | x :: t => Forall_cons x (obj_ind' x) (go t)
                            end) l)
    | ODict d => H_dict d ((fix go (l : list (list N * obj)) : Forall (fun kv => Pp (snd kv)) l :=
                              match l with
                              | [] => Forall_nil _
                              | kv :: t => Forall_cons kv (obj_ind' (snd kv)) (go t)
                              end) d)
    end.
End ObjInd.

(* ---------- printing and reading depend on the renumbering only at the printed references ---------- *)
Lemma ren_ext : forall us un objs r1 r2 o,
  (forall x, In x (refs_of objs o) -> r1 x = r2 x) ->
  unparse us un objs r1 o = unparse us un objs r2 o /\ to_pobj objs r1 o = to_pobj objs r2 o.
Proof.
  intros us un objs r1 r2 o. induction o as [|b|z|s|s|n|id|l IHl|d IHd] using obj_ind'; intros Href;
    try (split; reflexivity).
  - cbn [unparse to_pobj]. rewrite (Href id) by (left; reflexivity). split; reflexivity.
  - assert (H : flat_map (fun x => sp ++ unparse us un objs r1 x) l = flat_map (fun x => sp ++ unparse us un objs r2 x) l
                /\ map (to_pobj objs r1) l = map (to_pobj objs r2) l).
    { change (refs_of objs (OArr l)) with (flat_map (refs_of objs) l) in Href.
      induction l as [|x t IHt]; [split; reflexivity|].
      inversion IHl as [|? ? Hx Ht]; subst.
      destruct Hx as [Hx1 Hx2].
      { intros y Hy. apply Href. cbn [flat_map]. apply in_or_app. left. exact Hy. }
      destruct (IHt Ht) as [Ht1 Ht2].
      { intros y Hy. apply Href. cbn [flat_map]. apply in_or_app. right. exact Hy. }
      cbn [flat_map map]. rewrite Hx1, Hx2, Ht1, Ht2. split; reflexivity. }
    destruct H as [H1 H2].
    change (unparse us un objs r1 (OArr l)) with ([91] ++ flat_map (fun x => sp ++ unparse us un objs r1 x) l ++ [32; 93]).
    change (unparse us un objs r2 (OArr l)) with ([91] ++ flat_map (fun x => sp ++ unparse us un objs r2 x) l ++ [32; 93]).
    change (to_pobj objs r1 (OArr l)) with (SpArr (map (to_pobj objs r1) l)).
    change (to_pobj objs r2 (OArr l)) with (SpArr (map (to_pobj objs r2) l)).
    rewrite H1, H2. split; reflexivity.
  - set (g1 := fun kv : list N * obj => if is_null_val objs (snd kv) then [] else sp ++ un (fst kv) ++ sp ++ unparse us un objs r1 (snd kv)).
    set (g2 := fun kv : list N * obj => if is_null_val objs (snd kv) then [] else sp ++ un (fst kv) ++ sp ++ unparse us un objs r2 (snd kv)).
    assert (H : flat_map g1 d = flat_map g2 d /\ pdict objs r1 d = pdict objs r2 d).
    { change (refs_of objs (ODict d))
        with (flat_map (fun kv => if is_null_val objs (snd kv) then [] else refs_of objs (snd kv)) d) in Href.
      induction d as [|kv t IHt]; [split; reflexivity|].
      inversion IHd as [|? ? Hx Ht]; subst.
      destruct (IHt Ht) as [Ht1 Ht2].
      { intros y Hy. apply Href. cbn [flat_map]. apply in_or_app. right. exact Hy. }
      cbn [flat_map pdict]. unfold g1 at 1, g2 at 1.
      destruct (is_null_val objs (snd kv)) eqn:E.
      - rewrite Ht1, Ht2. split; reflexivity.
      - destruct Hx as [Hx1 Hx2].
        { intros y Hy. apply Href. cbn [flat_map]. rewrite E. apply in_or_app. left. exact Hy. }
        rewrite Hx1, Hx2, Ht1, Ht2. split; reflexivity. }
    destruct H as [H1 H2].
    change (unparse us un objs r1 (ODict d)) with ([60; 60] ++ flat_map g1 d ++ [32; 62; 62]).
    change (unparse us un objs r2 (ODict d)) with ([60; 60] ++ flat_map g2 d ++ [32; 62; 62]).
    change (to_pobj objs r1 (ODict d)) with (SpDict (pdict objs r1 d)).
    change (to_pobj objs r2 (ODict d)) with (SpDict (pdict objs r2 d)).
    rewrite H1, H2. split; reflexivity.
Qed.

(* ---------- the reference graph at a non-stream object ---------- *)
Lemma find_obj_in : forall l id i, find_obj l id = Some i -> exists k, In (k, i) l.
Proof.
  induction l as [|[k v] t IH]; intros id i H; [discriminate H|].
  cbn [find_obj] in H. destruct (k =? id).
  - injection H as <-. exists k. left. reflexivity.
  - destruct (IH _ _ H) as [k' Hk]. exists k'. right. exact Hk.
Qed.

Lemma children_map : forall (F : N * indirect -> list N) l id i,
  find_obj l id = Some i ->
  children (map (fun kv => (fst kv, F kv)) l) id = F (id, i) \/
  exists k, In (k, i) l /\ k = id /\ children (map (fun kv => (fst kv, F kv)) l) id = F (k, i).
Proof.
  induction l as [|[k v] t IH]; intros id i H; [discriminate H|].
  cbn [find_obj] in H. cbn [map children fst]. destruct (k =? id) eqn:E.
  - injection H as <-. apply N.eqb_eq in E. subst k. left. reflexivity.
  - destruct (IH _ _ H) as [Hc | [k' [H1 [H2 H3]]]].
    + left. exact Hc.
    + right. exists k'. repeat split; [right; exact H1 | exact H2 | exact H3].
Qed.

Lemma children_graph_of : forall d id i, find_obj (d_objects d) id = Some i -> i_stream i = None ->
  children (graph_of d) id = refs_of (d_objects d) (i_val i).
Proof.
  intros d id i Hf Hs. unfold graph_of.
  destruct (children_map (fun kv => refs_of (d_objects d)
              (match i_stream (snd kv) with Some _ => drop_length (i_val (snd kv)) | None => i_val (snd kv) end))
              (d_objects d) id i Hf) as [H | [k [_ [_ H]]]];
    rewrite H; cbn [snd]; rewrite Hs; reflexivity.
Qed.

(* written objects get positive numbers *)
Lemma written_ren_pos : forall d x, doc_closed d ->
  In x (written (graph_of d) (roots_of d)) -> 0 < doc_ren d x.
Proof.
  intros d x Hc Hin. pose proof (renumber_order_lemma _ _ Hc) as Ho.
  assert (H : In (renumber (graph_of d) (roots_of d) x)
                 (map (renumber (graph_of d) (roots_of d)) (written (graph_of d) (roots_of d))))
    by (apply in_map; exact Hin).
  rewrite Ho in H. apply in_map_iff in H. destruct H as [n [Hn Hs]].
  apply in_seq in Hs. unfold doc_ren. rewrite <- Hn. lia.
Qed.

Lemma refs_ren_pos : forall d id i y, doc_closed d ->
  In id (written (graph_of d) (roots_of d)) -> find_obj (d_objects d) id = Some i -> i_stream i = None ->
  In y (refs_of (d_objects d) (i_val i)) -> 0 < doc_ren d y.
Proof.
  intros d id i y Hc Hin Hf Hs Hy. apply written_ren_pos; [exact Hc|].
  destruct (queue_complete_lemma _ _ Hc) as [_ Hq]. apply Hq.
  apply (reach_step _ _ id); [apply Hq; exact Hin|].
  rewrite (children_graph_of d id i Hf Hs). exact Hy.
Qed.

(* ---------- the output at a recorded offset ---------- *)
Lemma offs_of_at : forall us un objs ren ids pos pre rest id,
  N.to_nat pos = length pre -> In id ids ->
  exists off tail,
    In (ren id, off) (offs_of us un objs ren ids pos) /\
    skipn (N.to_nat off) (pre ++ concat (map (chunk_of us un objs ren) ids) ++ rest)
    = chunk_of us un objs ren id ++ tail.
Proof.
  intros us un objs ren. induction ids as [|a tl IH]; intros pos pre rest id Hpos Hin; [destruct Hin|].
  destruct Hin as [Heq | Hin].
  - subst a. exists pos. eexists. split; [left; reflexivity|].
    rewrite Hpos, skipn_app, skipn_all, Nat.sub_diag. cbn [app skipn map concat].
    rewrite <- app_assoc. reflexivity.
  - specialize (IH (pos + N.of_nat (length (chunk_of us un objs ren a))) (pre ++ chunk_of us un objs ren a) rest id).
    destruct IH as [off [tail [H1 H2]]]; [|exact Hin|].
    + rewrite app_length, N2Nat.inj_add, Nat2N.id. lia.
    + exists off, tail. split; [right; exact H1|].
      cbn [map concat]. rewrite <- !app_assoc in *. exact H2.
Qed.

Lemma write_doc_shape : forall us un d, exists tl,
  write_doc us un d = header (d_version d)
    ++ concat (map (chunk_of us un (d_objects d) (doc_ren d)) (written (graph_of d) (roots_of d))) ++ tl.
Proof.
  intros us un d. unfold write_doc. rewrite emit_bodies_eq. rewrite !rev'_rev.
  rewrite !app_nil_r, !rev_involutive. eexists. reflexivity.
Qed.

(* ---------- the indirect-object parser on an emitted non-stream object ---------- *)
Lemma next_tok_obj : forall X, next_tok (32 :: 111 :: 98 :: 106 :: 10 :: X) = Some (StKw k_obj, 10 :: X).
Proof. reflexivity. Qed.
Lemma next_tok_endobj : forall X,
  next_tok (10 :: 101 :: 110 :: 100 :: 111 :: 98 :: 106 :: 10 :: X) = Some (StKw k_endobj, 10 :: X).
Proof. reflexivity. Qed.
Lemma parse_obj_nl : forall fuel s, parse_obj fuel (10 :: s) = parse_obj fuel s.
Proof.
  intros [|f] s; [reflexivity|]. rewrite !parse_obj_S.
  change (next_tok (10 :: s)) with (next_tok s). reflexivity.
Qed.

Lemma dec_of_N_head : forall k, exists c t, dec_of_N k = c :: t /\ is_digit c = true.
Proof.
  intros k. destruct (dec_of_N_value_lemma k) as [_ [Hd Hl]].
  destruct (dec_of_N k) as [|c t]; [cbn in Hl; lia|].
  exists c, t. split; [reflexivity|]. cbn [all_digits] in Hd. apply andb_true_iff in Hd. tauto.
Qed.

Lemma parse_indirect_emitted : forall fuel total file off len_of k objs ren v tail,
  at_off file off = obj_header k ++ unparse wm_unparse_string wm_unparse_name objs ren v ++ s_endobj ++ tail ->
  wf_wobj v -> (forall id, 0 < ren id) ->
  (length (unparse wm_unparse_string wm_unparse_name objs ren v) < fuel)%nat ->
  parse_indirect fuel total file off len_of
  = inl (Some {| so_num := k; so_gen := 0; so_where := XInUse off 0;
                 so_val := to_pobj objs ren v; so_stream := None; so_end := offset_of total tail |}).
Proof.
  intros fuel total file off len_of k objs ren v tail Hat Hwf Hren Hfuel.
  set (U := unparse wm_unparse_string wm_unparse_name objs ren v) in *.
  set (E := 10 :: 101 :: 110 :: 100 :: 111 :: 98 :: 106 :: 10 :: tail).
  assert (Hs : at_off file off = dec_of_N k ++ 32 :: 48 :: 32 :: 111 :: 98 :: 106 :: 10 :: U ++ E).
  { rewrite Hat. unfold obj_header, s_endobj. rewrite <- app_assoc. reflexivity. }
  assert (Hnt : next_tok (at_off file off) = Some (StInt (Z.of_N k), 32 :: 48 :: 32 :: 111 :: 98 :: 106 :: 10 :: U ++ E)).
  { rewrite Hs. apply next_tok_dec_of_N. left. reflexivity. }
  destruct (dec_of_N_head k) as [c [t [Hk Hc]]].
  assert (Hhd : at_off file off = c :: t ++ 32 :: 48 :: 32 :: 111 :: 98 :: 106 :: 10 :: U ++ E).
  { rewrite Hs, Hk. reflexivity. }
  unfold parse_indirect. cbv zeta.
  rewrite Hhd at 1. cbv iota beta. rewrite Hc. cbn [negb].
  rewrite Hnt, next_tok_sp0, next_tok_obj.
  change (negb (beq k_obj k_obj)) with false. cbv iota.
  rewrite parse_obj_nl. unfold U.
  rewrite (unparse_parses_wm_lemma objs ren v E fuel Hwf Hren).
  - unfold E at 1. rewrite next_tok_endobj.
    change (beq k_endobj k_endobj) with true. cbv iota.
    change (eol (10 :: tail)) with (Some tail). cbv iota.
    rewrite N2Z.id. reflexivity.
  - left. reflexivity.
  - intros z _. apply (no_ref_follow_endobj tail).
  - exact Hfuel.
Qed.
(* For every written non-stream object: parsing an indirect object at its recorded offset in the output
   yields its new number, generation 0, and the value that was written (references renumbered, null
   entries dropped), and the parse ends where the next thing starts. *)
Lemma emitted_object_parses_lemma : forall d id i fuel,
  doc_closed d -> wf_doc_objs d ->
  In id (written (graph_of d) (roots_of d)) -> find_obj (d_objects d) id = Some i -> i_stream i = None ->
  let out := write_doc wm_unparse_string wm_unparse_name d in
  (length out < fuel)%nat ->
  exists off e,
    In (doc_ren d id, off) (body_offsets wm_unparse_string wm_unparse_name d) /\
    parse_indirect fuel (N.of_nat (length out)) out off (fun _ => None)
    = inl (Some {| so_num := doc_ren d id; so_gen := 0; so_where := XInUse off 0;
                   so_val := to_pobj (d_objects d) (doc_ren d) (i_val i); so_stream := None; so_end := e |})
    /\ off < e.
Proof.
  intros d id i fuel Hc Hwf Hin Hf Hs out Hfuel.
  destruct (write_doc_shape wm_unparse_string wm_unparse_name d) as [tl Hshape].
  destruct (offs_of_at wm_unparse_string wm_unparse_name (d_objects d) (doc_ren d)
              (written (graph_of d) (roots_of d)) (N.of_nat (length (header (d_version d))))
              (header (d_version d)) tl id (Nat2N.id _) Hin) as [off [tail [Hoff Hskip]]].
  rewrite <- Hshape in Hskip. fold out in Hskip.
  set (ren' := fun x => if doc_ren d x =? 0 then 1 else doc_ren d x).
  assert (Hext : forall x, In x (refs_of (d_objects d) (i_val i)) -> doc_ren d x = ren' x).
  { intros x Hx. pose proof (refs_ren_pos d id i x Hc Hin Hf Hs Hx) as Hp.
    unfold ren'. destruct (doc_ren d x =? 0) eqn:E; [apply N.eqb_eq in E; lia | reflexivity]. }
  destruct (ren_ext wm_unparse_string wm_unparse_name (d_objects d) (doc_ren d) ren' (i_val i) Hext) as [HU HP].
  assert (Hchunk : chunk_of wm_unparse_string wm_unparse_name (d_objects d) (doc_ren d) id
                   = obj_header (doc_ren d id)
                     ++ unparse wm_unparse_string wm_unparse_name (d_objects d) ren' (i_val i) ++ s_endobj).
  { unfold chunk_of. rewrite Hf. unfold emit_object. rewrite Hs, HU. reflexivity. }
  assert (Hlen : (length out - N.to_nat off
                  = length (chunk_of wm_unparse_string wm_unparse_name (d_objects d) (doc_ren d) id) + length tail)%nat).
  { rewrite <- skipn_length, Hskip, app_length. reflexivity. }
  pose proof (chunk_of_length_pos wm_unparse_string wm_unparse_name (d_objects d) (doc_ren d) id) as Hpos.
  exists off, (offset_of (N.of_nat (length out)) tail).
  split; [rewrite body_offsets_eq; exact Hoff|].
  split.
  - rewrite HP. apply parse_indirect_emitted.
    + unfold at_off. rewrite Hskip, Hchunk, <- !app_assoc. reflexivity.
    + destruct (find_obj_in _ _ _ Hf) as [k Hk]. unfold wf_doc_objs in Hwf.
      rewrite Forall_forall in Hwf. apply (Hwf (k, i) Hk).
    + intros x. unfold ren'. destruct (doc_ren d x =? 0) eqn:E; [lia | apply N.eqb_neq in E; lia].
    + rewrite Hchunk, !app_length in Hlen. lia.
  - unfold offset_of. lia.
Qed.

(* ------------------------------------------------------------------------------------------------
   Further steps towards write_read_iso (statements fixed; same rules). *)

(* ---------- stream objects ---------- *)
Lemma skipn_add : forall (A : Type) (a b : nat) (l : list A), skipn (a + b) l = skipn b (skipn a l).
Proof.
  induction a as [|a IH]; intros b l; [reflexivity|].
  destruct l as [|x l]; [cbn [Nat.add skipn]; rewrite skipn_nil; reflexivity|].
  cbn [Nat.add skipn]. apply IH.
Qed.

Lemma children_graph_of_stream : forall d id i data, find_obj (d_objects d) id = Some i -> i_stream i = Some data ->
  children (graph_of d) id = refs_of (d_objects d) (drop_length (i_val i)).
Proof.
  intros d id i data Hf Hs. unfold graph_of.
  destruct (children_map (fun kv => refs_of (d_objects d)
              (match i_stream (snd kv) with Some _ => drop_length (i_val (snd kv)) | None => i_val (snd kv) end))
              (d_objects d) id i Hf) as [H | [k [_ [_ H]]]];
    rewrite H; cbn [snd]; rewrite Hs; reflexivity.
Qed.

Definition len_entry (len : N) : list N * obj := (k_Length, OInt (Z.of_N len)).

Lemma dec_of_Z_of_N : forall n, dec_of_Z (Z.of_N n) = dec_of_N n.
Proof. intros [|p]; reflexivity. Qed.

(* the stream dictionary is the printed form of the dictionary without /Length, with /Length len appended *)
Lemma unparse_stream_dict_eq : forall us un objs ren dd len,
  unparse_stream_dict us un objs ren (ODict dd) len
  = unparse us un objs ren (ODict (filter (fun kv => negb (beqb (fst kv) k_Length)) dd ++ [len_entry len])).
Proof.
  intros us un objs ren dd len. unfold unparse_stream_dict. cbn [drop_length].
  set (d' := filter (fun kv => negb (beqb (fst kv) k_Length)) dd).
  set (g := fun kv : list N * obj => if is_null_val objs (snd kv) then [] else sp ++ un (fst kv) ++ sp ++ unparse us un objs ren (snd kv)).
  change (unparse us un objs ren (ODict (d' ++ [len_entry len])))
    with ([60; 60] ++ flat_map g (d' ++ [len_entry len]) ++ [32; 62; 62]).
  rewrite flat_map_app. cbn [flat_map]. unfold g at 3. unfold len_entry. cbn [snd fst is_null_val unparse].
  rewrite dec_of_Z_of_N, app_nil_r, <- !app_assoc. reflexivity.
Qed.

Lemma refs_of_dict_app : forall objs a b,
  refs_of objs (ODict (a ++ b)) = refs_of objs (ODict a) ++ refs_of objs (ODict b).
Proof. intros objs a b. cbn [refs_of]. apply flat_map_app. Qed.

Lemma pdict_app : forall objs ren a b, pdict objs ren (a ++ b) = pdict objs ren a ++ pdict objs ren b.
Proof.
  intros objs ren a b. induction a as [|kv t IH]; [reflexivity|].
  cbn [app pdict]. destruct (is_null_val objs (snd kv)); rewrite IH; reflexivity.
Qed.

Lemma dict_get_length : forall objs ren d' len,
  Forall (fun kv : list N * obj => negb (beqb (fst kv) k_Length) = true) d' ->
  dict_get (pdict objs ren (d' ++ [len_entry len])) n_Length = Some (SpInt (Z.of_N len)).
Proof.
  intros objs ren d' len Hd. induction d' as [|kv t IH].
  - reflexivity.
  - inversion Hd as [|? ? H1 H2]; subst. cbn [app pdict].
    destruct (is_null_val objs (snd kv)); [apply IH; exact H2|].
    cbn [dict_get]. 
    replace (beq n_Length (fst kv)) with false; [apply IH; exact H2|].
    symmetry. apply negb_true_iff in H1. unfold beq, beqb in *.
    destruct (list_eqb N.eqb n_Length (fst kv)) eqn:E; [|reflexivity].
    apply list_eqb_N_eq in E. rewrite <- E in H1. discriminate H1.
Qed.

Lemma filter_Forall : forall (A : Type) (f : A -> bool) l, Forall (fun x => f x = true) (filter f l).
Proof. intros A f l. apply Forall_forall. intros x Hx. apply filter_In in Hx. tauto. Qed.

Lemma next_tok_stream : forall X,
  next_tok (10 :: 115 :: 116 :: 114 :: 101 :: 97 :: 109 :: 10 :: X) = Some (StKw k_stream, 10 :: X).
Proof. reflexivity. Qed.

Definition s_stream_kw : list N := [10; 115; 116; 114; 101; 97; 109; 10].
Definition s_endstream_kw : list N := [101; 110; 100; 115; 116; 114; 101; 97; 109].

Lemma parse_indirect_emitted_stream : forall fuel total file off len_of k objs ren o' dct data tail,
  at_off file off = obj_header k ++ unparse wm_unparse_string wm_unparse_name objs ren o'
                    ++ s_stream_kw ++ data ++ s_endstream_kw ++ s_endobj ++ tail ->
  wf_wobj o' -> (forall id, 0 < ren id) -> (forall z, o' <> OInt z) ->
  (length (unparse wm_unparse_string wm_unparse_name objs ren o') < fuel)%nat ->
  to_pobj objs ren o' = SpDict dct ->
  dict_get dct n_Length = Some (SpInt (Z.of_N (N.of_nat (length data)))) ->
  parse_indirect fuel total file off len_of
  = inl (Some {| so_num := k; so_gen := 0; so_where := XInUse off 0;
                 so_val := SpDict dct;
                 so_stream := Some (offset_of total (data ++ s_endstream_kw ++ s_endobj ++ tail), N.of_nat (length data));
                 so_end := offset_of total tail |}).
Proof.
  intros fuel total file off len_of k objs ren o' dct data tail Hat Hwf Hren Hni Hfuel Hv Hlen.
  set (U := unparse wm_unparse_string wm_unparse_name objs ren o') in *.
  set (D := data ++ s_endstream_kw ++ s_endobj ++ tail).
  set (E := 10 :: 115 :: 116 :: 114 :: 101 :: 97 :: 109 :: 10 :: D).
  assert (Hs : at_off file off = dec_of_N k ++ 32 :: 48 :: 32 :: 111 :: 98 :: 106 :: 10 :: U ++ E).
  { rewrite Hat. unfold obj_header, s_stream_kw. rewrite <- app_assoc. reflexivity. }
  assert (Hnt : next_tok (at_off file off) = Some (StInt (Z.of_N k), 32 :: 48 :: 32 :: 111 :: 98 :: 106 :: 10 :: U ++ E)).
  { rewrite Hs. apply next_tok_dec_of_N. left. reflexivity. }
  destruct (dec_of_N_head k) as [c [t [Hk Hc]]].
  assert (Hhd : at_off file off = c :: t ++ 32 :: 48 :: 32 :: 111 :: 98 :: 106 :: 10 :: U ++ E).
  { rewrite Hs, Hk. reflexivity. }
  unfold parse_indirect. cbv zeta.
  rewrite Hhd at 1. cbv iota beta. rewrite Hc. cbn [negb].
  rewrite Hnt, next_tok_sp0, next_tok_obj.
  change (negb (beq k_obj k_obj)) with false. cbv iota.
  rewrite parse_obj_nl. unfold U.
  rewrite (unparse_parses_wm_lemma objs ren o' E fuel Hwf Hren).
  - unfold E at 1. rewrite next_tok_stream.
    change (beq k_stream k_endobj) with false. change (beq k_stream k_stream) with true. cbv iota.
    rewrite Hv. cbv iota. rewrite Hlen.
    replace (0 <=? Z.of_N (N.of_nat (length data)))%Z with true by (symmetry; apply Z.leb_le; lia).
    cbv iota. rewrite N2Z.id, Nat2N.id.
    replace (N.of_nat (length D) <? N.of_nat (length data)) with false
      by (symmetry; apply N.ltb_ge; unfold D; rewrite app_length; lia).
    cbv iota.
    assert (Hsk : skipn (length data) D = s_endstream_kw ++ s_endobj ++ tail).
    { unfold D. rewrite skipn_app, skipn_all, Nat.sub_diag. reflexivity. }
    rewrite Hsk.
    change (eol (s_endstream_kw ++ s_endobj ++ tail)) with (@None (list N)). cbv iota.
    change (expect k_endstream (s_endstream_kw ++ s_endobj ++ tail)) with (Some (s_endobj ++ tail)). cbv iota.
    change (s_endobj ++ tail) with (10 :: 101 :: 110 :: 100 :: 111 :: 98 :: 106 :: 10 :: tail).
    rewrite next_tok_endobj.
    change (beq k_endobj k_endobj) with true. cbv iota.
    change (eol (10 :: tail)) with (Some tail). cbv iota.
    rewrite N2Z.id. reflexivity.
  - left. reflexivity.
  - intros z Hz. exfalso. exact (Hni z Hz).
  - exact Hfuel.
Qed.

(* stream objects: the strict parser finds the dictionary, the data at the recorded position with the
   written /Length, and endstream/endobj exactly where the model put them *)
Lemma emitted_stream_parses_lemma : forall d id i data fuel,
  doc_closed d -> wf_doc_objs d ->
  In id (written (graph_of d) (roots_of d)) -> find_obj (d_objects d) id = Some i -> i_stream i = Some data ->
  (exists dd, i_val i = ODict dd) ->
  let out := write_doc wm_unparse_string wm_unparse_name d in
  (length out < fuel)%nat ->
  exists off e doff v,
    In (doc_ren d id, off) (body_offsets wm_unparse_string wm_unparse_name d) /\
    parse_indirect fuel (N.of_nat (length out)) out off (fun _ => None)
    = inl (Some {| so_num := doc_ren d id; so_gen := 0; so_where := XInUse off 0;
                   so_val := v; so_stream := Some (doff, N.of_nat (length data)); so_end := e |})
    /\ firstn (length data) (skipn (N.to_nat doff) out) = data
    /\ off < doff /\ doff + N.of_nat (length data) < e.
Proof.
  intros d id i data fuel Hc Hwf Hin Hf Hs [dd Hdd] out Hfuel.
  destruct (write_doc_shape wm_unparse_string wm_unparse_name d) as [tl Hshape].
  destruct (offs_of_at wm_unparse_string wm_unparse_name (d_objects d) (doc_ren d)
              (written (graph_of d) (roots_of d)) (N.of_nat (length (header (d_version d))))
              (header (d_version d)) tl id (Nat2N.id _) Hin) as [off [tail [Hoff Hskip]]].
  rewrite <- Hshape in Hskip. fold out in Hskip.
  set (objs := d_objects d) in *.
  set (len := N.of_nat (length data)).
  set (d' := filter (fun kv : list N * obj => negb (beqb (fst kv) k_Length)) dd).
  set (o0 := ODict (d' ++ [len_entry len])).
  set (ren' := fun x => if doc_ren d x =? 0 then 1 else doc_ren d x).
  assert (Hrefs : forall x, In x (refs_of objs o0) -> In x (refs_of objs (drop_length (i_val i)))).
  { intros x Hx. unfold o0 in Hx. rewrite refs_of_dict_app in Hx. apply in_app_or in Hx.
    destruct Hx as [Hx|Hx]; [rewrite Hdd; exact Hx | destruct Hx]. }
  assert (Hext : forall x, In x (refs_of objs o0) -> doc_ren d x = ren' x).
  { intros x Hx. apply Hrefs in Hx.
    assert (Hp : 0 < doc_ren d x).
    { apply written_ren_pos; [exact Hc|].
      destruct (queue_complete_lemma _ _ Hc) as [_ Hq]. apply Hq.
      apply (reach_step _ _ id); [apply Hq; exact Hin|].
      rewrite (children_graph_of_stream d id i data Hf Hs). exact Hx. }
    unfold ren'. destruct (doc_ren d x =? 0) eqn:E; [apply N.eqb_eq in E; lia | reflexivity]. }
  destruct (ren_ext wm_unparse_string wm_unparse_name objs (doc_ren d) ren' o0 Hext) as [HU _].
  set (Hd := obj_header (doc_ren d id) ++ unparse wm_unparse_string wm_unparse_name objs ren' o0 ++ s_stream_kw).
  set (D := data ++ s_endstream_kw ++ s_endobj ++ tail).
  assert (Hchunk : chunk_of wm_unparse_string wm_unparse_name objs (doc_ren d) id ++ tail = Hd ++ D).
  { unfold chunk_of. rewrite Hf. unfold emit_object. rewrite Hs, Hdd, unparse_stream_dict_eq.
    fold len d' o0. rewrite HU. unfold Hd, D, s_stream_kw, s_endstream_kw. rewrite <- !app_assoc. reflexivity. }
  rewrite Hchunk in Hskip.
  assert (Hlen : (length out - N.to_nat off = length Hd + length D)%nat).
  { rewrite <- skipn_length, Hskip, app_length. reflexivity. }
  assert (HlenHd : (0 < length Hd)%nat).
  { unfold Hd, obj_header. rewrite !app_length. cbn [length]. lia. }
  assert (HlenD : length D = (length data + 17 + length tail)%nat).
  { unfold D. rewrite !app_length. unfold s_endstream_kw, s_endobj. cbn [length]. lia. }
  assert (Hwf0 : wf_wobj o0).
  { apply wf_dict. apply Forall_app. split.
    - destruct (find_obj_in _ _ _ Hf) as [k Hk]. unfold wf_doc_objs in Hwf.
      rewrite Forall_forall in Hwf. pose proof (Hwf (k, i) Hk) as Hw. cbn [snd] in Hw.
      rewrite Hdd in Hw. apply wf_dict in Hw. rewrite Forall_forall in *.
      intros kv Hkv. apply Hw. unfold d' in Hkv. apply filter_In in Hkv. tauto.
    - constructor; [|constructor]. split; [|exact I]. split.
      + cbn. intros H. repeat (destruct H as [H|H]; [discriminate H|]). exact H.
      + repeat constructor. }
  exists off, (offset_of (N.of_nat (length out)) tail), (offset_of (N.of_nat (length out)) D),
         (SpDict (pdict objs ren' (d' ++ [len_entry len]))).
  split; [rewrite body_offsets_eq; exact Hoff|].
  split; [|split].
  - apply (parse_indirect_emitted_stream fuel (N.of_nat (length out)) out off (fun _ => None) (doc_ren d id) objs ren' o0).
    + unfold at_off. rewrite Hskip. unfold Hd, D. rewrite <- !app_assoc. reflexivity.
    + exact Hwf0.
    + intros x. unfold ren'. destruct (doc_ren d x =? 0) eqn:E; [lia | apply N.eqb_neq in E; lia].
    + intros z Hz. discriminate Hz.
    + unfold Hd in Hlen. rewrite !app_length in Hlen. lia.
    + reflexivity.
    + apply dict_get_length. unfold d'. apply filter_Forall.
  - assert (Hdoff : N.to_nat (offset_of (N.of_nat (length out)) D) = (N.to_nat off + length Hd)%nat).
    { unfold offset_of. lia. }
    rewrite Hdoff, skipn_add, Hskip, skipn_app, skipn_all, Nat.sub_diag. cbn [skipn app].
    unfold D. rewrite firstn_app, firstn_all, Nat.sub_diag. cbn [firstn]. apply app_nil_r.
  - unfold offset_of. lia.
Qed.

(* the header of the model's output is a strict header *)
Lemma model_header_parses_lemma : forall d a b,
  d_version d = [a; 46; b] -> is_digit a = true -> is_digit b = true ->
  exists rest, parse_header (write_doc wm_unparse_string wm_unparse_name d) = Some ([a; 46; b], rest)
               /\ length rest = (length (write_doc wm_unparse_string wm_unparse_name d) - length (header (d_version d)))%nat.
Proof.
  intros d a b Hv Ha Hb.
  destruct (write_doc_shape wm_unparse_string wm_unparse_name d) as [tl Hshape].
  rewrite Hshape. set (X := concat _ ++ tl). rewrite Hv. unfold header. cbn [app].
  exists X. split.
  - unfold parse_header. cbn [expect]. 
    change (37 =? 37) with true. change (80 =? 80) with true. change (68 =? 68) with true.
    change (70 =? 70) with true. change (45 =? 45) with true. cbv iota.
    rewrite Ha, Hb. reflexivity.
  - cbn [length]. lia.
Qed.

Lemma model_xref_entries_gen : forall offs s acc rest, Forall (fun ko : N * N => snd ko < 10 ^ 10) offs ->
  xref_entries (length offs) (N.of_nat s) (flat_map (fun ko => xref_line (snd ko)) offs ++ rest) acc
  = Some (rev (map (fun p : N * (N * N) => (fst p, XInUse (snd (snd p)) 0))
                   (combine (map N.of_nat (seq s (length offs))) offs)) ++ acc, rest).
Proof.
  induction offs as [|ko t IH]; intros s acc rest Hb.
  - reflexivity.
  - inversion Hb as [|? ? H1 H2]; subst.
    cbn [length flat_map xref_entries]. rewrite <- app_assoc.
    destruct (xref_line_read_lemma (snd ko) (flat_map (fun ko => xref_line (snd ko)) t ++ rest) H1) as [_ Hx].
    rewrite Hx. replace (N.of_nat s + 1) with (N.of_nat (S s)) by lia.
    rewrite IH by exact H2. cbn [seq map combine rev fst snd]. rewrite <- app_assoc. reflexivity.
Qed.

(* the classic cross-reference table the model writes is read by the strict reader as: object 0 free,
   and for every written object an in-use entry with generation 0 pointing exactly at its recorded offset *)
Lemma model_xref_entries_lemma : forall offs rest, Forall (fun ko => snd ko < 10 ^ 10) offs ->
  xref_entries (length offs) 1 (flat_map (fun ko => xref_line (snd ko)) offs ++ rest) []
  = Some (rev (map (fun p : N * (N * N) => (fst p, XInUse (snd (snd p)) 0)) (combine (map N.of_nat (seq 1 (length offs))) offs)), rest).
Proof.
  intros offs rest Hb. pose proof (model_xref_entries_gen offs 1 [] rest Hb) as H.
  rewrite app_nil_r in H. exact H.
Qed.


(* ---------- the complete layout of the model's output ---------- *)
Notation WUS := wm_unparse_string.
Notation WUN := wm_unparse_name.

Definition w_ids (d : doc) : list N := written (graph_of d) (roots_of d).
Definition w_hdr (d : doc) : list N := header (d_version d).
Definition w_chunk (d : doc) (id : N) : list N := chunk_of WUS WUN (d_objects d) (doc_ren d) id.
Definition w_bodies (d : doc) : list N := concat (map (w_chunk d) (w_ids d)).
Definition w_offs (d : doc) : list (N * N) :=
  offs_of WUS WUN (d_objects d) (doc_ren d) (w_ids d) (N.of_nat (length (w_hdr d))).
Definition w_n (d : doc) : N := N.of_nat (length (w_ids d)).
Definition w_xoff (d : doc) : N := N.of_nat (length (w_hdr d)) + N.of_nat (length (w_bodies d)).
Definition s_free : list N := [48;48;48;48;48;48;48;48;48;48; 32; 54;53;53;51;53; 32; 102; 32; 10].
Definition w_lines (d : doc) : list N := flat_map (fun ko : N * N => xref_line (snd ko)) (w_offs d).
Definition w_xref (d : doc) : list N :=
  [120; 114; 101; 102; 10; 48; 32] ++ dec_of_N (w_n d + 1) ++ [10] ++ s_free ++ w_lines d.
Definition w_tg (d : doc) (kv : list N * obj) : list N :=
  if is_null_val (d_objects d) (snd kv) then [] else
  sp ++ WUN (fst kv) ++ sp ++
  (if beqb (fst kv) k_Size then dec_of_N (w_n d + 1) else unparse WUS WUN (d_objects d) (doc_ren d) (snd kv)).
Definition w_trailer (d : doc) : list N :=
  [116; 114; 97; 105; 108; 101; 114; 32; 60; 60] ++ flat_map (w_tg d) (d_trailer d)
  ++ [32; 47; 73; 68; 32; 91] ++ hexstr (d_id1 d) ++ hexstr (d_id2 d) ++ [93] ++ [32; 62; 62; 10].
Definition w_tail (d : doc) : list N :=
  [115; 116; 97; 114; 116; 120; 114; 101; 102; 10] ++ dec_of_N (w_xoff d) ++ [10; 37; 37; 69; 79; 70; 10].

Lemma write_doc_layout_lemma : forall d,
  write_doc WUS WUN d = w_hdr d ++ w_bodies d ++ w_xref d ++ w_trailer d ++ w_tail d.
Proof.
  intros d. unfold write_doc. rewrite emit_bodies_eq. rewrite !rev'_rev.
  rewrite !app_nil_r, !rev_involutive. reflexivity.
Qed.

Lemma w_offs_eq : forall d, body_offsets WUS WUN d = w_offs d.
Proof. intros d. apply body_offsets_eq. Qed.

(* ---------- find_last ---------- *)
Lemma expect_app : forall pat post, expect pat (pat ++ post) = Some post.
Proof.
  induction pat as [|p pt IH]; intros post; [destruct post; reflexivity|].
  cbn [app expect]. rewrite N.eqb_refl. apply IH.
Qed.

Lemma find_last_absent : forall p pt s pos best, ~ In p s -> find_last (p :: pt) s pos best = best.
Proof.
  induction s as [|c t IH]; intros pos best Hn; [reflexivity|].
  cbn [find_last expect].
  assert (E : (p =? c) = false) by (apply N.eqb_neq; intros ->; apply Hn; left; reflexivity).
  rewrite E. apply IH. intros H. apply Hn. right. exact H.
Qed.

Lemma find_last_skip : forall pat pre s pos best, exists best',
  find_last pat (pre ++ s) pos best = find_last pat s (pos + N.of_nat (length pre)) best'.
Proof.
  induction pre as [|c t IH]; intros s pos best.
  - exists best. cbn [app length]. rewrite N.add_0_r. reflexivity.
  - cbn [app find_last].
    destruct (IH s (pos + 1) (match expect pat (c :: t ++ s) with Some _ => Some pos | None => best end)) as [b' Hb].
    exists b'. rewrite Hb. f_equal. cbn [length]. lia.
Qed.

Lemma find_last_unique : forall p pt pre post, ~ In p (pt ++ post) ->
  find_last (p :: pt) (pre ++ (p :: pt) ++ post) 0 None = Some (N.of_nat (length pre)).
Proof.
  intros p pt pre post Hn.
  destruct (find_last_skip (p :: pt) pre ((p :: pt) ++ post) 0 None) as [b' Hb]. rewrite Hb.
  change ((p :: pt) ++ post) with (p :: pt ++ post) at 1.
  cbn [find_last]. change (p :: pt ++ post) with ((p :: pt) ++ post). rewrite expect_app.
  rewrite find_last_absent by exact Hn. reflexivity.
Qed.

Lemma digits_not_in : forall c w, all_digits w = true -> is_digit c = false -> ~ In c w.
Proof.
  induction w as [|x w IH]; intros Hd Hc Hin; [destruct Hin|].
  cbn [all_digits] in Hd. apply andb_true_iff in Hd. destruct Hd as [Hx Hw].
  destruct Hin as [->|Hin]; [congruence | exact (IH Hw Hc Hin)].
Qed.

Lemma find_last_startxref : forall pre v,
  find_last k_startxref (pre ++ k_startxref ++ 10 :: dec_of_N v ++ [10; 37; 37; 69; 79; 70; 10]) 0 None
  = Some (N.of_nat (length pre)).
Proof.
  intros pre v. unfold k_startxref. apply find_last_unique.
  destruct (dec_of_N_value_lemma v) as [_ [Hd _]].
  cbn [app]. intros H.
  repeat (destruct H as [H|H]; [discriminate H|]).
  apply in_app_or in H. destruct H as [H|H].
  - exact (digits_not_in 115 _ Hd eq_refl H).
  - repeat (destruct H as [H|H]; [discriminate H|]). exact H.
Qed.

(* ---------- the tail: startxref <n> %%EOF ---------- *)
Lemma parse_tail_model : forall v,
  parse_tail (k_startxref ++ 10 :: dec_of_N v ++ [10; 37; 37; 69; 79; 70; 10]) = Some (v, []).
Proof.
  intros v. unfold parse_tail.
  assert (H1 : next_tok (k_startxref ++ 10 :: dec_of_N v ++ [10; 37; 37; 69; 79; 70; 10])
               = Some (StKw k_startxref, 10 :: dec_of_N v ++ [10; 37; 37; 69; 79; 70; 10])).
  { unfold k_startxref. apply next_tok_kw; try reflexivity. left. reflexivity. }
  rewrite H1. change (negb (beq k_startxref k_startxref)) with false. cbv iota.
  change (next_tok (10 :: dec_of_N v ++ [10; 37; 37; 69; 79; 70; 10]))
    with (next_tok (dec_of_N v ++ [10; 37; 37; 69; 79; 70; 10])).
  rewrite next_tok_dec_of_N by (left; reflexivity).
  cbn [eol expect k_eof]. rewrite N2Z.id. reflexivity.
Qed.

(* ---------- hexadecimal strings of the /ID pair ---------- *)
Lemma hexstr_eq : forall s, hexstr s = 60 :: flat_map (fun b => [wm_hexd (b / 16); wm_hexd (b mod 16)]) s ++ [62].
Proof. reflexivity. Qed.

Lemma next_tok_hexstr : forall s rest, Forall (fun b => b < 256) s ->
  next_tok (hexstr s ++ rest) = Some (StStr s, rest).
Proof.
  intros s rest Hb. rewrite hexstr_eq. destruct s as [|b s].
  - reflexivity.
  - pose proof (hex_chars_read (b :: s) rest [] Hb) as H.
    inversion Hb as [|? ? Hb1 Hb2]; subst.
    assert (H1 : b / 16 < 16) by (apply N.div_lt_upper_bound; lia).
    destruct (hexd_facts _ H1) as [HA _].
    cbn [flat_map app] in *. rewrite <- app_assoc. cbn [app]. rewrite HA, H.
    rewrite app_nil_r, rev'_rev. change (rev s ++ [b]) with (rev (b :: s)). rewrite rev_involutive. reflexivity.
Qed.

Lemma parse_obj_hexstr : forall f s rest, Forall (fun b => b < 256) s ->
  parse_obj (S f) (hexstr s ++ rest) = Some (SpStr s, rest).
Proof. intros f s rest Hb. rewrite parse_obj_S, next_tok_hexstr by exact Hb. reflexivity. Qed.

Lemma parse_obj_id_array : forall f a b rest, Forall (fun x => x < 256) a -> Forall (fun x => x < 256) b ->
  parse_obj (S (S (S (S f)))) (32 :: 91 :: hexstr a ++ hexstr b ++ 93 :: rest) = Some (SpArr [SpStr a; SpStr b], rest).
Proof.
  intros f a b rest Ha Hb. rewrite parse_obj_sp, parse_obj_S.
  change (next_tok (91 :: hexstr a ++ hexstr b ++ 93 :: rest)) with (Some (StArrO, hexstr a ++ hexstr b ++ 93 :: rest)).
  cbv iota.
  rewrite (arr_loop_step _ _ _ _ (SpStr a) (hexstr b ++ 93 :: rest)).
  - rewrite (arr_loop_step _ _ _ _ (SpStr b) (93 :: rest)).
    + reflexivity.
    + apply parse_obj_hexstr. exact Hb.
    + intros r. rewrite next_tok_hexstr by exact Hb. discriminate.
  - apply parse_obj_hexstr. exact Ha.
  - intros r. rewrite next_tok_hexstr by exact Ha. discriminate.
Qed.

(* ---------- dictionary entries followed by something else than ">>" (the trailer has /ID appended) ---------- *)
Section Entries.
  Variable objs : list (N * indirect).
  Variable ren : N -> N.
  Hypothesis ren_pos : forall id, 0 < ren id.
  Local Notation G := (gd WUS WUN objs ren).
  Local Notation U := (unparse WUS WUN objs ren).

  Lemma G_null : forall kv t X, is_null_val objs (snd kv) = true -> flat_map G (kv :: t) ++ X = flat_map G t ++ X.
  Proof. intros kv t X H. rewrite gd_null_len by exact H. reflexivity. Qed.
  Lemma G_nonnull : forall kv t X, is_null_val objs (snd kv) = false ->
    flat_map G (kv :: t) ++ X = 32 :: WUN (fst kv) ++ 32 :: U (snd kv) ++ flat_map G t ++ X.
  Proof.
    intros kv t X H. cbn [flat_map]. unfold gd at 1. rewrite H.
    cbn [sp app]. rewrite <- !app_assoc. reflexivity.
  Qed.

  Lemma entries_ends_ok : forall d X, ends_ok X -> ends_ok (flat_map G d ++ X).
  Proof.
    induction d as [|kv t IH]; intros X HX; [exact HX|].
    destruct (is_null_val objs (snd kv)) eqn:E.
    - rewrite G_null by exact E. apply IH. exact HX.
    - rewrite G_nonnull by exact E. left. reflexivity.
  Qed.

  Lemma entries_nrf : forall d X, Forall wf_entry d -> no_ref_follow X -> no_ref_follow (flat_map G d ++ X).
  Proof.
    induction d as [|kv t IH]; intros X Hwf HX; [exact HX|].
    inversion Hwf as [|? ? [[H1 H2] H3] H4]; subst.
    destruct (is_null_val objs (snd kv)) eqn:E.
    - rewrite G_null by exact E. apply IH; assumption.
    - rewrite G_nonnull by exact E. unfold no_ref_follow.
      change (next_tok (32 :: WUN (fst kv) ++ 32 :: U (snd kv) ++ flat_map G t ++ X))
        with (next_tok (WUN (fst kv) ++ 32 :: U (snd kv) ++ flat_map G t ++ X)).
      rewrite wm_name_read_lemma; [exact I | exact H1 | exact H2 | left; reflexivity].
  Qed.

  Lemma dict_entries_ok : forall f X d k acc, Forall wf_entry d -> ends_ok X -> no_ref_follow X ->
    (length (flat_map G d) <= f)%nat ->
    exists k', (k <= k')%nat /\
      dict_loop (parse_obj f) (length (flat_map G d) + k) (flat_map G d ++ X) acc
      = dict_loop (parse_obj f) k' X (rev (pdict objs ren d) ++ acc).
  Proof.
    intros f X. induction d as [|kv t IH]; intros k acc Hwf HX HnX Hf.
    - exists k. split; [lia|]. reflexivity.
    - inversion Hwf as [|? ? [[H1 H2] H3] H4]; subst.
      destruct (is_null_val objs (snd kv)) eqn:E.
      + rewrite G_null by exact E. rewrite gd_null_len in * by exact E.
        cbn [pdict]. rewrite E. apply IH; assumption.
      + rewrite G_nonnull by exact E. rewrite gd_nonnull_len in * by exact E.
        destruct (IH (1 + length (WUN (fst kv)) + length (U (snd kv)) + k)%nat
                     ((fst kv, to_pobj objs ren (snd kv)) :: acc) H4 HX HnX) as [k' [Hk' Heq]]; [lia|].
        exists k'. split; [lia|].
        replace (2 + length (WUN (fst kv)) + length (U (snd kv)) + length (flat_map G t) + k)%nat
          with (S (length (flat_map G t) + (1 + length (WUN (fst kv)) + length (U (snd kv)) + k)))%nat by lia.
        cbn [dict_loop].
        change (next_tok (32 :: WUN (fst kv) ++ 32 :: U (snd kv) ++ flat_map G t ++ X))
          with (next_tok (WUN (fst kv) ++ 32 :: U (snd kv) ++ flat_map G t ++ X)).
        rewrite wm_name_read_lemma; [| exact H1 | exact H2 | left; reflexivity].
        rewrite parse_obj_sp, unparse_parses_wm_lemma.
        * rewrite Heq. cbn [pdict]. rewrite E. cbn [rev]. rewrite <- app_assoc. reflexivity.
        * exact H3.
        * exact ren_pos.
        * apply entries_ends_ok. exact HX.
        * intros z _. apply entries_nrf; assumption.
        * lia.
  Qed.

  (* the trailer dictionary: entries, then /ID [<..><..>], then >> *)
  Lemma trailer_dict_parses : forall f d a b R, Forall wf_entry d ->
    Forall (fun x => x < 256) a -> Forall (fun x => x < 256) b ->
    (length (flat_map G d) + 4 <= f)%nat ->
    parse_obj (S f) (32 :: 60 :: 60 :: flat_map G d
                     ++ [32; 47; 73; 68; 32; 91] ++ hexstr a ++ hexstr b ++ [93] ++ [32; 62; 62; 10] ++ R)
    = Some (SpDict (pdict objs ren d ++ [([73; 68], SpArr [SpStr a; SpStr b])]), 10 :: R).
  Proof.
    intros f d a b R Hwf Ha Hb Hf.
    set (X := 32 :: 47 :: 73 :: 68 :: 32 :: 91 :: hexstr a ++ hexstr b ++ 93 :: 32 :: 62 :: 62 :: 10 :: R).
    replace ([32; 47; 73; 68; 32; 91] ++ hexstr a ++ hexstr b ++ [93] ++ [32; 62; 62; 10] ++ R) with X
      by (unfold X; reflexivity).
    rewrite parse_obj_sp, parse_obj_S.
    change (next_tok (60 :: 60 :: flat_map G d ++ X)) with (Some (StDictO, flat_map G d ++ X)). cbv iota.
    assert (HntX : next_tok X = Some (StName [73; 68], 32 :: 91 :: hexstr a ++ hexstr b ++ 93 :: 32 :: 62 :: 62 :: 10 :: R))
      by reflexivity.
    destruct (dict_entries_ok f X d (f - length (flat_map G d)) [] Hwf) as [k' [Hk' Heq]].
    - left. reflexivity.
    - unfold no_ref_follow. rewrite HntX. exact I.
    - lia.
    - replace (length (flat_map G d) + (f - length (flat_map G d)))%nat with f in Heq by lia.
      rewrite Heq. destruct k' as [|[|k']]; [lia|lia|].
      destruct f as [|[|[|[|f]]]]; try lia.
      cbn [dict_loop]. rewrite HntX.
      rewrite parse_obj_id_array by assumption.
      change (next_tok (32 :: 62 :: 62 :: 10 :: R)) with (Some (StDictC, 10 :: R)). cbv iota.
      rewrite app_nil_r, rev'_rev. cbn [rev]. rewrite rev_involutive. reflexivity.
  Qed.
End Entries.

(* ---------- the cross-reference section ---------- *)
Lemma xref_entry_free : forall r, xref_entry (s_free ++ r) = Some (XFree 0 65535, r).
Proof. reflexivity. Qed.
Lemma next_tok_0sp : forall X, next_tok (48 :: 32 :: X) = Some (StInt 0, 32 :: X).
Proof. reflexivity. Qed.
Lemma next_tok_trailer_kw : forall X,
  next_tok ([116; 114; 97; 105; 108; 101; 114] ++ 32 :: X) = Some (StKw k_trailer, 32 :: X).
Proof. reflexivity. Qed.

Definition model_entries (offs : list (N * N)) : list (N * xentry) :=
  rev (map (fun p : N * (N * N) => (fst p, XInUse (snd (snd p)) 0))
           (combine (map N.of_nat (seq 1 (length offs))) offs)) ++ [(0, XFree 0 65535)].

Lemma xref_subsections_model : forall f (offs : list (N * N)) X,
  Forall (fun ko => snd ko < 10 ^ 10) offs ->
  xref_subsections (S (S f))
    (48 :: 32 :: dec_of_N (N.of_nat (length offs) + 1) ++ [10] ++ s_free
     ++ flat_map (fun ko => xref_line (snd ko)) offs ++ [116; 114; 97; 105; 108; 101; 114] ++ 32 :: X) []
  = Some (model_entries offs, 32 :: X).
Proof.
  intros f offs X Hb.
  set (m := N.of_nat (length offs) + 1).
  set (Y := s_free ++ flat_map (fun ko => xref_line (snd ko)) offs ++ [116; 114; 97; 105; 108; 101; 114] ++ 32 :: X).
  change (xref_subsections (S (S f)) (48 :: 32 :: dec_of_N m ++ [10] ++ Y) [])
    with (match next_tok (48 :: 32 :: dec_of_N m ++ 10 :: Y) with
          | Some (StKw w, r) => if beq w k_trailer then Some ([], r) else None
          | Some (StInt start, r1) =>
              match next_tok r1 with
              | Some (StInt cnt, r2) =>
                  match eol (match r2 with 32 :: t => t | _ => r2 end) with
                  | Some r3 =>
                      if (start <? 0)%Z || (cnt <? 0)%Z then None else
                      match xref_entries (Z.to_nat cnt) (Z.to_N start) r3 [] with
                      | Some (acc', r4) => xref_subsections (S f) r4 acc'
                      | None => None
                      end
                  | None => None
                  end
              | _ => None
              end
          | _ => None
          end).
  rewrite next_tok_0sp.
  change (next_tok (32 :: dec_of_N m ++ 10 :: Y)) with (next_tok (dec_of_N m ++ 10 :: Y)).
  rewrite next_tok_dec_of_N by (left; reflexivity).
  cbv iota. change (eol (10 :: Y)) with (Some Y). cbv iota.
  replace ((0 <? 0)%Z || (Z.of_N m <? 0)%Z) with false
    by (symmetry; apply orb_false_iff; split; apply Z.ltb_ge; lia).
  replace (Z.to_nat (Z.of_N m)) with (S (length offs)) by (unfold m; lia).
  change (Z.to_N 0) with 0. unfold Y.
  cbn [xref_entries]. rewrite xref_entry_free.
  change (0 + 1) with (N.of_nat 1).
  rewrite (model_xref_entries_gen offs 1 [(0, XFree 0 65535)] _ Hb).
  cbn [xref_subsections]. rewrite next_tok_trailer_kw.
  change (beq k_trailer k_trailer) with true. reflexivity.
Qed.

Definition k_XRefStm : list N := [88; 82; 101; 102; 83; 116; 109].

Lemma read_section_model_lemma : forall f total sx file xoff (offs : list (N * N)) X dct R,
  Forall (fun ko => snd ko < 10 ^ 10) offs ->
  at_off file xoff = [120; 114; 101; 102; 10; 48; 32] ++ dec_of_N (N.of_nat (length offs) + 1) ++ [10] ++ s_free
                     ++ flat_map (fun ko => xref_line (snd ko)) offs ++ [116; 114; 97; 105; 108; 101; 114] ++ 32 :: X ->
  parse_obj (S (S f)) (32 :: X) = Some (SpDict dct, 10 :: k_startxref ++ R) ->
  has_dup_keys dct = false -> dict_get dct k_XRefStm = None ->
  offset_of total (k_startxref ++ R) = sx ->
  read_section (S (S f)) total sx file xoff
  = inl {| sec_entries := model_entries offs; sec_dict := dct; sec_is_stream := false;
           sec_region := (xoff, offset_of total (10 :: k_startxref ++ R)); sec_tail_value := 0; sec_obj := None |}.
Proof.
  intros f total sx file xoff offs X dct R Hb Hat Hp Hdup Hxs Hsx.
  unfold read_section. cbv zeta. rewrite Hat.
  set (Z0 := dec_of_N (N.of_nat (length offs) + 1) ++ [10] ++ s_free
             ++ flat_map (fun ko => xref_line (snd ko)) offs ++ [116; 114; 97; 105; 108; 101; 114] ++ 32 :: X).
  change (expect k_xref ([120; 114; 101; 102; 10; 48; 32] ++ Z0)) with (Some (10 :: 48 :: 32 :: Z0)).
  cbv iota. change (eol (10 :: 48 :: 32 :: Z0)) with (Some (48 :: 32 :: Z0)). cbv iota.
  unfold Z0. rewrite (xref_subsections_model f offs X Hb). rewrite Hp, Hdup.
  unfold opt_tail. cbv zeta.
  change (skip_ws (10 :: k_startxref ++ R)) with (k_startxref ++ R).
  rewrite Hsx, N.eqb_refl. fold k_XRefStm. rewrite Hxs. reflexivity.
Qed.

(* ------------------------------------------------------------------------------------------------
   Capstone: the strict reader (written from ISO 32000-1 only) accepts the WHOLE output of the plain
   writer model and reads back exactly the document that was written: every written object under its
   new number with the same value (references renumbered) and the same stream bytes, nothing else,
   one cross-reference section, the same version, the trailer with /Size = n+1 and the /ID pair.
   Hypotheses other than the ones below may be added by the prover only if they are decidable
   well-formedness conditions of the document (no condition on the output bytes other than its
   length < 10^10, which is the xref format's limit). *)

Definition sobj_view (out : list N) (so : sobj) : N * N * pobj * option (list N) :=
  (so_num so, so_gen so, so_val so,
   match so_stream so with
   | Some (doff, len) => Some (firstn (N.to_nat len) (skipn (N.to_nat doff) out))
   | None => None
   end).

Definition wm_out (d : doc) : list N := write_doc wm_unparse_string wm_unparse_name d.

(* value the reader must return for a written object: the dictionary of a stream carries /Length last *)
Definition expected_val (d : doc) (i : indirect) : pobj :=
  match i_stream i with
  | None => to_pobj (d_objects d) (doc_ren d) (i_val i)
  | Some data =>
      match to_pobj (d_objects d) (doc_ren d) (drop_length (i_val i)) with
      | SpDict l => SpDict (l ++ [(k_Length, SpInt (Z.of_nat (length data)))])
      | v => v
      end
  end.

Definition expected_trailer (d : doc) : list (list N * pobj) :=
  let n := N.of_nat (length (written (graph_of d) (roots_of d))) in
  flat_map (fun kv => if is_null_val (d_objects d) (snd kv) then []
                      else [(fst kv, if beqb (fst kv) k_Size then SpInt (Z.of_N (n + 1))
                                     else to_pobj (d_objects d) (doc_ren d) (snd kv))]) (d_trailer d)
  ++ [([73; 68], SpArr [SpStr (d_id1 d); SpStr (d_id2 d)])].


(* ---------- one written object, read at the place where its chunk starts ---------- *)
Lemma written_find_obj : forall d id, doc_closed d -> In id (w_ids d) -> exists i, find_obj (d_objects d) id = Some i.
Proof.
  intros d id Hc Hin. destruct (queue_complete_lemma _ _ Hc) as [_ Hq].
  apply Hq in Hin. apply (reach_in_g _ _ _ Hc) in Hin.
  unfold graph_of in Hin. rewrite map_map in Hin. cbn [fst] in Hin.
  induction (d_objects d) as [|[k v] t IH]; [destruct Hin|].
  cbn [map fst] in Hin. cbn [find_obj]. destruct (k =? id) eqn:E; [eexists; reflexivity|].
  destruct Hin as [Hk|Hin]; [subst k; rewrite N.eqb_refl in E; discriminate E | exact (IH Hin)].
Qed.

Definition patched_ren (d : doc) (x : N) : N := if doc_ren d x =? 0 then 1 else doc_ren d x.
Lemma patched_ren_pos : forall d x, 0 < patched_ren d x.
Proof. intros d x. unfold patched_ren. destruct (doc_ren d x =? 0) eqn:E; [lia | apply N.eqb_neq in E; lia]. Qed.
Lemma patched_ren_eq : forall d x, 0 < doc_ren d x -> doc_ren d x = patched_ren d x.
Proof. intros d x H. unfold patched_ren. destruct (doc_ren d x =? 0) eqn:E; [apply N.eqb_eq in E; lia | reflexivity]. Qed.

Definition obj_read (d : doc) (fuel : nat) (id off : N) (so : sobj) : Prop :=
  (forall len_of, parse_indirect fuel (N.of_nat (length (wm_out d))) (wm_out d) off len_of = inl (Some so)) /\
  so_num so = doc_ren d id /\ so_gen so = 0 /\ so_where so = XInUse off 0 /\
  so_end so = off + N.of_nat (length (w_chunk d id)) /\
  (forall i, find_obj (d_objects d) id = Some i ->
             sobj_view (wm_out d) so = (doc_ren d id, 0, expected_val d i, i_stream i)).

Lemma one_object_read : forall d fuel id off tail,
  doc_closed d -> wf_doc_objs d ->
  (forall k i, In (k, i) (d_objects d) -> i_stream i <> None -> exists dd, i_val i = ODict dd) ->
  In id (w_ids d) ->
  skipn (N.to_nat off) (wm_out d) = w_chunk d id ++ tail ->
  (length (wm_out d) <= fuel)%nat ->
  exists so, obj_read d fuel id off so.
Proof.
  intros d fuel id off tail Hc Hwf Hstreams Hin Hskip Hfuel.
  destruct (written_find_obj d id Hc Hin) as [i Hf].
  set (out := wm_out d) in *. set (objs := d_objects d) in *. set (ren' := patched_ren d).
  assert (Hwfi : wf_wobj (i_val i)).
  { destruct (find_obj_in _ _ _ Hf) as [k Hk]. unfold wf_doc_objs in Hwf.
    rewrite Forall_forall in Hwf. apply (Hwf (k, i) Hk). }
  assert (Hlen : (length out - N.to_nat off = length (w_chunk d id) + length tail)%nat).
  { rewrite <- skipn_length, Hskip, app_length. reflexivity. }
  assert (Hpos : (0 < length (w_chunk d id))%nat) by apply chunk_of_length_pos.
  destruct (i_stream i) as [data|] eqn:Hs.
  - (* stream *)
    destruct (find_obj_in _ _ _ Hf) as [k0 Hk0].
    destruct (Hstreams k0 i Hk0) as [dd Hdd]; [rewrite Hs; discriminate|].
    set (len := N.of_nat (length data)).
    set (d' := filter (fun kv : list N * obj => negb (beqb (fst kv) k_Length)) dd).
    set (o0 := ODict (d' ++ [len_entry len])).
    assert (Hext : forall x, In x (refs_of objs o0) -> doc_ren d x = ren' x).
    { intros x Hx. apply patched_ren_eq. unfold o0 in Hx. rewrite refs_of_dict_app in Hx. apply in_app_or in Hx.
      destruct Hx as [Hx|Hx]; [|destruct Hx].
      apply written_ren_pos; [exact Hc|].
      destruct (queue_complete_lemma _ _ Hc) as [_ Hq]. apply Hq.
      apply (reach_step _ _ id); [apply Hq; exact Hin|].
      rewrite (children_graph_of_stream d id i data Hf Hs), Hdd. exact Hx. }
    destruct (ren_ext WUS WUN objs (doc_ren d) ren' o0 Hext) as [HU HP].
    set (Hd := obj_header (doc_ren d id) ++ unparse WUS WUN objs ren' o0 ++ s_stream_kw).
    set (D := data ++ s_endstream_kw ++ s_endobj ++ tail).
    assert (Hchunk : w_chunk d id ++ tail = Hd ++ D).
    { unfold w_chunk, chunk_of. fold objs. rewrite Hf. unfold emit_object. rewrite Hs, Hdd, unparse_stream_dict_eq.
      fold len d' o0. rewrite HU. unfold Hd, D, s_stream_kw, s_endstream_kw. rewrite <- !app_assoc. reflexivity. }
    assert (Hclen : length (w_chunk d id) = (length Hd + length data + 17)%nat).
    { apply (f_equal (@length N)) in Hchunk. unfold D in Hchunk. rewrite !app_length in Hchunk.
      unfold s_endstream_kw, s_endobj in Hchunk. cbn [length] in Hchunk. lia. }
    rewrite Hchunk in Hskip.
    assert (HlenHd : (0 < length Hd)%nat).
    { unfold Hd, obj_header. rewrite !app_length. cbn [length]. lia. }
    assert (HlenD : length D = (length data + 17 + length tail)%nat).
    { unfold D. rewrite !app_length. unfold s_endstream_kw, s_endobj. cbn [length]. lia. }
    assert (Hwf0 : wf_wobj o0).
    { apply wf_dict. apply Forall_app. split.
      - rewrite Hdd in Hwfi. apply wf_dict in Hwfi. rewrite Forall_forall in *.
        intros kv Hkv. apply Hwfi. unfold d' in Hkv. apply filter_In in Hkv. tauto.
      - constructor; [|constructor]. split; [|exact I]. split.
        + cbn. intros H. repeat (destruct H as [H|H]; [discriminate H|]). exact H.
        + repeat constructor. }
    eexists. unfold obj_read. split; [|split; [|split; [|split; [|split]]]].
    + intros len_of. apply (parse_indirect_emitted_stream fuel (N.of_nat (length out)) out off len_of (doc_ren d id) objs ren' o0
               (pdict objs ren' (d' ++ [len_entry len])) data tail).
      * unfold at_off. rewrite Hskip. unfold Hd, D. rewrite <- !app_assoc. reflexivity.
      * exact Hwf0.
      * apply patched_ren_pos.
      * intros z Hz. discriminate Hz.
      * unfold Hd in Hclen. rewrite !app_length in Hclen. lia.
      * reflexivity.
      * apply dict_get_length. unfold d'. apply filter_Forall.
    + reflexivity.
    + reflexivity.
    + reflexivity.
    + cbn [so_end]. unfold offset_of. lia.
    + intros i' Hi'. assert (i' = i) by (pose proof Hf as Hf2; unfold objs in Hf2; congruence). subst i'.
      unfold sobj_view. cbn [so_num so_gen so_val so_stream]. fold out.
      assert (Hdoff : N.to_nat (offset_of (N.of_nat (length out)) (data ++ s_endstream_kw ++ s_endobj ++ tail))
                      = (N.to_nat off + length Hd)%nat).
      { fold D. unfold offset_of. lia. }
      rewrite Hdoff, skipn_add, Hskip, skipn_app, skipn_all, Nat.sub_diag. cbn [skipn app].
      unfold D. rewrite Nat2N.id, firstn_app, firstn_all, Nat.sub_diag. cbn [firstn]. rewrite app_nil_r.
      rewrite Hs. f_equal. f_equal.
      unfold expected_val. rewrite Hs, Hdd. cbn [drop_length]. fold d'. fold objs.
      change (to_pobj objs (doc_ren d) (ODict d')) with (SpDict (pdict objs (doc_ren d) d')).
      cbv iota.
      assert (Hpd : pdict objs ren' (d' ++ [len_entry len]) = pdict objs (doc_ren d) (d' ++ [len_entry len])).
      { change (to_pobj objs (doc_ren d) o0) with (SpDict (pdict objs (doc_ren d) (d' ++ [len_entry len]))) in HP.
        change (to_pobj objs ren' o0) with (SpDict (pdict objs ren' (d' ++ [len_entry len]))) in HP.
        injection HP as HP. symmetry. exact HP. }
      rewrite Hpd, pdict_app. unfold len_entry. cbn [pdict snd fst is_null_val to_pobj].
      unfold len. rewrite nat_N_Z. reflexivity.
  - (* plain object *)
    assert (Hext : forall x, In x (refs_of objs (i_val i)) -> doc_ren d x = ren' x).
    { intros x Hx. apply patched_ren_eq. exact (refs_ren_pos d id i x Hc Hin Hf Hs Hx). }
    destruct (ren_ext WUS WUN objs (doc_ren d) ren' (i_val i) Hext) as [HU HP].
    assert (Hchunk : w_chunk d id = obj_header (doc_ren d id) ++ unparse WUS WUN objs ren' (i_val i) ++ s_endobj).
    { unfold w_chunk, chunk_of. fold objs. rewrite Hf. unfold emit_object. rewrite Hs, HU. reflexivity. }
    eexists. unfold obj_read. split; [|split; [|split; [|split; [|split]]]].
    + intros len_of. apply (parse_indirect_emitted fuel (N.of_nat (length out)) out off len_of (doc_ren d id) objs ren' (i_val i) tail).
      * unfold at_off. rewrite Hskip, Hchunk, <- !app_assoc. reflexivity.
      * exact Hwfi.
      * apply patched_ren_pos.
      * pose proof Hlen as Hlen2. rewrite Hchunk, !app_length in Hlen2. unfold s_endobj in Hlen2. cbn [length] in Hlen2. lia.
    + reflexivity.
    + reflexivity.
    + reflexivity.
    + cbn [so_end]. unfold offset_of. lia.
    + intros i' Hi'. assert (i' = i) by (pose proof Hf as Hf2; unfold objs in Hf2; congruence). subst i'.
      unfold sobj_view. cbn [so_num so_gen so_val so_stream]. rewrite Hs. f_equal. f_equal.
      unfold expected_val. rewrite Hs. fold objs. symmetry. exact HP.
Qed.

(* ---------- all written objects, in file order ---------- *)
Fixpoint idoffs (d : doc) (ids : list N) (pos : N) : list (N * N) :=
  match ids with
  | [] => []
  | id :: t => (id, pos) :: idoffs d t (pos + N.of_nat (length (w_chunk d id)))
  end.

Lemma offs_of_idoffs : forall d ids pos,
  offs_of WUS WUN (d_objects d) (doc_ren d) ids pos = map (fun p => (doc_ren d (fst p), snd p)) (idoffs d ids pos).
Proof.
  intros d. induction ids as [|id t IH]; intros pos; [reflexivity|].
  cbn [offs_of idoffs map fst snd]. rewrite IH. reflexivity.
Qed.

Lemma idoffs_length : forall d ids pos, length (idoffs d ids pos) = length ids.
Proof. intros d. induction ids as [|id t IH]; intros pos; [reflexivity|]. cbn [idoffs length]. rewrite IH. reflexivity. Qed.

Lemma idoffs_fst : forall d ids pos, map fst (idoffs d ids pos) = ids.
Proof. intros d. induction ids as [|id t IH]; intros pos; [reflexivity|]. cbn [idoffs map fst]. rewrite IH. reflexivity. Qed.

Lemma all_objects_read : forall d fuel,
  doc_closed d -> wf_doc_objs d ->
  (forall k i, In (k, i) (d_objects d) -> i_stream i <> None -> exists dd, i_val i = ODict dd) ->
  (length (wm_out d) <= fuel)%nat ->
  forall ids pos pre rest, (forall id, In id ids -> In id (w_ids d)) ->
  wm_out d = pre ++ concat (map (w_chunk d) ids) ++ rest -> N.to_nat pos = length pre ->
  exists sos, Forall2 (fun p so => obj_read d fuel (fst p) (snd p) so) (idoffs d ids pos) sos.
Proof.
  intros d fuel Hc Hwf Hst Hfuel. induction ids as [|id t IH]; intros pos pre rest Hin Hout Hpos.
  - exists []. constructor.
  - destruct (one_object_read d fuel id pos (concat (map (w_chunk d) t) ++ rest) Hc Hwf Hst) as [so Hso].
    + apply Hin. left. reflexivity.
    + rewrite Hout, Hpos, skipn_app, skipn_all, Nat.sub_diag. cbn [app skipn map concat].
      rewrite <- app_assoc. reflexivity.
    + exact Hfuel.
    + destruct (IH (pos + N.of_nat (length (w_chunk d id))) (pre ++ w_chunk d id) rest) as [sos Hsos].
      * intros x Hx. apply Hin. right. exact Hx.
      * rewrite Hout. cbn [map concat]. rewrite <- !app_assoc. reflexivity.
      * rewrite app_length. lia.
      * exists (so :: sos). cbn [idoffs]. constructor; [exact Hso | exact Hsos].
Qed.

(* ---------- generic folds of the reader ---------- *)
Lemma fold_collect : forall (A B E : Type) (F : list B + E -> A -> list B + E) l sos acc,
  Forall2 (fun ke so => forall objs, F (inl objs) ke = inl (so :: objs)) l sos ->
  fold_left F l (inl acc) = inl (rev sos ++ acc).
Proof.
  intros A B E F. induction l as [|ke t IH]; intros sos acc H; inversion H as [|? so ? sos' H1 H2]; subst.
  - reflexivity.
  - cbn [fold_left]. rewrite H1, (IH sos' (so :: acc) H2). cbn [rev]. rewrite <- app_assoc. reflexivity.
Qed.

Lemma fold_skip : forall (A B E : Type) (F : list B + E -> A -> list B + E) l acc,
  Forall (fun ke => forall objs, F (inl objs) ke = inl objs) l ->
  fold_left F l (inl acc) = inl acc.
Proof.
  intros A B E F. induction l as [|ke t IH]; intros acc H; [reflexivity|].
  inversion H as [|? ? H1 H2]; subst. cbn [fold_left]. rewrite H1. apply IH. exact H2.
Qed.

Lemma flat_map_nil : forall (A B : Type) (G : A -> list B) l, Forall (fun x => G x = []) l -> flat_map G l = [].
Proof.
  intros A B G. induction l as [|x t IH]; intros H; [reflexivity|].
  inversion H as [|? ? H1 H2]; subst. cbn [flat_map]. rewrite H1, (IH H2). reflexivity.
Qed.

Lemma filter_all : forall (A : Type) (f : A -> bool) l, (forall x, f x = true) -> filter f l = l.
Proof.
  intros A f. induction l as [|x t IH]; intros H; [reflexivity|]. cbn [filter]. rewrite H, (IH H). reflexivity.
Qed.

(* ---------- the merged cross-reference table ---------- *)
Lemma lookup_x_none : forall k l, ~ In k (map fst l) -> lookup_x k l = None.
Proof.
  intros k. induction l as [|[k' e] t IH]; intros H; [reflexivity|].
  cbn [lookup_x]. destruct (k' =? k) eqn:E.
  - apply N.eqb_eq in E. exfalso. apply H. left. exact E.
  - apply IH. intros Hin. apply H. right. exact Hin.
Qed.

Lemma lookup_x_in : forall k e l, NoDup (map fst l) -> In (k, e) l -> lookup_x k l = Some e.
Proof.
  intros k e. induction l as [|[k' e'] t IH]; intros Hnd Hin; [destruct Hin|].
  cbn [map fst] in Hnd. inversion Hnd as [|? ? Hn1 Hn2]; subst.
  cbn [lookup_x]. destruct Hin as [Heq|Hin].
  - inversion Heq; subst. rewrite N.eqb_refl. reflexivity.
  - destruct (k' =? k) eqn:E.
    + apply N.eqb_eq in E. subst k'. exfalso. apply Hn1. apply in_map_iff. exists (k, e). split; [reflexivity|exact Hin].
    + apply IH; assumption.
Qed.

Lemma merge_x_rev : forall older newer, NoDup (map fst older ++ map fst newer) ->
  merge_x newer older = rev older ++ newer.
Proof.
  induction older as [|[k e] t IH]; intros newer Hnd; [reflexivity|].
  cbn [merge_x]. cbn [map fst app] in Hnd. inversion Hnd as [|? ? Hn1 Hn2]; subst.
  rewrite lookup_x_none.
  - rewrite IH.
    + cbn [rev]. rewrite <- app_assoc. reflexivity.
    + cbn [map fst]. apply (NoDup_Add (Add_app k (map fst t) (map fst newer))). split; assumption.
  - intros Hin. apply Hn1. apply in_or_app. right. exact Hin.
Qed.

Fixpoint fold_max (l : list N) (m : N) : N := match l with [] => m | k :: t => fold_max t (N.max k m) end.
Lemma max_num_fold : forall l m, max_num l m = fold_max (map fst l) m.
Proof. induction l as [|[k e] t IH]; intros m; [reflexivity|]. cbn [max_num map fst fold_max]. apply IH. Qed.
Lemma fold_max_seq : forall len a m, fold_max (map N.of_nat (seq a len)) m = N.max m (N.of_nat (a + len) - 1) \/ len = 0%nat.
Proof.
  induction len as [|len IH]; intros a m; [right; reflexivity|]. left.
  cbn [seq map fold_max]. destruct (IH (S a) (N.max (N.of_nat a) m)) as [H|H].
  - rewrite H. lia.
  - subst len. cbn [seq map fold_max]. lia.
Qed.

(* ---------- regions ---------- *)
Lemma gap_ok_refl : forall file a, gap_ok file a a = true.
Proof. intros file a. unfold gap_ok. rewrite N.sub_diag. reflexivity. Qed.

Lemma insert_region_last : forall r l, Forall (fun x => fst x < fst r) l -> insert_region r l = l ++ [r].
Proof.
  intros r. induction l as [|h t IH]; intros H; [reflexivity|].
  inversion H as [|? ? H1 H2]; subst. cbn [insert_region].
  replace (fst r <=? fst h) with false by (symmetry; apply N.leb_gt; exact H1).
  rewrite (IH H2). reflexivity.
Qed.

Fixpoint inc_fst (l : list (N * N)) : Prop :=
  match l with [] => True | x :: t => Forall (fun y => fst x < fst y) t /\ inc_fst t end.

Lemma sort_rev_sorted : forall t acc,
  Forall (fun x => Forall (fun y : N * N => fst x < fst y) t) acc -> inc_fst t ->
  fold_right insert_region acc (rev t) = acc ++ t.
Proof.
  induction t as [|r t IH]; intros acc Hacc Hinc; [cbn; rewrite app_nil_r; reflexivity|].
  destruct Hinc as [Hr Hinc]. cbn [rev]. rewrite fold_right_app. cbn [fold_right].
  rewrite insert_region_last.
  - rewrite IH; [rewrite <- app_assoc; reflexivity | | exact Hinc].
    apply Forall_app. split.
    + eapply Forall_impl; [|exact Hacc]. intros x Hx. inversion Hx; assumption.
    + constructor; [exact Hr|constructor].
  - eapply Forall_impl; [|exact Hacc]. intros x Hx. inversion Hx; assumption.
Qed.

Definition idregs (d : doc) (ids : list N) (pos : N) : list (N * N) :=
  map (fun p => (snd p, snd p + N.of_nat (length (w_chunk d (fst p))))) (idoffs d ids pos).

Lemma idoffs_ge : forall d ids pos p, In p (idoffs d ids pos) -> pos <= snd p.
Proof.
  intros d. induction ids as [|id t IH]; intros pos p Hin; [destruct Hin|].
  cbn [idoffs] in Hin. destruct Hin as [<-|Hin]; [cbn; lia|]. apply IH in Hin. lia.
Qed.

Lemma w_chunk_pos : forall d id, (0 < length (w_chunk d id))%nat.
Proof. intros d id. apply chunk_of_length_pos. Qed.

Lemma idregs_inc : forall d ids pos, inc_fst (idregs d ids pos).
Proof.
  intros d. induction ids as [|id t IH]; intros pos; [exact I|].
  unfold idregs. cbn [idoffs map]. split; [|apply IH].
  apply Forall_forall. intros y Hy. apply in_map_iff in Hy. destruct Hy as [p [<- Hp]].
  apply idoffs_ge in Hp. pose proof (w_chunk_pos d id). cbn [fst snd]. lia.
Qed.

Lemma idregs_fst_ge : forall d ids pos y, In y (idregs d ids pos) -> pos <= fst y.
Proof.
  intros d ids pos y Hy. apply in_map_iff in Hy. destruct Hy as [p [<- Hp]].
  apply idoffs_ge in Hp. exact Hp.
Qed.

Lemma idregs_fst_lt : forall d ids pos y, In y (idregs d ids pos) ->
  fst y < pos + N.of_nat (length (concat (map (w_chunk d) ids))).
Proof.
  intros d. induction ids as [|id t IH]; intros pos y Hy; [destruct Hy|].
  unfold idregs in Hy. cbn [idoffs map] in Hy. cbn [map concat]. rewrite app_length.
  pose proof (w_chunk_pos d id).
  destruct Hy as [<-|Hy]; [cbn [fst snd]; lia|]. apply IH in Hy. lia.
Qed.

Lemma regions_ok_chain : forall d file total ids pos l,
  regions_ok file pos (idregs d ids pos ++ l) total
  = regions_ok file (pos + N.of_nat (length (concat (map (w_chunk d) ids)))) l total.
Proof.
  intros d file total. induction ids as [|id t IH]; intros pos l.
  - cbn. rewrite N.add_0_r. reflexivity.
  - unfold idregs. cbn [idoffs map app regions_ok fst snd].
    rewrite N.ltb_irrefl, gap_ok_refl. cbn [negb].
    fold (idregs d t (pos + N.of_nat (length (w_chunk d id)))). rewrite IH.
    cbn [map concat]. rewrite app_length. f_equal. lia.
Qed.

Record wf_doc (d : doc) : Prop := {
  wfd_closed : doc_closed d;
  wfd_objs : wf_doc_objs d;
  wfd_trailer : wf_wobj (ODict (d_trailer d));
  wfd_streams : forall k i, In (k, i) (d_objects d) -> i_stream i <> None -> exists dd, i_val i = ODict dd;
  wfd_stream_bytes : forall k i data, In (k, i) (d_objects d) -> i_stream i = Some data -> Forall (fun b => b < 256) data;
  wfd_version : exists a b, d_version d = [a; 46; b] /\ is_digit a = true /\ is_digit b = true;
  wfd_ids : Forall (fun b => b < 256) (d_id1 d) /\ Forall (fun b => b < 256) (d_id2 d);
  wfd_root : exists r i, find (fun kv => beqb (fst kv) k_Root) (d_trailer d) = Some (k_Root, ORef r)
                         /\ find_obj (d_objects d) r = Some i /\ is_null_val (d_objects d) (ORef r) = false;
  wfd_size : exists z, find (fun kv => beqb (fst kv) k_Size) (d_trailer d) = Some (k_Size, OInt z);
  wfd_keys_nodup : NoDup (map fst (d_trailer d))
                   /\ ~ In [73; 68] (map fst (d_trailer d))
                   /\ (forall k i dd, In (k, i) (d_objects d) -> i_val i = ODict dd -> NoDup (map fst dd));
  (* added by the prover: the strict reader follows /Prev to an older section and /XRefStm to a hybrid
     cross-reference stream; the model writes a single classic section, so a (trimmed) trailer carrying
     either key would make the reader look for sections that do not exist *)
  wfd_no_prev : ~ In n_Prev (map fst (d_trailer d));
  wfd_no_xrefstm : ~ In k_XRefStm (map fst (d_trailer d))
}.


(* ---------- the trailer dictionary of the document ---------- *)
Definition et_entries (d : doc) : list (list N * pobj) :=
  flat_map (fun kv => if is_null_val (d_objects d) (snd kv) then []
                      else [(fst kv, if beqb (fst kv) k_Size then SpInt (Z.of_N (w_n d + 1))
                                     else to_pobj (d_objects d) (doc_ren d) (snd kv))]) (d_trailer d).
Lemma expected_trailer_eq : forall d,
  expected_trailer d = et_entries d ++ [([73; 68], SpArr [SpStr (d_id1 d); SpStr (d_id2 d)])].
Proof. reflexivity. Qed.

Definition w_trailer' (d : doc) : list (list N * obj) :=
  map (fun kv => if beqb (fst kv) k_Size then (fst kv, OInt (Z.of_N (w_n d + 1))) else kv) (d_trailer d).

Lemma nodup_key_unique : forall (A B : Type) (l : list (A * B)) k a b,
  NoDup (map fst l) -> In (k, a) l -> In (k, b) l -> a = b.
Proof.
  intros A B. induction l as [|[k' v] t IH]; intros k a b Hnd Ha Hb; [destruct Ha|].
  cbn [map fst] in Hnd. inversion Hnd as [|? ? H1 H2]; subst.
  destruct Ha as [Ha|Ha]; destruct Hb as [Hb|Hb].
  - congruence.
  - inversion Ha; subst. exfalso. apply H1. apply in_map_iff. exists (k, b). split; [reflexivity|exact Hb].
  - inversion Hb; subst. exfalso. apply H1. apply in_map_iff. exists (k, a). split; [reflexivity|exact Ha].
  - exact (IH k a b H2 Ha Hb).
Qed.

Lemma beqb_eq : forall a b, beqb a b = true <-> a = b.
Proof. intros a b. unfold beqb. apply list_eqb_N_eq. Qed.

Section TrailerFacts.
  Variable d : doc.
  Hypothesis Hnd : NoDup (map fst (d_trailer d)).
  Variable zs : Z.
  Hypothesis Hsize : find (fun kv => beqb (fst kv) k_Size) (d_trailer d) = Some (k_Size, OInt zs).

  Lemma size_entry_nonnull : forall kv, In kv (d_trailer d) -> beqb (fst kv) k_Size = true ->
    is_null_val (d_objects d) (snd kv) = false.
  Proof.
    intros [k v] Hin Hk. cbn [fst snd] in *. apply beqb_eq in Hk. subst k.
    apply find_some in Hsize. destruct Hsize as [Hs _].
    rewrite (nodup_key_unique _ _ _ _ _ _ Hnd Hin Hs). reflexivity.
  Qed.

  Lemma trailer_text_eq : forall l, (forall kv, In kv l -> In kv (d_trailer d)) ->
    flat_map (w_tg d) l
    = flat_map (gd WUS WUN (d_objects d) (doc_ren d))
               (map (fun kv => if beqb (fst kv) k_Size then (fst kv, OInt (Z.of_N (w_n d + 1))) else kv) l)
    /\ flat_map (fun kv => if is_null_val (d_objects d) (snd kv) then []
                      else [(fst kv, if beqb (fst kv) k_Size then SpInt (Z.of_N (w_n d + 1))
                                     else to_pobj (d_objects d) (doc_ren d) (snd kv))]) l
       = pdict (d_objects d) (doc_ren d)
               (map (fun kv => if beqb (fst kv) k_Size then (fst kv, OInt (Z.of_N (w_n d + 1))) else kv) l).
  Proof.
    induction l as [|kv t IH]; intros Hin; [split; reflexivity|].
    destruct IH as [IH1 IH2]; [intros x Hx; apply Hin; right; exact Hx|].
    cbn [flat_map map pdict]. rewrite IH1, IH2. unfold w_tg at 1, gd at 2.
    destruct (beqb (fst kv) k_Size) eqn:E.
    - rewrite (size_entry_nonnull kv (Hin kv (or_introl eq_refl)) E).
      cbn [fst snd is_null_val unparse to_pobj]. rewrite dec_of_Z_of_N. split; reflexivity.
    - destruct (is_null_val (d_objects d) (snd kv)); split; reflexivity.
  Qed.
End TrailerFacts.

Lemma has_dup_keys_nodup : forall l, NoDup (map fst l) -> has_dup_keys l = false.
Proof.
  induction l as [|[k v] t IH]; intros H; [reflexivity|].
  cbn [map fst] in H. inversion H as [|? ? H1 H2]; subst. cbn [has_dup_keys].
  rewrite (IH H2), orb_false_r.
  destruct (existsb (fun kv => beq k (fst kv)) t) eqn:E; [|reflexivity].
  apply existsb_exists in E. destruct E as [[k' v'] [Hin Hk]]. cbn [fst] in Hk.
  apply list_eqb_N_eq in Hk. subst k'. exfalso. apply H1. apply in_map_iff. exists (k, v'). split; [reflexivity|exact Hin].
Qed.

Lemma dict_get_none : forall l k, ~ In k (map fst l) -> dict_get l k = None.
Proof.
  induction l as [|[k' v] t IH]; intros k H; [reflexivity|].
  cbn [dict_get]. destruct (beq k k') eqn:E.
  - apply list_eqb_N_eq in E. subst k'. exfalso. apply H. left. reflexivity.
  - apply IH. intros Hin. apply H. right. exact Hin.
Qed.

Lemma dict_get_in : forall l k v, NoDup (map fst l) -> In (k, v) l -> dict_get l k = Some v.
Proof.
  induction l as [|[k' v'] t IH]; intros k v Hnd Hin; [destruct Hin|].
  cbn [map fst] in Hnd. inversion Hnd as [|? ? H1 H2]; subst. cbn [dict_get].
  destruct Hin as [Heq|Hin].
  - inversion Heq; subst. unfold beq. replace (list_eqb N.eqb k k) with true by (symmetry; apply list_eqb_N_eq; reflexivity).
    reflexivity.
  - destruct (beq k k') eqn:E.
    + apply list_eqb_N_eq in E. subst k'. exfalso. apply H1. apply in_map_iff. exists (k, v). split; [reflexivity|exact Hin].
    + apply IH; assumption.
Qed.

Lemma et_entries_keys : forall d k, In k (map fst (et_entries d)) -> In k (map fst (d_trailer d)).
Proof.
  intros d k. unfold et_entries. induction (d_trailer d) as [|kv t IH]; intros H; [destruct H|].
  cbn [flat_map] in H. rewrite map_app in H. apply in_app_or in H. destruct H as [H|H].
  - destruct (is_null_val (d_objects d) (snd kv)); [destruct H|].
    destruct H as [H|[]]. left. exact H.
  - right. apply IH. exact H.
Qed.

Lemma et_entries_nodup : forall d, NoDup (map fst (d_trailer d)) -> NoDup (map fst (et_entries d)).
Proof.
  intros d. unfold et_entries. induction (d_trailer d) as [|kv t IH]; intros H; [constructor|].
  cbn [map fst] in H. inversion H as [|? ? H1 H2]; subst.
  cbn [flat_map]. rewrite map_app.
  destruct (is_null_val (d_objects d) (snd kv)); [apply IH; exact H2|].
  cbn [map fst app]. constructor; [|apply IH; exact H2].
  intros Hin. apply H1. clear -Hin.
  induction t as [|kv' t IH]; [destruct Hin|].
  cbn [flat_map] in Hin. rewrite map_app in Hin. apply in_app_or in Hin. destruct Hin as [Hin|Hin].
  - destruct (is_null_val (d_objects d) (snd kv')); [destruct Hin|]. destruct Hin as [Hin|[]]. left. exact Hin.
  - right. apply IH. exact Hin.
Qed.

Lemma et_entries_in : forall d k v, In (k, v) (d_trailer d) -> is_null_val (d_objects d) v = false ->
  In (k, if beqb k k_Size then SpInt (Z.of_N (w_n d + 1)) else to_pobj (d_objects d) (doc_ren d) v) (et_entries d).
Proof.
  intros d k v Hin Hn. unfold et_entries. apply in_flat_map. exists (k, v). split; [exact Hin|].
  cbn [fst snd]. rewrite Hn. left. reflexivity.
Qed.

Lemma expected_trailer_nodup : forall d, NoDup (map fst (d_trailer d)) -> ~ In [73; 68] (map fst (d_trailer d)) ->
  NoDup (map fst (expected_trailer d)).
Proof.
  intros d H1 H2. rewrite expected_trailer_eq, map_app. cbn [map fst].
  apply (NoDup_Add (Add_app [73; 68] (map fst (et_entries d)) [])). rewrite app_nil_r. split.
  - apply et_entries_nodup. exact H1.
  - intros H. apply H2. apply et_entries_keys. exact H.
Qed.

Lemma expected_trailer_get_none : forall d k, ~ In k (map fst (d_trailer d)) -> k <> [73; 68] ->
  dict_get (expected_trailer d) k = None.
Proof.
  intros d k H1 H2. apply dict_get_none. rewrite expected_trailer_eq, map_app. intros H.
  apply in_app_or in H. destruct H as [H|[H|[]]].
  - apply H1. apply et_entries_keys. exact H.
  - apply H2. symmetry. exact H.
Qed.

(* ---------- read_strict on a file with one classic section and no compressed objects ---------- *)
Definition region_of (o : sobj) : N * N := (match so_where o with XInUse off _ => off | _ => 0 end, so_end o).

Lemma Forall2_map_left : forall (A B C : Type) (R : B -> C -> Prop) (f : A -> B) l l',
  Forall2 (fun a c => R (f a) c) l l' -> Forall2 R (map f l) l'.
Proof. intros A B C R f l l' H. induction H; cbn [map]; constructor; assumption. Qed.

Lemma Forall2_impl : forall (A B : Type) (R R' : A -> B -> Prop) l l',
  (forall a b, R a b -> R' a b) -> Forall2 R l l' -> Forall2 R' l l'.
Proof. intros A B R R' l l' H H2. induction H2; constructor; auto. Qed.

Lemma read_strict_one_section_lemma : forall file ver after_hdr sx xoff sec g0 g1 (kos : list (N * N)) sos size rn g o' g',
  let total := N.of_nat (length file) in
  let xr := (0, XFree g0 g1) :: map (fun ko : N * N => (fst ko, XInUse (snd ko) 0)) kos in
  let regions := sort_regions ((0, offset_of total after_hdr) :: (sx, total) :: [sec_region sec] ++ map region_of (rev sos)) in
  parse_header file = Some (ver, after_hdr) ->
  find_last k_startxref file 0 None = Some sx ->
  parse_tail (at_off file sx) = Some (xoff, []) ->
  read_section (length file) total sx file xoff = inl sec ->
  dict_get (sec_dict sec) n_Prev = None ->
  sec_obj sec = None ->
  merge_x [] (sec_entries sec) = xr ->
  Forall (fun ke => lookup_x (fst ke) xr = Some (snd ke)) (sec_entries sec) ->
  NoDup (map fst xr) ->
  Forall2 (fun ko so => (forall len_of, parse_indirect (length file) total file (snd ko) len_of = inl (Some so))
                        /\ so_num so = fst ko /\ so_gen so = 0) kos sos ->
  get_int (sec_dict sec) n_Size = Some size -> size = max_num xr 0 + 1 ->
  dict_get (sec_dict sec) n_Root = Some (SpRef rn g) -> lookup_x rn xr = Some (XInUse o' g') ->
  regions_ok file 0 regions total = None ->
  read_strict file = RsOk {| sf_version := ver; sf_trailer := sec_dict sec; sf_objs := rev sos;
                             sf_xref_stream := sec_is_stream sec; sf_sections := 1;
                             sf_startxref := xoff; sf_regions := regions |}.
Proof.
  intros file ver after_hdr sx xoff sec g0 g1 kos sos size rn g o' g' total xr regions
         Hhdr Hfl Htail Hsec Hprev Hsobj Hxr Hlk Hnd Hobjs Hsize Hmax Hroot Hlook Hreg.
  unfold read_strict. fold total. rewrite Hhdr, Hfl, Htail. cbn [negb].
  cbn [read_chain existsb]. rewrite Hsec, Hprev.
  cbn [hd fold_left]. rewrite Hxr.
  (* in-use objects *)
  match goal with |- match fold_left ?F _ _ with inl _ => _ | inr _ => _ end = _ =>
    assert (H1 : fold_left F xr (inl []) = inl (rev sos ++ [])) end.
  { unfold xr. cbn [fold_left]. apply fold_collect. apply Forall2_map_left.
    eapply Forall2_impl; [|exact Hobjs]. intros ko so [Hp [Hn Hg]] objs. cbv beta iota.
    rewrite Hp, Hn, Hg, !N.eqb_refl. reflexivity. }
  rewrite H1. clear H1.
  (* no compressed objects *)
  match goal with |- match fold_left ?F _ _ with inl _ => _ | inr _ => _ end = _ =>
    assert (H2 : fold_left F xr (inl []) = inl []) end.
  { apply fold_skip. unfold xr. constructor; [intros; reflexivity|].
    apply Forall_forall. intros ke Hke. apply in_map_iff in Hke. destruct Hke as [ko [<- _]].
    intros; reflexivity. }
  rewrite H2. clear H2.
  rewrite Hsize. rewrite Hmax, N.eqb_refl. cbn [negb]. rewrite Hroot, Hlook.
  (* regions *)
  cbn [flat_map map existsb]. rewrite Hsobj. cbn [orb negb].
  rewrite (filter_all _ (fun _ : sobj => true)) by reflexivity.
  rewrite (flat_map_nil _ _ _ (sec_entries sec)).
  - rewrite !app_nil_r.
    match goal with |- match regions_ok ?a ?b ?c ?e with _ => _ end = _ =>
      replace (regions_ok a b c e) with (@None N) by (symmetry; exact Hreg) end.
    reflexivity.
  - eapply Forall_impl; [|exact Hlk]. intros [k e] Hke. cbn [fst snd] in *.
    destruct e as [? ?|off gen|? ?]; try reflexivity.
    rewrite Hke, N.eqb_refl. reflexivity.
Qed.

(* ---------- document-level facts for the capstone ---------- *)
Lemma Forall2_in_left : forall (A B : Type) (R : A -> B -> Prop) l l' a,
  Forall2 R l l' -> In a l -> exists b, In b l' /\ R a b.
Proof.
  intros A B R l l' a H. induction H as [|x y l l' Hxy H IH]; intros Hin; [destruct Hin|].
  destruct Hin as [<-|Hin]; [exists y; split; [left; reflexivity|exact Hxy]|].
  destruct (IH Hin) as [b' [Hb Hr]]. exists b'. split; [right; exact Hb|exact Hr].
Qed.

Lemma Forall2_map_eq : forall (A B C : Type) (R : A -> B -> Prop) (f : B -> C) (g : A -> C) l l',
  Forall2 R l l' -> (forall a b, R a b -> f b = g a) -> map f l' = map g l.
Proof.
  intros A B C R f g l l' H Hfg. induction H as [|x y l l' Hxy H IH]; [reflexivity|].
  cbn [map]. rewrite IH, (Hfg _ _ Hxy). reflexivity.
Qed.

Lemma Forall2_length' : forall (A B : Type) (R : A -> B -> Prop) l l', Forall2 R l l' -> length l = length l'.
Proof. intros A B R l l' H. induction H; cbn [length]; congruence. Qed.

Lemma combine_map_fst : forall (A B : Type) (l : list (A * B)), combine (map fst l) l = map (fun p => (fst p, p)) l.
Proof. intros A B. induction l as [|p t IH]; [reflexivity|]. cbn [map combine]. rewrite IH. reflexivity. Qed.

Lemma insert_region_first : forall r l, l <> [] -> fst r = 0 -> insert_region r l = r :: l.
Proof.
  intros r [|h t] Hne Hr; [congruence|]. cbn [insert_region].
  replace (fst r <=? fst h) with true by (symmetry; apply N.leb_le; lia). reflexivity.
Qed.

Lemma idoffs_lt : forall d ids pos p, In p (idoffs d ids pos) ->
  snd p < pos + N.of_nat (length (concat (map (w_chunk d) ids))).
Proof.
  intros d ids pos p Hp.
  apply (idregs_fst_lt d ids pos (snd p, snd p + N.of_nat (length (w_chunk d (fst p))))).
  unfold idregs. apply in_map_iff. exists p. split; [reflexivity|exact Hp].
Qed.

Lemma root_in_roots : forall d r, find (fun kv => beqb (fst kv) k_Root) (d_trailer d) = Some (k_Root, ORef r) ->
  In r (roots_of d).
Proof. intros d r H. unfold roots_of. rewrite H. cbn [refs_of]. left. reflexivity. Qed.

Lemma roots_written : forall d x, doc_closed d -> In x (roots_of d) -> In x (w_ids d).
Proof.
  intros d x Hc Hx. destruct (queue_complete_lemma _ _ Hc) as [_ Hq]. apply Hq. apply reach_root. exact Hx.
Qed.

Lemma trailer_refs_roots : forall d r zs,
  NoDup (map fst (d_trailer d)) ->
  find (fun kv => beqb (fst kv) k_Root) (d_trailer d) = Some (k_Root, ORef r) ->
  find (fun kv => beqb (fst kv) k_Size) (d_trailer d) = Some (k_Size, OInt zs) ->
  forall x, In x (refs_of (d_objects d) (ODict (w_trailer' d))) -> In x (roots_of d).
Proof.
  intros d r zs Hnd Hroot Hsize x Hx. cbn [refs_of] in Hx. apply in_flat_map in Hx.
  destruct Hx as [kv' [Hkv' Hx]]. unfold w_trailer' in Hkv'. apply in_map_iff in Hkv'.
  destruct Hkv' as [kv [<- Hkv]].
  destruct (beqb (fst kv) k_Size) eqn:Es; [cbn [snd is_null_val refs_of] in Hx; destruct Hx|].
  destruct (is_null_val (d_objects d) (snd kv)) eqn:En; [destruct Hx|].
  destruct (beqb (fst kv) k_Root) eqn:Er.
  - apply beqb_eq in Er. destruct kv as [k v]. cbn [fst snd] in *. subst k.
    pose proof (find_some _ _ Hroot) as [Hr _].
    rewrite (nodup_key_unique _ _ _ _ _ _ Hnd Hkv Hr) in Hx.
    unfold roots_of. rewrite Hroot. apply in_or_app. left. exact Hx.
  - unfold roots_of. apply in_or_app. right. apply in_flat_map. exists kv. split; [exact Hkv|].
    rewrite Er, En. exact Hx.
Qed.

Lemma dict_flat_inj : forall (g1 g2 : list N * obj -> list N) l,
  [60; 60] ++ flat_map g1 l ++ [32; 62; 62] = [60; 60] ++ flat_map g2 l ++ [32; 62; 62] ->
  flat_map g1 l = flat_map g2 l.
Proof. intros g1 g2 l H. apply app_inv_head in H. apply app_inv_tail in H. exact H. Qed.
Lemma write_read_strict_lemma : forall d, wf_doc d ->
  N.of_nat (length (wm_out d)) < 10 ^ 10 ->
  exists f, read_strict (wm_out d) = RsOk f
    /\ sf_version f = d_version d
    /\ sf_sections f = 1 /\ sf_xref_stream f = false
    /\ sf_trailer f = expected_trailer d
    /\ length (sf_objs f) = length (written (graph_of d) (roots_of d))
    /\ (forall id i, In id (written (graph_of d) (roots_of d)) -> find_obj (d_objects d) id = Some i ->
          exists so, In so (sf_objs f)
                     /\ sobj_view (wm_out d) so = (doc_ren d id, 0, expected_val d i, i_stream i)).
Proof.
  intros d W Hlt.
  destruct W as [Hc Hobjs Htr Hst Hsb [a [b [Hver [Ha Hb]]]] [Hid1 Hid2] [r [ir [Hroot [Hfr Hnn]]]]
                 [zs Hsize] [Hnd [Hnoid Hdk]] Hnoprev Hnoxs].
  set (out := wm_out d) in *. set (total := N.of_nat (length out)) in *.
  set (objs := d_objects d) in *.
  assert (Hlay : out = w_hdr d ++ w_bodies d ++ w_xref d ++ w_trailer d ++ w_tail d)
    by apply write_doc_layout_lemma.
  set (lh := length (w_hdr d)). set (lb := length (w_bodies d)). set (lx := length (w_xref d)).
  set (lt := length (w_trailer d)). set (ltl := length (w_tail d)).
  assert (Hlen : length out = (lh + lb + lx + lt + ltl)%nat).
  { rewrite Hlay, !app_length. unfold lh, lb, lx, lt, ltl. lia. }
  assert (Hlx : (7 <= lx)%nat).
  { unfold lx, w_xref. rewrite app_length. cbn [length]. lia. }
  (* the trailer text *)
  set (ren' := patched_ren d).
  set (T' := w_trailer' d).
  assert (Hext : forall x, In x (refs_of objs (ODict T')) -> doc_ren d x = ren' x).
  { intros x Hx. apply patched_ren_eq. apply written_ren_pos; [exact Hc|].
    apply roots_written; [exact Hc|]. exact (trailer_refs_roots d r zs Hnd Hroot Hsize x Hx). }
  destruct (ren_ext WUS WUN objs (doc_ren d) ren' (ODict T') Hext) as [HU HP].
  destruct (trailer_text_eq d Hnd zs Hsize (d_trailer d) (fun kv H => H)) as [Htxt Hpd].
  fold T' in Htxt, Hpd. fold (et_entries d) in Hpd. fold objs in Htxt, Hpd.
  assert (Htxt' : flat_map (w_tg d) (d_trailer d) = flat_map (gd WUS WUN objs ren') T').
  { rewrite Htxt. apply dict_flat_inj. exact HU. }
  assert (Hpd' : pdict objs ren' T' = et_entries d).
  { rewrite Hpd.
    change (to_pobj objs (doc_ren d) (ODict T')) with (SpDict (pdict objs (doc_ren d) T')) in HP.
    change (to_pobj objs ren' (ODict T')) with (SpDict (pdict objs ren' T')) in HP.
    injection HP as HP. symmetry. exact HP. }
  assert (HwfT : Forall wf_entry T').
  { apply wf_dict in Htr. unfold T', w_trailer'. rewrite Forall_forall in *. intros kv' Hkv'.
    apply in_map_iff in Hkv'. destruct Hkv' as [kv [<- Hkv]]. specialize (Htr kv Hkv).
    destruct (beqb (fst kv) k_Size); [|exact Htr]. destruct Htr as [Hk _]. split; [exact Hk|exact I]. }
  (* the written objects *)
  set (ids := w_ids d).
  destruct (all_objects_read d (length out) Hc Hobjs Hst (le_n _) ids (N.of_nat lh) (w_hdr d)
              (w_xref d ++ w_trailer d ++ w_tail d) (fun id H => H) Hlay (Nat2N.id _)) as [sos Hsos].
  set (io := idoffs d ids (N.of_nat lh)) in *.
  assert (Hoffs : w_offs d = map (fun p => (doc_ren d (fst p), snd p)) io) by apply offs_of_idoffs.
  assert (Hnoffs : length (w_offs d) = length ids) by apply offs_of_length.
  assert (Hoffs_lt : Forall (fun ko : N * N => snd ko < 10 ^ 10) (w_offs d)).
  { rewrite Hoffs. apply Forall_forall. intros ko Hko. apply in_map_iff in Hko. destruct Hko as [p [<- Hp]].
    cbn [snd]. apply idoffs_lt in Hp.
    assert (Hlb : length (concat (map (w_chunk d) ids)) = lb) by reflexivity.
    rewrite Hlb in Hp. unfold total in Hlt. lia. }
  (* the section *)
  set (sx := N.of_nat (lh + lb + lx + lt)).
  set (R := 10 :: dec_of_N (w_xoff d) ++ [10; 37; 37; 69; 79; 70; 10]).
  assert (Htl : w_tail d = k_startxref ++ R) by reflexivity.
  set (sec := {| sec_entries := model_entries (w_offs d); sec_dict := expected_trailer d; sec_is_stream := false;
                 sec_region := (w_xoff d, offset_of total (10 :: k_startxref ++ R)); sec_tail_value := 0;
                 sec_obj := None |}).
  assert (Hfuel : exists f, length out = S (S f)).
  { exists (length out - 2)%nat. lia. }
  destruct Hfuel as [f Hf].
  assert (Hsec : read_section (length out) total sx out (w_xoff d) = inl sec).
  { rewrite Hf.
    apply (read_section_model_lemma f total sx out (w_xoff d) (w_offs d)
             (60 :: 60 :: flat_map (w_tg d) (d_trailer d) ++ [32; 47; 73; 68; 32; 91] ++ hexstr (d_id1 d)
                ++ hexstr (d_id2 d) ++ [93] ++ [32; 62; 62; 10] ++ k_startxref ++ R)
             (expected_trailer d) R Hoffs_lt).
    - unfold at_off, w_xoff. fold lh lb. rewrite Hlay.
      replace (N.to_nat (N.of_nat lh + N.of_nat lb)) with (length (w_hdr d) + length (w_bodies d))%nat by (unfold lh, lb; lia).
      rewrite skipn_add, skipn_app, skipn_all, Nat.sub_diag. cbn [skipn app].
      rewrite skipn_app, skipn_all, Nat.sub_diag. cbn [skipn app].
      unfold w_xref, w_trailer, w_lines, w_n. fold ids. rewrite Hnoffs, Htl. rewrite <- !app_assoc. reflexivity.
    - rewrite Htxt'. rewrite (trailer_dict_parses objs ren' (patched_ren_pos d) (S f) T' (d_id1 d) (d_id2 d) (k_startxref ++ R)
                                 HwfT Hid1 Hid2).
      + rewrite Hpd'. reflexivity.
      + rewrite <- Htxt'.
        assert (length (flat_map (w_tg d) (d_trailer d)) + 20 <= lt)%nat.
        { unfold lt, w_trailer. rewrite !app_length. cbn [length]. lia. }
        lia.
    - apply has_dup_keys_nodup. apply expected_trailer_nodup; assumption.
    - apply expected_trailer_get_none; [exact Hnoxs | discriminate].
    - unfold offset_of, total, sx. rewrite <- Htl. fold ltl. lia. }
  (* header, startxref, tail *)
  destruct (model_header_parses_lemma d a b Hver Ha Hb) as [after_hdr [Hhdr Hah]].
  fold (wm_out d) in Hhdr, Hah. fold out in Hhdr, Hah. fold (w_hdr d) in Hah. fold lh in Hah.
  assert (Hpre : out = (w_hdr d ++ w_bodies d ++ w_xref d ++ w_trailer d) ++ k_startxref ++ R).
  { rewrite Hlay, Htl, <- !app_assoc. reflexivity. }
  assert (Hprelen : length (w_hdr d ++ w_bodies d ++ w_xref d ++ w_trailer d) = (lh + lb + lx + lt)%nat).
  { rewrite !app_length. unfold lh, lb, lx, lt. lia. }
  assert (Hfl : find_last k_startxref out 0 None = Some sx).
  { rewrite Hpre. unfold R. rewrite find_last_startxref, Hprelen. reflexivity. }
  assert (Htail : parse_tail (at_off out sx) = Some (w_xoff d, [])).
  { unfold at_off, sx. rewrite Nat2N.id, <- Hprelen, Hpre, skipn_app, skipn_all, Nat.sub_diag. cbn [skipn app].
    unfold R. apply parse_tail_model. }
  (* the merged table *)
  set (xr := (0, XFree 0 65535) :: map (fun ko : N * N => (fst ko, XInUse (snd ko) 0)) (w_offs d)).
  assert (Hnum : map fst (w_offs d) = map N.of_nat (seq 1 (length (w_offs d)))).
  { rewrite <- w_offs_eq. apply body_numbers_lemma. exact Hc. }
  assert (Hme : model_entries (w_offs d) = rev xr).
  { unfold model_entries, xr. rewrite <- Hnum, combine_map_fst, map_map. cbn [rev fst snd]. reflexivity. }
  assert (Hndx : NoDup (map fst xr)).
  { unfold xr. cbn [map fst]. rewrite map_map. cbn [fst].
    change (map (fun x : N * N => fst x) (w_offs d)) with (map fst (w_offs d)). rewrite Hnum.
    constructor.
    - intros H. apply in_map_iff in H. destruct H as [n0 [H0 Hn0]]. apply in_seq in Hn0. lia.
    - apply NoDup_map_of_nat. apply seq_NoDup. }
  assert (Hxr : merge_x [] (sec_entries sec) = xr).
  { cbn [sec_entries sec]. rewrite merge_x_rev.
    - rewrite Hme, rev_involutive, app_nil_r. reflexivity.
    - rewrite app_nil_r, Hme, map_rev. apply NoDup_rev. exact Hndx. }
  assert (Hlk : Forall (fun ke => lookup_x (fst ke) xr = Some (snd ke)) (sec_entries sec)).
  { cbn [sec_entries sec]. rewrite Hme. apply Forall_forall. intros [k e] Hke. apply in_rev in Hke.
    cbn [fst snd]. apply lookup_x_in; assumption. }
  assert (Hobjs2 : Forall2 (fun ko so => (forall len_of, parse_indirect (length out) total out (snd ko) len_of = inl (Some so))
                                         /\ so_num so = fst ko /\ so_gen so = 0) (w_offs d) sos).
  { rewrite Hoffs. apply Forall2_map_left. eapply Forall2_impl; [|exact Hsos].
    intros p so [H1 [H2 [H3 _]]]. cbn [fst snd]. repeat split; assumption. }
  (* /Size and /Root *)
  assert (Hetnd : NoDup (map fst (expected_trailer d))) by (apply expected_trailer_nodup; assumption).
  assert (Hgsize : get_int (sec_dict sec) n_Size = Some (w_n d + 1)).
  { cbn [sec_dict sec]. unfold get_int.
    rewrite (dict_get_in (expected_trailer d) n_Size (SpInt (Z.of_N (w_n d + 1))) Hetnd).
    - replace (0 <=? Z.of_N (w_n d + 1))%Z with true by (symmetry; apply Z.leb_le; lia).
      rewrite N2Z.id. reflexivity.
    - rewrite expected_trailer_eq. apply in_or_app. left.
      pose proof (find_some _ _ Hsize) as [Hs _].
      exact (et_entries_in d k_Size (OInt zs) Hs eq_refl). }
  assert (Hmax : w_n d + 1 = max_num xr 0 + 1).
  { f_equal. rewrite max_num_fold. unfold xr. cbn [map fst fold_max]. rewrite map_map. cbn [fst].
    change (map (fun x : N * N => fst x) (w_offs d)) with (map fst (w_offs d)). rewrite Hnum, Hnoffs.
    unfold w_n. fold ids.
    destruct (fold_max_seq (length ids) 1 (N.max 0 0)) as [H|H].
    - rewrite H. lia.
    - rewrite H. reflexivity. }
  assert (Hgroot : dict_get (sec_dict sec) n_Root = Some (SpRef (doc_ren d r) 0)).
  { cbn [sec_dict sec]. apply (dict_get_in _ _ _ Hetnd).
    rewrite expected_trailer_eq. apply in_or_app. left.
    pose proof (find_some _ _ Hroot) as [Hr _].
    exact (et_entries_in d k_Root (ORef r) Hr Hnn). }
  assert (Hrw : In r ids).
  { apply roots_written; [exact Hc|]. apply (root_in_roots d r Hroot). }
  assert (Hlook : exists o', lookup_x (doc_ren d r) xr = Some (XInUse o' 0)).
  { rewrite <- (idoffs_fst d ids (N.of_nat lh)) in Hrw. fold io in Hrw. apply in_map_iff in Hrw.
    destruct Hrw as [p [Hp1 Hp2]]. exists (snd p). apply lookup_x_in; [exact Hndx|].
    right. apply in_map_iff. exists (doc_ren d r, snd p). split; [reflexivity|].
    rewrite Hoffs. apply in_map_iff. exists p. rewrite Hp1. split; [reflexivity|exact Hp2]. }
  destruct Hlook as [o' Hlook].
  (* regions *)
  set (regs := idregs d ids (N.of_nat lh)).
  assert (Hregs : map region_of sos = regs).
  { unfold regs, idregs. apply (Forall2_map_eq _ _ _ _ _ _ _ _ Hsos).
    intros p so [_ [_ [_ [Hw [He _]]]]]. unfold region_of. rewrite Hw, He. reflexivity. }
  assert (Hhe : offset_of total after_hdr = N.of_nat lh).
  { unfold offset_of, total. rewrite Hah. lia. }
  assert (HT1 : exists T1, w_trailer d = T1 ++ [10]).
  { eexists. unfold w_trailer. change [32; 62; 62; 10] with ([32; 62; 62] ++ [10]).
    rewrite !app_assoc. reflexivity. }
  destruct HT1 as [T1 HT1].
  assert (Hlt1 : lt = (length T1 + 1)%nat).
  { unfold lt. rewrite HT1, app_length. reflexivity. }
  set (send := offset_of total (10 :: k_startxref ++ R)).
  assert (Hsend : send = N.of_nat (lh + lb + lx + length T1)).
  { unfold send, offset_of, total. cbn [length]. rewrite <- Htl. fold ltl. lia. }
  assert (Hxoff : w_xoff d = N.of_nat lh + N.of_nat lb) by reflexivity.
  assert (Hsorted : sort_regions ((0, offset_of total after_hdr) :: (sx, total) :: [sec_region sec] ++ map region_of (rev sos))
                    = (0, N.of_nat lh) :: regs ++ [(w_xoff d, send); (sx, total)]).
  { rewrite Hhe, map_rev, Hregs. cbn [sec_region sec app]. fold send.
    unfold sort_regions. cbn [fold_right].
    rewrite (sort_rev_sorted regs []); [| constructor | apply idregs_inc]. cbn [app].
    rewrite (insert_region_last (w_xoff d, send) regs).
    - rewrite (insert_region_last (sx, total) (regs ++ [(w_xoff d, send)])).
      + rewrite <- app_assoc. cbn [app]. apply insert_region_first; [|reflexivity].
        destruct regs; discriminate.
      + apply Forall_app. split.
        * apply Forall_forall. intros y Hy. apply idregs_fst_lt in Hy.
          change (length (concat (map (w_chunk d) ids))) with lb in Hy. cbn [fst]. unfold sx. lia.
        * constructor; [|constructor]. cbn [fst]. unfold sx. lia.
    - apply Forall_forall. intros y Hy. apply idregs_fst_lt in Hy.
      change (length (concat (map (w_chunk d) ids))) with lb in Hy. cbn [fst]. lia. }
  assert (Hgap : gap_ok out send sx = true).
  { unfold gap_ok, at_off. rewrite Hsend. unfold sx.
    replace (N.to_nat (N.of_nat (lh + lb + lx + lt) - N.of_nat (lh + lb + lx + length T1))) with 1%nat by lia.
    rewrite Nat2N.id.
    assert (Ho : out = (w_hdr d ++ w_bodies d ++ w_xref d ++ T1) ++ 10 :: w_tail d).
    { rewrite Hlay, HT1, <- !app_assoc. reflexivity. }
    assert (Hl : length (w_hdr d ++ w_bodies d ++ w_xref d ++ T1) = (lh + lb + lx + length T1)%nat).
    { rewrite !app_length. unfold lh, lb, lx. lia. }
    rewrite Ho at 1. rewrite <- Hl, skipn_app, skipn_all, Nat.sub_diag. reflexivity. }
  assert (Hreg : regions_ok out 0 (sort_regions ((0, offset_of total after_hdr) :: (sx, total) :: [sec_region sec] ++ map region_of (rev sos))) total = None).
  { rewrite Hsorted. cbn [regions_ok]. rewrite N.ltb_irrefl, gap_ok_refl. cbn [negb].
    unfold regs. rewrite regions_ok_chain.
    change (length (concat (map (w_chunk d) ids))) with lb. rewrite <- Hxoff.
    cbn [regions_ok]. rewrite N.ltb_irrefl, gap_ok_refl. cbn [negb].
    replace (sx <? send) with false by (symmetry; apply N.ltb_ge; rewrite Hsend; unfold sx; lia).
    rewrite Hgap. cbn [negb]. rewrite gap_ok_refl. reflexivity. }
  (* assemble *)
  pose proof (read_strict_one_section_lemma out [a; 46; b] after_hdr sx (w_xoff d) sec 0 65535 (w_offs d) sos
                (w_n d + 1) (doc_ren d r) 0 o' 0
                Hhdr Hfl Htail Hsec (expected_trailer_get_none d n_Prev Hnoprev ltac:(discriminate))
                eq_refl Hxr Hlk Hndx Hobjs2 Hgsize Hmax Hgroot Hlook Hreg) as Hrs.
  eexists. split; [exact Hrs|].
  cbn [sf_version sf_sections sf_xref_stream sf_trailer sf_objs sec_dict sec_is_stream sec].
  split; [symmetry; exact Hver|]. split; [reflexivity|]. split; [reflexivity|]. split; [reflexivity|].
  split.
  - rewrite rev_length, <- (Forall2_length' _ _ _ _ _ Hsos). unfold io. apply idoffs_length.
  - intros id i Hin Hfi.
    assert (Hin' : In id (map fst io)) by (unfold io; rewrite idoffs_fst; exact Hin).
    apply in_map_iff in Hin'. destruct Hin' as [p [Hp1 Hp2]].
    destruct (Forall2_in_left _ _ _ _ _ _ Hsos Hp2) as [so [Hso1 [_ [_ [_ [_ [_ Hview]]]]]]].
    exists so. split; [apply in_rev in Hso1; exact Hso1|].
    rewrite Hp1 in Hview. exact (Hview i Hfi).
Qed.


(* ------------------------------------------------------------------------------------------------
   Non-vacuity: a concrete well-formed document (catalog, page tree, a page with a dangling /Foo 99 0 R
   that the writer drops, a content stream whose stale /Length is replaced), and what the strict reader
   returns on the model's output for it. *)
Definition ex_doc : doc :=
  {| d_objects :=
       [ (10, {| i_val := ODict [([80; 97; 103; 101; 115], ORef 20); ([84; 121; 112; 101], OName [67; 97; 116; 97; 108; 111; 103])];
                 i_stream := None |});
         (20, {| i_val := ODict [([67; 111; 117; 110; 116], OInt 1); ([75; 105; 100; 115], OArr [ORef 30]);
                                 ([84; 121; 112; 101], OName [80; 97; 103; 101; 115])];
                 i_stream := None |});
         (30, {| i_val := ODict [([67; 111; 110; 116; 101; 110; 116; 115], ORef 40);
                                 ([70; 111; 111], ORef 99);
                                 ([80; 97; 114; 101; 110; 116], ORef 20);
                                 ([84; 121; 112; 101], OName [80; 97; 103; 101])];
                 i_stream := None |});
         (40, {| i_val := ODict [([76; 101; 110; 103; 116; 104], OInt 3)];
                 i_stream := Some [104; 101; 108; 108; 111; 10; 255; 0] |}) ];
     d_trailer := [([82; 111; 111; 116], ORef 10); ([83; 105; 122; 101], OInt 41)];
     d_version := [49; 46; 51];
     d_id1 := [1; 2; 254]; d_id2 := [] |}.

Ltac in_cases H := repeat (destruct H as [H|H]; [try (inversion H; subst; clear H)|]); try (destruct H).

Example wf_doc_example : wf_doc ex_doc.
Proof.
  constructor.
  - (* closed *)
    unfold doc_closed, closed. change (graph_of ex_doc) with [(10, [20]); (20, [30]); (30, [40; 20]); (40, @nil N)].
    change (roots_of ex_doc) with [10]. cbn [map fst]. split; [|split].
    + repeat constructor; cbn; intros H; in_cases H; discriminate.
    + intros x H. in_cases H. cbn. tauto.
    + intros k cs y H Hy. in_cases H; in_cases Hy; cbn; tauto.
  - unfold wf_doc_objs, ex_doc. cbn [d_objects].
    repeat constructor; cbn; try (intros H; in_cases H; discriminate); try lia; try exact I.
  - cbn. repeat split; try (intros H; in_cases H; discriminate); repeat constructor; lia.
  - intros k i H Hs. cbn [d_objects ex_doc] in H. in_cases H; cbn in Hs; try congruence. eexists. reflexivity.
  - intros k i data H Hs. cbn [d_objects ex_doc] in H. in_cases H; cbn in Hs; try discriminate.
    injection Hs as <-. repeat constructor; lia.
  - exists 49, 51. repeat split.
  - cbn. split; repeat constructor; lia.
  - exists 10. eexists. repeat split.
  - exists 41%Z. reflexivity.
  - cbn [d_trailer ex_doc map fst]. split; [|split].
    + repeat constructor; cbn; intros H; in_cases H; discriminate.
    + intros H. in_cases H; discriminate.
    + intros k i dd H Hv. cbn [d_objects ex_doc] in H. in_cases H; cbn in Hv; injection Hv as <-;
        cbn [map fst]; repeat constructor; cbn; intros H; in_cases H; discriminate.
  - cbn. intros H. in_cases H; discriminate.
  - cbn. intros H. in_cases H; discriminate.
Qed.

(* the strict reader on the model's output for ex_doc: version, trailer (with /Size 5 and the /ID pair),
   the four objects under their new numbers with renumbered references, /Foo dropped, /Length 8 and the
   stream bytes, and the accounted regions (header, four bodies, section; one EOL gap before startxref) *)
Example write_read_strict_example :
  match read_strict (wm_out ex_doc) with
  | RsOk f =>
      sf_version f = [49; 46; 51] /\
      sf_trailer f = [([82; 111; 111; 116], SpRef 1 0); ([83; 105; 122; 101], SpInt 5);
                      ([73; 68], SpArr [SpStr [1; 2; 254]; SpStr []])] /\
      map (sobj_view (wm_out ex_doc)) (rev (sf_objs f))
      = [(1, 0, SpDict [([80; 97; 103; 101; 115], SpRef 2 0);
                        ([84; 121; 112; 101], SpName [67; 97; 116; 97; 108; 111; 103])], None);
         (2, 0, SpDict [([67; 111; 117; 110; 116], SpInt 1); ([75; 105; 100; 115], SpArr [SpRef 3 0]);
                        ([84; 121; 112; 101], SpName [80; 97; 103; 101; 115])], None);
         (3, 0, SpDict [([67; 111; 110; 116; 101; 110; 116; 115], SpRef 4 0);
                        ([80; 97; 114; 101; 110; 116], SpRef 2 0);
                        ([84; 121; 112; 101], SpName [80; 97; 103; 101])], None);
         (4, 0, SpDict [([76; 101; 110; 103; 116; 104], SpInt 8)], Some [104; 101; 108; 108; 111; 10; 255; 0])] /\
      sf_regions f = [(0, 15); (15, 64); (64, 123); (123, 186); (186, 242); (242, 401); (402, 422)]
  | RsErr _ _ => False
  end.
Proof. vm_compute. repeat split. Qed.

(* and the theorem applies to it *)
Example write_read_strict_applies :
  exists f, read_strict (wm_out ex_doc) = RsOk f /\ sf_trailer f = expected_trailer ex_doc
            /\ length (sf_objs f) = 4%nat.
Proof.
  destruct (write_read_strict_lemma ex_doc wf_doc_example) as [f [H1 [_ [_ [_ [H2 [H3 _]]]]]]].
  - vm_compute. reflexivity.
  - exists f. repeat split; [exact H1 | exact H2 | rewrite H3; vm_compute; reflexivity].
Qed.
