(* Plain data: the three hint tables qpdf writes (ISO 32000-1 Annex F.4, Tables F.3-F.7; the
   same fields as HPageOffset / HSharedObject / HGeneric of QPDF::Doc::Linearization).
   Only record types live here; the encoder model (Lin/Hints.v) and the Annex F decoder
   (Lin/AnnexF.v) are written separately and share nothing else. *)
From QV Require Import Base.Bytes.
Local Open Scope N_scope.

Record hp_entry := {
  pe_nobjects_delta : N;          (* Table F.4 item 1 *)
  pe_length_delta : N;            (* item 2 *)
  pe_nshared : N;                 (* item 3 *)
  pe_identifiers : list N;        (* item 4 *)
  pe_numerators : list N;         (* item 5 *)
  pe_content_offset_delta : N;    (* item 6 *)
  pe_content_length_delta : N     (* item 7 *)
}.

Record hp_table := {
  hp_min_nobjects : N;            (* Table F.3 item 1 *)
  hp_first_page_offset : N;       (* 2 *)
  hp_bits_nobjects : N;           (* 3 *)
  hp_min_length : N;              (* 4 *)
  hp_bits_length : N;             (* 5 *)
  hp_min_content_offset : N;      (* 6 *)
  hp_bits_content_offset : N;     (* 7 *)
  hp_min_content_length : N;      (* 8 *)
  hp_bits_content_length : N;     (* 9 *)
  hp_bits_nshared : N;            (* 10 *)
  hp_bits_identifier : N;         (* 11 *)
  hp_bits_numerator : N;          (* 12 *)
  hp_denominator : N;             (* 13 *)
  hp_entries : list hp_entry
}.

Record hs_entry := {
  se_length_delta : N;            (* Table F.6 item 1 *)
  se_signature : N;               (* item 2 (0/1); item 3, the MD5, is never written by qpdf *)
  se_nobjects_m1 : N              (* item 4 *)
}.

Record hs_table := {
  hs_first_obj : N;               (* Table F.5 item 1 *)
  hs_first_offset : N;            (* 2 *)
  hs_nfirst : N;                  (* 3 *)
  hs_ntotal : N;                  (* 4 *)
  hs_bits_nobjects : N;           (* 5 *)
  hs_min_length : N;              (* 6 *)
  hs_bits_length : N;             (* 7 *)
  hs_entries : list hs_entry
}.

Record hg_table := {              (* Table F.7 (generic / outline) *)
  hg_first_obj : N;
  hg_first_offset : N;
  hg_nobjects : N;
  hg_length : N
}.
