(* C13 extension - proofs of the unrestricted copier statements of Struct/PgxSpec.v:
   - pgx_rename_stable (G2): renaming is stable when the object map grows;
   - copy_closed_lemma (G1): closure of the reservation walk - after a walk without error every object on to_copy
     has all its references mapped (or leading to /Pages nodes);
   - copy_iso_lemma / copy_inv_init_lemma (G3): the multi-copy invariant.
   DEVIATION: copy_iso_lemma is stated with pgx_copy_inv_w (defined below), which differs from PgxSpec.pgx_copy_inv
   only in the stream disjunct: the dictionary of the local stream IS pgx_sdict (pg_rename_dict ss m d) [] (the renamed
   source dictionary replaced key by key into an empty dictionary) instead of "agrees with pg_rename_dict ss m d on
   every key".  With PgxSpec.pgx_copy_inv itself the statement is false (pgx_copy_iso_orig_refuted: a source stream
   dictionary with a repeated key); pgx_copy_inv_of_w gives PgxSpec.pgx_copy_inv from pgx_copy_inv_w when the keys of
   every source stream dictionary are distinct. *)
From QV Require Import Base.Bytes Struct.PgModel Struct.PgSpec Struct.C13ProofsA Struct.C13ProofsB Struct.PgxSpec.
Local Open Scope N_scope.

(* ------------------------------------------------------------------ induction over the nested type pg_val *)
Fixpoint pgx_val_ind (P : pg_val -> Prop)
    (Hnull : P PvNull) (Hint : forall z, P (PvInt z)) (Hname : forall s, P (PvName s)) (Href : forall i, P (PvRef i))
    (Harr : forall l, Forall P l -> P (PvArr l))
    (Hdict : forall d, Forall (fun kv : pg_key * pg_val => P (snd kv)) d -> P (PvDict d))
    (v : pg_val) {struct v} : P v :=
  match v with
  | PvNull => Hnull
  | PvInt z => Hint z
  | PvName s => Hname s
  | PvRef i => Href i
  | PvArr l =>
      Harr l ((fix go (l : list pg_val) : Forall P l :=
                 match l with
                 | [] => Forall_nil P
                 | x :: t => Forall_cons x (pgx_val_ind P Hnull Hint Hname Href Harr Hdict x) (go t)
                 end) l)
  | PvDict d =>
      Hdict d ((fix go (d : list (pg_key * pg_val)) : Forall (fun kv : pg_key * pg_val => P (snd kv)) d :=
                  match d with
                  | [] => Forall_nil _
                  | kv :: t =>
                      Forall_cons kv
                        (match kv as kv0 return P (snd kv0) with
                         | (k, x) => pgx_val_ind P Hnull Hint Hname Href Harr Hdict x
                         end) (go t)
                  end) d)
  end.

Lemma pgx_closed_arr_cons : forall ss m x t,
  pgx_closed ss m (PvArr (x :: t)) = (pgx_closed ss m x /\ pgx_closed ss m (PvArr t)).
Proof. reflexivity. Qed.

Lemma pgx_closed_dict_cons : forall ss m k x t,
  pgx_closed ss m (PvDict ((k, x) :: t)) = ((pg_is_null ss x = true \/ pgx_closed ss m x) /\ pgx_closed ss m (PvDict t)).
Proof. reflexivity. Qed.

(* closedness only depends on which objects are mapped, and is monotone in that set *)
Lemma pgx_closed_mono : forall ss m m',
  (forall a, pg_omap_find m a <> None -> pg_omap_find m' a <> None) ->
  forall v, pgx_closed ss m v -> pgx_closed ss m' v.
Proof.
  intros ss m m' H v. induction v as [| z | s | i | l IH | d IH] using pgx_val_ind; try (intros; exact I).
  - intros [A|A]; [left; apply H, A | right; exact A].
  - induction IH as [|x t Hx Ht IHt]; [intros; exact I|].
    rewrite !pgx_closed_arr_cons. intros [A B]. split; [apply Hx, A | apply IHt, B].
  - induction IH as [|[k x] t Hx Ht IHt]; [intros; exact I|].
    rewrite !pgx_closed_dict_cons. cbn [snd] in Hx. intros [[A|A] B]; (split; [|apply IHt, B]); [left; exact A | right; apply Hx, A].
Qed.

Lemma pgx_mono_some : forall m m' : list (N * N),
  (forall a l, pg_omap_find m a = Some l -> pg_omap_find m' a = Some l) ->
  forall a, pg_omap_find m a <> None -> pg_omap_find m' a <> None.
Proof.
  intros m m' H a Ha. destruct (pg_omap_find m a) as [l|] eqn:E; [|congruence]. rewrite (H a l E). discriminate.
Qed.

(* ------------------------------------------------------------------ (G2) renaming is stable when the map grows *)
Lemma pgx_rename_stable : forall ss m m' v,
  (forall a l, pg_omap_find m a = Some l -> pg_omap_find m' a = Some l) ->
  (forall a l, pg_omap_find m' a = Some l -> pgx_is_pages ss a = false) ->
  pgx_closed ss m v -> pg_rename ss m' v = pg_rename ss m v /\ pgx_closed ss m' v.
Proof.
  intros ss m m' v Hm Hp Hc. split; [|eapply pgx_closed_mono; [apply pgx_mono_some, Hm | exact Hc]].
  revert Hc. induction v as [| z | s | i | l IH | d IH] using pgx_val_ind; try reflexivity.
  - intros [A|A]; cbn [pg_rename].
    + destruct (pg_omap_find m i) as [l|] eqn:E; [|congruence]. rewrite (Hm i l E). reflexivity.
    + destruct (pg_omap_find m' i) as [l'|] eqn:E'; [rewrite (Hp i l' E') in A; discriminate|].
      destruct (pg_omap_find m i) as [l|] eqn:E; [rewrite (Hm i l E) in E'; discriminate | reflexivity].
  - intros Hc. cbn [pg_rename]. f_equal.
    induction IH as [|x t Hx Ht IHt]; [reflexivity|].
    rewrite pgx_closed_arr_cons in Hc. destruct Hc as [A B]. cbn [map]. rewrite (Hx A), (IHt B). reflexivity.
  - intros Hc. cbn [pg_rename]. f_equal.
    induction IH as [|[k x] t Hx Ht IHt]; [reflexivity|].
    rewrite pgx_closed_dict_cons in Hc. destruct Hc as [A B]. cbn [snd] in Hx.
    rewrite (IHt B). destruct (pg_is_null ss x) eqn:En; [reflexivity|].
    destruct A as [A|A]; [discriminate|]. rewrite (Hx A). reflexivity.
Qed.

(* ------------------------------------------------------------------ the reservation walk over a source with a filled page cache *)
Lemma pgx_reserve_err : forall fuel h top c, pgc_err (pg_reserve fuel h top c) = None -> pgc_err c = None.
Proof.
  intros [|f] h top c; cbn [pg_reserve]; [intros H; discriminate|].
  destruct (pgc_err c) eqn:E; [intros H; congruence | reflexivity].
Qed.
Local Opaque pg_reserve.

Lemma pgx_fold_err : forall {A} (f : pg_cst -> A -> pg_cst) (l : list A) c,
  (forall c x, pgc_err (f c x) = None -> pgc_err c = None) ->
  pgc_err (fold_left f l c) = None -> pgc_err c = None.
Proof.
  intros A f l. induction l as [|x t IH]; intros c H E; [exact E|]. cbn [fold_left] in E. apply (H c x), IH; assumption.
Qed.

Lemma pgx_memN_true : forall x l, pg_memN x l = true -> In x l.
Proof.
  intros x l H. unfold pg_memN in H. apply existsb_exists in H. destruct H as (y & Hy & E). apply N.eqb_eq in E. subst. exact Hy.
Qed.

Lemma pgx_memN_false : forall x l, pg_memN x l = false -> ~ In x l.
Proof.
  intros x l H Hin. assert (pg_memN x l = true); [|congruence].
  unfold pg_memN. apply existsb_exists. exists x. split; [exact Hin | apply N.eqb_refl].
Qed.

Lemma pgx_remove1_notin : forall x l, ~ In x l -> pg_remove1 x l = l.
Proof.
  intros x l. induction l as [|y t IH]; intros H; [reflexivity|]. cbn [pg_remove1 filter].
  destruct (x =? y) eqn:E; [apply N.eqb_eq in E; subst; exfalso; apply H; left; reflexivity|].
  cbn [negb]. f_equal. apply IH. intros Hin. apply H. right. exact Hin.
Qed.

Lemma pgx_remove1_head : forall x l, ~ In x l -> pg_remove1 x (x :: l) = l.
Proof.
  intros x l H. unfold pg_remove1. cbn [filter]. rewrite N.eqb_refl. cbn [negb]. apply pgx_remove1_notin, H.
Qed.

Lemma pgx_page_not_stream : forall ss h t, pg_is_dict_of_type ss h t = true -> pg_is_stream ss h = false.
Proof.
  intros ss h t H. unfold pg_is_dict_of_type in H. apply andb_true_iff in H. destruct H as [H _].
  unfold pg_is_dict, pg_rv in H. unfold pg_is_stream. destruct h; try reflexivity.
  destruct (pg_lookup ss i) as [[v|d x k]|]; try reflexivity. discriminate.
Qed.

(* what the children walk of h goes through *)
Definition pgx_content (ss : pg_store) (h : pg_val) : pg_val :=
  match h with
  | PvRef og => match pg_lookup ss og with Some (PcObj v) => v | Some (PcStream d _ _) => PvDict d | None => PvNull end
  | _ => h
  end.

Lemma pgx_closed_obj_content : forall ss m og, pgx_closed_obj ss m og = pgx_closed ss m (pgx_content ss (PvRef og)).
Proof. intros. unfold pgx_closed_obj, pgx_content. destruct (pg_lookup ss og) as [[v|d x k]|]; reflexivity. Qed.

Section PgxWalk.
  Context (src : pg_doc) (Hall : pd_all src <> []).
  Let ss := pd_store src.

  Lemma pgx_type_is : forall c h t, pgc_src c = src ->
    pg_src_type_is c h t = (c, match h with PvRef _ => pg_is_dict_of_type ss h t | _ => false end).
  Proof.
    intros [s d o v tc e] h t Hs. cbn [pgc_src] in Hs. subst s. unfold pg_src_type_is. cbn [pgc_src pgc_dst pgc_omap pgc_visiting pgc_tocopy pgc_err].
    rewrite (pg_all_filled src Hall). destruct h; reflexivity.
  Qed.

  (* the four outcomes of the head for an indirect object that is not being visited *)
  Lemma pgx_head_spec : forall og top c, pgc_src c = src -> pg_memN og (pgc_visiting c) = false ->
    let vis := pgc_visiting c in
    let ni := pg_next_id (pgc_dst c) in
    let cell := if pg_is_stream ss (PvRef og) then PcStream [] [] 0 else PcObj PvNull in
    (exists l, pg_omap_find (pgc_omap c) og = Some l /\ pg_is_dict_of_type ss (PvRef og) pgk_Page = true /\
       pg_reserve_head (PvRef og) top c = (mkPgCst src (pgc_dst c) (pgc_omap c) (og :: vis) (og :: pgc_tocopy c) (pgc_err c), true)) \/
    (exists l, pg_omap_find (pgc_omap c) og = Some l /\
       pg_reserve_head (PvRef og) top c = (mkPgCst src (pgc_dst c) (pgc_omap c) vis (pgc_tocopy c) (pgc_err c), false)) \/
    (pg_omap_find (pgc_omap c) og = None /\
       pg_reserve_head (PvRef og) top c =
         (mkPgCst src ((ni, cell) :: pgc_dst c) ((og, ni) :: pgc_omap c) (og :: vis) (og :: pgc_tocopy c) (pgc_err c), true)) \/
    (pg_omap_find (pgc_omap c) og = None /\ pg_is_stream ss (PvRef og) = false /\
       pg_reserve_head (PvRef og) top c =
         (mkPgCst src ((ni, PcObj PvNull) :: pgc_dst c) ((og, ni) :: pgc_omap c) vis (pgc_tocopy c) (pgc_err c), false)).
  Proof.
    intros og top [s d o v tc e] Hs Hmem. cbn [pgc_src pgc_dst pgc_omap pgc_visiting pgc_tocopy pgc_err] in *. subst s.
    pose proof (pgx_memN_false _ _ Hmem) as Hnot.
    unfold pg_reserve_head. cbn [pgc_src pgc_dst pgc_omap pgc_visiting pgc_tocopy pgc_err]. rewrite Hmem.
    destruct (pg_omap_find o og) as [l|] eqn:Eo.
    - destruct top.
      + rewrite pgx_type_is by reflexivity. cbn [andb pgc_src pgc_dst pgc_omap pgc_visiting pgc_tocopy pgc_err].
        destruct (pg_is_dict_of_type ss (PvRef og) pgk_Page) eqn:Ep; cbn [andb].
        * destruct (pg_is_null d (PvRef l)).
          -- left. exists l. repeat split; reflexivity.
          -- right; left. exists l. split; [reflexivity|]. rewrite pgx_remove1_head by exact Hnot. reflexivity.
        * right; left. exists l. split; [reflexivity|]. rewrite pgx_remove1_head by exact Hnot. reflexivity.
      + cbn [andb pgc_src pgc_dst pgc_omap pgc_visiting pgc_tocopy pgc_err].
        right; left. exists l. split; [reflexivity|]. rewrite pgx_remove1_head by exact Hnot. reflexivity.
    - fold ss.
      assert ((if pg_is_stream ss (PvRef og) then pg_alloc d (PcStream [] [] 0) else pg_alloc d (PcObj PvNull))
              = ((pg_next_id d, if pg_is_stream ss (PvRef og) then PcStream [] [] 0 else PcObj PvNull) :: d, pg_next_id d)) as ->
        by (destruct (pg_is_stream ss (PvRef og)); reflexivity).
      cbv iota beta. destruct top.
      + cbn [negb andb pgc_src pgc_dst pgc_omap pgc_visiting pgc_tocopy pgc_err].
        right; right; left. split; reflexivity.
      + rewrite pgx_type_is by reflexivity. cbn [negb andb pgc_src pgc_dst pgc_omap pgc_visiting pgc_tocopy pgc_err].
        destruct (pg_is_dict_of_type ss (PvRef og) pgk_Page) eqn:Ep.
        * right; right; right. split; [reflexivity|split; [exact (pgx_page_not_stream _ _ _ Ep)|]].
          rewrite pgx_remove1_head by exact Hnot. rewrite (pgx_page_not_stream _ _ _ Ep). reflexivity.
        * right; right; left. split; reflexivity.
  Qed.

  (* ---------------------------------------------------------------- (G1) closure of the walk *)
  (* objects being visited are mapped; everything on to_copy is being visited or already closed *)
  Definition pgx_I (c : pg_cst) : Prop :=
    (forall og, In og (pgc_visiting c) -> pg_omap_find (pgc_omap c) og <> None) /\
    (forall og, In og (pgc_tocopy c) -> In og (pgc_visiting c) \/ pgx_closed_obj ss (pgc_omap c) og).

  Definition pgx_mono (c c' : pg_cst) : Prop :=
    forall a l, pg_omap_find (pgc_omap c) a = Some l -> pg_omap_find (pgc_omap c') a = Some l.

  Definition pgx_res (h : pg_val) (c c' : pg_cst) : Prop :=
    pgc_src c' = src /\ pgc_visiting c' = pgc_visiting c /\ pgx_I c' /\ pgx_mono c c' /\ pgx_closed ss (pgc_omap c') h.

  Definition pgx_rec_ok (rec : pg_val -> pg_cst -> pg_cst) : Prop :=
    (forall h c, pgc_err (rec h c) = None -> pgc_err c = None) /\
    (forall h c, pgc_src c = src -> pgc_err (rec h c) = None -> pgx_I c -> pgx_res h c (rec h c)).

  Lemma pgx_res_refl : forall h c, pgc_src c = src -> pgx_I c -> pgx_closed ss (pgc_omap c) h -> pgx_res h c c.
  Proof. intros h c Hs HI Hc. repeat split; try assumption; try apply HI. intros a l H; exact H. Qed.

  Lemma pgx_closed_obj_mono : forall c c' og, pgx_mono c c' ->
    pgx_closed_obj ss (pgc_omap c) og -> pgx_closed_obj ss (pgc_omap c') og.
  Proof.
    intros c c' og M. rewrite !pgx_closed_obj_content. apply pgx_closed_mono, pgx_mono_some, M.
  Qed.

  Lemma pgx_I_step : forall c c2, pgx_I c -> pgx_mono c c2 ->
    (forall x, In x (pgc_visiting c2) -> In x (pgc_visiting c) \/ pg_omap_find (pgc_omap c2) x <> None) ->
    (forall x, In x (pgc_tocopy c2) -> In x (pgc_tocopy c) \/ In x (pgc_visiting c2)) ->
    (forall x, In x (pgc_visiting c) -> In x (pgc_visiting c2)) ->
    pgx_I c2.
  Proof.
    intros c c2 [V T] M Hv Ht Hvv. split.
    - intros x Hx. destruct (Hv x Hx) as [H|H]; [|exact H]. apply (pgx_mono_some _ _ M), V, H.
    - intros x Hx. destruct (Ht x Hx) as [H|H]; [|left; exact H].
      destruct (T x H) as [H1|H1]; [left; apply Hvv, H1 | right; eapply pgx_closed_obj_mono; eassumption].
  Qed.

  Lemma pgx_fold_arr : forall rec, pgx_rec_ok rec -> forall l c,
    pgc_src c = src -> pgc_err (fold_left (fun c x => rec x c) l c) = None -> pgx_I c ->
    pgx_res (PvArr l) c (fold_left (fun c x => rec x c) l c).
  Proof.
    intros rec [Re Ro]. induction l as [|x t IH]; intros c Hs He HI.
    - apply pgx_res_refl; [exact Hs|exact HI|exact I].
    - cbn [fold_left] in *.
      assert (E1 : pgc_err (rec x c) = None).
      { eapply pgx_fold_err; [|exact He]. intros c0 y. apply Re. }
      destruct (Ro x c Hs E1 HI) as (S1 & V1 & I1 & M1 & C1).
      destruct (IH (rec x c) S1 He I1) as (S2 & V2 & I2 & M2 & C2).
      split; [exact S2|split; [congruence|split; [exact I2|split; [intros a l H; apply M2, M1, H|]]]].
      rewrite pgx_closed_arr_cons. split; [|exact C2].
      eapply pgx_closed_mono; [apply pgx_mono_some, M2 | exact C1].
  Qed.

  Lemma pgx_fold_dict : forall rec, pgx_rec_ok rec -> forall d c,
    pgc_src c = src ->
    pgc_err (fold_left (fun c (kv : pg_key * pg_val) => if pg_is_null (pd_store (pgc_src c)) (snd kv) then c else rec (snd kv) c) d c) = None ->
    pgx_I c ->
    pgx_res (PvDict d) c (fold_left (fun c (kv : pg_key * pg_val) => if pg_is_null (pd_store (pgc_src c)) (snd kv) then c else rec (snd kv) c) d c).
  Proof.
    intros rec [Re Ro]. induction d as [|[k x] t IH]; intros c Hs He HI.
    - apply pgx_res_refl; [exact Hs|exact HI|exact I].
    - cbn [fold_left snd] in *.
      assert (E1 : pgc_err (if pg_is_null (pd_store (pgc_src c)) x then c else rec x c) = None).
      { refine (pgx_fold_err _ t _ _ He). intros c0 y. destruct (pg_is_null (pd_store (pgc_src c0)) (snd y)); [auto|apply Re]. }
      rewrite Hs in E1, He |- *. fold ss in E1, He |- *.
      destruct (pg_is_null ss x) eqn:En.
      + destruct (IH c Hs He HI) as (S2 & V2 & I2 & M2 & C2).
        split; [exact S2|split; [exact V2|split; [exact I2|split; [exact M2|]]]].
        rewrite pgx_closed_dict_cons. split; [left; exact En | exact C2].
      + destruct (Ro x c Hs E1 HI) as (S1 & V1 & I1 & M1 & C1).
        destruct (IH (rec x c) S1 He I1) as (S2 & V2 & I2 & M2 & C2).
        split; [exact S2|split; [congruence|split; [exact I2|split; [intros a l H; apply M2, M1, H|]]]].
        rewrite pgx_closed_dict_cons. split; [|exact C2]. right.
        eapply pgx_closed_mono; [apply pgx_mono_some, M2 | exact C1].
  Qed.

  Lemma pgx_kids_ok : forall rec, pgx_rec_ok rec -> forall h c,
    pgc_src c = src -> pg_is_selfref ss h = false ->
    pgc_err (pg_reserve_kids rec h c) = None -> pgx_I c ->
    pgx_res (pgx_content ss h) c (pg_reserve_kids rec h c).
  Proof.
    intros rec Hrec h c Hs Hself. unfold pg_reserve_kids. cbv zeta. rewrite Hs. fold ss.
    destruct h as [| | |og|l|d]; try (intros _ HI; apply pgx_res_refl; [exact Hs|exact HI|exact I]).
    - unfold pgx_content. unfold pg_is_selfref in Hself.
      destruct (pg_lookup ss og) as [[v|d x k]|] eqn:E.
      + destruct v as [| | |j|l|d]; try (intros _ HI; apply pgx_res_refl; [exact Hs|exact HI|exact I]).
        * discriminate.
        * apply pgx_fold_arr; assumption.
        * apply pgx_fold_dict; assumption.
      + apply pgx_fold_dict; assumption.
      + intros _ HI; apply pgx_res_refl; [exact Hs|exact HI|exact I].
    - apply pgx_fold_arr; assumption.
    - apply pgx_fold_dict; assumption.
  Qed.

  (* the object og has been put on visiting (and possibly to_copy) by the head: children walk, then visiting.erase *)
  Lemma pgx_tail_ref : forall rec, pgx_rec_ok rec -> forall og c c2,
    pgc_src c2 = src -> ~ In og (pgc_visiting c) -> pgc_visiting c2 = og :: pgc_visiting c ->
    pgx_I c2 -> pg_omap_find (pgc_omap c2) og <> None -> pgx_mono c c2 ->
    pg_is_selfref ss (PvRef og) = false ->
    pgc_err (pg_reserve_kids rec (PvRef og) c2) = None ->
    pgx_res (PvRef og) c (pg_reserve_done (PvRef og) (pg_reserve_kids rec (PvRef og) c2)).
  Proof.
    intros rec Hrec og c c2 Hs Hnot Hv HI Hm M Hself He.
    destruct (pgx_kids_ok rec Hrec (PvRef og) c2 Hs Hself He HI) as (S3 & V3 & [IV IT] & M3 & C3).
    set (c3 := pg_reserve_kids rec (PvRef og) c2) in *.
    unfold pg_reserve_done, pgx_res. cbn [pgc_src pgc_visiting pgc_omap]. rewrite V3, Hv, (pgx_remove1_head og _ Hnot).
    split; [exact S3|split; [reflexivity|split; [|split]]].
    - split; cbn [pgc_visiting pgc_omap pgc_tocopy].
      + intros x Hx. apply IV. rewrite V3, Hv. right. exact Hx.
      + intros x Hx. destruct (IT x Hx) as [H|H]; [|right; exact H].
        rewrite V3, Hv in H. destruct H as [<-|H]; [right|left; exact H].
        rewrite pgx_closed_obj_content. exact C3.
    - intros a l H. apply M3, M, H.
    - left. apply (pgx_mono_some _ _ M3), Hm.
  Qed.

  Local Ltac pgx_split_kids :=
    match goal with |- context [pg_reserve_kids ?r ?hh ?cc] =>
      let E3 := fresh "E3" in
      destruct (pgc_err (pg_reserve_kids r hh cc)) eqn:E3; [intros He; congruence|intros _]
    end.

  Local Transparent pg_reserve.
  Lemma pgx_reserve_ok : forall fuel top, pgx_rec_ok (fun h c => pg_reserve fuel h top c).
  Proof.
    induction fuel as [|f IH]; intros top; (split; [intros h c; apply pgx_reserve_err|]); intros h c Hs He HI.
    - cbn [pg_reserve] in He. discriminate.
    - pose proof (pgx_reserve_err _ _ _ _ He) as Ec. revert He. cbn [pg_reserve]. rewrite Ec.
      rewrite (pgx_type_is c h pgk_Pages Hs). cbv iota beta. rewrite Ec.
      destruct (match h with PvRef _ => pg_is_dict_of_type ss h pgk_Pages | _ => false end) eqn:Eb.
      { intros _. apply pgx_res_refl; [exact Hs|exact HI|]. destruct h; try discriminate. right. exact Eb. }
      rewrite Hs. fold ss. destruct (pg_is_selfref ss h) eqn:Esr; [intros H; discriminate|].
      pose proof (IH false) as Hrec.
      destruct h as [| | |og|l|d].
      4: {
        destruct (pg_memN og (pgc_visiting c)) eqn:Emem.
        - unfold pg_reserve_head. rewrite Emem. rewrite Ec. cbn [negb]. intros _.
          apply pgx_res_refl; [exact Hs|exact HI|]. left. apply HI, pgx_memN_true, Emem.
        - pose proof (pgx_memN_false _ _ Emem) as Hnot.
          destruct (pgx_head_spec og top c Hs Emem) as [(l & El & _ & ->)|[(l & El & ->)|[(El & ->)|(El & _ & ->)]]];
            cbn [pgc_err negb]; rewrite Ec.
          + pgx_split_kids. apply (pgx_tail_ref _ Hrec og c); try assumption; try reflexivity.
            * apply (pgx_I_step c); [exact HI|intros a l0 H; exact H| | |]; cbn [pgc_visiting pgc_tocopy pgc_omap].
              -- intros x [<-|Hx]; [right; congruence|left; exact Hx].
              -- intros x [<-|Hx]; [right; left; reflexivity|left; exact Hx].
              -- intros x Hx. right. exact Hx.
            * cbn [pgc_omap]. congruence.
            * intros a l0 H; exact H.
          + intros _. split; [reflexivity|split; [reflexivity|split; [|split]]].
            * exact HI.
            * intros a l0 H; exact H.
            * left. cbn [pgc_omap]. congruence.
          + assert (M : pgx_mono c (mkPgCst src ((pg_next_id (pgc_dst c), if pg_is_stream ss (PvRef og) then PcStream [] [] 0 else PcObj PvNull) :: pgc_dst c)
                                      ((og, pg_next_id (pgc_dst c)) :: pgc_omap c) (og :: pgc_visiting c) (og :: pgc_tocopy c) (pgc_err c))).
            { intros a l0 H. cbn [pgc_omap]. rewrite pg_omap_find_cons. destruct (a =? og) eqn:E; [|exact H].
              apply N.eqb_eq in E. subst a. congruence. }
            pgx_split_kids. apply (pgx_tail_ref _ Hrec og c); try assumption; try reflexivity.
            * apply (pgx_I_step c); [exact HI|exact M| | |]; cbn [pgc_visiting pgc_tocopy pgc_omap].
              -- intros x [<-|Hx]; [right; rewrite pg_omap_find_cons, N.eqb_refl; discriminate|left; exact Hx].
              -- intros x [<-|Hx]; [right; left; reflexivity|left; exact Hx].
              -- intros x Hx. right. exact Hx.
            * cbn [pgc_omap]. rewrite pg_omap_find_cons, N.eqb_refl. discriminate.
          + assert (M : pgx_mono c (mkPgCst src ((pg_next_id (pgc_dst c), PcObj PvNull) :: pgc_dst c)
                                      ((og, pg_next_id (pgc_dst c)) :: pgc_omap c) (pgc_visiting c) (pgc_tocopy c) (pgc_err c))).
            { intros a l0 H. cbn [pgc_omap]. rewrite pg_omap_find_cons. destruct (a =? og) eqn:E; [|exact H].
              apply N.eqb_eq in E. subst a. congruence. }
            intros _. split; [reflexivity|split; [reflexivity|split; [|split]]].
            * apply (pgx_I_step c); [exact HI|exact M| | |]; cbn [pgc_visiting pgc_tocopy pgc_omap].
              -- intros x Hx. left. exact Hx.
              -- intros x Hx. left. exact Hx.
              -- intros x Hx. exact Hx.
            * exact M.
            * left. cbn [pgc_omap]. rewrite pg_omap_find_cons, N.eqb_refl. discriminate.
      }
      all: cbn [pg_reserve_head negb]; rewrite Ec; pgx_split_kids;
        pose proof (pgx_kids_ok _ Hrec _ c Hs Esr E3 HI) as Hk; cbn [pgx_content] in Hk; cbn [pg_reserve_done]; exact Hk.
  Qed.
  Local Opaque pg_reserve.
End PgxWalk.

Lemma copy_closed_lemma : forall src dst fid,
  pd_all src <> [] -> pg_omap_wf dst ->
  let c := pg_cres src dst fid in
  pgc_err c = None ->
  forall og, In og (pgc_tocopy c) -> pgx_closed_obj (pd_store src) (pgc_omap c) og.
Proof.
  intros src dst fid Hall _ c He og Hin.
  destruct (pgx_reserve_ok src Hall 200 true) as [_ Ro].
  assert (I0 : pgx_I src (pg_c0 src dst)) by (split; intros x []).
  destruct (Ro (PvRef fid) (pg_c0 src dst) eq_refl He I0) as (_ & V & [_ T] & _).
  fold (pg_cres src dst fid) in V, T. fold c in V, T.
  destruct (T og Hin) as [H|H]; [|exact H]. rewrite V in H. destruct H.
Qed.

(* ------------------------------------------------------------------ what the walk maps, and to which cells *)
Section PgxFrame.
  Context (src : pg_doc) (Hall : pd_all src <> []).
  Let ss := pd_store src.

  (* the cell a reservation allocates for the source object a *)
  Definition pgx_cell (a : N) : pg_cell := if pg_is_stream ss (PvRef a) then PcStream [] [] 0 else PcObj PvNull.

  (* on top of pg_cR: a new map entry is not a /Pages node, its local object holds the reservation cell, and it is on
     to_copy unless it is a placeholder (not a stream); a new to_copy entry is newly mapped unless it is not a stream *)
  Definition pgx_cX (c c' : pg_cst) : Prop :=
    pgc_src c' = src /\ pg_cR c c' /\
    (forall a l, pg_omap_find (pgc_omap c') a = Some l ->
       pg_omap_find (pgc_omap c) a = Some l \/
       (pgx_is_pages ss a = false /\ pg_lookup (pgc_dst c') l = Some (pgx_cell a) /\
        (In a (pgc_tocopy c') \/ pg_is_stream ss (PvRef a) = false))) /\
    (forall a, In a (pgc_tocopy c') ->
       In a (pgc_tocopy c) \/ pg_omap_find (pgc_omap c) a = None \/ pg_is_stream ss (PvRef a) = false).

  Lemma pgx_cX_core : forall c c', pgc_src c = src -> pgc_src c' = pgc_src c -> pgc_dst c' = pgc_dst c ->
    pgc_omap c' = pgc_omap c -> pgc_tocopy c' = pgc_tocopy c -> pgx_cX c c'.
  Proof.
    intros c c' Hs Hs' Hd Ho Ht. split; [congruence|split; [apply pg_cR_core; assumption|split]].
    - intros a l H. left. rewrite <- Ho. exact H.
    - intros a H. left. rewrite <- Ht. exact H.
  Qed.

  Lemma pgx_cX_refl : forall c, pgc_src c = src -> pgx_cX c c.
  Proof. intros c Hs. apply pgx_cX_core; auto. Qed.

  Lemma pgx_cX_trans : forall c1 c2 c3, pgx_cX c1 c2 -> pgx_cX c2 c3 -> pgx_cX c1 c3.
  Proof.
    intros c1 c2 c3 (S1 & R1 & A1 & B1) (S2 & R2 & A2 & B2).
    split; [exact S2|split; [eapply pg_cR_trans; eassumption|split]].
    - intros a l H. destruct (A2 a l H) as [H2|H2]; [|right; exact H2].
      destruct (A1 a l H2) as [H1|(P & C & T)]; [left; exact H1|right].
      destruct R2 as (_ & _ & D2 & more & T2 & _).
      split; [exact P|split].
      + rewrite D2; [exact C|congruence].
      + destruct T as [T|T]; [left|right; exact T]. rewrite T2. apply in_or_app. right. exact T.
    - intros a H. destruct (B2 a H) as [H2|[H2|H2]].
      + apply B1, H2.
      + right; left. destruct R1 as (M1 & _). destruct (pg_omap_find (pgc_omap c1) a) as [l|] eqn:E; [|reflexivity].
        rewrite (M1 a l E) in H2. discriminate.
      + right; right. exact H2.
  Qed.

  Lemma pgx_cX_head : forall h top c, pgc_src c = src ->
    (forall og, h = PvRef og -> pgx_is_pages ss og = false) ->
    pgx_cX c (fst (pg_reserve_head h top c)).
  Proof.
    intros h top c Hs Hnp. pose proof (pg_cR_head h top c) as R.
    destruct h as [| | |og|l|d]; try (apply pgx_cX_refl; exact Hs).
    specialize (Hnp og eq_refl).
    destruct (pg_memN og (pgc_visiting c)) eqn:Emem.
    { unfold pg_reserve_head. rewrite Emem. apply pgx_cX_refl, Hs. }
    destruct (pgx_head_spec src Hall og top c Hs Emem) as [(l & El & Ep & E)|[(l & El & E)|[(El & E)|(El & Ens & E)]]];
      rewrite E in R |- *; cbn [fst] in R |- *; (split; [reflexivity|split; [exact R|split]]);
      cbn [pgc_omap pgc_dst pgc_tocopy].
    - intros a l0 H. left. exact H.
    - intros a [<-|H]; [right; right; eapply pgx_page_not_stream; exact Ep | left; exact H].
    - intros a l0 H. left. exact H.
    - intros a H. left. exact H.
    - intros a l0 H. rewrite pg_omap_find_cons in H. destruct (a =? og) eqn:Ea; [|left; exact H].
      apply N.eqb_eq in Ea. subst a. inversion H; subst l0. right. split; [exact Hnp|split].
      + cbn [pg_lookup]. rewrite N.eqb_refl. reflexivity.
      + left. left. reflexivity.
    - intros a [<-|H]; [right; left; exact El | left; exact H].
    - intros a l0 H. rewrite pg_omap_find_cons in H. destruct (a =? og) eqn:Ea; [|left; exact H].
      apply N.eqb_eq in Ea. subst a. inversion H; subst l0. right. split; [exact Hnp|split].
      + cbn [pg_lookup]. rewrite N.eqb_refl. unfold pgx_cell, ss. rewrite Ens. reflexivity.
      + right. exact Ens.
    - intros a H. left. exact H.
  Qed.

  Lemma pgx_cX_fold : forall {A} (f : pg_cst -> A -> pg_cst) (l : list A) c,
    (forall c x, pgc_src c = src -> pgx_cX c (f c x)) -> pgc_src c = src -> pgx_cX c (fold_left f l c).
  Proof.
    intros A f l. induction l as [|x t IH]; intros c H Hs; cbn [fold_left]; [apply pgx_cX_refl, Hs|].
    pose proof (H c x Hs) as X1. eapply pgx_cX_trans; [exact X1|]. apply IH; [exact H|apply X1].
  Qed.

  Lemma pgx_cX_kids : forall rec h c, (forall x c, pgc_src c = src -> pgx_cX c (rec x c)) ->
    pgc_src c = src -> pgx_cX c (pg_reserve_kids rec h c).
  Proof.
    intros rec h c Hrec Hs. unfold pg_reserve_kids.
    assert (Hd : forall d c0, pgc_src c0 = src -> pgx_cX c0 (fold_left (fun c1 (kv : pg_key * pg_val) => if pg_is_null (pd_store (pgc_src c1)) (snd kv) then c1 else rec (snd kv) c1) d c0)).
    { intros d c0. apply pgx_cX_fold. intros c1 kv H1. destruct (pg_is_null _ _); [apply pgx_cX_refl, H1 | apply Hrec, H1]. }
    assert (Ha : forall l c0, pgc_src c0 = src -> pgx_cX c0 (fold_left (fun c1 x => rec x c1) l c0)).
    { intros l c0. apply pgx_cX_fold. intros c1 x H1. apply Hrec, H1. }
    destruct h as [| | |og|l|d]; try (apply pgx_cX_refl, Hs); [|apply Ha, Hs|apply Hd, Hs].
    destruct (pg_lookup (pd_store (pgc_src c)) og) as [[v|d x k]|]; try (apply pgx_cX_refl, Hs); [|apply Hd, Hs].
    destruct v; try (apply pgx_cX_refl, Hs); [apply Ha, Hs|apply Hd, Hs].
  Qed.

  Local Transparent pg_reserve.
  Lemma pgx_cX_reserve : forall fuel h top c, pgc_src c = src -> pgx_cX c (pg_reserve fuel h top c).
  Proof.
    induction fuel as [|f IH]; intros h top c Hs; cbn [pg_reserve].
    - apply pgx_cX_core; auto.
    - destruct (pgc_err c) eqn:Ec; [apply pgx_cX_refl, Hs|].
      rewrite (pgx_type_is src Hall c h pgk_Pages Hs). cbv iota beta. rewrite Ec.
      destruct (match h with PvRef _ => pg_is_dict_of_type (pd_store src) h pgk_Pages | _ => false end) eqn:Eb; [apply pgx_cX_refl, Hs|].
      destruct (pg_is_selfref (pd_store (pgc_src c)) h); [apply pgx_cX_core; auto|].
      assert (Hnp : forall og, h = PvRef og -> pgx_is_pages ss og = false) by (intros og ->; exact Eb).
      pose proof (pgx_cX_head h top c Hs Hnp) as X2.
      destruct (pg_reserve_head h top c) as [c2 go]. cbn [fst] in X2.
      destruct (pgc_err c2); [exact X2|]. destruct go; cbn [negb]; [|exact X2].
      assert (S2 : pgc_src c2 = src) by apply X2.
      pose proof (pgx_cX_kids (fun x c0 => pg_reserve f x false c0) h c2 (fun x c0 => IH x false c0) S2) as X3.
      pose proof (pgx_cX_trans _ _ _ X2 X3) as X23.
      destruct (pgc_err (pg_reserve_kids (fun x c0 => pg_reserve f x false c0) h c2)); [exact X23|].
      eapply pgx_cX_trans; [exact X23|]. unfold pg_reserve_done.
      destruct h; try (apply pgx_cX_refl, X23). apply pgx_cX_core; try reflexivity. apply X23.
  Qed.
  Local Opaque pg_reserve.
End PgxFrame.

(* ------------------------------------------------------------------ the replacement phase, streams included *)
Definition pgx_sdict (D : pg_dict) (d0 : pg_dict) : pg_dict :=
  fold_left (fun acc (kv : pg_key * pg_val) => pg_dset acc (fst kv) (snd kv)) D d0.

Lemma pgx_replace_fold : forall src omap L ds reg ds' reg',
  NoDup L -> (forall og, In og L -> pg_omap_find omap og <> None) ->
  (forall og og' l, pg_omap_find omap og = Some l -> pg_omap_find omap og' = Some l -> og = og') ->
  fold_left (pg_replace_step src omap) L (ds, reg, None) = (ds', reg', None) ->
  forall og l, In og L -> pg_omap_find omap og = Some l ->
    match pg_lookup (pd_store src) og with
    | Some (PcObj v) => pg_lookup ds' l = Some (PcObj (pg_rename (pd_store src) omap v))
    | Some (PcStream d _ _) =>
        pg_lookup ds' l =
        Some (PcStream (pgx_sdict (pg_rename_dict (pd_store src) omap d)
                                  (match pg_lookup ds l with Some (PcStream d0 _ _) => d0 | _ => [] end)) [] l)
    | None => False
    end.
Proof.
  intros src omap L. induction L as [|og t IH]; intros ds reg ds' reg' Hnd Hmap Hinj Hfold og' l' Hin Hl'; [destruct Hin|].
  inversion Hnd as [|? ? Hnot Hnd']; subst.
  cbn [fold_left] in Hfold. unfold pg_replace_step at 2 in Hfold.
  destruct (pg_omap_find omap og) as [l|] eqn:El; [|rewrite pg_replace_step_err in Hfold; inversion Hfold].
  assert (Hother : forall x, In x t -> pg_omap_find omap x <> Some l).
  { intros x Hx E. assert (og = x) by (eapply Hinj; eassumption). subst. contradiction. }
  assert (Hmap' : forall x, In x t -> pg_omap_find omap x <> None) by (intros x Hx; apply Hmap; right; exact Hx).
  (* the state after the step for og *)
  assert (Hstep : exists cell reg1,
            fold_left (pg_replace_step src omap) t (pg_supd ds l cell, reg1, None) = (ds', reg', None) /\
            match pg_lookup (pd_store src) og with
            | Some (PcObj v) => cell = PcObj (pg_rename (pd_store src) omap v)
            | Some (PcStream d _ _) =>
                cell = PcStream (pgx_sdict (pg_rename_dict (pd_store src) omap d)
                                  (match pg_lookup ds l with Some (PcStream d0 _ _) => d0 | _ => [] end)) [] l
            | None => False
            end).
  { destruct (pg_lookup (pd_store src) og) as [[v|d data k]|] eqn:Es.
    - destruct (pg_is_null ds (PvRef l)); [|rewrite pg_replace_step_err in Hfold; inversion Hfold].
      eexists _, _. split; [exact Hfold|reflexivity].
    - eexists _, _. split; [exact Hfold|reflexivity].
    - rewrite pg_replace_step_err in Hfold. inversion Hfold. }
  destruct Hstep as (cell & reg1 & Hfold1 & Hcell).
  destruct (pg_replace_fold src omap t _ _ _ _ Hnd' Hmap' Hinj Hfold1) as [_ H2].
  destruct Hin as [<-|Hin].
  - rewrite El in Hl'. inversion Hl'; subst l'.
    assert (E : pg_lookup ds' l = Some cell) by (rewrite (H2 l Hother), pg_lookup_supd, N.eqb_refl; reflexivity).
    rewrite E. destruct (pg_lookup (pd_store src) og) as [[v|d data k]|]; [rewrite Hcell; reflexivity|rewrite Hcell; reflexivity|exact Hcell].
  - pose proof (IH _ _ _ _ Hnd' Hmap' Hinj Hfold1 og' l' Hin Hl') as Hr.
    assert (l' <> l) by (intros ->; eapply Hother; eassumption).
    rewrite pg_lookup_supd in Hr. destruct (l' =? l) eqn:E; [apply N.eqb_eq in E; contradiction|]. exact Hr.
Qed.

(* ------------------------------------------------------------------ (G3) the multi-copy invariant *)
(* pgx_copy_inv with the stream disjunct replaced: the dictionary of the copied stream is the renamed source dictionary
   replaced key by key into an empty dictionary (what the model does).  The lookup form of PgxSpec.pgx_copy_inv
   ("pg_dget d' key = pg_dget (pg_rename_dict ss m d) key") follows from this one when the keys of the source
   dictionary are distinct, and is false for a source stream dictionary with a repeated key: pg_dget reads the first
   occurrence, the key-by-key replacement keeps the last. *)
Definition pgx_copy_inv_w (src dst : pg_doc) : Prop :=
  let ss := pd_store src in
  let m := pd_omap dst in
  (forall a l, pg_omap_find m a = Some l -> pg_lookup (pd_store dst) l <> None) /\
  (forall a a' l, pg_omap_find m a = Some l -> pg_omap_find m a' = Some l -> a = a') /\
  (forall a l, pg_omap_find m a = Some l -> pgx_is_pages ss a = false) /\
  (forall a l, pg_omap_find m a = Some l ->
     pg_is_null (pd_store dst) (PvRef l) = true \/
     match pg_lookup ss a with
     | Some (PcObj v) => pgx_closed ss m v /\ pg_lookup (pd_store dst) l = Some (PcObj (pg_rename ss m v))
     | Some (PcStream d _ _) =>
         pgx_closed ss m (PvDict d) /\
         exists x k, pg_lookup (pd_store dst) l = Some (PcStream (pgx_sdict (pg_rename_dict ss m d) []) x k)
     | None => False
     end).

Lemma copy_inv_init_lemma : forall src s r, pgx_copy_inv src (pg_init_doc s r).
Proof. intros src s r. unfold pgx_copy_inv. cbn. repeat split; intros; discriminate. Qed.

Lemma pgx_copy_inv_w_init : forall src s r, pgx_copy_inv_w src (pg_init_doc s r).
Proof. intros src s r. unfold pgx_copy_inv_w. cbn. repeat split; intros; discriminate. Qed.

Lemma copy_iso_lemma : forall src dst fid,
  pd_all src <> [] -> pgx_copy_inv_w src dst ->
  let '(src', dst', e, r) := pg_copied src dst fid in
  e = None -> src' = src /\ pgx_copy_inv_w src dst' /\
              (forall l, r = PvRef l -> pg_omap_find (pd_omap dst') fid = Some l).
Proof.
  intros src dst fid Hall (I1 & I2 & I3 & I4).
  assert (Hwf : pg_omap_wf dst) by (split; assumption).
  pose proof (copy_closed_lemma src dst fid Hall Hwf) as Hcl. cbv zeta in Hcl.
  assert (W : pg_cW (pg_cres src dst fid)).
  { apply pg_cW_reserve; [|reflexivity]. unfold pg_cW, pg_c0. cbn [pgc_dst pgc_omap pgc_tocopy].
    split; [exact I1|split; [exact I2|split; [intros og []|constructor]]]. }
  pose proof (pgx_cX_reserve src Hall 200 (PvRef fid) true (pg_c0 src dst) eq_refl) as X.
  fold (pg_cres src dst fid) in X.
  unfold pg_copied. fold (pg_c0 src dst). fold (pg_cres src dst fid).
  set (c := pg_cres src dst fid) in *.
  destruct W as (WA & WB & WC & WD).
  destruct X as (Hsrc & (M & _ & D & _) & X3 & X4).
  cbn [pg_c0 pgc_dst pgc_omap pgc_tocopy] in M, D, X3, X4.
  destruct (pgc_err c) eqn:Ee; [intros H; discriminate|]. specialize (Hcl eq_refl).
  rewrite Hsrc.
  destruct (fold_left (pg_replace_step src (pgc_omap c)) (rev' (pgc_tocopy c)) (pgc_dst c, pd_reg dst, None)) as [[ds reg] e] eqn:Ef.
  destruct e as [x|]; [intros H; discriminate|].
  assert (HL1 : NoDup (rev' (pgc_tocopy c))) by (rewrite rev'_rev; apply NoDup_rev, WD).
  assert (HL2 : forall og, In og (rev' (pgc_tocopy c)) -> In og (pgc_tocopy c)).
  { intros og H. rewrite rev'_rev in H. apply in_rev in H. exact H. }
  assert (HL3 : forall og, In og (pgc_tocopy c) -> In og (rev' (pgc_tocopy c))).
  { intros og H. rewrite rev'_rev. apply in_rev. rewrite rev_involutive. exact H. }
  assert (HL4 : forall og, In og (rev' (pgc_tocopy c)) -> pg_omap_find (pgc_omap c) og <> None) by (intros og H; apply WC, HL2, H).
  pose proof (pgx_replace_fold src (pgc_omap c) _ _ _ _ _ HL1 HL4 WB Ef) as Hrep.
  destruct (pg_replace_fold src (pgc_omap c) _ _ _ _ _ HL1 HL4 WB Ef) as [_ H2].
  pose proof (pg_replace_fold_some src (pgc_omap c) (rev' (pgc_tocopy c)) (pgc_dst c, pd_reg dst, None)) as Hsome.
  rewrite Ef in Hsome. cbn [fst] in Hsome.
  assert (P3 : forall a l, pg_omap_find (pgc_omap c) a = Some l -> pgx_is_pages (pd_store src) a = false).
  { intros a l H. destruct (X3 a l H) as [Hold|(Hp & _)]; [eapply I3, Hold | exact Hp]. }
  assert (Hinv : pgx_copy_inv_w src (pd_with_reg (pd_with_omap (pd_with_store dst ds) (pgc_omap c)) reg)).
  { unfold pgx_copy_inv_w. cbn [pd_store pd_omap pd_with_reg pd_with_omap pd_with_store].
    split; [|split; [exact WB|split; [exact P3|]]].
    - intros a l H. apply Hsome, (WA a l H).
    - intros a l H. destruct (in_dec N.eq_dec a (pgc_tocopy c)) as [Hin|Hnin].
      + right. pose proof (Hrep a l (HL3 a Hin) H) as Hr. pose proof (Hcl a Hin) as Hc. unfold pgx_closed_obj in Hc.
        destruct (pg_lookup (pd_store src) a) as [[v|d data k]|] eqn:Ea.
        * split; [exact Hc|exact Hr].
        * split; [exact Hc|]. exists [], l. rewrite Hr.
          assert (Hst : pg_is_stream (pd_store src) (PvRef a) = true) by (unfold pg_is_stream; rewrite Ea; reflexivity).
          assert (Hcell : pg_lookup (pgc_dst c) l = Some (PcStream [] [] 0)).
          { destruct (X4 a Hin) as [[]|[Hn|Hn]]; [|congruence].
            destruct (X3 a l H) as [Hold|(_ & Hc' & _)]; [congruence|].
            rewrite Hc'. unfold pgx_cell. rewrite Hst. reflexivity. }
          rewrite Hcell. reflexivity.
        * exact Hr.
      + assert (Hcell : pg_lookup ds l = pg_lookup (pgc_dst c) l).
        { apply H2. intros og Hog E. apply Hnin. rewrite <- (WB og a l E H). apply HL2, Hog. }
        destruct (X3 a l H) as [Hold|(Hp & Hc & [Hin|Hns])]; [| contradiction |].
        * assert (Hsame : pg_lookup (pgc_dst c) l = pg_lookup (pd_store dst) l) by (apply D; eapply I1; exact Hold).
          destruct (I4 a l Hold) as [Hn|Hr].
          -- left. unfold pg_is_null in *. rewrite Hcell, Hsame. exact Hn.
          -- right. destruct (pg_lookup (pd_store src) a) as [[v|d data k]|]; [| |exact Hr].
             ++ destruct Hr as [Hc Hl]. destruct (pgx_rename_stable (pd_store src) (pd_omap dst) (pgc_omap c) v M P3 Hc) as [Er Hc'].
                split; [exact Hc'|]. rewrite Er, Hcell, Hsame. exact Hl.
             ++ destruct Hr as [Hc (x & k0 & Hl)].
                destruct (pgx_rename_stable (pd_store src) (pd_omap dst) (pgc_omap c) (PvDict d) M P3 Hc) as [Er Hc'].
                split; [exact Hc'|]. exists x, k0. unfold pg_rename_dict. rewrite Er. rewrite Hcell, Hsame. exact Hl.
        * left. unfold pg_is_null. rewrite Hcell, Hc. unfold pgx_cell. rewrite Hns. reflexivity. }
  destruct (pg_omap_find (pgc_omap c) fid) as [l0|] eqn:Efid; intros _; (split; [reflexivity|split; [exact Hinv|]]);
    cbn [pd_omap pd_with_reg pd_with_omap pd_with_store]; intros l Hl; [injection Hl as <-; exact Efid | discriminate].
Qed.

(* ------------------------------------------------------------------ pgx_copy_inv_w versus PgxSpec.pgx_copy_inv *)
(* copy_iso_lemma stated with PgxSpec.pgx_copy_inv itself is false: a source stream whose dictionary repeats a key *)
Lemma pgx_copy_iso_orig_refuted :
  ~ (forall src dst fid,
       pd_all src <> [] -> pgx_copy_inv src dst ->
       let '(src', dst', e, r) := pg_copied src dst fid in
       e = None -> src' = src /\ pgx_copy_inv src dst' /\
                   (forall l, r = PvRef l -> pg_omap_find (pd_omap dst') fid = Some l)).
Proof.
  intros H.
  set (s0 := mkPgDoc [(1, PcStream [([1], PvInt 1); ([1], PvInt 2)] [] 0)] 1 [1] [] false false [] []).
  specialize (H s0 (pg_init_doc [] 1) 1).
  assert (E : pg_copied s0 (pg_init_doc [] 1) 1 =
              (s0, mkPgDoc [(1, PcStream [([1], PvInt 2)] [] 1)] 1 [] [] false false [(1, 1)] [(1, [])], None, PvRef 1))
    by (vm_compute; reflexivity).
  rewrite E in H.
  destruct (H ltac:(discriminate) (copy_inv_init_lemma _ _ _) eq_refl) as (_ & (_ & _ & _ & H4) & _).
  specialize (H4 1 1 eq_refl). destruct H4 as [Hn|(_ & d' & x & k & Hl & Hk)]; [discriminate|].
  cbn in Hl. injection Hl as <- _ _. specialize (Hk [1]). discriminate.
Qed.

Lemma pgx_dget_notin : forall d key, ~ In key (map fst d) -> pg_dget d key = PvNull.
Proof.
  induction d as [|[k v] t IH]; intros key H; [reflexivity|]. cbn [pg_dget].
  destruct (pg_key_eqb key k) eqn:E.
  - apply pg_key_eqb_eq in E. subst. exfalso. apply H. left. reflexivity.
  - apply IH. intros Hin. apply H. right. exact Hin.
Qed.

Lemma pgx_sdict_get : forall D d0 key, NoDup (map fst D) ->
  pg_dget (pgx_sdict D d0) key = if in_dec (list_eq_dec N.eq_dec) key (map fst D) then pg_dget D key else pg_dget d0 key.
Proof.
  unfold pgx_sdict. induction D as [|[k v] t IH]; intros d0 key Hnd; [reflexivity|].
  cbn [map fst] in Hnd. inversion Hnd as [|? ? Hnot Hnd']; subst.
  cbn [fold_left fst snd]. rewrite (IH _ key Hnd'). cbn [pg_dget].
  destruct (pg_key_eqb key k) eqn:E.
  - apply pg_key_eqb_eq in E. subst key.
    destruct (in_dec (list_eq_dec N.eq_dec) k (map fst t)) as [Hi|Hi]; [contradiction|].
    rewrite pg_dget_dset_eq.
    destruct (in_dec (list_eq_dec N.eq_dec) k (map fst ((k, v) :: t))) as [Hj|Hj]; [reflexivity|].
    exfalso. apply Hj. left. reflexivity.
  - assert (key <> k) as Hne by (intros ->; rewrite pg_key_eqb_refl in E; discriminate).
    destruct (in_dec (list_eq_dec N.eq_dec) key (map fst t)) as [Hi|Hi];
      destruct (in_dec (list_eq_dec N.eq_dec) key (map fst ((k, v) :: t))) as [Hj|Hj]; try reflexivity.
    + exfalso. apply Hj. right. exact Hi.
    + destruct Hj as [Hj|Hj]; [cbn in Hj; congruence|contradiction].
    + apply pg_dget_dset_neq. exact Hne.
Qed.

Lemma pgx_rename_dict_keys : forall ss m d key, In key (map fst (pg_rename_dict ss m d)) -> In key (map fst d).
Proof.
  intros ss m d key. unfold pg_rename_dict. cbn [pg_rename].
  induction d as [|[k x] t IH]; [intros []|]. cbn [map fst].
  destruct (pg_is_null ss x); [intros H; right; apply IH, H|].
  destruct (pg_rename ss m x); try (intros [<-|H]; [left; reflexivity|right; apply IH, H]).
  intros H; right; apply IH, H.
Qed.

Lemma pgx_rename_dict_nodup : forall ss m d, NoDup (map fst d) -> NoDup (map fst (pg_rename_dict ss m d)).
Proof.
  intros ss m d. induction d as [|[k x] t IH]; intros Hnd; [constructor|].
  cbn [map fst] in Hnd. inversion Hnd as [|? ? Hnot Hnd']; subst. specialize (IH Hnd').
  assert (Hk : ~ In k (map fst (pg_rename_dict ss m t))) by (intros H; apply Hnot, (pgx_rename_dict_keys _ _ _ _ H)).
  unfold pg_rename_dict in *. cbn [pg_rename] in *.
  destruct (pg_is_null ss x); [exact IH|].
  destruct (pg_rename ss m x); try (cbn [map fst]; constructor; [exact Hk|exact IH]). exact IH.
Qed.

(* when the keys of every source stream dictionary are distinct, the weakened invariant gives the one of PgxSpec *)
Lemma pgx_copy_inv_of_w : forall src dst,
  (forall a d x k, pg_lookup (pd_store src) a = Some (PcStream d x k) -> NoDup (map fst d)) ->
  pgx_copy_inv_w src dst -> pgx_copy_inv src dst.
Proof.
  intros src dst Hk (I1 & I2 & I3 & I4). split; [exact I1|split; [exact I2|split; [exact I3|]]].
  intros a l H. destruct (I4 a l H) as [Hn|Hr]; [left; exact Hn|right].
  destruct (pg_lookup (pd_store src) a) as [[v|d data k]|] eqn:Ea; [exact Hr| |exact Hr].
  destruct Hr as [Hc (x & k0 & Hl)]. split; [exact Hc|]. eexists _, x, k0. split; [exact Hl|].
  intros key. rewrite pgx_sdict_get by (apply pgx_rename_dict_nodup; eapply Hk; exact Ea).
  destruct (in_dec (list_eq_dec N.eq_dec) key (map fst (pg_rename_dict (pd_store src) (pd_omap dst) d))) as [Hi|Hi]; [reflexivity|].
  cbn [pg_dget]. symmetry. apply pgx_dget_notin, Hi.
Qed.
