(* C08 - specification side: the undamaged twin as ground truth.
   A file of the class the property quantifies over is a blank prefix (header comment lines), then objects
   written one after the other, each as a header line `N G obj` followed by its body (everything up to and
   including the end of line after `endobj`), then a tail (xref section, trailer, startxref).  The ground truth
   of "what is where" is computed from the lengths alone (rs_offsets, rs_last_def); nothing here reads the
   file the way qpdf does.

   no_lookalike, the hypothesis the scan theorems need, is the decidable predicate rs_quiet: the line scan, run
   over the segment IN ISOLATION, never runs a token into the end of the segment, reports no `n g obj` header
   inside it and resynchronises exactly at its end.  It is evaluated by the harness on every generated twin
   (extracted), and it is false for the deliberate look-alike probes. *)
From QV Require Import Base.Bytes File.Recover.
Local Open Scope N_scope.

Record rs_obj := mkObj { o_num : list N; o_gen : list N; o_body : list N }.

Definition rs_header (o : rs_obj) : list N := o_num o ++ 32 :: o_gen o ++ [32; 111; 98; 106; 10].
Definition rs_obj_bytes (o : rs_obj) : list N := rs_header o ++ o_body o.
Fixpoint rs_write_objs (objs : list rs_obj) : list N :=
  match objs with [] => [] | o :: r => rs_obj_bytes o ++ rs_write_objs r end.
Definition rs_write (prefix : list N) (objs : list rs_obj) (tail : list N) : list N :=
  prefix ++ rs_write_objs objs ++ tail.

Definition rs_id (o : rs_obj) : Z * Z := (Z.of_N (dec_value (o_num o)), Z.of_N (dec_value (o_gen o))).

(* where every header starts *)
Fixpoint rs_offsets (base : N) (objs : list rs_obj) : list (Z * Z * N) :=
  match objs with
  | [] => []
  | o :: r => (fst (rs_id o), snd (rs_id o), base) :: rs_offsets (base + N.of_nat (length (rs_obj_bytes o))) r
  end.

(* the offset of the LAST definition of (n, g): later definitions override earlier ones *)
Fixpoint rs_last_def (k : Z * Z) (defs : list (Z * Z * N)) (cur : option N) : option N :=
  match defs with
  | [] => cur
  | (n, g, a) :: r => rs_last_def k r (if (n =? fst k)%Z && (g =? snd k)%Z then Some a else cur)
  end.

(* ids an xref table can hold: 0 < n <= max_id, 0 <= g < 65535 *)
Definition rs_valid_id (maxid : Z) (k : Z * Z) : bool :=
  ((0 <? fst k) && (fst k <=? maxid) && (0 <=? snd k) && (snd k <? 65535))%Z.

(* digit strings a header may use: 1 to 9 decimal digits *)
Definition rs_digits_ok (ds : list N) : bool :=
  forallb rc_is_digit ds && (0 <? N.of_nat (length ds)) && (N.of_nat (length ds) <? 10).

(* ---------------------------------------------------------------- no_lookalike *)
Definition rs_evl (ev : option rc_event) (base : N) : list rc_event :=
  match ev with Some e => [rc_shift base e] | None => [] end.

(* the scan run over a segment in isolation: every iteration must stay clear of the end of the segment (no token
   runs into it, an end of line is found) and the last one must end exactly at the end of the segment *)
Fixpoint rs_seg_walk (s : list N) (skip : N) (base : N) : option (list rc_event) :=
  match s with
  | [] => if skip =? 0 then Some [] else None
  | _ :: s' =>
      if 0 <? skip then rs_seg_walk s' (skip - 1) (base + 1)
      else
        match rc_scan_step s with
        | (ev, k, w, touched) =>
            if touched || (k =? 0) || match w with WNoEol => true | _ => false end then None
            else match rs_seg_walk s' (k - 1) (base + 1) with
                 | Some l => Some (rs_evl ev base ++ l)
                 | None => None
                 end
        end
  end.

Definition rs_no_objs (evs : list rc_event) : bool :=
  forallb (fun e => match e with EvObj _ _ _ => false | _ => true end) evs.

Definition rs_starts_ok (s : list N) : bool :=
  match s with c :: _ => negb (rc_is_eol c) | [] => false end.

(* a body / a tail is quiet: it starts a line, the scan finds no header in it and ends exactly at its end *)
Definition rs_quiet (seg : list N) : bool :=
  rs_starts_ok seg &&
  match rs_seg_walk seg 0 0 with Some evs => rs_no_objs evs | None => false end.

(* the tail (xref section, trailer, startxref, %%EOF) is the end of the file: the scan over it, to the end of
   input, reports no header *)
Definition rs_tail_quiet (tail : list N) : bool :=
  rs_starts_ok tail && rs_no_objs (rc_scan_events tail).

(* blank prefix: only white space and complete comment lines, as seen by the tokenizer *)
Definition rs_idle (m : rc_tk) : bool :=
  negb (k_in m) && k_before m && (k_len m =? 0) &&
  match k_st m with KBefore | KComment => true | _ => false end.
Fixpoint rs_idle_run (m : rc_tk) (pre : list N) : option rc_tk :=
  match pre with
  | [] => Some m
  | c :: r => let m1 := rc_handle' m c in if rs_idle m1 then rs_idle_run m1 r else None
  end.
Definition rs_blank (pre : list N) : bool :=
  match rs_idle_run rc_tk0 pre with
  | Some m => match k_st m with KBefore => true | _ => false end
  | None => false
  end.

Definition rs_wf_obj (o : rs_obj) : bool :=
  rs_digits_ok (o_num o) && rs_digits_ok (o_gen o) && rs_quiet (o_body o).
