(* C13 - model of the page-tree maintenance code of libqpdf/QPDF_pages.cc
   (Pages::cache, getAllPagesInternal, update_cache, flattenPagesTree,
   pushInheritedAttributesToPage(Internal), insertPageobjToPage, insert, erase, find,
   QPDF::addPage / addPageAt / removePage / findPage, QPDFPageDocumentHelper::addPage,
   QPDFPageObjectHelper::shallowCopyPage), of the foreign-object copier of libqpdf/QPDF.cc
   (Objects::Foreign::copier, Copier::copied, reserve_objects, replace_indirect_object) and of
   QPDF::replaceObject / swapObjects / makeIndirectObject (QPDF_objects.cc).

   Written FROM THE C++ (defects included).  Conventions:
   - an object number is an N (generation is always 0 in the documents the check uses);
   - a value (pg_val) is what a QPDFObjectHandle can denote: PvRef i is an indirect handle,
     everything else is a direct object (value semantics: direct objects are never shared);
   - the object cache of one QPDF is pg_store = association list id -> cell, newest first;
     the next object id is 1 + the largest id (QPDF::getObjectCount + 1);
   - std::map<std::string,...> order = bytewise order of the key, dictionaries are kept sorted;
   - exceptions are an option pg_err threaded through every step (state changes made before a
     throw stay, exactly as in the C++);  PeUnm marks a situation this model does not cover
     (the harness does not compare such cases and counts them).
   No proofs in this file. *)
From QV Require Import Base.Bytes.
Local Open Scope N_scope.

(* ---------------------------------------------------------------- values *)
Definition pg_key := list N.

Inductive pg_val : Type :=
| PvNull
| PvInt (z : Z)
| PvName (s : pg_key)
| PvRef (i : N)
| PvArr (l : list pg_val)
| PvDict (l : list (pg_key * pg_val)).

Definition pg_dict := list (pg_key * pg_val).

Inductive pg_cell : Type :=
| PcObj (v : pg_val)
| PcStream (d : pg_dict) (data : list N) (key : N).
(* key: 0 = the stream has its own data (the data field); k > 0 = the stream was created by the
   foreign copier and its data comes from the foreign-stream provider (Streams::Copier), which
   looks it up in a per-document table keyed by the objgen the reader CURRENTLY has
   (copied_data / copied_streams, filled under the objgen the copy was created with = k) *)

Definition pg_store := list (N * pg_cell).

Inductive pg_err := PeQ (* QPDFExc *) | PeRt (* std::runtime_error *) | PeLogic (* std::logic_error *) | PeUnm.

Definition pgk_Kids : pg_key := [75;105;100;115].
Definition pgk_Count : pg_key := [67;111;117;110;116].
Definition pgk_Parent : pg_key := [80;97;114;101;110;116].
Definition pgk_Type : pg_key := [84;121;112;101].
Definition pgk_Pages : pg_key := [80;97;103;101;115].
Definition pgk_Page : pg_key := [80;97;103;101].
Definition pgk_MediaBox : pg_key := [77;101;100;105;97;66;111;120].
Definition pgk_CropBox : pg_key := [67;114;111;112;66;111;120].
Definition pgk_Resources : pg_key := [82;101;115;111;117;114;99;101;115].
Definition pgk_Rotate : pg_key := [82;111;116;97;116;101].
Definition pgk_Annots : pg_key := [65;110;110;111;116;115].
Definition pgk_Mk : pg_key := [77;107].
Definition pgk_Catalog : pg_key := [67;97;116;97;108;111;103].

Fixpoint pg_key_cmp (a b : pg_key) : comparison :=
  match a, b with
  | [], [] => Eq
  | [], _ => Lt
  | _, [] => Gt
  | x :: a', y :: b' => match x ?= y with Eq => pg_key_cmp a' b' | c => c end
  end.
Definition pg_key_eqb (a b : pg_key) : bool := match pg_key_cmp a b with Eq => true | _ => false end.

(* ---------------------------------------------------------------- dictionaries (sorted) *)
Fixpoint pg_dget (d : pg_dict) (k : pg_key) : pg_val :=
  match d with
  | [] => PvNull
  | (k', v) :: d' => if pg_key_eqb k k' then v else pg_dget d' k
  end.
Fixpoint pg_ddel (d : pg_dict) (k : pg_key) : pg_dict :=
  match d with
  | [] => []
  | (k', v) :: d' => if pg_key_eqb k k' then pg_ddel d' k else (k', v) :: pg_ddel d' k
  end.
Fixpoint pg_dins (d : pg_dict) (k : pg_key) (v : pg_val) : pg_dict :=
  match d with
  | [] => [(k, v)]
  | (k', v') :: d' =>
      match pg_key_cmp k k' with
      | Lt => (k, v) :: d
      | Eq => (k, v) :: d'
      | Gt => (k', v') :: pg_dins d' k v
      end
  end.
(* BaseHandle::replace: a direct null removes the key *)
Definition pg_dset (d : pg_dict) (k : pg_key) (v : pg_val) : pg_dict :=
  match v with PvNull => pg_ddel d k | _ => pg_dins d k v end.

(* ---------------------------------------------------------------- object cache *)
Fixpoint pg_lookup (s : pg_store) (i : N) : option pg_cell :=
  match s with
  | [] => None
  | (j, c) :: s' => if i =? j then Some c else pg_lookup s' i
  end.
Fixpoint pg_supd (s : pg_store) (i : N) (c : pg_cell) : pg_store :=
  match s with
  | [] => [(i, c)]
  | (j, c') :: s' => if i =? j then (i, c) :: s' else (j, c') :: pg_supd s' i c
  end.
Definition pg_max_id (s : pg_store) : N := fold_left (fun m p => N.max m (fst p)) s 0.
Definition pg_next_id (s : pg_store) : N := 1 + pg_max_id s.
(* makeIndirectFromQPDFObject *)
Definition pg_alloc (s : pg_store) (c : pg_cell) : pg_store * N :=
  let i := pg_next_id s in ((i, c) :: s, i).

(* what a handle resolves to when it is used as dictionary / array / integer / name.
   A stream is none of those. *)
Definition pg_rv (s : pg_store) (v : pg_val) : pg_val :=
  match v with
  | PvRef i => match pg_lookup s i with Some (PcObj v') => v' | _ => PvNull end
  | _ => v
  end.
(* BaseHandle::null() *)
Definition pg_is_null (s : pg_store) (v : pg_val) : bool :=
  match v with
  | PvNull => true
  | PvRef i => match pg_lookup s i with None => true | Some (PcObj PvNull) => true | _ => false end
  | _ => false
  end.
Definition pg_is_stream (s : pg_store) (v : pg_val) : bool :=
  match v with
  | PvRef i => match pg_lookup s i with Some (PcStream _ _ _) => true | _ => false end
  | _ => false
  end.
Definition pg_is_dict (s : pg_store) (v : pg_val) : bool :=
  match pg_rv s v with PvDict _ => true | _ => false end.
Definition pg_is_arr (s : pg_store) (v : pg_val) : bool :=
  match pg_rv s v with PvArr _ => true | _ => false end.
Definition pg_is_ref (v : pg_val) : bool := match v with PvRef _ => true | _ => false end.
(* getKey / operator[] on a handle *)
Definition pg_hget (s : pg_store) (h : pg_val) (k : pg_key) : pg_val :=
  match pg_rv s h with PvDict d => pg_dget d k | _ => PvNull end.
(* hasKey / contains *)
Definition pg_has_key (s : pg_store) (h : pg_val) (k : pg_key) : bool :=
  negb (pg_is_null s (pg_hget s h k)).
Definition pg_name_is (s : pg_store) (v : pg_val) (n : pg_key) : bool :=
  match pg_rv s v with PvName x => pg_key_eqb x n | _ => false end.
(* isDictionaryOfType *)
Definition pg_is_dict_of_type (s : pg_store) (h : pg_val) (t : pg_key) : bool :=
  pg_is_dict s h && pg_name_is s (pg_hget s h pgk_Type) t.
Definition pg_is_int (s : pg_store) (v : pg_val) : bool :=
  match pg_rv s v with PvInt _ => true | _ => false end.
(* isRectangle *)
Definition pg_is_rect (s : pg_store) (v : pg_val) : bool :=
  match pg_rv s v with
  | PvArr l => forallb (pg_is_int s) l && (N.of_nat (length l) =? 4)
  | _ => false
  end.

(* replaceKey / removeKey through an INDIRECT handle (a non-dictionary only warns) *)
Definition pg_obj_set_key (s : pg_store) (i : N) (k : pg_key) (v : pg_val) : pg_store :=
  match pg_lookup s i with
  | Some (PcObj (PvDict d)) => pg_supd s i (PcObj (PvDict (pg_dset d k v)))
  | _ => s
  end.
Definition pg_obj_del_key (s : pg_store) (i : N) (k : pg_key) : pg_store :=
  match pg_lookup s i with
  | Some (PcObj (PvDict d)) => pg_supd s i (PcObj (PvDict (pg_ddel d k)))
  | _ => s
  end.

Fixpoint pg_list_set {A} (l : list A) (n : nat) (x : A) : list A :=
  match l, n with
  | [], _ => []
  | _ :: t, O => x :: t
  | h :: t, S n' => h :: pg_list_set t n' x
  end.
Fixpoint pg_list_ins {A} (l : list A) (n : nat) (x : A) : list A :=
  match n, l with
  | O, _ => x :: l
  | S n', h :: t => h :: pg_list_ins t n' x
  | S _, [] => [x]
  end.
Fixpoint pg_list_del {A} (l : list A) (n : nat) : list A :=
  match l, n with
  | [], _ => []
  | _ :: t, O => t
  | h :: t, S n' => h :: pg_list_del t n'
  end.
Definition pg_memN (x : N) (l : list N) : bool := existsb (N.eqb x) l.

(* the (direct) /Kids array of node i *)
Definition pg_kids_of (s : pg_store) (i : N) : list pg_val :=
  match pg_hget s (PvRef i) pgk_Kids with PvArr l => l | _ => [] end.
Definition pg_set_kid (s : pg_store) (node : N) (idx : nat) (v : pg_val) : pg_store :=
  pg_obj_set_key s node pgk_Kids (PvArr (pg_list_set (pg_kids_of s node) idx v)).

(* ---------------------------------------------------------------- per-document state *)
Record pg_doc := mkPgDoc {
  pd_store : pg_store;
  pd_root : N;                       (* trailer /Root *)
  pd_all : list N;                   (* all_pages (always indirect handles) *)
  pd_pos : list (N * Z);             (* pageobj_to_pages_pos *)
  pd_pushed : bool;                  (* pushed_inherited_attributes_to_pages *)
  pd_invalid : bool;                 (* invalid_page_found *)
  pd_omap : list (N * N);            (* Foreign::Copier::object_map for the other document *)
  pd_reg : list (N * list N)         (* Streams::Copier::copied_data/copied_streams: objgen -> data *)
}.
Definition pd_with_store (p : pg_doc) (s : pg_store) : pg_doc :=
  mkPgDoc s (pd_root p) (pd_all p) (pd_pos p) (pd_pushed p) (pd_invalid p) (pd_omap p) (pd_reg p).
Definition pd_with_all (p : pg_doc) (a : list N) : pg_doc :=
  mkPgDoc (pd_store p) (pd_root p) a (pd_pos p) (pd_pushed p) (pd_invalid p) (pd_omap p) (pd_reg p).
Definition pd_with_pos (p : pg_doc) (m : list (N * Z)) : pg_doc :=
  mkPgDoc (pd_store p) (pd_root p) (pd_all p) m (pd_pushed p) (pd_invalid p) (pd_omap p) (pd_reg p).
Definition pd_with_pushed (p : pg_doc) (b : bool) : pg_doc :=
  mkPgDoc (pd_store p) (pd_root p) (pd_all p) (pd_pos p) b (pd_invalid p) (pd_omap p) (pd_reg p).
Definition pd_with_invalid (p : pg_doc) (b : bool) : pg_doc :=
  mkPgDoc (pd_store p) (pd_root p) (pd_all p) (pd_pos p) (pd_pushed p) b (pd_omap p) (pd_reg p).
Definition pd_with_omap (p : pg_doc) (m : list (N * N)) : pg_doc :=
  mkPgDoc (pd_store p) (pd_root p) (pd_all p) (pd_pos p) (pd_pushed p) (pd_invalid p) m (pd_reg p).
Definition pd_with_reg (p : pg_doc) (m : list (N * list N)) : pg_doc :=
  mkPgDoc (pd_store p) (pd_root p) (pd_all p) (pd_pos p) (pd_pushed p) (pd_invalid p) (pd_omap p) m.

Definition pg_init_doc (s : pg_store) (root : N) : pg_doc := mkPgDoc s root [] [] false false [] [].

(* getRoot().getKey("/Pages") *)
Definition pg_root_pages (p : pg_doc) : pg_val := pg_hget (pd_store p) (PvRef (pd_root p)) pgk_Pages.

(* position map *)
Fixpoint pg_pos_find (m : list (N * Z)) (i : N) : option Z :=
  match m with [] => None | (j, z) :: m' => if i =? j then Some z else pg_pos_find m' i end.
Fixpoint pg_pos_set (m : list (N * Z)) (i : N) (z : Z) : list (N * Z) :=
  match m with
  | [] => [(i, z)]
  | (j, z') :: m' => if i =? j then (i, z) :: m' else (j, z') :: pg_pos_set m' i z
  end.
Fixpoint pg_pos_erase (m : list (N * Z)) (i : N) : list (N * Z) :=
  match m with
  | [] => []
  | (j, z) :: m' => if i =? j then m' else (j, z) :: pg_pos_erase m' i
  end.

(* ---------------------------------------------------------------- getAllPagesInternal *)
Record pg_gst := mkPgGst {
  pgg_s : pg_store;
  pgg_pages : list N;      (* all_pages, reversed *)
  pgg_vis : list N;        (* visited *)
  pgg_seen : list N;       (* seen *)
  pgg_inv : bool;          (* invalid_page_found *)
  pgg_err : option pg_err
}.
Definition pgg_fail (g : pg_gst) (e : pg_err) : pg_gst :=
  mkPgGst (pgg_s g) (pgg_pages g) (pgg_vis g) (pgg_seen g) (pgg_inv g) (Some e).

Definition pg_letter : pg_val := PvArr [PvInt 0; PvInt 0; PvInt 612; PvInt 792].

(* the part of the loop body that handles a leaf (no /Kids) *)
Definition pg_leaf (g : pg_gst) (node : N) (idx : nat) (kid : N) (mb res : bool) : pg_gst :=
  let s := pgg_s g in
  let s := if negb mb && negb (pg_is_rect s (pg_hget s (PvRef kid) pgk_MediaBox))
           then pg_obj_set_key s kid pgk_MediaBox pg_letter else s in
  let s := if negb res && negb (pg_is_dict s (pg_hget s (PvRef kid) pgk_Resources))
           then pg_obj_set_key s kid pgk_Resources (PvDict []) else s in
  let annots := pg_hget s (PvRef kid) pgk_Annots in
  let s := if negb (pg_is_null s annots) && negb (pg_is_arr s annots)
           then pg_obj_del_key s kid pgk_Annots else s in
  (* duplicate: makeIndirectObject(shallowCopy) replaces the array element *)
  let '(s, kid, seen) :=
    if pg_memN kid (pgg_seen g) then
      let '(s', k2) := pg_alloc s (PcObj (pg_rv s (PvRef kid))) in
      (pg_set_kid s' node idx (PvRef k2), k2, k2 :: pgg_seen g)
    else (s, kid, kid :: pgg_seen g) in
  let s := if pg_is_dict_of_type s (PvRef kid) pgk_Page then s
           else pg_obj_set_key s kid pgk_Type (PvName pgk_Page) in
  mkPgGst s (kid :: pgg_pages g) (pgg_vis g) seen (pgg_inv g) (pgg_err g).

Fixpoint pg_gapi (fuel : nat) (node : N) (level : nat) (mb res : bool) (g : pg_gst) : pg_gst :=
  match fuel with
  | O => pgg_fail g PeUnm
  | S f =>
    if Nat.ltb 100 (S level) then pgg_fail g PeQ
    else if pg_memN node (pgg_vis g) then pgg_fail g PeQ
    else
      let s := pgg_s g in
      let s := if pg_is_dict_of_type s (PvRef node) pgk_Pages then s
               else pg_obj_set_key s node pgk_Type (PvName pgk_Pages) in
      let mb := mb || pg_is_rect s (pg_hget s (PvRef node) pgk_MediaBox) in
      let res := res || pg_is_dict s (pg_hget s (PvRef node) pgk_Resources) in
      let g := mkPgGst s (pgg_pages g) (node :: pgg_vis g) (pgg_seen g) (pgg_inv g) (pgg_err g) in
      match pg_hget s (PvRef node) pgk_Kids with
      | PvRef _ => pgg_fail g PeUnm            (* indirect /Kids array: not modelled *)
      | PvArr l =>
          fold_left (fun (g : pg_gst) (idx : nat) =>
            match pgg_err g with
            | Some _ => g
            | None =>
              match nth_error (pg_kids_of (pgg_s g) node) idx with
              | None => g
              | Some kv =>
                if negb (pg_is_dict (pgg_s g) kv) then
                  mkPgGst (pgg_s g) (pgg_pages g) (pgg_vis g) (pgg_seen g) true (pgg_err g)
                else
                  let '(s1, kid) :=
                    match kv with
                    | PvRef k => (pgg_s g, k)
                    | _ => let '(s', k) := pg_alloc (pgg_s g) (PcObj kv) in
                           (pg_set_kid s' node idx (PvRef k), k)
                    end in
                  let g1 := mkPgGst s1 (pgg_pages g) (pgg_vis g) (pgg_seen g) (pgg_inv g) (pgg_err g) in
                  if pg_has_key s1 (PvRef kid) pgk_Kids
                  then pg_gapi f kid (S level) mb res g1
                  else pg_leaf g1 node idx kid mb res
              end
            end) (seq 0 (length l)) g
      | _ => g
      end
  end.

(* ---------------------------------------------------------------- pushInheritedAttributesToPageInternal *)
Definition pg_is_inh (k : pg_key) : bool :=
  pg_key_eqb k pgk_MediaBox || pg_key_eqb k pgk_CropBox || pg_key_eqb k pgk_Resources || pg_key_eqb k pgk_Rotate.
Definition pg_is_scalar (v : pg_val) : bool :=
  match v with PvArr _ | PvDict _ => false | _ => true end.

(* key_ancestors: key -> top of the stack (only the top is ever read; popping is the return
   of the recursive call because the map is passed by value here) *)
Definition pg_ka := list (pg_key * pg_val).
Definition pg_ka_push (ka : pg_ka) (k : pg_key) (v : pg_val) : pg_ka := pg_dins ka k v.

Definition pg_nonnull_keys (s : pg_store) (d : pg_dict) : list pg_key :=
  map fst (filter (fun kv => negb (pg_is_null s (snd kv))) d).

Fixpoint pg_pia (fuel : nat) (cur : N) (ka : pg_ka) (s : pg_store) : pg_store * option pg_err :=
  match fuel with
  | O => (s, Some PeUnm)
  | S f =>
    let keys := match pg_rv s (PvRef cur) with PvDict d => pg_nonnull_keys s d | _ => [] end in
    let '(s, ka) :=
      fold_left (fun '(s, ka) key =>
        if pg_is_inh key then
          let oh := pg_hget s (PvRef cur) key in
          let '(s, oh) :=
            if pg_is_ref oh then (s, oh)
            else if pg_is_scalar oh then (s, oh)
            else let '(s', k) := pg_alloc s (PcObj oh) in (pg_obj_set_key s' cur key (PvRef k), PvRef k) in
          (pg_obj_del_key s cur key, pg_ka_push ka key oh)
        else (s, ka)) keys (s, ka) in
    let nk := match pg_rv s (pg_hget s (PvRef cur) pgk_Kids) with PvArr l => length l | _ => O end in
    fold_left (fun '(s, e) idx =>
      match e with
      | Some _ => (s, e)
      | None =>
        let arr := match pg_rv s (pg_hget s (PvRef cur) pgk_Kids) with PvArr l => l | _ => [] end in
        match nth_error arr idx with
        | None => (s, None)
        | Some kid =>
          if pg_is_dict_of_type s kid pgk_Pages then
            match kid with
            | PvRef k => pg_pia f k ka s
            | _ => (s, Some PeUnm)             (* direct /Pages node inside /Kids *)
            end
          else
            match kid with
            | PvRef k =>
                (fold_left (fun s kv =>
                   if pg_has_key s (PvRef k) (fst kv) then s else pg_obj_set_key s k (fst kv) (snd kv)) ka s, None)
            | _ => match ka with
                   | [] => (s, None)
                   | _ => (s, Some PeUnm)      (* direct kid mutated through a reference / ownerless warning *)
                   end
            end
        end
      end) (seq 0 nk) (s, None)
  end.

Definition pg_len {A} (l : list A) : Z := Z.of_nat (length l).

(* ---------------------------------------------------------------- cache / push / flatten *)
(* the while-loop of cache() that climbs /Parent links from root->/Pages *)
Fixpoint pg_climb (fuel : nat) (s : pg_store) (pages : pg_val) (seen : list N) (changed : bool) : pg_val * bool :=
  match fuel with
  | O => (pages, changed)
  | S f =>
    if pg_is_dict s pages && pg_has_key s pages pgk_Parent then
      match pages with
      | PvRef i => if pg_memN i seen then (pages, changed)
                   else pg_climb f s (pg_hget s pages pgk_Parent) (i :: seen) true
      | _ => pg_climb f s (pg_hget s pages pgk_Parent) seen true
      end
    else (pages, changed)
  end.

(* cache() without the trailing "if (invalid_page_found) flattenPagesTree()" *)
Definition pg_cache_core (p : pg_doc) : pg_doc * option pg_err * bool :=
  if (match pd_all p with [] => true | _ => false end) && negb (pd_invalid p) then
    let s := pd_store p in
    let '(pages, changed) := pg_climb (S (length s)) s (pg_root_pages p) [] false in
    let s := if changed then pg_obj_set_key s (pd_root p) pgk_Pages pages else s in
    let p := pd_with_store p s in
    if negb (pg_has_key s pages pgk_Kids) then (p, Some PeQ, false)
    else
      match pages with
      | PvRef n =>
          let g := pg_gapi 102 n 0 false false (mkPgGst s [] [] [] (pd_invalid p) None) in
          match pgg_err g with
          | Some e => (pd_with_invalid (pd_with_all (pd_with_store p (pgg_s g)) []) false, Some e, false)
          | None =>
              (pd_with_invalid (pd_with_all (pd_with_store p (pgg_s g)) (rev' (pgg_pages g))) (pgg_inv g), None, pgg_inv g)
          end
      | _ => (p, Some PeUnm, false)     (* direct /Pages dictionary in the catalog *)
      end
  else (p, None, false).

(* Pages::pushInheritedAttributesToPage(allow_changes = true, warn_skipped_keys) after its
   call of cache() *)
Definition pg_push_after_cache (p : pg_doc) : pg_doc * option pg_err :=
  match pg_root_pages p with
  | PvRef n =>
      let '(s, e) := pg_pia 110 n [] (pd_store p) in
      match e with
      | Some _ => (pd_with_store p s, e)
      | None => (pd_with_pushed (pd_with_store p s) true, None)
      end
  | _ => (p, Some PeUnm)
  end.

Definition pg_uint (s : pg_store) (v : pg_val) : option Z :=
  match pg_rv s v with
  | PvInt z => if (z <? 0)%Z then None else Some z
  | _ => Some 0%Z
  end.

(* flattenPagesTree after pushInheritedAttributesToPage(true, true) has returned *)
Definition pg_flatten_tail (p : pg_doc) : pg_doc * option pg_err :=
  match pg_root_pages p with
  | PvRef pn =>
      let '(s, m, e, _) :=
        fold_left (fun '(s, m, e, i) pg =>
          match e with
          | Some _ => (s, m, e, i)
          | None =>
            match pg_pos_find m pg with
            | Some _ => (s, m, Some PeQ, i)       (* insertPageobjToPage(check_duplicate) *)
            | None => (pg_obj_set_key s pg pgk_Parent (PvRef pn), (pg, i) :: m, None, (i + 1)%Z)
            end
          end) (pd_all p) (pd_store p, pd_pos p, None, 0%Z) in
      let p := pd_with_pos (pd_with_store p s) m in
      match e with
      | Some _ => (p, e)
      | None =>
          let s := pg_obj_set_key s pn pgk_Kids (PvArr (map PvRef (pd_all p))) in
          let p := pd_with_store p s in
          let len := pg_len (pd_all p) in
          match pg_uint s (pg_hget s (PvRef pn) pgk_Count) with
          | None => (p, Some PeUnm)
          | Some c =>
              if (c =? len)%Z then (p, None)
              else if pd_invalid p && (len <? c)%Z
                   then (pd_with_store p (pg_obj_set_key s pn pgk_Count (PvInt len)), None)
                   else (p, Some PeRt)
          end
      end
  | _ => (p, Some PeUnm)
  end.

Section WithCache.
  (* cache() as seen from pushInheritedAttributesToPage: the real one, or (inside cache()'s own
     call of flattenPagesTree, where invalid_page_found is true) a no-op *)
  Variable cachef : pg_doc -> pg_doc * option pg_err.

  Definition pg_push_gen (p : pg_doc) (warn_skipped : bool) : pg_doc * option pg_err :=
    if pd_pushed p && negb warn_skipped then (p, None)
    else
      let '(p, e) := cachef p in
      match e with
      | Some _ => (p, e)
      | None => pg_push_after_cache p
      end.

  Definition pg_flatten_gen (p : pg_doc) : pg_doc * option pg_err :=
    match pd_pos p with
    | _ :: _ => (p, None)
    | [] =>
        let '(p, e) := pg_push_gen p true in
        match e with
        | Some _ => (p, e)
        | None => pg_flatten_tail p
        end
    end.
End WithCache.

Definition pg_cache (p : pg_doc) : pg_doc * option pg_err :=
  let '(p, e, need_flatten) := pg_cache_core p in
  match e with
  | Some _ => (p, e)
  | None =>
      if need_flatten then
        let '(p, e) := pg_flatten_gen (fun q => (q, None)) p in
        match e with
        | Some _ => (p, e)                      (* invalid_page_found stays true *)
        | None => (pd_with_invalid p false, None)
        end
      else (p, None)
  end.

(* Pages::all() *)
Definition pg_all (p : pg_doc) : pg_doc * option pg_err :=
  match pd_all p with
  | _ :: _ => (p, None)
  | [] => pg_cache p
  end.

Definition pg_push (p : pg_doc) (warn_skipped : bool) := pg_push_gen pg_cache p warn_skipped.
Definition pg_flatten (p : pg_doc) := pg_flatten_gen pg_cache p.

(* update_cache *)
Definition pg_update_cache (p : pg_doc) : pg_doc * option pg_err :=
  pg_cache (pd_with_pushed (pd_with_pos (pd_with_all p []) []) false).

(* Pages::find *)
Definition pg_find (p : pg_doc) (og : N) : pg_doc * option pg_err * Z :=
  let '(p, e) := pg_flatten p in
  match e with
  | Some _ => (p, e, 0%Z)
  | None =>
      match pg_pos_find (pd_pos p) og with
      | Some z => (p, None, z)
      | None => (p, Some PeQ, 0%Z)
      end
  end.

(* ---------------------------------------------------------------- stream data *)
Fixpoint pg_reg_find (m : list (N * list N)) (i : N) : option (list N) :=
  match m with [] => None | (j, x) :: m' => if i =? j then Some x else pg_reg_find m' i end.
Fixpoint pg_reg_set (m : list (N * list N)) (i : N) (x : list N) : list (N * list N) :=
  match m with
  | [] => [(i, x)]
  | (j, y) :: m' => if i =? j then (i, x) :: m' else (j, y) :: pg_reg_set m' i x
  end.
(* getRawStreamData of object i: None = "error getting raw stream data" *)
Definition pg_stream_data (p : pg_doc) (i : N) : option (list N) :=
  match pg_lookup (pd_store p) i with
  | Some (PcStream _ data k) => if k =? 0 then Some data else pg_reg_find (pd_reg p) i
  | _ => None
  end.

(* ---------------------------------------------------------------- foreign copier *)
Fixpoint pg_omap_find (m : list (N * N)) (i : N) : option N :=
  match m with [] => None | (j, l) :: m' => if i =? j then Some l else pg_omap_find m' i end.

Record pg_cst := mkPgCst {
  pgc_src : pg_doc;
  pgc_dst : pg_store;
  pgc_omap : list (N * N);
  pgc_visiting : list N;
  pgc_tocopy : list N;       (* reversed *)
  pgc_err : option pg_err
}.
Definition pgc_fail (c : pg_cst) (e : pg_err) : pg_cst :=
  mkPgCst (pgc_src c) (pgc_dst c) (pgc_omap c) (pgc_visiting c) (pgc_tocopy c) (Some e).

(* isPagesObject / isPageObject of a foreign handle: qpdf()->doc().pages().all() first (this
   can fill - and repair - the SOURCE document's page cache), then the /Type test.
   Direct objects have no owner in this model: false without touching the cache. *)
Definition pg_src_type_is (c : pg_cst) (h : pg_val) (t : pg_key) : pg_cst * bool :=
  match h with
  | PvRef _ =>
      let '(src, e) := pg_all (pgc_src c) in
      let c := mkPgCst src (pgc_dst c) (pgc_omap c) (pgc_visiting c) (pgc_tocopy c) (pgc_err c) in
      match e with
      | Some x => (pgc_fail c x, false)
      | None => (c, pg_is_dict_of_type (pd_store src) h t)
      end
  | _ => (c, false)
  end.

Definition pg_remove1 (x : N) (l : list N) : list N := filter (fun y => negb (x =? y)) l.

(* reserve_objects, the part for an indirect object: visiting / object_map / reservation / to_copy.
   The boolean tells whether the children are walked. *)
Definition pg_reserve_head (h : pg_val) (top : bool) (c : pg_cst) : pg_cst * bool :=
  match h with
  | PvRef og =>
      if pg_memN og (pgc_visiting c) then (c, false)
      else
        let c := mkPgCst (pgc_src c) (pgc_dst c) (pgc_omap c) (og :: pgc_visiting c) (pgc_tocopy c) (pgc_err c) in
        match pg_omap_find (pgc_omap c) og with
        | Some l =>
            let '(c, is_page) := if top then pg_src_type_is c h pgk_Page else (c, false) in
            if top && is_page && pg_is_null (pgc_dst c) (PvRef l)
            then (mkPgCst (pgc_src c) (pgc_dst c) (pgc_omap c) (pgc_visiting c) (og :: pgc_tocopy c) (pgc_err c), true)
            else (mkPgCst (pgc_src c) (pgc_dst c) (pgc_omap c) (pg_remove1 og (pgc_visiting c)) (pgc_tocopy c) (pgc_err c), false)
        | None =>
            let '(d', l) :=
              if pg_is_stream (pd_store (pgc_src c)) h
              then pg_alloc (pgc_dst c) (PcStream [] [] 0)
              else pg_alloc (pgc_dst c) (PcObj PvNull) in
            let c := mkPgCst (pgc_src c) d' ((og, l) :: pgc_omap c) (pgc_visiting c) (pgc_tocopy c) (pgc_err c) in
            let '(c, is_page) := if top then (c, false) else pg_src_type_is c h pgk_Page in
            if negb top && is_page
            then (mkPgCst (pgc_src c) (pgc_dst c) (pgc_omap c) (pg_remove1 og (pgc_visiting c)) (pgc_tocopy c) (pgc_err c), false)
            else (mkPgCst (pgc_src c) (pgc_dst c) (pgc_omap c) (pgc_visiting c) (og :: pgc_tocopy c) (pgc_err c), true)
        end
  | _ => (c, true)
  end.

(* the walk over the children (array items, non-null dictionary values, the dictionary of a stream) *)
Definition pg_reserve_kids (rec : pg_val -> pg_cst -> pg_cst) (h : pg_val) (c : pg_cst) : pg_cst :=
  let ss := pd_store (pgc_src c) in
  let on_dict (d : pg_dict) (c : pg_cst) :=
    fold_left (fun c (kv : pg_key * pg_val) => if pg_is_null (pd_store (pgc_src c)) (snd kv) then c else rec (snd kv) c) d c in
  match h with
  | PvRef og =>
      match pg_lookup ss og with
      | Some (PcStream d _ _) => on_dict d c          (* reserve_objects(foreign.getDict()): a direct dictionary *)
      | Some (PcObj (PvArr l)) => fold_left (fun c x => rec x c) l c
      | Some (PcObj (PvDict d)) => on_dict d c
      | _ => c
      end
  | PvArr l => fold_left (fun c x => rec x c) l c
  | PvDict d => on_dict d c
  | _ => c
  end.

(* visiting.erase(foreign) *)
Definition pg_reserve_done (h : pg_val) (c : pg_cst) : pg_cst :=
  match h with
  | PvRef og => mkPgCst (pgc_src c) (pgc_dst c) (pgc_omap c) (pg_remove1 og (pgc_visiting c)) (pgc_tocopy c) (pgc_err c)
  | _ => c
  end.

(* an object that replaceObject(og, the stream that is og) turned into a reference to itself: what the copier does
   with it is not modelled *)
Definition pg_is_selfref (s : pg_store) (h : pg_val) : bool :=
  match h with
  | PvRef og => match pg_lookup s og with Some (PcObj (PvRef _)) => true | _ => false end
  | _ => false
  end.

(* reserve_objects.  fuel bounds the depth of the walk. *)
Fixpoint pg_reserve (fuel : nat) (h : pg_val) (top : bool) (c : pg_cst) : pg_cst :=
  match fuel with
  | O => pgc_fail c PeUnm
  | S f =>
    match pgc_err c with
    | Some _ => c
    | None =>
      let '(c, is_pages) := pg_src_type_is c h pgk_Pages in
      match pgc_err c with
      | Some _ => c
      | None =>
        if is_pages then c
        else if pg_is_selfref (pd_store (pgc_src c)) h then pgc_fail c PeUnm
        else
          let '(c, go) := pg_reserve_head h top c in
          match pgc_err c with
          | Some _ => c
          | None =>
            if negb go then c
            else
              let c := pg_reserve_kids (fun x c => pg_reserve f x false c) h c in
              match pgc_err c with
              | Some _ => c
              | None => pg_reserve_done h c
              end
          end
      end
    end
  end.

(* replace_indirect_object for a value found INSIDE an object (top = false) *)
Fixpoint pg_rename (ss : pg_store) (omap : list (N * N)) (v : pg_val) : pg_val :=
  match v with
  | PvRef i => match pg_omap_find omap i with Some l => PvRef l | None => PvNull end
  | PvArr l => PvArr (map (pg_rename ss omap) l)
  | PvDict d =>
      PvDict ((fix go (d : pg_dict) : pg_dict :=
                 match d with
                 | [] => []
                 | (k, x) :: d' =>
                     if pg_is_null ss x then go d'
                     else match pg_rename ss omap x with
                          | PvNull => go d'                       (* replace(key, direct null) erases *)
                          | y => (k, y) :: go d'
                          end
                 end) d)
  | _ => v
  end.
Definition pg_rename_dict (ss : pg_store) (omap : list (N * N)) (d : pg_dict) : pg_dict :=
  match pg_rename ss omap (PvDict d) with PvDict d' => d' | _ => [] end.

(* the loop "for (auto& oh: to_copy) { copy = replace_indirect_object(oh, true); if (!oh.isStream())
   replaceReserved(object_map[oh], copy); }" : one object, state = (destination objects, stream provider table, error) *)
Definition pg_replace_step (src : pg_doc) (omap : list (N * N))
    (st : pg_store * list (N * list N) * option pg_err) (og : N) : pg_store * list (N * list N) * option pg_err :=
  let '(ds, reg, e) := st in
  match e with
  | Some _ => (ds, reg, e)
  | None =>
    match pg_omap_find omap og with
    | None => (ds, reg, Some PeUnm)
    | Some l =>
      match pg_lookup (pd_store src) og with
      | Some (PcStream d data _) =>
          (* keys are replaced into the (fresh, empty) dictionary of the local stream; copy_data_to
             registers the provider under the local object number *)
          let d0 := match pg_lookup ds l with Some (PcStream d0 _ _) => d0 | _ => [] end in
          (pg_supd ds l (PcStream (fold_left (fun acc kv => pg_dset acc (fst kv) (snd kv)) (pg_rename_dict (pd_store src) omap d) d0) [] l),
           match pg_stream_data src og with Some x => pg_reg_set reg l x | None => reg end, None)
      | Some (PcObj v) =>
          (* replaceReserved: the local object must be reserved or null *)
          if pg_is_null ds (PvRef l)
          then (pg_supd ds l (PcObj (pg_rename (pd_store src) omap v)), reg, None)
          else (ds, reg, Some PeLogic)
      | None => (ds, reg, Some PeUnm)
      end
    end
  end.

(* Copier::copied *)
Definition pg_copied (src dst : pg_doc) (fid : N) : pg_doc * pg_doc * option pg_err * pg_val :=
  let c0 := mkPgCst src (pd_store dst) (pd_omap dst) [] [] None in
  let c := pg_reserve 200 (PvRef fid) true c0 in
  let src := pgc_src c in
  match pgc_err c with
  | Some e => (src, pd_with_omap (pd_with_store dst (pgc_dst c)) (pgc_omap c), Some e, PvNull)
  | None =>
      let '(ds, reg, e) :=
        fold_left (pg_replace_step src (pgc_omap c)) (rev' (pgc_tocopy c)) (pgc_dst c, pd_reg dst, None) in
      let dst := pd_with_reg (pd_with_omap (pd_with_store dst ds) (pgc_omap c)) reg in
      match e with
      | Some _ => (src, dst, e, PvNull)
      | None =>
          match pg_omap_find (pgc_omap c) fid with
          | None => (src, dst, None, PvNull)          (* warning, direct null returned *)
          | Some l => (src, dst, None, PvRef l)
          end
      end
  end.

(* ---------------------------------------------------------------- operations on two documents *)
Inductive pg_href :=
| PhDirect (v : pg_val)                 (* a direct object, no owner *)
| PhObj (b : bool) (i : N).             (* getObject(i, 0) of document A (false) / B (true) *)

Definition pg_world := (pg_doc * pg_doc)%type.
Definition pg_get (w : pg_world) (d : bool) : pg_doc := if d then snd w else fst w.
Definition pg_put (w : pg_world) (d : bool) (p : pg_doc) : pg_world := if d then (fst w, p) else (p, snd w).

(* getObject of an id that is not in the cache returns a direct null *)
Definition pg_norm (w : pg_world) (h : pg_href) : pg_href :=
  match h with
  | PhObj b i => match pg_lookup (pd_store (pg_get w b)) i with None => PhDirect PvNull | Some _ => h end
  | _ => h
  end.

(* renumbering loop: for (i = from; i < npages; ++i) insertPageobjToPage(all_pages.at(i), i, false) *)
Definition pg_renumber (m : list (N * Z)) (all' : list N) (from : nat) : list (N * Z) :=
  fold_left (fun m (ix : nat * N) => pg_pos_set m (snd ix) (Z.of_nat (fst ix)))
    (skipn from (combine (seq 0 (length all')) all')) m.

(* Pages::insert from "auto pages = qpdf.getRoot()["/Pages"]" on: newpage is the local indirect object ni *)
Definition pg_insert_core (p : pg_doc) (ni : N) (pos : Z) : pg_doc * option pg_err :=
  match pg_root_pages p with
  | PvRef pn =>
      let s := pd_store p in
      let s := pg_obj_set_key s ni pgk_Parent (PvRef pn) in
      match pg_rv s (pg_hget s (PvRef pn) pgk_Kids) with
      | PvArr kids =>
          match pg_hget s (PvRef pn) pgk_Kids with
          | PvRef _ => (pd_with_store p s, Some PeUnm)
          | _ =>
            let n := Z.to_nat pos in
            if Nat.ltb (length kids) n then (pd_with_store p s, Some PeUnm)
            else
              let kids' := pg_list_ins kids n (PvRef ni) in
              let s := pg_obj_set_key s pn pgk_Kids (PvArr kids') in
              let npages := pg_len kids' in
              let s := pg_obj_set_key s pn pgk_Count (PvInt npages) in
              let all' := pg_list_ins (pd_all p) n ni in
              if negb (npages =? pg_len all')%Z then
                (pd_with_all (pd_with_store p s) all', Some PeUnm)
              else
                let m := pg_renumber (pd_pos p) all' (S n) in
                match pg_pos_find m ni with
                | Some _ => (pd_with_pos (pd_with_all (pd_with_store p s) all') m, Some PeQ)
                | None => (pd_with_pos (pd_with_all (pd_with_store p s) all') ((ni, pos) :: m), None)
                end
          end
      | _ => (pd_with_store p s, Some PeRt)     (* Array::array() throws *)
      end
  | _ => (p, Some PeUnm)
  end.

(* a page that is already there is replaced by makeIndirectObject(copy()) *)
Definition pg_insert_dup (p : pg_doc) (np : pg_val) : pg_doc * option pg_err * pg_val :=
  match np with
  | PvRef i =>
      match pg_pos_find (pd_pos p) i with
      | Some _ =>
          match pg_lookup (pd_store p) i with
          | Some (PcStream _ _ _) => (p, Some PeRt, np)
          | _ => let '(s, j) := pg_alloc (pd_store p) (PcObj (pg_rv (pd_store p) np)) in
                 (pd_with_store p s, None, PvRef j)
          end
      | None => (p, None, np)
      end
  | _ => (p, None, np)
  end.

(* Pages::insert once newpage is local (np): range check, duplicate check, insertion *)
Definition pg_insert_local (p : pg_doc) (np : pg_val) (pos : Z) : pg_doc * option pg_err :=
  if (pos <? 0)%Z || (pg_len (pd_all p) <? pos)%Z then (p, Some PeRt)
  else
    let '(p, e, np) := pg_insert_dup p np in
    match e with
    | Some _ => (p, e)
    | None =>
      match np with
      | PvRef ni => pg_insert_core p ni pos
      | _ => (p, Some PeQ)     (* replaceKey on a direct null without owner *)
      end
    end.

(* the test at the top of Pages::insert (repair 53c36690): a null is let through, anything else must be a dictionary
   that is neither a /Pages node (by /Type or by having /Kids) nor the catalog.  An indirect handle is looked at in
   the document that owns it. *)
Definition pg_insertable (w : pg_world) (d : bool) (h : pg_href) : bool :=
  let '(s, v) := match pg_norm w h with
                 | PhDirect v => (pd_store (pg_get w d), v)
                 | PhObj b i => (pd_store (pg_get w b), PvRef i)
                 end in
  pg_is_null s v ||
  (pg_is_dict s v && negb (pg_is_dict_of_type s v pgk_Pages) && negb (pg_is_dict_of_type s v pgk_Catalog) &&
   negb (pg_has_key s v pgk_Kids)).

(* Pages::insert *)
Definition pg_insert (w : pg_world) (d : bool) (h : pg_href) (pos : Z) : pg_world * option pg_err :=
  if negb (pg_insertable w d h) then (w, Some PeRt) else
  let '(p, e) := pg_flatten (pg_get w d) in
  let w := pg_put w d p in
  match e with
  | Some _ => (w, e)
  | None =>
    (* make indirect / copy foreign *)
    let '(w, e, np) :=
      match pg_norm w h with
      | PhDirect v =>
          let '(s, i) := pg_alloc (pd_store (pg_get w d)) (PcObj v) in
          (pg_put w d (pd_with_store (pg_get w d) s), None, PvRef i)
      | PhObj b i =>
          if Bool.eqb b d then (w, None, PvRef i)
          else
            let '(src, e) := pg_push (pg_get w b) false in
            let w := pg_put w b src in
            match e with
            | Some _ => (w, e, PvNull)
            | None =>
                let '(src, dst, e, r) := pg_copied (pg_get w b) (pg_get w d) i in
                (pg_put (pg_put w b src) d dst, e, r)
            end
      end in
    match e with
    | Some _ => (w, e)
    | None => let '(p, e) := pg_insert_local (pg_get w d) np pos in (pg_put w d p, e)
    end
  end.

(* Pages::erase after findPage returned pos *)
Definition pg_erase_core (p : pg_doc) (og : N) (pos : Z) : pg_doc * option pg_err :=
  match pg_root_pages p with
  | PvRef pn =>
      let s := pd_store p in
      match pg_hget s (PvRef pn) pgk_Kids with
      | PvArr kids =>
          let n := Z.to_nat pos in
          let kids' := pg_list_del kids n in
          let s := pg_obj_set_key s pn pgk_Kids (PvArr kids') in
          let npages := pg_len kids' in
          let s := pg_obj_set_key s pn pgk_Count (PvInt npages) in
          let all' := pg_list_del (pd_all p) n in
          let m := pg_pos_erase (pd_pos p) og in
          if negb (npages =? pg_len all')%Z || Nat.leb (length (pd_all p)) n then
            (pd_with_pos (pd_with_all (pd_with_store p s) all') m, Some PeUnm)
          else
            (pd_with_pos (pd_with_all (pd_with_store p s) all') (pg_renumber m all' n), None)
      | _ => (p, Some PeUnm)
      end
  | _ => (p, Some PeUnm)
  end.

(* Pages::erase *)
Definition pg_erase (w : pg_world) (d : bool) (og : N) : pg_world * option pg_err :=
  let '(p, e, pos) := pg_find (pg_get w d) og in
  match e with
  | Some _ => (pg_put w d p, e)
  | None => let '(p, e) := pg_erase_core p og pos in (pg_put w d p, e)
  end.

Inductive pg_op :=
| PoAddPage (d : bool) (h : pg_href) (first : bool)        (* QPDF::addPage *)
| PoHAddPage (d : bool) (h : pg_href) (first : bool)       (* QPDFPageDocumentHelper::addPage *)
| PoAddPageAt (d : bool) (h : pg_href) (before : bool) (r : pg_href)
| PoRemove (d : bool) (h : pg_href)
| PoShallowCopy (d : bool) (i : N)
| PoCopyForeign (d : bool) (h : pg_href)
| PoReplace (d : bool) (i : N) (v : pg_val)
| PoSwap (d : bool) (i j : N)
| PoRefresh (d : bool)
| PoPushInh (d : bool)
| PoGetPages (d : bool)
| PoFind (d : bool) (i : N)
| PoMakeIndirect (d : bool) (v : pg_val)
| PoReplaceInd (d : bool) (i : N) (h : pg_href)     (* replaceObject(i, an INDIRECT handle) *)
| PoReplaceReserved (d : bool) (i : N).             (* replaceObject(i, newReserved()); the reservation is then made null *)

Inductive pg_res :=
| PrOk
| PrId (i : N)
| PrDirect                      (* a direct (null) object was returned *)
| PrPages (l : list N)
| PrIdx (z : Z)
| PrErr (e : pg_err).

Definition pg_res_of (e : option pg_err) : pg_res := match e with Some x => PrErr x | None => PrOk end.

(* objgen used by findPage(handle): a direct handle has objgen (0,0) *)
Definition pg_og_of (w : pg_world) (h : pg_href) : N :=
  match pg_norm w h with PhObj _ i => i | PhDirect _ => 0 end.

(* QPDF::findPage(QPDFObjectHandle&) (repair 87382fd8): an indirect handle that is owned by ANOTHER QPDF is rejected
   (QPDFExc) before anything else happens; a direct handle has no owner and goes on with objgen (0,0) *)
Definition pg_foreign_handle (w : pg_world) (d : bool) (h : pg_href) : bool :=
  match pg_norm w h with PhObj b _ => negb (Bool.eqb b d) | PhDirect _ => false end.

Definition pg_step (w : pg_world) (o : pg_op) : pg_world * pg_res :=
  match o with
  | PoAddPage d h first =>
      if first then let '(w, e) := pg_insert w d h 0 in (w, pg_res_of e)
      else
        (* getRoot()["/Pages"]["/Count"].getIntValueAsInt() is evaluated before insert *)
        let p := pg_get w d in
        match pg_rv (pd_store p) (pg_hget (pd_store p) (pg_root_pages p) pgk_Count) with
        | PvInt c => let '(w, e) := pg_insert w d h c in (w, pg_res_of e)
        | _ => (w, PrErr PeUnm)
        end
  | PoHAddPage d h first =>
      if first then let '(w, e) := pg_insert w d h 0 in (w, pg_res_of e)
      else
        let '(p, e) := pg_all (pg_get w d) in
        let w := pg_put w d p in
        match e with
        | Some _ => (w, pg_res_of e)
        | None => let '(w, e) := pg_insert w d h (pg_len (pd_all p)) in (w, pg_res_of e)
        end
  | PoAddPageAt d h before r =>
      if pg_foreign_handle w d r then (w, PrErr PeQ) else
      let '(p, e, pos) := pg_find (pg_get w d) (pg_og_of w r) in
      let w := pg_put w d p in
      match e with
      | Some _ => (w, pg_res_of e)
      | None => let '(w, e) := pg_insert w d h (if before then pos else pos + 1)%Z in (w, pg_res_of e)
      end
  | PoRemove d h =>
      if pg_foreign_handle w d h then (w, PrErr PeQ) else
      let '(w, e) := pg_erase w d (pg_og_of w h) in (w, pg_res_of e)
  | PoShallowCopy d i =>
      let p := pg_get w d in
      match pg_lookup (pd_store p) i with
      | None => (w, PrErr PeUnm)
      | Some (PcStream _ _ _) => (w, PrErr PeRt)
      | Some (PcObj v) => let '(s, j) := pg_alloc (pd_store p) (PcObj v) in (pg_put w d (pd_with_store p s), PrId j)
      end
  | PoCopyForeign d h =>
      match pg_norm w h with
      | PhDirect _ => (w, PrErr PeLogic)
      | PhObj b i =>
          if Bool.eqb b d then (w, PrErr PeLogic)
          else
            let '(src, dst, e, r) := pg_copied (pg_get w b) (pg_get w d) i in
            let w := pg_put (pg_put w b src) d dst in
            match e with
            | Some x => (w, PrErr x)
            | None => (w, match r with PvRef l => PrId l | _ => PrDirect end)
            end
      end
  | PoReplace d i v =>
      let p := pg_get w d in
      (pg_put w d (pd_with_store p (pg_supd (pd_store p) i (PcObj v))), PrOk)
  | PoSwap d i j =>
      let p := pg_get w d in
      match pg_lookup (pd_store p) i, pg_lookup (pd_store p) j with
      | Some ci, Some cj => (pg_put w d (pd_with_store p (pg_supd (pg_supd (pd_store p) i cj) j ci)), PrOk)
      | _, _ => (w, PrErr PeUnm)
      end
  | PoRefresh d =>
      let '(p, e) := pg_update_cache (pg_get w d) in (pg_put w d p, pg_res_of e)
  | PoPushInh d =>
      let '(p, e) := pg_push (pg_get w d) false in (pg_put w d p, pg_res_of e)
  | PoGetPages d =>
      let '(p, e) := pg_all (pg_get w d) in
      (pg_put w d p, match e with Some x => PrErr x | None => PrPages (pd_all p) end)
  | PoFind d i =>
      let '(p, e, z) := pg_find (pg_get w d) i in
      (pg_put w d p, match e with Some x => PrErr x | None => PrIdx z end)
  | PoMakeIndirect d v =>
      let p := pg_get w d in
      let '(s, j) := pg_alloc (pd_store p) (PcObj v) in (pg_put w d (pd_with_store p s), PrId j)
  | PoReplaceInd d i h =>
      (* QPDF::replaceObject: "if (!oh || (oh.isIndirect() && !(oh.isStream() && oh.getObjGen() == og))) throw logic_error".
         getObject of an id that does not exist is a direct null: an ordinary replacement by null. *)
      let p := pg_get w d in
      match pg_norm w h with
      | PhDirect v => (pg_put w d (pd_with_store p (pg_supd (pd_store p) i (PcObj v))), PrOk)
      | PhObj b j =>
          if pg_is_stream (pd_store (pg_get w b)) (PvRef j) && (j =? i) then
            if Bool.eqb b d then
              (* the stream that already IS object i: updateCache moves the object into itself
                 (QPDFObject::move_to: "o->value = std::move(value); ... value = QPDF_Reference(o)"), the cached object
                 ends up as a reference to itself and the stream is gone *)
              (pg_put w d (pd_with_store p (pg_supd (pd_store p) i (PcObj (PvRef i)))), PrOk)
            else
              (* a stream of the OTHER document that happens to have the same number passes the test: the two
                 documents then share one object (not modelled) *)
              (w, PrErr PeUnm)
          else (w, PrErr PeLogic)
      end
  | PoReplaceReserved d i =>
      let p := pg_get w d in
      let '(s, _) := pg_alloc (pd_store p) (PcObj PvNull) in (pg_put w d (pd_with_store p s), PrErr PeLogic)
  end.

(* marker (/Mk) of an object, used by observations *)
Definition pg_marker (s : pg_store) (i : N) : option Z :=
  match pg_hget s (PvRef i) pgk_Mk with PvInt z => Some z | _ => None end.
