#!/usr/bin/env python3
# usage: tools/merge_manifest_fragment.py <ID> <their-branch>  - three-way merge of tools/manifest/<ID>.json during a conflicted merge:
# per field, the text both sides appended to the common base is concatenated (ours first); a side that rewrote the base keeps its rewrite.
import json, subprocess, sys, difflib
pid, br = sys.argv[1], sys.argv[2]
p = "tools/manifest/%s.json" % pid
def show(rev):
    return json.loads(subprocess.run(["git", "show", "%s:%s" % (rev, p)], capture_output=True, text=True, check=True).stdout)
base_rev = subprocess.run(["git", "merge-base", "HEAD", br], capture_output=True, text=True).stdout.strip()
b, o, t = show(base_rev), show("HEAD"), show(br)
out = {}
for k in o:
    bo, oo, tt = b.get(k, ""), o[k], t.get(k, o[k])
    if oo == tt or tt == bo:
        out[k] = oo
    elif oo == bo:
        out[k] = tt
    else:
        # common prefix of base and theirs; theirs' additions = everything after that prefix which is not in base
        sm = difflib.SequenceMatcher(None, bo, tt, autojunk=False)
        add = "".join(tt[j1:j2] for tag, i1, i2, j1, j2 in sm.get_opcodes() if tag in ("insert", "replace"))
        out[k] = oo.rstrip() + " " + add.strip()
json.dump(out, open(p, "w"), indent=1, ensure_ascii=False)
print("merged", p)
