(* Proofs for C12 (page ranges, collation, splitting, rotation). Statements are fixed;
   Props/Properties_C12.v re-exports them with `exact`. *)
From QV Require Import Base.Bytes Struct.NumRange Struct.RangeSpec Struct.PageOps.
From Coq Require Import Lia.

(* TODO-PROVE *)
Lemma numrange_spec_lemma : forall s max, nr_ok (parse_numrange s max) = range_spec s max.
Proof. Abort.

Lemma collate_refines_lemma : forall (A : Type) (sels : list (list A)) (cs : list nat),
  length cs = length sels -> Forall (fun c => 0 < c)%nat cs ->
  collate sels cs = collate_spec sels cs.
Proof. Abort.

(* every selected page appears exactly as often as it was selected: collation is a permutation *)
Lemma collate_perm_lemma : forall (A : Type) (sels : list (list A)) (cs : list nat),
  length cs = length sels -> Forall (fun c => 0 < c)%nat cs ->
  Permutation.Permutation (collate sels cs) (concat sels).
Proof. Abort.

Lemma split_concat_lemma : forall (A : Type) (n : nat) (ps : list A), (0 < n)%nat ->
  concat (split_pages n ps) = ps
  /\ Forall (fun c => 0 < length c <= n)%nat (split_pages n ps).
Proof. Abort.

Lemma rotate_mod360_lemma : forall old a rel r, (a mod 90 = 0)%Z ->
  rotate_angle old a rel = Some r ->
  let eff := if (old mod 90 =? 0)%Z then old else 0%Z in
  (r mod 360 = (if rel then eff + a else a) mod 360)%Z
  /\ ((-360 <= (if rel then eff + a else a))%Z -> (0 <= r < 360)%Z).
Proof. Abort.

Lemma rotate_rejects_lemma : forall old a rel, (a mod 90 <> 0)%Z -> rotate_angle old a rel = None.
Proof. Abort.
