// C18 driver: name/number trees through the public helper API.
//   nn <num|name> <threshold> <init> <ops>
// init : tree text  L[k=v,k=v]  |  I(<node><node>...)   (no /Limits: the driver computes valid ones
//        for every non-root node);   keys: decimal integers (number trees) or h<hex of the stored
//        string bytes> (name trees; the stored bytes may be PDFDoc or UTF-16BE with BOM)
// ops  : ';'-separated   i:<k>=<v> insert | r:<k> remove | f:<k> find | l:<k> find at-or-below |
//        b begin | e last | E end | n ++ | p -- | a:<k>=<v> iterator insertAfter | d iterator remove
//        (for name trees <k> in ops is h<hex of UTF-8>)
//        optional 5th argument <every>: the tree is dumped only after every <every>-th op and after the last ('#' otherwise)
// out  : per op  <result>@<dump>  joined by ';'
//        result: iterator state  k=v | end ; remove: R1:<v> | R0 ; w<n> appended when qpdf warned;
//        "err:<class>" when an exception escaped
//        dump  : node = <limits|_> then [k=v,...] if it has the items key and (...) if it has /Kids
//        keys in dumps of name trees are h<hex of getUTF8Value()> (kind "namespell": h<hex of the stored bytes>).
#include "drv.hh"
#include <qpdf/QPDF.hh>
#include <qpdf/QPDFExc.hh>
#include <qpdf/QPDFNameTreeObjectHelper.hh>
#include <qpdf/QPDFNumberTreeObjectHelper.hh>
#include <qpdf/QPDFObjectHandle.hh>
#include <qpdf/NNTree.hh>
#include <memory>
#include <stdexcept>

namespace
{
    struct Ctx
    {
        bool names;
        QPDF q;
        bool rawdump{false}; // kind "namespell": dumps show the stored bytes of the keys instead of their UTF-8 values
    };

    std::string key_text(Ctx& c, QPDFObjectHandle k)
    {
        if (c.names) {
            if (!k.isString()) return "?";
            std::string h = hex(c.rawdump ? k.getStringValue() : k.getUTF8Value());
            return "h" + (h == "-" ? std::string() : h);
        }
        if (!k.isInteger()) return "?";
        return std::to_string(k.getIntValue());
    }
    std::string val_text(QPDFObjectHandle v)
    {
        if (v.isInteger()) return std::to_string(v.getIntValue());
        return "?" + v.unparse();
    }

    QPDFObjectHandle parse_key(Ctx& c, std::string const& s, bool raw)
    {
        if (c.names) {
            std::string b = unhex(s.substr(1).empty() ? "-" : s.substr(1));
            return raw ? QPDFObjectHandle::newString(b) : QPDFObjectHandle::newUnicodeString(b);
        }
        return QPDFObjectHandle::newInteger(std::stoll(s));
    }

    // recursive-descent parser of the init text; returns a direct dictionary
    struct P
    {
        Ctx& c;
        std::string const& s;
        size_t i{0};
        QPDFObjectHandle node(bool root, QPDFObjectHandle* lo, QPDFObjectHandle* hi)
        {
            auto d = QPDFObjectHandle::newDictionary();
            // explicit form (the dump syntax): <lo~hi|_> then [..] or (..): /Limits exactly as written
            bool explicit_lim = false;
            QPDFObjectHandle xlo, xhi;
            if (s.at(i) != 'L' && s.at(i) != 'I') {
                explicit_lim = true;
                if (s.at(i) == '_') {
                    ++i;
                } else {
                    size_t e = s.find('~', i);
                    xlo = parse_key(c, s.substr(i, e - i), true);
                    size_t f = s.find_first_of("[(", e);
                    xhi = parse_key(c, s.substr(e + 1, f - e - 1), true);
                    i = f;
                }
                --i; // re-read the bracket as the node type
            }
            char t = s.at(i++);
            if (explicit_lim) {
                t = (s.at(i) == '[') ? 'L' : 'I';
            }
            QPDFObjectHandle first, last;
            if (t == 'L') {
                if (s.at(i++) != '[') throw std::runtime_error("init syntax");
                auto arr = QPDFObjectHandle::newArray();
                while (s.at(i) != ']') {
                    size_t e = s.find('=', i);
                    auto k = parse_key(c, s.substr(i, e - i), true);
                    size_t f = s.find_first_of(",]", e);
                    auto v = QPDFObjectHandle::newInteger(std::stoll(s.substr(e + 1, f - e - 1)));
                    arr.appendItem(k);
                    arr.appendItem(v);
                    if (!first) first = k;
                    last = k;
                    i = f;
                    if (s.at(i) == ',') ++i;
                }
                ++i;
                d.replaceKey(c.names ? "/Names" : "/Nums", arr);
            } else if (t == 'I') {
                if (s.at(i++) != '(') throw std::runtime_error("init syntax");
                auto arr = QPDFObjectHandle::newArray();
                while (s.at(i) != ')') {
                    QPDFObjectHandle l, h;
                    auto k = node(false, &l, &h);
                    arr.appendItem(c.q.makeIndirectObject(k));
                    if (!first) first = l;
                    last = h;
                }
                ++i;
                d.replaceKey("/Kids", arr);
            } else {
                throw std::runtime_error("init syntax");
            }
            if (explicit_lim) {
                if (xlo) {
                    auto lim = QPDFObjectHandle::newArray();
                    lim.appendItem(xlo);
                    lim.appendItem(xhi);
                    d.replaceKey("/Limits", lim);
                }
            } else if (!root && first && last) {
                auto lim = QPDFObjectHandle::newArray();
                lim.appendItem(first);
                lim.appendItem(last);
                d.replaceKey("/Limits", lim);
            }
            if (lo) *lo = first;
            if (hi) *hi = last;
            return d;
        }
    };

    void dump(Ctx& c, QPDFObjectHandle n, std::string& out, int depth)
    {
        if (depth > 40) { out += "?deep"; return; }
        if (!n.isDictionary()) { out += "?nondict"; return; }
        auto lim = n.getKey("/Limits");
        if (lim.isNull()) out += "_";
        else if (lim.isArray() && lim.getArrayNItems() == 2)
            out += key_text(c, lim.getArrayItem(0)) + "~" + key_text(c, lim.getArrayItem(1));
        else out += "?lim";
        char const* ik = c.names ? "/Names" : "/Nums";
        if (n.hasKey(ik)) {
            auto a = n.getKey(ik);
            out += "[";
            int sz = a.isArray() ? a.getArrayNItems() : -1;
            if (sz < 0) out += "?";
            for (int j = 0; j + 1 < sz; j += 2) {
                if (j) out += ",";
                out += key_text(c, a.getArrayItem(j)) + "=" + val_text(a.getArrayItem(j + 1));
            }
            if (sz > 0 && (sz & 1)) out += ",?odd";
            out += "]";
        }
        if (n.hasKey("/Kids")) {
            auto a = n.getKey("/Kids");
            out += "(";
            int sz = a.isArray() ? a.getArrayNItems() : -1;
            if (sz < 0) out += "?";
            for (int j = 0; j < sz; ++j) {
                auto k = a.getArrayItem(j);
                if (!k.isIndirect()) out += "?direct";
                dump(c, k, out, depth + 1);
            }
            out += ")";
        }
        for (auto const& k: n.getKeys()) {
            if (k != "/Limits" && k != "/Kids" && k != ik) out += "?key" + k;
        }
    }

    template <class H, class KeyOf>
    std::string run(Ctx& c, int threshold, std::string const& init, std::string const& ops, int every, KeyOf keyof)
    {
        P p{c, init};
        auto root = c.q.makeIndirectObject(p.node(true, nullptr, nullptr));
        H tree(root, c.q);
        tree.setSplitThreshold(threshold);
        auto cur = std::make_unique<typename H::iterator>(tree.end());
        std::string out;
        std::stringstream ss(ops);
        std::string op;
        bool first = true;
        size_t nops = 0, opno = 0;
        for (char ch: ops) nops += (ch == ';');
        ++nops;
        auto iter_text = [&](typename H::iterator& it) -> std::string {
            if (!it.valid()) return "end";
            auto& pr = *it;
            std::string k;
            if constexpr (std::is_same_v<H, QPDFNameTreeObjectHelper>) {
                std::string h = hex(pr.first);
                k = "h" + (h == "-" ? std::string() : h);
            } else {
                k = std::to_string(pr.first);
            }
            return k + "=" + val_text(pr.second);
        };
        while (std::getline(ss, op, ';')) {
            if (op.empty() || op == "-") continue;
            if (!first) out += ";";
            first = false;
            std::string res;
            try {
                char o = op[0];
                std::string ks, vs;
                if (op.size() > 2) {
                    size_t e = op.find('=');
                    ks = op.substr(2, e == std::string::npos ? std::string::npos : e - 2);
                    if (e != std::string::npos) vs = op.substr(e + 1);
                }
                switch (o) {
                case 'i':
                    cur = std::make_unique<typename H::iterator>(
                        tree.insert(keyof(ks), QPDFObjectHandle::newInteger(std::stoll(vs))));
                    res = iter_text(*cur);
                    break;
                case 'r': {
                    QPDFObjectHandle v;
                    bool r = tree.remove(keyof(ks), &v);
                    res = r ? "R1:" + val_text(v) : "R0";
                    cur = std::make_unique<typename H::iterator>(tree.end());
                    break;
                }
                case 'f':
                    cur = std::make_unique<typename H::iterator>(tree.find(keyof(ks), false));
                    res = iter_text(*cur);
                    break;
                case 'l':
                    cur = std::make_unique<typename H::iterator>(tree.find(keyof(ks), true));
                    res = iter_text(*cur);
                    break;
                case 'b':
                    cur = std::make_unique<typename H::iterator>(tree.begin());
                    res = iter_text(*cur);
                    break;
                case 'e':
                    cur = std::make_unique<typename H::iterator>(tree.last());
                    res = iter_text(*cur);
                    break;
                case 'E':
                    cur = std::make_unique<typename H::iterator>(tree.end());
                    res = iter_text(*cur);
                    break;
                case 'n':
                    ++(*cur);
                    res = iter_text(*cur);
                    break;
                case 'p':
                    --(*cur);
                    res = iter_text(*cur);
                    break;
                case 'a':
                    cur->insertAfter(keyof(ks), QPDFObjectHandle::newInteger(std::stoll(vs)));
                    res = iter_text(*cur);
                    break;
                case 'd':
                    cur->remove();
                    res = iter_text(*cur);
                    break;
                default:
                    res = "?op";
                }
            } catch (QPDFExc const& e) {
                res = "err:qpdf";
            } catch (std::logic_error const& e) {
                res = "err:logic";
            } catch (std::exception const& e) {
                res = "err:other";
            }
            auto w = c.q.getWarnings();
            if (!w.empty()) res += "w" + std::to_string(w.size());
            out += res + "@";
            ++opno;
            if (every <= 1 || opno % static_cast<size_t>(every) == 0 || opno == nops) dump(c, root, out, 0);
            else out += "#";
        }
        return out;
    }
} // namespace

static Reg r_nn("nn", [](std::vector<std::string> const& a) -> std::string {
    Ctx c;
    // "nameraw": same as "name" (the stored keys of the starting tree are raw string bytes in either case); the
    // model side of these cases runs on the stored strings with the modelled compareKeys (Struct/NNKeys.v)
    c.names = a.at(0) == "name" || a.at(0) == "nameraw" || a.at(0) == "namespell";
    c.rawdump = a.at(0) == "namespell";
    c.q.emptyPDF();
    c.q.setSuppressWarnings(true);
    int t = std::stoi(a.at(1));
    int every = a.size() > 4 ? std::stoi(a.at(4)) : 1;
    if (c.names) {
        return run<QPDFNameTreeObjectHelper>(c, t, a.at(2), a.at(3), every, [](std::string const& s) {
            return unhex(s.size() > 1 ? s.substr(1) : std::string("-"));
        });
    }
    return run<QPDFNumberTreeObjectHelper>(c, t, a.at(2), a.at(3), every, [](std::string const& s) { return std::stoll(s); });
});

// nnrepair <num|name> <tree in dump syntax, possibly damaged> : validate(true) -> V<0|1>[w<n>]@<dump>
static Reg r_nnrepair("nnrepair", [](std::vector<std::string> const& a) -> std::string {
    Ctx c;
    c.names = a.at(0) == "name";
    c.q.emptyPDF();
    c.q.setSuppressWarnings(true);
    P p{c, a.at(1)};
    auto root = c.q.makeIndirectObject(p.node(true, nullptr, nullptr));
    bool ok;
    if (c.names) {
        QPDFNameTreeObjectHelper t(root, c.q);
        ok = t.validate(true);
    } else {
        QPDFNumberTreeObjectHelper t(root, c.q);
        ok = t.validate(true);
    }
    std::string out = ok ? "V1" : "V0";
    auto w = c.q.getWarnings();
    if (!w.empty()) out += "w" + std::to_string(w.size());
    out += "@";
    dump(c, root, out, 0);
    return out;
});


// ---------------------------------------------------------------------------------------------------------
// nncmp <h<hex>,h<hex>,...> : the key comparison of NAME trees on all ordered pairs of the given stored strings.
//   out: U:<hex of getUTF8Value() of every key, ','-separated> | C:<rows> | F:<rows>
//   C rows: NNTreeImpl::compareKeys(key_i, key_j) called directly ('<' '=' '>' ; '?' for any other value), rows joined by '/'
//   F rows: the same relation observed through the PUBLIC route: a one-entry name tree holding key_j (stored as given),
//           NNTreeImpl::find(key_i) exact and at-or-below:  end,end -> '<' ; found,found -> '=' ; end,found -> '>'
namespace
{
    // NNTreeImpl::compareKeys is private; naming a private member in an explicit instantiation is permitted
    // ([temp.spec]/6), which hands the member pointer to a friend declared here
    using CmpFn = int (NNTreeImpl::*)(QPDFObjectHandle, QPDFObjectHandle) const;
    CmpFn nk_get_cmp();
    template <CmpFn f>
    struct NkRob
    {
        friend CmpFn nk_get_cmp() { return f; }
    };
    template struct NkRob<&NNTreeImpl::compareKeys>;
} // namespace

static Reg r_nncmp("nncmp", [](std::vector<std::string> const& a) -> std::string {
    QPDF q;
    q.emptyPDF();
    q.setSuppressWarnings(true);
    std::vector<QPDFObjectHandle> keys;
    {
        std::stringstream ss(a.at(0));
        std::string k;
        while (std::getline(ss, k, ',')) {
            keys.push_back(QPDFObjectHandle::newString(unhex(k.size() > 1 ? k.substr(1) : std::string("-"))));
        }
    }
    std::string out = "U:";
    for (size_t i = 0; i < keys.size(); ++i) {
        std::string h = hex(keys[i].getUTF8Value());
        out += (i ? "," : "") + std::string("h") + (h == "-" ? std::string() : h);
    }
    auto ok = [](QPDFObjectHandle const& o) -> bool { return static_cast<bool>(o); };
    auto root0 = q.makeIndirectObject(QPDFObjectHandle::parse("<< /Names [] >>"));
    NNTreeImpl impl0(q, root0, ::ot_string, ok, false);
    CmpFn cmp = nk_get_cmp();
    out += "|C:";
    for (size_t i = 0; i < keys.size(); ++i) {
        if (i) out += "/";
        for (size_t j = 0; j < keys.size(); ++j) {
            int r = (impl0.*cmp)(keys[i], keys[j]);
            out += r == -1 ? '<' : (r == 0 ? '=' : (r == 1 ? '>' : '?'));
        }
    }
    out += "|F:";
    // one tree per stored key: filled column by column
    std::vector<std::string> rows(keys.size(), std::string(keys.size(), '?'));
    for (size_t j = 0; j < keys.size(); ++j) {
        auto d = QPDFObjectHandle::newDictionary();
        auto arr = QPDFObjectHandle::newArray();
        arr.appendItem(keys[j]);
        arr.appendItem(QPDFObjectHandle::newInteger(1));
        d.replaceKey("/Names", arr);
        auto root = q.makeIndirectObject(d);
        NNTreeImpl impl(q, root, ::ot_string, ok, false);
        for (size_t i = 0; i < keys.size(); ++i) {
            char c = '?';
            try {
                bool exact = impl.find(keys[i], false).valid();
                bool le = impl.find(keys[i], true).valid();
                c = (!exact && !le) ? '<' : ((exact && le) ? '=' : ((!exact && le) ? '>' : '?'));
            } catch (std::exception const&) {
                c = '!';
            }
            rows[i][j] = c;
        }
    }
    for (size_t i = 0; i < rows.size(); ++i) {
        out += (i ? "/" : "") + rows[i];
    }
    return out;
});
