(* C11 - --replace-input started in ANY directory (stale backups / temporary files of earlier runs, directories under
   the names the run uses) and as part of any job (warnings about the main input vs. warnings about other files):
   Sys/ReplaceDirModel.v over the sink model.  The invariant of Sys/C11Proofs.v never needed the directory to be
   empty: it only needs the input name to hold the original. *)
From QV Require Import Base.Bytes Sys.StdioModel Sys.StdioProofs Sys.SinkModel Sys.OutputSpec Sys.C10Proofs Sys.C11Proofs.
From QV Require Import Sys.ReplaceDirModel Sys.ReplaceDirSpec.
From Coq Require Import Arith Lia.
Local Open Scope nat_scope.

(* the four documented names are four different names *)
Definition c11d_names_ok (j : c11d_job) : Prop :=
  c11d_inp j <> c11d_kept j /\ c11d_inp j <> c11d_scratch j /\ c11d_inp j <> c11d_temp j /\
  c11d_kept j <> c11d_scratch j /\ c11d_kept j <> c11d_temp j /\ c11d_scratch j <> c11d_temp j.

Lemma c11d_names_backup j : c11d_names_ok j ->
  c11d_inp j <> c11d_backup j /\ c11d_inp j <> c11d_temp j /\ c11d_backup j <> c11d_temp j.
Proof. intros (A & B & C & D & E & F). unfold c11d_backup. destruct (c11d_warned j); auto. Qed.

(* what the directory held under a name before the run *)
Fixpoint c11d_pre_lookup (pre : list (nat * list N)) (m : nat) : option (list N) :=
  match pre with
  | [] => None
  | (n, c) :: tl => if Nat.eqb n m then Some c else c11d_pre_lookup tl m
  end.

Lemma c11d_initial_inp inp orig pre : c10_at (c11d_initial inp orig pre) inp = Some (sio_static orig).
Proof. unfold c10_at, c11d_initial. simpl. rewrite Nat.eqb_refl. reflexivity. Qed.
Lemma c11d_initial_other inp orig pre m : m <> inp ->
  c10_at (c11d_initial inp orig pre) m = option_map sio_static (c11d_pre_lookup pre m).
Proof.
  intros Hm. unfold c10_at, c11d_initial. simpl. destruct (Nat.eqb inp m) eqn:E; [apply Nat.eqb_eq in E; congruence|].
  induction pre as [|[n c] tl IH]; simpl; [reflexivity|]. destruct (Nat.eqb n m); [reflexivity|exact IH].
Qed.

(* ---- a blocked path operation changes nothing *)
Lemma c11d_blocked_dir en ev w : cw_dir (c10_world_of (c11d_blocked en ev w)) = cw_dir w.
Proof. unfold c11d_blocked. simpl. destruct (c10_is_killb _); [reflexivity|]. destruct (c10_is_killa _); reflexivity. Qed.
Lemma c11d_blocked_cases en ev w :
  c11d_blocked en ev w = RDead (c10_world_of (c11d_blocked en ev w)) \/
  c11d_blocked en ev w = ROk false (c10_world_of (c11d_blocked en ev w)).
Proof. unfold c11d_blocked. simpl. destruct (c10_is_killb _); [left; reflexivity|]. destruct (c10_is_killa _); [left|right]; reflexivity. Qed.

(* ---- the run as a function of the three cases: temporary name blocked, backup name blocked, nothing blocked *)
Lemma c11d_replace_unblocked en dirs j w :
  c11d_is_dir dirs (c11d_temp j) = false -> c11d_is_dir dirs (c11d_backup j) = false -> c11d_is_dir dirs (c11d_inp j) = false ->
  c11d_replace en dirs j w = c10_replace en (c11d_warned j) (c11d_inp j) (c11d_backup j) (c11d_temp j) (c11d_chunks j) w.
Proof.
  intros Ht Hb Hi. unfold c11d_replace, c10_replace, c11d_writer_file, c11d_rename. rewrite Ht, Hb, Hi. reflexivity.
Qed.

(* every name but the temporary one keeps its file through the run of the writer, whatever happens *)
Lemma c11d_kp_writer_file en dirs name chunks w m :
  m <> name -> c10_at (c10_world_of (c11d_writer_file en dirs name chunks w)) m = c10_at w m.
Proof.
  intros Hm. unfold c11d_writer_file. destruct (c11d_is_dir dirs name); [|apply c10_kp_writer_file; exact Hm].
  pose proof (c11d_blocked_dir en (EvOpen name false) w) as Hd.
  destruct (c11d_blocked en (EvOpen name false) w) as [ok w1|e w1|w1]; simpl in *; unfold c10_at; rewrite Hd; reflexivity.
Qed.
Lemma c11d_writer_file_ok en dirs name chunks w w' :
  c11d_writer_file en dirs name chunks w = ROk tt w' ->
  c11d_is_dir dirs name = false /\ c10_writer_file en name chunks w = ROk tt w'.
Proof.
  unfold c11d_writer_file. destruct (c11d_is_dir dirs name); [|auto].
  destruct (c11d_blocked_cases en (EvOpen name false) w) as [H|H]; rewrite H; simpl; discriminate.
Qed.

(* rename in this model, every outcome: as c10_rename_all *)
Lemma c11d_rename_all en dirs a b w :
  a <> b ->
  let r := c11d_rename en dirs a b w in
  (cw_dir (c10_world_of r) = cw_dir w /\ (r = RDead (c10_world_of r) \/ r = ROk false (c10_world_of r))) \/
  (exists f, c10_at w a = Some f /\ c10_at (c10_world_of r) b = Some f /\ c10_at (c10_world_of r) a = None /\
             (forall m, m <> a -> m <> b -> c10_at (c10_world_of r) m = c10_at w m) /\
             (r = RDead (c10_world_of r) \/ r = ROk true (c10_world_of r))).
Proof.
  intros Hab. unfold c11d_rename. destruct (c11d_is_dir dirs b); [|apply c10_rename_all; exact Hab].
  left. split; [apply c11d_blocked_dir|apply c11d_blocked_cases].
Qed.

(* ---- the invariant, from any directory in which the input name holds the original *)
Lemma c11d_replace_inv en dirs j w orig :
  ck_finish (en_ck en) = true -> c11d_names_ok j ->
  c10_at w (c11d_inp j) = Some (sio_static orig) ->
  c11_inv orig (concat (c11d_chunks j)) (c11d_inp j) (c11d_backup j) (c10_world_of (c11d_replace en dirs j w)).
Proof.
  intros Hck Hn Horig. destruct (c11d_names_backup j Hn) as (Hib & Hit & Hbt). unfold c11d_replace.
  set (inp := c11d_inp j) in *. set (backup := c11d_backup j) in *. set (temp := c11d_temp j) in *. set (chunks := c11d_chunks j).
  pose proof (c11d_kp_writer_file en dirs temp chunks w inp Hit) as K0. rewrite Horig in K0.
  destruct (c11d_writer_file en dirs temp chunks w) as [[] w1|e w1|w1] eqn:Hw; simpl in *; try (left; exact K0).
  destruct (c11d_writer_file_ok _ _ _ _ _ _ Hw) as (_ & Hw').
  destruct (c10_writer_file_complete _ _ _ _ _ Hck Hw') as ((ft & Hft & Hop & _ & _ & Hdisk) & _).
  pose proof (c11d_rename_all en dirs inp backup w1 Hib) as R1. simpl in R1.
  destruct R1 as [(Hd & [Hr|Hr])|(f1 & A1 & A2 & A3 & A4 & Hr)].
  - rewrite Hr. simpl. left. unfold c10_at. rewrite Hd. exact K0.
  - rewrite Hr. simpl. left. unfold c10_at. rewrite Hd. exact K0.
  - rewrite K0 in A1. inversion A1; subst f1; clear A1.
    destruct Hr as [Hr|Hr]; rewrite Hr; simpl; [right; left; split; [exact A3|exact A2]|].
    set (w2 := c10_world_of (c11d_rename en dirs inp backup w1)) in *.
    assert (Hti : temp <> inp) by auto.
    pose proof (c11d_rename_all en dirs temp inp w2 Hti) as R2. simpl in R2.
    destruct R2 as [(Hd & [Hr2|Hr2])|(f2 & B1 & B2 & B3 & B4 & Hr2)].
    + rewrite Hr2. simpl. right; left. unfold c10_at. rewrite Hd. split; [exact A3|exact A2].
    + rewrite Hr2. simpl. right; left. unfold c10_at. rewrite Hd. split; [exact A3|exact A2].
    + rewrite A4 in B1 by auto. rewrite Hft in B1. inversion B1; subst f2; clear B1.
      assert (Hnew : forall w', c10_at w' inp = Some ft -> c11_inv orig (concat chunks) inp backup w').
      { intros w' H. right; right. exists ft. auto. }
      destruct Hr2 as [Hr2|Hr2]; rewrite Hr2; simpl; [apply Hnew; exact B2|].
      set (w3 := c10_world_of (c11d_rename en dirs temp inp w2)) in *.
      destruct (c11d_warned j); simpl; [apply Hnew; exact B2|].
      pose proof (c10_kp_unlink en backup w3 inp Hib) as U.
      destruct (c10_unlink en backup w3) as [ok3 w4|e4 w4|w4]; simpl in *.
      * apply Hnew. destruct ok3; simpl; rewrite ?c10_at_say; rewrite U; exact B2.
      * apply Hnew. rewrite U; exact B2.
      * apply Hnew. rewrite U; exact B2.
Qed.

(* a normal return: nothing was blocked, and the run is the run of the sink model *)
Lemma c11d_replace_ok en dirs j w w' :
  c11d_names_ok j -> c11d_replace en dirs j w = ROk tt w' ->
  c10_replace en (c11d_warned j) (c11d_inp j) (c11d_backup j) (c11d_temp j) (c11d_chunks j) w = ROk tt w'.
Proof.
  intros Hn H. unfold c11d_replace in H. unfold c10_replace.
  destruct (c11d_writer_file en dirs (c11d_temp j) (c11d_chunks j) w) as [[] w1|e w1|w1] eqn:Hw; simpl in H; try discriminate.
  destruct (c11d_writer_file_ok _ _ _ _ _ _ Hw) as (_ & Hw'). rewrite Hw'. simpl.
  unfold c11d_rename in H.
  destruct (c11d_is_dir dirs (c11d_backup j)).
  { exfalso. destruct (c11d_blocked_cases en (EvRename (c11d_inp j) (c11d_backup j) false) w1) as [E|E]; rewrite E in H; simpl in H; discriminate. }
  destruct (c10_rename en (c11d_inp j) (c11d_backup j) w1) as [ok1 w2|e2 w2|w2]; simpl in *; try discriminate.
  destruct ok1; simpl in *; [|discriminate].
  destruct (c11d_is_dir dirs (c11d_inp j)).
  { exfalso. destruct (c11d_blocked_cases en (EvRename (c11d_temp j) (c11d_inp j) false) w2) as [E|E]; rewrite E in H; simpl in H; discriminate. }
  exact H.
Qed.

(* an exception: the original is under the input name or under the backup name *)
Lemma c11d_replace_exc en dirs j w orig e w' :
  c11d_names_ok j ->
  c10_at w (c11d_inp j) = Some (sio_static orig) ->
  c11d_replace en dirs j w = RExc e w' ->
  c10_at w' (c11d_inp j) = Some (sio_static orig) \/ c10_at w' (c11d_backup j) = Some (sio_static orig).
Proof.
  intros Hn Horig H. destruct (c11d_names_backup j Hn) as (Hib & Hit & Hbt). unfold c11d_replace in H.
  set (inp := c11d_inp j) in *. set (backup := c11d_backup j) in *. set (temp := c11d_temp j) in *. set (chunks := c11d_chunks j) in *.
  pose proof (c11d_kp_writer_file en dirs temp chunks w inp Hit) as K0. rewrite Horig in K0.
  destruct (c11d_writer_file en dirs temp chunks w) as [[] w1|e1 w1|w1] eqn:Hw; simpl in *; try discriminate.
  2:{ inversion H; subst. left. exact K0. }
  pose proof (c11d_rename_all en dirs inp backup w1 Hib) as R1. simpl in R1.
  destruct (c11d_rename en dirs inp backup w1) as [ok1 w2|e2 w2|w2] eqn:Hr1; simpl in *; try discriminate.
  2:{ exfalso. destruct R1 as [(_ & [Hr|Hr])|(f1 & _ & _ & _ & _ & [Hr|Hr])]; discriminate Hr. }
  destruct R1 as [(Hd & [Hr|Hr])|(f1 & A1 & A2 & A3 & A4 & [Hr|Hr])]; try discriminate; inversion Hr; subst ok1; simpl in *.
  - inversion H; subst. left. unfold c10_at. rewrite Hd. exact K0.
  - rewrite K0 in A1. inversion A1; subst f1; clear A1.
    pose proof (c11d_rename_all en dirs temp inp w2 (not_eq_sym Hit)) as R2. simpl in R2.
    destruct (c11d_rename en dirs temp inp w2) as [ok2 w3|e3 w3|w3] eqn:Hr2; simpl in *; try discriminate.
    2:{ exfalso. destruct R2 as [(_ & [Hq|Hq])|(f2 & _ & _ & _ & _ & [Hq|Hq])]; discriminate Hq. }
    destruct R2 as [(Hd & [Hq|Hq])|(f2 & B1 & B2 & B3 & B4 & [Hq|Hq])]; try discriminate; inversion Hq; subst ok2; simpl in *.
    + inversion H; subst. right. unfold c10_at. rewrite Hd. exact A2.
    + destruct (c11d_warned j); simpl in *; [discriminate|].
      destruct (c10_unlink en backup w3) as [ok3 w4|e4 w4|w4] eqn:Hu; simpl in *; try discriminate.
      exfalso. unfold c10_unlink in Hu. simpl in Hu. destruct (c10_is_killb _); [discriminate|].
      destruct (c10_path_fails _); [discriminate|]. destruct (c10_is_killa _); discriminate.
Qed.

(* every name the run does not use keeps its file, whatever happens *)
Lemma c11d_kp_rename en dirs a b w m : a <> b -> m <> a -> m <> b ->
  c10_at (c10_world_of (c11d_rename en dirs a b w)) m = c10_at w m.
Proof.
  intros Hab Ha Hb. pose proof (c11d_rename_all en dirs a b w Hab) as R. simpl in R.
  destruct R as [(Hd & _)|(f & _ & _ & _ & A4 & _)]; [unfold c10_at; rewrite Hd; reflexivity|apply A4; auto].
Qed.
Lemma c11d_kp_replace en dirs j w m :
  c11d_names_ok j -> m <> c11d_inp j -> m <> c11d_backup j -> m <> c11d_temp j ->
  c10_at (c10_world_of (c11d_replace en dirs j w)) m = c10_at w m.
Proof.
  intros Hn Hi Hb Ht. destruct (c11d_names_backup j Hn) as (Hib & Hit & Hbt). unfold c11d_replace.
  apply c10_kp_bind; [apply c11d_kp_writer_file; exact Ht|]. intros _ w1 H1.
  apply c10_kp_bind; [rewrite c11d_kp_rename by auto; exact H1|]. intros ok1 w2 H2.
  destruct ok1; simpl; [|exact H2].
  apply c10_kp_bind; [rewrite c11d_kp_rename by auto; exact H2|]. intros ok2 w3 H3.
  destruct ok2; simpl; [|exact H3].
  destruct (c11d_warned j); simpl; [exact H3|].
  apply c10_kp_bind; [rewrite c10_kp_unlink by auto; exact H3|]. intros ok3 w4 H4.
  destruct ok3; simpl; exact H4.
Qed.

(* ---- what an observer finds *)
Lemma c11d_file_of_flush code w m :
  c10_file_of (mk_result code (c10_exit_flush_all w)) m = option_map (fun f => sio_disk (sio_exit_flush f)) (c10_at w m).
Proof. unfold c10_file_of, c10_exit_flush_all, c10_at. simpl. rewrite c10_lookup_map. destruct (c10_lookup (cw_dir w) m); reflexivity. Qed.
Lemma c11d_file_of_dead w m : c10_file_of (mk_result None w) m = option_map sio_disk (c10_at w m).
Proof. unfold c10_file_of, c10_at. simpl. destruct (c10_lookup (cw_dir w) m); reflexivity. Qed.

(* C11, first sentence, for EVERY directory the run can start in: whatever files earlier runs left under
   <in>.~qpdf-orig, <in>.~qpdf-orig#, <in>.~qpdf-temp# (pre), whichever of these names are directories (dirs), for every
   fault oracle (any operation failing, the process killed before or after any operation), buffer size, data and
   file-size limit, whatever the run ends as: a complete copy of the original of THIS run or of the new file is under
   the input name, the backup name or the temporary name, and the input name is bound to the original, to the complete
   new file or to nothing.  (A stale backup is not the original: c11_dir_of compares with `orig`.) *)
Lemma replace_any_dir_atomic_lemma : forall en wx0 dirs j orig pre,
  ck_finish (en_ck en) = true -> c11d_names_ok j ->
  c11_safe (c11_dir_of (c11d_run en wx0 dirs j orig pre) orig (concat (c11d_chunks j))
                       (c11d_inp j) (c11d_backup j) (c11d_temp j)) = true.
Proof.
  intros en wx0 dirs j orig pre Hck Hn. destruct (c11d_names_backup j Hn) as (Hib & _ & _). unfold c11d_run.
  pose proof (c11d_replace_inv en dirs j (c11d_initial (c11d_inp j) orig pre) orig Hck Hn (c11d_initial_inp _ _ _)) as Hinv.
  destruct (c11d_replace en dirs j _) as [[] w1|e w1|w1]; simpl in *.
  - apply (c11_inv_safe _ _ _ _ _ _ true); auto. destruct ((c11d_wmain j || c11d_wother j) && negb (c11d_quiet j)); exact Hinv.
  - apply (c11_inv_safe _ _ _ _ _ _ true); auto.
  - apply (c11_inv_safe _ _ _ _ _ _ false); auto.
Qed.

(* C11, second sentence, for every directory the run can start in: exit status 0 or 3 means the complete new file
   under the input name, nothing under the temporary name (a stale temporary file is gone too), and under the backup
   name of this run the original of THIS run (always when the job had warnings; otherwise only if its removal
   failed) or nothing: a stale backup under that name has been replaced. *)
Lemma replace_any_dir_final_lemma : forall en wx0 dirs j orig pre,
  ck_finish (en_ck en) = true -> c11d_names_ok j ->
  let r := c11d_run en wx0 dirs j orig pre in
  (rs_exit r = Some 0 \/ rs_exit r = Some 3) ->
  c10_file_of r (c11d_inp j) = Some (concat (c11d_chunks j)) /\ c10_file_of r (c11d_temp j) = None /\
  (c10_file_of r (c11d_backup j) = Some orig \/ (c11d_warned j = false /\ c10_file_of r (c11d_backup j) = None)).
Proof.
  intros en wx0 dirs j orig pre Hck Hn r Hx. subst r. destruct (c11d_names_backup j Hn) as (Hib & Hit & Hbt).
  unfold c11d_run in *.
  destruct (c11d_replace en dirs j _) as [[] w1|e w1|w1] eqn:Hw; simpl in *; try (destruct Hx; discriminate).
  pose proof (c11d_replace_ok _ _ _ _ _ Hn Hw) as Hw'.
  destruct (c10_replace_complete _ _ _ _ _ _ _ _ _ Hck Hib Hit Hbt (c11d_initial_inp _ _ _) Hw') as (Hcl & Ht & Hb).
  set (w1' := if (c11d_wmain j || c11d_wother j) && negb (c11d_quiet j) then c10_say w1 DgWarn else w1).
  assert (Hat : forall m, c10_at w1' m = c10_at w1 m)
    by (intros m; subst w1'; destruct ((c11d_wmain j || c11d_wother j) && negb (c11d_quiet j)); reflexivity).
  split; [|split].
  - apply c10_file_of_clean. destruct Hcl as (f & Hf & Hr). exists f. rewrite Hat. split; [exact Hf|exact Hr].
  - apply c11_file_of_absent. rewrite Hat. exact Ht.
  - destruct Hb as [Hb|[Hwn Hb]].
    + left. apply c11_file_of_static. rewrite Hat. exact Hb.
    + right. split; [exact Hwn|]. apply c11_file_of_absent. rewrite Hat. exact Hb.
Qed.

(* C11, third sentence, for every directory the run can start in: exit status 2 leaves the original of THIS run under
   the input name or under the backup name - whatever was under the backup name before. *)
Lemma replace_any_dir_failure_lemma : forall en wx0 dirs j orig pre,
  c11d_names_ok j ->
  let r := c11d_run en wx0 dirs j orig pre in
  rs_exit r = Some 2 ->
  c10_file_of r (c11d_inp j) = Some orig \/ c10_file_of r (c11d_backup j) = Some orig.
Proof.
  intros en wx0 dirs j orig pre Hn r Hx. subst r. unfold c11d_run in *.
  destruct (c11d_replace en dirs j _) as [[] w1|e w1|w1] eqn:Hw; simpl in *; try discriminate.
  { destruct (c11d_wmain j || c11d_wother j); destruct wx0; discriminate. }
  destruct (c11d_replace_exc _ _ _ _ _ _ _ Hn (c11d_initial_inp _ _ _) Hw) as [H|H].
  - left. apply c11_file_of_static. rewrite c10_at_say. exact H.
  - right. apply c11_file_of_static. rewrite c10_at_say. exact H.
Qed.

(* Frame: a name the run does not use - the backup name of the other kind, any other file of the directory - holds
   after the run (or after the kill) exactly what it held before. *)
Lemma replace_any_dir_frame_lemma : forall en wx0 dirs j orig pre m,
  c11d_names_ok j -> m <> c11d_inp j -> m <> c11d_backup j -> m <> c11d_temp j ->
  c10_file_of (c11d_run en wx0 dirs j orig pre) m = c11d_pre_lookup pre m.
Proof.
  intros en wx0 dirs j orig pre m Hn Hi Hb Ht. unfold c11d_run.
  pose proof (c11d_kp_replace en dirs j (c11d_initial (c11d_inp j) orig pre) m Hn Hi Hb Ht) as K.
  rewrite c11d_initial_other in K by exact Hi.
  assert (Hs : forall c, sio_disk (sio_exit_flush (sio_static c)) = c) by (intros c; unfold sio_exit_flush; simpl; apply c11_static_disk).
  destruct (c11d_replace en dirs j _) as [[] w1|e w1|w1]; simpl in K.
  - rewrite c11d_file_of_flush. assert (E : c10_at (if (c11d_wmain j || c11d_wother j) && negb (c11d_quiet j) then c10_say w1 DgWarn else w1) m = c10_at w1 m)
      by (destruct ((c11d_wmain j || c11d_wother j) && negb (c11d_quiet j)); reflexivity).
    rewrite E, K. destruct (c11d_pre_lookup pre m); simpl; [rewrite Hs|]; reflexivity.
  - rewrite c11d_file_of_flush, c10_at_say, K. destruct (c11d_pre_lookup pre m); simpl; [rewrite Hs|]; reflexivity.
  - rewrite c11d_file_of_dead, K. destruct (c11d_pre_lookup pre m); simpl; [rewrite c11_static_disk|]; reflexivity.
Qed.

(* "With warnings the original is kept as <name>.~qpdf-orig", for every initial directory and every job: warnings about
   the main input or about any other file the job processed (the latter since /repo PENDING11; before it the statement held
   for the main input only - replace_warned_keeps_original_partial - and replace_warned_keeps_original_refuted was the
   theorem for the other files: finding C11-F1-warnings-about-other-files). *)
Lemma replace_warned_keeps_original_lemma : forall en wx0 dirs j orig pre,
  ck_finish (en_ck en) = true -> c11d_names_ok j -> c11d_warned j = true ->
  let r := c11d_run en wx0 dirs j orig pre in
  (rs_exit r = Some 0 \/ rs_exit r = Some 3) ->
  c10_file_of r (c11d_kept j) = Some orig /\ c10_file_of r (c11d_inp j) = Some (concat (c11d_chunks j)).
Proof.
  intros en wx0 dirs j orig pre Hck Hn Hw r Hx.
  destruct (replace_any_dir_final_lemma en wx0 dirs j orig pre Hck Hn Hx) as (Hi & _ & Hb).
  unfold c11d_backup in Hb. rewrite Hw in Hb. split; [|exact Hi].
  destruct Hb as [Hb|[Hf _]]; [exact Hb|discriminate].
Qed.

(* exit status 3 is only reported with warnings, so: exit status 3 means the original is kept *)
Lemma replace_exit3_keeps_original_lemma : forall en wx0 dirs j orig pre,
  ck_finish (en_ck en) = true -> c11d_names_ok j ->
  let r := c11d_run en wx0 dirs j orig pre in
  rs_exit r = Some 3 -> c10_file_of r (c11d_kept j) = Some orig.
Proof.
  intros en wx0 dirs j orig pre Hck Hn r Hx.
  assert (Hw : c11d_warned j = true).
  { subst r. unfold c11d_run in Hx. unfold c11d_warned. destruct (c11d_replace en dirs j _) as [[] w1|e w1|w1]; simpl in Hx; try discriminate.
    destruct (c11d_wmain j || c11d_wother j); [reflexivity|]. simpl in Hx. discriminate. }
  apply (replace_warned_keeps_original_lemma en wx0 dirs j orig pre Hck Hn Hw). right. exact Hx.
Qed.

(* pinned on the former witness of replace_warned_keeps_original_refuted (clean main input, warnings about another
   file): exit status 3, the original kept as <in>.~qpdf-orig, nothing under the other names *)
Lemma replace_warned_other_file_witness_lemma :
  let en := mk_env 4096 (fun _ => FaNone) None 2 c10_repaired 0 None in
  let j := mk_c11d_job 1 2 4 3 false true false [[37; 80; 68; 70]%N; [10]%N] in
  let r := c11d_run en false [] j [111; 114; 105; 103]%N [] in
  rs_exit r = Some 3 /\ c10_file_of r (c11d_kept j) = Some [111; 114; 105; 103]%N /\ c10_file_of r (c11d_scratch j) = None /\
  c10_file_of r (c11d_temp j) = None /\ c10_file_of r (c11d_inp j) = Some (concat (c11d_chunks j)).
Proof. repeat split; vm_compute; reflexivity. Qed.

(* started in a directory that holds only the input, with no directory in the way and no warnings about other files,
   this model is the --replace-input scenario of the sink model (Properties_C10 / the theorems above this file) *)
Lemma replace_any_dir_agrees_lemma : forall en wx0 inp kept scratch temp warn chunks orig,
  c11d_run en wx0 [] (mk_c11d_job inp kept scratch temp warn false false chunks) orig [] =
  c10_run en warn wx0 (ScReplace inp (if warn then kept else scratch) temp chunks) orig.
Proof.
  intros. rewrite (c10_run_writer_scen en warn wx0 (ScReplace inp (if warn then kept else scratch) temp chunks) orig eq_refl).
  unfold c11d_run. rewrite c11d_replace_unblocked by reflexivity. simpl.
  unfold c11d_backup, c11d_warned. simpl. rewrite !orb_false_r.
  change (c11d_initial inp orig []) with (c10_initial en (ScReplace inp (if warn then kept else scratch) temp chunks) orig).
  destruct (c10_replace en warn inp (if warn then kept else scratch) temp chunks _) as [[] w1|e w1|w1]; simpl; try reflexivity.
  rewrite !orb_false_r, !andb_true_r. reflexivity.
Qed.
