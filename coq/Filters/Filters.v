(* Models of qpdf's stream-filter pipelines, written from libqpdf/Pl_*.cc.
   Each pipeline is a state machine  init / write chunk / finish ; [run] feeds a list of
   chunks, exactly like successive Pipeline::write calls followed by finish().
   A result is (bytes handed to the next pipeline so far, error flag): when the C++ throws,
   what was already written downstream stays written. *)
From QV Require Import Base.Bytes.
Local Open Scope N_scope.

Definition fres : Type := list N * bool.     (* output, error? *)

(* ---------- generic byte-at-a-time pipelines (for (i = 0; i < len; ++i) loops) ---------- *)
Section ByteWise.
  Variable S : Type.
  Variable step : S -> N -> S * list N * bool.   (* new state, output, threw? *)

  Fixpoint write_bytes (s : S) (data : list N) : S * list N * bool :=
    match data with
    | [] => (s, [], false)
    | b :: t =>
        let '(s1, o1, e1) := step s b in
        if e1 then (s1, o1, true)
        else let '(s2, o2, e2) := write_bytes s1 t in (s2, o1 ++ o2, e2)
    end.

  Fixpoint run_chunks (s : S) (chunks : list (list N)) : S * list N * bool :=
    match chunks with
    | [] => (s, [], false)
    | c :: cs =>
        let '(s1, o1, e1) := write_bytes s c in
        if e1 then (s1, o1, true)
        else let '(s2, o2, e2) := run_chunks s1 cs in (s2, o1 ++ o2, e2)
    end.
End ByteWise.
Arguments write_bytes {S}.
Arguments run_chunks {S}.

(* ================= Pl_ASCIIHexDecoder ================= *)
Record ahx_st := { ahx_eod : bool; ahx_pos : N; ahx_c0 : N; ahx_c1 : N }.
Definition ahx_init := {| ahx_eod := false; ahx_pos := 0; ahx_c0 := 48; ahx_c1 := 48 |}.

Definition c_toupper (b : N) : N := if (97 <=? b) && (b <=? 122) then b - 32 else b.
Definition hexdig_val (c : N) : N := if 65 <=? c then c - 65 + 10 else c - 48.

(* flush(): returns new state and output *)
Definition ahx_flush (s : ahx_st) : ahx_st * list N :=
  if ahx_pos s =? 0 then (s, [])
  else ({| ahx_eod := ahx_eod s; ahx_pos := 0; ahx_c0 := 48; ahx_c1 := 48 |},
        [ (hexdig_val (ahx_c0 s) * 16 + hexdig_val (ahx_c1 s)) mod 256 ]).

Definition ahx_is_ws (ch : N) : bool :=
  (ch =? 32) || (ch =? 12) || (ch =? 11) || (ch =? 9) || (ch =? 13) || (ch =? 10).

Definition ahx_step (s : ahx_st) (b : N) : ahx_st * list N * bool :=
  if ahx_eod s then (s, [], false) else
  let ch := c_toupper b in
  if ahx_is_ws ch then (s, [], false)
  else if ch =? 62 then
    let (s', o) := ahx_flush {| ahx_eod := true; ahx_pos := ahx_pos s; ahx_c0 := ahx_c0 s; ahx_c1 := ahx_c1 s |} in
    (s', o, false)
  else if ((48 <=? ch) && (ch <=? 57)) || ((65 <=? ch) && (ch <=? 70)) then
    let s1 := if ahx_pos s =? 0
              then {| ahx_eod := false; ahx_pos := 1; ahx_c0 := ch; ahx_c1 := ahx_c1 s |}
              else {| ahx_eod := false; ahx_pos := 2; ahx_c0 := ahx_c0 s; ahx_c1 := ch |} in
    if ahx_pos s1 =? 2 then let (s2, o) := ahx_flush s1 in (s2, o, false) else (s1, [], false)
  else (s, [], true).

Definition ahx_run (chunks : list (list N)) : fres :=
  let '(s, o, e) := run_chunks ahx_step ahx_init chunks in
  if e then (o, true) else (o ++ snd (ahx_flush s), false).

(* ================= Pl_ASCII85Decoder ================= *)
Record a85_st := { a85_eod : N; a85_buf : list N (* pos = length *) }.
Definition a85_init := {| a85_eod := 0; a85_buf := [] |}.

Fixpoint pad_to (n : nat) (x : N) (l : list N) : list N :=
  match n with
  | O => []
  | S n' => match l with
            | [] => x :: pad_to n' x []
            | h :: t => h :: pad_to n' x t
            end
  end.

Definition be_bytes4 (v : N) : list N :=
  [ (v / 16777216) mod 256; (v / 65536) mod 256; (v / 256) mod 256; v mod 256 ].

(* flush(): unsigned long (64 bit) accumulator, low 32 bits stored big-endian, pos-1 bytes out *)
Definition a85_flush (buf : list N) : list N :=
  match buf with
  | [] => []
  | _ => let lval := fold_left (fun acc c => acc * 85 + (c - 33)) (pad_to 5 117 buf) 0 in
         firstn (length buf - 1) (be_bytes4 lval)
  end.

Definition a85_step (s : a85_st) (b : N) : a85_st * list N * bool :=
  if ahx_is_ws b then (s, [], false)
  else if 1 <? a85_eod s then (s, [], false)
  else if a85_eod s =? 1 then
    if negb (b =? 62) then (s, [], true)
    else ({| a85_eod := 2; a85_buf := [] |}, a85_flush (a85_buf s), false)
  else if b =? 126 then ({| a85_eod := 1; a85_buf := a85_buf s |}, [], false)
  else if b =? 122 then
    match a85_buf s with
    | [] => (s, [0; 0; 0; 0], false)
    | _ => (s, [], true)
    end
  else if (b <? 33) || (117 <? b) then (s, [], true)
  else
    let buf' := a85_buf s ++ [b] in
    if N.of_nat (length buf') =? 5 then ({| a85_eod := 0; a85_buf := [] |}, a85_flush buf', false)
    else ({| a85_eod := 0; a85_buf := buf' |}, [], false).

Definition a85_run (chunks : list (list N)) : fres :=
  let '(s, o, e) := run_chunks a85_step a85_init chunks in
  if e then (o, true) else (o ++ a85_flush (a85_buf s), false).

(* ================= Pl_RunLength ================= *)
Inductive rl_state := RlTop | RlCopying | RlRun.
Record rle_st := { rle_state : rl_state; rle_buf : list N (* m->buf[0..length) *) }.
Definition rle_init := {| rle_state := RlTop; rle_buf := [] |}.
Definition lenNb {A} (l : list A) : N := N.of_nat (length l).

Definition rl_is_run (s : rl_state) : bool := match s with RlRun => true | _ => false end.
Definition rl_is_copying (s : rl_state) : bool := match s with RlCopying => true | _ => false end.

(* flush_encode: output; state becomes (top, []) *)
Definition rle_flush_out (s : rle_st) : list N :=
  match rle_buf s with
  | [] => []
  | b0 :: _ =>
      if rl_is_run (rle_state s) then [ (257 - lenNb (rle_buf s)) mod 256; b0 ]
      else (lenNb (rle_buf s) - 1) :: rle_buf s
  end.

Definition rle_step (s : rle_st) (ch : N) : rle_st * list N * bool :=
  let len := lenNb (rle_buf s) in
  if (0 <? len) && (rl_is_copying (rle_state s) || (len <? 128)) && (last (rle_buf s) 256 =? ch) then
    if rl_is_copying (rle_state s) then
      (* --length; flush_encode(); buf[0] = ch; length = 1; then state = run; buf[length++] = ch *)
      let out := rle_flush_out {| rle_state := RlCopying; rle_buf := removelast (rle_buf s) |} in
      ({| rle_state := RlRun; rle_buf := [ch; ch] |}, out, false)
    else ({| rle_state := RlRun; rle_buf := rle_buf s ++ [ch] |}, [], false)
  else
    if (len =? 128) || rl_is_run (rle_state s) then
      ({| rle_state := RlTop; rle_buf := [ch] |}, rle_flush_out s, false)
    else if 0 <? len then ({| rle_state := RlCopying; rle_buf := rle_buf s ++ [ch] |}, [], false)
    else ({| rle_state := rle_state s; rle_buf := rle_buf s ++ [ch] |}, [], false).

Definition rle_run (chunks : list (list N)) : fres :=
  let '(s, o, e) := run_chunks rle_step rle_init chunks in
  (o ++ rle_flush_out s ++ [128], e).

(* decoder: output is accumulated in m->out and written at finish() *)
Record rld_st := { rld_state : rl_state; rld_len : N }.
Definition rld_init := {| rld_state := RlTop; rld_len := 0 |}.
Definition rld_step (s : rld_st) (ch : N) : rld_st * list N * bool :=
  match rld_state s with
  | RlTop => if ch <? 128 then ({| rld_state := RlCopying; rld_len := 1 + ch |}, [], false)
             else if 128 <? ch then ({| rld_state := RlRun; rld_len := 257 - ch |}, [], false)
             else (s, [], false)
  | RlCopying => (if rld_len s - 1 =? 0 then {| rld_state := RlTop; rld_len := 0 |}
                  else {| rld_state := RlCopying; rld_len := rld_len s - 1 |}, [ch], false)
  | RlRun => ({| rld_state := RlTop; rld_len := rld_len s |}, repeat ch (N.to_nat (rld_len s)), false)
  end.
Definition rld_run (chunks : list (list N)) : fres :=
  let '(s, o, e) := run_chunks rld_step rld_init chunks in (o, e).

(* ================= Pl_PNGFilter ================= *)
Record png_params := { png_bpp : nat (* bytes per pixel *); png_bpr : nat (* bytes per row *) }.

(* constructor: None = runtime_error *)
Definition png_make (columns colors bpc : N) : option png_params :=
  if colors <? 1 then None else
  if negb ((bpc =? 1) || (bpc =? 2) || (bpc =? 4) || (bpc =? 8) || (bpc =? 16)) then None else
  let bits_pp := bpc * colors in
  if 4294967295 <? bits_pp + 7 then None else
  let bpr := (columns * bits_pp + 7) / 8 in
  if (bpr =? 0) || (4294967295 <? bpr) then None else
  Some {| png_bpp := N.to_nat ((bits_pp + 7) / 8); png_bpr := N.to_nat bpr |}.

Definition add8 (a b : N) : N := (a + b) mod 256.
Definition sub8 (a b : N) : N := (a + 256 - b mod 256) mod 256.

Definition abs_diff (a b : Z) : Z := if (a >? b)%Z then (a - b)%Z else (b - a)%Z.
Definition paeth (a b c : N) : N :=
  let p := (Z.of_N a + Z.of_N b - Z.of_N c)%Z in
  let pa := abs_diff p (Z.of_N a) in
  let pb := abs_diff p (Z.of_N b) in
  let pc := abs_diff p (Z.of_N c) in
  if (pa <=? pb)%Z && (pa <=? pc)%Z then a else if (pb <=? pc)%Z then b else c.

(* One decoded row, left to right. [done_rev]: already decoded bytes of this row (reversed);
   [above_rev]: bytes of the previous row to the left of the current position (reversed). *)
Fixpoint png_decode_bytes (ft : N) (bpp : nat) (row above : list N) (done_rev above_rev : list N) : list N :=
  match row with
  | [] => rev' done_rev
  | x :: row' =>
      let up := hd 0 above in
      let left := nth (bpp - 1) done_rev 0 in
      let upleft := nth (bpp - 1) above_rev 0 in
      let v := if ft =? 1 then add8 x left
               else if ft =? 2 then add8 x up
               else if ft =? 3 then add8 x ((left + up) / 2)
               else if ft =? 4 then add8 x (paeth left up upleft)
               else x in
      png_decode_bytes ft bpp row' (tl above) (v :: done_rev) (up :: above_rev)
  end.

(* cur_row / prev_row are bytes_per_row+1 buffers; row = filter byte :: data *)
Definition png_decode_row (p : png_params) (cur prev : list N) : list N :=
  png_decode_bytes (hd 0 cur) (png_bpp p) (tl cur) (tl prev) [] [].

Fixpoint map2 {A B C} (f : A -> B -> C) (a : list A) (b : list B) : list C :=
  match a, b with
  | x :: a', y :: b' => f x y :: map2 f a' b'
  | _, _ => []
  end.

(* encoder: always "Up" (2); prev_row = previous input row (buffer of bpr+1, first bpr used) *)
Definition png_encode_row (p : png_params) (cur prev : list N) : list N :=
  2 :: map2 sub8 (firstn (png_bpr p) cur) (firstn (png_bpr p) prev).

Record png_st := { png_cur : list N (* pos bytes *); png_prev : list N (* bpr+1 bytes *) }.
Definition zeros (n : nat) : list N := repeat 0 n.
Definition png_init (p : png_params) := {| png_cur := []; png_prev := zeros (S (png_bpr p)) |}.

Definition png_incoming (enc : bool) (p : png_params) : nat := if enc then png_bpr p else S (png_bpr p).
(* processRow: (bytes written downstream, content of the buffer afterwards). decodeRow works
   in place, so the next row's prev_row is the DECODED row; encodeRow leaves cur_row alone. *)
Definition png_process (enc : bool) (p : png_params) (cur prev : list N) : list N * list N :=
  if enc then (png_encode_row p cur prev, cur)
  else let d := png_decode_row p cur prev in (d, hd 0 cur :: d).

(* write(): while (len >= left) { complete the row; process; swap } ; then buffer the rest *)
Fixpoint png_write_loop (fuel : nat) (enc : bool) (p : png_params) (s : png_st) (data : list N) : png_st * list N :=
  match fuel with
  | O => (s, [])
  | S f =>
      let left := (png_incoming enc p - length (png_cur s))%nat in
      if Nat.leb left (length data) then
        let full := png_cur s ++ firstn left data in
        let cur := full ++ zeros (S (png_bpr p) - length full) in
        let '(out, buf) := png_process enc p cur (png_prev s) in
        let '(s', o') := png_write_loop f enc p {| png_cur := []; png_prev := buf |} (skipn left data) in
        (s', out ++ o')
      else ({| png_cur := png_cur s ++ data; png_prev := png_prev s |}, [])
  end.
Definition png_write (enc : bool) (p : png_params) (s : png_st) (data : list N) : png_st * list N :=
  png_write_loop (S (length data)) enc p s data.

Fixpoint png_run_chunks (enc : bool) (p : png_params) (s : png_st) (chunks : list (list N)) : png_st * list N :=
  match chunks with
  | [] => (s, [])
  | c :: cs => let '(s1, o1) := png_write enc p s c in
               let '(s2, o2) := png_run_chunks enc p s1 cs in (s2, o1 ++ o2)
  end.

Definition png_finish (enc : bool) (p : png_params) (s : png_st) : list N :=
  match png_cur s with
  | [] => []
  | _ => fst (png_process enc p (png_cur s ++ zeros (S (png_bpr p) - length (png_cur s))) (png_prev s))
  end.

Definition png_run (enc : bool) (p : png_params) (chunks : list (list N)) : list N :=
  let '(s, o) := png_run_chunks enc p (png_init p) chunks in o ++ png_finish enc p s.

(* ================= BitStream / BitWriter (bits_functions.hh) ================= *)
(* reader state: remaining bytes (head = *p), bit_offset 7..0 ; bits_available is derived *)
Record bitrd := { br_bytes : list N; br_off : N }.
Definition br_avail (r : bitrd) : N :=
  match br_bytes r with [] => 0 | _ => 8 * (lenNb (br_bytes r) - 1) + br_off r + 1 end.

Fixpoint read_bits_loop (fuel : nat) (r : bitrd) (wanted : N) (result : N) : bitrd * N :=
  match fuel with
  | O => (r, result)
  | S f =>
      if wanted =? 0 then (r, result) else
      let byte := (hd 0 (br_bytes r)) mod (2 ^ (br_off r + 1)) in
      let to_copy := N.min wanted (br_off r + 1) in
      let leftover := br_off r + 1 - to_copy in
      let byte' := byte / 2 ^ leftover in
      let result' := (result * 2 ^ to_copy + byte') mod 2 ^ 64 in
      let r' := if 0 <? leftover then {| br_bytes := br_bytes r; br_off := leftover - 1 |}
                else {| br_bytes := tl (br_bytes r); br_off := 7 |} in
      read_bits_loop f r' (wanted - to_copy) result'
  end.

(* None = exception (runtime_error when not enough bits, out_of_range when > 32) *)
Definition read_bits (r : bitrd) (wanted : N) : option (bitrd * N) :=
  if br_avail r <? wanted then None
  else if 32 <? wanted then None
  else Some (read_bits_loop (S (N.to_nat wanted)) r wanted 0).

Definition get_bits_signed (r : bitrd) (nbits : N) : option (bitrd * Z) :=
  match read_bits r nbits with
  | None => None
  | Some (r', bits) =>
      Some (r', if (Z.of_N bits >? 2 ^ (Z.of_N nbits - 1))%Z then (Z.of_N bits - 2 ^ Z.of_N nbits)%Z else Z.of_N bits)
  end.

Record bitwr := { bw_ch : N; bw_off : N }.
Definition bw_init := {| bw_ch := 0; bw_off := 7 |}.

Fixpoint write_bits_loop (fuel : nat) (w : bitwr) (val bits : N) : bitwr * list N :=
  match fuel with
  | O => (w, [])
  | S f =>
      if bits =? 0 then (w, []) else
      let btw := N.min bits (bw_off w + 1) in
      let newval := ((val / 2 ^ (bits - btw)) mod 2 ^ btw) mod 256 in
      let left_in_ch := bw_off w + 1 - btw in
      let ch := N.lor (bw_ch w) ((newval * 2 ^ left_in_ch) mod 256) in
      if left_in_ch =? 0 then
        let '(w', o) := write_bits_loop f bw_init val (bits - btw) in (w', ch :: o)
      else write_bits_loop f {| bw_ch := ch; bw_off := bw_off w - btw |} val (bits - btw)
  end.
Definition write_bits (w : bitwr) (val bits : N) : option (bitwr * list N) :=
  if 32 <? bits then None else Some (write_bits_loop (S (N.to_nat bits)) w val bits).

Definition write_bits_signed (w : bitwr) (val : Z) (bits : N) : option (bitwr * list N) :=
  let uval := Z.to_N ((if (val <? 0)%Z then 2 ^ Z.of_N bits + val else val) mod 2 ^ 64)%Z in
  write_bits w uval bits.

Definition bw_flush (w : bitwr) : list N :=
  if bw_off w <? 7 then
    match write_bits w 0 (bw_off w + 1) with Some (_, o) => o | None => [] end
  else [].

(* ================= Pl_TIFFPredictor ================= *)
Record tiff_params := { tf_cols : N; tf_spp : nat; tf_bps : N; tf_bpr : nat }.
Definition tiff_make (columns colors bpc : N) : option tiff_params :=
  if colors <? 1 then None else
  if (bpc <? 1) || (64 <? bpc) then None else
  let bits_pp := bpc * colors in
  if 4294967295 <? bits_pp + 7 then None else
  let bpr := (columns * bits_pp + 7) / 8 in
  if (bpr =? 0) || (4294967295 <? bpr) then None else
  Some {| tf_cols := columns; tf_spp := N.to_nat colors; tf_bps := bpc; tf_bpr := N.to_nat bpr |}.

(* 8-bit path: previous is a rotating vector of spp samples *)
Fixpoint tiff8_row (enc : bool) (row : list N) (prev : list Z) (used : list Z) : list N :=
  match row with
  | [] => []
  | x :: row' =>
      match prev with
      | [] => (* wrap around: restart over the updated samples *)
          match rev' used with
          | [] => []
          | p :: ps =>
              let sample := Z.of_N x in
              let nw := if enc then (sample - p)%Z else (sample + p)%Z in
              let p' := if enc then sample else nw in
              Z.to_N (nw mod 256)%Z :: tiff8_row enc row' ps [p']
          end
      | p :: ps =>
          let sample := Z.of_N x in
          let nw := if enc then (sample - p)%Z else (sample + p)%Z in
          let p' := if enc then sample else nw in
          Z.to_N (nw mod 256)%Z :: tiff8_row enc row' ps (p' :: used)
      end
  end.

(* bit path: for col, for each component: getBitsSigned / writeBitsSigned; then flush.
   None = an exception escaped processRow (bits > 32) *)
Fixpoint tiffbits_samples (enc : bool) (bps : N) (n : nat) (r : bitrd) (w : bitwr)
         (prev used : list Z) (spp : nat) : option (list N) :=
  match n with
  | O => Some (bw_flush w)
  | S n' =>
      let '(p, ps, used') := match prev with
                             | p :: ps => (p, ps, used)
                             | [] => match rev' used with p :: ps => (p, ps, []) | [] => (0%Z, [], []) end
                             end in
      match get_bits_signed r bps with
      | None => None
      | Some (r', sample) =>
          let nw := if enc then (sample - p)%Z else (sample + p)%Z in
          let p' := if enc then sample else nw in
          match write_bits_signed w nw bps with
          | None => None
          | Some (w', o) =>
              match tiffbits_samples enc bps n' r' w' ps (p' :: used') spp with
              | None => None
              | Some o' => Some (o ++ o')
              end
          end
      end
  end.

Definition tiff_process (enc : bool) (p : tiff_params) (row : list N) : option (list N) :=
  let prev0 := repeat 0%Z (tf_spp p) in
  if tf_bps p =? 8 then Some (tiff8_row enc row prev0 [])
  else tiffbits_samples enc (tf_bps p) (N.to_nat (tf_cols p) * tf_spp p)
         {| br_bytes := row; br_off := 7 |} bw_init prev0 [] (tf_spp p).

(* write(): row_end <= end loop; cur_row is the partial row *)
Fixpoint tiff_write_loop (fuel : nat) (enc : bool) (p : tiff_params) (cur : list N) (data : list N)
  : list N * list N * bool :=
  match fuel with
  | O => (cur, [], false)
  | S f =>
      let need := (tf_bpr p - length cur)%nat in
      if Nat.leb need (length data) then
        match tiff_process enc p (cur ++ firstn need data) with
        | None => ([], [], true)
        | Some out =>
            let '(c', o', e') := tiff_write_loop f enc p [] (skipn need data) in (c', out ++ o', e')
        end
      else (cur ++ data, [], false)
  end.

Fixpoint tiff_run_chunks (enc : bool) (p : tiff_params) (cur : list N) (chunks : list (list N))
  : list N * list N * bool :=
  match chunks with
  | [] => (cur, [], false)
  | c :: cs =>
      let '(c1, o1, e1) := tiff_write_loop (S (length c)) enc p cur c in
      if e1 then (c1, o1, true) else
      let '(c2, o2, e2) := tiff_run_chunks enc p c1 cs in (c2, o1 ++ o2, e2)
  end.

Definition tiff_run (enc : bool) (p : tiff_params) (chunks : list (list N)) : fres :=
  let '(cur, o, e) := tiff_run_chunks enc p [] chunks in
  if e then (o, true) else
  match cur with
  | [] => (o, false)
  | _ => match tiff_process enc p (cur ++ zeros (tf_bpr p - length cur)) with
         | None => (o, true)
         | Some out => (o ++ out, false)
         end
  end.

(* ================= Pl_Base64 (whole buffer at finish) ================= *)
Definition b64_char (v : N) : N :=
  if v <? 26 then v + 65 else if v <? 52 then v - 26 + 97 else if v <? 62 then v - 52 + 48
  else if v =? 62 then 43 else 47.

Fixpoint b64_encode (d : list N) : list N :=
  match d with
  | [] => []
  | [a] => let v := a * 65536 in
           [b64_char (v / 262144); b64_char ((v / 4096) mod 64); 61; 61]
  | [a; b] => let v := a * 65536 + b * 256 in
              [b64_char (v / 262144); b64_char ((v / 4096) mod 64); b64_char ((v / 64) mod 64); 61]
  | a :: b :: c :: t => let v := a * 65536 + b * 256 + c in
      b64_char (v / 262144) :: b64_char ((v / 4096) mod 64) :: b64_char ((v / 64) mod 64) :: b64_char (v mod 64)
      :: b64_encode t
  end.

Definition b64_val (ch : N) : option N :=
  if (65 <=? ch) && (ch <=? 90) then Some (ch - 65)
  else if (97 <=? ch) && (ch <=? 122) then Some (ch - 97 + 26)
  else if (48 <=? ch) && (ch <=? 57) then Some (ch - 48 + 52)
  else if (ch =? 43) || (ch =? 45) then Some 62
  else if (ch =? 47) || (ch =? 95) then Some 63
  else None.

(* util::is_space *)
Definition util_is_space (ch : N) : bool :=
  (ch =? 32) || (ch =? 10) || (ch =? 13) || (ch =? 9) || (ch =? 12) || (ch =? 11).

(* flush_decode on a full group of 4; returns (bytes, saw padding) or None = invalid input *)
Definition b64_group (g : list N) : option (list N * bool) :=
  match g with
  | [c0; c1; c2; c3] =>
      let v i ch := match b64_val ch with
                    | Some x => Some (x, false)
                    | None => if (ch =? 61) && ((i =? 3) || ((i =? 2) && (c3 =? 61))) then Some (0, true) else None
                    end in
      match v 0 c0, v 1 c1, v 2 c2, v 3 c3 with
      | Some (v0, p0), Some (v1, p1), Some (v2, p2), Some (v3, p3) =>
          let outval := v0 * 262144 + v1 * 4096 + v2 * 64 + v3 in
          let pad := (if p0 then 1 else 0) + (if p1 then 1 else 0) + (if p2 then 1 else 0) + (if p3 then 1 else 0) in
          Some (firstn (3 - N.to_nat pad)%nat [ (outval / 65536) mod 256; (outval / 256) mod 256; outval mod 256 ],
                p0 || p1 || p2 || p3)
      | _, _, _, _ => None
      end
  | _ => None
  end.

Fixpoint b64_decode_loop (data : list N) (buf : list N) (eod : bool) (out_rev : list N) : fres :=
  match data with
  | [] =>
      match buf with
      | [] => (rev' out_rev, false)
      | _ => if eod then (rev' out_rev, true) else
             match b64_group (pad_to 4 61 buf) with
             | None => (rev' out_rev, true)
             | Some (o, _) => (rev' (rev_append o out_rev), false)
             end
      end
  | ch :: t =>
      if util_is_space ch then b64_decode_loop t buf eod out_rev
      else
        let buf' := buf ++ [ch] in
        if N.of_nat (length buf') =? 4 then
          if eod then (rev' out_rev, true) else
          match b64_group buf' with
          | None => (rev' out_rev, true)
          | Some (o, pad) => b64_decode_loop t [] pad (rev_append o out_rev)
          end
        else b64_decode_loop t buf' eod out_rev
  end.
(* Pl_Base64 writes nothing downstream when decode_internal throws *)
Definition b64_decode (chunks : list (list N)) : fres :=
  let '(o, e) := b64_decode_loop (concat chunks) [] false [] in if e then ([], true) else (o, false).
Definition b64_encode_run (chunks : list (list N)) : fres := (b64_encode (concat chunks), false).

(* ================= Pl_LZWDecoder ================= *)
Record lzw_st := {
  lz_buf : list N;          (* 3-byte ring *)
  lz_code_size : N; lz_next_char : N; lz_byte_pos : N; lz_bit_pos : N; lz_bits_avail : N;
  lz_eod : bool; lz_table : list (list N); lz_last_code : N }.
Definition lzw_init := {| lz_buf := [0; 0; 0]; lz_code_size := 9; lz_next_char := 0; lz_byte_pos := 0;
  lz_bit_pos := 0; lz_bits_avail := 0; lz_eod := false; lz_table := []; lz_last_code := 256 |}.

Fixpoint set_nth (n : nat) (x : N) (l : list N) : list N :=
  match l, n with
  | [], _ => []
  | _ :: t, O => x :: t
  | h :: t, S n' => h :: set_nth n' x t
  end.
Definition ring (s : lzw_st) (i : N) : N := nth (N.to_nat i) (lz_buf s) 0.

Definition lzw_first_char (table : list (list N)) (code : N) : option N :=
  if code <? 256 then Some code
  else if code <=? 257 then None
  else match nth_error table (N.to_nat (code - 258)) with
       | Some (c :: _) => Some c
       | _ => None
       end.

Definition lzw_entry (table : list (list N)) (code : N) : option (list N) :=
  if code <? 256 then Some [code]
  else if code <=? 257 then None
  else nth_error table (N.to_nat (code - 258)).

(* handleCode: returns (state, output, threw) *)
Definition lzw_handle (early : bool) (s : lzw_st) (code : N) : lzw_st * list N * bool :=
  let upd cs tbl eod := {| lz_buf := lz_buf s; lz_code_size := cs; lz_next_char := lz_next_char s;
                           lz_byte_pos := lz_byte_pos s; lz_bit_pos := lz_bit_pos s; lz_bits_avail := lz_bits_avail s;
                           lz_eod := eod; lz_table := tbl; lz_last_code := code |} in
  if lz_eod s then (s, [], false)
  else if code =? 256 then (upd 9 [] false, [], false)
  else if code =? 257 then (upd (lz_code_size s) (lz_table s) true, [], false)
  else
    let tsize := lenNb (lz_table s) in
    (* first the table update *)
    let step1 : option (list (list N) * N) :=
      if lz_last_code s =? 256 then Some (lz_table s, lz_code_size s)
      else
        let next_c : option N :=
          if code <? 256 then Some code
          else
            let idx := code - 258 in
            if tsize <? idx then None
            else if idx =? tsize then lzw_first_char (lz_table s) (lz_last_code s)
            else lzw_first_char (lz_table s) code in
        match next_c with
        | None => None
        | Some c =>
            let new_idx := 258 + tsize in
            if new_idx =? 4096 then None else
            match lzw_entry (lz_table s) (lz_last_code s) with
            | None => None
            | Some last =>
                let change := new_idx + (if early then 1 else 0) in
                Some (lz_table s ++ [last ++ [c]],
                      if (change =? 511) || (change =? 1023) || (change =? 2047) then lz_code_size s + 1 else lz_code_size s)
            end
        end in
    match step1 with
    | None => (s, [], true)
    | Some (tbl, cs) =>
        match lzw_entry tbl code with
        | None => (upd cs tbl false, [], true)
        | Some o => (upd cs tbl false, o, false)
        end
    end.

Definition lzw_send (early : bool) (s : lzw_st) : lzw_st * list N * bool :=
  let high := lz_byte_pos s in
  let med := (lz_byte_pos s + 1) mod 3 in
  let low := (lz_byte_pos s + 2) mod 3 in
  let bfh := 8 - lz_bit_pos s in
  let bfm0 := lz_code_size s - bfh in
  let bfl := if 8 <? bfm0 then bfm0 - 8 else 0 in
  let bfm := if 8 <? bfm0 then 8 else bfm0 in
  let high_mask := 2 ^ bfh - 1 in
  let med_mask := 255 - (2 ^ (8 - bfm) - 1) in
  let low_mask := 255 - (2 ^ (8 - bfl) - 1) in
  let code0 := (N.land (ring s high) high_mask) * 2 ^ bfm + (N.land (ring s med) med_mask) / 2 ^ (8 - bfm) in
  let code := if 0 <? bfl then code0 * 2 ^ bfl + (N.land (ring s low) low_mask) / 2 ^ (8 - bfl) else code0 in
  let bp := if 0 <? bfl then low else med in
  let bit := if 0 <? bfl then bfl else bfm in
  let bp' := if bit =? 8 then (bp + 1) mod 3 else bp in
  let bit' := if bit =? 8 then 0 else bit in
  let s' := {| lz_buf := lz_buf s; lz_code_size := lz_code_size s; lz_next_char := lz_next_char s;
               lz_byte_pos := bp'; lz_bit_pos := bit'; lz_bits_avail := lz_bits_avail s - lz_code_size s;
               lz_eod := lz_eod s; lz_table := lz_table s; lz_last_code := lz_last_code s |} in
  lzw_handle early s' code.

Definition lzw_step (early : bool) (s : lzw_st) (b : N) : lzw_st * list N * bool :=
  let nc := lz_next_char s + 1 in
  let s1 := {| lz_buf := set_nth (N.to_nat (lz_next_char s)) b (lz_buf s); lz_code_size := lz_code_size s;
               lz_next_char := if nc =? 3 then 0 else nc; lz_byte_pos := lz_byte_pos s; lz_bit_pos := lz_bit_pos s;
               lz_bits_avail := lz_bits_avail s + 8; lz_eod := lz_eod s; lz_table := lz_table s;
               lz_last_code := lz_last_code s |} in
  if lz_code_size s1 <=? lz_bits_avail s1 then lzw_send early s1 else (s1, [], false).

Definition lzw_run (early : bool) (chunks : list (list N)) : fres :=
  let '(s, o, e) := run_chunks (lzw_step early) lzw_init chunks in (o, e).

(* ================= RC4 (RC4_native.cc) ================= *)
Definition swap_nth (l : list N) (i j : nat) : list N :=
  let a := nth i l 0 in let b := nth j l 0 in set_nth j a (set_nth i b l).

Fixpoint rc4_ksa (n : nat) (key : list N) (keylen : nat) (st : list N) (i1 i2 : N) (cnt : nat) : list N :=
  match n with
  | O => st
  | S n' =>
      let i2' := (nth (N.to_nat i1) key 0 + nth cnt st 0 + i2) mod 256 in
      let st' := swap_nth st cnt (N.to_nat i2') in
      rc4_ksa n' key keylen st' ((i1 + 1) mod (N.of_nat keylen)) i2' (S cnt)
  end.
Definition rc4_init (key : list N) : list N :=
  rc4_ksa 256 key (length key) (map N.of_nat (seq 0 256)) 0 0 0.

Fixpoint rc4_stream (data : list N) (st : list N) (x y : N) : list N :=
  match data with
  | [] => []
  | d :: t =>
      let x' := (x + 1) mod 256 in
      let y' := (nth (N.to_nat x') st 0 + y) mod 256 in
      let st' := swap_nth st (N.to_nat x') (N.to_nat y') in
      let xor_index := (nth (N.to_nat x') st' 0 + nth (N.to_nat y') st' 0) mod 256 in
      N.lxor d (nth (N.to_nat xor_index) st' 0) :: rc4_stream t st' x' y'
  end.
Definition rc4 (key data : list N) : list N := rc4_stream data (rc4_init key) 0 0.
