(* C13 extension - model additions (no proofs in this file).

   pgx_reread: "write the document and read it back": QPDFWriter (without linearization) does not
   call anything of QPDF_pages.cc - it walks the objects from the trailer and writes them as they
   are (C01: the written graph is isomorphic to the graph in memory) - and the reader starts with
   an empty page cache.  So the page list of the re-read document is Pages::cache() /
   getAllPagesInternal run from scratch on the same objects: pg_all on pg_init_doc.  The driver
   reads getRoot()["/Pages"]["/Count"] BEFORE it calls getAllPages(), so does this function.

   pgx_count_of: what /Count shows (getIntValue of a non-integer is 0). *)
From QV Require Import Base.Bytes Struct.PgModel.
Local Open Scope N_scope.

Definition pgx_count_of (p : pg_doc) : Z :=
  match pg_rv (pd_store p) (pg_hget (pd_store p) (pg_root_pages p) pgk_Count) with
  | PvInt z => z
  | _ => 0%Z
  end.

Definition pgx_fresh (p : pg_doc) : pg_doc := pg_init_doc (pd_store p) (pd_root p).

Definition pgx_reread (p : pg_doc) : option (Z * list (option Z)) :=
  let q := pgx_fresh p in
  let c := pgx_count_of q in
  let '(q', e) := pg_all q in
  match e with
  | Some _ => None
  | None => Some (c, map (pg_marker (pd_store q')) (pd_all q'))
  end.
