(* C03 - towards rd_reads_writer_output, continued: resolve (model) of every written object through the table that
   read_xref builds from the writer's section.  Part of step (6). *)
From QV Require Import Base.Bytes Lex.TokModel Lex.LexSpec Lex.TokInterp Lex.LexRun Lex.LexProofs
     Obj.Unparse Obj.UnparseProofs Obj.SynSpec Obj.SynMachine Obj.ParseModel Obj.ParseProofs Obj.ParseSim
     Obj.Queue Obj.C01QueueProofs File.WriterArith Obj.WriterModel Obj.WmPrinters File.C02Proofs Obj.C01WriterProofs Obj.C01FileProofs
     File.XrefModel File.RdModel File.C03ProofsRd File.C03ProofsRdW File.C03ProofsRdW2 File.C03ProofsRdW3 File.C03ProofsRdW4
     File.C03ProofsRdX File.C03ProofsRdT.
From Coq Require Import Lia.
Local Open Scope N_scope.

(* the entry of a written object in the table built from the writer's lines *)
Lemma rd_lookup_written_lemma : forall d k off, doc_closed d -> In (k, off) (w_offs d) ->
  rd_lookup (rdt_tbl 1 (w_offs d)) k 0 = Some (C3Use off 0).
Proof.
  intros d k off Hc Hin. destruct (In_nth_error _ _ Hin) as [idx Hidx].
  pose proof (body_numbers_lemma wm_unparse_string wm_unparse_name d Hc) as Hnum. rewrite w_offs_eq in Hnum.
  assert (Hlt : (idx < length (w_offs d))%nat) by (apply nth_error_Some; rewrite Hidx; discriminate).
  assert (Hk : k = 1 + N.of_nat idx).
  { pose proof (map_nth_error fst idx (w_offs d) Hidx) as H1. cbn [fst] in H1. rewrite Hnum in H1.
    pose proof (nth_error_nth _ _ 0 H1) as H2.
    change 0 with (N.of_nat 0) in H2 at 1. rewrite map_nth in H2. rewrite seq_nth in H2 by exact Hlt. lia. }
  rewrite Hk. exact (rdt_lookup_lemma (w_offs d) 1 idx (k, off) Hidx).
Qed.

(* resolve of a written array / dictionary object *)
Lemma rd_resolve_written_lemma : forall d e fuel id i,
  rde_file e = WOUT d -> rde_tbl e = rdt_tbl 1 (w_offs d) -> rde_pre e = [] -> bytes_ok (WOUT d) ->
  doc_closed d -> In id (w_ids d) -> find_obj (d_objects d) id = Some i -> i_stream i = None ->
  (Z.of_N (doc_ren d id) <= 2147483647)%Z ->
  rw_container (i_val i) -> rw_wf (i_val i) = true -> rw_nd (d_objects d) (i_val i) = true ->
  ints_ok (rd_toks (d_objects d) (rw_ren d) (i_val i)) -> refs_ok (rd_toks (d_objects d) (rw_ren d) (i_val i)) = true ->
  opens (rd_toks (d_objects d) (rw_ren d) (i_val i)) <= 500 -> len (rd_toks (d_objects d) (rw_ren d) (i_val i)) < 4294967295 ->
  exists o',
    rd_resolve (S fuel) e [] (doc_ren d id, 0) = (mkRdObj (rd_fixrefs (rd_known e) o') None false, []) /\
    R_obj o' (rd_sy (d_objects d) (rw_ren d) (i_val i)).
Proof.
  intros d e fuel id i Hfile Htbl Hpre Hb Hc Hin Hf Hs Hmax Hcont W ND Hi Hr Ho Hl.
  destruct (rd_read_at_written_step d e (rd_resolve fuel e [(doc_ren d id, 0)]) id i Hfile Hb Hc Hin Hf Hs Hmax Hcont W ND Hi Hr Ho Hl)
    as (off & o' & Hoff & Hrd & HR).
  exists o'. split; [|exact HR].
  cbn [rd_resolve fst snd]. rewrite Hpre. cbn [rd_pre_get existsb]. rewrite Htbl.
  rewrite (rd_lookup_written_lemma d _ off Hc Hoff). rewrite Hrd. reflexivity.
Qed.

(* resolve of a written stream object: value, extent, and the stream bytes are the document's *)
Lemma rd_resolve_written_stream_lemma : forall d e fuel id i dd data,
  rde_file e = WOUT d -> rde_tbl e = rdt_tbl 1 (w_offs d) -> rde_pre e = [] -> bytes_ok (WOUT d) ->
  doc_closed d -> In id (w_ids d) -> find_obj (d_objects d) id = Some i -> i_stream i = Some data -> i_val i = ODict dd ->
  (Z.of_N (doc_ren d id) <= 2147483647)%Z ->
  let o0 := rw_stream_dict (ODict dd) (rd_len data) in
  rw_wf o0 = true -> rw_nd (d_objects d) o0 = true ->
  ints_ok (rd_toks (d_objects d) (rw_ren d) o0) -> refs_ok (rd_toks (d_objects d) (rw_ren d) o0) = true ->
  opens (rd_toks (d_objects d) (rw_ren d) o0) <= 500 -> len (rd_toks (d_objects d) (rw_ren d) o0) < 4294967295 ->
  exists o' dd' spos,
    rd_resolve (S fuel) e [] (doc_ren d id, 0) = (mkRdObj (MoDict dd') (Some (spos, rd_len data)) false, []) /\
    rd_fixrefs (rd_known e) o' = MoDict dd' /\ R_obj o' (rd_sy (d_objects d) (rw_ren d) o0) /\
    rd_stream_raw (rde_file e) (mkRdObj (MoDict dd') (Some (spos, rd_len data)) false) = data.
Proof.
  intros d e fuel id i dd data Hfile Htbl Hpre Hb Hc Hin Hf Hs Hdd Hmax o0 W ND Hi Hr Ho Hl.
  destruct (rd_read_at_written_stream_step d e (rd_resolve fuel e [(doc_ren d id, 0)]) id i dd data Hfile Hb Hc Hin Hf Hs Hdd Hmax W ND Hi Hr Ho Hl)
    as (off & o' & dd' & spos & Hoff & Hrd & H2 & H3 & H4).
  exists o', dd', spos. split; [|repeat split; assumption].
  cbn [rd_resolve fst snd]. rewrite Hpre. cbn [rd_pre_get existsb]. rewrite Htbl.
  rewrite (rd_lookup_written_lemma d _ off Hc Hoff). rewrite Hrd. reflexivity.
Qed.
