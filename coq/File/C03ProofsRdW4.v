(* C03 - towards rd_reads_writer_output, continued: readObjectAtOffset (model) on every written STREAM object of the
   writer's output.  Steps (3)+(4) composed. *)
From QV Require Import Base.Bytes Lex.TokModel Lex.LexSpec Lex.TokInterp Lex.LexRun Lex.LexProofs
     Obj.Unparse Obj.UnparseProofs Obj.SynSpec Obj.SynMachine Obj.ParseModel Obj.ParseProofs Obj.ParseSim
     Obj.Queue Obj.C01QueueProofs File.WriterArith Obj.WriterModel Obj.WmPrinters File.C02Proofs Obj.C01WriterProofs Obj.C01FileProofs
     File.XrefModel File.RdModel File.C03ProofsRd File.C03ProofsRdW File.C03ProofsRdW2 File.C03ProofsRdW3.
From Coq Require Import Lia.
Local Open Scope N_scope.

Lemma rd_read_at_written_stream_step : forall d e resolve id i dd data,
  rde_file e = WOUT d -> bytes_ok (WOUT d) ->
  doc_closed d -> In id (w_ids d) -> find_obj (d_objects d) id = Some i -> i_stream i = Some data -> i_val i = ODict dd ->
  (Z.of_N (doc_ren d id) <= 2147483647)%Z ->
  let o0 := rw_stream_dict (ODict dd) (rd_len data) in
  rw_wf o0 = true -> rw_nd (d_objects d) o0 = true ->
  ints_ok (rd_toks (d_objects d) (rw_ren d) o0) -> refs_ok (rd_toks (d_objects d) (rw_ren d) o0) = true ->
  opens (rd_toks (d_objects d) (rw_ren d) o0) <= 500 -> len (rd_toks (d_objects d) (rw_ren d) o0) < 4294967295 ->
  exists off o' dd' spos,
    In (doc_ren d id, off) (w_offs d) /\
    rd_read_at e resolve false off (Some (doc_ren d id, 0))
    = RdrObj (Z.of_N (doc_ren d id)) 0 (mkRdObj (MoDict dd') (Some (spos, rd_len data)) false) [] /\
    rd_fixrefs (rd_known e) o' = MoDict dd' /\ R_obj o' (rd_sy (d_objects d) (rw_ren d) o0) /\
    rd_stream_raw (rde_file e) (mkRdObj (MoDict dd') (Some (spos, rd_len data)) false) = data.
Proof.
  intros d e resolve id i dd data Hfile Hb Hc Hin Hf Hs Hdd Hmax o0 W ND Hi Hr Ho Hl.
  pose proof (write_doc_layout_lemma d) as Hlay.
  destruct (rw_offs_at wm_unparse_string wm_unparse_name (d_objects d) (doc_ren d) (w_ids d)
              (N.of_nat (length (w_hdr d))) (w_hdr d) (w_xref d ++ w_trailer d ++ w_tail d) id (Nat2N.id _) Hin)
    as (ids1 & ids2 & off & Hids & Hoff & Hoffv & Hskip).
  assert (Hskip' : skipn (N.to_nat off) (WOUT d)
                   = w_chunk d id ++ concat (map (w_chunk d) ids2) ++ w_xref d ++ w_trailer d ++ w_tail d)
    by (rewrite Hlay; exact Hskip).
  clear Hskip. rename Hskip' into Hskip.
  set (objs := d_objects d) in *.
  assert (Hrefs : forall x, In x (refs_of objs o0) -> In x (refs_of objs (drop_length (i_val i)))).
  { intros x Hx. unfold o0, rw_stream_dict in Hx. cbn [drop_length] in Hx. rewrite refs_of_dict_app in Hx. apply in_app_or in Hx.
    destruct Hx as [Hx|Hx]; [rewrite Hdd; exact Hx | destruct Hx]. }
  assert (Hext : forall x, In x (refs_of objs o0) -> doc_ren d x = rw_ren d x).
  { intros x Hx. apply Hrefs in Hx.
    assert (Hp : 0 < doc_ren d x).
    { apply written_ren_pos; [exact Hc|].
      destruct (queue_complete_lemma _ _ Hc) as [_ Hq]. apply Hq.
      apply (reach_step _ _ id); [apply Hq; exact Hin|].
      rewrite (children_graph_of_stream d id i data Hf Hs). exact Hx. }
    unfold rw_ren. destruct (doc_ren d x =? 0) eqn:E; [apply N.eqb_eq in E; lia | reflexivity]. }
  destruct (ren_ext wm_unparse_string wm_unparse_name objs (doc_ren d) (rw_ren d) o0 Hext) as [HU _].
  set (tail := concat (map (w_chunk d) ids2) ++ w_xref d ++ w_trailer d ++ w_tail d) in *.
  assert (Hlen : N.of_nat (length data) = rd_len data) by reflexivity.
  assert (Hchunk : w_chunk d id = obj_header (doc_ren d id)
                     ++ unparse wm_unparse_string wm_unparse_name objs (rw_ren d) o0
                     ++ rw_kw_stream ++ data ++ rd_s_endstream ++ s_endobj).
  { unfold w_chunk, chunk_of. fold objs. rewrite Hf. unfold emit_object. rewrite Hs, Hdd, rd_stream_dict_text_lemma.
    rewrite Hlen. fold o0. rewrite HU. unfold rw_kw_stream, rd_s_endstream. rewrite <- ?app_assoc. reflexivity. }
  exists off.
  assert (Hat : rd_at (rde_file e) off = obj_header (doc_ren d id)
            ++ unparse wm_unparse_string wm_unparse_name objs (rw_ren d) o0
            ++ rw_kw_stream ++ data ++ rd_s_endstream ++ s_endobj ++ tail).
  { unfold rd_at. rewrite Hfile, Hskip, Hchunk. rewrite <- !app_assoc. reflexivity. }
  assert (Hoff0 : off <> 0).
  { intros E0. rewrite E0 in Hoffv. cbn in Hoffv. unfold w_hdr, header in Hoffv. rewrite !app_length in Hoffv. cbn [length] in Hoffv. lia. }
  pose proof (rw_bytes_skipn (N.to_nat off) _ Hb) as Hbs. rewrite Hskip, Hchunk in Hbs.
  assert (Hbd : bytes_ok data /\ bytes_ok tail).
  { unfold bytes_ok in *. apply Forall_app in Hbs. destruct Hbs as [Hc1 Hbt]. split; [|exact Hbt].
    apply Forall_app in Hc1. destruct Hc1 as [_ Hc1]. apply Forall_app in Hc1. destruct Hc1 as [_ Hc1].
    apply Forall_app in Hc1. destruct Hc1 as [_ Hc1]. apply Forall_app in Hc1. destruct Hc1 as [Hc1 _]. exact Hc1. }
  destruct Hbd as [Hbd Hbt].
  assert (Hth : match tail with c :: _ => c_isspace c = false | [] => False end).
  { unfold tail. apply rw_tail_head. reflexivity. }
  destruct (rd_read_at_emitted_stream_step e resolve objs (rw_ren d) (doc_ren d id) dd data tail off Hat Hoff0
              (written_ren_pos d id Hc Hin) Hmax (rw_ren_pos d) W ND Hi Hr Ho Hl Hbd Hbt Hth) as (o' & dd' & spos & H1 & H2 & H3 & H4).
  exists o', dd', spos. repeat split; assumption.
Qed.
