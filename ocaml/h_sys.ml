(* handlers: Sys/ models (stdio sinks, exit status, --replace-input) for C10 / C11. I/O only. *)
open Qvmodel
open Runner

let rec take_n k l = if k <= 0 then [] else match l with [] -> [] | x :: t -> x :: take_n (k - 1) t
let rec drop_n k l = if k <= 0 then l else match l with [] -> [] | _ :: t -> drop_n (k - 1) t
let rec split_lens (d : n list) (lens : int list) : n list list =
  match lens with
  | [] -> []
  | k :: tl -> let a = take_n k d in a :: split_lens (drop_n k d) tl
let chunks_of lens hexs = split_lens (unhexbytes hexs) (ints_of lens)
let bangs s = String.split_on_char '!' s

let rec pairs3 l = match l with
  | a :: b :: c :: tl -> (nat_of_int (int_of_string a), chunks_of b c) :: pairs3 tl
  | _ -> []

let parse_scen (s : string) : c10_scen =
  match bangs s with
  | "W" :: name :: lens :: hx :: [] -> ScWrite (nat_of_int (int_of_string name), chunks_of lens hx)
  | "S" :: rest -> ScSplit (pairs3 rest)
  | "J" :: main :: items ->
    let item it = match String.split_on_char '~' it with
      | ["C"; hx] -> JChunk (unhexbytes hx)
      | ["O"; name] -> JStreamOpen (nat_of_int (int_of_string name))
      | ["D"; name; hx] -> JStreamChunk (nat_of_int (int_of_string name), unhexbytes hx)
      | ["E"; name] -> JStreamEnd (nat_of_int (int_of_string name))
      | _ -> failwith "jitem" in
    ScJson (nat_of_int (int_of_string main), List.map item items)
  | "O" :: nfin :: ntie :: sw :: items ->
    let item it = match String.split_on_char '~' it with
      | ["C"; hx] -> OChunk (unhexbytes hx)
      | ["T"] -> OTie
      | _ -> failwith "oitem" in
    ScStdout (List.map item items, nat_of_int (int_of_string nfin), nat_of_int (int_of_string ntie), sw = "1")
  | "R" :: inp :: backup :: temp :: lens :: hx :: [] ->
    ScReplace (nat_of_int (int_of_string inp), nat_of_int (int_of_string backup), nat_of_int (int_of_string temp), chunks_of lens hx)
  | _ -> failwith "scen"

let parse_checks (s : string) : c10_checks =
  let b i = String.length s > i && s.[i] = '1' in
  if String.length s = 1 then (if s = "1" then c10_repaired else c10_unrepaired)
  else { ck_finish = b 0; ck_wclose = b 1; ck_jsclose = b 2; ck_jclose = b 3; ck_ostream = b 4; ck_stdout = b 5; ck_popper = b 6 }

(* fault token -> (oracle, initcap, glitch) *)
let parse_fault (t : string) : (nat -> c10_fact) * nat option * nat option =
  match String.split_on_char '@' t with
  | ["none"] -> ((fun _ -> FaNone), None, None)
  | [m; v] ->
    let k = int_of_string v in
    (match m with
     | "cap" -> ((fun _ -> FaNone), Some (nat_of_int k), None)
     | "once" -> ((fun _ -> FaNone), None, Some (nat_of_int (k - 1)))
     | "disk" -> ((fun x -> let i = int_of_nat x in if i = k then FaFull else if i > k then FaStreamFull else FaNone), None, None)
     | _ ->
       let a = (match m with "full" -> FaFull | "fail" -> FaFail | "killb" -> FaKillB | "killa" -> FaKillA
                             | _ -> failwith "fault mode") in
       ((fun x -> if int_of_nat x = k then a else FaNone), None, None))
  | _ -> failwith "fault"

let ec_name = function EcOpen -> "open" | EcWrite -> "write" | EcFlush -> "flush" | EcClose -> "close"
                     | EcRename -> "rename" | EcStdout -> "stdout" | EcLoop -> "loop"
let diag_str = function
  | DgErr (c, name) -> Printf.sprintf "E%s:%d" (ec_name c) (int_of_nat name)
  | DgWarn -> "W" | DgKept -> "K" | DgUnlink -> "U"
let pm b = if b then "+" else "-"
let ev_str = function
  | EvOpen (n, ok) -> Printf.sprintf "o%d%s" (int_of_nat n) (pm ok)
  | EvWrite (n, l, r) -> Printf.sprintf "w%d:%d:%d" (int_of_nat n) (int_of_nat l) (int_of_nat r)
  | EvFlush (n, ok) -> Printf.sprintf "f%d%s" (int_of_nat n) (pm ok)
  | EvClose (n, ok) -> Printf.sprintf "c%d%s" (int_of_nat n) (pm ok)
  | EvRename (a, b, ok) -> Printf.sprintf "r%d>%d%s" (int_of_nat a) (int_of_nat b) (pm ok)
  | EvUnlink (a, ok) -> Printf.sprintf "u%d%s" (int_of_nat a) (pm ok)

let result_str (verbose : bool) (r : c10_result) : string =
  let w = r.rs_world in
  let ex = if w.cw_aborted then "134" else match r.rs_exit with None -> "K" | Some c -> string_of_int (int_of_nat c) in
  let diags = String.concat "," (List.rev_map diag_str w.cw_diag @ (if w.cw_aborted then ["T"] else [])) in
  let files = List.map (fun (name, f) ->
      let s = string_of_bytes (sio_disk f) in
      (int_of_nat name, Printf.sprintf "%d:%d:%s:%s" (int_of_nat name) (String.length s) (Digest.to_hex (Digest.string s))
                          (if f.sf_err then "e" else "-"))) w.cw_dir in
  let files = List.sort compare files in
  let trace = String.concat " " (List.rev_map ev_str w.cw_trace) in
  Printf.sprintf "%s|%s|%s|%d|%s" ex (if diags = "" then "-" else diags)
    (if files = [] then "-" else String.concat "," (List.map snd files)) (int_of_nat w.cw_n)
    (if verbose then String.map (fun c -> if c = ' ' then '_' else c) trace else Digest.to_hex (Digest.string trace))

let c10_handler verbose args = match args with
  | [ck; b; rounds; pops; warn; wx0; scen; orig; faults] ->
    let sc = parse_scen scen in
    let cks = parse_checks ck in
    let origb = unhexbytes orig in
    let one t =
      let (fo, cap, glitch) = parse_fault t in
      let en = { en_B = nat_of_int (int_of_string b); en_fault = fo; en_initcap = cap;
                 en_exit_rounds = nat_of_int (int_of_string rounds); en_ck = cks;
                 en_md5_pops = nat_of_int (int_of_string pops); en_glitch = glitch } in
      result_str verbose (c10_run en (warn = "1") (wx0 = "1") sc origb) in
    String.concat " " (List.map one (String.split_on_char ',' faults))
  | _ -> "?args"

let () =
  register "c10run" (c10_handler false);
  register "c10trace" (c10_handler true)

(* the specifications on an observed run *)
let cls_of = function "O" -> ClOrig | "N" -> ClNew | "A" -> ClAbsent | _ -> ClOther
let () =
  register "c10obs" (fun args -> match args with
    | [ex; warned; errmsg; complete; failure; wx0] ->
      let o = { ob_exit = nat_of_int (int_of_string ex); ob_warned = (warned = "1"); ob_errmsg = (errmsg = "1");
                ob_complete = (complete = "1"); ob_failure = (failure = "1"); ob_wx0 = (wx0 = "1") } in
      (match c10_obs_violations o with
       | [] -> "ok"
       | l -> "clauses-violated:" ^ String.concat "," (List.map (fun x -> string_of_int (int_of_nat x)) l))
    | _ -> "?args");
  register "c11obs" (fun args -> match args with
    | [ex; unl; a; b; c] ->
      let d = { do_in = cls_of a; do_backup = cls_of b; do_temp = cls_of c } in
      let safe = c11_safe d in
      let fin = if ex = "K" then true else c11_final_ok (nat_of_int (int_of_string ex)) (unl = "1") d in
      if safe && fin then "ok" else Printf.sprintf "%s%s" (if safe then "" else "not-safe ") (if fin then "" else "final-state-wrong")
    | _ -> "?args")

(* ---- C11: --replace-input started in any directory, as part of any job (Sys/ReplaceDirModel.v, ReplaceDirSpec.v) *)
(* names: 1 = <in>, 2 = <in>.~qpdf-orig, 3 = <in>.~qpdf-temp#, 4 = <in>.~qpdf-orig#
   pre: "-" or name:hex;name:hex   dirs: "-" or name,name *)
let parse_pre (s : string) : (nat * n list) list =
  if s = "-" then [] else
    List.map (fun it -> match String.split_on_char ':' it with
        | [name; hx] -> (nat_of_int (int_of_string name), unhexbytes hx)
        | _ -> failwith "pre") (String.split_on_char ';' s)
let parse_dirs (s : string) : nat list =
  if s = "-" then [] else List.map (fun x -> nat_of_int (int_of_string x)) (String.split_on_char ',' s)

let c11d_handler verbose args = match args with
  | [ck; b; rounds; pops; wmain; wother; wx0; quiet; lens; hx; orig; pre; dirs; faults] ->
    let cks = parse_checks ck in
    let origb = unhexbytes orig in
    let j = { c11d_inp = nat_of_int 1; c11d_kept = nat_of_int 2; c11d_scratch = nat_of_int 4; c11d_temp = nat_of_int 3;
              c11d_wmain = (wmain = "1"); c11d_wother = (wother = "1"); c11d_quiet = (quiet = "1"); c11d_chunks = chunks_of lens hx } in
    let preb = parse_pre pre in
    let dirl = parse_dirs dirs in
    let one t =
      let (fo, cap, glitch) = parse_fault t in
      let en = { en_B = nat_of_int (int_of_string b); en_fault = fo; en_initcap = cap;
                 en_exit_rounds = nat_of_int (int_of_string rounds); en_ck = cks;
                 en_md5_pops = nat_of_int (int_of_string pops); en_glitch = glitch } in
      result_str verbose (c11d_run en (wx0 = "1") dirl j origb preb) in
    String.concat " " (List.map one (String.split_on_char ',' faults))
  | _ -> "?args"

let () =
  register "c11drun" (c11d_handler false);
  register "c11dtrace" (c11d_handler true);
  (* c11dobs exit|K warned unlink_failed in kept scratch temp kept_same scratch_same *)
  register "c11dobs" (fun args -> match args with
    | [ex; warned; unl; a; k; s; t; ksame; ssame] ->
      let o = { c11d_o_in = cls_of a; c11d_o_kept = cls_of k; c11d_o_scratch = cls_of s; c11d_o_temp = cls_of t;
                c11d_o_kept_same = (ksame = "1"); c11d_o_scratch_same = (ssame = "1") } in
      let safe = c11d_safe o in
      let fin = if ex = "K" then true else c11d_final_ok (nat_of_int (int_of_string ex)) (warned = "1") (unl = "1") o in
      if safe && fin then "ok" else Printf.sprintf "%s%s" (if safe then "" else "not-safe ") (if fin then "" else "final-state-wrong")
    | _ -> "?args")

(* ---- C10: the files a job processes and its exit status (Sys/JobWarnModel.v, JobWarnSpec.v) *)
(* file: two characters, open_warn has_att ("10"); lists: comma separated or "-" *)
let c10j_file_of (s : string) : c10j_file = { c10j_open_warn = (s.[0] = '1'); c10j_has_att = (s.[1] = '1') }
let c10j_files_of (s : string) : c10j_file list = if s = "-" then [] else List.map c10j_file_of (String.split_on_char ',' s)
let c10j_opt_of (s : string) : c10j_file option = if s = "-" then None else Some (c10j_file_of s)
let () =
  (* c10jexit main late pages uo attach enc split decode wx0  ->  model-exit spec-exit reported *)
  register "c10jexit" (fun args -> match args with
    | [main; late; pages; uo; attach; enc; split; decode; wx0] ->
      let j = { c10j_main = c10j_opt_of main; c10j_main_late = (late = "1"); c10j_pages = c10j_files_of pages;
                c10j_uo = c10j_files_of uo; c10j_attach = c10j_files_of attach; c10j_enc = c10j_opt_of enc;
                c10j_split = (split = "1"); c10j_decode = (decode = "1"); c10j_wx0 = (wx0 = "1") } in
      Printf.sprintf "%d %d %d" (int_of_nat (c10j_exit j)) (int_of_nat (c10j_spec_exit j)) (if c10j_reported j then 1 else 0)
    | _ -> "?args");
  (* c10jobs exit warning_lines wx0 *)
  register "c10jobs" (fun args -> match args with
    | [ex; wl; wx0] -> if c10j_obs_ok (nat_of_int (int_of_string ex)) (wl = "1") (wx0 = "1") then "ok" else "exit-status-does-not-match-warnings"
    | _ -> "?args")
