(* C14 - proofs, part H: object trees. BaseHandle::write_json with JSON::Writer (indentation, arrays, dictionaries whose
   null members are dropped, indirect references) writes, for every well-formed object tree, a text that the RFC 8259
   recogniser accepts as exactly one value - at any indentation and in front of any continuation that starts with ','
   or a line feed - and that is well-formed UTF-8; in particular a whole-document JSON text. *)
From QV Require Import Base.Bytes Gen.PdfDoc Json.JsonSpec Json.JsonEmit Json.C14ProofsA Json.C14ProofsB Json.C14ProofsC Json.C14ProofsD Json.C14ProofsE.
Local Open Scope N_scope.

Ltac Zify.zify_post_hook ::= Z.to_euclidean_division_equations.

(* ------------------------------------------------------------------ decimal integers (std::to_string) *)

Lemma dec_digits_shape : forall fuel n acc, n < 2 ^ N.of_nat fuel -> fuel <> O ->
  exists d ds, dec_digits_fuel fuel n acc = d :: ds ++ acc /\ all_digits (d :: ds) /\ (n <> 0 -> d <> 48) /\ (n = 0 -> d = 48 /\ ds = []).
Proof.
  induction fuel as [|f IH]; intros n acc Hn Hf; [congruence|].
  cbn [dec_digits_fuel]. cbv zeta.
  destruct (N.eqb_spec (n / 10) 0) as [Hq|Hq].
  - exists (48 + n mod 10), []. split; [reflexivity|]. split; [|split].
    + constructor; [|constructor]. apply is_digit_range. lia.
    + lia.
    + intros ->. split; reflexivity.
  - assert (Hf' : f <> O).
    { intros ->. change (2 ^ N.of_nat 1) with 2 in Hn. lia. }
    assert (Hq' : n / 10 < 2 ^ N.of_nat f).
    { rewrite Nat2N.inj_succ, N.pow_succ_r' in Hn. lia. }
    destruct (IH (n / 10) ((48 + n mod 10) :: acc) Hq' Hf') as (d & ds & E & D & Z & _).
    exists d, (ds ++ [48 + n mod 10]). rewrite E. split; [|split; [|split]].
    + rewrite <- app_assoc. reflexivity.
    + inversion D; subst. constructor; [assumption|]. apply Forall_app. split; [assumption|].
      constructor; [|constructor]. apply is_digit_range. lia.
    + intros _. apply Z. assumption.
    + intros ->. exfalso. apply Hq. reflexivity.
Qed.

Lemma dec_of_N_shape n : exists d ds, dec_of_N n = d :: ds /\ all_digits (d :: ds) /\ (n <> 0 -> d <> 48) /\ (n = 0 -> d = 48 /\ ds = []).
Proof.
  unfold dec_of_N.
  assert (Hn : n < 2 ^ N.of_nat (S (N.to_nat (N.log2 n)))).
  { rewrite Nat2N.inj_succ, N2Nat.id. destruct (N.eq_dec n 0) as [->|Hz]; [reflexivity|].
    apply N.log2_spec. lia. }
  destruct (dec_digits_shape _ n [] Hn ltac:(discriminate)) as (d & ds & E & D & Z & Z0).
  exists d, ds. rewrite E, app_nil_r. split; [reflexivity|]. split; [assumption|]. split; assumption.
Qed.

(* ------------------------------------------------------------------ numbers in front of a continuation *)

Definition rest_ok (r : list N) : Prop := match r with [] => True | c :: _ => c = 44 \/ c = 10 end.

Lemma rest_ok_nondigit r : rest_ok r -> match r with c :: _ => is_digit c = false | [] => True end.
Proof. destruct r as [|c r]; [trivial|]. intros [-> | ->]; reflexivity. Qed.

Lemma js_frac_exp_rest r : rest_ok r -> js_frac r = Some r /\ js_exp r = Some r.
Proof. destruct r as [|c r]; [split; reflexivity|]. intros [-> | ->]; split; reflexivity. Qed.

Lemma js_int_digits d ds r : all_digits (d :: ds) -> (d = 48 -> ds = []) ->
  match r with c :: _ => is_digit c = false | [] => True end ->
  js_int ((d :: ds) ++ r) = Some r.
Proof.
  intros D Z Hr. inversion D; subst. apply is_digit_range in H1. cbn [app js_int].
  destruct (N.eqb_spec d 48) as [->|Hd].
  - rewrite (Z eq_refl). reflexivity.
  - unfold js_in_rng. decide_tests. cbn [andb]. rewrite skip_digits_app by assumption. reflexivity.
Qed.

Lemma js_number_int neg d ds r : all_digits (d :: ds) -> (d = 48 -> ds = []) -> rest_ok r ->
  js_number (sign_pre neg ++ (d :: ds) ++ r) = Some r.
Proof.
  intros D Z Hr. unfold js_number.
  assert (E : (match sign_pre neg ++ (d :: ds) ++ r with m :: t => if m =? 45 then t else sign_pre neg ++ (d :: ds) ++ r
               | [] => sign_pre neg ++ (d :: ds) ++ r end) = (d :: ds) ++ r).
  { destruct neg; [reflexivity|]. inversion D; subst. apply is_digit_range in H1. cbn [sign_pre app]. decide_tests. reflexivity. }
  rewrite E. rewrite js_int_digits by (try assumption; apply rest_ok_nondigit; assumption).
  destruct (js_frac_exp_rest r Hr) as [-> ->]. reflexivity.
Qed.

Lemma js_number_real neg i f r : all_digits i -> all_digits f -> f <> [] ->
  (i = [48] \/ match i with b :: _ => (b =? 48) = false | [] => False end) -> rest_ok r ->
  js_number (sign_pre neg ++ (i ++ [46] ++ f) ++ r) = Some r.
Proof.
  intros Di Df Nf Zi Hr. unfold js_number.
  assert (Ni : i <> []) by (destruct Zi as [->|Zi]; [discriminate|destruct i; [contradiction|discriminate]]).
  assert (E : (match sign_pre neg ++ (i ++ [46] ++ f) ++ r with m :: t => if m =? 45 then t else sign_pre neg ++ (i ++ [46] ++ f) ++ r
               | [] => sign_pre neg ++ (i ++ [46] ++ f) ++ r end) = (i ++ [46] ++ f) ++ r).
  { destruct neg; [reflexivity|]. destruct i as [|b i']; [congruence|]. inversion Di; subst. apply is_digit_range in H1.
    cbn [sign_pre app]. decide_tests. reflexivity. }
  rewrite E. rewrite <- app_assoc.
  assert (J1 : js_int (i ++ ([46] ++ f) ++ r) = Some (([46] ++ f) ++ r)).
  { destruct i as [|b i']; [congruence|]. apply js_int_digits; [assumption| |reflexivity].
    intros ->. destruct Zi as [Zi|Zi]; [injection Zi as <-; reflexivity|discriminate]. }
  rewrite J1. destruct f as [|d f']; [congruence|]. inversion Df; subst. cbn [app js_frac]. rewrite H1.
  rewrite skip_digits_app by (try assumption; apply rest_ok_nondigit; assumption).
  destruct (js_frac_exp_rest r Hr) as [_ ->]. reflexivity.
Qed.

(* ------------------------------------------------------------------ every scalar token is a quoted, escaped, well-formed text *)

Lemma string_json_text version s : bytes_lt s ->
  exists y, utf8_valid y = true /\ jm_string_json version s = jm_q (jm_encode_string y).
Proof.
  intros Hs. unfold jm_string_json.
  pose proof (utf16_to_utf8_valid_lemma s Hs) as H16.
  pose proof (pdf_doc_to_utf8_valid_lemma s Hs) as Hpd.
  assert (H8 : jm_wf_utf8 (skipn 3 s) = true -> utf8_valid (skipn 3 s) = true) by (rewrite wf_utf8_is_utf8_valid_lemma; tauto).
  assert (Hpre : forall pre x, Forall (fun c => jm_plain_char c = true /\ c <= 127) pre -> utf8_valid x = true ->
             exists y, utf8_valid y = true /\ jm_q (pre ++ jm_encode_string x) = jm_q (jm_encode_string y)).
  { intros pre x Hp Hx. exists (pre ++ x). split.
    - rewrite utf8_valid_app; [assumption|]. apply utf8_valid_ascii_list. eapply Forall_impl; [|exact Hp]. intros ? [? ?]; assumption.
    - rewrite encode_string_app. rewrite (encode_string_plain pre (plain_of_ascii_plain _ Hp)). reflexivity. }
  destruct (version =? 1).
  - destruct (jm_is_utf16 s); [exists (jm_utf16_to_utf8 s); split; [assumption|reflexivity]|].
    destruct (jm_is_explicit_utf8 s && jm_wf_utf8 (skipn 3 s)) eqn:E.
    + apply andb_true_iff in E. exists (skipn 3 s). split; [apply H8; tauto|reflexivity].
    + exists (jm_pdf_doc_to_utf8 s). split; [assumption|reflexivity].
  - destruct (jm_is_utf16 s && jm_wf_utf16 s); [apply Hpre; [exact prefix_u_plain|assumption]|].
    destruct (jm_is_explicit_utf8 s && jm_wf_utf8 (skipn 3 s)) eqn:E.
    + apply andb_true_iff in E. apply Hpre; [exact prefix_u_plain|apply H8; tauto].
    + match goal with |- context [if ?c then _ else _] => destruct c end.
      * apply Hpre; [exact prefix_u_plain|assumption].
      * pose proof (hex_encode_ascii s Hs) as Hh.
        replace ([98; 58] ++ jm_hex_encode s) with (([98; 58] ++ jm_hex_encode s) ++ jm_encode_string []) by (simpl; rewrite app_nil_r; reflexivity).
        apply Hpre; [apply Forall_app; split; [exact prefix_b_plain|exact Hh]|reflexivity].
Qed.

(* the text a name is written as (what the JSON string denotes): plain, or n: + the PDF spelling *)
Definition jm_key_text (version : N) (n : list N) : list N :=
  if version =? 1 then jm_normalize n
  else if fst (jm_analyze n) then n else [110; 58] ++ jm_normalize n.

Lemma name_body_text version t : bytes_lt t ->
  jm_name_body version (47 :: t) = jm_encode_string (jm_key_text version (47 :: t)) /\
  utf8_valid (jm_key_text version (47 :: t)) = true.
Proof.
  intros Ht. unfold jm_name_body, jm_name_body_with, jm_key_text.
  assert (Hb : bytes_lt (47 :: t)) by (constructor; [lia|assumption]).
  assert (Hn : utf8_valid (jm_normalize (47 :: t)) = true).
  { simpl. apply utf8_valid_ascii_list. apply normalize_ascii. assumption. }
  destruct (version =? 1); [split; [reflexivity|assumption]|].
  pose proof (analyze_is_utf8_valid_lemma (47 :: t) Hb) as Ha.
  destruct (jm_analyze (47 :: t)) as [valid plain] eqn:E. cbn [fst] in *.
  destruct valid.
  - split; [|symmetry; assumption]. destruct plain; [|reflexivity].
    symmetry. apply encode_string_plain. unfold jm_analyze in E.
    apply (analyze_plain (47 :: t) Hb 0 false false false false false). rewrite E. reflexivity.
  - split.
    + rewrite encode_string_app. rewrite (encode_string_plain [110; 58]) by (repeat constructor). reflexivity.
    + rewrite utf8_valid_app; [assumption|reflexivity].
Qed.

Lemma ref_text num gen : exists y, utf8_valid y = true /\ jm_ref num gen = jm_q (jm_encode_string y).
Proof.
  unfold jm_ref. exists (dec_of_N num ++ [32] ++ dec_of_N gen ++ [32; 82]).
  assert (Hd : forall n, Forall (fun c => jm_plain_char c = true /\ c <= 127) (dec_of_N n)).
  { intros n. destruct (dec_of_N_shape n) as (d & ds & -> & D & _). eapply Forall_impl; [|exact D].
    intros c Hc. apply is_digit_range in Hc. split; [apply plain_char_spec; left; lia|lia]. }
  assert (Hall : Forall (fun c => jm_plain_char c = true /\ c <= 127) (dec_of_N num ++ [32] ++ dec_of_N gen ++ [32; 82])).
  { apply Forall_app. split; [apply Hd|]. apply Forall_app. split; [repeat constructor; vm_compute; congruence|].
    apply Forall_app. split; [apply Hd|repeat constructor; vm_compute; congruence]. }
  split.
  - apply utf8_valid_ascii_list. eapply Forall_impl; [|exact Hall]. intros ? [? ?]; assumption.
  - rewrite (encode_string_plain _ (plain_of_ascii_plain _ Hall)). reflexivity.
Qed.

(* ------------------------------------------------------------------ trees *)

Section Tree.
  Variable version : N.
  Notation emit := (jm_emit true version).

  (* the two local loops of write_json as top-level functions *)
  Fixpoint arr_items (indent : nat) (l : list jobj) (first : bool) : list N :=
    match l with
    | [] => if first then [] else 10 :: jm_spaces indent
    | x :: t => jm_next first (indent + 2) ++ emit (indent + 2) x ++ arr_items indent t false
    end.
  Fixpoint dict_members (indent : nat) (d : list (list N * jobj)) (first : bool) : list N :=
    match d with
    | [] => if first then [] else 10 :: jm_spaces indent
    | (k, v) :: t =>
      if jm_is_null v then dict_members indent t first
      else jm_next first (indent + 2) ++ jm_q (jm_name_body version k) ++ [58; 32]
           ++ emit (indent + 2) v ++ dict_members indent t false
    end.

  Lemma emit_arr indent l : emit indent (JArr l) = 91 :: arr_items indent l true ++ [93].
  Proof.
    cbn [jm_emit]. f_equal. f_equal.
    match goal with |- ?f l true = _ => enough (H : forall first, f l first = arr_items indent l first) by apply H end.
    induction l as [|x t IH]; intros first; [reflexivity|].
    cbn [arr_items]. rewrite <- IH. reflexivity.
  Qed.

  Lemma emit_dict indent d : emit indent (JDict d) = 123 :: dict_members indent d true ++ [125].
  Proof.
    cbn [jm_emit]. f_equal. f_equal.
    match goal with |- ?f d true = _ => enough (H : forall first, f d first = dict_members indent d first) by apply H end.
    induction d as [|[k v] t IH]; intros first; [reflexivity|].
    cbn [dict_members]. rewrite <- !IH. reflexivity.
  Qed.

  Definition legal_real (v : list N) : Prop :=
    exists sign ip fp, v = pdf_real_spelling sign ip fp /\ all_digits ip /\ all_digits fp /\ (ip <> [] \/ fp <> []).
  Definition name_ok (n : list N) : Prop := exists t, n = 47 :: t /\ bytes_lt t.

  (* well-formed object trees: byte strings, names with their '/', reals as the tokenizer produces them, and in every
     dictionary the members that are written (non-null) have distinct JSON keys *)
  Fixpoint wf_obj (o : jobj) : Prop :=
    match o with
    | JNull | JBool _ | JInt _ | JRef _ _ => True
    | JReal v => legal_real v
    | JStr s => bytes_lt s
    | JName n => name_ok n
    | JArr l => (fix all (l : list jobj) : Prop := match l with [] => True | x :: t => wf_obj x /\ all t end) l
    | JDict d =>
      (fix all (d : list (list N * jobj)) : Prop :=
         match d with [] => True | (k, v) :: t => name_ok k /\ wf_obj v /\ all t end) d /\
      NoDup (map (fun kv => jm_key_text version (fst kv)) (filter (fun kv => negb (jm_is_null (snd kv))) d))
    end.

  Lemma wf_arr l : wf_obj (JArr l) <-> Forall wf_obj l.
  Proof.
    cbn [wf_obj]. induction l as [|x t IH]; [split; [constructor|trivial]|].
    split.
    - intros [Hx Ht]. constructor; [assumption|apply IH; assumption].
    - intros H. inversion H; subst. split; [assumption|apply IH; assumption].
  Qed.

  Lemma wf_dict d : wf_obj (JDict d) <->
    Forall (fun kv => name_ok (fst kv) /\ wf_obj (snd kv)) d /\
    NoDup (map (fun kv => jm_key_text version (fst kv)) (filter (fun kv => negb (jm_is_null (snd kv))) d)).
  Proof.
    cbn [wf_obj]. split; intros [H1 H2]; (split; [|assumption]); clear H2.
    - induction d as [|[k v] t IH]; [constructor|]. destruct H1 as (Hk & Hv & Ht). constructor; [split; assumption|apply IH; assumption].
    - induction d as [|[k v] t IH]; [trivial|]. inversion H1; subst. destruct H2 as [Hk Hv]. repeat split; try assumption. apply IH; assumption.
  Qed.

  Section Ind.
    Variable P : jobj -> Prop.
    Hypothesis Hnull : P JNull.
    Hypothesis Hbool : forall b, P (JBool b).
    Hypothesis Hint : forall z, P (JInt z).
    Hypothesis Hreal : forall v, P (JReal v).
    Hypothesis Hstr : forall s, P (JStr s).
    Hypothesis Hname : forall n, P (JName n).
    Hypothesis Href : forall n g, P (JRef n g).
    Hypothesis Harr : forall l, Forall P l -> P (JArr l).
    Hypothesis Hdict : forall d, Forall (fun kv => P (snd kv)) d -> P (JDict d).
    Fixpoint jobj_ind2 (o : jobj) : P o :=
      match o with
      | JNull => Hnull
      | JBool b => Hbool b
      | JInt z => Hint z
      | JReal v => Hreal v
      | JStr s => Hstr s
      | JName n => Hname n
      | JRef n g => Href n g
      | JArr l => Harr l ((fix go (l : list jobj) : Forall P l :=
                             match l with [] => Forall_nil P | x :: t => Forall_cons x (jobj_ind2 x) (go t) end) l)
      | JDict d => Hdict d ((fix go (d : list (list N * jobj)) : Forall (fun kv => P (snd kv)) d :=
                               match d with
                               | [] => Forall_nil _
                               | kv :: t => Forall_cons kv (jobj_ind2 (snd kv)) (go t)
                               end) d)
      end.
  End Ind.
End Tree.

Section TreeProofs.
  Variable version : N.
  Notation emit := (jm_emit true version).
  Notation wf := (wf_obj version).

  (* ---------------- white space *)
  Lemma skip_spaces n c r : js_ws c = false -> js_skip_ws (jm_spaces n ++ c :: r) = c :: r.
  Proof.
    intros Hc. induction n as [|n IH]; cbn [jm_spaces repeat app js_skip_ws].
    - rewrite Hc. reflexivity.
    - change (js_ws 32) with true. cbv iota. exact IH.
  Qed.
  Lemma skip_nl_spaces n c r : js_ws c = false -> js_skip_ws (10 :: jm_spaces n ++ c :: r) = c :: r.
  Proof. intros Hc. cbn [js_skip_ws]. change (js_ws 10) with true. cbv iota. apply skip_spaces. assumption. Qed.

  (* ---------------- the first character of an emitted value *)
  Definition head_ok (l : list N) : Prop :=
    exists c t, l = c :: t /\ js_ws c = false /\ c <> 93 /\ c <> 125 /\ c <> 44.

  Lemma head_ok_app l r : head_ok l -> head_ok (l ++ r).
  Proof. intros (c & t & -> & H). exists c, (t ++ r). split; [reflexivity|assumption]. Qed.

  Lemma real_shape v : legal_real v -> exists neg i f, jm_real v = sign_pre neg ++ i ++ [46] ++ f /\
    all_digits i /\ all_digits f /\ f <> [] /\ (i = [48] \/ match i with b :: _ => (b =? 48) = false | [] => False end).
  Proof.
    intros (sign & ip & fp & -> & Hi & Hf & _). rewrite (jm_real_shape sign ip fp Hi Hf).
    destruct (norm_ip_digits ip Hi) as (Di & Ni & Zi). destruct (norm_fp_digits fp Hf) as (Df & Nf).
    exists (match sign with Some true => true | _ => false end), (norm_ip ip), (norm_fp fp).
    split; [destruct sign as [[|]|]; reflexivity|]. repeat split; assumption.
  Qed.

  Lemma int_shape z : exists neg d ds, dec_of_Z z = sign_pre neg ++ d :: ds /\ all_digits (d :: ds) /\ (d = 48 -> ds = []).
  Proof.
    destruct z as [|p|p]; cbn [dec_of_Z].
    - exists false, 48, []. split; [reflexivity|]. split; [repeat constructor|]. intros _; reflexivity.
    - destruct (dec_of_N_shape (Npos p)) as (d & ds & E & D & Z & _). exists false, d, ds. rewrite E.
      split; [reflexivity|]. split; [assumption|]. intros ->. exfalso. apply Z; [discriminate|reflexivity].
    - destruct (dec_of_N_shape (Npos p)) as (d & ds & E & D & Z & _). exists true, d, ds. rewrite E.
      split; [reflexivity|]. split; [assumption|]. intros ->. exfalso. apply Z; [discriminate|reflexivity].
  Qed.

  Lemma digit_head d : is_digit d = true -> js_ws d = false /\ d <> 93 /\ d <> 125 /\ d <> 44.
  Proof. intros H. apply is_digit_range in H. unfold js_ws. repeat split; try lia. decide_tests. reflexivity. Qed.

  Lemma emit_head indent o : wf o -> head_ok (emit indent o).
  Proof.
    intros Hw. destruct o as [| [|] | z | v | s | n | l | d | num gen].
    - exists 110, [117; 108; 108]. repeat split; discriminate.
    - exists 116, [114; 117; 101]. repeat split; discriminate.
    - exists 102, [97; 108; 115; 101]. repeat split; discriminate.
    - cbn [jm_emit]. destruct (int_shape z) as (neg & d & ds & -> & D & _). inversion D; subst.
      destruct neg; [exists 45, (d :: ds); repeat split; discriminate|]. exists d, ds. split; [reflexivity|]. apply digit_head. assumption.
    - cbn [jm_emit jm_real_sel]. destruct (real_shape v Hw) as (neg & i & f & -> & Di & _ & _ & Zi).
      destruct neg; [exists 45, (i ++ [46] ++ f); repeat split; discriminate|].
      destruct i as [|b i']; [destruct Zi as [Zi|[]]; discriminate|]. inversion Di; subst.
      exists b, (i' ++ [46] ++ f). split; [reflexivity|]. apply digit_head. assumption.
    - cbn [jm_emit jm_string_sel]. destruct (string_json_text version s Hw) as (y & _ & ->).
      exists 34, (jm_encode_string y ++ [34]). repeat split; discriminate.
    - exists 34, (jm_name_body version n ++ [34]). repeat split; discriminate.
    - rewrite emit_arr. exists 91, (arr_items version indent l true ++ [93]). repeat split; discriminate.
    - rewrite emit_dict. exists 123, (dict_members version indent d true ++ [125]). repeat split; discriminate.
    - exists 34, ((dec_of_N num ++ [32] ++ dec_of_N gen ++ [32; 82]) ++ [34]). repeat split; discriminate.
  Qed.
End TreeProofs.

Section TreeValue.
  Variable version : N.
  Notation emit := (jm_emit true version).
  Notation wf := (wf_obj version).

  (* one value, in front of a continuation: the recogniser consumes exactly the emitted text *)
  Definition val_ok (o : jobj) : Prop := forall indent rest fuel, rest_ok rest ->
    (2 * length (emit indent o ++ rest) + 1 <= fuel)%nat -> js_value fuel (emit indent o ++ rest) = Some rest.

  Lemma value_quoted y rest fuel : (1 <= fuel)%nat -> js_value fuel (jm_q (jm_encode_string y) ++ rest) = Some rest.
  Proof.
    intros Hf. destruct fuel as [|f]; [lia|]. unfold jm_q. cbn [app]. rewrite <- app_assoc. cbn [app js_value].
    change (34 =? 34) with true. cbv iota. rewrite js_string_encode. reflexivity.
  Qed.

  Lemma value_number f b t : ((b =? 45) || is_digit b) = true -> js_value (S f) (b :: t) = js_number (b :: t).
  Proof.
    intros H. cbn [js_value]. rewrite H.
    assert (Hb : b = 45 \/ 48 <= b <= 57).
    { apply orb_true_iff in H. destruct H as [H|H]; [left; apply N.eqb_eq; assumption|right; apply is_digit_range; assumption]. }
    destruct Hb as [-> | Hb]; [reflexivity|]. decide_tests. reflexivity.
  Qed.

  Lemma length_pos_app {A} (a b : list A) : (length a <= length (a ++ b))%nat.
  Proof. rewrite app_length. lia. Qed.

  Lemma val_ok_scalar o : wf o -> match o with JArr _ | JDict _ => False | _ => True end -> val_ok o.
  Proof.
    intros Hw Hs indent rest fuel Hr Hf.
    destruct o as [| [|] | z | v | s | n | l | d | num gen]; try contradiction.
    - destruct fuel; [cbn in Hf; lia|]. reflexivity.
    - destruct fuel; [cbn in Hf; lia|]. reflexivity.
    - destruct fuel; [cbn in Hf; lia|]. reflexivity.
    - cbn [jm_emit] in *. destruct (int_shape z) as (neg & d & ds & E & D & Z). rewrite E in *.
      destruct fuel as [|f]; [lia|].
      assert (Hh : exists b t, (sign_pre neg ++ d :: ds) ++ rest = b :: t /\ ((b =? 45) || is_digit b) = true).
      { destruct neg; [exists 45, ((d :: ds) ++ rest); split; reflexivity|]. exists d, (ds ++ rest). split; [reflexivity|].
        inversion D; subst. rewrite H1. apply orb_true_r. }
      destruct Hh as (b & t & Eb & Hb). rewrite Eb, value_number by assumption. rewrite <- Eb. rewrite <- app_assoc.
      apply js_number_int; assumption.
    - cbn [jm_emit jm_real_sel] in *. destruct (real_shape v Hw) as (neg & i & f & E & Di & Df & Nf & Zi). rewrite E in *.
      destruct fuel as [|fu]; [lia|].
      assert (Hh : exists b t, (sign_pre neg ++ i ++ [46] ++ f) ++ rest = b :: t /\ ((b =? 45) || is_digit b) = true).
      { destruct neg; [exists 45, ((i ++ [46] ++ f) ++ rest); split; reflexivity|].
        destruct i as [|b i']; [destruct Zi as [Zi|[]]; discriminate|]. exists b, ((i' ++ [46] ++ f) ++ rest). split; [reflexivity|].
        inversion Di; subst. rewrite H1. apply orb_true_r. }
      destruct Hh as (b & t & Eb & Hb). rewrite Eb, value_number by assumption. rewrite <- Eb. rewrite <- app_assoc.
      apply js_number_real; assumption.
    - cbn [jm_emit jm_string_sel] in *. destruct (string_json_text version s Hw) as (y & _ & E). rewrite E in *.
      apply value_quoted. lia.
    - cbn [jm_emit jm_name_body_sel] in *. destruct Hw as (t & -> & Ht). destruct (name_body_text version t Ht) as [E _]. rewrite E in *.
      apply value_quoted. lia.
    - cbn [jm_emit] in *. destruct (ref_text num gen) as (y & _ & E). rewrite E in *. apply value_quoted. lia.
  Qed.
End TreeValue.

Section TreeContainers.
  Variable version : N.
  Notation emit := (jm_emit true version).
  Notation wf := (wf_obj version).
  Notation items := (arr_items version).
  Notation members := (dict_members version).

  Lemma next_false n : jm_next false n = 44 :: 10 :: jm_spaces n.
  Proof. reflexivity. Qed.
  Lemma next_true n : jm_next true n = 10 :: jm_spaces n.
  Proof. reflexivity. Qed.

  Lemma rest_ok_items indent l rest : rest_ok (items indent l false ++ 93 :: rest).
  Proof. destruct l; cbn [arr_items]; [right; reflexivity|]. rewrite next_false. left. reflexivity. Qed.

  Lemma elements_ok : forall l, Forall (fun o => wf o /\ val_ok version o) l ->
    forall x indent rest fuel, wf x -> val_ok version x ->
    (2 * length (emit (indent + 2) x ++ items indent l false ++ 93%N :: rest) + 2 <= fuel)%nat ->
    js_elements fuel (emit (indent + 2) x ++ items indent l false ++ 93 :: rest) = Some rest.
  Proof.
    induction 1 as [|y t [Hwy Hvy] Ht IH]; intros x indent rest fuel Hwx Hvx Hf.
    - destruct fuel as [|f]; [lia|]. cbn [js_elements].
      rewrite (Hvx (indent + 2)%nat (items indent [] false ++ 93 :: rest) f (rest_ok_items indent [] rest)) by lia.
      cbn [arr_items app]. rewrite skip_nl_spaces by reflexivity. reflexivity.
    - destruct fuel as [|f]; [lia|]. cbn [js_elements].
      rewrite (Hvx (indent + 2)%nat (items indent (y :: t) false ++ 93 :: rest) f (rest_ok_items indent (y :: t) rest)) by lia.
      cbn [arr_items]. rewrite next_false. cbn [app js_skip_ws]. change (js_ws 44) with false. cbv iota.
      change (44 =? 93) with false. change (44 =? 44) with true. cbv iota.
      destruct (emit_head version (indent + 2) y Hwy) as (c & t' & Ec & Hc & _).
      rewrite <- !app_assoc. rewrite Ec. cbn [app]. rewrite skip_nl_spaces by assumption.
      change (c :: t' ++ items indent t false ++ 93 :: rest) with ((c :: t') ++ items indent t false ++ 93 :: rest).
      rewrite <- Ec. apply IH; try assumption.
      revert Hf. cbn [arr_items]. rewrite next_false. repeat first [rewrite app_length | progress cbn [length app]]. lia.
  Qed.

  Lemma val_ok_arr l : Forall (fun o => wf o /\ val_ok version o) l -> val_ok version (JArr l).
  Proof.
    intros Hl indent rest fuel Hr Hf. rewrite emit_arr in *. cbn [app] in *. rewrite <- app_assoc in *. cbn [app] in *.
    destruct fuel as [|f]; [lia|]. cbn [js_value]. change (91 =? 34) with false. change (91 =? 123) with false. change (91 =? 91) with true. cbv iota.
    destruct l as [|x t].
    - reflexivity.
    - inversion Hl as [|? ? [Hwx Hvx] Ht]; subst. cbn [arr_items]. rewrite next_true.
      destruct (emit_head version (indent + 2) x Hwx) as (c & t' & Ec & Hc & H93 & _).
      rewrite <- !app_assoc. rewrite Ec. cbn [app]. rewrite skip_nl_spaces by assumption.
      destruct (N.eqb_spec c 93); [contradiction|].
      change (c :: t' ++ items indent t false ++ 93 :: rest) with ((c :: t') ++ items indent t false ++ 93 :: rest).
      rewrite <- Ec. apply elements_ok; try assumption.
      revert Hf. cbn [arr_items]. rewrite next_true. repeat first [rewrite app_length | progress cbn [length app]]. lia.
  Qed.
End TreeContainers.

Section TreeDict.
  Variable version : N.
  Notation emit := (jm_emit true version).
  Notation wf := (wf_obj version).
  Notation members := (dict_members version).
  Notation vok := (val_ok version).

  Definition ktexts (d : list (list N * jobj)) : list (list N) :=
    map (fun kv => jm_key_text version (fst kv)) (filter (fun kv => negb (jm_is_null (snd kv))) d).

  Lemma mem_bytes_false k keys : ~ In k keys -> js_mem_bytes k keys = false.
  Proof.
    induction keys as [|a t IH]; intros H; [reflexivity|]. cbn [js_mem_bytes]. apply orb_false_iff. split.
    - destruct (list_eqb N.eqb k a) eqn:E; [|reflexivity]. apply list_eqb_N_eq in E. subst. exfalso. apply H. left. reflexivity.
    - apply IH. intros Hin. apply H. right. assumption.
  Qed.

  Definition member_tail (f : nat) (R : list N) (keys : list (list N)) : option (list N) :=
    match js_skip_ws R with
    | c :: r3 => if c =? 125 then Some r3 else if c =? 44 then js_members f (js_skip_ws r3) keys else None
    | [] => None
    end.

  Lemma member_step t v indent R f keys : bytes_lt t -> wf v -> vok v ->
    ~ In (jm_key_text version (47 :: t)) keys -> rest_ok R ->
    (2 * length (emit indent v ++ R) + 1 <= f)%nat ->
    js_members (S f) (jm_q (jm_name_body version (47 :: t)) ++ 58 :: 32 :: emit indent v ++ R) keys
    = member_tail f R (jm_key_text version (47 :: t) :: keys).
  Proof.
    intros Ht Hw Hv Hk Hr Hf. destruct (name_body_text version t Ht) as [E _]. rewrite E.
    unfold jm_q. cbn [app]. rewrite <- app_assoc. cbn [app js_members].
    rewrite js_string_encode. rewrite (mem_bytes_false _ _ Hk). cbv iota.
    cbn [js_skip_ws]. change (js_ws 58) with false. cbv iota.
    destruct (emit_head version indent v Hw) as (c & t' & Ec & Hc & _).
    change (js_ws 32) with true. cbv iota.
    rewrite Ec. cbn [app js_skip_ws]. rewrite Hc. change (c :: t' ++ R) with ((c :: t') ++ R). rewrite <- Ec.
    change (js_ws 32) with true. cbv iota.
    rewrite (Hv indent R f Hr Hf). reflexivity.
  Qed.

  Lemma rest_ok_members indent d rest : rest_ok (members indent d false ++ 125 :: rest).
  Proof.
    induction d as [|[k v] t IH]; cbn [dict_members]; [right; reflexivity|].
    destruct (jm_is_null v); [exact IH|]. left. reflexivity.
  Qed.

  Lemma ktexts_cons k v t : ktexts ((k, v) :: t) = if jm_is_null v then ktexts t else jm_key_text version k :: ktexts t.
  Proof. unfold ktexts. cbn [filter snd]. destruct (jm_is_null v); reflexivity. Qed.

  Lemma skip_to_q n body X : js_skip_ws (10 :: jm_spaces n ++ jm_q body ++ X) = jm_q body ++ X.
  Proof. unfold jm_q. cbn [app]. apply skip_nl_spaces. reflexivity. Qed.

  Ltac norm := repeat first [rewrite <- app_assoc | progress cbn [app]].

  Lemma members_tail_ok : forall d, Forall (fun kv => name_ok (fst kv) /\ wf (snd kv) /\ vok (snd kv)) d ->
    forall indent rest keys f, NoDup (ktexts d) -> (forall x, In x (ktexts d) -> ~ In x keys) ->
    (2 * length (members indent d false ++ 125%N :: rest) + 1 <= f)%nat ->
    member_tail f (members indent d false ++ 125 :: rest) keys = Some rest.
  Proof.
    induction 1 as [|[k v] t (Hk & Hw & Hv) Ht IH]; intros indent rest keys f Hnd Hdis Hf.
    - unfold member_tail. cbn [dict_members app]. rewrite skip_nl_spaces by reflexivity. reflexivity.
    - cbn [fst snd] in *. rewrite ktexts_cons in Hnd, Hdis. cbn [dict_members] in *.
      destruct (jm_is_null v); [apply IH; assumption|].
      destruct Hk as (tk & -> & Htk).
      unfold member_tail. rewrite next_false. norm. cbn [js_skip_ws]. change (js_ws 44) with false. cbv iota.
      change (44 =? 125) with false. change (44 =? 44) with true. cbv iota.
      rewrite skip_to_q.
      destruct f as [|f']; [cbn in Hf; lia|].
      inversion Hnd as [|? ? Hnin Hnd']; subst.
      rewrite member_step; try assumption.
      + apply IH; [assumption| |].
        * intros x Hx [<-|Hin]; [contradiction|]. apply (Hdis x); [right; assumption|assumption].
        * revert Hf. rewrite next_false. unfold jm_q. repeat first [rewrite app_length | progress cbn [length app]]. lia.
      + apply Hdis. left. reflexivity.
      + apply rest_ok_members.
      + revert Hf. rewrite next_false. unfold jm_q. repeat first [rewrite app_length | progress cbn [length app]]. lia.
  Qed.

  Lemma members_first_ok : forall d, Forall (fun kv => name_ok (fst kv) /\ wf (snd kv) /\ vok (snd kv)) d ->
    forall indent rest f, NoDup (ktexts d) ->
    (2 * length (members indent d true ++ 125%N :: rest) + 2 <= f)%nat ->
    match js_skip_ws (members indent d true ++ 125 :: rest) with
    | c :: t' => if c =? 125 then Some t' else js_members f (c :: t') []
    | [] => None
    end = Some rest.
  Proof.
    induction 1 as [|[k v] t (Hk & Hw & Hv) Ht IH]; intros indent rest f Hnd Hf.
    - reflexivity.
    - cbn [fst snd] in *. rewrite ktexts_cons in Hnd. cbn [dict_members] in *.
      destruct (jm_is_null v); [apply IH; assumption|].
      destruct Hk as (tk & -> & Htk).
      rewrite next_true. norm. rewrite skip_to_q. unfold jm_q at 1. cbn [app].
      change (34 =? 125) with false. cbv iota.
      change (34 :: (jm_name_body version (47 :: tk) ++ [34]) ++ 58 :: 32 :: emit (indent + 2) v ++ members indent t false ++ 125 :: rest)
        with (jm_q (jm_name_body version (47 :: tk)) ++ 58 :: 32 :: emit (indent + 2) v ++ members indent t false ++ 125 :: rest).
      destruct f as [|f']; [cbn in Hf; lia|].
      inversion Hnd as [|? ? Hnin Hnd']; subst.
      rewrite member_step; try assumption.
      + apply (members_tail_ok t Ht); [assumption| |].
        * intros x Hx [<-|[]]. contradiction.
        * revert Hf. rewrite next_true. unfold jm_q. repeat first [rewrite app_length | progress cbn [length app]]. lia.
      + intros [].
      + apply rest_ok_members.
      + revert Hf. rewrite next_true. unfold jm_q. repeat first [rewrite app_length | progress cbn [length app]]. lia.
  Qed.

  Lemma val_ok_dict d : Forall (fun kv => name_ok (fst kv) /\ wf (snd kv) /\ vok (snd kv)) d -> NoDup (ktexts d) -> vok (JDict d).
  Proof.
    intros Hd Hnd indent rest fuel Hr Hf. rewrite emit_dict in *. cbn [app] in *. rewrite <- app_assoc in *. cbn [app] in *.
    destruct fuel as [|f]; [lia|]. cbn [js_value]. change (123 =? 34) with false. change (123 =? 123) with true. cbv iota.
    apply members_first_ok; try assumption. cbn [length] in Hf. lia.
  Qed.
End TreeDict.

Section TreeFinal.
  Variable version : N.
  Notation emit := (jm_emit true version).
  Notation wf := (wf_obj version).

  Lemma val_ok_all : forall o, wf o -> val_ok version o.
  Proof.
    induction o using jobj_ind2; intros Hw; try (apply val_ok_scalar; [assumption|exact I]).
    - (* array *)
      apply wf_arr in Hw. apply val_ok_arr. rewrite Forall_forall in *. intros x Hx. split; [apply Hw; assumption|].
      apply H; [assumption|apply Hw; assumption].
    - (* dictionary *)
      apply wf_dict in Hw. destruct Hw as [Hd Hnd]. apply val_ok_dict; [|exact Hnd].
      rewrite Forall_forall in *. intros kv Hkv. destruct (Hd kv Hkv) as [Hk Hv]. repeat split; try assumption.
      apply H; assumption.
  Qed.

  (* ---------------- the emitted text is well-formed UTF-8 *)
  Lemma utf8_app a b : utf8_valid a = true -> utf8_valid b = true -> utf8_valid (a ++ b) = true.
  Proof. intros Ha Hb. rewrite utf8_valid_app; assumption. Qed.

  Lemma spaces_utf8 n : utf8_valid (jm_spaces n) = true.
  Proof. induction n; [reflexivity|]. cbn [jm_spaces repeat]. rewrite utf8_valid_ascii by lia. exact IHn. Qed.

  Lemma next_utf8 first n : utf8_valid (jm_next first n) = true.
  Proof. destruct first; [rewrite next_true|rewrite next_false]; rewrite ?utf8_valid_ascii by lia; apply spaces_utf8. Qed.

  Lemma quoted_utf8 y : utf8_valid y = true -> utf8_valid (jm_q (jm_encode_string y)) = true.
  Proof.
    intros Hy. unfold jm_q. rewrite utf8_valid_ascii by lia. apply utf8_app; [apply encode_string_utf8; assumption|reflexivity].
  Qed.

  Lemma digits_utf8 l : all_digits l -> utf8_valid l = true.
  Proof.
    intros H. apply utf8_valid_ascii_list. eapply Forall_impl; [|exact H]. intros c Hc. apply is_digit_range in Hc. lia.
  Qed.

  Lemma sign_pre_utf8 neg : utf8_valid (sign_pre neg) = true.
  Proof. destruct neg; reflexivity. Qed.

  Lemma emit_utf8 : forall o, wf o -> forall indent, utf8_valid (emit indent o) = true.
  Proof.
    induction o using jobj_ind2; intros Hw indent.
    - reflexivity.
    - destruct b; reflexivity.
    - cbn [jm_emit]. destruct (int_shape z) as (neg & d & ds & -> & D & _). apply utf8_app; [apply sign_pre_utf8|apply digits_utf8; assumption].
    - cbn [jm_emit jm_real_sel]. destruct (real_shape v Hw) as (neg & i & f & -> & Di & Df & _).
      apply utf8_app; [apply sign_pre_utf8|]. apply utf8_app; [apply digits_utf8; assumption|].
      cbn [app]. rewrite utf8_valid_ascii by lia. apply digits_utf8. assumption.
    - cbn [jm_emit jm_string_sel]. destruct (string_json_text version s Hw) as (y & Hy & ->). apply quoted_utf8. assumption.
    - cbn [jm_emit jm_name_body_sel]. destruct Hw as (t & -> & Ht). destruct (name_body_text version t Ht) as [-> Hy]. apply quoted_utf8. assumption.
    - cbn [jm_emit]. destruct (ref_text n g) as (y & Hy & ->). apply quoted_utf8. assumption.
    - rewrite emit_arr. apply wf_arr in Hw. rewrite utf8_valid_ascii by lia. apply utf8_app; [|reflexivity].
      enough (Hall : forall first, utf8_valid (arr_items version indent l first) = true) by apply Hall.
      induction l as [|x t IHl]; intros first.
      + destruct first; [reflexivity|]. cbn [arr_items]. rewrite utf8_valid_ascii by lia. apply spaces_utf8.
      + inversion Hw; subst. inversion H; subst. cbn [arr_items]. apply utf8_app; [apply next_utf8|].
        apply utf8_app; [apply H4; assumption|]. apply IHl; assumption.
    - rewrite emit_dict. apply wf_dict in Hw. destruct Hw as [Hd _]. rewrite utf8_valid_ascii by lia. apply utf8_app; [|reflexivity].
      enough (Hall : forall first, utf8_valid (dict_members version indent d first) = true) by apply Hall.
      induction d as [|[k v] t IHd]; intros first.
      + destruct first; [reflexivity|]. cbn [dict_members]. rewrite utf8_valid_ascii by lia. apply spaces_utf8.
      + inversion Hd as [|? ? [Hk Hv] Hd']; subst. inversion H as [|? ? Hp Hp']; subst. cbn [fst snd] in *. cbn [dict_members].
        destruct (jm_is_null v); [apply IHd; assumption|].
        destruct Hk as (tk & -> & Htk). destruct (name_body_text version tk Htk) as [E Hy].
        apply utf8_app; [apply next_utf8|]. apply utf8_app; [rewrite E; apply quoted_utf8; assumption|].
        apply utf8_app; [reflexivity|]. apply utf8_app; [apply Hp; assumption|]. apply IHd; assumption.
  Qed.

  (* Every well-formed object tree is written, at any indentation, as a strictly valid JSON text. *)
  Lemma json_value_valid_tree : forall o indent, wf o -> json_valid (emit indent o) = true.
  Proof.
    intros o indent Hw. unfold json_valid. rewrite emit_utf8 by assumption. cbn [andb].
    unfold json_grammar. destruct (emit_head version indent o Hw) as (c & t & E & Hc & _).
    assert (Hs : js_skip_ws (emit indent o) = emit indent o) by (rewrite E; cbn [js_skip_ws]; rewrite Hc; reflexivity).
    rewrite Hs. pose proof (val_ok_all o Hw indent [] (S (S (2 * length (emit indent o)))) I) as V.
    rewrite app_nil_r in V. rewrite V by lia. reflexivity.
  Qed.
End TreeFinal.

(* BaseHandle::write_json on object trees (JSON v1 and v2, any writer depth): valid JSON, valid UTF-8, no duplicate keys. *)
Lemma json_value_valid_lemma : forall version indent o, wf_obj version o -> json_valid (jm_emit true version indent o) = true.
Proof. intros. apply json_value_valid_tree. assumption. Qed.

(* the hypothesis on dictionary keys is met by distinct names: names without NUL have distinct JSON key texts (v2) *)
Lemma key_text_injective_lemma : forall t1 t2, bytes_lt t1 -> bytes_lt t2 -> no_nul t1 -> no_nul t2 ->
  jm_key_text 2 (47 :: t1) = jm_key_text 2 (47 :: t2) -> t1 = t2.
Proof.
  intros t1 t2 H1 H2 N1 N2. unfold jm_key_text. change (2 =? 1) with false. cbv iota.
  destruct (fst (jm_analyze (47 :: t1))), (fst (jm_analyze (47 :: t2))); intros E.
  - injection E. tauto.
  - discriminate.
  - discriminate.
  - cbn [app jm_normalize] in E. injection E as E.
    pose proof (name_token_normalized false t1 [] H1 N1) as D1. pose proof (name_token_normalized false t2 [] H2 N2) as D2.
    rewrite E in D1. rewrite D1 in D2. injection D2 as D2. rewrite !app_nil_r, !rev'_rev, !rev_involutive in D2. assumption.
Qed.

(* D1 inside a tree, on the pinned code: [ +1.5 ] *)
Lemma json_value_valid_refuted_lemma :
  exists o, wf_obj 2 o /\ json_valid (jm_emit false 2 0 o) = false.
Proof.
  exists (JArr [JReal [43; 49; 46; 53]]). split.
  - cbn. split; [|exact I]. exists (Some false), [49], [53]. split; [reflexivity|]. split; [repeat constructor|].
    split; [repeat constructor|]. left. discriminate.
  - vm_compute. reflexivity.
Qed.
