(* C18 proofs, part 13: UTF-8 preserves the order of code points, hence std::string < on getUTF8Value() -- what
   compareKeys computes -- orders keys as the specification orders their texts (Struct/NNKeySpec.v: ks_text_order),
   whatever the text, up to U+10FFFF and beyond (every value below 2^20 + 2^16 = 0x110000).

   Method: the UTF-8 forms of c and c + 1 differ first at a byte that is smaller in the form of c (nk_slt), decided for
   every c by computation (a balanced recursion over the range, ~1.1 million code points, evaluated once by the
   kernel's virtual machine); nk_slt is transitive; so the forms of any c1 < c2 compare that way, and the comparison
   of two concatenations of forms is decided at the first code point where the texts differ. *)
From QV Require Import Base.Bytes Json.JsonEmit Struct.NNTreeModel Struct.NNKeys Struct.NNKeySpec Struct.C18ProofsN Struct.C18ProofsR.

Fixpoint nk_adj_chk (d : nat) (lo : N) : bool :=
  match d with
  | O => nk_slt (jm_to_utf8 lo) (jm_to_utf8 (lo + 1))
  | S d' => nk_adj_chk d' lo && nk_adj_chk d' (lo + 2 ^ N.of_nat d')
  end.

(* vm_cast_no_check only skips the evaluation at tactic time; Qed checks the cast with the kernel's virtual machine (once) *)
Lemma nk_adj_sweep_low : nk_adj_chk 20 0 = true.
Proof. vm_cast_no_check (eq_refl true). Qed.
Lemma nk_adj_sweep_high : nk_adj_chk 16 1048576 = true.
Proof. vm_cast_no_check (eq_refl true). Qed.

Lemma nk_adj_sound : forall d lo, nk_adj_chk d lo = true ->
  forall c, (lo <= c < lo + 2 ^ N.of_nat d)%N -> nk_slt (jm_to_utf8 c) (jm_to_utf8 (c + 1)) = true.
Proof.
  induction d as [|d IH]; intros lo H c Hc.
  - simpl in Hc. assert (c = lo) by lia. subst. exact H.
  - cbn [nk_adj_chk] in H. apply andb_prop in H. destruct H as [H1 H2].
    rewrite Nat2N.inj_succ, N.pow_succ_r' in Hc.
    destruct (N.lt_ge_cases c (lo + 2 ^ N.of_nat d)) as [Hlt|Hge].
    + apply (IH lo H1). lia.
    + apply (IH (lo + 2 ^ N.of_nat d)%N H2). lia.
Qed.

Lemma nk_adj : forall c, (c < 1114112)%N -> nk_slt (jm_to_utf8 c) (jm_to_utf8 (c + 1)) = true.
Proof.
  intros c Hc. destruct (N.lt_ge_cases c 1048576) as [Hlt|Hge].
  - apply (nk_adj_sound 20 0 nk_adj_sweep_low). change (2 ^ N.of_nat 20)%N with 1048576%N. lia.
  - apply (nk_adj_sound 16 1048576 nk_adj_sweep_high). change (2 ^ N.of_nat 16)%N with 65536%N. lia.
Qed.

Lemma nk_slt_trans : forall a b c, nk_slt a b = true -> nk_slt b c = true -> nk_slt a c = true.
Proof.
  induction a as [|x a IH]; intros [|y b] [|z c] H1 H2; simpl in *; try discriminate.
  destruct (N.ltb_spec x y) as [Hxy|Hxy].
  - destruct (N.ltb_spec y z) as [Hyz|Hyz].
    + destruct (N.ltb_spec x z); [reflexivity|lia].
    + destruct (N.eqb_spec y z) as [->|?]; [|discriminate]. destruct (N.ltb_spec x z); [reflexivity|lia].
  - destruct (N.eqb_spec x y) as [->|?]; [|discriminate].
    destruct (N.ltb_spec y z) as [Hyz|Hyz]; [reflexivity|].
    destruct (N.eqb_spec y z) as [->|?]; [|discriminate]. apply (IH b c); assumption.
Qed.

Lemma nk_enc_lt_nat : forall (k : nat) c, (c + N.of_nat k < 1114112)%N ->
  nk_slt (jm_to_utf8 c) (jm_to_utf8 (c + 1 + N.of_nat k)) = true.
Proof.
  induction k as [|k IH]; intros c Hc.
  - rewrite N.add_0_r. apply nk_adj. simpl in Hc. lia.
  - apply (nk_slt_trans _ (jm_to_utf8 (c + 1 + N.of_nat k))).
    + apply IH. lia.
    + replace (c + 1 + N.of_nat (S k))%N with (c + 1 + N.of_nat k + 1)%N by lia. apply nk_adj. lia.
Qed.

(* U1.  UTF-8 is an order embedding of code points into byte strings, and no form is a prefix of another *)
Lemma nk_utf8_order_embedding_lemma : forall c1 c2 : N, (c1 < c2)%N -> (c2 <= 1114112)%N ->
  nk_slt (jm_to_utf8 c1) (jm_to_utf8 c2) = true.
Proof.
  intros c1 c2 H12 H2. replace c2 with (c1 + 1 + N.of_nat (N.to_nat (c2 - c1 - 1)))%N by lia.
  apply nk_enc_lt_nat. lia.
Qed.

Lemma nk_enc_nonempty : forall c, (c < 1114112)%N -> jm_to_utf8 c <> [].
Proof. intros c Hc E. pose proof (nk_adj c Hc) as H. rewrite E in H. discriminate. Qed.

(* U2.  std::string < on the UTF-8 forms of two texts = the order of the texts, code point by code point *)
Lemma nk_utf8_text_order_lemma : forall ta tb : list N,
  Forall (fun c => (c < 1114112)%N) ta -> Forall (fun c => (c < 1114112)%N) tb ->
  nn_scmp (flat_map jm_to_utf8 ta) (flat_map jm_to_utf8 tb) = ks_text_order ta tb.
Proof.
  induction ta as [|x ta IH]; intros [|y tb] Ha Hb.
  - reflexivity.
  - inversion Hb as [|? ? Hy _]; subst. cbn [flat_map ks_text_order].
    pose proof (nk_enc_nonempty y Hy). destruct (jm_to_utf8 y); [congruence|reflexivity].
  - inversion Ha as [|? ? Hx _]; subst. cbn [flat_map ks_text_order].
    pose proof (nk_enc_nonempty x Hx). destruct (jm_to_utf8 x); [congruence|reflexivity].
  - inversion Ha as [|? ? Hx Ha']; subst. inversion Hb as [|? ? Hy Hb']; subst. cbn [flat_map ks_text_order].
    destruct (N.ltb_spec x y) as [Hxy|Hxy].
    + apply nk_slt_app. apply nk_utf8_order_embedding_lemma; lia.
    + destruct (N.ltb_spec y x) as [Hyx|Hyx].
      * rewrite nk_scmp_sym. rewrite (nk_slt_app (jm_to_utf8 y) (jm_to_utf8 x)); [reflexivity|].
        apply nk_utf8_order_embedding_lemma; lia.
      * assert (x = y) by lia. subst. rewrite nk_scmp_app_same. apply IH; assumption.
Qed.

(* U3.  Keys written in UTF-8 with the PDF 2.0 mark (EF BB BF followed by the UTF-8 form of the text): getUTF8Value is
   the UTF-8 form of the text and compareKeys is the order of the texts; also against PDFDocEncoded keys (S2). *)
Lemma nk_marked_utf8_value : forall body : list N, nk_utf8_value (239 :: 187 :: 191 :: body)%N = body.
Proof. intros body. reflexivity. Qed.

Lemma nk_compare_names_utf8_marked_lemma : forall ta tb : list N,
  Forall (fun c => (c < 1114112)%N) ta -> Forall (fun c => (c < 1114112)%N) tb ->
  nk_compare_names (239 :: 187 :: 191 :: flat_map jm_to_utf8 ta)%N (239 :: 187 :: 191 :: flat_map jm_to_utf8 tb)%N =
  ks_text_order ta tb.
Proof.
  intros ta tb Ha Hb. unfold nk_compare_names. rewrite !nk_marked_utf8_value. apply nk_utf8_text_order_lemma; assumption.
Qed.

(* a PDFDocEncoded key against a key in marked UTF-8: still the order of the texts (Annex D.2 characters are < 0x110000) *)
Lemma nk_annex_d_bound : forallb (fun b => match ks_pdfdoc_char b with Some u => (u <? 1114112)%N | None => true end) all_bytes = true.
Proof. vm_compute. reflexivity. Qed.
Lemma nk_chars_bound : forall a ta, ks_chars a = Some ta -> Forall (fun c => (c < 1114112)%N) ta.
Proof.
  induction a as [|x a IH]; intros ta H; cbn [ks_chars] in H.
  - injection H as <-. constructor.
  - destruct (ks_pdfdoc_char x) as [u|] eqn:Ex; [|discriminate]. destruct (ks_chars a) as [t|]; [|discriminate].
    injection H as <-. constructor; [|apply IH; reflexivity].
    pose proof (byte_sweep _ nk_annex_d_bound x (nk_char_byte x u Ex)) as Hb. cbv beta in Hb. rewrite Ex in Hb.
    apply N.ltb_lt. exact Hb.
Qed.
Lemma nk_compare_names_pdfdoc_vs_utf8_lemma : forall (a ta tb : list N),
  ks_pdfdoc_text a = Some ta -> Forall (fun c => (c < 1114112)%N) tb ->
  nk_compare_names a (239 :: 187 :: 191 :: flat_map jm_to_utf8 tb)%N = ks_text_order ta tb.
Proof.
  intros a ta tb Ha Hb. unfold nk_compare_names. rewrite nk_marked_utf8_value, (nk_utf8_value_pdfdoc_text_lemma a ta Ha).
  apply nk_utf8_text_order_lemma; [|exact Hb].
  unfold ks_pdfdoc_text in Ha. destruct (ks_unmarked a); [|discriminate]. apply (nk_chars_bound a ta Ha).
Qed.
