(* C05: proofs about qpdf's key derivation model (KeyDeriv.v) against the ISO reference reader
   (IsoRef.v): files written with R <= 4. Lemmas named *_lemma become the theorems of
   Props/Properties_C05.v. *)
From QV Require Import Base.Bytes Crypto.Nib Filters.Filters Filters.C15ProofsB.
From QV Require Import Crypto.MD5 Crypto.SHA2Fast Crypto.AES Crypto.AesPdf Crypto.KeyDeriv Crypto.IsoRef Crypto.Perms.
Local Open Scope N_scope.

(* ------------------------------------------------------------------ statements' vocabulary *)

(* what the reader sees of an encryption dictionary *)
Definition to_iso (ed : enc_data) : iso_dict :=
  {| iso_R := ed_R ed; iso_keylen := ed_len ed; iso_P := ed_P ed; iso_O := ed_O ed; iso_U := ed_U ed;
     iso_OE := ed_OE ed; iso_UE := ed_UE ed; iso_Perms := ed_Perms ed; iso_id := ed_id1 ed;
     iso_encmeta := ed_encmeta ed |}.

(* Encryption(V, R, Length_bytes, P, "", "", "", "", "", id1, encrypt_metadata) *)
Definition base_ed (V R len P : N) (id1 : list N) (em : bool) : enc_data :=
  {| ed_V := V; ed_R := R; ed_len := len; ed_P := P; ed_O := []; ed_U := []; ed_OE := []; ed_UE := [];
     ed_Perms := []; ed_id1 := id1; ed_encmeta := em |}.

(* the (V, R, Length_bytes) triples QPDFWriter::setR2/R3/R4EncryptionParameters use *)
Definition scheme_V4 (V R len : N) : Prop :=
  (V = 1 /\ R = 2 /\ len = 5) \/ (V = 2 /\ R = 3 /\ len = 16) \/ (V = 4 /\ R = 4 /\ len = 16).

(* "when an empty owner password is given, the user password is used as both" *)
Definition eff_owner (u o : list N) : list N := match o with [] => u | _ => o end.

(* ------------------------------------------------------------------ small facts *)
Lemma length_md5 : forall m, length (md5 m) = 16%nat.
Proof.
  intros m. unfold md5. destruct (md5_blocks _ _ _) as [[[a b] c] d]. reflexivity.
Qed.

Global Opaque md5 rc4.

Lemma kd_padding_is_iso : kd_padding_string = iso_pad_string.
Proof. reflexivity. Qed.

Lemma firstn_app_ge {A} : forall (l1 l2 : list A) n, (n <= length l1)%nat -> firstn n (l1 ++ l2) = firstn n l1.
Proof.
  intros l1 l2 n H. rewrite firstn_app. replace (n - length l1)%nat with 0%nat by lia.
  simpl. apply app_nil_r.
Qed.

Lemma kd_pad_is_iso : forall pw, kd_pad_password pw = iso_pad32 pw.
Proof.
  intros pw. unfold kd_pad_password, iso_pad32, kd_key_bytes. rewrite kd_padding_is_iso.
  destruct (Nat.ltb (length pw) 32) eqn:E; [reflexivity|].
  apply Nat.ltb_ge in E. symmetry. apply firstn_app_ge. exact E.
Qed.

Lemma length_iso_pad32 : forall pw, length (iso_pad32 pw) = 32%nat.
Proof.
  intros pw. unfold iso_pad32. rewrite firstn_length, app_length.
  change (length iso_pad_string) with 32%nat. lia.
Qed.

Lemma iso_pad32_idem : forall pw, iso_pad32 (iso_pad32 pw) = iso_pad32 pw.
Proof.
  intros pw. unfold iso_pad32 at 1. rewrite firstn_app_ge by (rewrite length_iso_pad32; lia).
  apply firstn_all2. rewrite length_iso_pad32. lia.
Qed.

Lemma le32_is_iso : forall p, bytes_le32 p = iso_le32 p.
Proof.
  intros p. unfold bytes_le32, iso_le32.
  change 255 with (N.ones 8). rewrite !N.land_ones, !N.shiftr_div_pow2. reflexivity.
Qed.

Lemma iso_iter_comm {A} : forall (f : A -> A) n x, iso_iter n f (f x) = f (iso_iter n f x).
Proof. induction n as [|n IH]; intros x; simpl; [reflexivity|]. rewrite IH. reflexivity. Qed.

Lemma kd_md5_iter_is_iso : forall n len d, kd_md5_iter n len d = iso_iter n (fun h => md5 (firstn len h)) d.
Proof.
  induction n as [|n IH]; intros len d; cbn [kd_md5_iter iso_iter]; [reflexivity|].
  rewrite IH. apply (iso_iter_comm (fun h => md5 (firstn len h))).
Qed.

Lemma iso_iter_md5_length : forall n d, length d = 16%nat -> length (iso_iter n md5 d) = 16%nat.
Proof. destruct n; intros d H; simpl; [exact H|apply length_md5]. Qed.

(* with a 16-byte key "the first n bytes of the hash" is the whole hash *)
Lemma iter_firstn16_is_whole : forall n d, length d = 16%nat ->
  iso_iter n (fun h => md5 (firstn 16 h)) d = iso_iter n md5 d.
Proof.
  induction n as [|n IH]; intros d H; cbn [iso_iter]; [reflexivity|].
  rewrite IH by exact H. rewrite firstn_all2; [reflexivity|].
  rewrite iso_iter_md5_length by exact H. lia.
Qed.

Lemma rc4_stream_length : forall d st x y, length (rc4_stream d st x y) = length d.
Proof.
  induction d as [|b t IH]; intros st x y; [reflexivity|]. cbn [rc4_stream length]. rewrite IH. reflexivity.
Qed.
Lemma rc4_length : forall k d, length (rc4 k d) = length d.
Proof.
  Local Transparent rc4.
  intros k d. unfold rc4. apply rc4_stream_length.
  Local Opaque rc4.
Qed.

Lemma xor_key_0 : forall k, map (fun b => N.lxor b 0) k = k.
Proof. induction k as [|a k IH]; simpl; [reflexivity|]. rewrite N.lxor_0_r, IH. reflexivity. Qed.

(* the forward RC4 cascade of iterate_rc4 as a fold over the pass numbers *)
Lemma kd_rc4_loop_fold : forall n i iters okey data,
  kd_iterate_rc4_loop n (N.of_nat i) iters false okey data =
  fold_left (fun x j => rc4 (iso_xor_key okey j) x) (map N.of_nat (seq i n)) data.
Proof.
  induction n as [|n IH]; intros i iters okey data; [reflexivity|].
  cbn [kd_iterate_rc4_loop seq map fold_left].
  replace (N.of_nat i + 1) with (N.of_nat (S i)) by lia. rewrite IH. reflexivity.
Qed.

(* the backward cascade: xor value iterations-1-i for i = 0 .. *)
Lemma kd_rc4_loop_rev_fold : forall n i iters okey data, (i + n = N.to_nat iters)%nat ->
  kd_iterate_rc4_loop n (N.of_nat i) iters true okey data =
  fold_left (fun x j => rc4 (iso_xor_key okey j) x) (map N.of_nat (rev (seq 0 n))) data.
Proof.
  induction n as [|n IH]; intros i iters okey data H; [reflexivity|].
  cbn [kd_iterate_rc4_loop]. replace (N.of_nat i + 1) with (N.of_nat (S i)) by lia.
  rewrite IH by lia. rewrite seq_S, rev_app_distr. cbn [rev app map fold_left].
  replace (iters - 1 - N.of_nat i) with (N.of_nat (0 + n)) by lia. reflexivity.
Qed.

Lemma kd_iterate_rc4_fwd : forall data okey n,
  kd_iterate_rc4 data okey (N.of_nat (S n)) false =
  fold_left (fun x j => rc4 (iso_xor_key okey j) x) (map N.of_nat (seq 1 n)) (rc4 okey data).
Proof.
  intros data okey n. unfold kd_iterate_rc4. rewrite Nat2N.id. rewrite (kd_rc4_loop_fold (S n) 0).
  cbn [seq map fold_left]. unfold iso_xor_key at 2. change (N.of_nat 0) with 0. rewrite xor_key_0. reflexivity.
Qed.

Lemma fold_length : forall (l : list N) k x,
  length (fold_left (fun x j => rc4 (iso_xor_key k j) x) l x) = length x.
Proof.
  induction l as [|a l IH]; intros k x; simpl; [reflexivity|]. rewrite IH. apply rc4_length.
Qed.

(* decrypting with the passes in the opposite order undoes the cascade (RC4 is an involution) *)
Lemma fold_rev_undo : forall (l : list N) k x,
  fold_left (fun x j => rc4 (iso_xor_key k j) x) (rev l)
            (fold_left (fun x j => rc4 (iso_xor_key k j) x) l x) = x.
Proof.
  induction l as [|a l IH]; intros k x; [reflexivity|].
  cbn [rev fold_left]. rewrite fold_left_app. rewrite IH. cbn [fold_left]. apply rc4_involutive_lemma.
Qed.

Lemma bytes_eqb_refl : forall l, bytes_eqb l l = true.
Proof. intros l. unfold bytes_eqb. apply list_eqb_N_eq. reflexivity. Qed.

Lemma kd_pad_short_exact : forall s n, length s = n -> kd_pad_short s n = s.
Proof. intros s n H. unfold kd_pad_short. subst n. rewrite Nat.sub_diag. apply app_nil_r. Qed.

Lemma firstn_md5_length : forall n m, (n <= 16)%nat -> length (firstn n (md5 m)) = n.
Proof. intros n m H. rewrite firstn_length, length_md5. lia. Qed.

(* ------------------------------------------------------------------ R <= 4: the pieces agree *)
Section V4.
  Variables (V R len P : N) (id1 : list N) (em : bool).
  Hypothesis Hs : scheme_V4 V R len.

  (* any dictionary of this scheme, whatever /O and /U hold *)
  Variable ed : enc_data.
  Hypothesis HR : ed_R ed = R.
  Hypothesis Hl : ed_len ed = len.

  Lemma scheme_cases : (R = 2 /\ len = 5) \/ ((R = 3 \/ R = 4) /\ len = 16).
  Proof. clear HR Hl. destruct Hs as [(_&->&->)|[(_&->&->)|(_&->&->)]]; auto. Qed.

  Lemma iso_n_is : iso_n (to_iso ed) = N.to_nat len.
  Proof.
    unfold iso_n, to_iso; cbn. rewrite HR, Hl.
    destruct scheme_cases as [[-> ->]|[[->| ->] ->]]; reflexivity.
  Qed.

  Lemma key_agrees : forall pw, iso_key_alg2 (to_iso ed) pw = kd_key_from_password ed pw.
  Proof.
    intros pw. unfold iso_key_alg2, kd_key_from_password, kd_iterate_md5_digest.
    rewrite iso_n_is. cbn [to_iso iso_R iso_O iso_P iso_id iso_encmeta]. rewrite HR, Hl.
    rewrite kd_pad_is_iso, le32_is_iso, kd_md5_iter_is_iso.
    destruct scheme_cases as [[-> ->]|[[->| ->] ->]]; reflexivity.
  Qed.

  Lemma key_length : forall pw, length (kd_key_from_password ed pw) = N.to_nat len.
  Proof.
    intros pw. unfold kd_key_from_password, kd_iterate_md5_digest. rewrite Hl, HR.
    rewrite kd_md5_iter_is_iso, firstn_length.
    assert (Hm : forall n x, length (iso_iter n (fun h => md5 (firstn (Nat.min (N.to_nat len) 16) h)) (md5 x)) = 16%nat).
    { intros n x. destruct n; cbn [iso_iter]; apply length_md5. }
    rewrite Hm. destruct scheme_cases as [[_ ->]|[_ ->]]; reflexivity.
  Qed.

  (* Algorithm 4/5 as the reader computes it = the significant part of compute_U_value *)
  Lemma U_agrees : forall pw,
    iso_U_alg45 (to_iso ed) pw = (if R =? 2 then kd_U_value ed pw else firstn 16 (kd_U_value ed pw)).
  Proof.
    intros pw. unfold iso_U_alg45, kd_U_value. rewrite key_agrees.
    cbn [to_iso iso_R iso_id]. rewrite HR, Hl.
    rewrite (kd_pad_short_exact _ _ (key_length pw)).
    rewrite kd_padding_is_iso.
    assert (H20 : forall x k, kd_iterate_rc4 x k 20 false =
                  fold_left (fun x j => rc4 (iso_xor_key k j) x) (map N.of_nat (seq 1 19)) (rc4 k x)).
    { intros x k. exact (kd_iterate_rc4_fwd x k 19). }
    assert (H1 : forall x k, kd_iterate_rc4 x k 1 false = rc4 k x).
    { intros x k. exact (kd_iterate_rc4_fwd x k 0). }
    destruct scheme_cases as [[-> ->]|[[->| ->] ->]].
    - change (2 =? 2) with true. change (3 <=? 2) with false. cbv iota. rewrite H1. reflexivity.
    - change (3 =? 2) with false. change (3 <=? 3) with true. cbv iota. rewrite H20.
      rewrite firstn_app_ge by (rewrite fold_length, rc4_length, length_md5; lia).
      rewrite firstn_all2; [reflexivity|]. rewrite fold_length, rc4_length, length_md5. lia.
    - change (4 =? 2) with false. change (3 <=? 4) with true. cbv iota. rewrite H20.
      rewrite firstn_app_ge by (rewrite fold_length, rc4_length, length_md5; lia).
      rewrite firstn_all2; [reflexivity|]. rewrite fold_length, rc4_length, length_md5. lia.
  Qed.

  (* the reader's owner key (Algorithm 3 a-d) = compute_O_rc4_key, padded *)
  Lemma owner_key_agrees : forall u o,
    iso_owner_key (to_iso ed) (eff_owner u o) = kd_pad_short (kd_O_rc4_key ed u o) (N.to_nat len).
  Proof.
    intros u o. unfold iso_owner_key, kd_O_rc4_key, kd_iterate_md5_digest. rewrite iso_n_is.
    cbn [to_iso iso_R]. rewrite HR, Hl. fold (eff_owner u o).
    rewrite kd_pad_is_iso, kd_md5_iter_is_iso.
    destruct scheme_cases as [[-> ->]|[[->| ->] ->]]; cbn [N.leb N.compare Pos.compare Pos.compare_cont N.to_nat Pos.to_nat Pos.iter_op Nat.add Nat.min].
    - rewrite kd_pad_short_exact; [reflexivity|]. apply firstn_md5_length. lia.
    - rewrite (iter_firstn16_is_whole 50) by apply length_md5.
      rewrite kd_pad_short_exact; [reflexivity|]. rewrite firstn_length, iso_iter_md5_length by apply length_md5. reflexivity.
    - rewrite (iter_firstn16_is_whole 50) by apply length_md5.
      rewrite kd_pad_short_exact; [reflexivity|]. rewrite firstn_length, iso_iter_md5_length by apply length_md5. reflexivity.
  Qed.
End V4.

(* ------------------------------------------------------------------ R <= 4: the theorems *)
Lemma iso_key_alg2_pad : forall d pw, iso_key_alg2 d (iso_pad32 pw) = iso_key_alg2 d pw.
Proof. intros d pw. unfold iso_key_alg2. rewrite iso_pad32_idem. reflexivity. Qed.
Lemma iso_auth_user_pad : forall d pw, iso_auth_user_V4 d (iso_pad32 pw) = iso_auth_user_V4 d pw.
Proof. intros d pw. unfold iso_auth_user_V4, iso_U_alg45. rewrite iso_key_alg2_pad. reflexivity. Qed.

Section V4Main.
  Variables (V R len P : N) (id1 : list N) (em : bool) (u o : list N).
  Hypothesis Hs : scheme_V4 V R len.

  Let ed0 := base_ed V R len P id1 em.
  Let ed' := kd_compute_O_U ed0 u o.

  Lemma V_lt_5 : V <? 5 = true.
  Proof. destruct Hs as [(->&_)|[(->&_)|(->&_)]]; reflexivity. Qed.

  Lemma params_are : kd_compute_parameters ed0 u o [] = (ed', kd_key_from_password ed' u).
  Proof. unfold kd_compute_parameters. change (ed_V ed0) with V. rewrite V_lt_5. reflexivity. Qed.

  Lemma ed'_V : ed_V ed' = V. Proof. reflexivity. Qed.
  Lemma ed'_R : ed_R ed' = R. Proof. reflexivity. Qed.
  Lemma ed'_len : ed_len ed' = len. Proof. reflexivity. Qed.
  Lemma ed'_U : ed_U ed' = kd_U_value ed' u. Proof. reflexivity. Qed.
  Lemma ed'_O : ed_O ed' = kd_iterate_rc4 (kd_pad_password u)
                             (kd_pad_short (kd_O_rc4_key ed' u o) (N.to_nat len)) (if 3 <=? R then 20 else 1) false.
  Proof. reflexivity. Qed.

  Lemma R_cases : (R = 2 /\ len = 5) \/ ((R = 3 \/ R = 4) /\ len = 16).
  Proof. exact (scheme_cases V R len Hs). Qed.

  Lemma user_ok : iso_auth_user_V4 (to_iso ed') u = true.
  Proof.
    unfold iso_auth_user_V4. rewrite (U_agrees V R len Hs ed' ed'_R ed'_len).
    change (iso_R (to_iso ed')) with R. change (iso_U (to_iso ed')) with (ed_U ed'). rewrite ed'_U.
    destruct (R =? 2); apply bytes_eqb_refl.
  Qed.

  Lemma owner_recovers_user : iso_user_from_owner (to_iso ed') (eff_owner u o) = kd_pad_password u.
  Proof.
    unfold iso_user_from_owner. rewrite (owner_key_agrees V R len Hs ed' ed'_R ed'_len).
    change (iso_R (to_iso ed')) with R. change (iso_O (to_iso ed')) with (ed_O ed'). rewrite ed'_O.
    destruct R_cases as [[-> ->]|[[->| ->] ->]].
    - change (2 =? 2) with true. change (3 <=? 2) with false. cbv iota.
      rewrite (kd_iterate_rc4_fwd _ _ 0). cbn [seq map fold_left]. apply rc4_involutive_lemma.
    - change (3 =? 2) with false. change (3 <=? 3) with true. cbv iota.
      unfold kd_iterate_rc4. change (N.to_nat 20) with 20%nat. rewrite (kd_rc4_loop_fold 20 0).
      rewrite map_rev. apply fold_rev_undo.
    - change (4 =? 2) with false. change (3 <=? 4) with true. cbv iota.
      unfold kd_iterate_rc4. change (N.to_nat 20) with 20%nat. rewrite (kd_rc4_loop_fold 20 0).
      rewrite map_rev. apply fold_rev_undo.
  Qed.

  Lemma owner_ok : iso_auth_owner_V4 (to_iso ed') (eff_owner u o) = true.
  Proof.
    unfold iso_auth_owner_V4. rewrite owner_recovers_user, kd_pad_is_iso, iso_auth_user_pad. exact user_ok.
  Qed.

  Lemma owner_key : iso_key_alg2 (to_iso ed') (iso_user_from_owner (to_iso ed') (eff_owner u o))
                    = kd_key_from_password ed' u.
  Proof.
    rewrite owner_recovers_user, kd_pad_is_iso, iso_key_alg2_pad.
    apply (key_agrees V R len Hs ed' ed'_R ed'_len).
  Qed.

  Lemma R_le_4 : R <=? 4 = true.
  Proof. destruct R_cases as [[-> _]|[[->| ->] _]]; reflexivity. Qed.
End V4Main.

(* auth_user (R <= 4): whatever the passwords, /P, /ID and metadata flag, the reader's Algorithm 6
   accepts the user password of a dictionary computed by qpdf's compute_parameters. Over-long
   passwords included (both sides truncate at 32 bytes). *)
Lemma auth_user_V4_lemma : forall V R len P id1 em u o, scheme_V4 V R len ->
  iso_auth_user_V4 (to_iso (fst (kd_compute_parameters (base_ed V R len P id1 em) u o []))) u = true.
Proof. intros. rewrite params_are by assumption. apply user_ok. assumption. Qed.

(* auth_owner (R <= 4): Algorithm 7 with the owner password (the user password when the owner
   password is empty) recovers the padded user password from /O and accepts it. *)
Lemma auth_owner_V4_lemma : forall V R len P id1 em u o, scheme_V4 V R len ->
  let d := to_iso (fst (kd_compute_parameters (base_ed V R len P id1 em) u o [])) in
  iso_user_from_owner d (eff_owner u o) = iso_pad32 u /\ iso_auth_owner_V4 d (eff_owner u o) = true.
Proof.
  intros. subst d. rewrite params_are by assumption. split.
  - rewrite <- kd_pad_is_iso. apply owner_recovers_user. assumption.
  - apply owner_ok. assumption.
Qed.

(* file_key_recovered (R <= 4): opening with the user password yields exactly the key the writer
   encrypts with, and the owner path (Algorithm 7 then Algorithm 2) yields the same key. *)
Lemma file_key_recovered_V4_lemma : forall V R len P id1 em u o, scheme_V4 V R len ->
  let edk := kd_compute_parameters (base_ed V R len P id1 em) u o [] in
  iso_open (to_iso (fst edk)) u = Some (snd edk) /\
  iso_key_alg2 (to_iso (fst edk)) (iso_user_from_owner (to_iso (fst edk)) (eff_owner u o)) = snd edk.
Proof.
  intros V R len P id1 em u o Hs edk. subst edk. rewrite params_are by assumption. cbn [fst snd]. split.
  - unfold iso_open. change (iso_R (to_iso (kd_compute_O_U (base_ed V R len P id1 em) u o))) with R.
    rewrite (R_le_4 V R len P id1 em u o Hs). unfold iso_open_V4. rewrite (user_ok V R len P id1 em u o Hs).
    f_equal. apply (key_agrees V R len Hs); reflexivity.
  - apply owner_key. assumption.
Qed.
