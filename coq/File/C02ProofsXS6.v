(* C02 extension, part 6: header, tail and region sorting of the object-stream / xref-stream layout, as the strict reader
   sees them (steps 3 and 4 towards xs_write_read_strict). *)
From QV Require Import Base.Bytes File.StrictSyntax File.ReadStrict File.WriterArith File.C02Proofs.
From QV Require Import Obj.Queue Obj.WriterModel Obj.WmPrinters Obj.WriterModelXS Obj.C01RoundtripProofs Obj.C01FileProofs.
From QV Require Import File.C02ProofsXS File.C02ProofsXS2 File.C02ProofsXS3 File.C02ProofsXS4.
From Coq Require Import Lia.
Local Open Scope N_scope.

(* the version the writer prints: the input's, or 1.5 when that is lower; in both cases digit . digit *)
Lemma xs_version_shape : forall v a b, v = [a; 46; b] -> is_digit a = true -> is_digit b = true ->
  exists a' b', xs_version v = [a'; 46; b'] /\ is_digit a' = true /\ is_digit b' = true.
Proof.
  intros v a b Hv Ha Hb. unfold xs_version. cbv zeta.
  destruct ((1 <? dec_value (xs_digits v)) || ((dec_value (xs_digits v) =? 1) && (5 <? dec_value (xs_digits (xs_after_dot v))))).
  - exists a, b. auto.
  - exists 49, 53. repeat split; reflexivity.
Qed.

(* generic form of the header parse: a header [%PDF-a.b\n%....\n] followed by anything *)
Lemma xs_header_generic : forall a b X, is_digit a = true -> is_digit b = true ->
  parse_header (header [a; 46; b] ++ X) = Some ([a; 46; b], X).
Proof.
  intros a b X Ha Hb. unfold header. cbn [app].
  unfold parse_header. cbn [expect].
  change (37 =? 37) with true. change (80 =? 80) with true. change (68 =? 68) with true.
  change (70 =? 70) with true. change (45 =? 45) with true. cbv iota.
  rewrite Ha, Hb. reflexivity.
Qed.

(* The header of the modelled output is read by the strict reader: version = max(input version, 1.5), and the header region
   ends exactly where the first object starts. *)
Lemma xs_header_parses_lemma : forall d, wf_doc d -> xs_eligible d <> [] ->
  exists rest, parse_header (xs_out d) = Some (xs_version (d_version d), rest)
               /\ offset_of (N.of_nat (length (xs_out d))) rest = N.of_nat (length (xs_l_hdr (xs_L d))).
Proof.
  intros d W Hel.
  destruct (wfd_version d W) as [a [b [Hv [Ha Hb]]]].
  destruct (xs_version_shape _ a b Hv Ha Hb) as [a' [b' [Hs [Ha' Hb']]]].
  assert (Hh : xs_l_hdr (xs_L d) = header [a'; 46; b']).
  { rewrite xs_L_eq. cbn [xs_l_hdr]. unfold xs_hdr. rewrite Hs. reflexivity. }
  rewrite (xs_out_layout d Hel).
  set (X := xs_l_bodies (xs_L d) ++ _). clearbody X.
  rewrite Hs, Hh. exists X. split.
  - apply xs_header_generic; assumption.
  - unfold offset_of. rewrite app_length. lia.
Qed.

(* The tail: the last "startxref" of the file is the one the writer wrote, right after the cross-reference stream object;
   it carries the offset of that object and is followed by %%EOF and nothing else. *)
Lemma xs_tail_parses_lemma : forall d, xs_eligible d <> [] ->
  let sx := xs_l_xref_off (xs_L d) + xr_xref_len d in
  find_last k_startxref (xs_out d) 0 None = Some sx
  /\ parse_tail (at_off (xs_out d) sx) = Some (xs_l_xref_off (xs_L d), []).
Proof.
  intros d Hel sx.
  pose proof (xr_out_eq d Hel) as Hout. pose proof (xr_xoff_eq d) as Hoff.
  set (PRE := xs_l_hdr (xs_L d) ++ xs_l_bodies (xs_L d)) in *.
  assert (Hsx : sx = N.of_nat (length (PRE ++ xs_xref_object WUS WUN d (xs_L d)))).
  { unfold sx, xr_xref_len. rewrite Hoff, app_length. lia. }
  set (XO := xs_xref_object WUS WUN d (xs_L d)) in *. clearbody XO PRE.
  set (v := xs_l_xref_off (xs_L d)) in *. clearbody v.
  assert (Hout' : xs_out d = (PRE ++ XO) ++ k_startxref ++ 10 :: dec_of_N v ++ [10; 37; 37; 69; 79; 70; 10]).
  { rewrite Hout, <- app_assoc. reflexivity. }
  rewrite Hout', Hsx. split.
  - apply find_last_startxref.
  - unfold at_off. rewrite Nat2N.id, xs_skipn_exact. apply parse_tail_model.
Qed.

(* regions of items laid out one after the other are strictly increasing, start at pos and stay below the end *)
Lemma xr_regs_bounds : forall chunk items pos y, (forall it, (0 < length (chunk it))%nat) -> In y (xr_regs chunk items pos) ->
  pos <= fst y /\ fst y < pos + N.of_nat (length (concat (map chunk items))).
Proof.
  intros chunk items. induction items as [|it t IH]; intros pos y Hp Hin; [destruct Hin|].
  cbn [xr_regs] in Hin. cbn [map concat]. rewrite app_length. specialize (Hp it) as Hit.
  destruct Hin as [<- | Hin].
  - cbn [fst]. lia.
  - apply (IH _ _ Hp) in Hin. lia.
Qed.
Lemma xr_regs_inc : forall chunk items pos, (forall it, (0 < length (chunk it))%nat) -> inc_fst (xr_regs chunk items pos).
Proof.
  intros chunk items. induction items as [|it t IH]; intros pos Hp; [exact I|].
  cbn [xr_regs inc_fst]. split; [| apply IH; exact Hp].
  apply Forall_forall. intros y Hy. apply (xr_regs_bounds _ _ _ _ Hp) in Hy. cbn [fst]. specialize (Hp it). lia.
Qed.
Lemma xr_regs_lt : forall chunk items pos y, (forall it, (0 < length (chunk it))%nat) -> In y (xr_regs chunk items pos) ->
  pos <= fst y /\ fst y < pos + N.of_nat (length (concat (map chunk items))).
Proof. exact xr_regs_bounds. Qed.

(* sorting what the strict reader collects (header, tail, the section, then the object regions in reverse file order) *)
Lemma xs_sort_regions_generic : forall (t : list (N * N)) h xoff sx total,
  inc_fst t -> Forall (fun y => fst y < xoff) t -> xoff < sx ->
  sort_regions ((0, h) :: (sx, total) :: [(xoff, sx)] ++ rev t) = (0, h) :: t ++ [(xoff, sx); (sx, total)].
Proof.
  intros t h xoff sx total Hinc Hlt Hx. unfold sort_regions. cbn [app fold_right].
  rewrite (sort_rev_sorted t [] (Forall_nil _) Hinc). cbn [app].
  rewrite (insert_region_last (xoff, sx) t) by exact Hlt.
  rewrite (insert_region_last (sx, total)).
  - rewrite insert_region_first; [| destruct t; discriminate | reflexivity].
    rewrite <- app_assoc. reflexivity.
  - apply Forall_app. split.
    + eapply Forall_impl; [| exact Hlt]. intros y Hy. cbv beta in Hy. cbn [fst]. lia.
    + constructor; [exact Hx | constructor].
Qed.

Lemma xs_chunk_pos : forall d it, (0 < length (xs_chunk' d it))%nat.
Proof.
  intros d it. unfold xs_chunk', xs_chunk. destruct it as [id | k].
  - unfold emit_object, obj_header. rewrite !app_length. cbn [length]. lia.
  - unfold xs_ostm_object, obj_header. cbv zeta. rewrite !app_length. cbn [length]. lia.
Qed.

(* Sorting the regions the strict reader collects for the modelled output gives exactly the list of xs_regions_ok. *)
Lemma xs_sort_regions_lemma : forall d, xs_eligible d <> [] ->
  let L := xs_L d in
  let h := N.of_nat (length (xs_l_hdr L)) in
  let sx := xs_l_xref_off L + xr_xref_len d in
  sort_regions ((0, h) :: (sx, N.of_nat (length (xs_out d))) :: [(xs_l_xref_off L, sx)]
                ++ rev (xr_regs (xs_chunk' d) (xs_l_items L) h))
  = xr_regions d.
Proof.
  intros d Hel L h sx. unfold xr_regions. cbv zeta. fold L. fold h. fold sx.
  assert (Hoff : h + N.of_nat (length (concat (map (xs_chunk' d) (xs_l_items L)))) = xs_l_xref_off L).
  { unfold h, L. rewrite xs_L_eq. cbn [xs_l_hdr xs_l_items xs_l_xref_off]. unfold xs_E. rewrite xs_emit_end, xs_emit_bytes. reflexivity. }
  apply xs_sort_regions_generic.
  - apply xr_regs_inc. apply xs_chunk_pos.
  - apply Forall_forall. intros y Hy. apply (xr_regs_lt _ _ _ _ (xs_chunk_pos d)) in Hy. lia.
  - unfold sx, xr_xref_len. fold L.
    assert ((0 < length (xs_xref_object WUS WUN d L))%nat).
    { unfold xs_xref_object, obj_header. cbv zeta. rewrite !app_length. cbn [length]. lia. }
    lia.
Qed.
