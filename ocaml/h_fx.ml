(* handlers: C09 fixpoint model (Sys/FixpointModel.v): three generations of the plain writer inside the model.
   I/O only: fx_gen <doc description (format of write_docf)> <prefix>   -> <prefix>.m1 .m2 .m3
             fx_genp <file.pdf> <prefix>                                -> the same, the first document read from the file *)
open Qvmodel
open Runner

let fx_hx s = if s = "" then [] else unhexbytes s

let rec fx_parse_o (toks : string list) : obj * string list =
  match toks with
  | [] -> failwith "obj"
  | t :: rest ->
    let body = String.sub t 1 (String.length t - 1) in
    (match t.[0] with
     | 'n' -> (ONull, rest)
     | 't' -> (OBool true, rest)
     | 'f' -> (OBool false, rest)
     | 'i' -> (OInt (z_of_int (int_of_string body)), rest)
     | 'r' -> (OReal (fx_hx body), rest)
     | 's' -> (OStr (fx_hx body), rest)
     | 'N' -> (OName (fx_hx body), rest)
     | 'R' -> (ORef (n_of_int (int_of_string body)), rest)
     | 'a' ->
       let n = int_of_string body in
       let rec go k r acc = if k = 0 then (List.rev acc, r) else let (o, r') = fx_parse_o r in go (k - 1) r' (o :: acc) in
       let (l, r) = go n rest [] in (OArr l, r)
     | 'd' ->
       let n = int_of_string body in
       let rec go k r acc = if k = 0 then (List.rev acc, r) else
           (match r with
            | key :: r1 -> let (o, r2) = fx_parse_o r1 in go (k - 1) r2 ((fx_hx (String.sub key 1 (String.length key - 1)), o) :: acc)
            | [] -> failwith "dict") in
       let (l, r) = go n rest [] in (ODict l, r)
     | _ -> failwith ("tok " ^ t))

let fx_read_description (inp : string) : doc =
  let ic = open_in inp in
  let objs = ref [] and trailer = ref [] and ver = ref [] and id1 = ref [] and id2 = ref [] in
  (try while true do
       let line = input_line ic in
       match String.split_on_char ' ' line with
       | "version" :: [h] -> ver := fx_hx h
       | "id1" :: [h] -> id1 := fx_hx h
       | "id2" :: [h] -> id2 := fx_hx h
       | "trailer" :: toks -> (match fst (fx_parse_o toks) with ODict d -> trailer := d | _ -> ())
       | "obj" :: id :: toks -> objs := (n_of_int (int_of_string id), { i_val = fst (fx_parse_o toks); i_stream = None }) :: !objs
       | "stream" :: id :: data :: toks ->
         objs := (n_of_int (int_of_string id), { i_val = fst (fx_parse_o toks); i_stream = Some (fx_hx (if data = "-" then "" else data)) }) :: !objs
       | _ -> ()
     done with End_of_file -> close_in ic);
  { d_objects = List.rev !objs; d_trailer = !trailer; d_version = !ver; d_id1 = !id1; d_id2 = !id2 }

let fx_write_file (path : string) (b : n list) : unit =
  let oc = open_out_bin path in output_string oc (string_of_bytes b); close_out oc

let fx_read_bytes (path : string) : n list =
  let ic = open_in_bin path in
  let n = in_channel_length ic in
  let s = really_input_string ic n in
  close_in ic; bytes_of_string s

(* generations 2 and 3 from the bytes of generation 1; reports whether the documents read back are wf_doc_b / fx_normal_b *)
let fx_rest (prefix : string) (d0 : doc) (first : string) : string =
  let g1 = fx_write d0 in
  fx_write_file (prefix ^ ".m1") g1;
  match fx_read g1 with
  | None -> "refused1 " ^ first
  | Some d1 ->
    let g2 = fx_write d1 in
    fx_write_file (prefix ^ ".m2") g2;
    (match fx_read g2 with
     | None -> "refused2 " ^ first
     | Some d2 ->
       let g3 = fx_write d2 in
       fx_write_file (prefix ^ ".m3") g3;
       let b x = if x then "1" else "0" in
       Printf.sprintf "ok %s len=%d,%d,%d wf1=%s nf1=%s wf2=%s nf2=%s same_doc=%s norm1=%s norm2=%s" first
         (List.length g1) (List.length g2) (List.length g3)
         (b (wf_doc_b d1)) (b (fx_normal_b d1)) (b (wf_doc_b d2)) (b (fx_normal_b d2)) (b (d1 = d2)) (b (fx_norm d0 = d1)) (b (fx_norm d1 = d1)))

let () =
  register "fx_gen" (fun args -> match args with
    | [inp; prefix] ->
      let d = fx_read_description inp in
      fx_rest prefix d ("wf0=" ^ (if wf_doc_b d then "1" else "0"))
    | _ -> "?args");
  register "fx_genp" (fun args -> match args with
    | [inp; prefix] ->
      (match fx_read (fx_read_bytes inp) with
       | None -> "refused0"
       | Some d -> fx_rest prefix d ("wf0=" ^ (if wf_doc_b d then "1" else "0")))
    | _ -> "?args")
