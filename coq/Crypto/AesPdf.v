(* Model of libqpdf/Pl_AES_PDF.cc + AES_PDF_native::update: AES in CBC (or ECB) mode with the PDF
   conventions, written from the C++: lazy flushing of the 16-byte buffer, the IV emitted in front
   of the ciphertext unless a zero / specified IV is used, a whole block of padding when the
   input is a multiple of 16, leftover bytes silently dropped when padding is disabled; on
   decryption the first block is the IV, a short last block is zero-filled ("hope for the best"),
   and padding is stripped only when the last block really ends in n copies of n <= 16.
   The result does not depend on how the input is cut into write() calls (the buffer is flushed
   only when full and more data arrives, or in finish()); the correspondence feeds the real
   pipeline with random chunkings to check exactly that. *)
From QV Require Import Base.Bytes Crypto.Nib Crypto.AES.
Local Open Scope N_scope.

Inductive iv_mode :=
| IvZero                        (* useZeroIV() *)
| IvGiven (iv : list N)         (* setIV() *)
| IvWritten (iv : list N).      (* static IV or random bytes: written in front of the output when
                                   encrypting; when decrypting: "take the IV from the input" *)

Definition pl_static_iv : list N := map (fun i => (14 * (1 + N.of_nat i)) mod 256) (seq 0 16).
Definition zeros16 : list N := repeat 0 16%nat.

Definition iv_bytes (m : iv_mode) : list N :=
  match m with IvZero => zeros16 | IvGiven iv => iv | IvWritten iv => iv end.

Fixpoint cbc_encrypt_blocks (rks : list (list hb)) (cbc : bool) (prev : list N) (blocks : list (list N)) : list N :=
  match blocks with
  | [] => []
  | b :: t =>
      let c := aes_cipher rks (if cbc then xor_bytes b prev else b) in
      c ++ cbc_encrypt_blocks rks cbc c t
  end.

Definition pkcs_pad (data : list N) : list N :=
  let p := 16 - N.of_nat (length data) mod 16 in
  data ++ repeat p (N.to_nat p).

Definition key_len_ok (key : list N) : bool :=
  Nat.eqb (length key) 16 || Nat.eqb (length key) 32.

(* Pl_AES_PDF(encrypt = true): None = "unsupported key length" *)
Definition pl_aes_encrypt (key : list N) (cbc : bool) (ivm : iv_mode) (pad : bool) (data : list N)
  : option (list N) :=
  if negb (key_len_ok key) then None else
  let rks := aes_key_schedule key in
  let body := if pad then pkcs_pad data else firstn (16 * (length data / 16)) data in
  let blocks := chunks16 (S (length body / 16)) body in
  match blocks with
  | [] => Some []
  | _ => Some ((if cbc then match ivm with IvWritten iv => iv | _ => [] end else [])
               ++ cbc_encrypt_blocks rks cbc (iv_bytes ivm) blocks)
  end.

(* flush(strip_padding = true) on the last block *)
Definition strip_padding (blk : list N) : list N :=
  let last := nth 15 blk 0 in
  if last <=? 16 then
    if forallb (N.eqb last) (skipn (16 - N.to_nat last) blk) then firstn (16 - N.to_nat last) blk else blk
  else blk.

Fixpoint cbc_decrypt_blocks (rks : list (list hb)) (cbc strip : bool) (prev : list N) (blocks : list (list N)) : list N :=
  match blocks with
  | [] => []
  | b :: t =>
      let d := aes_inv_cipher rks b in
      let p := if cbc then xor_bytes d prev else d in
      match t with
      | [] => if strip then strip_padding p else p
      | _ => p ++ cbc_decrypt_blocks rks cbc strip b t
      end
  end.

Definition zero_fill16 (b : list N) : list N := b ++ repeat 0 (16 - length b)%nat.

(* the blocks finish() and the lazy flush() calls see: every full block, a short last block
   zero-filled, and one all-zero block when there was no input at all *)
Fixpoint dec_blocks (bs : list (list N)) : list (list N) :=
  match bs with
  | [] => []
  | [b] => [zero_fill16 b]
  | b :: t => b :: dec_blocks t
  end.

(* Pl_AES_PDF(encrypt = false) *)
Definition pl_aes_decrypt (key : list N) (cbc : bool) (ivm : iv_mode) (pad : bool) (data : list N)
  : option (list N) :=
  if negb (key_len_ok key) then None else
  let rks := aes_key_schedule key in
  let blocks := match data with
                | [] => [zeros16]
                | _ => dec_blocks (chunks16 (S (length data / 16)) data)
                end in
  if cbc then
    match ivm with
    | IvWritten _ =>
        match blocks with
        | [] => Some []
        | iv :: rest => Some (cbc_decrypt_blocks rks true pad iv rest)
        end
    | _ => Some (cbc_decrypt_blocks rks true pad (iv_bytes ivm) blocks)
    end
  else Some (cbc_decrypt_blocks rks false pad zeros16 blocks).

Definition opt_bytes (o : option (list N)) : list N := match o with Some l => l | None => [] end.
