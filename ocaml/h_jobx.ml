(* handlers: Sys/JobSpecX (C19): the specification of jobs over every option table - denotation and the two renderings. I/O only.
   xj_spec <named 0|1> <item>...      all strings hex ("-" = empty), "~" = absent
     O flag val | A flag n val.. | I file | U file | E | R | G n (flag val).. | C user owner bits n (flag val)..
     P n (file pw|~ range|~).. | V n (file m (flag val)..)..  (overlay) | W ... (underlay)
     T n (m word..)..  (add-attachment; word = f file | o flag val) | Y ... (copy-attachments-from) | L n word..
   result:  <ok 0|1> <call>;<call>;.. | <argv word> .. | <json tokens as in h_job.ml> | <argv words, --encrypt in its dashed spelling> | <the same, empty-password options left out>
   an option that is not in the generated table: result "?noentry <table> <flag>" *)
open Qvmodel
open Runner

exception No_entry of string * string

let xshow_call (c : cfg_call) : string =
  match c with
  | CCall (o, m, args) ->
    string_of_bytes o ^ "." ^ string_of_bytes m ^ "(" ^ String.concat "," (List.map hexbytes args) ^ ")"

let rec xshow_jv (v : jjv) : string list =
  match v with
  | JJStr s -> ["s" ^ (let h = hexbytes s in if h = "-" then "" else h)]
  | JJOther -> ["n"]
  | JJArr l -> ["["] @ List.concat (List.map xshow_jv l) @ ["]"]
  | JJObj l -> ["{"] @ List.concat (List.map (fun (k, x) -> ("k" ^ (let h = hexbytes k in if h = "-" then "" else h)) :: xshow_jv x) l) @ ["}"]

let entry (table : string) (flaghex : string) : aentry =
  match xj_find_entry argv_table (bytes_of_string table) (unhexbytes flaghex) with
  | Some e -> e
  | None -> raise (No_entry (table, unhex flaghex))

let opt_str (t : string) : n list option = if t = "~" then None else Some (unhexbytes t)

(* take n things parsed by f *)
let rec take_n (n : int) (f : string list -> 'a * string list) (ts : string list) : 'a list * string list =
  if n = 0 then ([], ts) else
  let (x, r) = f ts in let (xs, r2) = take_n (n - 1) f r in (x :: xs, r2)

let pair_in (table : string) (ts : string list) : (aentry * n list) * string list =
  match ts with
  | fl :: v :: r -> ((entry table fl, unhexbytes v), r)
  | _ -> failwith "pair"

let count (ts : string list) : int * string list =
  match ts with n :: r -> (int_of_string n, r) | _ -> failwith "count"

let word_in (table : string) (ts : string list) : xj_word * string list =
  match ts with
  | "f" :: f :: r -> (XjFile (unhexbytes f), r)
  | "o" :: fl :: v :: r -> (XjOpt (entry table fl, unhexbytes v), r)
  | _ -> failwith "word"

let block_in (table : string) (ts : string list) : xj_word list * string list =
  let (m, r) = count ts in take_n m (word_in table) r

let uo_in (ts : string list) : xj_uospec * string list =
  match ts with
  | f :: r -> let (m, r2) = count r in
    let (opts, r3) = take_n m (pair_in "underlay/overlay") r2 in
    ({ xj_uo_file = unhexbytes f; xj_uo_opts = opts }, r3)
  | _ -> failwith "uo"

let pg_in (ts : string list) : pgspec * string list =
  match ts with
  | f :: p :: rg :: r -> ({ pgs_file = unhexbytes f; pgs_password = opt_str p; pgs_range = opt_str rg }, r)
  | _ -> failwith "pgspec"

let rec items_in (ts : string list) : xj_item list =
  match ts with
  | [] -> []
  | "O" :: fl :: v :: r -> XjBase (IOpt (entry "main" fl, unhexbytes v)) :: items_in r
  | "A" :: fl :: r -> let (n, r2) = count r in
    let (vs, r3) = take_n n (fun t -> match t with x :: q -> (unhexbytes x, q) | _ -> failwith "val") r2 in
    XjBase (IArr (entry "main" fl, vs)) :: items_in r3
  | "I" :: f :: r -> XjBase (IIn (unhexbytes f)) :: items_in r
  | "U" :: f :: r -> XjBase (IOut (unhexbytes f)) :: items_in r
  | "E" :: r -> XjBase IEmpty :: items_in r
  | "R" :: r -> XjBase IReplace :: items_in r
  | "G" :: r -> let (n, r2) = count r in let (l, r3) = take_n n (pair_in "global") r2 in XjBase (IGlobal l) :: items_in r3
  | "C" :: u :: o :: bits :: r -> let (n, r2) = count r in
    let (l, r3) = take_n n (pair_in (unhex bits ^ "-bit-encryption")) r2 in
    XjBase (IEncrypt (unhexbytes u, unhexbytes o, unhexbytes bits, l)) :: items_in r3
  | "P" :: r -> let (n, r2) = count r in let (l, r3) = take_n n pg_in r2 in XjPages l :: items_in r3
  | "V" :: r -> let (n, r2) = count r in let (l, r3) = take_n n uo_in r2 in XjOverlay l :: items_in r3
  | "W" :: r -> let (n, r2) = count r in let (l, r3) = take_n n uo_in r2 in XjUnderlay l :: items_in r3
  | "T" :: r -> let (n, r2) = count r in let (l, r3) = take_n n (block_in "attachment") r2 in XjAddAtt l :: items_in r3
  | "Y" :: r -> let (n, r2) = count r in let (l, r3) = take_n n (block_in "copy-attachment") r2 in XjCopyAtt l :: items_in r3
  | "L" :: r -> let (n, r2) = count r in
    let (l, r3) = take_n n (fun t -> match t with x :: q -> (unhexbytes x, q) | _ -> failwith "label") r2 in
    XjLabels l :: items_in r3
  | t :: _ -> failwith ("item " ^ t)

let () =
  register "xj_spec" (fun args -> match args with
    | named :: toks ->
      (try
        let j = items_in (List.filter (fun t -> t <> "") toks) in
        let (cs, ok) = xj_denote_job j in
        (if ok then "1 " else "0 ") ^
        (match cs with [] -> "-" | l -> String.concat ";" (List.map xshow_call l)) ^ " | " ^
        String.concat " " (List.map hexbytes (xj_render_argv (named = "1") j)) ^ " | " ^
        String.concat " " (xshow_jv (xj_render_json j)) ^ " | " ^
        String.concat " " (List.map hexbytes (xd_render_argv (named = "1") j)) ^ " | " ^
        String.concat " " (List.map hexbytes (xo_render_argv (named = "1") j))
      with No_entry (t, f) -> "?noentry " ^ t ^ " " ^ f)
    | _ -> "?args")
