(* C01 - the container-stream path (Obj/C01Container.v, from the C++) against ISO 32000-1 7.4 (Obj/C01ContainerSpec.v):
   every object stream / cross-reference stream whose filters are a chain of the standard lossless filters is accepted by
   the reader model at the decode level the two readers use, and is decoded to exactly the data that was encoded. *)
From Coq Require Import List NArith ZArith Bool Lia.
From QV Require Import Base.Bytes Obj.ParseModel Filters.Filters Filters.FilterSpec Filters.C15ProofsA
                       Obj.C01Container Obj.C01ContainerSpec.
Import ListNotations.
Local Open Scope N_scope.

Definition c1s_kind (f : c1s_filter) : c1c_kind :=
  match f with C1sAHx => C1cAhx | C1sA85 => C1cA85 | C1sLZW => C1cLzw | C1sFlate => C1cFlate | C1sRL => C1cRunLength end.

Lemma c1c_factory_spec_name : forall f, c1c_filter_factory (c1s_name f) = Some (c1s_kind f).
Proof. destruct f; reflexivity. Qed.

Lemma c1c_kinds_of_names : forall chain,
  c1c_kinds_of (map (fun f => MoName (c1s_name f)) chain) = Some (map c1s_kind chain).
Proof.
  induction chain as [|f r IH]; [reflexivity|].
  cbn [map c1c_kinds_of]. rewrite c1c_factory_spec_name, IH. reflexivity.
Qed.

(* the levels at which a lossless standard filter with default parameters is accepted: all from "specialized" on *)
Lemma c1c_can_filter_lossless : forall lv f, 2 <= c1c_rank lv ->
  c1c_can_filter lv (c1s_kind f) MoNull = Some c1c_cfg0.
Proof.
  intros lv f H. unfold c1c_can_filter.
  assert (E : c1c_set_parms (c1s_kind f) MoNull = Some c1c_cfg0) by (destruct f; reflexivity).
  rewrite E.
  assert (L : c1c_is_lossy (c1s_kind f) = false) by (destruct f; reflexivity).
  rewrite L, andb_false_r. cbn [orb].
  assert (R : (c1c_rank lv <? 2) = false) by (apply N.ltb_ge; exact H).
  rewrite R. reflexivity.
Qed.

Lemma c1c_all_same_lossless : forall lv chain, 2 <= c1c_rank lv ->
  c1c_all_same lv (map c1s_kind chain) MoNull = Some (map (fun f => (c1s_kind f, c1c_cfg0)) chain).
Proof.
  intros lv chain H. induction chain as [|f r IH]; [reflexivity|].
  cbn [map c1c_all_same]. rewrite c1c_can_filter_lossless by exact H. rewrite IH. reflexivity.
Qed.

Lemma c1c_pairwise_lossless : forall lv chain, 2 <= c1c_rank lv ->
  c1c_pairwise lv (map c1s_kind chain) (map (fun _ => MoNull) chain) = Some (map (fun f => (c1s_kind f, c1c_cfg0)) chain).
Proof.
  intros lv chain H. induction chain as [|f r IH]; [reflexivity|].
  cbn [map c1c_pairwise]. rewrite c1c_can_filter_lossless by exact H. rewrite IH. reflexivity.
Qed.

(* Stream::filterable accepts every way of writing a chain of lossless standard filters *)
Lemma c1c_filterable_lossless : forall lv form chain, 2 <= c1c_rank lv -> c1s_writable form chain ->
  c1c_filterable lv (c1s_filter_obj form chain) (c1s_parms_obj form chain)
  = Some (map (fun f => (c1s_kind f, c1c_cfg0)) chain).
Proof.
  intros lv form chain H W.
  assert (ARR : forall pobj,
            (pobj = MoNull \/ pobj = MoArr [] \/ pobj = MoArr (map (fun _ => MoNull) chain)) ->
            c1c_filterable lv (MoArr (map (fun f => MoName (c1s_name f)) chain)) pobj
            = Some (map (fun f => (c1s_kind f, c1c_cfg0)) chain)).
  { intros pobj Hp. unfold c1c_filterable. rewrite c1c_kinds_of_names.
    destruct Hp as [-> | [-> | ->]].
    - apply c1c_all_same_lossless; exact H.
    - apply c1c_all_same_lossless; exact H.
    - destruct chain as [|f r].
      + reflexivity.
      + cbn [map length]. rewrite !map_length. rewrite Nat.eqb_refl. cbn [negb andb].
        apply (c1c_pairwise_lossless lv (f :: r)); exact H. }
  destruct form; cbn [c1s_writable] in W.
  - destruct chain as [|f [|g r]]; try discriminate W.
    cbn [c1s_filter_obj c1s_parms_obj]. unfold c1c_filterable. rewrite c1c_factory_spec_name.
    apply (c1c_all_same_lossless lv [f]); exact H.
  - destruct chain as [|f [|g r]]; try discriminate W.
    cbn [c1s_filter_obj c1s_parms_obj]. unfold c1c_filterable. rewrite c1c_factory_spec_name.
    apply (c1c_all_same_lossless lv [f]); exact H.
  - assert (E : c1s_filter_obj C1sArray chain = MoArr (map (fun f => MoName (c1s_name f)) chain)) by (destruct chain as [|? [|? ?]]; reflexivity).
    rewrite E. apply ARR. left. reflexivity.
  - assert (E : c1s_filter_obj C1sArrayEmptyParms chain = MoArr (map (fun f => MoName (c1s_name f)) chain)) by (destruct chain as [|? [|? ?]]; reflexivity).
    rewrite E. apply ARR. right. left. reflexivity.
  - assert (E : c1s_filter_obj C1sArrayNulls chain = MoArr (map (fun f => MoName (c1s_name f)) chain)) by (destruct chain as [|? [|? ?]]; reflexivity).
    rewrite E. apply ARR. right. right. reflexivity.
Qed.

Lemma c1c_prepare_lossless : forall chain,
  c1c_prepare (map (fun f => (c1s_kind f, c1c_cfg0)) chain) = Some (map (fun f => (c1s_kind f, c1c_cfg0, C1cPostNone)) chain).
Proof.
  induction chain as [|f r IH]; [reflexivity|].
  cbn [map c1c_prepare]. rewrite IH. destruct f; reflexivity.
Qed.

Lemma c1c_no_dct_lossless : forall chain,
  existsb (fun kc : c1c_kind * c1c_cfg => match fst kc with C1cDct => true | _ => false end)
          (map (fun f => (c1s_kind f, c1c_cfg0)) chain) = false.
Proof. induction chain as [|f r IH]; [reflexivity|]. cbn [map existsb fst]. rewrite IH. destruct f; reflexivity. Qed.

(* ---- T1: a chain of lossless standard filters on a container stream is never refused by the reader, whatever the data *)
Definition c1c_refused (o : c1c_outcome) : Prop := o = C1cUnfilterable \/ o = C1cThrow \/ o = C1cOutside.

Lemma c1c_container_accepts_lossless_lemma : forall (infl : list N -> option (list N)) form chain raw,
  c1s_writable form chain ->
  let d := [(c1c_s_Filter, c1s_filter_obj form chain); (c1c_s_DecodeParms, c1s_parms_obj form chain)] in
  ~ c1c_refused (c1c_objstm_data infl d raw) /\ ~ c1c_refused (c1c_xref_data infl d raw).
Proof.
  intros infl form chain raw W d.
  assert (G : forall lv, 2 <= c1c_rank lv ->
            ~ c1c_refused (c1c_get_stream_data infl lv (c1s_filter_obj form chain) (c1s_parms_obj form chain) raw)).
  { intros lv H. unfold c1c_get_stream_data.
    assert (R : (c1c_rank lv =? 0) = false) by (apply N.eqb_neq; lia).
    rewrite R. cbn [negb]. rewrite orb_true_r. cbn [negb].
    rewrite c1c_filterable_lossless by assumption.
    rewrite c1c_no_dct_lossless, c1c_prepare_lossless.
    destruct (c1c_pipe infl _ raw) as [o e]. unfold c1c_refused.
    destruct e; intros [X|[X|X]]; discriminate X. }
  split.
  - unfold c1c_objstm_data, d. cbn [c1c_dict_get]. apply G. cbn. lia.
  - unfold c1c_xref_data, d. cbn [c1c_dict_get]. apply G. cbn. lia.
Qed.

(* ---- byte ranges of the reference encoders (needed because ASCIIHex / ASCII85 round trips are stated for byte lists) *)
Lemma c1s_ws_byte : forall c, ahx_is_ws c = true -> c < 256.
Proof.
  intros c H. unfold ahx_is_ws in H. rewrite !orb_true_iff, !N.eqb_eq in H.
  destruct H as [[[[[H|H]|H]|H]|H]|H]; subst c; lia.
Qed.
Lemma c1s_ws_bytes : forall l, ws_only l -> bytes_ok l.
Proof. intros l H. unfold ws_only in H. unfold bytes_ok. eapply Forall_impl; [|exact H]. intros a Ha. apply c1s_ws_byte, Ha. Qed.
Lemma c1s_hex_digit_byte : forall lower v, v < 16 -> hex_digit lower v < 256.
Proof. intros lower v H. unfold hex_digit. destruct (v <? 10) eqn:E; destruct lower; lia. Qed.

Lemma c1s_bytes_app : forall a b, bytes_ok a -> bytes_ok b -> bytes_ok (a ++ b).
Proof. intros a b Ha Hb. unfold bytes_ok. apply Forall_app. split; assumption. Qed.

Lemma c1s_ahx_bytes : forall d style, bytes_ok d -> style_ok style -> bytes_ok (ref_ahx_encode d style).
Proof.
  induction d as [|b t IH]; intros style Hd Hs.
  - cbn. constructor; [lia|constructor].
  - inversion Hd as [|? ? Hb Ht]; subst.
    cbn [ref_ahx_encode].
    destruct style as [|[[l w1] w2] s'].
    + cbn [app]. constructor; [apply c1s_hex_digit_byte; apply N.div_lt_upper_bound; lia|].
      constructor; [apply c1s_hex_digit_byte; apply N.mod_lt; lia|].
      apply IH; [exact Ht|constructor].
    + inversion Hs as [|? ? [H1 H2] Hs']; subst. cbn [fst snd] in H1, H2.
      apply c1s_bytes_app; [apply c1s_ws_bytes, H1|].
      apply c1s_bytes_app; [constructor; [apply c1s_hex_digit_byte; apply N.div_lt_upper_bound; lia|constructor]|].
      apply c1s_bytes_app; [apply c1s_ws_bytes, H2|].
      apply c1s_bytes_app; [constructor; [apply c1s_hex_digit_byte; apply N.mod_lt; lia|constructor]|].
      apply IH; assumption.
Qed.

Lemma c1s_dig_bytes : forall l, Forall a85_dig l -> bytes_ok l.
Proof. intros l H. unfold bytes_ok. eapply Forall_impl; [|exact H]. intros a Ha. unfold a85_dig in Ha. lia. Qed.

Lemma c1s_a85_bytes_n : forall n d, (length d <= n)%nat -> bytes_ok (ref_a85_encode d).
Proof.
  assert (T : bytes_ok [126; 62]) by (constructor; [lia|constructor; [lia|constructor]]).
  induction n as [|n IH]; intros d Hl.
  - destruct d; [exact T|cbn in Hl; lia].
  - destruct d as [|a [|b [|c [|e t]]]].
    + exact T.
    + cbn [ref_a85_encode]. apply c1s_bytes_app; [|exact T]. apply c1s_dig_bytes, Forall_firstn_dig, a85_digits_dig.
    + cbn [ref_a85_encode]. apply c1s_bytes_app; [|exact T]. apply c1s_dig_bytes, Forall_firstn_dig, a85_digits_dig.
    + cbn [ref_a85_encode]. apply c1s_bytes_app; [|exact T]. apply c1s_dig_bytes, Forall_firstn_dig, a85_digits_dig.
    + rewrite ref_a85_encode_group. apply c1s_bytes_app.
      * destruct (be32 a b c e =? 0); [constructor; [lia|constructor]|apply c1s_dig_bytes, a85_digits_dig].
      * apply IH. cbn [length] in Hl. lia.
Qed.
Lemma c1s_a85_bytes : forall d, bytes_ok (ref_a85_encode d).
Proof. intros d. apply (c1s_a85_bytes_n (length d)). lia. Qed.

Lemma c1s_firstn_bytes : forall n d, bytes_ok d -> bytes_ok (firstn n d).
Proof.
  induction n as [|n IH]; intros d H; [constructor|].
  destruct H as [|x t Hx Ht]; [constructor|]. cbn [firstn]. constructor; [exact Hx|apply IH, Ht].
Qed.
Lemma c1s_skipn_bytes : forall n d, bytes_ok d -> bytes_ok (skipn n d).
Proof.
  intros n d H. unfold bytes_ok in *. rewrite Forall_forall in *. intros x Hx. apply H.
  rewrite <- (firstn_skipn n d). apply in_or_app. right. exact Hx.
Qed.

Lemma c1s_rl_bytes_fuel : forall fuel d, bytes_ok d -> bytes_ok (ref_rl_encode_fuel fuel d).
Proof.
  induction fuel as [|f IH]; intros d Hd.
  - cbn. constructor; [lia|constructor].
  - cbn [ref_rl_encode_fuel]. destruct d as [|x t].
    + constructor; [lia|constructor].
    + remember (x :: t) as d'.
      constructor.
      * pose proof (firstn_le_length 128 d') as L. lia.
      * apply c1s_bytes_app; [apply c1s_firstn_bytes, Hd|]. apply IH. apply c1s_skipn_bytes, Hd.
Qed.
Lemma c1s_rl_bytes : forall d, bytes_ok d -> bytes_ok (ref_rl_encode d).
Proof. intros d H. apply c1s_rl_bytes_fuel, H. Qed.

(* ---- T2: round trip.  zlib enters as a section hypothesis (it is outside qpdf): inflate undoes deflate. *)
Section Roundtrip.
  Variable infl : list N -> option (list N).
  Variable defl : list N -> list N.
  Hypothesis infl_defl : forall x, infl (defl x) = Some x.
  Hypothesis defl_nonempty : forall x, defl x <> [].
  Hypothesis defl_bytes : forall x, bytes_ok x -> bytes_ok (defl x).

  Definition c1s_chain_ok (chain : list (c1s_filter * c1s_style)) : Prop :=
    Forall (fun s => fst s <> C1sLZW /\ style_ok (snd s)) chain.

  Lemma c1s_encode_bytes : forall chain d, c1s_chain_ok chain -> bytes_ok d -> bytes_ok (c1s_encode defl chain d).
  Proof.
    induction chain as [|[f st] r IH]; intros d Hc Hd; [exact Hd|].
    inversion Hc as [|? ? [Hf Hs] Hr]; subst. cbn [fst snd] in Hf, Hs.
    cbn [c1s_encode]. specialize (IH d Hr Hd).
    destruct f; cbn [c1s_enc1].
    - apply c1s_ahx_bytes; assumption.
    - apply c1s_a85_bytes.
    - contradiction Hf; reflexivity.
    - apply defl_bytes, IH.
    - apply c1s_rl_bytes, IH.
  Qed.

  Lemma c1c_pipe_roundtrip : forall chain d, c1s_chain_ok chain -> bytes_ok d ->
    c1c_pipe infl (map (fun f => (c1s_kind f, c1c_cfg0, C1cPostNone)) (map fst chain)) (c1s_encode defl chain d) = (d, false).
  Proof.
    induction chain as [|[f st] r IH]; intros d Hc Hd; [reflexivity|].
    inversion Hc as [|? ? [Hf Hs] Hr]; subst. cbn [fst snd] in Hf, Hs.
    cbn [map fst c1s_encode c1c_pipe].
    pose proof (c1s_encode_bytes r d Hr Hd) as Hx.
    set (x := c1s_encode defl r d) in *.
    assert (E : c1c_stage_run infl (c1s_kind f) c1c_cfg0 C1cPostNone (c1s_enc1 defl f st x) = (x, false)).
    { unfold c1c_stage_run. destruct f; cbn [c1s_kind c1s_enc1].
      - rewrite ahx_decode_encode_lemma by assumption. reflexivity.
      - rewrite a85_decode_encode_lemma by assumption. reflexivity.
      - contradiction Hf; reflexivity.
      - destruct (defl x) eqn:D; [exfalso; eapply defl_nonempty, D|].
        rewrite <- D, infl_defl. reflexivity.
      - rewrite rld_decode_literal_lemma. reflexivity. }
    rewrite E. apply IH; assumption.
  Qed.

  (* the object-stream reader and the cross-reference-stream reader obtain exactly the encoded data, for every chain of
     ASCIIHex / ASCII85 / Flate / RunLength stages, however the chain is written in the dictionary *)
  Lemma c1c_container_roundtrip_sec : forall form chain data,
    c1s_chain_ok chain -> c1s_writable form (map fst chain) -> bytes_ok data ->
    let d := [(c1c_s_Filter, c1s_filter_obj form (map fst chain)); (c1c_s_DecodeParms, c1s_parms_obj form (map fst chain))] in
    c1c_objstm_data infl d (c1s_encode defl chain data) = C1cData data
    /\ c1c_xref_data infl d (c1s_encode defl chain data) = C1cData data.
  Proof.
    intros form chain data Hc W Hd d.
    assert (G : forall lv, 2 <= c1c_rank lv ->
              c1c_get_stream_data infl lv (c1s_filter_obj form (map fst chain)) (c1s_parms_obj form (map fst chain))
                                  (c1s_encode defl chain data) = C1cData data).
    { intros lv H. unfold c1c_get_stream_data.
      assert (R : (c1c_rank lv =? 0) = false) by (apply N.eqb_neq; lia).
      rewrite R. cbn [negb]. rewrite orb_true_r. cbn [negb].
      rewrite c1c_filterable_lossless by assumption.
      rewrite c1c_no_dct_lossless, c1c_prepare_lossless.
      rewrite c1c_pipe_roundtrip by assumption. reflexivity. }
    split.
    - unfold c1c_objstm_data, d. cbn [c1c_dict_get]. apply G. cbn. lia.
    - unfold c1c_xref_data, d. cbn [c1c_dict_get]. apply G. cbn. lia.
  Qed.
End Roundtrip.

(* ---- T2: the object-stream reader and the cross-reference-stream reader obtain exactly the data that was encoded, for every
   chain of ASCIIHex / ASCII85 / Flate / RunLength stages (any white-space / letter-case style of the hex text, any zlib
   compressor), however the chain is written in the stream dictionary.  zlib is outside qpdf: inflate undoes deflate. *)
Lemma c1c_container_roundtrip_lemma : forall (infl : list N -> option (list N)) (defl : list N -> list N),
  (forall x, infl (defl x) = Some x) -> (forall x, defl x <> []) -> (forall x, bytes_ok x -> bytes_ok (defl x)) ->
  forall form chain data,
  c1s_chain_ok chain -> c1s_writable form (map fst chain) -> bytes_ok data ->
  let d := [(c1c_s_Filter, c1s_filter_obj form (map fst chain)); (c1c_s_DecodeParms, c1s_parms_obj form (map fst chain))] in
  c1c_objstm_data infl d (c1s_encode defl chain data) = C1cData data
  /\ c1c_xref_data infl d (c1s_encode defl chain data) = C1cData data.
Proof. intros infl defl H1 H2 H3. exact (c1c_container_roundtrip_sec infl defl H1 H2 H3). Qed.

(* ---- T3: the decode level is what this rests on.  One level lower ("generalized", what the writer uses by default for
   ordinary streams) a RunLength container is refused although it is valid: the constants c1c_objstm_level /
   c1c_xref_level cannot be lowered without losing T1 and T2. *)
Lemma c1c_generalized_refuses_runlength_lemma : forall (infl : list N -> option (list N)) raw pobj,
  raw <> [] ->
  c1c_get_stream_data infl C1cLvGeneralized (MoName (c1s_name C1sRL)) pobj raw = C1cUnfilterable
  /\ c1c_get_stream_data infl C1cLvGeneralized (MoArr [MoName (c1s_name C1sAHx); MoName (c1s_name C1sRL)]) MoNull raw = C1cUnfilterable.
Proof.
  intros infl raw pobj H. destruct raw as [|b t]; [contradiction H; reflexivity|].
  split.
  - unfold c1c_get_stream_data. cbn [negb orb c1c_rank N.eqb].
    assert (E : c1c_filterable C1cLvGeneralized (MoName (c1s_name C1sRL)) pobj = None).
    { unfold c1c_filterable. cbn [c1s_name].
      change (c1c_filter_factory [47; 82; 117; 110; 76; 101; 110; 103; 116; 104; 68; 101; 99; 111; 100; 101]) with (Some C1cRunLength).
      assert (A : forall p, c1c_can_filter C1cLvGeneralized C1cRunLength p = None).
      { intros p. unfold c1c_can_filter. destruct (c1c_set_parms C1cRunLength p); reflexivity. }
      destruct pobj as [| | | | | |items| | |]; try (cbn [c1c_all_same]; rewrite A; reflexivity).
      destruct items as [|p ps]; [cbn [c1c_all_same]; rewrite A; reflexivity|].
      destruct (negb match [C1cRunLength] with [] => true | _ :: _ => false end && negb (Nat.eqb (length (p :: ps)) (length [C1cRunLength]))); [reflexivity|].
      cbn [c1c_pairwise]. rewrite A. reflexivity. }
    rewrite E. reflexivity.
  - reflexivity.
Qed.

(* ---- T4: raising the decode level never changes data that was obtained at a lower level *)
Lemma c1c_can_filter_mono : forall lv lv' k p c, c1c_rank lv <= c1c_rank lv' ->
  c1c_can_filter lv k p = Some c -> c1c_can_filter lv' k p = Some c.
Proof.
  intros lv lv' k p c H. unfold c1c_can_filter. destruct (c1c_set_parms k p) as [c0|]; [|discriminate].
  destruct (((c1c_rank lv <? 3) && c1c_is_lossy k) || ((c1c_rank lv <? 2) && c1c_is_specialized k)) eqn:E; [discriminate|].
  intros Hc. apply orb_false_iff in E. destruct E as [E1 E2].
  assert (F1 : (c1c_rank lv' <? 3) && c1c_is_lossy k = false).
  { destruct (c1c_is_lossy k); [|apply andb_false_r]. rewrite andb_true_r in *. apply N.ltb_ge in E1. apply N.ltb_ge. lia. }
  assert (F2 : (c1c_rank lv' <? 2) && c1c_is_specialized k = false).
  { destruct (c1c_is_specialized k); [|apply andb_false_r]. rewrite andb_true_r in *. apply N.ltb_ge in E2. apply N.ltb_ge. lia. }
  rewrite F1, F2. exact Hc.
Qed.

Lemma c1c_all_same_mono : forall lv lv' ks p st, c1c_rank lv <= c1c_rank lv' ->
  c1c_all_same lv ks p = Some st -> c1c_all_same lv' ks p = Some st.
Proof.
  intros lv lv' ks p. induction ks as [|k r IH]; intros st H; [trivial|].
  cbn [c1c_all_same]. destruct (c1c_can_filter lv k p) as [c|] eqn:E; [|discriminate].
  rewrite (c1c_can_filter_mono lv lv' k p c H E).
  destruct (c1c_all_same lv r p) as [l|] eqn:E2; [|discriminate].
  rewrite (IH l H eq_refl). trivial.
Qed.

Lemma c1c_pairwise_mono : forall lv lv' ks ps st, c1c_rank lv <= c1c_rank lv' ->
  c1c_pairwise lv ks ps = Some st -> c1c_pairwise lv' ks ps = Some st.
Proof.
  intros lv lv' ks. induction ks as [|k r IH]; intros ps st H; [trivial|].
  destruct ps as [|p pr]; [trivial|].
  cbn [c1c_pairwise]. destruct (c1c_can_filter lv k p) as [c|] eqn:E; [|discriminate].
  rewrite (c1c_can_filter_mono lv lv' k p c H E).
  destruct (c1c_pairwise lv r pr) as [l|] eqn:E2; [|discriminate].
  rewrite (IH pr l H E2). trivial.
Qed.

Lemma c1c_filterable_mono : forall lv lv' fobj pobj st, c1c_rank lv <= c1c_rank lv' ->
  c1c_filterable lv fobj pobj = Some st -> c1c_filterable lv' fobj pobj = Some st.
Proof.
  intros lv lv' fobj pobj st H. unfold c1c_filterable.
  destruct (match fobj with
            | MoNull => Some None
            | MoName n => match c1c_filter_factory n with Some k => Some (Some [k]) | None => None end
            | MoArr items => match c1c_kinds_of items with Some ks => Some (Some ks) | None => None end
            | _ => None
            end) as [[ks|]|]; [|trivial|trivial].
  destruct pobj as [| | | | | |items| | |]; try (apply c1c_all_same_mono; exact H).
  destruct items as [|p ps]; [apply c1c_all_same_mono; exact H|].
  destruct (negb match ks with [] => true | _ :: _ => false end && negb (Nat.eqb (length (p :: ps)) (length ks))); [trivial|].
  apply c1c_pairwise_mono; exact H.
Qed.

Lemma c1c_level_monotone_lemma : forall (infl : list N -> option (list N)) lv lv' fobj pobj raw d,
  c1c_rank lv <= c1c_rank lv' ->
  c1c_get_stream_data infl lv fobj pobj raw = C1cData d ->
  c1c_get_stream_data infl lv' fobj pobj raw = C1cData d.
Proof.
  intros infl lv lv' fobj pobj raw d H. unfold c1c_get_stream_data.
  destruct (negb (match raw with [] => true | _ => false end || negb (c1c_rank lv =? 0))) eqn:P; [discriminate|].
  assert (P' : negb (match raw with [] => true | _ => false end || negb (c1c_rank lv' =? 0)) = false).
  { apply negb_false_iff. apply negb_false_iff in P. apply orb_true_iff in P. apply orb_true_iff.
    destruct P as [P|P]; [left; exact P|right].
    apply negb_true_iff in P. apply N.eqb_neq in P. apply negb_true_iff. apply N.eqb_neq. lia. }
  rewrite P'.
  destruct (c1c_filterable lv fobj pobj) as [st|] eqn:F; [|discriminate].
  rewrite (c1c_filterable_mono lv lv' fobj pobj st H F). trivial.
Qed.
