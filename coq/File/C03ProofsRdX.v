(* C03 - reader model on the classic cross-reference table the writer model prints: read_xrefEntry (optimistic path)
   on WriterArith.xref_line, parse_xrefFirst on the subsection header, read_xrefTable's loops.
   Step (2) of rd_reads_writer_output (see the end of File/C03ProofsRdW.v). *)
From QV Require Import Base.Bytes Lex.TokModel Lex.LexSpec Lex.TokInterp Lex.LexRun Lex.LexProofs
     Obj.Unparse Obj.UnparseProofs Obj.SynSpec Obj.ParseModel Obj.ParseProofs Obj.ParseSim Obj.Queue File.WriterArith Obj.WriterModel Obj.WmPrinters
     File.C02Proofs Obj.C01FileProofs File.XrefModel File.RdModel File.C03ProofsRd File.C03ProofsRdW.
From Coq Require Import Lia.
Local Open Scope N_scope.

(* read_xrefEntry on an in-use line of writeXRefTable *)
(* helpers *)
Lemma rdx_span_zeros_cons : forall c t n,
  rd_span_zeros (c :: t) n = if c =? 48 then rd_span_zeros t (n + 1) else (c :: t, n).
Proof.
  intros c t n. destruct c as [|p]; [reflexivity|].
  do 6 (try (destruct p as [p|p|])); reflexivity.
Qed.

Lemma rdx_entry_digits : forall r S' v len, StrictSyntax.all_digits r = true -> len + rd_len r <= 10 ->
  rd_entry_digits (r ++ 32 :: S') v len 10
  = (32 :: S', fold_left (fun a d => a * 10 + digit_val d) r v, len + rd_len r).
Proof.
  induction r as [|c t IH]; intros S' v len Hd Hl.
  - cbn [app rd_entry_digits fold_left]. change (is_digit 32) with false. cbv iota.
    unfold rd_len. cbn [length]. f_equal. lia.
  - cbn [StrictSyntax.all_digits] in Hd. apply andb_true_iff in Hd. destruct Hd as [Hc Ht].
    unfold rd_len in *. cbn [length] in Hl. rewrite Nat2N.inj_succ in Hl.
    cbn [app rd_entry_digits fold_left]. rewrite Hc.
    assert (E : (len <? 10) = true) by (apply N.ltb_lt; lia). rewrite E.
    rewrite IH; [|exact Ht|lia]. unfold digit_val. cbn [length]. rewrite Nat2N.inj_succ. f_equal. lia.
Qed.

Lemma rdx_offset_field : forall d S' n, StrictSyntax.all_digits d = true -> n + rd_len d <= 10 ->
  (let '(s1, z1) := rd_span_zeros (d ++ 32 :: S') n in rd_entry_digits s1 0 z1 10)
  = (32 :: S', dec_value d, n + rd_len d).
Proof.
  induction d as [|c t IH]; intros S' n Hd Hl.
  - cbn [app]. rewrite rdx_span_zeros_cons. change (32 =? 48) with false. cbv iota.
    exact (rdx_entry_digits [] S' 0 n eq_refl Hl).
  - cbn [app]. rewrite rdx_span_zeros_cons. destruct (c =? 48) eqn:E.
    + apply N.eqb_eq in E. subst c.
      cbn [StrictSyntax.all_digits] in Hd. apply andb_true_iff in Hd. destruct Hd as [_ Ht].
      unfold rd_len in *. cbn [length] in *. rewrite Nat2N.inj_succ in *.
      rewrite IH; [|exact Ht|lia]. f_equal. lia.
    + exact (rdx_entry_digits (c :: t) S' 0 n Hd Hl).
Qed.

Lemma rd_xref_entry_line_lemma : forall off, off < 10 ^ 10 -> rd_xref_entry (xref_line off) = RdeOk off 0 110.
Proof.
  intros off Hoff. destruct (pad_props off Hoff) as (Hl & Hd & Hv).
  unfold xref_line. set (d := int_to_string_pad off 10) in *.
  unfold rd_xref_entry.
  assert (E20 : rd_len (d ++ [32; 48; 48; 48; 48; 48; 32; 110; 32; 10]) = 20).
  { unfold rd_len. rewrite app_length, Hl. reflexivity. }
  rewrite E20. change (negb (20 =? 20)) with false. cbv iota.
  pose proof (rdx_offset_field d [48; 48; 48; 48; 48; 32; 110; 32; 10] 0 Hd) as H.
  unfold rd_len in H. rewrite Hl in H. specialize (H ltac:(vm_compute; discriminate)).
  change (0 + N.of_nat 10) with 10 in H.
  destruct (rd_span_zeros (d ++ [32; 48; 48; 48; 48; 48; 32; 110; 32; 10]) 0) as [s1 z1].
  rewrite H, Hv. reflexivity.
Qed.

(* ... and on the line of object 0 *)
Lemma rd_xref_entry_free_lemma : rd_xref_entry s_free = RdeOk 0 65535 102.
Proof. vm_compute. reflexivity. Qed.

Lemma rdx_firstn_app : forall (a b : list N) k, length a = k -> firstn k (a ++ b) = a.
Proof.
  intros a b k <-. rewrite firstn_app, firstn_all, Nat.sub_diag. cbn [firstn]. apply app_nil_r.
Qed.

Lemma rdx_skipn_add : forall (l : list N) a b, skipn (a + b) l = skipn b (skipn a l).
Proof.
  intros l a. revert l. induction a as [|a IH]; intros l b; [reflexivity|].
  destruct l as [|x l]; [cbn [Nat.add skipn]; rewrite skipn_nil; reflexivity|].
  cbn [Nat.add skipn]. apply IH.
Qed.

Lemma rdx_skipn_app : forall (a b : list N) k, length a = k -> skipn k (a ++ b) = b.
Proof.
  intros a b k <-. rewrite skipn_app, skipn_all, Nat.sub_diag. reflexivity.
Qed.

Lemma rdx_at_add : forall file pos a b k, rd_at file pos = a ++ b -> length a = N.to_nat k ->
  rd_at file (pos + k) = b.
Proof.
  intros file pos a b k Hat Hl. unfold rd_at in *.
  rewrite N2Nat.inj_add, rdx_skipn_add, Hat. apply rdx_skipn_app. exact Hl.
Qed.

(* the in-use entries of the table are inserted in order: object i, i+1, ... at the recorded offsets, generation 0 *)
Fixpoint rdx_insert (max_id : N) (st : c3_state) (i : N) (offs : list (N * N)) : c3_state :=
  match offs with
  | [] => st
  | ko :: r => rdx_insert max_id (c3_entry max_id st (i, C3Use (snd ko) 0)) (i + 1) r
  end.

Lemma rd_table_entries_lines_lemma : forall offs file pos i max_id st free w rest,
  rd_at file pos = flat_map (fun ko : N * N => xref_line (snd ko)) offs ++ rest ->
  Forall (fun ko : N * N => snd ko < 10 ^ 10) offs ->
  rd_table_entries (length offs) file pos i max_id st free w
  = RdGo (pos + 20 * N.of_nat (length offs), rdx_insert max_id st i offs, free, w).
Proof.
  induction offs as [|ko r IH]; intros file pos i max_id st free w rest Hat Hall.
  - cbn [length rd_table_entries rdx_insert]. f_equal. f_equal. f_equal. f_equal. cbn. lia.
  - inversion Hall as [|? ? Hko Hr]; subst.
    cbn [flat_map] in Hat. rewrite <- app_assoc in Hat.
    destruct (xref_line_read_lemma (snd ko) [] Hko) as [Hlen _].
    cbn [length rd_table_entries rdx_insert]. rewrite Hat.
    rewrite (rdx_firstn_app _ _ _ Hlen), (rd_xref_entry_line_lemma _ Hko).
    change (110 =? 102) with false. change (65535 <=? 0) with false. cbv iota.
    rewrite (IH file (pos + 20) (i + 1) max_id _ free w rest); [|rewrite (rdx_at_add _ _ _ _ 20 Hat Hlen); reflexivity | exact Hr].
    rewrite Nat2N.inj_succ. f_equal. f_equal. f_equal. f_equal. lia.
Qed.

Lemma rdx_cstr_app : forall a b, Forall (fun c => c <> 0) a -> rd_cstr (a ++ b) = a ++ rd_cstr b.
Proof.
  induction 1 as [|c a Hc Ha IH]; [reflexivity|].
  cbn [app rd_cstr]. apply N.eqb_neq in Hc. rewrite Hc, IH. reflexivity.
Qed.

Lemma rdx_digit_facts : forall c, is_digit c = true ->
  Filters.util_is_space c = false /\ c <> 0 /\ (c =? 45) = false /\ (c =? 43) = false.
Proof.
  intros c H. unfold is_digit in H. apply andb_true_iff in H. destruct H as [A1 A2].
  apply N.leb_le in A1. apply N.leb_le in A2. unfold Filters.util_is_space.
  repeat split; try lia; repeat (apply orb_false_intro); apply N.eqb_neq; lia.
Qed.

Lemma rdx_digits_nonzero : forall d, StrictSyntax.all_digits d = true -> Forall (fun c => c <> 0) d.
Proof.
  induction d as [|c t IH]; intros H; [constructor|].
  cbn [StrictSyntax.all_digits] in H. apply andb_true_iff in H. destruct H as [Hc Ht].
  constructor; [apply (rdx_digit_facts c Hc) | apply IH; exact Ht].
Qed.

Lemma rdx_span_digits : forall d c S', StrictSyntax.all_digits d = true -> is_digit c = false ->
  rd_span_digits (d ++ c :: S') = (d, c :: S').
Proof.
  induction d as [|x t IH]; intros c S' H Hc.
  - cbn [app rd_span_digits]. rewrite Hc. reflexivity.
  - cbn [StrictSyntax.all_digits] in H. apply andb_true_iff in H. destruct H as [Hx Ht].
    cbn [app rd_span_digits]. rewrite Hx, (IH c S' Ht Hc). reflexivity.
Qed.

Lemma rdx_dec_len : forall m, m < 10 ^ 10 -> (length (dec_of_N m) <= 10)%nat.
Proof. intros m Hm. unfold dec_of_N. apply (ddf_length_le _ _ 9). exact Hm. Qed.

Lemma rdx_to_int_dec : forall m, m <= 2147483647 -> rd_to_int (dec_of_N m) = Some (Z.of_N m).
Proof.
  intros m Hm. destruct (dec_of_N_value_lemma m) as (Hv & Hd & Hl).
  unfold rd_to_int, text_to_ll. destruct (dec_of_N m) as [|b r] eqn:E; [cbn in Hl; lia|].
  cbn [StrictSyntax.all_digits] in Hd. apply andb_true_iff in Hd. destruct Hd as [Hb _].
  destruct (rdx_digit_facts b Hb) as (_ & _ & E45 & E43). rewrite E45, E43, Hv.
  assert (R1 : ((-9223372036854775808 <=? Z.of_N m) && (Z.of_N m <=? 9223372036854775807))%Z = true).
  { apply andb_true_iff. split; apply Z.leb_le; lia. }
  rewrite R1.
  assert (R2 : in_int_range (Z.of_N m) = true).
  { unfold in_int_range. apply andb_true_iff. split; apply Z.leb_le; lia. }
  rewrite R2. reflexivity.
Qed.

(* parse_xrefFirst on the text `0 <m> LF` followed by the line of object 0 *)
Lemma rdx_first_text : forall m Y, m <= 2147483647 ->
  rd_xref_first ([48; 32] ++ dec_of_N m ++ [10] ++ s_free ++ Y)
  = Some (0%Z, Z.of_N m, 3 + rd_len (dec_of_N m)).
Proof.
  intros m Y Hm. destruct (dec_of_N_value_lemma m) as (Hv & Hd & Hl).
  pose proof (rdx_to_int_dec m Hm) as Hti.
  unfold rd_xref_first. cbn [app rd_skip_space]. change (Filters.util_is_space 48) with false. cbv iota.
  cbn [rd_span_digits]. change (is_digit 48) with true. change (is_digit 32) with false. cbv iota.
  cbn [rd_skip_space]. change (Filters.util_is_space 32) with true. cbv iota.
  destruct (dec_of_N m) as [|b r] eqn:ED; [cbn in Hl; lia|].
  assert (Hb : is_digit b = true).
  { cbn [StrictSyntax.all_digits] in Hd. apply andb_true_iff in Hd. apply Hd. }
  destruct (rdx_digit_facts b Hb) as (Sb & _ & _ & _).
  cbn [app rd_skip_space]. rewrite Sb. change (0 + 1 =? 0) with false. cbv iota.
  change (b :: r ++ 10 :: s_free ++ Y) with ((b :: r) ++ 10 :: s_free ++ Y).
  rewrite (rdx_span_digits (b :: r) 10 (s_free ++ Y) Hd eq_refl).
  unfold s_free. cbn [app rd_skip_space]. change (Filters.util_is_space 10) with true. change (Filters.util_is_space 48) with false.
  cbv iota. rewrite Hti. change (rd_to_int [48]) with (Some 0%Z). cbv iota.
  f_equal. f_equal. unfold rd_len. cbn [length]. lia.
Qed.

(* parse_xrefFirst on the 50-byte buffer at `0 <n+1> LF` followed by the line of object 0 *)
Lemma rd_xref_first_model_lemma : forall n X, n < 2147483647 ->
  rd_xref_first (rd_cstr (firstn 50 ([48; 32] ++ dec_of_N (n + 1) ++ [10] ++ s_free ++ X)))
  = Some (0%Z, Z.of_N (n + 1), 3 + rd_len (dec_of_N (n + 1))).
Proof.
  intros n X Hn. destruct (dec_of_N_value_lemma (n + 1)) as (Hv & Hd & Hl).
  assert (Hlen : (length (dec_of_N (n + 1)) <= 10)%nat).
  { apply rdx_dec_len. change (10 ^ 10) with 10000000000. lia. }
  set (A := [48; 32] ++ dec_of_N (n + 1) ++ [10] ++ s_free).
  assert (HA : (length A <= 50)%nat).
  { unfold A, s_free. rewrite !app_length. cbn [length]. lia. }
  assert (HA0 : Forall (fun c => c <> 0) A).
  { unfold A. repeat (apply Forall_app; split); try (apply rdx_digits_nonzero; exact Hd);
      unfold s_free; repeat constructor; discriminate. }
  replace ([48; 32] ++ dec_of_N (n + 1) ++ [10] ++ s_free ++ X) with (A ++ X)
    by (unfold A; rewrite <- !app_assoc; reflexivity).
  rewrite firstn_app, (firstn_all2 A HA), (rdx_cstr_app _ _ HA0).
  unfold A. rewrite <- !app_assoc. apply rdx_first_text. lia.
Qed.

Lemma rdx_lines_length : forall offs : list (N * N), Forall (fun ko : N * N => snd ko < 10 ^ 10) offs ->
  length (flat_map (fun ko : N * N => xref_line (snd ko)) offs) = (20 * length offs)%nat.
Proof.
  induction 1 as [|ko r Hko Hr IH]; [reflexivity|].
  destruct (xref_line_read_lemma (snd ko) [] Hko) as [Hlen _].
  cbn [flat_map length]. rewrite app_length, Hlen, IH. lia.
Qed.

(* read_xrefTable's loops on the whole table of the writer model, up to and including the `trailer` keyword:
   one subsection `0 n+1`, object 0 free (recorded for later), the n in-use entries inserted, and the input left
   just after the keyword.  [rest] is what follows the keyword (in the writer's output: ` << ...`). *)
Lemma rd_table_section_model_step : forall file pos offs rest max_id st,
  let n := N.of_nat (length offs) in
  rd_at file pos = [48; 32] ++ dec_of_N (n + 1) ++ [10] ++ s_free
                   ++ flat_map (fun ko : N * N => xref_line (snd ko)) offs ++ rd_s_trailer ++ rest ->
  n < 2147483647 -> Forall (fun ko : N * N => snd ko < 10 ^ 10) offs ->
  bytes_ok rest -> ends_cleanly rest ->
  exists tpos,
    rd_table_subsections (S (length file)) file pos max_id st [] []
    = RdGo (rest, tpos, rdx_insert max_id st 1 offs, [(0, C3Free 65535)], []).
Proof.
  intros file pos offs rest max_id st n Hat Hn Hall Brest Erest.
  set (D := dec_of_N (n + 1)) in *.
  set (L := flat_map (fun ko : N * N => xref_line (snd ko)) offs) in *.
  pose proof (rdx_lines_length offs Hall) as HLlen. fold L in HLlen.
  (* the subsection header *)
  assert (H1 : rd_xref_first (rd_cstr (firstn 50 (rd_at file pos))) = Some (0%Z, Z.of_N (n + 1), 3 + rd_len D)).
  { rewrite Hat. apply rd_xref_first_model_lemma. exact Hn. }
  (* the file holds the entries *)
  assert (Hfl : n + 1 <= rd_len file / 20).
  { apply N.div_le_lower_bound; [lia|].
    assert (Hsk : (length (rd_at file pos) <= length file)%nat) by (unfold rd_at; rewrite skipn_length; lia).
    rewrite Hat in Hsk. rewrite !app_length in Hsk. rewrite HLlen in Hsk. unfold s_free in Hsk. cbn [length] in Hsk.
    unfold rd_len, n. lia. }
  assert (Hmin : N.to_nat (N.min (Z.to_N (Z.of_N (n + 1))) (rd_len file / 20 + 1)) = S (length offs)).
  { rewrite N2Z.id. rewrite N.min_l by lia. unfold n. lia. }
  (* positions *)
  assert (Hat1 : rd_at file pos = ([48; 32] ++ D ++ [10]) ++ s_free ++ L ++ rd_s_trailer ++ rest).
  { rewrite Hat, <- !app_assoc. reflexivity. }
  assert (Hat2 : rd_at file (pos + (3 + rd_len D)) = s_free ++ L ++ rd_s_trailer ++ rest).
  { apply (rdx_at_add file pos _ _ _ Hat1). rewrite !app_length. cbn [length]. unfold rd_len. lia. }
  assert (Hat3 : rd_at file (pos + (3 + rd_len D) + 20) = L ++ rd_s_trailer ++ rest).
  { apply (rdx_at_add _ _ s_free _ 20 Hat2). reflexivity. }
  pose proof (rd_table_entries_lines_lemma offs file _ 1 max_id st [(0, C3Free 65535)] [] _ Hat3 Hall) as HE.
  set (pos2 := pos + (3 + rd_len D) + 20 + 20 * N.of_nat (length offs)) in *.
  assert (Hat4 : rd_at file pos2 = rd_s_trailer ++ rest).
  { unfold pos2. apply (rdx_at_add _ _ L _ _ Hat3). rewrite HLlen. lia. }
  (* the keyword *)
  assert (St : rw_step (rd_s_trailer ++ rest) (PKeyword rd_s_trailer) rest).
  { apply rw_step_kw; try reflexivity; try assumption. discriminate. }
  destruct (rw_tok_step _ _ _ pos2 St) as (tk & p' & last & T & I).
  pose proof (rw_word_tok _ _ I rd_s_trailer) as W.
  change (list_eqb N.eqb rd_s_trailer rd_s_trailer) with true in W.
  exists p'.
  cbn [rd_table_subsections]. rewrite H1, Hmin. change (Z.to_N 0) with 0.
  cbn [rd_table_entries]. rewrite Hat2.
  rewrite (rdx_firstn_app s_free _ 20 eq_refl), rd_xref_entry_free_lemma.
  change (102 =? 102) with true. cbv iota. cbn [app]. change (0 + 1) with 1.
  rewrite HE, Hat4, T. cbv beta iota. rewrite W. reflexivity.
Qed.
