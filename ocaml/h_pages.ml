(* handlers: C13 page-tree / foreign-copier model (Struct/PgModel.v) and list specification
   (Struct/PgSpec.v).  Text <-> inductive values, and the same observation lines as
   harness/drv_pages.cc prints.  No qpdf logic here. *)
open Qvmodel
open Runner

(* ---- PDF-syntax subset: tokens separated by blanks ---- *)
let key_of_string (s : string) : n list = bytes_of_string s
let string_of_key (k : n list) : string = string_of_bytes k

let rec dict_insert (d : (n list * pg_val) list) (k : n list) (v : pg_val) = pg_dins d k v

let parse_value (toks : string array) (pos : int ref) : pg_val =
  let peek i = if !pos + i < Array.length toks then Some toks.(!pos + i) else None in
  let is_int s = s <> "" && (match int_of_string_opt s with Some _ -> true | None -> false) in
  let rec value () : pg_val =
    match peek 0 with
    | None -> failwith "parse: eof"
    | Some t ->
      if t = "<<" then begin
        incr pos;
        let d = ref [] in
        let continue = ref true in
        while !continue do
          match peek 0 with
          | Some ">>" -> incr pos; continue := false
          | Some k when String.length k > 0 && k.[0] = '/' ->
            incr pos;
            let v = value () in
            (match v with PvNull -> () | _ -> d := dict_insert !d (key_of_string (String.sub k 1 (String.length k - 1))) v)
          | _ -> failwith "parse: dict"
        done;
        PvDict !d
      end else if t = "[" then begin
        incr pos;
        let l = ref [] in
        let continue = ref true in
        while !continue do
          match peek 0 with
          | Some "]" -> incr pos; continue := false
          | Some _ -> l := value () :: !l
          | None -> failwith "parse: array"
        done;
        PvArr (List.rev !l)
      end else if t = "null" then (incr pos; PvNull)
      else if String.length t > 0 && t.[0] = '/' then (incr pos; PvName (key_of_string (String.sub t 1 (String.length t - 1))))
      else if is_int t then begin
        match peek 1, peek 2 with
        | Some g, Some "R" when is_int g -> pos := !pos + 3; PvRef (n_of_int (int_of_string t))
        | _ -> incr pos; PvInt (z_of_int (int_of_string t))
      end else failwith ("parse: token " ^ t)
  in
  value ()

let value_of_text (s : string) : pg_val =
  let toks = Array.of_list (List.filter (fun x -> x <> "") (String.split_on_char ' ' (String.map (fun c -> if c = '\n' || c = '\t' || c = '\r' then ' ' else c) s))) in
  let pos = ref 0 in
  parse_value toks pos

(* QPDF_Dictionary unparse leaves out keys whose value is null (directly or through a reference) *)
let cur_store : pg_store ref = ref []
let rec unparse (b : Buffer.t) (v : pg_val) : unit =
  match v with
  | PvNull -> Buffer.add_string b "null"
  | PvInt z -> Buffer.add_string b (string_of_int (int_of_z z))
  | PvName k -> Buffer.add_char b '/'; Buffer.add_string b (string_of_key k)
  | PvRef i -> Buffer.add_string b (string_of_int (int_of_n i)); Buffer.add_string b " 0 R"
  | PvArr l -> Buffer.add_string b "[ "; List.iter (fun x -> unparse b x; Buffer.add_char b ' ') l; Buffer.add_char b ']'
  | PvDict d ->
    Buffer.add_string b "<< ";
    List.iter (fun (k, x) -> if not (pg_is_null !cur_store x) then begin
                Buffer.add_char b '/'; Buffer.add_string b (string_of_key k); Buffer.add_char b ' ';
                unparse b x; Buffer.add_char b ' ' end) d;
    Buffer.add_string b ">>"

(* ---- documents ---- *)
(* model text:  root:<n> NL  then one line per object  i:<value>  or  i:S<dict>#<hexdata> *)
let doc_of_text (txt : string) : pg_doc =
  let root = ref 1 in
  let cells = ref [] in
  List.iter (fun line ->
    if line <> "" then begin
      let c = String.index line ':' in
      let hd = String.sub line 0 c and rest = String.sub line (c + 1) (String.length line - c - 1) in
      if hd = "root" then root := int_of_string rest
      else begin
        let id = int_of_string hd in
        let cell =
          if String.length rest > 0 && rest.[0] = 'S' then begin
            let h = String.rindex rest '#' in
            let d = value_of_text (String.sub rest 1 (h - 1)) in
            let data = unhexbytes (String.sub rest (h + 1) (String.length rest - h - 1)) in
            match d with PvDict dd -> PcStream (dd, data, N0) | _ -> failwith "stream dict"
          end else PcObj (value_of_text rest) in
        cells := (n_of_int id, cell) :: !cells
      end
    end) (String.split_on_char '\n' txt);
  (* newest first = descending ids *)
  let sorted = List.sort (fun (a, _) (b, _) -> compare (int_of_n b) (int_of_n a)) !cells in
  pg_init_doc sorted (n_of_int !root)

let templates : (string, pg_doc) Hashtbl.t = Hashtbl.create 16

let dump (p : pg_doc) : string =
  let s = p.pd_store in
  cur_store := s;
  let mx = List.fold_left (fun m (i, _) -> max m (int_of_n i)) 0 s in
  let arr = Array.make (mx + 1) None in
  (* first binding wins (pg_lookup semantics) *)
  List.iter (fun (i, c) -> let k = int_of_n i in if arr.(k) = None then arr.(k) <- Some c) s;
  let b = Buffer.create 1024 in
  for i = 1 to mx do
    Buffer.add_string b (string_of_int i); Buffer.add_char b ':';
    (match arr.(i) with
     | None -> Buffer.add_string b "null"
     | Some (PcObj v) -> unparse b v
     | Some (PcStream (d, data, _)) -> Buffer.add_char b 'S'; unparse b (PvDict d); Buffer.add_char b '#';
       (match pg_stream_data p (n_of_int i) with Some x -> Buffer.add_string b (hexbytes x) | None -> Buffer.add_char b '!'));
    Buffer.add_char b '\n'
  done;
  Buffer.contents b

let fnv (s : string) : int =
  let mask = (1 lsl 62) - 1 in
  let h = ref 1469598103934665603 in
  String.iter (fun c -> h := ((!h lxor (Char.code c)) * 1099511628211) land mask) s;
  !h

let errs (e : pg_err) : string = match e with PeQ -> "E:qexc" | PeRt -> "E:rt" | PeLogic -> "E:logic" | PeUnm -> "E:unm"

let pagelist_str (p : pg_doc) (l : n list) : string =
  String.concat "" (List.map (fun i ->
    string_of_int (int_of_n i) ^ "^" ^ (match pg_marker p.pd_store i with Some z -> string_of_int (int_of_z z) | None -> "?") ^ ",") l)

let docb (s : string) : bool = (s = "1")

(* returns (world, result text) *)
let do_op (w : pg_doc * pg_doc) (f : string array) : (pg_doc * pg_doc) * string =
  let i k = int_of_string f.(k) in
  let ni k = n_of_int (i k) in
  let b k = f.(k) <> "0" in
  let href dk ik = PhObj (docb f.(dk), ni ik) in
  let d = docb f.(1) in
  let op =
    match f.(0) with
    | "ap" -> Some (PoAddPage (d, href 2 3, b 4))
    | "hp" -> Some (PoHAddPage (d, href 2 3, b 4))
    | "an" ->
      let v = value_of_text ("<< /Type /Page /MediaBox [ 0 0 " ^ f.(3) ^ " " ^ f.(3) ^ " ] /Resources << >> /Mk " ^ f.(3) ^ " >>") in
      Some (PoAddPage (d, PhDirect v, b 2))
    | "av" -> Some (PoAddPage (d, PhDirect (value_of_text (unhex f.(3))), b 2))
    | "aa" | "ha" -> Some (PoAddPageAt (d, href 2 3, b 4, href 5 6))
    | "rm" | "hr" -> Some (PoRemove (d, href 2 3))
    | "sc" -> Some (PoShallowCopy (d, ni 2))
    | "cf" -> Some (PoCopyForeign (d, href 2 3))
    | "rp" -> Some (PoReplace (d, ni 2, value_of_text (unhex f.(3))))
    | "ri" -> Some (PoReplaceInd (d, ni 2, href 3 4))
    | "rr" -> Some (PoReplaceReserved (d, ni 2))
    | "sw" -> Some (PoSwap (d, ni 2, ni 3))
    | "uc" -> Some (PoRefresh d)
    | "pi" -> Some (PoPushInh d)
    | "gp" -> Some (PoGetPages d)
    | "fp" -> Some (PoFind (d, ni 2))
    | "mi" -> Some (PoMakeIndirect (d, value_of_text (unhex f.(2))))
    | _ -> None in
  let nat k = nat_of_int (i k) in
  let zi k = z_of_int (i k) in
  let inplace =
    match f.(0) with
    | "mb" -> Some (PyEdit (d, ni 2, key_of_string "MediaBox", PeSetItem (nat 3, zi 4)))
    | "rk" -> Some (PyEdit (d, ni 2, key_of_string "Resources", PeSetKey (key_of_string ("X" ^ f.(3)), zi 4)))
    | "na" -> Some (PyEdit (d, ni 2, key_of_string "Annots", PeAppend (zi 3)))
    | "kn" -> Some (PyKids (d, PkNull (nat 2)))
    | "ks" -> Some (PyKids (d, PkSwap (nat 2, nat 3)))
    | _ -> None in
  match inplace with
  | Some o -> let (w', r) = pgy_step w o in (w', (match r with PrOk -> "ok" | PrId j -> "ok:" ^ string_of_int (int_of_n j) | _ -> "ok:skip"))
  | None ->
  match op with
  | None -> (w, "?op")
  | Some o ->
    let (w', r) = pg_step w o in
    let txt = match r with
      | PrOk -> "ok"
      | PrId j -> "ok:" ^ string_of_int (int_of_n j)
      | PrDirect -> "ok:direct-null"
      | PrPages l -> "ok:" ^ pagelist_str (pg_get w' d) l
      | PrIdx z -> "ok:" ^ string_of_int (int_of_z z)
      | PrErr e -> errs e in
    (w', txt)

let pagelist (w : (pg_doc * pg_doc) ref) (d : bool) : string =
  let (w', r) = pg_step !w (PoGetPages d) in
  w := w';
  match r with PrPages l -> pagelist_str (pg_get w' d) l | PrErr e -> errs e | _ -> "?"

let findall (w : (pg_doc * pg_doc) ref) (d : bool) : string =
  let (w', r) = pg_step !w (PoGetPages d) in
  w := w';
  match r with
  | PrPages l ->
    String.concat "" (List.map (fun pg ->
      let (w2, r2) = pg_step !w (PoFind (d, pg)) in
      w := w2;
      (match r2 with PrIdx z -> string_of_int (int_of_z z) | PrErr e -> errs e | _ -> "?") ^ ",") l)
  | PrErr e -> errs e
  | _ -> "?"

let has (s : string) (c : char) = String.contains s c

let () =
  register "pgdoc" (fun args -> match args with
    | name :: _pdf :: model :: _ -> Hashtbl.replace templates name (doc_of_text (unhex model)); "ok"
    | _ -> "?args");
  register "pgrun" (fun args -> match args with
    | flags :: na :: nb :: rest ->
      let verbose = has flags 'v' in
      let obs = if has flags '2' then 2 else if has flags '1' then 1 else 0 in
      (match Hashtbl.find_opt templates na, Hashtbl.find_opt templates nb with
       | Some a, Some bdoc ->
         let w = ref (a, bdoc) in
         let out = Buffer.create 4096 in
         let state_str () =
           let da = dump (fst !w) and db = dump (snd !w) in
           if verbose then " d=" ^ hex da ^ "/" ^ hex db
           else " h=" ^ string_of_int (fnv da) ^ "/" ^ string_of_int (fnv db) in
         let observe res =
           Buffer.add_string out ("r=" ^ res);
           if obs >= 1 then begin
             let pa = pagelist w false in let pb = pagelist w true in
             Buffer.add_string out (" p=" ^ pa ^ "/" ^ pb) end;
           if obs >= 2 then begin
             let fa = findall w false in let fb = findall w true in
             Buffer.add_string out (" f=" ^ fa ^ "/" ^ fb) end;
           Buffer.add_string out (state_str ());
           Buffer.add_char out '|' in
         observe "init";
         let opstr = match rest with o :: _ -> o | [] -> "" in
         if opstr <> "-" && opstr <> "" then
           List.iter (fun o ->
             if o <> "" then begin
               let f = Array.of_list (String.split_on_char ',' o) in
               let res = (try let (w', r) = do_op !w f in w := w'; r
                          with Invalid_argument _ -> "E:logic") in
               observe res
             end) (String.split_on_char ';' opstr);
         let pa = pagelist w false in let pb = pagelist w true in
         Buffer.add_string out ("P=" ^ pa ^ "/" ^ pb);
         let fa = findall w false in let fb = findall w true in
         Buffer.add_string out (" F=" ^ fa ^ "/" ^ fb);
         Buffer.add_string out (state_str ());
         Buffer.contents out
       | _ -> "?no-template")
    | _ -> "?args")

(* ---- list specification ---- *)
let () =
  register "pgspec" (fun args -> match args with
    | [la; lb; ops] ->
      let zs s = List.map z_of_int (ints_of s) in
      let sop (t : string) : pg_sop =
        match String.split_on_char ',' t with
        | ["i"; d; pos; m] -> SpInsert (d = "1", nat_of_int (int_of_string pos), z_of_int (int_of_string m))
        | ["r"; d; pos] -> SpRemove (d = "1", nat_of_int (int_of_string pos))
        | ["s"; d; pos; m] -> SpSet (d = "1", nat_of_int (int_of_string pos), z_of_int (int_of_string m))
        | ["w"; d; i; j] -> SpSwap (d = "1", nat_of_int (int_of_string i), nat_of_int (int_of_string j))
        | ["n"] -> SpNop
        | ["x"] -> SpInvalid
        | _ -> failwith "sop" in
      let sops = if ops = "-" then [] else List.map sop (String.split_on_char ';' ops) in
      let res = pg_spec_run (zs la, zs lb) sops in
      String.concat "|" (List.map (fun ((a, b), raise_) -> zlist a ^ "/" ^ zlist b ^ "/" ^ (if raise_ then "1" else "0")) res)
    | _ -> "?args")
