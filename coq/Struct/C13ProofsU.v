(* C13 extension - calls that do not flatten (getAllPages, updateAllPagesCache, pushInheritedAttributesToPage) on a
   still-nested page tree, in any number and order: the tree stays nested but gets normalised, the content markers of
   the leaves are kept, and the first flattening call afterwards (findPage) still ends in the flat invariant with the
   ORIGINAL leaves' markers. *)
From QV Require Import Base.Bytes Struct.PgModel Struct.PgSpec Struct.C13ProofsA Struct.PgxModel Struct.PgxOracle Struct.C13ProofsC Struct.C13ProofsE Struct.C13ProofsN.
Local Open Scope N_scope.

(* ------------------------------------------------------------------ the lazy nested state *)
(* the store part of "cache filled, tree normalised": a well-formed nested tree whose leaves are the distinct indirect
   objects K, every node recognised as /Type /Pages *)
Definition pgu_norm (p : pg_doc) (depth : nat) (nodes K : list N) : Prop :=
  exists pn d,
    pg_root_pages p = PvRef pn /\ pgn_tree depth (pd_store p) pn nodes (map PvRef K) /\ (depth <= 50)%nat /\
    NoDup nodes /\ NoDup K /\ ~ In (pd_root p) nodes /\ ~ In (pd_root p) K /\
    (forall m, In m nodes -> pgn_tnode (pd_store p) m) /\
    pg_lookup (pd_store p) pn = Some (PcObj (PvDict d)) /\ pg_dget d pgk_Parent = PvNull /\
    pg_dget d pgk_Count = PvInt (pg_len K) /\ pd_invalid p = false.

Definition pgu_st (p : pg_doc) (ms : list Z) : Prop :=
  (exists depth nodes leaves, pgn_wf p depth nodes leaves /\ pgn_leaf_marks (pd_store p) leaves = ms) \/
  (exists depth nodes K, pgu_norm p depth nodes K /\ pd_all p = K /\ pd_pos p = [] /\ map (pg_mark (pd_store p)) K = ms).

(* what every call keeps: catalog, object map, stream table; every object still exists with its content marker *)
Definition pgu_frame (p p' : pg_doc) : Prop :=
  pd_root p' = pd_root p /\ pd_omap p' = pd_omap p /\ pd_reg p' = pd_reg p /\
  forall j, pg_lookup (pd_store p) j <> None -> pg_lookup (pd_store p') j <> None /\ pg_mark (pd_store p') j = pg_mark (pd_store p) j.

Lemma pgu_frame_refl : forall p, pgu_frame p p.
Proof. intros p. repeat split; auto. Qed.

Lemma pgu_frame_trans : forall p1 p2 p3, pgu_frame p1 p2 -> pgu_frame p2 p3 -> pgu_frame p1 p3.
Proof.
  intros p1 p2 p3 (A1 & B1 & C1 & D1) (A2 & B2 & C2 & D2). split; [congruence|split; [congruence|split; [congruence|]]].
  intros j Hj. destruct (D1 j Hj) as [E1 M1]. destruct (D2 j E1) as [E2 M2]. split; [exact E2|congruence].
Qed.

Lemma pgu_frame_eq : forall p q, pd_store q = pd_store p -> pd_root q = pd_root p -> pd_omap q = pd_omap p -> pd_reg q = pd_reg p ->
  pgu_frame p q.
Proof. intros p q Hs Hr Ho Hg. split; [exact Hr|split; [exact Ho|split; [exact Hg|]]]. intros j Hj. rewrite Hs. split; [exact Hj|reflexivity]. Qed.

Lemma pgu_norm_eq : forall p q depth nodes K, pgu_norm p depth nodes K ->
  pd_store q = pd_store p -> pd_root q = pd_root p -> pd_invalid q = pd_invalid p -> pgu_norm q depth nodes K.
Proof.
  intros p q depth nodes K (pn & d & H) Hs Hr Hi. exists pn, d. unfold pg_root_pages in *. rewrite Hs, Hr, Hi. exact H.
Qed.

Lemma pgu_wf_eq : forall p q depth nodes leaves, pgn_wf p depth nodes leaves ->
  pd_store q = pd_store p -> pd_root q = pd_root p -> pd_invalid q = pd_invalid p -> pd_all q = [] -> pd_pos q = [] ->
  pgn_wf q depth nodes leaves.
Proof.
  intros p q depth nodes leaves (pn & d & H) Hs Hr Hi Ha Hp. exists pn, d. unfold pg_root_pages in *. rewrite Hs, Hr, Hi, Ha, Hp.
  destruct H as (H1 & H2 & H3 & H4 & H5 & H6 & H7 & H8 & H9 & _ & _ & H12). repeat (split; [assumption|]). split; [reflexivity|split; [reflexivity|exact H12]].
Qed.

Lemma pgu_leaf_marks_refs : forall s (K : list N), pgn_leaf_marks s (map PvRef K) = map (pg_mark s) K.
Proof. intros s K. unfold pgn_leaf_marks. rewrite map_map. reflexivity. Qed.

(* a normalised tree with an empty cache is a well-formed tree "as read" *)
Lemma pgu_norm_wf : forall p depth nodes K, pgu_norm p depth nodes K -> pd_all p = [] -> pd_pos p = [] ->
  pgn_wf p depth nodes (map PvRef K).
Proof.
  intros p depth nodes K (pn & d & H1 & H2 & H3 & H4 & H5 & H6 & H7 & H8 & H9 & H10 & H11 & H12) Ha Hp.
  exists pn, d. split; [exact H1|split; [exact H2|split; [exact H3|split; [exact H4|split; [exact H6|split]]]]].
  - intros Hin. apply in_map_iff in Hin. destruct Hin as (k & E & Hk). inversion E; subst k. contradiction.
  - split; [exact H9|split; [exact H10|split; [|repeat split; assumption]]].
    rewrite H11. unfold pg_len. rewrite map_length. reflexivity.
Qed.

(* ------------------------------------------------------------------ Pages::cache in the lazy state *)
Lemma pgu_cache_wf : forall p depth nodes leaves, pgn_wf p depth nodes leaves ->
  exists s' K, pg_cache p = (pd_with_all (pd_with_store p s') K, None) /\
    pgu_norm (pd_with_all (pd_with_store p s') K) depth nodes K /\
    map (pg_mark s') K = pgn_leaf_marks (pd_store p) leaves /\ pgn_rel nodes (pd_store p) s'.
Proof.
  intros p depth nodes leaves Hwf.
  destruct (pgn_cache_nested p depth nodes leaves Hwf) as (s1 & K & pn & Ecache & Hroot & HndK & Hlen & Hmarks & Htree1 & R1 & Horig & Htn1).
  destruct Hwf as (pn0 & d & Hroot0 & Ht & Hdep & Hnd & Hrn & Hrl & Hpn & Hpar & Hcount & Hall & Hpos & Hinv).
  rewrite Hroot in Hroot0. inversion Hroot0; subst pn0. clear Hroot0.
  destruct (pgn_tree_node _ _ _ _ _ Ht) as (d0 & l0 & Hpn0 & Hk0 & Hpnin). rewrite Hpn in Hpn0. inversion Hpn0; subst d0. clear Hpn0.
  assert (Hrootex : pg_lookup (pd_store p) (pd_root p) <> None).
  { unfold pg_root_pages, pg_hget in Hroot. cbn [pg_rv] in Hroot. destruct (pg_lookup (pd_store p) (pd_root p)); [discriminate|discriminate]. }
  destruct (pgn_rel_node_keys _ _ _ pn d R1 Hpn (ex_intro _ l0 Hk0)) as (d1 & Hpn1 & _ & Hkeys1).
  exists s1, K. split; [exact Ecache|split; [|split; [exact Hmarks|exact R1]]].
  exists pn, d1. cbn [pd_store pd_root pd_invalid pd_with_all pd_with_store].
  split; [exact (pgn_root_pages_rel nodes p s1 pn R1 Hrn Hroot)|]. split; [exact Htree1|split; [exact Hdep|split; [exact Hnd|split; [exact HndK|split; [exact Hrn|]]]]].
  split; [|split; [exact Htn1|split; [exact Hpn1|split; [rewrite Hkeys1 by discriminate; exact Hpar|split; [|exact Hinv]]]]].
  - intros Hin. destruct (Horig _ Hin) as [Hi|Hi]; [exact (Hrl Hi)|exact (Hrootex Hi)].
  - rewrite Hkeys1 by discriminate. rewrite Hcount. unfold pg_len. rewrite Hlen. reflexivity.
Qed.

Lemma pgu_frame_rel : forall p s' K T, pgn_rel T (pd_store p) s' -> pgu_frame p (pd_with_all (pd_with_store p s') K).
Proof.
  intros p s' K T R. split; [reflexivity|split; [reflexivity|split; [reflexivity|]]]. cbn [pd_store pd_with_all pd_with_store].
  intros j Hj. split; [eapply pgn_rel_some; eassumption|eapply pgn_rel_mark; eassumption].
Qed.

Lemma pgu_cache_any : forall p ms, pgu_st p ms ->
  exists p1 depth nodes K, pg_cache p = (p1, None) /\ pgu_norm p1 depth nodes K /\ pd_all p1 = K /\ pd_pos p1 = [] /\
    pd_pushed p1 = pd_pushed p /\ map (pg_mark (pd_store p1)) K = ms /\ pgu_frame p p1.
Proof.
  intros p ms [(depth & nodes & leaves & Hwf & Hms)|(depth & nodes & K & Hn & Hall & Hpos & Hms)].
  - destruct (pgu_cache_wf p depth nodes leaves Hwf) as (s' & K & E & Hn & Hm & R).
    assert (Hpos : pd_pos p = []) by (destruct Hwf as (pn & d & H); apply H).
    exists (pd_with_all (pd_with_store p s') K), depth, nodes, K.
    split; [exact E|split; [exact Hn|split; [reflexivity|split; [exact Hpos|split; [reflexivity|split; [rewrite <- Hms; exact Hm|]]]]]].
    eapply pgu_frame_rel; exact R.
  - destruct K as [|k t].
    + pose proof (pgu_norm_wf p depth nodes [] Hn Hall Hpos) as Hwf.
      destruct (pgu_cache_wf p depth nodes _ Hwf) as (s' & K & E & Hn' & Hm & R).
      exists (pd_with_all (pd_with_store p s') K), depth, nodes, K.
      split; [exact E|split; [exact Hn'|split; [reflexivity|split; [exact Hpos|split; [reflexivity|split; [rewrite <- Hms; exact Hm|]]]]]].
      eapply pgu_frame_rel; exact R.
    + exists p, depth, nodes, (k :: t). split; [|repeat (split; [assumption|]); split; [reflexivity|split; [exact Hms|apply pgu_frame_refl]]].
      unfold pg_cache, pg_cache_core. rewrite Hall. reflexivity.
Qed.

(* ------------------------------------------------------------------ pushInheritedAttributesToPage after cache() *)
Lemma pgu_push_after : forall p depth nodes K, pgu_norm p depth nodes K ->
  exists s2, pg_push_after_cache p = (pd_with_pushed (pd_with_store p s2) true, None) /\ pgn_psim (pd_store p) s2 /\
             pgu_norm (pd_with_pushed (pd_with_store p s2) true) depth nodes K.
Proof.
  intros p depth nodes K (pn & d & H1 & H2 & H3 & H4 & H5 & H6 & H7 & H8 & H9 & H10 & H11 & H12).
  unfold pg_push_after_cache. rewrite H1.
  assert (Href : pgn_allref (map PvRef K)) by (intros h Hh; apply in_map_iff in Hh; destruct Hh as (k & <- & _); exists k; reflexivity).
  destruct (pgn_pia_all depth 110 ltac:(lia) pn nodes (map PvRef K) (pd_store p) [] H2 Href H8) as (s2 & E & P2); [intros kv []|].
  rewrite E. exists s2. split; [reflexivity|split; [exact P2|]].
  destruct (pgn_psim_dict _ _ _ _ P2 H9) as (d2 & Hpn2 & S2).
  exists pn, d2. cbn [pd_store pd_root pd_invalid pd_with_pushed pd_with_store].
  split; [exact (pgx_root_pages_sim p s2 (pgn_psim_sim _ _ P2) pn H1)|].
  split; [eapply pgn_tree_psim; eassumption|]. repeat (split; [assumption|]).
  split; [intros m Hm; eapply pgn_tnode_psim; [exact P2|apply H8, Hm]|].
  split; [exact Hpn2|split; [rewrite (S2 pgk_Parent eq_refl); exact H10|split; [rewrite (S2 pgk_Count eq_refl); exact H11|exact H12]]].
Qed.

Lemma pgu_frame_psim : forall p s2 b, pgn_psim (pd_store p) s2 -> pgu_frame p (pd_with_pushed (pd_with_store p s2) b).
Proof.
  intros p s2 b P. pose proof (pgn_psim_sim _ _ P) as S. split; [reflexivity|split; [reflexivity|split; [reflexivity|]]].
  cbn [pd_store pd_with_pushed pd_with_store]. intros j Hj. split; [eapply pgx_sim_some; eassumption|apply pgn_sim_mark; assumption].
Qed.

(* ------------------------------------------------------------------ (U1)-(U3) the calls that do not flatten *)
Definition pgu_ok (p p' : pg_doc) (ms : list Z) : Prop := pgu_st p' ms /\ pgu_frame p p'.

Lemma pgu_all : forall p ms, pgu_st p ms -> exists p', pg_all p = (p', None) /\ pgu_ok p p' ms.
Proof.
  intros p ms H. unfold pg_all. destruct (pd_all p) as [|x t] eqn:Ea.
  - destruct (pgu_cache_any p ms H) as (p1 & depth & nodes & K & E & Hn & Ha & Hp & _ & Hm & Hf).
    exists p1. split; [exact E|split; [|exact Hf]]. right. exists depth, nodes, K. repeat (split; [assumption|]). exact Hm.
  - exists p. split; [reflexivity|split; [exact H|apply pgu_frame_refl]].
Qed.

Lemma pgu_refresh : forall p ms, pgu_st p ms -> exists p', pg_update_cache p = (p', None) /\ pgu_ok p p' ms.
Proof.
  intros p ms H. unfold pg_update_cache. set (q := pd_with_pushed (pd_with_pos (pd_with_all p []) []) false).
  assert (Hq : pgu_st q ms).
  { left. destruct H as [(depth & nodes & leaves & Hwf & Hms)|(depth & nodes & K & Hn & Hall & Hpos & Hms)].
    - exists depth, nodes, leaves. split; [eapply pgu_wf_eq; [exact Hwf| | | | |]; reflexivity|exact Hms].
    - exists depth, nodes, (map PvRef K). split.
      + apply pgu_norm_wf; [eapply pgu_norm_eq; [exact Hn| | |]; reflexivity|reflexivity|reflexivity].
      + change (pd_store q) with (pd_store p). rewrite pgu_leaf_marks_refs. exact Hms. }
  destruct (pgu_cache_any q ms Hq) as (p1 & depth & nodes & K & E & Hn & Ha & Hp & _ & Hm & Hf).
  exists p1. split; [exact E|split].
  - right. exists depth, nodes, K. repeat (split; [assumption|]). exact Hm.
  - eapply pgu_frame_trans; [|exact Hf]. apply pgu_frame_eq; reflexivity.
Qed.

Lemma pgu_push : forall p ms, pgu_st p ms -> exists p', pg_push p false = (p', None) /\ pgu_ok p p' ms.
Proof.
  intros p ms H. unfold pg_push, pg_push_gen. cbn [negb]. rewrite andb_true_r. destruct (pd_pushed p).
  - exists p. split; [reflexivity|split; [exact H|apply pgu_frame_refl]].
  - destruct (pgu_cache_any p ms H) as (p1 & depth & nodes & K & E & Hn & Ha & Hp & _ & Hm & Hf). rewrite E.
    destruct (pgu_push_after p1 depth nodes K Hn) as (s2 & E2 & P2 & Hn2). rewrite E2.
    exists (pd_with_pushed (pd_with_store p1 s2) true). split; [reflexivity|split].
    + right. exists depth, nodes, K. split; [exact Hn2|split; [exact Ha|split; [exact Hp|]]].
      cbn [pd_store pd_with_pushed pd_with_store]. rewrite <- Hm. apply map_ext_in. intros x Hx.
      apply pgn_sim_mark; [exact (pgn_psim_sim _ _ P2)|].
      destruct Hn as (pn & d & _ & Ht & _). pose proof (pgn_tree_leaves _ _ _ _ _ Ht) as Hl. rewrite Forall_forall in Hl.
      destruct (Hl (PvRef x) (in_map PvRef K x Hx)) as (dk & -> & _). discriminate.
    + eapply pgu_frame_trans; [exact Hf|]. apply pgu_frame_psim, P2.
Qed.

(* ------------------------------------------------------------------ (U4) the first flattening call *)
Lemma pgu_flatten : forall p ms, pgu_st p ms ->
  exists p1 K, pg_flatten p = (p1, None) /\ pgx_flat p1 K /\ pd_all p1 = K /\
    (forall i, pg_pos_find (pd_pos p1) i = option_map Z.of_nat (pg_index K i)) /\ NoDup (map fst (pd_pos p1)) /\
    map (pg_mark (pd_store p1)) K = ms /\ pg_inv p1 /\ pgu_frame p p1.
Proof.
  intros p ms H.
  assert (Hpos0 : pd_pos p = []).
  { destruct H as [(depth & nodes & leaves & (pn & d & Hwf) & _)|(depth & nodes & K & _ & _ & Hpos & _)]; [apply Hwf|exact Hpos]. }
  unfold pg_flatten, pg_flatten_gen. rewrite Hpos0. unfold pg_push_gen. rewrite andb_false_r.
  destruct (pgu_cache_any p ms H) as (p1 & depth & nodes & K & E & Hn & Ha & Hp & _ & Hm & Hf). rewrite E.
  destruct (pgu_push_after p1 depth nodes K Hn) as (s2 & E2 & P2 & Hn2). rewrite E2.
  set (p2 := pd_with_pushed (pd_with_store p1 s2) true) in *.
  pose proof (pgn_psim_sim _ _ P2) as Sim2.
  destruct Hn2 as (pn & d2 & H1 & H2 & H3 & H4 & H5 & H6 & H7 & H8 & H9 & H10 & H11 & H12).
  destruct (pgn_tree_node _ _ _ _ _ H2) as (d0 & l0 & Hpn0 & Hk0 & Hpnin). rewrite H9 in Hpn0. inversion Hpn0; subst d0. clear Hpn0.
  assert (Hleaf2 : forall k, In k K -> exists dk, pg_lookup (pd_store p2) k = Some (PcObj (PvDict dk)) /\ pgx_leafy dk).
  { intros k Hk. pose proof (pgn_tree_leaves _ _ _ _ _ H2) as Hl. rewrite Forall_forall in Hl. exact (Hl (PvRef k) (in_map PvRef K k Hk)). }
  destruct (pgn_flatten_tail_nested p2 K pn d2 H1 H9 (ex_intro _ l0 Hk0) H11 H10 Ha Hp H5 Hleaf2) as (s3 & m & Etail & Hflat & Hmm & Hkeys & Hex3 & Hmk3).
  { intros ->. exact (H6 Hpnin). }
  { exact H7. }
  { exact H12. }
  rewrite Etail. set (p3 := pd_with_store (pd_with_pos p2 m) s3) in *.
  assert (HKex1 : forall x, In x K -> pg_lookup (pd_store p1) x <> None).
  { intros x Hx. destruct Hn as (pn1 & d1 & _ & Ht & _). pose proof (pgn_tree_leaves _ _ _ _ _ Ht) as Hl. rewrite Forall_forall in Hl.
    destruct (Hl (PvRef x) (in_map PvRef K x Hx)) as (dk & -> & _). discriminate. }
  change (pd_store p2) with s2 in Hmk3, Hex3.
  assert (Hf13 : pgu_frame p1 p3).
  { split; [reflexivity|split; [reflexivity|split; [reflexivity|]]]. change (pd_store p3) with s3. intros j Hj.
    pose proof (pgx_sim_some _ _ _ Sim2 Hj) as Hj2. split; [apply Hex3, Hj2|]. rewrite (Hmk3 j Hj2). apply pgn_sim_mark; assumption. }
  exists p3, K. split; [reflexivity|split; [exact Hflat|split; [exact Ha|split; [exact Hmm|split; [exact Hkeys|]]]]].
  split; [|split; [exact (pgy_inv_of_flat p3 K Hflat Ha Hmm Hkeys)|eapply pgu_frame_trans; eassumption]].
  rewrite <- Hm. apply map_ext_in. intros x Hx. destruct Hf13 as (_ & _ & _ & Hf13). apply (Hf13 x (HKex1 x Hx)).
Qed.

(* ------------------------------------------------------------------ (U5) any number of non-flattening calls *)
Definition pgu_lazy_op (d : bool) (o : pg_op) : Prop := o = PoGetPages d \/ o = PoRefresh d \/ o = PoPushInh d.

(* no call of the history raised *)
Fixpoint pgu_noerr (w : pg_world) (ops : list pg_op) : Prop :=
  match ops with
  | [] => True
  | o :: t => (forall e, snd (pg_step w o) <> PrErr e) /\ pgu_noerr (fst (pg_step w o)) t
  end.

Lemma pgu_step : forall w d o ms, pgu_st (pg_get w d) ms -> pgu_lazy_op d o ->
  pgu_ok (pg_get w d) (pg_get (fst (pg_step w o)) d) ms /\ pg_get (fst (pg_step w o)) (negb d) = pg_get w (negb d) /\
  (forall e, snd (pg_step w o) <> PrErr e).
Proof.
  intros w d o ms H [->|[->| ->]]; cbn [pg_step].
  - destruct (pgu_all _ ms H) as (p' & E & Hok). rewrite E. cbn [fst snd]. rewrite pg_get_put_same, pg_get_put_other.
    split; [exact Hok|split; [reflexivity|discriminate]].
  - destruct (pgu_refresh _ ms H) as (p' & E & Hok). rewrite E. cbn [fst snd pg_res_of]. rewrite pg_get_put_same, pg_get_put_other.
    split; [exact Hok|split; [reflexivity|discriminate]].
  - destruct (pgu_push _ ms H) as (p' & E & Hok). rewrite E. cbn [fst snd pg_res_of]. rewrite pg_get_put_same, pg_get_put_other.
    split; [exact Hok|split; [reflexivity|discriminate]].
Qed.

Lemma nested_lazy_calls_lemma : forall (ops : list pg_op) w d ms, pgu_st (pg_get w d) ms ->
  (forall o, In o ops -> o = PoGetPages d \/ o = PoRefresh d \/ o = PoPushInh d) ->
  pgu_st (pg_get (pg_run w ops) d) ms /\ pgu_frame (pg_get w d) (pg_get (pg_run w ops) d) /\
  pg_get (pg_run w ops) (negb d) = pg_get w (negb d) /\ pgu_noerr w ops.
Proof.
  induction ops as [|o t IH]; intros w d ms H Hops.
  - cbn [pg_run pgu_noerr]. split; [exact H|split; [apply pgu_frame_refl|split; [reflexivity|exact I]]].
  - cbn [pg_run pgu_noerr]. destruct (pgu_step w d o ms H (Hops o (or_introl eq_refl))) as ([Hst Hfr] & Hoth & Hne).
    destruct (IH (fst (pg_step w o)) d ms Hst (fun x Hx => Hops x (or_intror Hx))) as (A & B & C & D).
    split; [exact A|split; [eapply pgu_frame_trans; eassumption|split; [rewrite C; exact Hoth|split; [exact Hne|exact D]]]].
Qed.

(* ------------------------------------------------------------------ (U6) ... and then the first findPage *)
Lemma nested_lazy_then_find_lemma : forall (ops : list pg_op) w d ms i, pgu_st (pg_get w d) ms ->
  (forall o, In o ops -> o = PoGetPages d \/ o = PoRefresh d \/ o = PoPushInh d) ->
  let w1 := pg_run w ops in
  exists p1 K, fst (pg_step w1 (PoFind d i)) = pg_put w1 d p1 /\ pgx_flat p1 K /\ pd_all p1 = K /\
    (forall j, pg_pos_find (pd_pos p1) j = option_map Z.of_nat (pg_index K j)) /\ NoDup (map fst (pd_pos p1)) /\
    map (pg_mark (pd_store p1)) K = ms /\ pg_inv p1 /\ pgu_frame (pg_get w d) p1.
Proof.
  intros ops w d ms i H Hops w1.
  destruct (nested_lazy_calls_lemma ops w d ms H Hops) as (Hst & Hfr & _ & _). fold w1 in Hst, Hfr.
  destruct (pgu_flatten (pg_get w1 d) ms Hst) as (p1 & K & E & Hflat & Ha & Hm & Hk & Hmk & Hinv & Hf).
  exists p1, K. split; [|split; [exact Hflat|split; [exact Ha|split; [exact Hm|split; [exact Hk|split; [exact Hmk|split; [exact Hinv|]]]]]]].
  - cbn [pg_step]. unfold pg_find. rewrite E. destruct (pg_pos_find (pd_pos p1) i); reflexivity.
  - eapply pgu_frame_trans; eassumption.
Qed.
