(* handlers: fix-qdf model and QDF layout specification (File/FixQdf.v, File/QdfLayout.v) *)
open Qvmodel
open Runner

let fq_read_file (path : string) : string =
  let ic = (try open_in_bin path with Sys_error m -> failwith ("cannot open " ^ path)) in
  let n = in_channel_length ic in
  let s = really_input_string ic n in
  close_in ic; s

let fq_write_file (path : string) (data : string) : unit =
  let oc = open_out_bin path in
  output_string oc data; close_out oc

let fq_err_text (e : fq_err) : string =
  match e with
  | FqFatalObj (l, n) -> Printf.sprintf "obj %d %d" (int_of_z l) (int_of_z n)
  | FqFatalInt l -> Printf.sprintf "int %d" (int_of_z l)
  | FqExcStoi -> "stoi"
  | FqExcGetOffset -> "getoffset"
  | FqExcOther k -> Printf.sprintf "other %d" (int_of_n k)

(* fixqdff <input path> <output path>: runs the model, writes what the model says goes to standard output,
   answers "<exit status> [cause]" *)
let () =
  register "fixqdff" (fun args -> match args with
    | [inp; outp] ->
      (match fixqdf (bytes_of_string (fq_read_file inp)) with
       | FqDone o -> fq_write_file outp (string_of_bytes o); "0"
       | FqFail (o, e) -> fq_write_file outp (string_of_bytes o); "2 " ^ fq_err_text e)
    | _ -> "?args");
  (* qdflayout <path>: the layout recogniser of File/QdfLayout.v: "ok" or "bad <rule> <line>" *)
  register "qdflayout" (fun args -> match args with
    | [inp] ->
      (match qdf_layout (bytes_of_string (fq_read_file inp)) with
       | QlOk -> "ok"
       | QlBad (r, l) -> Printf.sprintf "bad %d %d" (int_of_n r) (int_of_n l))
    | _ -> "?args")
