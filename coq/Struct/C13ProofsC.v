(* C13 extension - proofs about the page cache on flattened trees in ANY cache state (never filled, filled but not
   flattened, flattened), about updateAllPagesCache, and about "write + re-read" at the model level
   (Struct/PgxModel.v).  The partial theorems of C13ProofsA.v start from pg_good (both documents flattened, cache
   filled, non-empty) and exclude updateAllPagesCache: here Pages::cache / getAllPagesInternal itself is followed. *)
From QV Require Import Base.Bytes Struct.PgModel Struct.PgSpec Struct.C13ProofsA Struct.PgxModel Struct.PgxOracle.
Local Open Scope N_scope.

(* ------------------------------------------------------------------ keys the repairs write *)
Definition pgx_soft : list pg_key := [pgk_Type; pgk_MediaBox; pgk_Resources; pgk_Annots; pgk_CropBox; pgk_Rotate].

(* d' is d after repairs: only "soft" keys differ, and /Type was only set to /Page, or to /Pages on something that
   has /Kids *)
Definition pgx_dsim (d d' : pg_dict) : Prop :=
  (forall k, ~ In k pgx_soft -> pg_dget d' k = pg_dget d k) /\
  (pg_dget d' pgk_Type = pg_dget d pgk_Type \/ pg_dget d' pgk_Type = PvName pgk_Page \/
   (pg_dget d' pgk_Type = PvName pgk_Pages /\ pg_dget d pgk_Kids <> PvNull)).

Definition pgx_sim (s s' : pg_store) : Prop :=
  forall j, match pg_lookup s j with
            | Some (PcObj (PvDict d)) => exists d', pg_lookup s' j = Some (PcObj (PvDict d')) /\ pgx_dsim d d'
            | Some c => pg_lookup s' j = Some c
            | None => True
            end.

Lemma pgx_dsim_refl : forall d, pgx_dsim d d.
Proof. intros d. split; [reflexivity|left; reflexivity]. Qed.

Lemma pgx_kids_hard : ~ In pgk_Kids pgx_soft.
Proof. unfold pgx_soft. cbn. intros H. repeat (destruct H as [H|H]; [discriminate|]). exact H. Qed.
Lemma pgx_count_hard : ~ In pgk_Count pgx_soft.
Proof. unfold pgx_soft. cbn. intros H. repeat (destruct H as [H|H]; [discriminate|]). exact H. Qed.
Lemma pgx_mk_hard : ~ In pgk_Mk pgx_soft.
Proof. unfold pgx_soft. cbn. intros H. repeat (destruct H as [H|H]; [discriminate|]). exact H. Qed.
Lemma pgx_parent_hard : ~ In pgk_Parent pgx_soft.
Proof. unfold pgx_soft. cbn. intros H. repeat (destruct H as [H|H]; [discriminate|]). exact H. Qed.
Lemma pgx_pages_hard : ~ In pgk_Pages pgx_soft.
Proof. unfold pgx_soft. cbn. intros H. repeat (destruct H as [H|H]; [discriminate|]). exact H. Qed.

Lemma pgx_dsim_trans : forall d1 d2 d3, pgx_dsim d1 d2 -> pgx_dsim d2 d3 -> pgx_dsim d1 d3.
Proof.
  intros d1 d2 d3 [H1 T1] [H2 T2]. split.
  - intros k Hk. rewrite H2, H1 by exact Hk. reflexivity.
  - destruct T2 as [E|[E|[E N]]].
    + rewrite E. exact T1.
    + right; left; exact E.
    + right; right. split; [exact E|]. rewrite <- (H1 pgk_Kids pgx_kids_hard). exact N.
Qed.

Lemma pgx_sim_refl : forall s, pgx_sim s s.
Proof.
  intros s j. destruct (pg_lookup s j) as [[v|]|]; auto. destruct v; auto. eexists; split; [reflexivity|apply pgx_dsim_refl].
Qed.

Lemma pgx_sim_trans : forall s1 s2 s3, pgx_sim s1 s2 -> pgx_sim s2 s3 -> pgx_sim s1 s3.
Proof.
  intros s1 s2 s3 H1 H2 j. specialize (H1 j). destruct (pg_lookup s1 j) as [[v|dd x k]|] eqn:E1; [| |exact I].
  - destruct v; try (specialize (H2 j); rewrite H1 in H2; exact H2).
    destruct H1 as (d2 & L2 & S2). specialize (H2 j). rewrite L2 in H2. destruct H2 as (d3 & L3 & S3).
    exists d3. split; [exact L3|eapply pgx_dsim_trans; eassumption].
  - specialize (H2 j). rewrite H1 in H2. exact H2.
Qed.

(* one replaceKey / removeKey of a soft key other than /Type *)
Lemma pgx_dsim_dset : forall d k v, In k pgx_soft -> k <> pgk_Type -> pgx_dsim d (pg_dset d k v).
Proof.
  intros d k v Hk Ht. split.
  - intros k2 Hk2. apply pg_dget_dset_neq. intros ->. contradiction.
  - left. apply pg_dget_dset_neq. congruence.
Qed.
Lemma pgx_dsim_ddel : forall d k, In k pgx_soft -> k <> pgk_Type -> pgx_dsim d (pg_ddel d k).
Proof.
  intros d k Hk Ht. split.
  - intros k2 Hk2. apply pg_dget_ddel_neq. intros ->. contradiction.
  - left. apply pg_dget_ddel_neq. congruence.
Qed.

Lemma pgx_sim_upd : forall s i d d', pg_lookup s i = Some (PcObj (PvDict d)) -> pgx_dsim d d' ->
  pgx_sim s (pg_supd s i (PcObj (PvDict d'))).
Proof.
  intros s i d d' Hl Hs j. rewrite pg_lookup_supd. destruct (j =? i) eqn:E.
  - apply N.eqb_eq in E. subst j. rewrite Hl. exists d'. split; [reflexivity|exact Hs].
  - destruct (pg_lookup s j) as [[v|]|]; auto. destruct v; auto. eexists; split; [reflexivity|apply pgx_dsim_refl].
Qed.

Lemma pgx_sim_set_key : forall s i k v, In k pgx_soft -> k <> pgk_Type -> pgx_sim s (pg_obj_set_key s i k v).
Proof.
  intros s i k v Hk Ht. unfold pg_obj_set_key. destruct (pg_lookup s i) as [[w|]|] eqn:E; try apply pgx_sim_refl.
  destruct w; try apply pgx_sim_refl. eapply pgx_sim_upd; [exact E|apply pgx_dsim_dset; assumption].
Qed.
Lemma pgx_sim_del_key : forall s i k, In k pgx_soft -> k <> pgk_Type -> pgx_sim s (pg_obj_del_key s i k).
Proof.
  intros s i k Hk Ht. unfold pg_obj_del_key. destruct (pg_lookup s i) as [[w|]|] eqn:E; try apply pgx_sim_refl.
  destruct w; try apply pgx_sim_refl. eapply pgx_sim_upd; [exact E|apply pgx_dsim_ddel; assumption].
Qed.
Lemma pgx_sim_type_page : forall s i, pgx_sim s (pg_obj_set_key s i pgk_Type (PvName pgk_Page)).
Proof.
  intros s i. unfold pg_obj_set_key. destruct (pg_lookup s i) as [[w|]|] eqn:E; try apply pgx_sim_refl.
  destruct w; try apply pgx_sim_refl. eapply pgx_sim_upd; [exact E|]. split.
  - intros k2 Hk2. apply pg_dget_dset_neq. intros ->. apply Hk2. left. reflexivity.
  - right; left. apply pg_dget_dset_eq.
Qed.
Lemma pgx_sim_type_pages : forall s i d, pg_lookup s i = Some (PcObj (PvDict d)) -> pg_dget d pgk_Kids <> PvNull ->
  pgx_sim s (pg_obj_set_key s i pgk_Type (PvName pgk_Pages)).
Proof.
  intros s i d E Hk. unfold pg_obj_set_key. rewrite E. eapply pgx_sim_upd; [exact E|]. split.
  - intros k2 Hk2. apply pg_dget_dset_neq. intros ->. apply Hk2. left. reflexivity.
  - right; right. split; [apply pg_dget_dset_eq|exact Hk].
Qed.
Lemma pgx_sim_alloc : forall s c, pgx_sim s (fst (pg_alloc s c)).
Proof.
  intros s c j. rewrite pg_lookup_alloc. destruct (j =? pg_next_id s) eqn:E.
  - apply N.eqb_eq in E. subst j. rewrite pg_next_id_fresh. exact I.
  - destruct (pg_lookup s j) as [[v|]|]; auto. destruct v; auto. eexists; split; [reflexivity|apply pgx_dsim_refl].
Qed.

Lemma pgx_in_soft_MediaBox : In pgk_MediaBox pgx_soft. Proof. cbn. tauto. Qed.
Lemma pgx_in_soft_Resources : In pgk_Resources pgx_soft. Proof. cbn. tauto. Qed.
Lemma pgx_in_soft_Annots : In pgk_Annots pgx_soft. Proof. cbn. tauto. Qed.

(* what survives the repairs *)
Lemma pgx_sim_dict : forall s s' j d, pgx_sim s s' -> pg_lookup s j = Some (PcObj (PvDict d)) ->
  exists d', pg_lookup s' j = Some (PcObj (PvDict d')) /\ pgx_dsim d d'.
Proof. intros s s' j d H E. specialize (H j). rewrite E in H. exact H. Qed.

Lemma pgx_sim_some : forall s s' j, pgx_sim s s' -> pg_lookup s j <> None -> pg_lookup s' j <> None.
Proof.
  intros s s' j H E. specialize (H j). destruct (pg_lookup s j) as [[v|]|]; [| |congruence].
  - destruct v; try (rewrite H; discriminate). destruct H as (d' & -> & _). discriminate.
  - rewrite H. discriminate.
Qed.

Lemma pgx_sim_mark : forall s s' j, pgx_sim s s' -> pg_lookup s j <> None -> pg_marker s' j = pg_marker s j.
Proof.
  intros s s' j H E. specialize (H j). unfold pg_marker, pg_hget, pg_rv.
  destruct (pg_lookup s j) as [[v|]|]; [| |congruence].
  - destruct v; try (rewrite H; reflexivity). destruct H as (d' & -> & [Hh _]). rewrite (Hh pgk_Mk pgx_mk_hard). reflexivity.
  - rewrite H. reflexivity.
Qed.

(* ------------------------------------------------------------------ pages that are leaves *)
Definition pgx_leafy (d : pg_dict) : Prop :=
  pg_dget d pgk_Kids = PvNull /\
  match pg_dget d pgk_Type with PvRef _ => False | PvName n => n <> pgk_Pages | _ => True end.

Lemma pgx_leafy_sim : forall d d', pgx_leafy d -> pgx_dsim d d' -> pgx_leafy d'.
Proof.
  intros d d' [Hk Ht] [Hh Hty]. split.
  - rewrite (Hh pgk_Kids pgx_kids_hard). exact Hk.
  - destruct Hty as [E|[E|[E N]]].
    + rewrite E. exact Ht.
    + rewrite E. discriminate.
    + contradiction.
Qed.

Lemma pgx_leafy_not_pages : forall s k d, pg_lookup s k = Some (PcObj (PvDict d)) -> pgx_leafy d ->
  pg_is_dict_of_type s (PvRef k) pgk_Pages = false /\ pg_has_key s (PvRef k) pgk_Kids = false /\ pg_is_dict s (PvRef k) = true.
Proof.
  intros s k d E [Hk Ht]. unfold pg_is_dict_of_type, pg_has_key, pg_is_dict, pg_name_is, pg_hget. cbn [pg_rv]. rewrite E.
  rewrite Hk. cbn [pg_is_null negb]. split; [|split; reflexivity].
  cbn [andb]. destruct (pg_dget d pgk_Type) eqn:Et; cbn [pg_rv]; try reflexivity; [|contradiction].
  apply pg_key_eqb_neq. exact Ht.
Qed.

(* ------------------------------------------------------------------ a flattened, clean tree *)
(* the catalog names an indirect /Pages node whose /Kids are exactly the indirect objects K, all of them leaf
   dictionaries, no duplicates, /Count = |K|, no /Parent on the root *)
Definition pgx_flat (p : pg_doc) (K : list N) : Prop :=
  exists pn d,
    pg_root_pages p = PvRef pn /\
    pg_lookup (pd_store p) pn = Some (PcObj (PvDict d)) /\
    pg_dget d pgk_Kids = PvArr (map PvRef K) /\
    pg_dget d pgk_Count = PvInt (pg_len K) /\
    pg_dget d pgk_Parent = PvNull /\
    pn <> pd_root p /\ ~ In pn K /\ ~ In (pd_root p) K /\ NoDup K /\
    (forall k, In k K -> exists dk, pg_lookup (pd_store p) k = Some (PcObj (PvDict dk)) /\ pgx_leafy dk) /\
    pd_invalid p = false.

Lemma pgx_root_pages_sim : forall p s', pgx_sim (pd_store p) s' -> forall pn, pg_root_pages p = PvRef pn ->
  pg_root_pages (pd_with_store p s') = PvRef pn.
Proof.
  intros p s' H pn E. unfold pg_root_pages, pg_hget in *. cbn [pd_store pd_root pd_with_store]. cbn [pg_rv] in *.
  specialize (H (pd_root p)). destruct (pg_lookup (pd_store p) (pd_root p)) as [[v|]|]; try discriminate.
  destruct v; try discriminate. destruct H as (d' & -> & [Hh _]). rewrite (Hh pgk_Pages pgx_pages_hard). exact E.
Qed.

Lemma pgx_flat_sim : forall p K s', pgx_flat p K -> pgx_sim (pd_store p) s' -> pgx_flat (pd_with_store p s') K.
Proof.
  intros p K s' (pn & d & Hroot & Hpn & Hkids & Hcount & Hpar & Hpnroot & Hpnk & Hrootk & Hnd & Hleaf & Hinv) H.
  destruct (pgx_sim_dict _ _ _ _ H Hpn) as (d' & Hpn' & [Hh Hty]).
  exists pn, d'. cbn [pd_store pd_root pd_invalid pd_with_store].
  split; [eapply pgx_root_pages_sim; eassumption|]. split; [exact Hpn'|].
  rewrite (Hh pgk_Kids pgx_kids_hard), (Hh pgk_Count pgx_count_hard), (Hh pgk_Parent pgx_parent_hard).
  repeat (split; [assumption|]). split; [|exact Hinv].
  intros k Hk. destruct (Hleaf k Hk) as (dk & Ek & Lk). destruct (pgx_sim_dict _ _ _ _ H Ek) as (dk' & Ek' & Sk).
  exists dk'. split; [exact Ek'|eapply pgx_leafy_sim; eassumption].
Qed.
