(* Proofs for C04, guard logic, second file (Sys/Guards.v):
     - read_xref and white space in front of a section: what `visited` holds, that every offset is tried at most once,
       that a loop closed only through a white-space alias is reported, and that the guard is lost in the variant that
       records the position AFTER the white-space skip (so the statement really depends on which value is recorded);
     - qpdf JSON import: the reactor's own test in front of QPDF::replaceObject covers the library's precondition, so
       importJSON can only be left by std::runtime_error (or by nothing): a logic error can only come from below. *)
From QV Require Import Sys.Guards Sys.C04GuardProofs.
From Coq Require Import List NArith ZArith Bool Lia.
Import ListNotations.
Local Open Scope N_scope.

(* ------------------------------------------------------------------ read_xref: the trace *)
(* the offsets read_xref is asked to read are pairwise different, there are at most sections + 1 of them, and at most
   that many "extraneous whitespace" warnings *)
Lemma xref_walk_trace_lemma : forall g start,
  NoDup (c4xo_visited (c4_read_xref g start)) /\
  (length (c4xo_visited (c4_read_xref g start)) <= length g + 1)%nat /\
  (N.to_nat (c4xo_ws (c4_read_xref g start)) <= length g + 1)%nat.
Proof.
  intros g start. unfold c4_read_xref. destruct (start =? 0)%Z; [cbn; repeat split; [constructor | lia | lia]|].
  destruct (c4_xwalk_inv (S (length g)) g start [] [] 0 []) as (_ & _ & H3 & H4 & H5);
    [constructor | intros x [] | intros e [] | constructor; [intros []|constructor] | cbn; lia|].
  cbn [length] in *. repeat split; [exact H5 | lia | lia].
Qed.

(* a section whose /Prev names a white-space byte in front of itself (k bytes before its start), entered through any
   alias j: the loop is reported.  (A table tolerates min(gap, 2) bytes, a stream any number.) *)
Lemma xref_walk_alias_loop_reported_lemma : forall g a s k j,
  c4_xlocate g (a - k)%Z = Some (a, s) -> c4_xlocate g (a - j)%Z = Some (a, s) ->
  c4x_bad s = false -> c4x_prev s = (a - k)%Z -> (a - k <> 0)%Z -> (a - j <> 0)%Z ->
  (c4x_kind s = C4xTable -> c4x_stm s = 0%Z /\ (1 <= c4x_gap s)%Z /\ (k <= Z.min (c4x_gap s) 2)%Z /\ (j <= Z.min (c4x_gap s) 2)%Z) ->
  c4xo_res (c4_read_xref g (a - j)%Z) = C4xLoop.
Proof.
  intros g a s k j Hk Hj Hb Hp Hk0 Hj0 Ht.
  apply (xref_walk_cycle_reported_lemma g (fun off => off = (a - k)%Z \/ off = (a - j)%Z)); [|right; reflexivity|exact Hj0].
  intros off [E|E]; subst off; exists a, s.
  - repeat split; try assumption; [congruence | left; exact Hp | apply Ht; assumption | apply Ht; assumption | ].
    destruct (Ht H) as (_ & _ & H1 & _). lia.
  - repeat split; try assumption; [congruence | left; exact Hp | apply Ht; assumption | apply Ht; assumption | ].
    destruct (Ht H) as (_ & _ & _ & H1). lia.
Qed.

(* the variant that records the position after the white-space skip does NOT have the fuel property: a cross-reference
   stream at offset 10 with one white-space byte in front and /Prev 9 is read for ever; the walk as coded reports the loop *)
Definition c4_xdiv_g : list (Z * c4_xsec) := [(10%Z, mkC4xsec C4xStream false 0 9 1 0)].

Lemma c4_xdiv_step : forall fuel off visited reads ws,
  (off = 9%Z \/ off = 10%Z) -> (forall x, In x visited -> x = 10%Z) ->
  c4xo_res (c4_xwalk_v true fuel c4_xdiv_g off visited reads ws) = C4xFuel.
Proof.
  induction fuel as [|f IH]; intros off visited reads ws Ho Hv; [reflexivity|].
  assert (Hm : c4_zmem 9 (10%Z :: visited) = false).
  { rewrite c4_zmem_false. intros [H|H]; [discriminate | apply Hv in H; discriminate]. }
  assert (Hv' : forall x, In x (10%Z :: visited) -> x = 10%Z) by (intros x [H|H]; [symmetry; exact H | auto]).
  assert (Hl : c4_xlocate c4_xdiv_g off = Some (10%Z, mkC4xsec C4xStream false 0 9 1 0)).
  { destruct Ho as [E|E]; subst off; reflexivity. }
  cbn [c4_xwalk_v]. rewrite Hl. cbn [c4x_kind c4x_bad c4x_prev]. rewrite Hm. cbn [Z.eqb].
  apply IH; auto.
Qed.

Lemma xref_walk_fuel_after_skip_refuted_lemma :
  exists g start, start <> 0%Z /\
    (forall fuel, c4xo_res (c4_xwalk_v true fuel g start [] [] 0) = C4xFuel) /\
    c4xo_res (c4_read_xref g start) = C4xLoop.
Proof.
  exists c4_xdiv_g, 10%Z. split; [discriminate|]. split; [|reflexivity].
  intros fuel. apply c4_xdiv_step; [right; reflexivity | intros x []].
Qed.

(* ------------------------------------------------------------------ qpdf JSON import *)
(* whatever JSONReactor::replaceObject lets through satisfies the precondition of QPDF::replaceObject *)
Lemma json_replace_guard_covers_precondition_lemma : forall r,
  c4j_init r = true -> c4_jr_refuses r = false -> c4_qpdf_replace_throws r = false.
Proof. intros r Hi Hg. unfold c4_qpdf_replace_throws, c4_jr_refuses in *. rewrite Hi, Hg. reflexivity. Qed.

Definition c4_jthrown_below (x : c4_exn) (es : list c4_jentry) : Prop := In (C4jThrows x) es.

Lemma c4_jreplace_exn : forall og r b s, c4j_init r = true -> c4js_exn (c4_jreplace og r b s) = c4js_exn s.
Proof.
  intros og r b s Hi. unfold c4_jreplace. destruct (c4_jr_refuses r) eqn:Eg; [reflexivity|].
  rewrite (json_replace_guard_covers_precondition_lemma r Hi Eg). reflexivity.
Qed.

Lemma c4_jmember_step_exn : forall og s m, c4js_exn (c4_jmember_step og s m) = c4js_exn s.
Proof.
  intros og s m. unfold c4_jmember_step. destruct (c4js_exn s) eqn:E; try exact E.
  destruct m as [n g|ok|isdict dict data datafile suberr|];
    [reflexivity | rewrite c4_jreplace_exn; [first [reflexivity | exact E] | reflexivity] | | exact E].
  destruct (negb isdict); [first [reflexivity | exact E]|].
  destruct (c4_jis_stream (c4js_tbl s) og); [first [reflexivity | exact E]|].
  rewrite c4_jreplace_exn; [first [reflexivity | exact E] | reflexivity].
Qed.

Lemma c4_jmembers_exn : forall og ms s, c4js_exn (fold_left (c4_jmember_step og) ms s) = c4js_exn s.
Proof.
  intros og ms. induction ms as [|m ms IH]; intros s; [reflexivity|].
  cbn [fold_left]. rewrite IH. apply c4_jmember_step_exn.
Qed.

Lemma c4_jentry_step_exn : forall s e,
  c4js_exn (c4_jentry_step s e) = c4js_exn s \/ (c4js_exn s = C4eNone /\ exists x, e = C4jThrows x /\ c4js_exn (c4_jentry_step s e) = x).
Proof.
  intros s e. unfold c4_jentry_step. destruct (c4js_exn s) eqn:E; try (left; exact E).
  destruct e as [n g ms| |x].
  - left. set (s0 := mkC4jst _ _ _ _ _ _ _ _ _ _).
    assert (H : c4js_exn (fold_left (c4_jmember_step (n, g)) ms s0) = C4eNone) by (rewrite c4_jmembers_exn; reflexivity).
    rewrite H. unfold c4_jwith_err. cbn [c4js_exn]. exact H.
  - left. cbn. exact E.
  - right. split; [reflexivity|]. exists x. split; reflexivity.
Qed.

Lemma c4_jentries_exn : forall es s,
  c4js_exn (fold_left c4_jentry_step es s) = c4js_exn s \/
  (exists x, In (C4jThrows x) es /\ c4js_exn (fold_left c4_jentry_step es s) = x).
Proof.
  induction es as [|e es IH]; intros s; [left; reflexivity|].
  cbn [fold_left]. destruct (IH (c4_jentry_step s e)) as [H|(x & Hin & H)].
  - destruct (c4_jentry_step_exn s e) as [H1|(_ & x & He & H1)].
    + left. congruence.
    + right. exists x. split; [left; exact He | congruence].
  - right. exists x. split; [right; exact Hin | exact H].
Qed.

(* exception translation at the JSON import boundary: importJSON is left by nothing or by std::runtime_error for EVERY
   sequence of entries and every state of the document (which objects are streams) - the reactor's own guard never lets
   a reference through to QPDF::replaceObject's logic_error; the only other way out is an exception that is not a
   std::runtime_error thrown by a callee (outside this model), which passes through unchanged *)
Lemma json_import_exception_translation_lemma : forall tbl frame_err es,
  let x := fst (fst (c4_import_json tbl frame_err es)) in
  x = C4eNone \/ x = C4eRuntime \/ (c4_jthrown_below x es /\ (x = C4eLogic \/ x = C4eOtherStd)).
Proof.
  intros tbl fe es. unfold c4_import_json. cbn [fst].
  set (s0 := mkC4jst tbl fe 0 C4eNone false false false false false false).
  destruct (c4_jentries_exn es s0) as [H|(x & Hin & H)].
  - cbn [c4js_exn s0] in H. unfold s0 in H. cbn [c4js_exn] in H. fold s0 in H. rewrite H.
    destruct (c4js_err (fold_left c4_jentry_step es s0)); auto.
  - rewrite H. destruct x; [destruct (c4js_err _); auto | auto | auto | auto | |]; right; right; (split; [exact Hin | auto]).
Qed.

(* in particular: when the callees only throw what they document (QPDFExc, QPDFUsage, std::runtime_error), no logic or
   internal error leaves createFromJSON / updateFromJSON, whatever the text refers to *)
Lemma json_import_never_logic_lemma : forall tbl frame_err es,
  (forall x, c4_jthrown_below x es -> x = C4eQPDFExc \/ x = C4eUsage \/ x = C4eRuntime) ->
  fst (fst (c4_import_json tbl frame_err es)) = C4eNone \/ fst (fst (c4_import_json tbl frame_err es)) = C4eRuntime.
Proof.
  intros tbl fe es H. destruct (json_import_exception_translation_lemma tbl fe es) as [H1|[H1|(Hin & H1)]]; auto.
  destruct (H _ Hin) as [E|[E|E]]; destruct H1 as [H1|H1]; congruence.
Qed.

(* ------------------------------------------------------------------ Pl_PNGFilter: the row buffers *)
(* for EVERY parameter set the constructor accepts, with or without a memory limit, the row buffers hold a whole row plus
   the filter byte, a row is not empty and `incoming` is at least a row (repair of D-C04-png-row-wrap) *)
Lemma png_ctor_row_buffer_nonempty_lemma : forall decode limit columns spp bps p,
  (0 <= columns < 4294967296)%Z -> (0 <= spp < 4294967296)%Z -> (0 <= bps < 4294967296)%Z ->
  c4_png_ctor decode limit columns spp bps = Some p ->
  c4png_alloc p = (c4png_bpr p + 1)%Z /\ (1 <= c4png_bpr p)%Z /\ (c4png_bpr p <= c4png_incoming p)%Z.
Proof.
  intros decode limit columns spp bps p Hc Hs Hb H. unfold c4_png_ctor in H.
  destruct (spp <? 1)%Z; [discriminate|].
  destruct (negb _); [discriminate|].
  destruct (negb (bps * spp + 7 <? 4294967296)%Z); [discriminate|].
  set (bpr := ((columns * (bps * spp) + 7) / 8)%Z) in *.
  assert (Hnn : (0 <= bpr)%Z) by (apply Z.div_pos; nia).
  destruct (bpr =? 0)%Z eqn:E0; [discriminate|]. apply Z.eqb_neq in E0.
  destruct (negb (bpr + 1 <? 4294967296)%Z) eqn:E1; [discriminate|].
  apply negb_false_iff, Z.ltb_lt in E1. cbn [orb] in H.
  destruct ((0 <? limit) && (limit / 2 <? bpr))%Z; [discriminate|].
  inversion H; subst p; clear H. cbn [c4png_alloc c4png_bpr c4png_incoming].
  rewrite Z.mod_small by lia. destruct decode; repeat split; lia.
Qed.

(* regression, pinned on the former witnesses of D-C04-png-row-wrap (a row of exactly 2^32 - 1 bytes): refused, with and
   without a limit, for decoding and encoding; one byte less per row is still accepted with a buffer of 2^32 - 1 bytes *)
Lemma png_ctor_row_wrap_witnesses_refused_lemma :
  c4_png_ctor true 0 1431655765 3 8 = None /\ c4_png_ctor false 0 1431655765 3 8 = None /\
  c4_png_ctor true 0 4294967295 1 8 = None /\ c4_png_ctor true 0 4294967295 2 4 = None /\
  c4_png_ctor true 4294967295 1431655765 3 8 = None /\
  c4_png_ctor true 0 4294967294 1 8 = Some (mkC4png 4294967294 4294967295 4294967295).
Proof. vm_compute. repeat split; reflexivity. Qed.

(* ------------------------------------------------------------------ qpdf JSON import: a new stream always has data *)
Lemma c4_jis_stream_set : forall tbl og b, c4_jis_stream (c4_jset_stream tbl og b) og = b.
Proof.
  intros tbl og b. unfold c4_jis_stream, c4_jset_stream.
  assert (Hf : existsb (c4_jog_eqb og) (filter (fun x => negb (c4_jog_eqb og x)) tbl) = false).
  { induction tbl as [|x t IH]; [reflexivity|]. cbn. destruct (c4_jog_eqb og x) eqn:E; cbn; [exact IH | rewrite E; exact IH]. }
  destruct b; [|exact Hf].
  cbn. unfold c4_jog_eqb at 1. rewrite !N.eqb_refl. reflexivity.
Qed.

(* while the members of an entry are read: if the object is a stream now, although it was none when the entry began, then
   this_stream_needs_data is set and "stream" was seen *)
Definition c4_jneeds_inv (og : N * N) (s : c4_jst) : Prop :=
  c4_jis_stream (c4js_tbl s) og = true -> c4js_needs s = true /\ c4js_stream s = true.

Lemma c4_jmember_step_needs : forall og s m, c4_jneeds_inv og s -> c4_jneeds_inv og (c4_jmember_step og s m).
Proof.
  intros og s m I. unfold c4_jmember_step. destruct (c4js_exn s); try exact I.
  destruct m as [n g|ok|isdict dict data datafile suberr|]; [exact I | | | exact I].
  - unfold c4_jreplace, c4_jr_refuses, c4_qpdf_replace_throws. cbn [c4j_indirect c4j_init andb negb orb].
    intros H. cbn [c4js_tbl] in H. rewrite c4_jis_stream_set in H. discriminate.
  - destruct (negb isdict).
    + intros H. cbn [c4js_tbl] in H. destruct (I H) as [H1 _]. cbn. split; [exact H1 | reflexivity].
    + destruct (c4_jis_stream (c4js_tbl s) og) eqn:Ew.
      * intros _. destruct (I Ew) as [H1 _]. cbn. rewrite H1. split; reflexivity.
      * unfold c4_jreplace, c4_jr_refuses, c4_qpdf_replace_throws. cbn [c4j_indirect c4j_stream c4j_same c4j_init andb negb orb].
        intros _. cbn. rewrite orb_true_r. split; reflexivity.
Qed.

Lemma c4_jmembers_needs : forall og ms s, c4_jneeds_inv og s -> c4_jneeds_inv og (fold_left (c4_jmember_step og) ms s).
Proof.
  intros og ms. induction ms as [|m ms IH]; intros s I; [exact I|].
  cbn [fold_left]. apply IH, c4_jmember_step_needs, I.
Qed.

(* no entry, whatever its members (value / stream / both / several of each, in any order), leaves a new stream without
   "data" or "datafile" unreported (repair of C04-F-json-dup-stream) *)
Lemma json_new_stream_has_data_lemma : forall tbl og ms, c4_jentry_dataless tbl og ms = false.
Proof.
  intros tbl og ms. unfold c4_jentry_dataless.
  destruct (c4_jis_stream tbl og) eqn:Ew; [reflexivity|]. cbn [negb andb].
  set (s0 := mkC4jst tbl false 0 C4eNone false false false false false false).
  assert (I0 : c4_jneeds_inv og s0) by (unfold c4_jneeds_inv, s0; cbn [c4js_tbl]; intros H; rewrite Ew in H; discriminate).
  pose proof (c4_jmembers_needs og ms s0 I0) as I. set (s1 := fold_left (c4_jmember_step og) ms s0) in *.
  destruct (c4_jis_stream (c4js_tbl s1) og) eqn:E1; [|reflexivity].
  destruct (I E1) as [Hn Hs]. cbn [andb].
  destruct (c4js_data s1) eqn:Ed; [reflexivity|]. destruct (c4js_datafile s1) eqn:Ef; [reflexivity|]. cbn [negb andb].
  unfold c4_jentry_end_err. rewrite Hn, Hs, Ed, Ef. cbn. rewrite !orb_true_r. reflexivity.
Qed.

(* regression, pinned on the former witness of C04-F-json-dup-stream: two "stream" members without data are reported, the
   import fails with std::runtime_error; with the data in either member it succeeds *)
Lemma json_dup_stream_witness_refused_lemma :
  fst (fst (c4_import_json [] false [C4jObj 5 0 [C4jStream true true false false false; C4jStream true true false false false]])) = C4eRuntime /\
  fst (fst (c4_import_json [] false [C4jObj 5 0 [C4jStream true true false false false; C4jStream true true true false false]])) = C4eNone /\
  fst (fst (c4_import_json [] false [C4jObj 5 0 [C4jStream true true true false false; C4jStream true true false false false]])) = C4eNone /\
  fst (fst (c4_import_json [(5, 0)] false [C4jObj 5 0 [C4jStream true true false false false; C4jStream true true false false false]])) = C4eNone.
Proof. vm_compute. repeat split; reflexivity. Qed.
