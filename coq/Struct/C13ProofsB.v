(* C13 - proofs about the foreign-object copier model (pg_reserve / pg_rename / pg_copied in
   Struct/PgModel.v): what the reservation walk may change (pg_cR), the memo property of the
   object map, the frame property for the destination, the source document, and the local
   homomorphism property of the replacement phase. *)
From QV Require Import Base.Bytes Struct.PgModel Struct.PgSpec Struct.C13ProofsA.
Local Open Scope N_scope.

(* ------------------------------------------------------------------ what a reservation walk can do *)
(* c' is reachable from c by the walk:
   - the object map only grows (memo);
   - a source document whose page cache is filled is not touched;
   - objects that exist in the destination keep their value (only new objects are allocated);
   - to_copy only grows, and every new entry is mapped to a local object that was absent or null in c. *)
Definition pg_cR (c c' : pg_cst) : Prop :=
  (forall og l, pg_omap_find (c_omap c) og = Some l -> pg_omap_find (c_omap c') og = Some l) /\
  (pd_all (c_src c) <> [] -> c_src c' = c_src c) /\
  (forall j, pg_lookup (c_dst c) j <> None -> pg_lookup (c_dst c') j = pg_lookup (c_dst c) j) /\
  (exists more, c_tocopy c' = more ++ c_tocopy c /\
     forall og, In og more -> exists l, pg_omap_find (c_omap c') og = Some l /\ pg_is_null (c_dst c) (PvRef l) = true).

Lemma pg_cR_refl : forall c, pg_cR c c.
Proof.
  intros c. repeat split; auto. exists []. split; [reflexivity|]. intros og [].
Qed.

Lemma pg_is_null_ref_lookup : forall s s' l, pg_lookup s' l = pg_lookup s l -> pg_is_null s' (PvRef l) = pg_is_null s (PvRef l).
Proof. intros s s' l H. unfold pg_is_null. rewrite H. reflexivity. Qed.

Lemma pg_cR_trans : forall c1 c2 c3, pg_cR c1 c2 -> pg_cR c2 c3 -> pg_cR c1 c3.
Proof.
  intros c1 c2 c3 (M1 & S1 & D1 & more1 & T1 & N1) (M2 & S2 & D2 & more2 & T2 & N2).
  split; [|split; [|split]].
  - intros og l H. apply M2, M1, H.
  - intros H. rewrite S2; [apply S1, H | rewrite S1 by exact H; exact H].
  - intros j Hj. rewrite D2; [apply D1, Hj | rewrite D1 by exact Hj; exact Hj].
  - exists (more2 ++ more1). split; [rewrite T2, T1, app_assoc; reflexivity|].
    intros og Hin. apply in_app_iff in Hin. destruct Hin as [Hin|Hin].
    + destruct (N2 og Hin) as (l & Hl & Hn). exists l. split; [exact Hl|].
      destruct (pg_lookup (c_dst c1) l) eqn:E.
      * rewrite <- Hn. symmetry. apply pg_is_null_ref_lookup. apply D1. congruence.
      * unfold pg_is_null. rewrite E. reflexivity.
    + destruct (N1 og Hin) as (l & Hl & Hn). exists l. split; [apply M2, Hl | exact Hn].
Qed.

(* states that differ only in visiting / err are related *)
Lemma pg_cR_core : forall c c', c_src c' = c_src c -> c_dst c' = c_dst c -> c_omap c' = c_omap c -> c_tocopy c' = c_tocopy c -> pg_cR c c'.
Proof.
  intros c c' Hs Hd Ho Ht. repeat split.
  - intros og l H. rewrite Ho. exact H.
  - intros _. exact Hs.
  - intros j _. rewrite Hd. reflexivity.
  - exists []. split; [rewrite Ht; reflexivity|]. intros og [].
Qed.

Lemma pg_all_filled : forall p, pd_all p <> [] -> pg_all p = (p, None).
Proof. intros p H. unfold pg_all. destruct (pd_all p); [congruence|reflexivity]. Qed.

Lemma pg_cR_type_is : forall c h t, pg_cR c (fst (pg_src_type_is c h t)).
Proof.
  intros c h t. unfold pg_src_type_is. destruct h; try apply pg_cR_refl.
  destruct (pg_all (c_src c)) as [src e] eqn:E.
  assert (pd_all (c_src c) <> [] -> src = c_src c) as Hs.
  { intros H. rewrite pg_all_filled in E by exact H. inversion E. reflexivity. }
  destruct e; cbn [fst]; (split; [intros og l H; exact H | split; [exact Hs | split; [intros j _; reflexivity | exists []; split; [reflexivity|intros og []]]]]).
Qed.

Lemma pg_omap_find_cons : forall m og l x, pg_omap_find ((og, l) :: m) x = if x =? og then Some l else pg_omap_find m x.
Proof. reflexivity. Qed.

Lemma pg_cR_head : forall h top c, pg_cR c (fst (pg_reserve_head h top c)).
Proof.
  intros h top c. unfold pg_reserve_head. destruct h as [| | |og| |]; try apply pg_cR_refl.
  destruct (pg_memN og (c_visiting c)); [apply pg_cR_refl|].
  cbn [c_omap c_src c_dst c_visiting c_tocopy c_err].
  destruct (pg_omap_find (c_omap c) og) as [l|] eqn:Eo.
  - (* already mapped *)
    set (c1 := mkPgCst (c_src c) (c_dst c) (c_omap c) (og :: c_visiting c) (c_tocopy c) (c_err c)).
    assert (R1 : pg_cR c c1) by (apply pg_cR_core; reflexivity).
    destruct top.
    + pose proof (pg_cR_type_is c1 (PvRef og) k_Page) as R2.
      destruct (pg_src_type_is c1 (PvRef og) k_Page) as [c2 isp] eqn:E2. cbn [fst] in R2.
      pose proof (pg_cR_trans _ _ _ R1 R2) as R12.
      cbn [andb]. destruct (isp && pg_is_null (c_dst c2) (PvRef l)) eqn:Ec; cbn [fst].
      * apply andb_true_iff in Ec. destruct Ec as [_ Hn].
        destruct R12 as (M & S & D & more & T & NN).
        split; [exact M|split; [exact S|split; [exact D|]]].
        exists (og :: more). cbn [c_tocopy]. split; [rewrite T; reflexivity|].
        intros x [<-|Hx]; [|apply NN, Hx].
        exists l. cbn [c_omap]. split; [apply M, Eo|].
        destruct (pg_lookup (c_dst c) l) eqn:El.
        -- rewrite <- Hn. symmetry. apply pg_is_null_ref_lookup, D. congruence.
        -- unfold pg_is_null. rewrite El. reflexivity.
      * eapply pg_cR_trans; [exact R12|]. apply pg_cR_core; reflexivity.
    + cbn [andb fst]. eapply pg_cR_trans; [exact R1|]. apply pg_cR_core; reflexivity.
  - (* new reservation *)
    set (cell := if pg_is_stream (pd_store (c_src c)) (PvRef og) then PcStream [] [] 0 else PcObj PvNull).
    assert ((if pg_is_stream (pd_store (c_src c)) (PvRef og) then pg_alloc (c_dst c) (PcStream [] [] 0) else pg_alloc (c_dst c) (PcObj PvNull))
            = pg_alloc (c_dst c) cell) as -> by (unfold cell; destruct (pg_is_stream _ _); reflexivity).
    set (ni := pg_next_id (c_dst c)).
    change (pg_alloc (c_dst c) cell) with ((ni, cell) :: c_dst c, ni). cbv iota beta.
    set (c1 := mkPgCst (c_src c) ((ni, cell) :: c_dst c) ((og, ni) :: c_omap c) (og :: c_visiting c) (c_tocopy c) (c_err c)).
    assert (Hfresh : pg_lookup (c_dst c) ni = None) by apply pg_next_id_fresh.
    assert (R1 : pg_cR c c1).
    { repeat split.
      - intros x l H. cbn [c1 c_omap]. rewrite pg_omap_find_cons. destruct (x =? og) eqn:E; [|exact H].
        apply N.eqb_eq in E. subst x. congruence.
      - intros j Hj. cbn [c1 c_dst pg_lookup]. destruct (j =? ni) eqn:E; [|reflexivity].
        apply N.eqb_eq in E. subst j. congruence.
      - exists []. split; [reflexivity|]. intros x []. }
    assert (Hadd : forall c2, pg_cR c1 c2 ->
       pg_cR c (mkPgCst (c_src c2) (c_dst c2) (c_omap c2) (c_visiting c2) (og :: c_tocopy c2) (c_err c2))).
    { intros c2 R2. destruct (pg_cR_trans _ _ _ R1 R2) as (M & S & D & more & T & NN).
      split; [exact M|split; [exact S|split; [exact D|]]].
      exists (og :: more). cbn [c_tocopy]. split; [rewrite T; reflexivity|].
      intros x [<-|Hx]; [|apply NN, Hx]. exists ni. cbn [c_omap]. split.
      - destruct R2 as (M2 & _). apply M2. cbn [c1 c_omap]. rewrite pg_omap_find_cons, N.eqb_refl. reflexivity.
      - unfold pg_is_null. rewrite Hfresh. reflexivity. }
    destruct top.
    + cbn [negb andb fst]. apply (Hadd c1), pg_cR_refl.
    + pose proof (pg_cR_type_is c1 (PvRef og) k_Page) as R2.
      destruct (pg_src_type_is c1 (PvRef og) k_Page) as [c2 isp] eqn:E2. cbn [fst] in R2.
      cbn [negb andb]. destruct isp; cbn [fst].
      * eapply pg_cR_trans; [exact R1|]. eapply pg_cR_trans; [exact R2|]. apply pg_cR_core; reflexivity.
      * apply Hadd, R2.
Qed.

Lemma pg_cR_fold : forall {A} (f : pg_cst -> A -> pg_cst) (l : list A) c,
  (forall c x, pg_cR c (f c x)) -> pg_cR c (fold_left f l c).
Proof.
  intros A f l. induction l as [|x t IH]; intros c H; simpl; [apply pg_cR_refl|].
  eapply pg_cR_trans; [apply H | apply IH, H].
Qed.

Lemma pg_cR_kids : forall rec h c, (forall x c, pg_cR c (rec x c)) -> pg_cR c (pg_reserve_kids rec h c).
Proof.
  intros rec h c Hrec. unfold pg_reserve_kids.
  assert (Hd : forall d c0, pg_cR c0 (fold_left (fun c1 (kv : pg_key * pg_val) => if pg_is_null (pd_store (c_src c1)) (snd kv) then c1 else rec (snd kv) c1) d c0)).
  { intros d c0. apply pg_cR_fold. intros c1 kv. destruct (pg_is_null _ _); [apply pg_cR_refl | apply Hrec]. }
  assert (Ha : forall l c0, pg_cR c0 (fold_left (fun c1 x => rec x c1) l c0)).
  { intros l c0. apply pg_cR_fold. intros c1 x. apply Hrec. }
  destruct h as [| | |og|l|d]; try apply pg_cR_refl; [|apply Ha|apply Hd].
  destruct (pg_lookup (pd_store (c_src c)) og) as [[v|d x k]|]; try apply pg_cR_refl; [|apply Hd].
  destruct v; try apply pg_cR_refl; [apply Ha|apply Hd].
Qed.

Lemma pg_cR_reserve : forall fuel h top c, pg_cR c (pg_reserve fuel h top c).
Proof.
  induction fuel as [|f IH]; intros h top c; cbn [pg_reserve].
  - apply pg_cR_core; reflexivity.
  - destruct (c_err c); [apply pg_cR_refl|].
    pose proof (pg_cR_type_is c h k_Pages) as R1.
    destruct (pg_src_type_is c h k_Pages) as [c1 isp]. cbn [fst] in R1.
    destruct (c_err c1); [exact R1|]. destruct isp; [exact R1|].
    pose proof (pg_cR_head h top c1) as R2.
    destruct (pg_reserve_head h top c1) as [c2 go]. cbn [fst] in R2.
    pose proof (pg_cR_trans _ _ _ R1 R2) as R12.
    destruct (c_err c2); [exact R12|]. destruct go; cbn [negb]; [|exact R12].
    pose proof (pg_cR_kids (fun x c0 => pg_reserve f x false c0) h c2 (fun x c0 => IH x false c0)) as R3.
    pose proof (pg_cR_trans _ _ _ R12 R3) as R123.
    destruct (c_err (pg_reserve_kids (fun x c0 => pg_reserve f x false c0) h c2)); [exact R123|].
    eapply pg_cR_trans; [exact R123|]. unfold pg_reserve_done. destruct h; try apply pg_cR_refl. apply pg_cR_core; reflexivity.
Qed.

(* ------------------------------------------------------------------ Copier::copied *)
Local Opaque pg_reserve.
Definition pg_c0 (src dst : pg_doc) : pg_cst := mkPgCst src (pd_store dst) (pd_omap dst) [] [] None.
Definition pg_cres (src dst : pg_doc) (fid : N) : pg_cst := pg_reserve 200 (PvRef fid) true (pg_c0 src dst).

Lemma pg_copied_src : forall src dst fid, fst (fst (fst (pg_copied src dst fid))) = c_src (pg_cres src dst fid).
Proof.
  intros. unfold pg_copied. fold (pg_c0 src dst). fold (pg_cres src dst fid).
  destruct (c_err (pg_cres src dst fid)); [reflexivity|].
  destruct (fold_left _ _ _) as [[ds reg] e]. destruct e; [reflexivity|].
  destruct (pg_omap_find _ _); reflexivity.
Qed.

Lemma pg_copied_omap : forall src dst fid, pd_omap (snd (fst (fst (pg_copied src dst fid)))) = c_omap (pg_cres src dst fid).
Proof.
  intros. unfold pg_copied. fold (pg_c0 src dst). fold (pg_cres src dst fid).
  destruct (c_err (pg_cres src dst fid)); [reflexivity|].
  destruct (fold_left _ _ _) as [[ds reg] e]. destruct e; [reflexivity|].
  destruct (pg_omap_find _ _); reflexivity.
Qed.

(* "leave the source document unchanged": once the source's page cache is filled (getAllPages has been called on it, or
   any page operation) copying from it does not touch it at all.  (With an empty cache the copier's isPagesObject /
   isPageObject calls fill the cache of the SOURCE, repairs included: that is the only way it is ever changed.) *)
Lemma copy_source_unchanged_lemma : forall src dst fid, pd_all src <> [] ->
  fst (fst (fst (pg_copied src dst fid))) = src.
Proof.
  intros src dst fid H. rewrite pg_copied_src.
  destruct (pg_cR_reserve 200 (PvRef fid) true (pg_c0 src dst)) as (_ & S & _). apply S. exact H.
Qed.

(* the object map is a function that only grows; what a successful copy returns is recorded in it; copying the same
   object again returns the same local object *)
Lemma copy_memo_lemma : forall src dst fid,
  let '(src', dst', e, r) := pg_copied src dst fid in
  (forall og l, pg_omap_find (pd_omap dst) og = Some l -> pg_omap_find (pd_omap dst') og = Some l) /\
  (forall l, e = None -> r = PvRef l -> pg_omap_find (pd_omap dst') fid = Some l) /\
  (forall l, e = None -> r = PvRef l ->
     let '(_, _, e2, r2) := pg_copied src' dst' fid in e2 = None -> r2 = PvRef l).
Proof.
  intros src dst fid.
  pose proof (pg_copied_omap src dst fid) as Ho.
  destruct (pg_cR_reserve 200 (PvRef fid) true (pg_c0 src dst)) as (M & _).
  destruct (pg_copied src dst fid) as [[[src' dst'] e] r] eqn:E. cbn [fst snd] in Ho.
  assert (Hrec : forall l, e = None -> r = PvRef l -> pg_omap_find (pd_omap dst') fid = Some l).
  { intros l -> ->. rewrite Ho. unfold pg_copied in E. fold (pg_c0 src dst) in E. fold (pg_cres src dst fid) in E.
    destruct (c_err (pg_cres src dst fid)); [inversion E|].
    destruct (fold_left _ _ _) as [[ds reg] e0]. destruct e0; [inversion E|].
    destruct (pg_omap_find (c_omap (pg_cres src dst fid)) fid); inversion E. reflexivity. }
  split; [|split; [exact Hrec|]].
  - intros og l H. rewrite Ho. apply M. exact H.
  - intros l He Hr. specialize (Hrec l He Hr).
    pose proof (pg_copied_omap src' dst' fid) as Ho2.
    destruct (pg_cR_reserve 200 (PvRef fid) true (pg_c0 src' dst')) as (M2 & _).
    destruct (pg_copied src' dst' fid) as [[[src2 dst2] e2] r2] eqn:E2. cbn [fst snd] in Ho2.
    intros ->. unfold pg_copied in E2. fold (pg_c0 src' dst') in E2. fold (pg_cres src' dst' fid) in E2.
    destruct (c_err (pg_cres src' dst' fid)); [inversion E2|].
    destruct (fold_left _ _ _) as [[ds reg] e0]. destruct e0; [inversion E2|].
    assert (pg_omap_find (c_omap (pg_cres src' dst' fid)) fid = Some l) as Hf by (apply M2; exact Hrec).
    rewrite Hf in E2. inversion E2. reflexivity.
Qed.

(* "nothing else touched": every object of the destination that is not null keeps its value - also when the copy
   fails half way *)
Lemma copy_frame_lemma : forall src dst fid j cell,
  pg_lookup (pd_store dst) j = Some cell -> pg_is_null (pd_store dst) (PvRef j) = false ->
  pg_lookup (pd_store (snd (fst (fst (pg_copied src dst fid))))) j = Some cell.
Proof.
  intros src dst fid j cell Hj Hnn.
  destruct (pg_cR_reserve 200 (PvRef fid) true (pg_c0 src dst)) as (_ & _ & D & more & T & NN).
  fold (pg_cres src dst fid) in *. cbn [pg_c0 c_dst c_tocopy] in *. rewrite app_nil_r in T.
  assert (Hc : pg_lookup (c_dst (pg_cres src dst fid)) j = Some cell) by (rewrite D; [exact Hj | congruence]).
  unfold pg_copied. fold (pg_c0 src dst). fold (pg_cres src dst fid).
  destruct (c_err (pg_cres src dst fid)); [exact Hc|].
  set (c := pg_cres src dst fid) in *.
  (* the replacement loop writes only to the local objects of to_copy, which were absent or null *)
  assert (Hfold : forall l0 ds reg e,
            (forall og, In og l0 -> In og more) -> pg_lookup ds j = Some cell ->
            pg_lookup (fst (fst (fold_left (fun '(ds, reg, e) og =>
               match e with
               | Some _ => (ds, reg, e)
               | None =>
                 match pg_omap_find (c_omap c) og with
                 | None => (ds, reg, Some PeUnm)
                 | Some l =>
                   match pg_lookup (pd_store (c_src c)) og with
                   | Some (PcStream d data _) =>
                       let d0 := match pg_lookup ds l with Some (PcStream d0 _ _) => d0 | _ => [] end in
                       (pg_supd ds l (PcStream (fold_left (fun acc kv => pg_dset acc (fst kv) (snd kv)) (pg_rename_dict (pd_store (c_src c)) (c_omap c) d) d0) [] l),
                        match pg_stream_data (c_src c) og with Some x => pg_reg_set reg l x | None => reg end, None)
                   | Some (PcObj v) =>
                       if pg_is_null ds (PvRef l)
                       then (pg_supd ds l (PcObj (pg_rename (pd_store (c_src c)) (c_omap c) v)), reg, None)
                       else (ds, reg, Some PeLogic)
                   | None => (ds, reg, Some PeUnm)
                   end
                 end
               end) l0 (ds, reg, e)))) j = Some cell).
  { induction l0 as [|og t IH]; intros ds reg e Hin Hds; [exact Hds|].
    cbn [fold_left]. destruct e; [apply IH; [intros x Hx; apply Hin; right; exact Hx | exact Hds]|].
    destruct (NN og (Hin og (or_introl eq_refl))) as (l & Hl & Hnull). rewrite Hl.
    assert (l <> j) as Hlj by (intros ->; congruence).
    destruct (pg_lookup (pd_store (c_src c)) og) as [[v|d data k]|].
    - destruct (pg_is_null ds (PvRef l)); (apply IH; [intros x Hx; apply Hin; right; exact Hx|]); [|exact Hds].
      rewrite pg_lookup_supd. destruct (j =? l) eqn:E; [apply N.eqb_eq in E; congruence | exact Hds].
    - apply IH; [intros x Hx; apply Hin; right; exact Hx|].
      rewrite pg_lookup_supd. destruct (j =? l) eqn:E; [apply N.eqb_eq in E; congruence | exact Hds].
    - apply IH; [intros x Hx; apply Hin; right; exact Hx | exact Hds]. }
  specialize (Hfold (rev' (c_tocopy c)) (c_dst c) (pd_reg dst) None).
  assert (forall og, In og (rev' (c_tocopy c)) -> In og more) as Hin.
  { intros og H. rewrite rev'_rev in H. apply in_rev in H. rewrite T in H. exact H. }
  specialize (Hfold Hin Hc).
  destruct (fold_left _ (rev' (c_tocopy c)) (c_dst c, pd_reg dst, None)) as [[ds reg] e]. cbn [fst] in Hfold.
  destruct e; [exact Hfold|]. destruct (pg_omap_find (c_omap c) fid); exact Hfold.
Qed.
