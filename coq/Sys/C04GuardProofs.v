(* Proofs for C04, guard logic (Sys/Guards.v): for ALL graphs / inputs
     - every traversal model terminates within an explicit bound: the fuel the model is run with is never exhausted;
     - the number of node visits is bounded by the number of nodes of the graph plus a constant;
     - a node that is reached a second time is reported (the documented error / warning) instead of being expanded;
     - recursion depth never exceeds the configured limit;
     - checked conversions return the value itself, inside the target range, or the error outcome;
     - at most one xref reconstruction per document, two when the late-startxref branch resets the flag.
   Statements named <name>_lemma are copied into Props/Properties_C04.v.  Graphs are assumed to have no node with id 0
   (c4_wf): 0 is the id of direct objects, which QPDFObjGen::set ignores and which cannot be the target of a reference. *)
From QV Require Import Sys.Guards.
From Coq Require Import List NArith ZArith Bool Lia.
Import ListNotations.
Local Open Scope N_scope.

Definition c4_keys {A : Type} (g : list (N * A)) : list N := map fst g.
Definition c4_wf {A : Type} (g : list (N * A)) : Prop := ~ In 0 (c4_keys g).

(* ------------------------------------------------------------------ basics *)
Lemma c4_mem_true : forall x l, c4_mem x l = true <-> In x l.
Proof.
  intros x l. unfold c4_mem. rewrite existsb_exists. split.
  - intros (y & Hy & E). apply N.eqb_eq in E. subst. exact Hy.
  - intros H. exists x. split; [exact H | apply N.eqb_refl].
Qed.

Lemma c4_mem_false : forall x l, c4_mem x l = false <-> ~ In x l.
Proof.
  intros x l. rewrite <- c4_mem_true. destruct (c4_mem x l); intuition congruence.
Qed.

Lemma c4_zmem_true : forall x l, c4_zmem x l = true <-> In x l.
Proof.
  intros x l. unfold c4_zmem. rewrite existsb_exists. split.
  - intros (y & Hy & E). apply Z.eqb_eq in E. subst. exact Hy.
  - intros H. exists x. split; [exact H | apply Z.eqb_refl].
Qed.

Lemma c4_zmem_false : forall x l, c4_zmem x l = false <-> ~ In x l.
Proof.
  intros x l. rewrite <- c4_zmem_true. destruct (c4_zmem x l); intuition congruence.
Qed.

Lemma c4_find_some_key : forall (A : Type) (g : list (N * A)) k a, c4_find g k = Some a -> In k (c4_keys g).
Proof.
  induction g as [|[k' a'] g IH]; simpl; intros k a H; [discriminate|].
  destruct (k =? k') eqn:E.
  - apply N.eqb_eq in E. left. congruence.
  - right. eapply IH; eauto.
Qed.

Lemma c4_find_key_some : forall (A : Type) (g : list (N * A)) k, In k (c4_keys g) -> exists a, c4_find g k = Some a.
Proof.
  induction g as [|[k' a'] g IH]; simpl; intros k H; [contradiction|].
  destruct (k =? k') eqn:E; [eauto|].
  destruct H as [H|H]; [subst; rewrite N.eqb_refl in E; discriminate | auto].
Qed.

Lemma c4_zfind_some_key : forall (A : Type) (g : list (Z * A)) k a, c4_zfind g k = Some a -> In k (map fst g).
Proof.
  induction g as [|[k' a'] g IH]; simpl; intros k a H; [discriminate|].
  destruct (k =? k')%Z eqn:E.
  - apply Z.eqb_eq in E. left. congruence.
  - right. eapply IH; eauto.
Qed.

Lemma c4_zfind_key_some : forall (A : Type) (g : list (Z * A)) k, In k (map fst g) -> exists a, c4_zfind g k = Some a.
Proof.
  induction g as [|[k' a'] g IH]; simpl; intros k H; [contradiction|].
  destruct (k =? k')%Z eqn:E; [eauto|].
  destruct H as [H|H]; [subst; rewrite Z.eqb_refl in E; discriminate | auto].
Qed.

Lemma c4_keys_length : forall (A : Type) (g : list (N * A)), length (c4_keys g) = length g.
Proof. intros. apply map_length. Qed.

(* a duplicate-free list of keys is not longer than the graph *)
Lemma c4_nodup_keys_le : forall (A : Type) (g : list (N * A)) l, NoDup l -> incl l (c4_keys g) -> (length l <= length g)%nat.
Proof. intros A g l Hn Hi. rewrite <- (c4_keys_length A g). apply NoDup_incl_length; assumption. Qed.

Lemma c4_znodup_keys_le : forall (A : Type) (g : list (Z * A)) l, NoDup l -> incl l (map fst g) -> (length l <= length g)%nat.
Proof. intros A g l Hn Hi. rewrite <- (map_length fst g). apply NoDup_incl_length; assumption. Qed.

(* QPDFObjGen::set::add on a non-zero id *)
Lemma c4_add_spec : forall k s ok s', c4_add k s = (ok, s') -> k <> 0 ->
  (ok = true /\ ~ In k s /\ s' = k :: s) \/ (ok = false /\ In k s /\ s' = s).
Proof.
  intros k s ok s' H Hk. unfold c4_add in H.
  destruct (k =? 0) eqn:E0; [apply N.eqb_eq in E0; contradiction|].
  destruct (c4_mem k s) eqn:Em; inversion H; subst.
  - right. rewrite c4_mem_true in Em. auto.
  - left. rewrite c4_mem_false in Em. auto.
Qed.

Lemma c4_wf_find_nonzero : forall (A : Type) (g : list (N * A)) k a, c4_wf g -> c4_find g k = Some a -> k <> 0.
Proof. intros A g k a Hwf H E. subst. apply Hwf. eapply c4_find_some_key; eauto. Qed.

(* ------------------------------------------------------------------ (a) read_xref *)
Lemma c4_xlocate_in : forall g off e, c4_xlocate g off = Some e -> In e g.
Proof.
  induction g as [|[a s] g IH]; simpl; intros off e H; [discriminate|].
  destruct ((a - c4x_lead s <=? off) && (off <=? a))%Z; [inversion H; left; reflexivity | right; eauto].
Qed.

Lemma c4_xstm_inv : forall g stm reads, fst (c4_xstm g stm reads) <> C4xFuel /\
  (length (snd (c4_xstm g stm reads)) <= length reads + 1)%nat.
Proof.
  intros g stm reads. unfold c4_xstm. destruct (stm =? 0)%Z; [cbn; split; [discriminate|lia]|].
  destruct (c4_xlocate g stm) as [[a' t]|]; [|cbn; split; [discriminate|lia]].
  destruct (c4x_kind t); [cbn; split; [discriminate|lia]|].
  destruct (c4x_bad t); cbn; split; try discriminate; lia.
Qed.

(* `entered`: the sections read so far.  A section is only ever entered when the /Prev of every section entered before
   is already a member of `visited` (it is the offset that was read next); so when a section is entered again, through
   whatever white-space alias, its /Prev is found in `visited` and the walk ends there. *)
Lemma c4_xwalk_inv : forall fuel g off visited reads ws (entered : list (Z * c4_xsec)),
  NoDup entered -> incl entered g ->
  (forall e, In e entered -> In (c4x_prev (snd e)) (off :: visited)) ->
  NoDup (off :: visited) ->
  (length g < fuel + length entered)%nat ->
  c4xo_res (c4_xwalk fuel g off visited reads ws) <> C4xFuel /\
  (length (c4xo_reads (c4_xwalk fuel g off visited reads ws)) + 2 * length entered <= length reads + 2 * length g + 2)%nat /\
  (length (c4xo_visited (c4_xwalk fuel g off visited reads ws)) + length entered <= length visited + length g + 1)%nat /\
  (N.to_nat (c4xo_ws (c4_xwalk fuel g off visited reads ws)) + length entered <= N.to_nat ws + length g + 1)%nat /\
  NoDup (c4xo_visited (c4_xwalk fuel g off visited reads ws)).
Proof.
  unfold c4_xwalk.
  induction fuel as [|f IH]; intros g off visited reads ws entered Hn Hi Hp Hv Hlen.
  - pose proof (NoDup_incl_length Hn Hi). lia.
  - pose proof (NoDup_incl_length Hn Hi) as Hle.
    cbn [c4_xwalk_v]. destruct (c4_xlocate g off) as [[a0 s]|] eqn:El;
      [|cbn; repeat split; [discriminate | lia | lia | lia | assumption]].
    apply c4_xlocate_in in El.
    set (ws' := if (match c4x_kind s with C4xTable => (1 <=? c4x_gap s)%Z | C4xStream => false end) && (0 <? a0 - off)%Z
                then ws + 1 else ws).
    assert (Hws : (N.to_nat ws' <= N.to_nat ws + 1)%nat).
    { unfold ws'. destruct (_ && _); lia. }
    clearbody ws'.
    (* the common tail: after the section (and its /XRefStm) has been read *)
    assert (Htail : forall reads', (length reads' <= length reads + 2)%nat ->
      let o := if c4_zmem (c4x_prev s) (off :: visited) then mkC4xout C4xLoop reads' (off :: visited) ws'
               else if (c4x_prev s =? 0)%Z then mkC4xout C4xOk reads' (off :: visited) ws'
               else c4_xwalk_v false f g (c4x_prev s) (off :: visited) reads' ws' in
      c4xo_res o <> C4xFuel /\
      (length (c4xo_reads o) + 2 * length entered <= length reads + 2 * length g + 2)%nat /\
      (length (c4xo_visited o) + length entered <= length visited + length g + 1)%nat /\
      (N.to_nat (c4xo_ws o) + length entered <= N.to_nat ws + length g + 1)%nat /\
      NoDup (c4xo_visited o)).
    { intros reads' Hr. cbv zeta.
      destruct (c4_zmem (c4x_prev s) (off :: visited)) eqn:Em;
        [cbn; repeat split; [discriminate | lia | lia | lia | assumption]|].
      destruct (c4x_prev s =? 0)%Z; [cbn; repeat split; [discriminate | lia | lia | lia | assumption]|].
      rewrite c4_zmem_false in Em.
      assert (Hnew : ~ In (a0, s) entered) by (intros Hin; apply Em; exact (Hp _ Hin)).
      assert (Hn' : NoDup ((a0, s) :: entered)) by (constructor; assumption).
      assert (Hi' : incl ((a0, s) :: entered) g) by (intros x [Hx|Hx]; [subst; assumption | auto]).
      pose proof (NoDup_incl_length Hn' Hi') as Hle'. cbn [length] in Hle'.
      assert (Hp' : forall e, In e ((a0, s) :: entered) -> In (c4x_prev (snd e)) (c4x_prev s :: off :: visited)).
      { intros e [He|He]; [subst; left; reflexivity | right; exact (Hp _ He)]. }
      assert (Hv' : NoDup (c4x_prev s :: off :: visited)) by (constructor; assumption).
      assert (Hlen' : (length g < f + length ((a0, s) :: entered))%nat) by (cbn [length]; lia).
      destruct (IH g (c4x_prev s) (off :: visited) reads' ws' _ Hn' Hi' Hp' Hv' Hlen') as (H1 & H2 & H3 & H4 & H5).
      cbn [length] in *. repeat split; [exact H1 | lia | lia | lia | exact H5]. }
    destruct (c4x_kind s).
    + destruct (negb (1 <=? c4x_gap s)%Z); [cbn; repeat split; [discriminate | lia | lia | lia | assumption]|].
      destruct (Z.min (c4x_gap s) 2 <? a0 - off)%Z; [cbn; repeat split; [discriminate | lia | lia | lia | assumption]|].
      destruct (c4x_bad s); [cbn; repeat split; [discriminate | lia | lia | lia | assumption]|].
      destruct (c4_xstm_inv g (c4x_stm s) (a0 :: reads)) as [Hs1 Hs2].
      destruct (c4_xstm g (c4x_stm s) (a0 :: reads)) as [r reads'] eqn:Es. cbn [fst snd length] in Hs1, Hs2.
      destruct r; try (cbn; repeat split; [first [discriminate | assumption] | lia | lia | lia | assumption]).
      apply Htail. lia.
    + destruct (c4x_bad s); [cbn; repeat split; [discriminate | lia | lia | lia | assumption]|].
      apply Htail. cbn [length]. lia.
Qed.

(* the /Prev walk never runs out of the fuel it is given: it stops after at most one round through the sections *)
Lemma xref_walk_fuel_lemma : forall g start, c4xo_res (c4_read_xref g start) <> C4xFuel.
Proof.
  intros g start. unfold c4_read_xref. destruct (start =? 0)%Z; [cbn; discriminate|].
  apply (c4_xwalk_inv (S (length g)) g start [] [] 0 []);
    [constructor | intros x [] | intros e [] | constructor; [intros []|constructor] | cbn; lia].
Qed.

(* every section is read at most once - and once more when it is reached again through another white-space alias, which
   ends the walk - with at most one /XRefStm stream each: work is linear in the number of sections *)
Lemma xref_walk_reads_lemma : forall g start, (length (c4xo_reads (c4_read_xref g start)) <= 2 * length g + 2)%nat.
Proof.
  intros g start. unfold c4_read_xref. destruct (start =? 0)%Z; [cbn; lia|].
  destruct (c4_xwalk_inv (S (length g)) g start [] [] 0 []) as (_ & H & _);
    [constructor | intros x [] | intros e [] | constructor; [intros []|constructor] | cbn; lia|].
  cbn [length] in H. lia.
Qed.

(* a set of offsets that the walk cannot leave: each of them leads (through any amount of white space the reader of that
   kind of section tolerates) to a readable section (a table: without /XRefStm) whose /Prev is again in the set *)
Definition c4_xclosed (g : list (Z * c4_xsec)) (P : Z -> Prop) : Prop :=
  forall off, P off -> exists a s, c4_xlocate g off = Some (a, s) /\
    c4x_bad s = false /\ c4x_prev s <> 0%Z /\ P (c4x_prev s) /\
    (c4x_kind s = C4xTable -> c4x_stm s = 0%Z /\ (1 <= c4x_gap s)%Z /\ (a - off <= Z.min (c4x_gap s) 2)%Z).

Lemma c4_xwalk_cyclic : forall fuel g P off visited reads ws,
  c4_xclosed g P -> P off ->
  c4xo_res (c4_xwalk fuel g off visited reads ws) = C4xLoop \/ c4xo_res (c4_xwalk fuel g off visited reads ws) = C4xFuel.
Proof.
  unfold c4_xwalk.
  induction fuel as [|f IH]; intros g P off visited reads ws H Hoff; [right; reflexivity|].
  cbn [c4_xwalk_v]. destruct (H off Hoff) as (a & s & El & Hb & Hp & HP & Ht). rewrite El.
  destruct (c4x_kind s) eqn:Ek.
  - destruct (Ht eq_refl) as (Hs & Hg & Hk).
    assert (E1 : (1 <=? c4x_gap s)%Z = true) by (apply Z.leb_le; exact Hg). rewrite E1. cbn [negb].
    assert (E2 : (Z.min (c4x_gap s) 2 <? a - off)%Z = false) by (apply Z.ltb_ge; exact Hk). rewrite E2.
    rewrite Hb, Hs. unfold c4_xstm. cbn [Z.eqb].
    destruct (c4_zmem (c4x_prev s) (off :: visited)); [left; reflexivity|].
    destruct (c4x_prev s =? 0)%Z eqn:E0; [apply Z.eqb_eq in E0; contradiction|].
    eapply IH; eassumption.
  - rewrite Hb.
    destruct (c4_zmem (c4x_prev s) (off :: visited)); [left; reflexivity|].
    destruct (c4x_prev s =? 0)%Z eqn:E0; [apply Z.eqb_eq in E0; contradiction|].
    eapply IH; eassumption.
Qed.

(* on a chain that never ends (every offset it reaches leads to a readable section that names a further such offset:
   necessarily a cycle, possibly closed only through white space in front of a section) the walk reports "loop detected
   following xref tables" *)
Lemma xref_walk_cycle_reported_lemma : forall g P start,
  c4_xclosed g P -> P start -> start <> 0%Z ->
  c4xo_res (c4_read_xref g start) = C4xLoop.
Proof.
  intros g P start H Hin H0. pose proof (xref_walk_fuel_lemma g start) as Hf.
  unfold c4_read_xref in *. destruct (start =? 0)%Z eqn:E; [apply Z.eqb_eq in E; contradiction|].
  destruct (c4_xwalk_cyclic (S (length g)) g P start [] [] 0 H Hin) as [H1|H1]; [exact H1 | contradiction].
Qed.

(* ------------------------------------------------------------------ (b) page tree *)
Lemma c4_add_incl : forall k s ok s', c4_add k s = (ok, s') -> incl s s'.
Proof.
  intros k s ok s' H. unfold c4_add in H. destruct (k =? 0); [inversion H; subst; apply incl_refl|].
  destruct (c4_mem k s); inversion H; subst; [apply incl_refl | apply incl_tl, incl_refl].
Qed.

Lemma c4_pclimb_inv : forall fuel g cur seen, c4_wf g -> NoDup seen -> incl seen (c4_keys g) ->
  (length g < fuel + length seen)%nat -> c4_pclimb fuel g cur seen <> None.
Proof.
  induction fuel as [|f IH]; intros g cur seen Hwf Hn Hi Hlen.
  - pose proof (c4_nodup_keys_le _ g seen Hn Hi). lia.
  - cbn [c4_pclimb]. destruct (c4_find g cur) as [nd|] eqn:Ef; [|discriminate].
    destruct (c4p_parent nd =? 0); [discriminate|].
    destruct (c4_add cur seen) as [ok seen'] eqn:Ea.
    destruct (c4_add_spec _ _ _ _ Ea (c4_wf_find_nonzero _ g cur nd Hwf Ef)) as [(-> & Hni & ->)|(-> & _ & ->)]; [|discriminate].
    apply IH; [assumption | constructor; assumption | | cbn [length]; lia].
    intros x [Hx|Hx]; [subst; eapply c4_find_some_key; eauto | auto].
Qed.

(* the /Parent climb of Pages::cache() ends within one round through the nodes *)
Lemma pages_climb_fuel_lemma : forall g root, c4_wf g -> c4_pclimb (S (length g)) g root [] <> None.
Proof. intros g root Hwf. apply c4_pclimb_inv; [assumption | constructor | intros x [] | cbn; lia]. Qed.

Definition c4_pinv (g : list (N * c4_pnode)) (st : c4_pst) : Prop :=
  NoDup (c4ps_nodes st) /\ incl (c4ps_nodes st) (c4ps_vis st) /\ incl (c4ps_nodes st) (c4_keys g) /\
  (c4ps_maxlevel st <= 100)%nat.
Definition c4_pgood (g : list (N * c4_pnode)) (st : c4_pst) : Prop :=
  c4_pinv g st /\ c4ps_calls st = N.of_nat (length (c4ps_nodes st)).
Definition c4_ppost (g : list (N * c4_pnode)) (x : c4_pres * c4_pst) : Prop :=
  fst x <> C4pFuel /\ fst x <> C4pNoKids /\ c4_pinv g (snd x) /\ (fst x = C4pOk -> c4_pgood g (snd x)) /\
  c4ps_calls (snd x) <= N.of_nat (length (c4ps_nodes (snd x))) + 1.

Lemma c4_pleaf_good : forall g recon k st, c4_pgood g st -> c4_pgood g (c4_pleaf recon k st).
Proof.
  intros g recon k st H. unfold c4_pleaf. destruct (c4_add k (c4ps_seen st)) as [ok seen'].
  destruct ok; [exact H|]. destruct recon; exact H.
Qed.

Lemma c4_pkids_post : forall rec g recon l st,
  (forall k kn st, c4_find g k = Some kn -> c4_pgood g st -> c4_ppost g (rec k st)) ->
  c4_pgood g st -> c4_ppost g (c4_pkids rec g recon l st).
Proof.
  intros rec g recon l. induction l as [|k l IH]; intros st Hrec Hg.
  - cbn. unfold c4_ppost; cbn. destruct Hg as [Hi Hc]. repeat split; try discriminate; try assumption; try apply Hi.
    rewrite Hc. lia.
  - cbn [c4_pkids]. destruct (if k =? 0 then None else c4_find g k) as [kn|] eqn:Ef.
    + destruct (k =? 0); [discriminate|].
      destruct (c4p_interior kn).
      * pose proof (Hrec k kn st Ef Hg) as Hp. destruct (rec k st) as [r st'].
        destruct r; try exact Hp.
        apply IH; [exact Hrec|]. destruct Hp as (_ & _ & _ & Hok & _). apply Hok. reflexivity.
      * apply IH; [exact Hrec | apply c4_pleaf_good; exact Hg].
    + apply IH; [exact Hrec | exact Hg].
Qed.

Lemma c4_pwalk_post : forall fuel g recon node level st,
  c4_wf g -> In node (c4_keys g) -> (level <= 100)%nat -> (102 <= fuel + level)%nat -> c4_pgood g st ->
  c4_ppost g (c4_pwalk fuel g recon node level st).
Proof.
  induction fuel as [|f IH]; intros g recon node level st Hwf Hin Hl Hf Hg; [lia|].
  destruct Hg as [(Hnd & Hiv & Hik & Hml) Hc].
  assert (Hn0 : node <> 0) by (intro E; subst; apply Hwf; exact Hin).
  cbn [c4_pwalk]. cbn [c4ps_vis c4ps_seen c4ps_pages c4ps_copies c4ps_skipped c4ps_calls c4ps_nodes c4ps_maxlevel].
  destruct (Nat.ltb 100 (S level)) eqn:El.
  - unfold c4_ppost, c4_pinv; cbn. repeat split; try discriminate; try assumption. rewrite Hc. lia.
  - apply PeanoNat.Nat.ltb_ge in El.
    destruct (c4_add node (c4ps_vis st)) as [ok vis] eqn:Ea.
    destruct (c4_add_spec _ _ _ _ Ea Hn0) as [(-> & Hni & ->)|(-> & _ & ->)]; cbn [negb].
    2:{ unfold c4_ppost, c4_pinv; cbn. repeat split; try discriminate; try assumption. rewrite Hc. lia. }
    set (nd := match c4_find g node with Some nd => nd | None => mkC4pnode true 0 [] 0 end).
    destruct (c4_add (c4p_karr nd) (node :: c4ps_vis st)) as [ok2 vis2] eqn:Ea2.
    pose proof (c4_add_incl _ _ _ _ Ea2) as Hinc.
    cbn [c4ps_vis c4ps_seen c4ps_pages c4ps_copies c4ps_skipped c4ps_calls c4ps_nodes c4ps_maxlevel].
    destruct ok2; cbn [negb].
    2:{ unfold c4_ppost, c4_pinv; cbn. repeat split; try discriminate; try assumption.
        - intros x Hx. apply Hinc. right. apply Hiv. exact Hx.
        - apply PeanoNat.Nat.max_lub; assumption.
        - rewrite Hc. lia. }
    apply c4_pkids_post.
    + intros k kn st' Ek Hg'. apply IH; try assumption.
      * eapply c4_find_some_key; eauto.
      * lia.
    + unfold c4_pgood, c4_pinv; cbn. repeat split.
      * constructor; [intro Hx; apply Hni; apply Hiv; exact Hx | assumption].
      * intros x [Hx|Hx]; apply Hinc; [left; exact Hx | right; apply Hiv; exact Hx].
      * intros x [Hx|Hx]; [subst; assumption | apply Hik; exact Hx].
      * apply PeanoNat.Nat.max_lub; assumption.
      * rewrite Hc. lia.
Qed.

Lemma c4_pst0_good : forall g, c4_pgood g c4_pst0.
Proof. intros g. unfold c4_pgood, c4_pinv, c4_pst0; cbn. repeat split; try constructor; try (intros x []); lia. Qed.

Lemma c4_pages_post : forall g recon root, c4_wf g ->
  fst (c4_pages g recon root) <> C4pFuel /\
  (c4ps_maxlevel (snd (c4_pages g recon root)) <= 100)%nat /\
  c4ps_calls (snd (c4_pages g recon root)) <= N.of_nat (length g) + 1 /\
  NoDup (c4ps_nodes (snd (c4_pages g recon root))).
Proof.
  intros g recon root Hwf. unfold c4_pages.
  destruct (c4_pclimb (S (length g)) g root []) as [top|] eqn:Ec; [|exfalso; eapply pages_climb_fuel_lemma; eauto].
  destruct (c4_find g top) as [nd|] eqn:Ef; [|cbn; repeat split; try discriminate; try lia; constructor].
  destruct (c4p_interior nd); [|cbn; repeat split; try discriminate; try lia; constructor].
  pose proof (c4_pwalk_post 102 g recon top 0 c4_pst0 Hwf (c4_find_some_key _ g top nd Ef)) as H.
  destruct H as (H1 & _ & (Hnd & _ & Hik & Hml) & _ & Hc); [lia | lia | apply c4_pst0_good |].
  pose proof (c4_nodup_keys_le _ g _ Hnd Hik). repeat split; try assumption. lia.
Qed.

(* getAllPagesInternal never exhausts fuel 102, whatever the graph: the level limit bounds the recursion *)
Lemma pages_fuel_lemma : forall g recon root, c4_wf g -> fst (c4_pages g recon root) <> C4pFuel.
Proof. intros. apply c4_pages_post; assumption. Qed.

(* recursion depth never exceeds max_level = 100 *)
Lemma pages_depth_lemma : forall g recon root, c4_wf g -> (c4ps_maxlevel (snd (c4_pages g recon root)) <= 100)%nat.
Proof. intros. apply c4_pages_post; assumption. Qed.

(* the number of calls of getAllPagesInternal is at most the number of nodes plus one, and no node has its /Kids
   iterated twice: shared subtrees are not expanded again *)
Lemma pages_calls_lemma : forall g recon root, c4_wf g ->
  c4ps_calls (snd (c4_pages g recon root)) <= N.of_nat (length g) + 1 /\ NoDup (c4ps_nodes (snd (c4_pages g recon root))).
Proof. intros g recon root Hwf. destruct (c4_pages_post g recon root Hwf) as (_ & _ & H1 & H2). split; assumption. Qed.

(* a node that is reached again (its id is in `visited`) is reported as "Loop detected in /Pages structure" *)
Lemma pages_revisit_reported_lemma : forall f g recon node level st,
  node <> 0 -> In node (c4ps_vis st) -> (S level <= 100)%nat ->
  fst (c4_pwalk (S f) g recon node level st) = C4pLoop.
Proof.
  intros f g recon node level st Hn Hin Hl. cbn [c4_pwalk].
  destruct (Nat.ltb 100 (S level)) eqn:El; [apply PeanoNat.Nat.ltb_lt in El; lia|].
  cbn [c4ps_vis]. unfold c4_add. destruct (node =? 0) eqn:E0; [apply N.eqb_eq in E0; contradiction|].
  apply c4_mem_true in Hin. rewrite Hin. reflexivity.
Qed.

Lemma c4_pkids_never_ok : forall rec g recon l st,
  (exists k kn, In k l /\ k <> 0 /\ c4_find g k = Some kn /\ c4p_interior kn = true /\ forall st, fst (rec k st) <> C4pOk) ->
  fst (c4_pkids rec g recon l st) <> C4pOk.
Proof.
  intros rec g recon l. induction l as [|k0 l IH]; intros st (k & kn & Hin & Hk0 & Hf & Hi & Hr); [destruct Hin|].
  cbn [c4_pkids]. destruct Hin as [->|Hin].
  - destruct (k =? 0) eqn:E0; [apply N.eqb_eq in E0; contradiction|]. rewrite Hf, Hi.
    specialize (Hr st). destruct (rec k st) as [r st']. cbn in Hr. destruct r; cbn; congruence.
  - assert (Hex : exists k kn, In k l /\ k <> 0 /\ c4_find g k = Some kn /\ c4p_interior kn = true /\ forall st, fst (rec k st) <> C4pOk)
      by (exists k, kn; auto).
    destruct (if k0 =? 0 then None else c4_find g k0) as [kn0|]; [|apply IH; exact Hex].
    destruct (c4p_interior kn0); [|apply IH; exact Hex].
    destruct (rec k0 st) as [r st'] eqn:Er. destruct r; cbn; try discriminate. apply IH; exact Hex.
Qed.

Lemma c4_pwalk_never_ok : forall fuel g recon node nd level st,
  (forall k nd, c4_find g k = Some nd -> c4p_interior nd = true ->
     exists k' nd', In k' (c4p_kids nd) /\ k' <> 0 /\ c4_find g k' = Some nd' /\ c4p_interior nd' = true) ->
  c4_find g node = Some nd -> c4p_interior nd = true ->
  fst (c4_pwalk fuel g recon node level st) <> C4pOk.
Proof.
  induction fuel as [|f IH]; intros g recon node nd level st H Hf Hi; [cbn; discriminate|].
  cbn [c4_pwalk]. destruct (Nat.ltb 100 (S level)); [cbn; discriminate|].
  match goal with |- context [c4_add node ?v] => destruct (c4_add node v) as [ok vis] end.
  destruct ok; cbn [negb]; [|cbn; discriminate]. rewrite Hf.
  match goal with |- context [c4_add (c4p_karr nd) ?v] => destruct (c4_add (c4p_karr nd) v) as [ok2 vis2] end.
  destruct ok2; cbn [negb]; [|cbn; discriminate].
  apply c4_pkids_never_ok. destruct (H node nd Hf Hi) as (k' & nd' & Hin & Hk & Hf' & Hi').
  exists k', nd'. repeat split; try assumption. intros st'. eapply IH; eauto.
Qed.

(* on a page tree without a finite unfolding (every interior node has an interior kid: a cycle, since the graph
   is finite) the traversal ends with one of the two documented errors instead of continuing *)
Lemma pages_cycle_reported_lemma : forall g recon root rd, c4_wf g ->
  (forall k nd, c4_find g k = Some nd -> c4p_interior nd = true ->
     exists k' nd', In k' (c4p_kids nd) /\ k' <> 0 /\ c4_find g k' = Some nd' /\ c4p_interior nd' = true) ->
  c4_find g root = Some rd -> c4p_interior rd = true -> c4p_parent rd = 0 ->
  fst (c4_pages g recon root) = C4pLoop \/ fst (c4_pages g recon root) = C4pDeep.
Proof.
  intros g recon root rd Hwf H Hf Hi Hp. unfold c4_pages. cbn [c4_pclimb]. rewrite Hf, Hp. cbn [N.eqb]. rewrite Hf, Hi.
  pose proof (c4_pwalk_never_ok 102 g recon root rd 0 c4_pst0 H Hf Hi) as Hno.
  destruct (c4_pwalk_post 102 g recon root 0 c4_pst0 Hwf (c4_find_some_key _ g root rd Hf)) as (H1 & H2 & _);
    [lia | lia | apply c4_pst0_good |].
  destruct (fst (c4_pwalk 102 g recon root 0 c4_pst0)); try contradiction; auto.
Qed.

(* ------------------------------------------------------------------ (c) name/number trees *)
Lemma c4_deepen_inv : forall fuel g a first ae path seen added,
  c4_wf g -> (forall x, In x added -> In x seen) -> NoDup added -> incl added (c4_keys g) ->
  (length g < fuel + length added)%nat ->
  c4_deepen fuel g a first ae path seen <> C4dFuel /\
  (forall p' leaf, c4_deepen fuel g a first ae path seen = C4dLeaf p' leaf \/ c4_deepen fuel g a first ae path seen = C4dEmpty p' leaf ->
     (length p' + length added <= length path + length g)%nat).
Proof.
  induction fuel as [|f IH]; intros g a first ae path seen added Hwf Hsub Hn Hi Hlen.
  - pose proof (c4_nodup_keys_le _ g added Hn Hi). lia.
  - pose proof (c4_nodup_keys_le _ g added Hn Hi) as Hle.
    cbn [c4_deepen]. destruct (c4_add a seen) as [ok seen'] eqn:Ea.
    destruct ok; cbn [negb]; [|split; [discriminate | intros p' leaf [H|H]; discriminate]].
    destruct (c4_find g a) as [nd|] eqn:Ef; [|split; [discriminate | intros p' leaf [H|H]; discriminate]].
    assert (Ha0 : a <> 0) by (eapply c4_wf_find_nonzero; eauto).
    destruct (c4_add_spec _ _ _ _ Ea Ha0) as [(_ & Hni & ->)|(Hx & _)]; [|discriminate].
    assert (Hn' : NoDup (a :: added)) by (constructor; [intro Hx; apply Hni, Hsub, Hx | assumption]).
    assert (Hi' : incl (a :: added) (c4_keys g)) by (intros x [Hx|Hx]; [subst; eapply c4_find_some_key; eauto | auto]).
    pose proof (c4_nodup_keys_le _ g _ Hn' Hi') as Hle'. cbn [length] in Hle'.
    destruct (1 <? c4n_items nd).
    { split; [discriminate|]. intros p' leaf [H|H]; inversion H; subst; lia. }
    destruct (c4n_kids nd) as [|k0 kl] eqn:Ek.
    { destruct (ae && c4n_hasitems nd); split; try discriminate; intros p' leaf [H|H]; inversion H; subst; lia. }
    destruct (nth_error (k0 :: kl) (if first then 0%nat else Nat.pred (length (k0 :: kl)))) as [next|];
      [|split; [discriminate | intros p' leaf [H|H]; discriminate]].
    destruct (c4_find g next); [|split; [discriminate | intros p' leaf [H|H]; discriminate]].
    destruct (IH g next first ae ((a, if first then 0%nat else Nat.pred (length (k0 :: kl))) :: path) (a :: seen) (a :: added)) as [H1 H2];
      try assumption.
    + intros x [Hx|Hx]; [left; exact Hx | right; apply Hsub; exact Hx].
    + cbn [length]. lia.
    + split; [exact H1|]. intros p' leaf H. specialize (H2 p' leaf H). cbn [length] in H2. lia.
Qed.

(* NNTreeIterator::deepen, started on any path, ends within one round through the nodes *)
Lemma nntree_deepen_fuel_lemma : forall g a first allow_empty path,
  c4_wf g -> c4_deepen (S (length g)) g a first allow_empty path (map fst path) <> C4dFuel.
Proof.
  intros g a first ae path Hwf.
  apply (c4_deepen_inv (S (length g)) g a first ae path (map fst path) []); try assumption;
    [intros x [] | constructor | intros x [] | cbn; lia].
Qed.

(* ... and descends through at most as many nodes as the graph has *)
Lemma nntree_deepen_depth_lemma : forall g a first allow_empty path p' leaf, c4_wf g ->
  c4_deepen (S (length g)) g a first allow_empty path (map fst path) = C4dLeaf p' leaf ->
  (length p' <= length path + length g)%nat.
Proof.
  intros g a first ae path p' leaf Hwf H.
  destruct (c4_deepen_inv (S (length g)) g a first ae path (map fst path) []) as [_ H2]; try assumption;
    [intros x [] | constructor | intros x [] | cbn; lia |].
  specialize (H2 p' leaf (or_introl H)). cbn [length] in H2. lia.
Qed.

Lemma c4_nn_find_inv : forall fuel g node seen steps,
  c4_wf g -> NoDup seen -> incl seen (c4_keys g) -> (length g < fuel + length seen)%nat ->
  fst (c4_nn_find fuel g node seen steps) <> C4fFuel /\
  snd (c4_nn_find fuel g node seen steps) + N.of_nat (length seen) <= steps + N.of_nat (length g).
Proof.
  induction fuel as [|f IH]; intros g node seen steps Hwf Hn Hi Hlen.
  - pose proof (c4_nodup_keys_le _ g seen Hn Hi). lia.
  - pose proof (c4_nodup_keys_le _ g seen Hn Hi) as Hle.
    cbn [c4_nn_find]. destruct (c4_add node seen) as [ok seen'] eqn:Ea.
    destruct ok; cbn [negb]; [|cbn; split; [discriminate | lia]].
    destruct (c4_find g node) as [nd|] eqn:Ef; [|cbn; split; [discriminate | lia]].
    assert (Ha0 : node <> 0) by (eapply c4_wf_find_nonzero; eauto).
    destruct (c4_add_spec _ _ _ _ Ea Ha0) as [(_ & Hni & ->)|(Hx & _)]; [|discriminate].
    assert (Hn' : NoDup (node :: seen)) by (constructor; assumption).
    assert (Hi' : incl (node :: seen) (c4_keys g)) by (intros x [Hx|Hx]; [subst; eapply c4_find_some_key; eauto | auto]).
    pose proof (c4_nodup_keys_le _ g _ Hn' Hi') as Hle'. cbn [length] in Hle'.
    destruct (1 <? c4n_items nd); [cbn; split; [discriminate | lia]|].
    destruct (c4n_kids nd) as [|k0 kl]; [cbn; split; [discriminate | lia]|].
    destruct (c4n_pick nd) as [i|]; [|cbn; split; [discriminate | lia]].
    destruct (nth_error (k0 :: kl) i) as [next|]; [|cbn; split; [discriminate | lia]].
    destruct (IH g next (node :: seen) (steps + 1) Hwf Hn' Hi') as [H1 H2]; [cbn [length]; lia|].
    split; [exact H1|]. cbn [length] in H2. lia.
Qed.

(* NNTreeImpl::findInternal's descent ends within one round through the nodes, after at most that many steps *)
Lemma nntree_find_fuel_lemma : forall g root, c4_wf g ->
  fst (c4_nn_find (S (length g)) g root [] 0) <> C4fFuel /\ snd (c4_nn_find (S (length g)) g root [] 0) <= N.of_nat (length g).
Proof.
  intros g root Hwf. destruct (c4_nn_find_inv (S (length g)) g root [] 0 Hwf) as [H1 H2];
    [constructor | intros x [] | cbn; lia|]. split; [exact H1|]. cbn [length] in H2. lia.
Qed.

Lemma c4_nn_find_cyclic : forall fuel g node seen steps,
  (forall k nd, c4_find g k = Some nd ->
     (1 <? c4n_items nd) = false /\ exists i next, c4n_pick nd = Some i /\ nth_error (c4n_kids nd) i = Some next /\ In next (c4_keys g)) ->
  In node (c4_keys g) ->
  fst (c4_nn_find fuel g node seen steps) = C4fLoop \/ fst (c4_nn_find fuel g node seen steps) = C4fFuel.
Proof.
  induction fuel as [|f IH]; intros g node seen steps H Hin; [right; reflexivity|].
  cbn [c4_nn_find]. destruct (c4_add node seen) as [ok seen'].
  destruct ok; cbn [negb]; [|left; reflexivity].
  destruct (c4_find_key_some _ g node Hin) as [nd Ef]. rewrite Ef.
  destruct (H node nd Ef) as (Hit & i & next & Hp & Hn & Hk). rewrite Hit.
  destruct (c4n_kids nd) as [|k0 kl] eqn:Ek; [destruct i; discriminate|].
  rewrite Hp, Hn. apply IH; assumption.
Qed.

(* when the path chosen for the key never reaches a leaf (every node on it names a next node: a cycle) find
   throws "loop detected in find" *)
Lemma nntree_find_cycle_reported_lemma : forall g root, c4_wf g ->
  (forall k nd, c4_find g k = Some nd ->
     (1 <? c4n_items nd) = false /\ exists i next, c4n_pick nd = Some i /\ nth_error (c4n_kids nd) i = Some next /\ In next (c4_keys g)) ->
  In root (c4_keys g) ->
  fst (c4_nn_find (S (length g)) g root [] 0) = C4fLoop.
Proof.
  intros g root Hwf H Hin. destruct (nntree_find_fuel_lemma g root Hwf) as [Hf _].
  destruct (c4_nn_find_cyclic (S (length g)) g root [] 0 H Hin) as [H1|H1]; [exact H1 | contradiction].
Qed.

(* the family of trees in which every level lists the next level twice: d + 1 nodes *)
Fixpoint c4_nn_dag (d : nat) (i : N) : list (N * c4_nnode) :=
  match d with
  | O => [(i, mkC4nnode 2 true [] None 7 7)]
  | S d' => (i, mkC4nnode 0 false [i + 1; i + 1] None 0 0) :: c4_nn_dag d' (i + 1)
  end.

(* REFUTED for the plain iteration of the public tree helpers (begin()/++, for (auto i: tree), getAsMap - the part that
   the repair of D-C04-nntree-dag does not touch): "the number of leaf visits of a whole-tree iteration is linear in the
   number of nodes".  NNTreeIterator::deepen remembers only the nodes of the current path, so shared nodes are expanded
   again and again: 11 nodes, 1024 leaf visits (2^d in general; observed through the driver, D-C04-nntree-dag-api).
   Before the repair this was also the loop of NNTreeImpl::repair(). *)
Lemma nntree_raw_iteration_linear_refuted_lemma : exists g root,
  length g = 11%nat /\ c4_wf g /\
  c4_nn_iter (20 * 400) g root = (mkC4ist 1024 1024 0, true).
Proof.
  exists (c4_nn_dag 10 1), 1. split; [reflexivity|]. split.
  - unfold c4_wf. cbn. intuition discriminate.
  - vm_compute. reflexivity.
Qed.

Lemma c4_deepen_leaf_found : forall fuel g a first ae path seen p' leaf,
  c4_deepen fuel g a first ae path seen = C4dLeaf p' leaf -> exists nd, c4_find g leaf = Some nd.
Proof.
  induction fuel as [|f IH]; intros g a first ae path seen p' leaf H; [discriminate|].
  cbn [c4_deepen] in H. destruct (c4_add a seen) as [ok seen']. destruct ok; cbn [negb] in H; [|discriminate].
  destruct (c4_find g a) as [nd|] eqn:Ef; [|discriminate].
  destruct (1 <? c4n_items nd); [inversion H; subst; eauto|].
  destruct (c4n_kids nd) as [|k0 kl]; [destruct (ae && c4n_hasitems nd); discriminate|].
  destruct (nth_error (k0 :: kl) (if first then 0%nat else Nat.pred (length (k0 :: kl)))) as [next|]; [|discriminate].
  destruct (c4_find g next); [|discriminate]. eapply IH; eauto.
Qed.

(* an invariant of the caller's state that every leaf visit and every warning preserves holds after the whole loop,
   whatever the cap *)
Lemma c4_nn_walk_inv : forall (T : Type) (I : T -> Prop) (visit : N -> c4_nnode -> T -> T * bool) (warn : T -> T) g,
  (forall leaf ld st, c4_find g leaf = Some ld -> I st -> I (fst (visit leaf ld st))) ->
  (forall st, I st -> I (warn st)) ->
  forall fuel path st, I st -> I (fst (c4_nn_walk visit warn fuel g path st)).
Proof.
  intros T I visit warn g Hv Hw. induction fuel as [|f IH]; intros path st Hi; [exact Hi|].
  cbn [c4_nn_walk]. destruct path as [|[n k] rest]; [exact Hi|].
  destruct (c4_find g n) as [nd|]; [|exact Hi].
  destruct (nth_error (c4n_kids nd) (S k)) as [kid|]; [|apply IH; exact Hi].
  match goal with |- context [if negb ?u then _ else _] => destruct (negb u) end; [apply IH, Hw, Hi|].
  destruct (c4_deepen (S (length g)) g kid true false ((n, S k) :: rest) (map fst ((n, S k) :: rest))) as [p' leaf|p' leaf|w|];
    try (apply IH; first [exact Hi | apply Hw; exact Hi]); [|exact Hi].
  destruct (c4_find g leaf) as [ld|] eqn:El; [|apply IH; exact Hi].
  pose proof (Hv leaf ld st El Hi) as Hv'. destruct (visit leaf ld st) as [st' go]. cbn [fst] in Hv'.
  destruct go; [apply IH; exact Hv' | exact Hv'].
Qed.

Lemma c4_nn_foreach_inv : forall (T : Type) (I : T -> Prop) (visit : N -> c4_nnode -> T -> T * bool) (warn : T -> T) g,
  (forall leaf ld st, c4_find g leaf = Some ld -> I st -> I (fst (visit leaf ld st))) ->
  (forall st, I st -> I (warn st)) ->
  forall cap root st, I st -> I (fst (c4_nn_foreach visit warn cap g root st)).
Proof.
  intros T I visit warn g Hv Hw cap root st Hi. unfold c4_nn_foreach.
  destruct (c4_deepen (S (length g)) g root true true [] []) as [p' leaf|p' leaf|w|]; try exact Hi; [|apply Hw; exact Hi].
  destruct (c4_find g leaf) as [ld|] eqn:El; [|exact Hi].
  pose proof (Hv leaf ld st El Hi) as Hv'. destruct (visit leaf ld st) as [st' go]. cbn [fst] in Hv'.
  destruct go; [apply c4_nn_walk_inv; assumption | exact Hv'].
Qed.

(* validate(): all leaves accepted so far are distinct nodes whose keys are not above the last key; a leaf that is entered
   again therefore ends the loop *)
Definition c4_vinv (g : list (N * c4_nnode)) (st : c4_vst) : Prop :=
  NoDup (c4v_seen st) /\ incl (c4v_seen st) (c4_keys g) /\
  (c4v_first st = true -> c4v_seen st = []) /\
  (forall l, In l (c4v_seen st) -> exists ld, c4_find g l = Some ld /\ c4n_klo ld <= c4n_khi ld /\ c4n_khi ld <= c4v_last st) /\
  c4v_leaves st <= N.of_nat (length (c4v_seen st)) + (if c4v_err st then 1 else 0).

Lemma c4_vvisit_inv : forall g leaf ld st, c4_find g leaf = Some ld -> c4_vinv g st -> c4_vinv g (fst (c4_nn_vvisit leaf ld st)).
Proof.
  intros g leaf ld st Hf (H1 & H2 & H3 & H4 & H5). unfold c4_nn_vvisit.
  destruct (c4v_err st) eqn:Ee; [cbn [fst]; unfold c4_vinv; rewrite Ee; auto|].
  destruct ((negb (c4v_first st) && (c4n_klo ld <=? c4v_last st)) || (c4n_khi ld <? c4n_klo ld)) eqn:Ec; cbn [fst].
  - unfold c4_vinv; cbn [c4v_first c4v_last c4v_seen c4v_leaves c4v_warns c4v_err]. repeat split; try assumption. lia.
  - apply orb_false_elim in Ec as [Ec1 Ec2]. apply N.ltb_ge in Ec2.
    assert (Hnew : ~ In leaf (c4v_seen st)).
    { intro Hin. destruct (H4 leaf Hin) as (ld' & Hf' & Hlo & Hhi). rewrite Hf in Hf'. inversion Hf'; subst ld'.
      destruct (c4v_first st) eqn:Ef; [rewrite (H3 eq_refl) in Hin; destruct Hin|].
      cbn [negb andb] in Ec1. apply N.leb_gt in Ec1. lia. }
    unfold c4_vinv; cbn [c4v_first c4v_last c4v_seen c4v_leaves c4v_warns c4v_err length]. repeat split.
    + constructor; assumption.
    + intros x [Hx|Hx]; [subst; eapply c4_find_some_key; eauto | auto].
    + discriminate.
    + intros l [Hl|Hl].
      * subst l. exists ld. repeat split; [assumption | assumption | lia].
      * destruct (H4 l Hl) as (ld' & Hf' & Hlo & Hhi). exists ld'. repeat split; try assumption.
        destruct (c4v_first st) eqn:Ef; [rewrite (H3 eq_refl) in Hl; destruct Hl|].
        cbn [negb andb] in Ec1. apply N.leb_gt in Ec1. lia.
    + lia.
Qed.

(* NNTreeImpl::validate() enters at most (number of nodes) + 1 leaves, whatever the shape of the graph and whatever the
   cap: the first leaf that is entered a second time ends it with "keys are not sorted" *)
Lemma nntree_validate_visits_lemma : forall cap g root,
  c4v_leaves (fst (c4_nn_validate cap g root)) <= N.of_nat (length g) + 1.
Proof.
  intros cap g root. unfold c4_nn_validate.
  pose proof (c4_nn_foreach_inv c4_vst (c4_vinv g) c4_nn_vvisit c4_nn_vwarn g (c4_vvisit_inv g)) as H.
  destruct (H (fun st Hi => Hi) cap root (mkC4vst true 0 [] 0 0 false)) as (H1 & H2 & _ & _ & H5).
  - unfold c4_vinv; cbn [c4v_first c4v_last c4v_seen c4v_leaves c4v_warns c4v_err length].
    repeat split; try apply NoDup_nil; try (intros x []); try reflexivity; lia.
  - pose proof (c4_nodup_keys_le _ g _ H1 H2).
    destruct (c4v_err (fst (c4_nn_foreach c4_nn_vvisit c4_nn_vwarn cap g root (mkC4vst true 0 [] 0 0 false)))); lia.
Qed.

(* the repaired repair(): leaves entered = distinct leaves + re-entries, and never more than 1001 re-entries *)
Definition c4_rpinv (g : list (N * c4_nnode)) (st : c4_rpst) : Prop :=
  NoDup (c4rp_seen st) /\ incl (c4rp_seen st) (c4_keys g) /\
  c4rp_leaves st = N.of_nat (length (c4rp_seen st)) + c4rp_reent st /\
  c4rp_reent st <= 1001 /\ (c4rp_gaveup st = false -> c4rp_reent st <= 1000) /\
  (c4rp_gaveup st = true -> 1 <= c4rp_warns st).

Lemma c4_rvisit_inv : forall g leaf ld st, c4_wf g -> c4_find g leaf = Some ld -> c4_rpinv g st -> c4_rpinv g (fst (c4_nn_rvisit leaf ld st)).
Proof.
  intros g leaf ld st Hwf Hf Hall. pose proof Hall as (H1 & H2 & H3 & H4 & H5 & H6). unfold c4_nn_rvisit.
  destruct (c4rp_gaveup st) eqn:Eg; [exact Hall|].
  specialize (H5 eq_refl).
  destruct (c4_add leaf (c4rp_seen st)) as [ok seen'] eqn:Ea.
  destruct (c4_add_spec _ _ _ _ Ea (c4_wf_find_nonzero _ g leaf ld Hwf Hf)) as [(-> & Hni & ->)|(-> & _ & ->)].
  - cbn [fst]. unfold c4_rpinv; cbn [c4rp_seen c4rp_reent c4rp_leaves c4rp_distinct c4rp_warns c4rp_gaveup length].
    repeat split; try assumption; try (intros; assumption); try (intro; discriminate); try lia.
    + constructor; assumption.
    + intros x [Hx|Hx]; [subst; eapply c4_find_some_key; eauto | auto].
  - destruct (1000 <? c4rp_reent st + 1) eqn:El; cbn [fst]; unfold c4_rpinv;
      cbn [c4rp_seen c4rp_reent c4rp_leaves c4rp_distinct c4rp_warns c4rp_gaveup length];
      repeat split; try assumption; try (intro; discriminate); try lia.
    apply N.ltb_ge in El. intros _. lia.
Qed.

(* NNTreeImpl::repair() after the fix enters at most (number of nodes) + 1001 leaves - linear in the input instead of
   2^depth - whatever the shape of the graph and whatever the cap, and when it gives up it says so (warning) *)
Lemma nntree_repair_visits_lemma : forall cap g root, c4_wf g ->
  c4rp_leaves (fst (c4_nn_repair cap g root)) <= N.of_nat (length g) + 1001 /\
  c4rp_reent (fst (c4_nn_repair cap g root)) <= 1001 /\
  (c4rp_gaveup (fst (c4_nn_repair cap g root)) = true -> 1 <= c4rp_warns (fst (c4_nn_repair cap g root))).
Proof.
  intros cap g root Hwf. unfold c4_nn_repair.
  pose proof (c4_nn_foreach_inv c4_rpst (c4_rpinv g) c4_nn_rvisit c4_nn_rwarn g (fun leaf ld st => c4_rvisit_inv g leaf ld st Hwf)) as H.
  assert (Hw : forall st, c4_rpinv g st -> c4_rpinv g (c4_nn_rwarn st)).
  { intros st (A & B & C & D & E & F). unfold c4_rpinv, c4_nn_rwarn.
    cbn [c4rp_seen c4rp_reent c4rp_leaves c4rp_distinct c4rp_warns c4rp_gaveup]. repeat split; try assumption.
    intros G. specialize (F G). lia. }
  destruct (H Hw cap root (mkC4rpst [] 0 0 0 0 false)) as (H1 & H2 & H3 & H4 & _ & H6).
  - unfold c4_rpinv; cbn [c4rp_seen c4rp_reent c4rp_leaves c4rp_distinct c4rp_warns c4rp_gaveup length].
    split; [apply NoDup_nil|]. split; [intros x []|]. split; [reflexivity|]. split; [lia|]. split; [intros _; lia | intro; discriminate].
  - pose proof (c4_nodup_keys_le _ g _ H1 H2). repeat split; try assumption. lia.
Qed.

(* opening a tree the way every user inside the library does (validate(true): validate, repair on failure) enters at
   most 2 * (number of nodes) + 1002 leaves in total *)
Lemma nntree_open_visits_lemma : forall cap g root, c4_wf g ->
  c4v_leaves (fst (fst (c4_nn_open cap g root))) +
  match snd (c4_nn_open cap g root) with Some r => c4rp_leaves (fst r) | None => 0 end
  <= 2 * N.of_nat (length g) + 1002.
Proof.
  intros cap g root Hwf. unfold c4_nn_open. cbn [fst snd].
  pose proof (nntree_validate_visits_lemma cap g root) as Hv.
  destruct (nntree_repair_visits_lemma cap g root Hwf) as (Hr & _).
  destruct (c4v_err (fst (c4_nn_validate cap g root))); lia.
Qed.

(* ------------------------------------------------------------------ (d) outlines *)
Lemma c4_ochain_inv : forall fuel g cur l,
  c4_wf g -> NoDup l -> incl l (c4_keys g) -> (length g < fuel + length l)%nat ->
  exists l' b, c4_ochain fuel g cur l l = Some (rev l', b) /\ NoDup l' /\ incl l' (c4_keys g).
Proof.
  induction fuel as [|f IH]; intros g cur l Hwf Hn Hi Hlen.
  - pose proof (c4_nodup_keys_le _ g l Hn Hi). lia.
  - cbn [c4_ochain]. destruct (if cur =? 0 then None else c4_find g cur) as [nd|] eqn:Ef; [|exists l, false; auto].
    destruct (cur =? 0); [discriminate|].
    destruct (c4_mem cur l) eqn:Em; [exists l, true; auto|].
    rewrite c4_mem_false in Em.
    apply IH; [assumption | constructor; assumption | | cbn [length]; lia].
    intros x [Hx|Hx]; [subst; eapply c4_find_some_key; eauto | auto].
Qed.

(* the sibling walk (/First, /Next, /Next ...) ends within one round through the nodes; the siblings it returns are
   distinct nodes of the graph *)
Lemma outlines_chain_fuel_lemma : forall g cur, c4_wf g ->
  exists sibs b, c4_ochain (S (length g)) g cur [] [] = Some (sibs, b) /\ NoDup sibs /\ incl sibs (c4_keys g) /\
                 (length sibs <= length g)%nat.
Proof.
  intros g cur Hwf. destruct (c4_ochain_inv (S (length g)) g cur [] Hwf) as (l' & b & H & Hn & Hi);
    [constructor | intros x [] | cbn; lia|].
  exists (rev l'), b. split; [exact H|]. split; [apply NoDup_rev; exact Hn|]. split.
  - intros x Hx. apply Hi. apply in_rev. exact Hx.
  - rewrite rev_length. eapply c4_nodup_keys_le; eauto.
Qed.

Definition c4_oinv (g : list (N * c4_onode)) (st : c4_ost) : Prop :=
  NoDup (c4os_exp st) /\ incl (c4os_exp st) (c4os_seen st) /\ incl (c4os_exp st) (c4_keys g) /\
  (c4os_maxdepth st <= 50)%nat /\ c4os_fuel_out st = false.
Definition c4_oA (st : c4_ost) : N := N.of_nat (length (c4os_exp st)).
(* relation between the state before and after n helper constructions *)
Definition c4_orel (g : list (N * c4_onode)) (n : N) (st st' : c4_ost) : Prop :=
  c4_oinv g st' /\
  c4os_made st' + c4_oA st * N.of_nat (length g) <= c4os_made st + n + c4_oA st' * N.of_nat (length g) /\
  c4_oA st <= c4_oA st' /\
  c4os_made st' + c4_oA st + c4os_cut st + c4os_warn st <= c4os_made st + c4_oA st' + c4os_cut st' + c4os_warn st'.

Lemma c4_ofold_rel : forall (F : c4_ost -> N -> c4_ost) g sibs st,
  (forall k st, In k sibs -> c4_oinv g st -> c4_orel g 1 st (F st k)) ->
  c4_oinv g st -> c4_orel g (N.of_nat (length sibs)) st (fold_left F sibs st).
Proof.
  intros F g sibs. induction sibs as [|k sibs IH]; intros st HF Hinv.
  - unfold c4_orel. cbn [fold_left length]. split; [exact Hinv|]. repeat split; lia.
  - cbn [fold_left]. destruct (HF k st (or_introl eq_refl) Hinv) as (Hi1 & Hm1 & Ha1 & Hp1).
    destruct (IH (F st k) (fun k' st' Hk => HF k' st' (or_intror Hk)) Hi1) as (Hi2 & Hm2 & Ha2 & Hp2).
    unfold c4_orel. split; [exact Hi2|]. cbn [length]. repeat split; lia.
Qed.

Lemma c4_ocreate_rel : forall fuel g n depth st,
  c4_wf g -> In n (c4_keys g) -> (depth <= 51)%nat -> (53 <= fuel + depth)%nat -> c4_oinv g st ->
  c4_orel g 1 st (c4_ocreate fuel g n depth st).
Proof.
  induction fuel as [|f IH]; intros g n depth st Hwf Hin Hd Hf Hinv; [lia|].
  destruct Hinv as (Hnd & His & Hik & Hmd & Hfo).
  cbn [c4_ocreate]. cbn [c4os_seen c4os_made c4os_warn c4os_cut c4os_exp c4os_fuel_out c4os_maxdepth].
  destruct (Nat.ltb 50 depth) eqn:El.
  { unfold c4_orel, c4_oinv, c4_oA; cbn. repeat split; try assumption; lia. }
  apply PeanoNat.Nat.ltb_ge in El.
  destruct (c4_mem n (c4os_seen st)) eqn:Em.
  { unfold c4_orel, c4_oinv, c4_oA; cbn. repeat split; try assumption; lia. }
  rewrite c4_mem_false in Em.
  set (first := match c4_find g n with Some nd => c4o_first nd | None => 0 end).
  destruct (outlines_chain_fuel_lemma g first Hwf) as (sibs & looped & Hc & Hsn & Hsi & Hsl). rewrite Hc.
  set (st2 := mkC4ost (n :: c4os_seen st) (c4os_made st + 1) (c4os_warn st) (c4os_cut st) (n :: c4os_exp st) (c4os_fuel_out st)
                      (Nat.max (c4os_maxdepth st) depth)).
  assert (Hinv2 : c4_oinv g st2).
  { unfold c4_oinv, st2; cbn. repeat split.
    - constructor; [intro Hx; apply Em, His, Hx | assumption].
    - intros x [Hx|Hx]; [left; exact Hx | right; apply His; exact Hx].
    - intros x [Hx|Hx]; [subst; assumption | apply Hik; exact Hx].
    - apply PeanoNat.Nat.max_lub; assumption.
    - assumption. }
  pose proof (c4_ofold_rel (fun st k => c4_ocreate f g k (S depth) st) g sibs st2) as Hfold.
  destruct Hfold as (Hi3 & Hm3 & Ha3 & Hp3); [|exact Hinv2|].
  { intros k st' Hk Hinv'. apply IH; try assumption; [apply Hsi; exact Hk | lia | lia]. }
  set (st3 := fold_left (fun st k => c4_ocreate f g k (S depth) st) sibs st2) in *.
  assert (HA2 : c4_oA st2 = c4_oA st + 1) by (unfold c4_oA, st2; cbn [c4os_exp length]; lia).
  assert (Hm2 : c4os_made st2 = c4os_made st + 1) by reflexivity.
  assert (Hc2 : c4os_cut st2 = c4os_cut st) by reflexivity.
  assert (Hw2 : c4os_warn st2 = c4os_warn st) by reflexivity.
  rewrite HA2, Hm2 in Hm3. rewrite HA2, Hm2, Hc2, Hw2 in Hp3. rewrite HA2 in Ha3.
  assert (Hsl' : N.of_nat (length sibs) <= N.of_nat (length g)) by lia.
  destruct looped.
  - destruct Hi3 as (H1 & H2 & H3 & H4 & H5).
    unfold c4_orel, c4_oinv. cbn [c4os_seen c4os_made c4os_warn c4os_cut c4os_exp c4os_fuel_out c4os_maxdepth].
    unfold c4_oA in *. cbn [c4os_exp]. repeat split; try assumption; lia.
  - unfold c4_orel. split; [exact Hi3|]. repeat split; lia.
Qed.

Lemma c4_ost0_inv : forall g, c4_oinv g c4_ost0.
Proof. intros g. unfold c4_oinv, c4_ost0; cbn. repeat split; try constructor; try (intros x []); lia. Qed.

Lemma c4_outlines_rel : forall g first, c4_wf g ->
  exists n, n <= N.of_nat (length g) /\ c4_orel g n c4_ost0 (c4_outlines g first).
Proof.
  intros g first Hwf. unfold c4_outlines.
  destruct (outlines_chain_fuel_lemma g first Hwf) as (tops & looped & Hc & Hsn & Hsi & Hsl). rewrite Hc.
  pose proof (c4_ofold_rel (fun st k => c4_ocreate 52 g k 1 st) g tops c4_ost0) as Hfold.
  destruct Hfold as (Hi3 & Hm3 & Ha3 & Hp3); [|apply c4_ost0_inv|].
  { intros k st' Hk Hinv'. apply c4_ocreate_rel; try assumption; [apply Hsi; exact Hk | lia | lia]. }
  exists (N.of_nat (length tops)). split; [lia|].
  destruct looped; [|unfold c4_orel; split; [exact Hi3|]; repeat split; assumption].
  destruct Hi3 as (H1 & H2 & H3 & H4 & H5).
  unfold c4_orel, c4_oinv. cbn [c4os_seen c4os_made c4os_warn c4os_cut c4os_exp c4os_fuel_out c4os_maxdepth].
  unfold c4_oA in *. cbn [c4os_exp]. repeat split; try assumption; lia.
Qed.

(* the outline walk never exhausts its fuel (52 for the nesting, one round through the nodes for every sibling walk) *)
Lemma outlines_fuel_lemma : forall g first, c4_wf g -> c4os_fuel_out (c4_outlines g first) = false.
Proof. intros g first Hwf. destruct (c4_outlines_rel g first Hwf) as (n & _ & (_ & _ & _ & _ & H) & _). exact H. Qed.

(* children are walked at depth <= 50 only *)
Lemma outlines_depth_lemma : forall g first, c4_wf g -> (c4os_maxdepth (c4_outlines g first) <= 50)%nat.
Proof. intros g first Hwf. destruct (c4_outlines_rel g first Hwf) as (n & _ & (_ & _ & _ & H & _) & _). exact H. Qed.

(* every node has its children walked at most once *)
Lemma outlines_expanded_lemma : forall g first, c4_wf g ->
  NoDup (c4os_exp (c4_outlines g first)) /\ (length (c4os_exp (c4_outlines g first)) <= length g)%nat.
Proof.
  intros g first Hwf. destruct (c4_outlines_rel g first Hwf) as (n & _ & (H1 & _ & H3 & _) & _).
  split; [exact H1 | eapply c4_nodup_keys_le; eauto].
Qed.

(* the number of helper objects constructed is at most n + n*n for n nodes (it IS quadratic for k nodes that all name
   the same chain of k children), and every helper that does not walk children is cut at depth 50 or comes with the
   "Loop detected" warning *)
Lemma outlines_made_lemma : forall g first, c4_wf g ->
  c4os_made (c4_outlines g first) <= N.of_nat (length g) + N.of_nat (length g) * N.of_nat (length g) /\
  c4os_made (c4_outlines g first) <=
    N.of_nat (length (c4os_exp (c4_outlines g first))) + c4os_cut (c4_outlines g first) + c4os_warn (c4_outlines g first).
Proof.
  intros g first Hwf. destruct (c4_outlines_rel g first Hwf) as (n & Hn & ((H1 & _ & H3 & _) & Hm & _ & Hp)).
  pose proof (c4_nodup_keys_le _ g _ H1 H3) as Hle.
  unfold c4_oA, c4_ost0 in *. cbn [c4os_exp c4os_made c4os_cut c4os_warn length] in *.
  split; [|lia].
  assert (N.of_nat (length (c4os_exp (c4_outlines g first))) * N.of_nat (length g) <= N.of_nat (length g) * N.of_nat (length g))
    by (apply N.mul_le_mono_r; lia).
  lia.
Qed.

(* a node that is reached again (it is in the document-wide seen set) is reported and not expanded *)
Lemma outlines_revisit_reported_lemma : forall f g n depth st, (depth <= 50)%nat -> In n (c4os_seen st) ->
  c4os_warn (c4_ocreate (S f) g n depth st) = c4os_warn st + 1 /\ c4os_exp (c4_ocreate (S f) g n depth st) = c4os_exp st.
Proof.
  intros f g n depth st Hd Hin. cbn [c4_ocreate]. cbn [c4os_seen].
  destruct (Nat.ltb 50 depth) eqn:El; [apply PeanoNat.Nat.ltb_lt in El; lia|].
  apply c4_mem_true in Hin. rewrite Hin. cbn. auto.
Qed.

(* ------------------------------------------------------------------ (d') AcroForm *)
Lemma c4_finherit_inv : forall fuel g ov node depth seen, c4_wf g -> NoDup seen -> incl seen (c4_keys g) ->
  (length g + 9 < fuel + length seen + Nat.min depth 9)%nat -> c4_finherit fuel g ov node depth seen <> None.
Proof.
  induction fuel as [|f IH]; intros g ov node depth seen Hwf Hn Hi Hlen.
  - pose proof (c4_nodup_keys_le _ g seen Hn Hi). lia.
  - cbn [c4_finherit]. destruct (c4_find g node) as [nd|] eqn:Ef; [|discriminate].
    destruct (if c4_fparent ov node nd =? 0 then None else c4_find g (c4_fparent ov node nd)) as [pd|]; [|discriminate].
    destruct (Nat.ltb (S depth) 10) eqn:El.
    + apply PeanoNat.Nat.ltb_lt in El. cbn [negb]. destruct (c4f_FT pd); [discriminate|].
      apply IH; try assumption. lia.
    + apply PeanoNat.Nat.ltb_ge in El.
      destruct (c4_add node seen) as [ok seen'] eqn:Ea.
      destruct (c4_add_spec _ _ _ _ Ea (c4_wf_find_nonzero _ g node nd Hwf Ef)) as [(-> & Hni & ->)|(-> & _ & ->)]; cbn [negb]; [|discriminate].
      destruct (c4f_FT pd); [discriminate|].
      apply IH; [assumption | constructor; assumption | | cbn [length]; lia].
      intros x [Hx|Hx]; [subst; eapply c4_find_some_key; eauto | auto].
Qed.

(* FormNode::inherited: the walk up the /Parent entries ends after at most 10 + (number of nodes) steps although loop
   detection only starts at depth 10 *)
Lemma acroform_inherit_fuel_lemma : forall g ov node, c4_wf g -> c4_finherit (length g + 11) g ov node 0 [] <> None.
Proof. intros g ov node Hwf. apply c4_finherit_inv; [assumption | constructor | intros x [] | cbn; lia]. Qed.

(* total length of the /Kids arrays of the nodes in l, and of the whole graph *)
Definition c4_fw (g : list (N * c4_fnode)) (l : list N) : N :=
  fold_right (fun n acc => N.of_nat (length (c4_fkids g n)) + acc) 0 l.
Definition c4_fkl (nd : c4_fnode) : N := N.of_nat (length (match c4f_kids nd with Some l => l | None => [] end)).
Definition c4_ftotal (g : list (N * c4_fnode)) : N := fold_right (fun p acc => c4_fkl (snd p) + acc) 0 g.

Lemma c4_fkids_cons : forall k a g n, c4_fkids ((k, a) :: g) n = if n =? 0 then [] else if n =? k then match c4f_kids a with Some l => l | None => [] end else c4_fkids g n.
Proof.
  intros k a g n. unfold c4_fkids. destruct (n =? 0) eqn:E0; [reflexivity|]. cbn [c4_find]. destruct (n =? k); reflexivity.
Qed.

Lemma c4_fw_cons_le : forall k a g l, NoDup l ->
  c4_fw ((k, a) :: g) l <= (if in_dec N.eq_dec k l then c4_fkl a else 0) + c4_fw g l.
Proof.
  intros k a g l. induction l as [|n l IH]; intros Hn; [cbn; lia|].
  apply NoDup_cons_iff in Hn as [Hni Hn']. specialize (IH Hn').
  cbn [c4_fw fold_right]. fold (c4_fw ((k, a) :: g) l). fold (c4_fw g l).
  rewrite c4_fkids_cons.
  destruct (in_dec N.eq_dec k (n :: l)) as [Hin|Hnin]; destruct (in_dec N.eq_dec k l) as [Hin'|Hnin'].
  - destruct (n =? 0); [cbn [length]; lia|]. destruct (n =? k) eqn:E; [apply N.eqb_eq in E; subst; contradiction | lia].
  - destruct Hin as [<-|Hin]; [|contradiction].
    destruct (n =? 0); [cbn [length]; unfold c4_fkl; lia|]. rewrite N.eqb_refl. unfold c4_fkl. lia.
  - exfalso. apply Hnin. right. exact Hin'.
  - destruct (n =? 0); [cbn [length]; lia|]. destruct (n =? k) eqn:E; [apply N.eqb_eq in E; subst; exfalso; apply Hnin; left; reflexivity | lia].
Qed.

Lemma c4_fw_le_total : forall g l, NoDup l -> c4_fw g l <= c4_ftotal g.
Proof.
  induction g as [|[k a] g IH]; intros l Hn.
  - induction l as [|n l IHl]; [cbn; lia|]. apply NoDup_cons_iff in Hn as [_ Hn']. cbn [c4_fw fold_right]. fold (c4_fw (@nil (N * c4_fnode)) l).
    specialize (IHl Hn'). unfold c4_fkids. destruct (n =? 0); cbn in *; lia.
  - pose proof (c4_fw_cons_le k a g l Hn) as H. specialize (IH l Hn). cbn [c4_ftotal fold_right snd]. fold (c4_ftotal g).
    destruct (in_dec N.eq_dec k l); lia.
Qed.

Definition c4_finv (g : list (N * c4_fnode)) (st : c4_fst) : Prop :=
  NoDup (c4fs_exp st) /\ incl (c4fs_exp st) (c4_keys g) /\
  (forall x, In x (c4fs_exp st) -> In x (c4fs_fields st) \/ In x (c4fs_ann st) \/ In x (c4fs_unnamed st)) /\
  (c4fs_maxdepth st <= 100)%nat /\ c4fs_fuel_out st = false.

Lemma c4_finv_ext : forall g st st',
  c4fs_exp st' = c4fs_exp st -> incl (c4fs_fields st) (c4fs_fields st') -> incl (c4fs_ann st) (c4fs_ann st') ->
  incl (c4fs_unnamed st) (c4fs_unnamed st') -> (c4fs_maxdepth st' <= 100)%nat -> c4fs_fuel_out st' = false ->
  c4_finv g st -> c4_finv g st'.
Proof.
  intros g st st' He Hf Ha Hu Hm Hfo (H1 & H2 & H3 & _ & _). unfold c4_finv. rewrite He.
  repeat split; try assumption. intros x Hx. destruct (H3 x Hx) as [H|[H|H]]; auto.
Qed.

Definition c4_frel (g : list (N * c4_fnode)) (n : N) (st st' : c4_fst) : Prop :=
  c4_finv g st' /\ c4fs_calls st' + c4_fw g (c4fs_exp st) <= c4fs_calls st + n + c4_fw g (c4fs_exp st').

Lemma c4_incl_if_cons : forall (x : N) l, incl l (if c4_mem x l then l else x :: l).
Proof. intros x l. destruct (c4_mem x l); [apply incl_refl | apply incl_tl, incl_refl]. Qed.

Ltac c4_proj := cbn [c4fs_fields c4fs_ann c4fs_bad c4fs_unnamed c4fs_calls c4fs_wloop c4fs_wtwo c4fs_wparent c4fs_wkind c4fs_exp
  c4fs_maxdepth c4fs_par c4fs_fuel_out c4fs_upd_calls c4fs_upd_fuel c4fs_upd_wloop c4fs_upd_wkind c4fs_upd_wtwo c4fs_upd_enter
  c4fs_upd_annot c4fs_upd_correct c4fs_upd_named c4fs_upd_unnamed c4fs_upd_exp c4fs_upd_bad].
Ltac c4_simple_branch Hinv :=
  cbn [snd]; split; [eapply c4_finv_ext; [| | | | | |exact Hinv]; c4_proj; try reflexivity; try apply incl_refl; try apply Hinv | c4_proj; lia].

Lemma c4_ffold_rel : forall f g field depth,
  (forall kid st, c4_finv g st -> c4_frel g 1 st (snd (c4_ftrav f g kid field (S depth) st))) ->
  forall l st, c4_finv g st ->
  c4_frel g (N.of_nat (length l)) st
    (fold_left (fun st0 kid => if c4_mem kid (c4fs_bad st0) then st0
                               else let '(r, st') := c4_ftrav f g kid field (S depth) st0 in
                                    if r then st' else c4fs_upd_bad kid st') l st).
Proof.
  intros f g field depth H l. induction l as [|kid l IHl]; intros st Hinv.
  - cbn [fold_left length]. split; [exact Hinv | lia].
  - cbn [fold_left length]. destruct (c4_mem kid (c4fs_bad st)).
    + destruct (IHl st Hinv) as [H1 H2]. split; [exact H1 | lia].
    + pose proof (H kid st Hinv) as Hr. destruct (c4_ftrav f g kid field (S depth) st) as [r st'] eqn:E. cbn [snd] in Hr.
      destruct Hr as [Hi1 Hc1].
      destruct r.
      * destruct (IHl st' Hi1) as [H1 H2]. split; [exact H1 | lia].
      * assert (Hib : c4_finv g (c4fs_upd_bad kid st')).
        { eapply c4_finv_ext; [| | | | | |exact Hi1]; c4_proj; try reflexivity; try apply incl_refl; apply Hi1. }
        destruct (IHl _ Hib) as [H1 H2]. split; [exact H1|]. revert H2. c4_proj. lia.
Qed.

Lemma c4_record_inv : forall g field parent pc nd st2,
  c4_finv g st2 -> In field (c4_keys g) -> ~ In field (c4fs_exp st2) ->
  (c4f_T nd = false -> c4_fis_annot nd = true -> In field (c4fs_ann st2)) ->
  c4_finv g (c4fs_upd_record field parent pc nd st2) /\
  c4fs_exp (c4fs_upd_record field parent pc nd st2) = field :: c4fs_exp st2 /\
  c4fs_calls (c4fs_upd_record field parent pc nd st2) = c4fs_calls st2.
Proof.
  intros g field parent pc nd st2 (H1 & H2 & H3 & H4 & H5) Hk Hni Hann.
  unfold c4fs_upd_record.
  set (sa := match pc with 3%nat => c4fs_upd_correct field parent st2 | _ => st2 end).
  assert (Ea : c4fs_exp sa = c4fs_exp st2 /\ c4fs_fields sa = c4fs_fields st2 /\ c4fs_ann sa = c4fs_ann st2 /\
               c4fs_unnamed sa = c4fs_unnamed st2 /\ c4fs_calls sa = c4fs_calls st2 /\ c4fs_maxdepth sa = c4fs_maxdepth st2 /\
               c4fs_fuel_out sa = c4fs_fuel_out st2).
  { unfold sa. destruct pc as [|[|[|[|p]]]]; repeat split; reflexivity. }
  destruct Ea as (Ea1 & Ea2 & Ea3 & Ea4 & Ea5 & Ea6 & Ea7).
  set (sb := if c4f_T nd then c4fs_upd_named field sa else if negb (c4_fis_annot nd) then c4fs_upd_unnamed field sa else sa).
  assert (Eb : c4fs_exp sb = c4fs_exp st2 /\ incl (c4fs_fields st2) (c4fs_fields sb) /\ incl (c4fs_ann st2) (c4fs_ann sb) /\
               incl (c4fs_unnamed st2) (c4fs_unnamed sb) /\ c4fs_calls sb = c4fs_calls st2 /\ c4fs_maxdepth sb = c4fs_maxdepth st2 /\
               c4fs_fuel_out sb = c4fs_fuel_out st2 /\
               (In field (c4fs_fields sb) \/ In field (c4fs_ann sb) \/ In field (c4fs_unnamed sb))).
  { unfold sb. destruct (c4f_T nd) eqn:ET; [|destruct (c4_fis_annot nd) eqn:EA; cbn [negb]]; c4_proj;
      rewrite ?Ea1, ?Ea2, ?Ea3, ?Ea4, ?Ea5, ?Ea6, ?Ea7; repeat split; try reflexivity; try apply incl_refl; try apply c4_incl_if_cons.
    - left. destruct (c4_mem field (c4fs_fields st2)) eqn:Em; [apply c4_mem_true; exact Em | left; reflexivity].
    - right. left. apply Hann; reflexivity.
    - right. right. destruct (c4_mem field (c4fs_unnamed st2)) eqn:Em; [apply c4_mem_true; exact Em | left; reflexivity]. }
  destruct Eb as (Eb1 & Eb2 & Eb3 & Eb4 & Eb5 & Eb6 & Eb7 & Eb8).
  c4_proj. rewrite Eb1, Eb5. split; [|split; reflexivity].
  unfold c4_finv. c4_proj. rewrite Eb1, Eb6, Eb7. repeat split; try assumption.
  - constructor; assumption.
  - intros x [Hx|Hx]; [subst; assumption | apply H2; exact Hx].
  - intros x [Hx|Hx]; [subst; exact Eb8|]. destruct (H3 x Hx) as [H|[H|H]]; auto.
Qed.

Lemma c4_ftrav_rel : forall fuel g field parent depth st, c4_wf g -> (depth <= 101)%nat -> (103 <= fuel + depth)%nat -> c4_finv g st ->
  c4_frel g 1 st (snd (c4_ftrav fuel g field parent depth st)).
Proof.
  induction fuel as [|f IH]; intros g field parent depth st Hwf Hd Hf Hinv; [lia|].
  cbn [c4_ftrav].
  destruct (Nat.ltb 100 depth) eqn:El; [c4_simple_branch Hinv|].
  apply PeanoNat.Nat.ltb_ge in El.
  destruct (field =? 0) eqn:E0; [c4_simple_branch Hinv|].
  destruct (field =? parent) eqn:Ep; [c4_simple_branch Hinv|].
  destruct (c4_find g field) as [nd|] eqn:Ef; [|c4_simple_branch Hinv].
  set (st1 := c4fs_upd_enter field depth (c4fs_upd_calls st)).
  assert (Hinv1 : c4_finv g st1).
  { eapply c4_finv_ext; [| | | | | |exact Hinv]; unfold st1; c4_proj; try reflexivity; try apply incl_refl; try apply Hinv.
    apply PeanoNat.Nat.max_lub; [apply Hinv | lia]. }
  assert (Hc1 : c4fs_calls st1 = c4fs_calls st + 1) by reflexivity.
  assert (He1 : c4fs_exp st1 = c4fs_exp st) by reflexivity.
  destruct (c4_mem field (c4fs_fields st1) || c4_mem field (c4fs_ann st1) || c4_mem field (c4fs_bad st1)) eqn:Eseen.
  { cbn [snd]. split; [eapply c4_finv_ext; [| | | | | |exact Hinv1]; c4_proj; try reflexivity; try apply incl_refl; try apply Hinv1 | c4_proj; rewrite ?Hc1, ?He1; lia]. }
  destruct (negb (c4_fis_field g st1 field nd) && negb (c4_fis_annot nd)) eqn:Ekind.
  { cbn [snd]. split; [eapply c4_finv_ext; [| | | | | |exact Hinv1]; c4_proj; try reflexivity; try apply incl_refl; try apply Hinv1 | c4_proj; rewrite ?Hc1, ?He1; lia]. }
  set (st2 := if c4_fis_annot nd then c4fs_upd_annot (if c4_fis_field g st1 field nd then field else parent) field st1 else st1).
  assert (Hinv2 : c4_finv g st2).
  { unfold st2. destruct (c4_fis_annot nd); [|exact Hinv1].
    eapply c4_finv_ext; [| | | | | |exact Hinv1]; c4_proj; try reflexivity; try apply incl_refl; try apply Hinv1.
    - apply c4_incl_if_cons.
    - apply incl_tl, incl_refl. }
  assert (Hc2 : c4fs_calls st2 = c4fs_calls st + 1) by (unfold st2; destruct (c4_fis_annot nd); reflexivity).
  assert (He2 : c4fs_exp st2 = c4fs_exp st) by (unfold st2; destruct (c4_fis_annot nd); reflexivity).
  destruct (negb (c4_fis_field g st1 field nd)) eqn:Enf.
  { cbn [snd]. split; [exact Hinv2 | rewrite Hc2, He2; lia]. }
  assert (Hkey : In field (c4_keys g)) by (eapply c4_find_some_key; eauto).
  assert (Hnexp : ~ In field (c4fs_exp st2)).
  { rewrite He2. intro Hx. destruct Hinv as (_ & _ & H3 & _). apply orb_false_elim in Eseen as [Eseen Eb]. apply orb_false_elim in Eseen as [Efi Ean].
    revert Efi Ean Eb. unfold st1. c4_proj. intros Efi Ean Eb. rewrite c4_mem_false in Efi, Ean.
    destruct (H3 field Hx) as [H|[H|H]]; [contradiction | contradiction|].
    apply c4_mem_true in H. rewrite H in Eb. destruct (c4_mem field (c4fs_bad st)) eqn:Em; [congruence|].
    cbn [c4_mem existsb] in Eb. rewrite N.eqb_refl in Eb. discriminate. }
  assert (Hann : c4f_T nd = false -> c4_fis_annot nd = true -> In field (c4fs_ann st2)).
  { intros _ HA. unfold st2. rewrite HA. c4_proj. left. reflexivity. }
  assert (Hkids : c4_fkids g field = match c4f_kids nd with Some l => l | None => [] end).
  { unfold c4_fkids. rewrite E0, Ef. reflexivity. }
  assert (Hgen : forall pc, c4_frel g 1 st
            (fold_left (fun st0 kid => if c4_mem kid (c4fs_bad st0) then st0
                                       else let '(r, st') := c4_ftrav f g kid field (S depth) st0 in
                                            if r then st' else c4fs_upd_bad kid st')
                       (match c4f_kids nd with Some l => l | None => [] end) (c4fs_upd_record field parent pc nd st2))).
  { intros pc. destruct (c4_record_inv g field parent pc nd st2 Hinv2 Hkey Hnexp Hann) as (Hi3 & He3 & Hc3).
    pose proof (c4_ffold_rel f g field depth) as Hfold.
    destruct (Hfold (fun kid st' Hi => IH g kid field (S depth) st' Hwf ltac:(lia) ltac:(lia) Hi)
                    (match c4f_kids nd with Some l => l | None => [] end) _ Hi3) as [H1 H2].
    split; [exact H1|]. rewrite He3, Hc3, Hc2 in H2. rewrite He2 in H2. cbn [c4_fw fold_right] in H2. fold (c4_fw g (c4fs_exp st)) in H2.
    rewrite Hkids in H2. lia. }
  destruct (c4_fpcheck g st2 field parent depth nd) as [|[|[|n1]]]; cbn [snd].
  - apply Hgen.
  - split; [eapply c4_finv_ext; [| | | | | |exact Hinv2]; c4_proj; try reflexivity; try apply incl_refl; apply Hinv2 | c4_proj; rewrite Hc2, He2; lia].
  - split; [eapply c4_finv_ext; [| | | | | |exact Hinv2]; c4_proj; try reflexivity; try apply incl_refl; apply Hinv2 | c4_proj; rewrite Hc2, He2; lia].
  - apply Hgen.
Qed.

Lemma c4_fst0_inv : forall g, c4_finv g c4_fst0.
Proof. intros g. unfold c4_finv, c4_fst0; c4_proj. repeat split; try apply NoDup_nil; try (intros x []); lia. Qed.

Lemma c4_acroform_fold_rel_gen : forall fuel g fields st, (103 <= fuel)%nat -> c4_wf g -> c4_finv g st ->
  c4_frel g (N.of_nat (length fields)) st (fold_left (fun st k => snd (c4_ftrav fuel g k 0 0 st)) fields st).
Proof.
  intros fuel g fields. induction fields as [|k l IH]; intros st Hfu Hwf Hinv.
  - cbn [fold_left length]. split; [exact Hinv | lia].
  - cbn [fold_left length]. destruct (c4_ftrav_rel fuel g k 0 0 st Hwf) as [H1 H2]; [lia | lia | exact Hinv|].
    destruct (IH _ Hfu Hwf H1) as [H3 H4]. split; [exact H3 | lia].
Qed.

Lemma c4_acroform_fold_rel : forall g fields st, c4_wf g -> c4_finv g st ->
  c4_frel g (N.of_nat (length fields)) st (fold_left (fun st k => snd (c4_ftrav 103 g k 0 0 st)) fields st).
Proof. intros g fields st. apply (c4_acroform_fold_rel_gen 103 g fields st). apply le_n. Qed.

(* traverseField never exhausts fuel 103, whatever the graph: the depth limit bounds the recursion *)
Lemma acroform_fuel_lemma : forall g fields, c4_wf g -> c4fs_fuel_out (c4_acroform g fields) = false.
Proof. intros g fields Hwf. destruct (c4_acroform_fold_rel g fields c4_fst0 Hwf (c4_fst0_inv g)) as [(_ & _ & _ & _ & H) _]. exact H. Qed.

(* recursion depth never exceeds 100 *)
Lemma acroform_depth_lemma : forall g fields, c4_wf g -> (c4fs_maxdepth (c4_acroform g fields) <= 100)%nat.
Proof. intros g fields Hwf. destruct (c4_acroform_fold_rel g fields c4_fst0 Hwf (c4_fst0_inv g)) as [(_ & _ & _ & H & _) _]. exact H. Qed.

(* no field has its /Kids iterated twice, and the number of calls of traverseField is at most the number of entries of
   /Fields plus the total length of the /Kids arrays of the graph: linear in the size of the input *)
Lemma acroform_calls_lemma : forall g fields, c4_wf g ->
  NoDup (c4fs_exp (c4_acroform g fields)) /\ (length (c4fs_exp (c4_acroform g fields)) <= length g)%nat /\
  c4fs_calls (c4_acroform g fields) <= N.of_nat (length fields) + c4_ftotal g.
Proof.
  intros g fields Hwf. destruct (c4_acroform_fold_rel g fields c4_fst0 Hwf (c4_fst0_inv g)) as [(H1 & H2 & _) H3].
  split; [exact H1|]. split; [eapply c4_nodup_keys_le; eauto|].
  pose proof (c4_fw_le_total g _ H1) as Hw. unfold c4_acroform. cbn [c4_fst0 c4fs_calls c4fs_exp c4_fw fold_right] in H3. lia.
Qed.

(* a field that is reached again after its /Kids were iterated is reported ("loop detected while traversing /AcroForm")
   and not expanded *)
Lemma acroform_revisit_reported_lemma : forall f g field parent depth st, c4_wf g -> c4_finv g st ->
  In field (c4fs_exp st) -> (depth <= 100)%nat ->
  fst (c4_ftrav (S f) g field parent depth st) = false /\
  c4fs_wloop (snd (c4_ftrav (S f) g field parent depth st)) = c4fs_wloop st + 1 /\
  c4fs_exp (snd (c4_ftrav (S f) g field parent depth st)) = c4fs_exp st.
Proof.
  intros f g field parent depth st Hwf (_ & H2 & H3 & _) Hin Hd. cbn [c4_ftrav].
  destruct (Nat.ltb 100 depth) eqn:El; [apply PeanoNat.Nat.ltb_lt in El; lia|].
  pose proof (H2 field Hin) as Hk. destruct (c4_find_key_some _ g field Hk) as [nd Ef].
  assert (E0 : (field =? 0) = false) by (apply N.eqb_neq; eapply c4_wf_find_nonzero; eauto). rewrite E0.
  destruct (field =? parent); [cbn [fst snd]; c4_proj; auto|]. rewrite Ef.
  assert (Es : c4_mem field (c4fs_fields (c4fs_upd_enter field depth (c4fs_upd_calls st)))
               || c4_mem field (c4fs_ann (c4fs_upd_enter field depth (c4fs_upd_calls st)))
               || c4_mem field (c4fs_bad (c4fs_upd_enter field depth (c4fs_upd_calls st))) = true).
  { c4_proj. destruct (H3 field Hin) as [H|[H|H]]; apply c4_mem_true in H; rewrite H.
    - reflexivity.
    - apply orb_true_iff. left. apply orb_true_r.
    - apply orb_true_iff. right. destruct (c4_mem field (c4fs_bad st)) eqn:Em; [exact Em|]. cbn [c4_mem existsb]. rewrite N.eqb_refl. reflexivity. }
  rewrite Es. cbn [fst snd]. c4_proj. auto.
Qed.

(* ------------------------------------------------------------------ (e) parser limits *)
Definition c4_nres_depth (r : c4_nres) : N := match r with C4nDone d | C4nLimit d | C4nEof d => d end.

Lemma c4_nest_run_inv : forall mx toks depth maxd, depth <= maxd -> maxd <= mx + 1 ->
  c4_nres_depth (c4_nest_run mx toks depth maxd) <= mx + 1.
Proof.
  intros mx toks. induction toks as [|t r IH]; intros depth maxd H1 H2; [cbn; exact H2|].
  destruct t; cbn [c4_nest_run].
  - destruct (mx <? depth) eqn:E; [cbn; exact H2|]. apply N.ltb_ge in E. apply IH; lia.
  - destruct (depth <=? 1); [cbn; exact H2|]. apply IH; lia.
  - apply IH; assumption.
Qed.

(* the parser's container stack never holds more than parser_max_nesting + 1 frames, for every token sequence *)
Lemma parser_nesting_bounded_lemma : forall mx toks, c4_nres_depth (c4_nest mx toks) <= mx + 1.
Proof. intros mx toks. unfold c4_nest. apply c4_nest_run_inv; lia. Qed.

(* ... and a run of opening tokens longer than the limit is refused with the limits error *)
Lemma parser_nesting_refused_lemma : forall mx rest,
  exists d, c4_nest mx (repeat C4tOpen (N.to_nat mx + 1) ++ rest) = C4nLimit d.
Proof.
  intros mx rest. unfold c4_nest.
  assert (H : forall k depth maxd, (1 <= k)%nat -> N.of_nat k + depth = mx + 2 ->
            exists d, c4_nest_run mx (repeat C4tOpen k ++ rest) depth maxd = C4nLimit d).
  { induction k as [|k IH]; intros depth maxd Hk Hd; [lia|].
    cbn [repeat app c4_nest_run]. destruct (mx <? depth) eqn:E; [eexists; reflexivity|].
    apply N.ltb_ge in E. apply IH; lia. }
  apply H; lia.
Qed.

Lemma c4_bad_run_budget : forall lim_d lim_n sanity evs s nbad mx,
  0 < c4b_max s -> nbad + c4b_max s = mx ->
  snd (c4_bad_run lim_d lim_n sanity evs s nbad) <= mx.
Proof.
  intros lim_d lim_n sanity evs. induction evs as [|e r IH]; intros s nbad mx Hpos Hsum; [cbn; lia|].
  cbn [c4_bad_run]. destruct (c4e_bad e).
  - unfold c4_bad_check. cbn [c4b_max c4b_good c4b_bad].
    match goal with |- context [if ?c then C4bContainer else _] => destruct c end; [cbn; lia|].
    destruct (c4b_max s =? 0) eqn:E0; [apply N.eqb_eq in E0; lia|]. cbn [negb andb].
    destruct (c4b_max s - 1 =? 0) eqn:E1; [cbn; lia|]. apply N.eqb_neq in E1.
    match goal with |- context [if ?c then C4bGoOn _ else _] => destruct c end.
    + apply IH; cbn [c4b_max]; lia.
    + match goal with |- context [if ?c then C4bGiveUp else _] => destruct c end; [cbn; lia|].
      apply IH; cbn [c4b_max]; lia.
  - match goal with |- context [if ?c then (C4bContainer, _) else _] => destruct c end; [cbn; lia|].
    apply IH; cbn [c4b_max]; assumption.
Qed.

(* the parse-error budget: with parser_max_errors = mx > 0 the parser handles at most mx bad tokens of one object,
   whatever the tokens are (the mx-th one ends the object with the limits error at the latest) *)
Lemma parser_error_budget_lemma : forall lim_d lim_n sanity evs mx, 0 < mx ->
  snd (c4_bad_run lim_d lim_n sanity evs (mkC4bst mx 0 0) 0) <= mx.
Proof. intros. apply c4_bad_run_budget; cbn [c4b_max]; lia. Qed.

(* ------------------------------------------------------------------ (f) checked conversions *)
Definition c4_in_range (sg : bool) (bits : N) (v : Z) : Prop := (c4_tmin sg bits <= v <= c4_tmax sg bits)%Z.

Lemma c4_pow_split : forall b, 0 < b -> (2 ^ Z.of_N b = 2 * 2 ^ (Z.of_N b - 1))%Z.
Proof. intros b Hb. rewrite <- Z.pow_succ_r by lia. f_equal. lia. Qed.

Lemma c4_cast_id : forall sg bits v, 0 < bits -> c4_in_range sg bits v -> c4_cast sg bits v = v.
Proof.
  intros sg bits v Hb [H1 H2]. unfold c4_cast, c4_tmin, c4_tmax in *.
  pose proof (c4_pow_split bits Hb) as Hp.
  assert (Hpos : (0 < 2 ^ (Z.of_N bits - 1))%Z) by (apply Z.pow_pos_nonneg; lia).
  destruct sg.
  - destruct (Z_lt_ge_dec v 0) as [Hn|Hn].
    + assert (E : (v mod 2 ^ Z.of_N bits = v + 2 ^ Z.of_N bits)%Z).
      { symmetry. apply Z.mod_unique with (q := (-1)%Z); lia. }
      rewrite E. cbn [andb]. destruct (2 ^ (Z.of_N bits - 1) <=? v + 2 ^ Z.of_N bits)%Z eqn:El; [lia|].
      apply Z.leb_gt in El. lia.
    + rewrite Z.mod_small by lia. cbn [andb]. destruct (2 ^ (Z.of_N bits - 1) <=? v)%Z eqn:El; [apply Z.leb_le in El; lia | reflexivity].
  - cbn [andb]. rewrite Z.mod_small by lia. reflexivity.
Qed.

(* QIntC::to_*: for every pair of integral types and every source value, the result is the error outcome or the
   value itself - never a wrapped value - and it is the error outcome exactly when the value is outside the target *)
Lemma conversion_checked_lemma : forall fs fb ts tb i, 0 < fb -> 0 < tb -> c4_in_range fs fb i ->
  (c4_in_range ts tb i -> c4_convert fs fb ts tb i = Some i) /\
  (~ c4_in_range ts tb i -> c4_convert fs fb ts tb i = None).
Proof.
  intros fs fb ts tb i Hfb Htb Hin.
  assert (Hposf : (0 < 2 ^ (Z.of_N fb - 1))%Z) by (apply Z.pow_pos_nonneg; lia).
  assert (Hpost : (0 < 2 ^ (Z.of_N tb - 1))%Z) by (apply Z.pow_pos_nonneg; lia).
  pose proof (c4_pow_split fb Hfb) as Hpf. pose proof (c4_pow_split tb Htb) as Hpt.
  unfold c4_convert. destruct fs, ts.
  - (* signed -> signed *)
    split; intros Ht.
    + destruct Ht as [H1 H2]. destruct (i <? c4_tmin true tb)%Z eqn:E1; [apply Z.ltb_lt in E1; lia|].
      destruct (c4_tmax true tb <? i)%Z eqn:E2; [apply Z.ltb_lt in E2; lia|]. cbn [orb].
      rewrite c4_cast_id; [reflexivity | assumption | split; assumption].
    + destruct (i <? c4_tmin true tb)%Z eqn:E1; [reflexivity|]. destruct (c4_tmax true tb <? i)%Z eqn:E2; [reflexivity|].
      apply Z.ltb_ge in E1, E2. exfalso. apply Ht. split; assumption.
  - (* signed -> unsigned *)
    split; intros Ht.
    + destruct Ht as [H1 H2]. unfold c4_tmin in H1. destruct (i <? 0)%Z eqn:E1; [apply Z.ltb_lt in E1; lia|]. cbn [orb].
      assert (Hc : c4_cast false fb i = i).
      { unfold c4_cast. cbn [andb]. destruct Hin as [_ Hi2]. unfold c4_tmax in Hi2. apply Z.mod_small. lia. }
      rewrite Hc. destruct (c4_tmax false tb <? i)%Z eqn:E2; [apply Z.ltb_lt in E2; lia|].
      rewrite c4_cast_id; [reflexivity | assumption | split; assumption].
    + destruct (i <? 0)%Z eqn:E1; [reflexivity|]. cbn [orb]. apply Z.ltb_ge in E1.
      assert (Hc : c4_cast false fb i = i).
      { unfold c4_cast. cbn [andb]. destruct Hin as [_ Hi2]. unfold c4_tmax in Hi2. apply Z.mod_small. lia. }
      rewrite Hc. destruct (c4_tmax false tb <? i)%Z eqn:E2; [reflexivity|]. apply Z.ltb_ge in E2.
      exfalso. apply Ht. split; [unfold c4_tmin; exact E1 | exact E2].
  - (* unsigned -> signed *)
    assert (Hm : c4_cast false tb (c4_tmax true tb) = c4_tmax true tb).
    { unfold c4_cast, c4_tmax. cbn [andb]. apply Z.mod_small. lia. }
    rewrite Hm. destruct Hin as [Hi1 _]. unfold c4_tmin in Hi1.
    split; intros Ht.
    + destruct Ht as [H1 H2]. destruct (c4_tmax true tb <? i)%Z eqn:E2; [apply Z.ltb_lt in E2; lia|].
      rewrite c4_cast_id; [reflexivity | assumption | split; assumption].
    + destruct (c4_tmax true tb <? i)%Z eqn:E2; [reflexivity|]. apply Z.ltb_ge in E2.
      exfalso. apply Ht. split; [unfold c4_tmin; lia | exact E2].
  - (* unsigned -> unsigned *)
    destruct Hin as [Hi1 _]. unfold c4_tmin in Hi1.
    split; intros Ht.
    + destruct Ht as [H1 H2]. destruct (c4_tmax false tb <? i)%Z eqn:E2; [apply Z.ltb_lt in E2; lia|].
      rewrite c4_cast_id; [reflexivity | assumption | split; assumption].
    + destruct (c4_tmax false tb <? i)%Z eqn:E2; [reflexivity|]. apply Z.ltb_ge in E2.
      exfalso. apply Ht. split; [unfold c4_tmin; exact Hi1 | exact E2].
Qed.

(* util::fits<T> is exactly "the value is inside T's range", and util::to<T> never returns a wrapped value *)
Lemma fits_exact_lemma : forall fs fb ts tb v, 0 < tb -> c4_in_range fs fb v ->
  (c4_fits fs fb ts tb v = true <-> c4_in_range ts tb v) /\
  (forall r, c4_util_to fs fb ts tb v = Some r -> r = v /\ c4_in_range ts tb r).
Proof.
  intros fs fb ts tb v Htb [Hf1 Hf2].
  assert (Hfit : c4_fits fs fb ts tb v = true <-> c4_in_range ts tb v).
  { unfold c4_fits, c4_in_range. rewrite andb_true_iff, !negb_true_iff, !andb_false_iff, !Z.ltb_ge. split.
    - intros [[H|H] [H'|H']]; lia.
    - intros [H1 H2]. split; right; assumption. }
  split; [exact Hfit|]. intros r Hr. unfold c4_util_to in Hr. destruct (c4_fits fs fb ts tb v) eqn:E; [|discriminate].
  pose proof (proj1 Hfit eq_refl) as E'. inversion Hr; subst. rewrite c4_cast_id by assumption. split; [reflexivity | exact E'].
Qed.

(* ------------------------------------------------------------------ (g) one reconstruction per document *)
Definition c4_late (e : c4_rev) : bool := negb (c4r_found_startxref e) && c4r_late_ok e.

Lemma c4_recon_step_cases : forall s e,
  c4r_scans (c4_recon_step s e) + (if c4r_flag s then 1 else 0) + 1 <=
  c4r_scans s + 1 + (if c4r_flag (c4_recon_step s e) then 1 else 0) + (if c4_late e then 1 else 0).
Proof.
  intros s e. unfold c4_recon_step, c4_late. destruct (c4r_flag s); [cbn; destruct (negb (c4r_found_startxref e) && c4r_late_ok e); lia|].
  destruct (negb (c4r_found_startxref e) && c4r_late_ok e); cbn; lia.
Qed.
Lemma c4_recon_fold : forall evs s,
  c4r_scans (fold_left c4_recon_step evs s) + (if c4r_flag s then 1 else 0)
    <= c4r_scans s + 1 + N.of_nat (length (filter c4_late evs)).
Proof.
  induction evs as [|e r IH]; intros s; [cbn; destruct (c4r_flag s); lia|].
  cbn [fold_left filter]. specialize (IH (c4_recon_step s e)). pose proof (c4_recon_step_cases s e) as Hc.
  destruct (c4r_flag s); destruct (c4r_flag (c4_recon_step s e)); destruct (c4_late e); cbn [length]; lia.
Qed.

(* for ANY sequence of error events the file is scanned at most once, plus once for every time the late-startxref
   branch succeeded (that branch resets the flag) *)
Lemma reconstruct_bounded_lemma : forall evs,
  c4r_scans (c4_recon_run evs) <= 1 + N.of_nat (length (filter c4_late evs)).
Proof. intros evs. unfold c4_recon_run. pose proof (c4_recon_fold evs (mkC4rst false 0 0)) as H. cbn [c4r_flag c4r_scans] in H. lia. Qed.

(* only the call made by parse() can have found_startxref = false: at most two reconstructions per document, and at
   most one when that call does not take the late-startxref branch *)
Lemma reconstruct_at_most_twice_lemma : forall e evs,
  Forall (fun e => c4r_found_startxref e = true) evs ->
  c4r_scans (c4_recon_run (e :: evs)) <= 2 /\ (c4_late e = false -> c4r_scans (c4_recon_run (e :: evs)) <= 1).
Proof.
  intros e evs H.
  assert (Hf : filter c4_late evs = []).
  { induction H as [|x l Hx Hl IH]; [reflexivity|]. cbn [filter]. unfold c4_late at 1. rewrite Hx. cbn. exact IH. }
  pose proof (reconstruct_bounded_lemma (e :: evs)) as Hb. cbn [filter] in Hb.
  destruct (c4_late e); cbn [length] in Hb; rewrite Hf in Hb; cbn [length] in Hb; split; intros; try discriminate; lia.
Qed.

(* ------------------------------------------------------------------ exception translation *)
(* nothing derived from std::exception leaves the C API or the CLI untranslated: the C API sets QPDF_ERRORS with one of
   three documented codes, the CLI exits with 2; without an exception the status is 0, or 3 with warnings *)
Lemma exception_translation_lemma : forall e w,
  (e <> C4eNone -> fst (c4_trap_c e) = true /\ 1 <= snd (c4_trap_c e) <= 3 /\ c4_trap_cli e w = 2) /\
  (e = C4eNone -> c4_trap_c e = (false, 0) /\ c4_trap_cli e w = (if w then 3 else 0)).
Proof. intros e w. destruct e; cbn; split; intros H; try congruence; repeat split; try lia; reflexivity. Qed.
