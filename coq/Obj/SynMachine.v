(* C03, object layer: the recursive-descent specification of Obj/SynSpec.v as a small-step machine over the
   token list (auxiliary; the property statement is in Obj/ParseProofs.v) *)
From QV Require Import Base.Bytes Lex.LexSpec Obj.SynSpec.
Local Open Scope N_scope.

Inductive sframe :=
| SFArr (acc : list sobj)
| SFDictK (acc : list (list N * sobj))
| SFDictV (acc : list (list N * sobj)) (k : list N).

Inductive sres :=
| SNext (s : list sframe) (ts : list ptoken)
| SDone (o : sobj) (ts : list ptoken)
| SFail.

Definition deliver (o : sobj) (s : list sframe) (ts : list ptoken) : sres :=
  match s with
  | [] => SDone o ts
  | SFArr acc :: s' => SNext (SFArr (o :: acc) :: s') ts
  | SFDictV acc k :: s' => SNext (SFDictK ((k, o) :: acc) :: s') ts
  | SFDictK _ :: _ => SFail
  end.

Definition sm_value (s : list sframe) (ts : list ptoken) : sres :=
  match ts with
  | PInt n :: PInt g :: PKeyword w :: rest =>
      if list_eqb N.eqb w kw_R then
        if (0 <? n)%Z && (0 <=? g)%Z then deliver (SyRef n g) s rest else SFail
      else deliver (SyInt n) s (PInt g :: PKeyword w :: rest)
  | PInt n :: rest => deliver (SyInt n) s rest
  | PReal m k :: rest => deliver (SyReal m k) s rest
  | PStr x :: rest => deliver (SyStr x) s rest
  | PName n :: rest => deliver (SyName n) s rest
  | PBool b :: rest => deliver (SyBool b) s rest
  | PNull :: rest => deliver SyNull s rest
  | PArrOpen :: rest => SNext (SFArr [] :: s) rest
  | PDictOpen :: rest => SNext (SFDictK [] :: s) rest
  | _ => SFail
  end.

Definition sm_step (s : list sframe) (ts : list ptoken) : sres :=
  match s with
  | [] => SFail
  | SFArr acc :: s' =>
      match ts with
      | PArrClose :: rest => deliver (SyArr (rev' acc)) s' rest
      | _ => sm_value s ts
      end
  | SFDictK acc :: s' =>
      match ts with
      | PDictClose :: rest => deliver (SyDict (rev' acc)) s' rest
      | PName k :: rest => if has_key k acc then SFail else SNext (SFDictV acc k :: s') rest
      | _ => SFail
      end
  | SFDictV _ _ :: _ => sm_value s ts
  end.

(* the machine, continued from a step result, finishes with object o and remaining tokens ts *)
Inductive sm_done : sres -> sobj -> list ptoken -> Prop :=
| smd_done : forall o ts, sm_done (SDone o ts) o ts
| smd_next : forall s ts o ts', sm_done (sm_step s ts) o ts' -> sm_done (SNext s ts) o ts'.

Definition value_pos (s : list sframe) : Prop :=
  match s with [] => True | SFArr _ :: _ => True | SFDictV _ _ :: _ => True | SFDictK _ :: _ => False end.

(* the two inner loops of syn_obj, named *)
Definition items_of (f : nat) :=
  fix items (g : nat) (ts : list ptoken) (acc : list sobj) {struct g} : option (sobj * list ptoken) :=
    match g with
    | O => None
    | Datatypes.S g' =>
        match ts with
        | PArrClose :: rest' => Some (SyArr (rev' acc), rest')
        | _ => match syn_obj f ts with
               | Some (o, ts') => items g' ts' (o :: acc)
               | None => None
               end
        end
    end.

Definition entries_of (f : nat) :=
  fix entries (g : nat) (ts : list ptoken) (acc : list (list N * sobj)) {struct g} : option (sobj * list ptoken) :=
    match g with
    | O => None
    | Datatypes.S g' =>
        match ts with
        | PDictClose :: rest' => Some (SyDict (rev' acc), rest')
        | PName k :: ts1 =>
            if has_key k acc then None
            else match syn_obj f ts1 with
                 | Some (o, ts') => entries g' ts' ((k, o) :: acc)
                 | None => None
                 end
        | _ => None
        end
    end.

Lemma syn_obj_arr f ts : syn_obj (Datatypes.S f) (PArrOpen :: ts) = items_of f (Datatypes.S f) ts [].
Proof. reflexivity. Qed.
Lemma syn_obj_dict f ts : syn_obj (Datatypes.S f) (PDictOpen :: ts) = entries_of f (Datatypes.S f) ts [].
Proof. reflexivity. Qed.

Lemma items_sm f (IH : forall ts o ts1, syn_obj f ts = Some (o, ts1) ->
                       forall s o' ts', sm_done (deliver o s ts1) o' ts' -> sm_done (sm_value s ts) o' ts') :
  forall g ts acc o ts1, items_of f g ts acc = Some (o, ts1) ->
  forall s o' ts', sm_done (deliver o s ts1) o' ts' -> sm_done (sm_step (SFArr acc :: s) ts) o' ts'.
Proof.
  induction g as [|g IHg]; intros ts acc o ts1 H s o' ts' Hd; [discriminate|].
  cbn [items_of] in H. fold (items_of f) in H.
  destruct ts as [|t0 ts0].
  - destruct (syn_obj f []) as [[o1 ts2]|] eqn:E; [|discriminate]. destruct f; discriminate.
  - assert (Hcase : (t0 = PArrClose) \/ (t0 <> PArrClose)) by (destruct t0; (left; reflexivity) || (right; discriminate)).
    destruct Hcase as [-> | Hne].
    + injection H as <- <-. cbn [sm_step]. exact Hd.
    + assert (Hs : sm_step (SFArr acc :: s) (t0 :: ts0) = sm_value (SFArr acc :: s) (t0 :: ts0)) by (destruct t0; try reflexivity; contradiction).
      rewrite Hs.
      assert (H2 : match syn_obj f (t0 :: ts0) with
                   | Some (o1, ts2) => items_of f g ts2 (o1 :: acc)
                   | None => None
                   end = Some (o, ts1)) by (destruct t0; try exact H; contradiction).
      destruct (syn_obj f (t0 :: ts0)) as [[o1 ts2]|] eqn:E; [|discriminate].
      apply (IH _ _ _ E). cbn [deliver]. apply smd_next. apply (IHg _ _ _ _ H2). exact Hd.
Qed.

Lemma entries_sm f (IH : forall ts o ts1, syn_obj f ts = Some (o, ts1) ->
                       forall s o' ts', sm_done (deliver o s ts1) o' ts' -> sm_done (sm_value s ts) o' ts') :
  forall g ts acc o ts1, entries_of f g ts acc = Some (o, ts1) ->
  forall s o' ts', sm_done (deliver o s ts1) o' ts' -> sm_done (sm_step (SFDictK acc :: s) ts) o' ts'.
Proof.
  induction g as [|g IHg]; intros ts acc o ts1 H s o' ts' Hd; [discriminate|].
  cbn [entries_of] in H. fold (entries_of f) in H.
  destruct ts as [|t0 ts0]; [discriminate|].
  destruct t0; try discriminate.
  - injection H as <- <-. cbn [sm_step]. exact Hd.
  - cbn [sm_step]. destruct (has_key n acc); [discriminate|].
    destruct (syn_obj f ts0) as [[o1 ts2]|] eqn:E; [|discriminate].
    apply smd_next. cbn [sm_step]. apply (IH _ _ _ E). cbn [deliver]. apply smd_next. apply (IHg _ _ _ _ H). exact Hd.
Qed.

Lemma syn_to_sm : forall f ts o ts1, syn_obj f ts = Some (o, ts1) ->
  forall s o' ts', sm_done (deliver o s ts1) o' ts' -> sm_done (sm_value s ts) o' ts'.
Proof.
  induction f as [|f IH]; intros ts o ts1 H s o' ts' Hd; [discriminate|].
  destruct ts as [|t ts]; [discriminate|].
  destruct t; try discriminate.
  - rewrite syn_obj_arr in H. cbn [sm_value]. apply smd_next. apply (items_sm f IH _ _ _ _ _ H). exact Hd.
  - rewrite syn_obj_dict in H. cbn [sm_value]. apply smd_next. apply (entries_sm f IH _ _ _ _ _ H). exact Hd.
  - (* int *)
    cbn [syn_obj] in H. cbn [sm_value].
    destruct ts as [|t2 ts2]; [injection H as <- <-; exact Hd|].
    destruct t2; try (injection H as <- <-; exact Hd).
    destruct ts2 as [|t3 ts3]; [injection H as <- <-; exact Hd|].
    destruct t3; try (injection H as <- <-; exact Hd).
    destruct (list_eqb N.eqb w kw_R).
    + destruct ((0 <? z)%Z && (0 <=? z0)%Z); [|discriminate]. injection H as <- <-. exact Hd.
    + injection H as <- <-. exact Hd.
  - cbn [syn_obj] in H. injection H as <- <-. exact Hd.
  - cbn [syn_obj] in H. injection H as <- <-. exact Hd.
  - cbn [syn_obj] in H. injection H as <- <-. exact Hd.
  - cbn [syn_obj] in H. injection H as <- <-. exact Hd.
  - cbn [syn_obj] in H. injection H as <- <-. exact Hd.
Qed.
