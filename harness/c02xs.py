# C02 extension - byte-exact correspondence of the extracted object-stream / xref-stream writer model
# (coq/Obj/WriterModelXS.v: xs_write_doc) with the real qpdf in the mode
#     qpdf --static-id --object-streams=generate --compress-streams=n --decode-level=none in.pdf out.pdf
# The generator is aimed at the case splits of the modelled code: number of eligible objects (1, 2, 99, 100, 101,
# 200, 201: the split of generateObjectStreams and the width of the index field, which is 0 for a one-member stream),
# the cross-reference stream's offset crossing 2^8 and 2^16 (width of field 1), the exclusions of Objects::compressible
# (streams, signature dictionaries in their variants), null entries, references to null / free / out-of-range objects,
# unreferenced objects, shared and cyclic references, depth-first order different from object-number order, direct and
# indirect /Info, extra trailer keys. Every real output is also judged by the specification side (extracted strict reader
# + requested-form clauses), which shares nothing with the writer model.
import os, re
import common, filecheck, pdfgen, wmodel
from pdfgen import Name, Ref, Str, Real, Stream, D

N = Name
MODE = ["--object-streams=generate", "--compress-streams=n", "--decode-level=none"]
CORR = "corr:C02:byte-exact-xref-stream-writer"


def small_value(rng, refs):
    """a small non-stream value, possibly referring to earlier objects"""
    k = rng.randrange(9)
    if k == 0:
        return rng.randint(-70000, 70000)
    if k == 1:
        return {b"I": rng.randrange(1000)}
    if k == 2 and refs:
        return {b"A": rng.choice(refs), b"B": [rng.choice(refs), None, rng.randrange(9)]}
    if k == 3:
        return [Real(rng.choice(["1.5", "-0.25", ".5"])), True, False, None, N("Nm")]
    if k == 4:
        return Str(bytes(rng.choice(b"abc (\\)\n\x01\xe9") for _ in range(rng.choice([0, 3, 12]))))
    if k == 5 and refs:
        return [rng.choice(refs) for _ in range(rng.choice([1, 3]))]
    if k == 6:
        return N("Some#Name")
    if k == 7:
        return None
    return {b"K": {b"L": [{b"M": rng.choice(refs) if refs else 0}]}}


def counted_doc(E, rng):
    """document with exactly E objects that qpdf may compress (checked on the real output)"""
    if E == 1:
        # qpdf refuses a document without a page tree; a direct /Pages dictionary leaves the catalog as the only indirect object
        d = pdfgen.Doc()
        d.trailer = {b"Root": d.add(D(Type=N("Catalog"), Pages=D(Type=N("Pages"), Count=0, Kids=[])))}
        return d
    if E in (2, 3):
        d = pdfgen.Doc()
        cat = d.add(None)
        pages = d.add(D(Type=N("Pages"), Count=0, Kids=[]))
        d.objects[1] = D(Type=N("Catalog"), Pages=pages)
        if E == 3:
            d.objects[1][b"X"] = d.add([1, 2, 3])
        d.trailer = {b"Root": cat}
        return d
    d = pdfgen.page_doc(1, marker="E")
    refs = []
    for _ in range(E - 4):
        refs.append(d.add(small_value(rng, refs)))
    order = list(refs)
    rng.shuffle(order)                    # depth-first order of the eligibility walk differs from object-number order
    d.objects[1][b"Extras"] = order
    return d


def structure_doc(rng):
    """the exclusions and the null / dangling / unreferenced cases in one document"""
    d = pdfgen.page_doc(rng.choice([1, 2, 4]), marker="S", kids_levels=rng.choice([1, 2]))
    cat = d.objects[1]
    null_obj = d.add(None)
    name_sig = d.add(N("Sig"))
    free_id = max(d.objects) + 1          # a number below /Size that stays undefined (free in the input's table)
    d.objects[free_id + 1] = 0            # keeps free_id below /Size
    far_id = rng.choice([90, 5000])       # beyond /Size (< 60 here); below / above the reader's bound file size / 3
    sig_plain = d.add({b"Type": N("Sig"), b"ByteRange": [0, 1, 2, 3], b"Contents": Str(bytes(range(20)))})
    sig_indirect_type = d.add({b"Type": name_sig, b"ByteRange": [0, 1, 2, 3], b"Contents": Str(b"\x00\x01")})
    sig_no_contents = d.add({b"Type": N("Sig"), b"ByteRange": [0, 1, 2, 3]})
    sig_null_contents = d.add({b"Type": N("Sig"), b"ByteRange": [0, 1], b"Contents": null_obj})
    sig_dangling_range = d.add({b"Type": N("Sig"), b"ByteRange": Ref(far_id), b"Contents": Str(b"\x00\x02")})
    sig_no_type = d.add({b"ByteRange": [0, 1], b"Contents": Str(b"c"), b"Filter": N("Adobe.PPKLite")})
    # (the /Contents of a dictionary that IS a signature dictionary is forced into hex form by unparseObject; the shared printer
    #  WriterModel.unparse does not model that flag, so such strings are chosen binary here: hex form either way, as in C01)
    shared = d.add({b"Shared": True})
    cyc_a = d.add(None)
    cyc_b = d.add({b"Back": cyc_a, b"S": shared})
    d.objects[cyc_a.n] = {b"Fwd": cyc_b, b"Self": cyc_a, b"S": shared}
    strm = d.add(Stream({b"Ref": shared, b"Nothing": None, b"Gone": Ref(free_id), b"Sub": {b"Deep": [cyc_a]}},
                        bytes(rng.randrange(256) for _ in range(rng.choice([0, 1, 40])))))
    # stream parameters in indirect objects: the stream is kept as it is in this mode, so the references survive and the objects
    # behind them (reachable only through /Filter and /DecodeParms) are eligible like any other
    import zlib
    inner_parms = d.add({b"Predictor": 1})
    strm_params = d.add(Stream({b"Filter": d.add([N("FlateDecode")]), b"DecodeParms": d.add([inner_parms])}, zlib.compress(b"indirect parameter arrays")))
    strm_params2 = d.add(Stream({b"Filter": d.add(N("FlateDecode")), b"DecodeParms": d.add({b"Predictor": 1, b"Columns": rng.choice([1, 4])})},
                                zlib.compress(b"indirect name and dictionary")))
    strm_empty = d.add(Stream({b"Kind": N("Empty")}, b""))
    # not referenced from anywhere: must not be written
    d.add({b"Unreferenced": shared})
    d.add(Stream({b"Orphan": True}, b"orphan data"))
    items = [null_obj, Ref(free_id), Ref(far_id), None, sig_plain, sig_indirect_type, sig_no_contents, sig_null_contents,
             sig_dangling_range, sig_no_type, cyc_a, strm, shared, name_sig, strm_params, strm_params2, strm_empty]
    rng.shuffle(items)
    cat[b"Things"] = items
    cat[b"Nulls"] = {b"Direct": None, b"ToNull": null_obj, b"ToFree": Ref(free_id), b"ToFar": Ref(far_id), b"Kept": shared}
    cat[b"ANull"] = null_obj
    cat[b"Nested"] = [[{b"X": [d.add(rng.randrange(100)), [None, Ref(far_id)]]}], []]
    r = rng.random()
    info = D(Title=Str(b"structure"), Ref=shared)
    if r < 0.4:
        d.trailer[b"Info"] = d.add(info)
    elif r < 0.7:
        d.trailer[b"Info"] = info
    if rng.random() < 0.5:
        d.trailer[b"Extra"] = [d.add({b"FromTrailer": True}), Ref(far_id), None]
    if rng.random() < 0.5:
        d.trailer[b"AAA"] = d.add(Stream({}, b"stream named by the trailer before /Root"))
    return d


def as_parsed(doc, file_size):
    """the document as qpdf holds it after reading the file (reading is C03's subject): the parser turns a reference to an object
    that the cross-reference table does not define (free or beyond /Size) into a direct null (Objects::getObjectForParser), except
    that an undefined object named by the trailer, which is parsed before the table is complete, becomes an indirect null object
    when its number is below file size / 3 (xref_table_max_id in Objects::parse), and every reference to it stays indirect"""
    from_trailer = set()

    def collect(v):
        if isinstance(v, Ref):
            if v.n < file_size // 3:
                from_trailer.add(v.n)
        elif isinstance(v, list):
            for x in v:
                collect(x)
        elif isinstance(v, dict):
            for x in v.values():
                collect(x)
    collect(doc.trailer)
    defined = set(doc.objects) | from_trailer

    def conv(v):
        if isinstance(v, Ref):
            return v if v.n in defined else None
        if isinstance(v, list):
            return [conv(x) for x in v]
        if isinstance(v, dict):
            return {k: conv(x) for k, x in v.items()}
        return v
    d = pdfgen.Doc()
    d.version = doc.version
    d.trailer = conv(doc.trailer)
    for n in sorted(defined):
        o = doc.objects.get(n)
        d.objects[n] = Stream(conv(o.d), o.data) if isinstance(o, Stream) else conv(o)
    return d


def startxref_of(data):
    m = re.search(rb"startxref\n(\d+)\n%%EOF\n$", data)
    return int(m.group(1)) if m else None


def real_write(p, out):
    rc, se = filecheck.run_write(p, MODE, out, extra=("--static-id",))
    return rc, se


def boundary_docs(rng, wd, quick):
    """documents whose cross-reference stream starts just below / at 2^8 and 2^16 (calibrated on a real write)"""
    out = []

    def tiny(pad):
        d = counted_doc(2, rng)
        d.objects[1][b"P"] = Str(b"x" * pad)
        return d

    def padded(pad):
        d = pdfgen.page_doc(1, marker="B")
        d.objects[4].data = d.objects[4].data + b"%" + b"x" * pad + b"\n"
        return d

    for label, mk, pad0, target in (("2^8", tiny, 100, 256), ("2^16", padded, 64000, 65536)):
        p = os.path.join(wd, "xs_cal.pdf")
        open(p, "wb").write(pdfgen.write_classic(mk(pad0))[0])
        rc, se = real_write(p, p + ".real")
        s0 = startxref_of(open(p + ".real", "rb").read()) if rc == 0 else None
        if s0 is None:
            continue
        for delta in (range(-4, 4) if label == "2^8" else range(-2, 2)):
            pad = pad0 + (target - s0) + delta
            if pad >= 0:
                out.append(("bound%s_%d" % (label.replace("^", ""), pad), mk(pad)))
    return out


def run_part(chk, wd, runner):
    rng = chk.rng
    quick = chk.tier == "quick"
    docs = []
    targets = [1, 2, 3, 5, 99, 100, 101, 200, 201] if quick else [1, 2, 3, 4, 5, 50, 99, 100, 101, 102, 199, 200, 201, 299, 300, 301, 400, 1000]
    for E in targets:
        docs.append(("elig%d" % E, counted_doc(E, rng), E))
    for name, doc in boundary_docs(rng, wd, quick):
        docs.append((name, doc, None))
    for i in range(12 if quick else 60):
        docs.append(("struct%d" % i, structure_doc(rng), None))
    gen = filecheck.gen_docs(rng, 24 if quick else 150) + [("b" + n, x, dd) for n, x, dd in filecheck.gen_docs(rng, 4 if quick else 30, big=True)]
    for name, data, doc in gen:
        if b"Extensions" in doc.objects[1]:
            continue                 # the writer rewrites /Extensions /ADBE: outside the model's domain (as in C01)
        if any(isinstance(o, dict) and b"ByteRange" in o and b"Contents" in o for o in doc.objects.values()):
            # a signature's /Contents is forced into hex form (f_hex_string), which the shared printer does not model: random
            # signature dictionaries are outside the model's domain here (structure_doc holds the signature variants whose
            # /Contents print in hex form anyway); found by the thorough tier (xs_bgen18: model 11 bytes shorter)
            continue
        docs.append((name, doc, None))
    bx = []
    for k, (name, doc, E) in enumerate(docs):
        if not name.startswith("bound"):
            # setMinimumPDFVersion("1.5") against the input's version: below, equal, above
            doc.version = rng.choice([b"1.3", b"1.4", b"1.4", b"1.5", b"1.6", b"1.7", b"2.0"])
        p = os.path.join(wd, "xs_%s.pdf" % name)
        with_id = (b"0123456789abcdef", b"fedcba9876543210") if k % 3 else None
        data = pdfgen.write_classic(doc, with_id=with_id)[0]
        open(p, "wb").write(data)
        wmodel.describe(as_parsed(doc, len(data)), p + ".doc", b"0123456789abcdef" if with_id else None)
        bx.append((name, p, E))
    doc_versions = {name: doc.version.decode() for name, doc, _ in docs}
    mres = common.run_lines(runner, ["xs_write_docf %s %s" % (p + ".doc", p + ".model") for _, p, _ in bx])
    rcs = common.par_map(lambda t: real_write(t[1], t[1] + ".real"), bx, workers=4)
    ok = [(name, p, E) for (name, p, E), (rc, se) in zip(bx, rcs) if rc == 0 and os.path.exists(p + ".real")]
    sr = dict(zip([p for _, p, _ in ok], filecheck.strict_read([p + ".real" for _, p, _ in ok])))
    import c02
    bdiff = []
    spec_failed = 0
    hit = {"members": set(), "startxref": set(), "W": set(), "streams": set(), "version": set()}
    nontriv = set()
    for (name, p, E), mo, (rc, se) in zip(bx, mres, rcs):
        case = {"input": p, "argv": ["qpdf", "--static-id"] + MODE + [p, "out.pdf"], "qpdf_exit": rc}
        if rc != 0:
            # the generated inputs are valid files: a write that does not complete cleanly is reported with the input
            chk.violation(dict(case, kind="property-fails-on-implementation", why="qpdf did not write a valid generated input cleanly",
                               stderr=se.decode("latin-1")[-300:]), signature="xs-write:%s" % name)
            spec_failed += 1
            continue
        b = open(p + ".real", "rb").read()
        r = sr[p]
        # specification side (independent of the writer model): strict reader + requested form
        if not r["ok"]:
            chk.violation(dict(case, kind="property-fails-on-implementation",
                               why="output is not strictly well-formed: " + filecheck.ERR.get(r["code"], str(r["code"])), strict_reader=r),
                          signature="strict:%s:xs:%s" % (r["code"], name))
            spec_failed += 1
            continue
        sd = filecheck.StrictDoc(r, p + ".real")
        probs = c02.form_check(["--object-streams=generate", "--compress-streams=n"], sd, name)
        members = [int(x) for x in re.findall(rb"/Type /ObjStm /Length \d+ /N (\d+)", b)]
        if E is not None and sum(members) != E:
            probs.append("generator aimed at %d eligible objects but the output has %s members" % (E, members))
        for prob in probs:
            chk.violation(dict(case, kind="property-fails-on-implementation", why="requested form not honoured: " + prob), signature="form:" + prob[:40])
            spec_failed += 1
        hit["members"].add(sum(members))
        hit["streams"].add(len(members))
        hit["startxref"].add(startxref_of(b))
        hit["version"].add("%s->%s" % (doc_versions[name], b[5:8].decode("latin-1")))
        w = re.search(rb"/W \[ (\d+) (\d+) (\d+) \]", b)
        if w:
            hit["W"].add(tuple(int(x) for x in w.groups()))
        if not mo.startswith("ok"):
            bdiff.append({"input": p, "model": mo[:200]})
            continue
        a = open(p + ".model", "rb").read()
        if a != b:
            i = next((i for i, (x, y) in enumerate(zip(a, b)) if x != y), min(len(a), len(b)))
            bdiff.append({"input": p, "first_difference_at": i, "model_length": len(a), "implementation_length": len(b),
                          "model": a[max(0, i - 40):i + 40].hex(), "implementation": b[max(0, i - 40):i + 40].hex()})
        else:
            nontriv.add(name)
    if bdiff and not spec_failed:
        chk.violation({"kind": "correspondence-broken", "correspondence": CORR, "differing_cases": len(bdiff), "first_cases": bdiff[:3],
                       "note": "qpdf --static-id --object-streams=generate --compress-streams=n --decode-level=none differs byte-wise from the extracted "
                               "xs_write_doc while the strict reader and the requested-form clauses accept the real outputs"}, no_input=True)
    elif bdiff:
        chk.cov.setdefault("notes", []).append("%d byte differences from xs_write_doc accompany the reported violations" % len(bdiff))
    chk.count("byte-exact-xref-stream-writer-model", len(bx), nontriv, samples=[{"input": bx[0][1]}])
    part = chk.cov["parts"]["byte-exact-xref-stream-writer-model"]
    part["eligible_counts_hit"] = sorted(x for x in hit["members"] if x in (1, 2, 3, 99, 100, 101, 199, 200, 201, 299, 300, 301))
    part["object_streams_per_output"] = sorted(hit["streams"])
    part["W_arrays_seen"] = sorted(hit["W"])
    part["header_versions_seen"] = sorted(hit["version"])
    sx = hit["startxref"]
    part["xref_offsets_at_boundaries"] = sorted(x for x in sx if x is not None and (abs(x - 256) <= 2 or abs(x - 65536) <= 2))
    part["documents_satisfying_wf_doc_b"] = sum(1 for mo in mres if mo.endswith(" wf"))
    part["byte_differences"] = len(bdiff)
    if bdiff:
        part["first_differences"] = bdiff[:3]
