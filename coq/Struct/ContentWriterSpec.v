(* C16 extension (prefix ci_).  Specification side of "only page content is normalised", written from ISO 32000-1 Table 30
   (page object, entry Contents: "A content stream ... The value shall be either a single stream or an array of streams.
   If the value is an array, the effect shall be as if all of the streams in the array were concatenated") and 7.3.10
   (an indirect reference stands for the object it names): the content streams of a document are the streams named by the
   /Contents entry of a page directly, or as an element of the array that entry is (directly or through a reference).
   Independent of Struct/ContentWriter.v: a relation, no registration list. *)
From QV Require Import Base.Bytes Struct.ContentObj Struct.ContentList.
Local Open Scope N_scope.

Inductive ci_is_page_content (st : c16_store) (pages : list c16_cv) (n : N) : Prop :=
| ci_pc_single d :
    In (CvRef n) pages -> c16_lookup st n = Some (CoStream d) -> ci_is_page_content st pages n
| ci_pc_direct_array items :
    In (CvArr items) pages -> In (CvRef n) items -> ci_is_page_content st pages n
| ci_pc_indirect_array k items :
    In (CvRef k) pages -> c16_lookup st k = Some (CoArr items) -> In (CvRef n) items -> ci_is_page_content st pages n.
