// C14 driver: qpdf's JSON emission and import, in-process, through the public API plus the private
// headers for the helper functions (Name::analyzeJSONEncoding, Name::normalize, JSON::Writer::encode_string).
#include "drv.hh"
#include <qpdf/BufferInputSource.hh>
#include <qpdf/JSON.hh>
#include <qpdf/JSON_writer.hh>
#include <qpdf/Pl_Base64.hh>
#include <qpdf/Pl_Buffer.hh>
#include <qpdf/QPDF.hh>
#include <qpdf/QPDFObjectHandle.hh>
#include <qpdf/QPDFObjectHandle_private.hh>
#include <qpdf/QUtil.hh>
#include <memory>
#include <stdexcept>

namespace {
    std::string emit(QPDFObjectHandle oh, int version, size_t depth = 0) {
        Pl_Buffer p("json");
        oh.writeJSON(version, &p, true, depth);
        p.finish();
        return p.getString();
    }

    // tree encoding (one argument, tokens separated by ','):
    //   n t f i<dec> r<hex> s<hex> N<hex> R<num>.<gen>  [ ... ]  { k<hex> value ... }
    struct TreeParser {
        std::vector<std::string> toks;
        size_t pos{0};
        QPDF* q;
        QPDFObjectHandle parse() {
            std::string const& t = toks.at(pos++);
            char c = t.at(0);
            std::string rest = t.substr(1);
            switch (c) {
            case 'n': return QPDFObjectHandle::newNull();
            case 't': return QPDFObjectHandle::newBool(true);
            case 'f': return QPDFObjectHandle::newBool(false);
            case 'i': return QPDFObjectHandle::newInteger(std::stoll(rest));
            case 'r': return QPDFObjectHandle::newReal(unhex(rest));
            case 's': return QPDFObjectHandle::newString(unhex(rest));
            case 'N': return QPDFObjectHandle::newName(unhex(rest));
            case 'R': {
                auto dot = rest.find('.');
                int num = std::stoi(rest.substr(0, dot));   // generation is always 0 in the generated trees
                while (static_cast<int>(q->getObjectCount()) < num) {
                    q->makeIndirectObject(QPDFObjectHandle::newInteger(0));
                }
                return q->getObject(num, std::stoi(rest.substr(dot + 1)));
            }
            case '[': {
                auto a = QPDFObjectHandle::newArray();
                while (toks.at(pos) != "]") a.appendItem(parse());
                ++pos;
                return a;
            }
            case '{': {
                auto d = QPDFObjectHandle::newDictionary();
                while (toks.at(pos) != "}") {
                    std::string k = unhex(toks.at(pos++).substr(1));
                    d.replaceKey(k, parse());
                }
                ++pos;
                return d;
            }
            default: throw std::runtime_error("tree");
            }
        }
    };

    std::vector<std::string> split(std::string const& s, char sep) {
        std::vector<std::string> r;
        std::stringstream ss(s); std::string item;
        while (std::getline(ss, item, sep)) r.push_back(item);
        return r;
    }
}

// jreal <hex spelling>
static Reg r_jreal("jreal", [](std::vector<std::string> const& a) -> std::string {
    return hex(emit(QPDFObjectHandle::newReal(unhex(a.at(0))), 2));
});

// jstr <version> <hex bytes>
static Reg r_jstr("jstr", [](std::vector<std::string> const& a) -> std::string {
    return hex(emit(QPDFObjectHandle::newString(unhex(a.at(1))), std::stoi(a.at(0))));
});

// jname <version> <hex name including the leading slash>
static Reg r_jname("jname", [](std::vector<std::string> const& a) -> std::string {
    return hex(emit(QPDFObjectHandle::newName(unhex(a.at(1))), std::stoi(a.at(0))));
});

// jobj <version> <depth> <tree>
static Reg r_jobj("jobj", [](std::vector<std::string> const& a) -> std::string {
    QPDF q;
    q.emptyPDF();
    TreeParser tp;
    tp.toks = split(a.at(2), ',');
    tp.q = &q;
    auto oh = tp.parse();
    return hex(emit(oh, std::stoi(a.at(0)), static_cast<size_t>(std::stoul(a.at(1)))));
});

// janalyze <hex name>
static Reg r_janalyze("janalyze", [](std::vector<std::string> const& a) -> std::string {
    auto r = qpdf::Name::analyzeJSONEncoding(unhex(a.at(0)));
    return std::string(r.first ? "1" : "0") + (r.second ? "1" : "0");
});

// jimp <hex of a JSON string token, quotes included> : what QPDF::createFromJSON makes of {"value": <token>}
static Reg r_jimp("jimp", [](std::vector<std::string> const& a) -> std::string {
    std::string tok = unhex(a.at(0));
    std::string doc =
        "{\"qpdf\":[{\"jsonversion\":2,\"pdfversion\":\"1.3\",\"maxobjectid\":2},{"
        "\"obj:1 0 R\":{\"value\":[" + tok + "]},\"obj:2 0 R\":{\"value\":7},"
        "\"trailer\":{\"value\":{\"/Root\":\"2 0 R\"}}}]}";
    QPDF q;
    q.setSuppressWarnings(true);
    try {
        q.createFromJSON(std::make_shared<BufferInputSource>("json", doc));
    } catch (std::logic_error const& e) {
        return std::string("logic,") + hex(e.what());
    } catch (std::exception const&) {
        return "err";
    }
    auto oh = q.getObject(1, 0).getArrayItem(0);
    if (oh.isIndirect()) return "ref," + std::to_string(oh.getObjectID()) + "," + std::to_string(oh.getGeneration());
    if (oh.isString()) return "str," + hex(oh.getStringValue());
    if (oh.isName()) return "name," + hex(oh.getName());
    return "other," + hex(oh.unparseResolved());
});

// jimpv <hex of JSON value text> : import any value, report the re-exported JSON (generation 2)
static Reg r_jimpv("jimpv", [](std::vector<std::string> const& a) -> std::string {
    std::string tok = unhex(a.at(0));
    std::string doc =
        "{\"qpdf\":[{\"jsonversion\":2,\"pdfversion\":\"1.3\",\"maxobjectid\":2},{"
        "\"obj:1 0 R\":{\"value\":" + tok + "},\"obj:2 0 R\":{\"value\":7},"
        "\"trailer\":{\"value\":{\"/Root\":\"2 0 R\"}}}]}";
    QPDF q;
    q.setSuppressWarnings(true);
    try {
        q.createFromJSON(std::make_shared<BufferInputSource>("json", doc));
    } catch (std::logic_error const& e) {
        return std::string("logic,") + hex(e.what());
    } catch (std::exception const&) {
        return "err";
    }
    return "ok " + hex(emit(q.getObject(1, 0), 2));
});

// jutil <function> <arg>
static Reg r_jutil("jutil", [](std::vector<std::string> const& a) -> std::string {
    std::string const& f = a.at(0);
    if (f == "toutf8") return hex(QUtil::toUTF8(std::stoul(a.at(1))));
    if (f == "toutf16") return hex(QUtil::toUTF16(std::stoul(a.at(1))));
    std::string s = unhex(a.at(1));
    if (f == "u16to8") return hex(QUtil::utf16_to_utf8(s));
    if (f == "pd2u8") return hex(QUtil::pdf_doc_to_utf8(s));
    if (f == "u8topd") {
        std::string r;
        bool ok = QUtil::utf8_to_pdf_doc(s, r, '?');
        return std::string(ok ? "1 " : "0 ") + hex(r);
    }
    if (f == "u8to16") return hex(QUtil::utf8_to_utf16(s));
    if (f == "newu") return hex(QPDFObjectHandle::newUnicodeString(s).getStringValue());
    if (f == "nextcp") {
        size_t pos = 0;
        bool error = false;
        auto cp = QUtil::get_next_utf8_codepoint(s, pos, error);
        return std::to_string(cp) + " " + (error ? "1" : "0") + " " + std::to_string(pos);
    }
    if (f == "encstr") return hex(JSON::Writer::encode_string(s));
    if (f == "norm") return hex(qpdf::Name::normalize(s));
    if (f == "hexenc") return hex(QUtil::hex_encode(s));
    if (f == "hexdec") return hex(QUtil::hex_decode(s));
    if (f == "b64e") return hex(Pl_Base64::encode(s));
    if (f == "b64d") return hex(Pl_Base64::decode(s));
    if (f == "jparse") {   // a JSON string token through qpdf's own parser
        try {
            auto j = JSON::parse(s);
            std::string v;
            if (j.getString(v)) return "1 " + hex(v);
            return "0 -";
        } catch (std::exception const&) {
            return "0 -";
        }
    }
    if (f == "ownparse") {   // does qpdf's own JSON parser accept the text at all
        try {
            (void)JSON::parse(s);
            return "1";
        } catch (std::exception const&) {
            return "0";
        }
    }
    return "?unknown-function";
});

// ---- document-level import: QPDF::createFromJSON [+ updateFromJSON] on whole JSON texts, the resulting document as text
// (format: ocaml/h_json.ml show_doc; /Length is left out of stream dictionaries, null objects are left out)
namespace {
    std::string phex(std::string const& s) { return s.empty() ? std::string() : hex(s); }

    void tree_of(QPDFObjectHandle oh, bool top, std::vector<std::string>& out, bool strip_length = false) {
        if (!top && oh.isIndirect()) {
            out.push_back("R" + std::to_string(oh.getObjectID()) + "." + std::to_string(oh.getGeneration()));
            return;
        }
        switch (oh.getTypeCode()) {
        case ::ot_null: out.push_back("n"); break;
        case ::ot_boolean: out.push_back(oh.getBoolValue() ? "t" : "f"); break;
        case ::ot_integer: out.push_back("i" + std::to_string(oh.getIntValue())); break;
        case ::ot_real: out.push_back("r" + phex(oh.getRealValue())); break;
        case ::ot_string: out.push_back("s" + phex(oh.getStringValue())); break;
        case ::ot_name: out.push_back("N" + phex(oh.getName())); break;
        case ::ot_array:
            out.push_back("[");
            for (auto const& item: oh.getArrayAsVector()) tree_of(item, false, out);
            out.push_back("]");
            break;
        case ::ot_dictionary:
            out.push_back("{");
            for (auto const& [k, v]: oh.getDictAsMap()) {
                if (strip_length && k == "/Length") continue;
                out.push_back("k" + phex(k));
                tree_of(v, false, out);
            }
            out.push_back("}");
            break;
        case ::ot_reference:
            // only reachable at the top: QPDF::replaceObject(og, <handle of og>) leaves an object that refers to itself
            out.push_back("R" + std::to_string(oh.getObjectID()) + "." + std::to_string(oh.getGeneration()));
            break;
        default: out.push_back("?" + std::string(oh.getTypeName())); break;
        }
    }

    std::string join(std::vector<std::string> const& v) {
        std::string r;
        for (size_t i = 0; i < v.size(); ++i) { if (i) r += ","; r += v[i]; }
        return r;
    }
}

// jrimp <hex JSON text> [<hex JSON text for updateFromJSON>]
static Reg r_jrimp("jrimp", [](std::vector<std::string> const& a) -> std::string {
    QPDF q;
    q.setSuppressWarnings(true);
    try {
        q.createFromJSON(std::make_shared<BufferInputSource>("json", unhex(a.at(0))));
        if (a.size() > 1) {
            q.updateFromJSON(std::make_shared<BufferInputSource>("json2", unhex(a.at(1))));
        }
    } catch (std::logic_error const& e) {
        return std::string("logic,") + hex(e.what());
    } catch (std::exception const&) {
        return "none";
    }
    try {
        std::string r = "ok;v=" + phex(q.getPDFVersion()) + ";t=";
        std::vector<std::string> t;
        tree_of(q.getTrailer(), true, t);
        r += join(t);
        for (auto& oh: q.getAllObjects()) {
            if (oh.isNull()) continue;
            r += ";" + std::to_string(oh.getObjectID()) + "." + std::to_string(oh.getGeneration()) + "=";
            std::vector<std::string> o;
            if (oh.isStream()) {
                tree_of(oh.getDict(), true, o, true);
                std::string data;
                try {
                    auto b = oh.getRawStreamData();
                    data = "D" + phex(std::string(reinterpret_cast<char const*>(b->getBuffer()), b->getSize()));
                } catch (std::exception const&) {
                    data = "E";
                }
                r += "s:" + join(o) + ":" + data;
            } else {
                tree_of(oh, true, o);
                r += "v:" + join(o);
            }
        }
        return r;
    } catch (std::exception const& e) {
        return std::string("dumpfail,") + hex(e.what());
    }
});
